"""C01 translator: python `ast` of the CURRENT sources -> lean/PorepyVerif/C01/Generated.lean

Reads (never imports)
  <repo>/src/porepy/numerics/ad/forward_mode.py   class AdArray: __add__ __radd__ __sub__ __rsub__ __mul__ __rmul__ __pow__
                                                  __rpow__ __truediv__ __rtruediv__ __matmul__ __rmatmul__ __neg__ copy
                                                  _diagvec_mul_jac __getitem__, and initAdArrays
  <repo>/src/porepy/numerics/ad/functions.py      every top-level function except l2_norm / maximum (hand-modelled)

It is a small SYMBOLIC INTERPRETER of exactly the statement / expression shapes these functions use now.  An AdArray is the
pair (value expression, {root: coefficient expression}) meaning  val = f(...),  jac = sum_root diag(coef_root) @ root.jac  with
roots `self` and `other`; a python scalar / numpy array / masked array / boolean mask / sps.diags matrix / sparse operand are
separate symbolic types, so that e.g. `self.jac * A` (column scaling) or `jac * ndarray` cannot be mistaken for a row scaling.
Every method is run once per operand kind (S = python scalar, A = 1-d numpy array, Ad = AdArray, Sp = sparse matrix); the
`isinstance` chains are decided statically; composite methods (`__sub__`, `__truediv__`, ...) are inlined by interpreting the
methods they call.  The result per (method, kind) is one `Rule` (val, dself, dother) over the scalar language `SExpr` of
Model.lean, or an entry of the `raising` table.  Anything outside the understood fragment raises TranslateError: the harness
then reports the tie as broken and searches for a failing input with the oracle.

The translator does no algebra except dropping the factor 1 of an untouched Jacobian; what it emits is proved correct (or not)
by Lean in Props.lean and cross-checked numerically by the correspondence run, so a translator mistake shows up there.
"""
from __future__ import annotations

import ast
import copy
import os
from fractions import Fraction


class TranslateError(Exception):
    pass


class PyRaise(Exception):
    """the interpreted code executed a `raise`"""

    def __init__(self, kind):
        super().__init__(kind)
        self.kind = kind


# ----------------------------------------------------------------------------- SExpr (python side: nested tuples)
UFUNS = {"exp": "exp", "log": "log", "sin": "sin", "cos": "cos", "tan": "tan", "arcsin": "arcsin", "arccos": "arccos",
         "arctan": "arctan", "sinh": "sinh", "cosh": "cosh", "tanh": "tanh", "arcsinh": "arcsinh", "arccosh": "arccosh",
         "arctanh": "arctanh", "abs": "abs", "absolute": "abs", "sign": "sign", "sqrt": "sqrt"}
ONE = ("const", Fraction(1))
ZERO = ("const", Fraction(0))


def lrat(q: Fraction) -> str:
    n = f"({q.numerator} : Rat)" if q.numerator >= 0 else f"(-{-q.numerator} : Rat)"
    return n if q.denominator == 1 else f"({n} / {q.denominator})"


def lean(e) -> str:
    k = e[0]
    if k == "var":
        return f"(.var {e[1]})"
    if k == "const":
        return f"(.const {lrat(e[1])})"
    if k == "pi":
        return ".pi"
    if k in ("add", "sub", "mul", "div", "pow", "heaviside"):
        return f"(.{k} {lean(e[1])} {lean(e[2])})"
    if k == "neg":
        return f"(.neg {lean(e[1])})"
    if k == "un":
        return f"(.un .{e[1]} {lean(e[2])})"
    if k == "ifgt":
        return f"(.ifgt {lean(e[1])} {lean(e[2])} {lean(e[3])} {lean(e[4])})"
    raise TranslateError(f"cannot print {e!r}")


def to_json(e):
    """wire form of an SExpr (used by the harness to show rules in evidence)"""
    if e[0] == "const":
        return ["const", str(e[1])]
    return [e[0]] + [to_json(x) if isinstance(x, tuple) else x for x in e[1:]]


# ----------------------------------------------------------------------------- symbolic values
class Sc:  # python scalar
    def __init__(self, e):
        self.e = e


class Arr:  # 1-d numpy array, elementwise expression
    def __init__(self, e):
        self.e = e


class Mask:  # boolean array: kind 'gt' (a > b) or 'le' (a <= b)
    def __init__(self, kind, a, b):
        self.kind, self.a, self.b = kind, a, b

    def key(self):
        return (self.kind, self.a, self.b)


class Masked:  # arr[mask]
    def __init__(self, e, mask):
        self.e, self.mask = e, mask


class Diag:  # sps.diags(arr)
    def __init__(self, e):
        self.e = e


class Jac:  # sum_root diag(coef[root]) @ root.jac ; coefficient None = untouched (factor 1)
    def __init__(self, coef):
        self.coef = dict(coef)


class MatVal:  # M @ val
    def __init__(self, m, e):
        self.m, self.e = m, e


class MatJac:  # M @ jac
    def __init__(self, m, coef):
        self.m, self.coef = m, coef


class Sparse:
    def __init__(self, name):
        self.name = name


class PyList:  # a python list of symbolic values
    def __init__(self, items):
        self.items = list(items)


class MaskedJac:  # rows of a Jacobian selected by a mask (slice_sparse_matrix(J, inds))
    def __init__(self, coef, mask):
        self.coef, self.mask = dict(coef), mask


class IntSym:  # the python int parameter `dim` of l2_norm; `is_one` = the branch assumed for `dim == 1`
    def __init__(self, is_one):
        self.is_one = is_one


class G:  # (dim, size) array = reshape(x, (dim, -1), order="F"): entry [k, g] as expression in var 0 = x[dim*g+k], var 1 = sum_k x[dim*g+k]**2
    def __init__(self, e):
        self.e = e


class GS:  # one number per group (column), expression in var 1 = the group's sum of squares
    def __init__(self, e):
        self.e = e


class MaskedG:  # G[:, mask]
    def __init__(self, e, mask):
        self.e, self.mask = e, mask


class RegObj:  # a RegularizedHeaviside instance: self._regularization = the named library function with its parameters
    def __init__(self, fname, params):
        self.fname, self.params = fname, params


class Opaque:  # shapes, sizes
    def __init__(self, what):
        self.what = what


class Ad:
    def __init__(self, val, jac):
        self.val, self.jac = val, jac


def c_of(coef):
    return ONE if coef is None else coef


def scale(coef, a):
    """diag(a) @ (diag(coef) @ J)"""
    return a if coef is None else ("mul", a, coef)


# ----------------------------------------------------------------------------- interpreter
BINOPS = {ast.Add: "add", ast.Sub: "sub", ast.Mult: "mul", ast.Div: "div", ast.Pow: "pow"}
DUNDER = {ast.Add: "add", ast.Sub: "sub", ast.Mult: "mul", ast.Div: "truediv", ast.Pow: "pow", ast.MatMult: "matmul"}


class Interp:
    def __init__(self, methods, functions):
        self.methods = methods  # name -> FunctionDef of class AdArray
        self.functions = functions  # name -> FunctionDef of functions.py
        self.depth = 0
        self.guards = []  # size/ndim guards that were skipped (reported)
        self.asserts = []

    # ---- types for isinstance
    def _type_names(self, node):
        if isinstance(node, ast.Tuple):
            out = []
            for el in node.elts:
                out += self._type_names(el)
            return out
        return [ast.unparse(node)]

    TYPEMAP = {"int": Sc, "float": Sc, "np.ndarray": (Arr, GS), "sps.spmatrix": (Sparse, Jac), "sps.sparray": (Sparse, Jac),
               "pp.ad.AdArray": Ad, "AdArray": Ad, "pp.matrix_operations.ArraySlicer": None}

    def isinstance_(self, v, tnode):
        for t in self._type_names(tnode):
            if t not in self.TYPEMAP:
                raise TranslateError(f"isinstance against unknown type {t}")
            cls = self.TYPEMAP[t]
            if cls is not None and isinstance(v, cls):
                return True
        return False

    def is_guard(self, test):
        """size / ndim / shape consistency tests: assumed to pass (operands of equal size, arrays 1-d)"""
        src = ast.unparse(test)
        return isinstance(test, (ast.Compare, ast.BoolOp)) and any(w in src for w in (".ndim", ".size", ".shape")) and "isinstance" not in src

    def test(self, node, env):
        if isinstance(node, ast.Call) and isinstance(node.func, ast.Name) and node.func.id == "isinstance" and len(node.args) == 2:
            return self.isinstance_(self.expr(node.args[0], env), node.args[1])
        if isinstance(node, ast.UnaryOp) and isinstance(node.op, ast.Not):
            return not self.test(node.operand, env)
        if isinstance(node, ast.BoolOp):
            vals = [self.test(v, env) for v in node.values]
            return all(vals) if isinstance(node.op, ast.And) else any(vals)
        if isinstance(node, ast.Compare) and len(node.ops) == 1 and isinstance(node.ops[0], ast.Eq) and isinstance(node.left, ast.Name) \
                and isinstance(env.get(node.left.id), IntSym) and isinstance(node.comparators[0], ast.Constant) and node.comparators[0].value == 1:
            return env[node.left.id].is_one
        raise TranslateError(f"unsupported test: {ast.unparse(node)}")

    # ---- statements
    def block(self, stmts, env):
        for st in stmts:
            r = self.stmt(st, env)
            if r is not None:
                return r
        return None

    def stmt(self, st, env):
        if isinstance(st, ast.Expr) and isinstance(st.value, ast.Constant) and isinstance(st.value.value, str):
            return None
        if isinstance(st, ast.Return):
            if st.value is None:
                raise TranslateError("bare return")
            return ("ret", self.expr(st.value, env))
        if isinstance(st, ast.Raise):
            exc = st.exc
            name = exc.func.id if isinstance(exc, ast.Call) and isinstance(exc.func, ast.Name) else ast.unparse(exc)
            raise PyRaise(name)
        if isinstance(st, ast.If):
            if self.is_guard(st.test):
                if not (len(st.body) == 1 and isinstance(st.body[0], ast.Raise) and not st.orelse):
                    raise TranslateError(f"size guard with a body other than a single raise: {ast.unparse(st.test)}")
                self.guards.append(ast.unparse(st.test))
                return None
            return self.block(st.body if self.test(st.test, env) else st.orelse, env)
        if isinstance(st, ast.Assert):
            self.asserts.append(ast.unparse(st.test)[:80])
            return None
        if isinstance(st, ast.For) and isinstance(st.target, ast.Name) and isinstance(st.iter, ast.List) and not st.orelse:
            for el in st.iter.elts:  # unrolled
                env[st.target.id] = self.expr(el, env)
                r = self.block(st.body, env)
                if r is not None:
                    return r
            return None
        if isinstance(st, ast.Expr) and isinstance(st.value, ast.Call):
            self.call(st.value, env, statement=True)
            return None
        if isinstance(st, ast.Assign) and len(st.targets) == 1:
            tgt = st.targets[0]
            val = self.expr(st.value, env)
            if isinstance(tgt, ast.Name):
                env[tgt.id] = val
                return None
            if isinstance(tgt, ast.Subscript) and isinstance(tgt.value, ast.Name) and isinstance(env.get(tgt.value.id), PyList) \
                    and isinstance(tgt.slice, ast.Constant) and isinstance(tgt.slice.value, int):
                env[tgt.value.id].items[tgt.slice.value] = val
                return None
            if isinstance(tgt, ast.Subscript) and isinstance(tgt.value, ast.Name) and isinstance(env.get(tgt.value.id), G):
                g = env[tgt.value.id]
                m = self.gmask(tgt.slice, env)
                if not (isinstance(val, MaskedG) and val.mask.key() == m.key() and m.kind == "gt"):
                    raise TranslateError(f"unsupported grouped assignment: {ast.unparse(st)}")
                g.e = ("ifgt", m.a, m.b, val.e, g.e)
                return None
            if isinstance(tgt, ast.Attribute) and isinstance(tgt.value, ast.Name) and tgt.attr in ("val", "jac"):
                obj = env.get(tgt.value.id)
                if not isinstance(obj, Ad):
                    raise TranslateError(f"attribute assignment on a non-AdArray: {ast.unparse(st)}")
                if tgt.attr == "val" and isinstance(val, Arr):
                    obj.val = val
                elif tgt.attr == "jac" and isinstance(val, Jac):
                    obj.jac = val
                else:
                    raise TranslateError(f"ill-typed attribute assignment: {ast.unparse(st)}")
                return None
            if isinstance(tgt, ast.Subscript) and isinstance(tgt.value, ast.Name):
                arr = env.get(tgt.value.id)
                m = self.expr(tgt.slice, env)
                if not (isinstance(arr, Arr) and isinstance(m, Mask)):
                    raise TranslateError(f"unsupported subscript assignment: {ast.unparse(st)}")
                if isinstance(val, Masked):
                    if val.mask.key() != m.key():
                        raise TranslateError(f"masked assignment with a different mask on the right: {ast.unparse(st)}")
                    new = val.e
                elif isinstance(val, Sc):
                    new = val.e
                else:
                    raise TranslateError(f"unsupported right-hand side of masked assignment: {ast.unparse(st)}")
                # in place: the array object may be shared with an operand (no copy taken) -- that is checked after the call
                arr.e = ("ifgt", m.a, m.b, new, arr.e) if m.kind == "gt" else ("ifgt", m.a, m.b, arr.e, new)
                return None
        raise TranslateError(f"unsupported statement: {ast.unparse(st)[:120]}")

    # ---- calls
    def call_def(self, fdef, args, what):
        self.depth += 1
        if self.depth > 12:
            raise TranslateError("call depth exceeded")
        try:
            params = [a.arg for a in fdef.args.args]
            if fdef.args.vararg or fdef.args.kwarg or fdef.args.kwonlyargs:
                raise TranslateError(f"{what}: unsupported signature")
            if len(args) != len(params):
                raise TranslateError(f"{what}: {len(args)} arguments for parameters {params}")
            env = dict(zip(params, args))
            r = self.block(fdef.body, env)
            if r is None:
                raise TranslateError(f"{what}: fell off the end without return")
            return r[1]
        finally:
            self.depth -= 1

    def method(self, obj, name, args):
        if name not in self.methods:
            raise TranslateError(f"AdArray has no method {name}")
        return self.call_def(self.methods[name], [obj] + args, f"AdArray.{name}")

    def binop_ad(self, op, left, right):
        if type(op) not in DUNDER:
            raise TranslateError(f"operator {type(op).__name__} on an AdArray")
        d = DUNDER[type(op)]
        if isinstance(left, Ad):
            return self.method(left, f"__{d}__", [right])
        return self.method(right, f"__r{d}__", [left])

    # ---- expressions
    def expr(self, node, env):
        if isinstance(node, ast.Name):
            if node.id in env:
                return env[node.id]
            raise TranslateError(f"unknown name {node.id}")
        if isinstance(node, ast.Constant):
            if isinstance(node.value, bool) or not isinstance(node.value, (int, float)):
                raise TranslateError(f"unsupported constant {node.value!r}")
            return Sc(("const", Fraction(node.value)))
        if isinstance(node, ast.Attribute):
            if isinstance(node.value, ast.Name) and node.value.id == "np" and node.attr == "pi":
                return Sc(("pi",))
            base = self.expr(node.value, env)
            if isinstance(base, Ad) and node.attr in ("val", "jac"):
                return getattr(base, node.attr)
            if isinstance(base, (Arr, Jac)) and node.attr in ("shape", "size"):
                return Opaque(node.attr)
            if isinstance(base, G) and node.attr == "shape":
                return Opaque("gshape")
            raise TranslateError(f"unsupported attribute {ast.unparse(node)}")
        if isinstance(node, ast.UnaryOp) and isinstance(node.op, ast.USub):
            if isinstance(node.operand, ast.Constant) and isinstance(node.operand.value, (int, float)) and not isinstance(node.operand.value, bool):
                return Sc(("const", -Fraction(node.operand.value)))  # negative literal
            v = self.expr(node.operand, env)
            if isinstance(v, Sc):
                return Sc(("neg", v.e))
            if isinstance(v, Arr):
                return Arr(("neg", v.e))
            if isinstance(v, Jac):
                return Jac({k: ("neg", c_of(c)) for k, c in v.coef.items()})
            if isinstance(v, Ad):
                return self.method(v, "__neg__", [])
            if isinstance(v, Sparse):
                return v
            raise TranslateError(f"unary minus on {type(v).__name__}")
        if isinstance(node, ast.BinOp):
            a, b = self.expr(node.left, env), self.expr(node.right, env)
            return self.binop(node.op, a, b, node)
        if isinstance(node, ast.Compare) and len(node.ops) == 1 and isinstance(node.ops[0], ast.Gt):
            a, b = self.expr(node.left, env), self.expr(node.comparators[0], env)
            if isinstance(a, (Arr, GS)) and isinstance(b, (Sc, Arr)):
                return Mask("gt", a.e, b.e)
            raise TranslateError(f"unsupported comparison {ast.unparse(node)}")
        if isinstance(node, ast.List):
            return PyList([self.expr(e, env) for e in node.elts])
        if isinstance(node, ast.Subscript):
            a = self.expr(node.value, env)
            if isinstance(a, PyList) and isinstance(node.slice, ast.Constant) and isinstance(node.slice.value, int):
                return a.items[node.slice.value]
            if isinstance(a, G):
                return MaskedG(a.e, self.gmask(node.slice, env))
            m = self.expr(node.slice, env)
            if isinstance(a, (Arr, GS)) and isinstance(m, Mask):
                return Masked(a.e, m)
            raise TranslateError(f"unsupported subscript {ast.unparse(node)}")
        if isinstance(node, ast.Call):
            return self.call(node, env)
        raise TranslateError(f"unsupported expression {ast.unparse(node)[:100]}")

    def gmask(self, sl, env):
        """the index `[:, mask]` of a grouped array"""
        if isinstance(sl, ast.Tuple) and len(sl.elts) == 2 and isinstance(sl.elts[0], ast.Slice) and ast.unparse(sl.elts[0]) == ":":
            m = self.expr(sl.elts[1], env)
            if isinstance(m, Mask):
                return m
        raise TranslateError(f"unsupported index of a grouped array: {ast.unparse(sl)}")

    def binop(self, op, a, b, node):
        if isinstance(a, Ad) or isinstance(b, Ad):
            return self.binop_ad(op, a, b)
        if isinstance(a, MaskedG) and isinstance(b, Masked) and isinstance(op, ast.Div) and a.mask.key() == b.mask.key():
            return MaskedG(("div", a.e, b.e), a.mask)  # each column divided by its group's number
        if isinstance(op, ast.MatMult):
            if isinstance(a, Sparse) and isinstance(b, Arr):
                return MatVal(a.name, b.e)
            if isinstance(a, Sparse) and isinstance(b, Jac):
                return MatJac(a.name, dict(b.coef))
            raise TranslateError(f"unsupported matrix product {ast.unparse(node)}")
        if type(op) not in BINOPS:
            raise TranslateError(f"unsupported operator in {ast.unparse(node)}")
        k = BINOPS[type(op)]
        if isinstance(a, Sc) and isinstance(b, Sc):
            return Sc((k, a.e, b.e))
        if isinstance(a, (Sc, Arr)) and isinstance(b, (Sc, Arr)):
            return Arr((k, a.e, b.e))
        if isinstance(a, Masked) and isinstance(b, Sc):
            return Masked((k, a.e, b.e), a.mask)
        if isinstance(a, Sc) and isinstance(b, Masked):
            return Masked((k, a.e, b.e), b.mask)
        # Jacobians
        if isinstance(a, Diag) and isinstance(b, Jac) and k == "mul":
            return Jac({r: scale(c, a.e) for r, c in b.coef.items()})  # row scaling  diag(a) @ J
        if isinstance(a, Jac) and isinstance(b, Diag):
            raise TranslateError("jac * diag(a) scales COLUMNS of the Jacobian; not a forward-mode rule")
        if isinstance(a, Jac) and isinstance(b, Sc) and k in ("mul", "div"):
            return Jac({r: (k, c_of(c), b.e) for r, c in a.coef.items()})
        if isinstance(a, Sc) and isinstance(b, Jac) and k == "mul":
            return Jac({r: (k, a.e, c_of(c)) for r, c in b.coef.items()})
        if isinstance(a, Jac) and isinstance(b, Jac) and k in ("add", "sub"):
            out = {}
            for r in list(a.coef) + [r for r in b.coef if r not in a.coef]:
                if r in a.coef and r in b.coef:
                    out[r] = (k, c_of(a.coef[r]), c_of(b.coef[r]))
                elif r in a.coef:
                    out[r] = a.coef[r]
                else:
                    out[r] = b.coef[r] if k == "add" else ("neg", c_of(b.coef[r]))
            return Jac(out)
        raise TranslateError(f"ill-typed operation {type(a).__name__} {k} {type(b).__name__} in {ast.unparse(node)[:100]}")

    def call(self, node, env, statement=False):
        f = node.func
        fsrc = ast.unparse(f)
        args = node.args
        kw = {k.arg: ast.unparse(k.value) for k in node.keywords}
        if fsrc == "np.reshape" and len(args) == 2 and ast.unparse(args[1]) == "(dim, -1)" and kw == {"order": "'F'"} and isinstance(env.get("dim"), IntSym):
            v = self.expr(args[0], env)
            if isinstance(v, Arr) and v.e == ("var", 0):
                return G(("var", 0))
            raise TranslateError("np.reshape of something other than the values themselves")
        if fsrc == "np.linalg.norm" and len(args) == 1 and kw == {"axis": "0"}:
            v = self.expr(args[0], env)
            if isinstance(v, G) and v.e == ("var", 0):
                return GS(("un", "sqrt", ("var", 1)))  # sqrt of the group's sum of squares
            raise TranslateError("np.linalg.norm of something other than the reshaped values")
        if node.keywords and fsrc != "np.isclose":
            raise TranslateError(f"keyword arguments in {ast.unparse(node)}")
        if fsrc == "pp.matrix_operations.slice_sparse_matrix" and len(args) == 2:
            j, m = self.expr(args[0], env), self.expr(args[1], env)
            if isinstance(j, Jac) and isinstance(m, Mask):
                return MaskedJac(j.coef, m)
            raise TranslateError(f"unsupported {ast.unparse(node)}")
        if fsrc == "pp.matrix_operations.merge_matrices" and len(args) == 4 and statement:
            A, B, m = self.expr(args[0], env), self.expr(args[1], env), self.expr(args[2], env)
            if not (isinstance(A, Jac) and isinstance(B, MaskedJac) and isinstance(m, Mask) and m.kind == "gt" and B.mask.key() == m.key()
                    and ast.unparse(args[3]) == "'csr'"):
                raise TranslateError(f"unsupported {ast.unparse(node)}")
            # A[rows where mask, :] = B, IN PLACE
            for r in list(A.coef) + [r for r in B.coef if r not in A.coef]:
                old = c_of(A.coef[r]) if r in A.coef else ZERO
                new = c_of(B.coef[r]) if r in B.coef else ZERO
                A.coef[r] = ("ifgt", m.a, m.b, new, old)
            return None
        if fsrc.startswith("pp.ad.functions.") and isinstance(f, ast.Attribute) and f.attr in self.functions:
            return self.call_def(self.functions[f.attr], [self.expr(a, env) for a in args], f"functions.{f.attr}")
        # constructors
        if fsrc in ("AdArray", "pp.ad.AdArray") and len(args) == 2:
            v, j = self.expr(args[0], env), self.expr(args[1], env)
            if isinstance(v, MatVal) and isinstance(j, MatJac):
                return ("matmul", v, j)
            if not (isinstance(v, Arr) and isinstance(j, Jac)):
                raise TranslateError(f"AdArray({type(v).__name__}, {type(j).__name__}) in {ast.unparse(node)[:100]}")
            return Ad(v, j)
        if fsrc == "float" and len(args) == 1:
            v = self.expr(args[0], env)
            if isinstance(v, Sc):
                return v
            raise TranslateError("float() of a non-scalar")
        if fsrc == "sps.diags" and len(args) == 1:
            v = self.expr(args[0], env)
            if isinstance(v, Arr):
                return Diag(v.e)
            raise TranslateError(f"sps.diags of {type(v).__name__}")
        if fsrc == "sps.csr_matrix" and len(args) == 1:
            v = self.expr(args[0], env)
            if isinstance(v, Opaque) and v.what == "shape":
                return Jac({})  # zero Jacobian
            raise TranslateError("sps.csr_matrix of something that is not a shape")
        if isinstance(f, ast.Attribute) and isinstance(f.value, ast.Name) and f.value.id == "np":
            name = f.attr
            vs = [self.expr(a, env) for a in args]
            if name in UFUNS and len(vs) == 1 and isinstance(vs[0], (Sc, Arr)):
                return type(vs[0])(("un", UFUNS[name], vs[0].e))
            if name == "heaviside" and len(vs) == 2 and isinstance(vs[0], Arr) and isinstance(vs[1], Sc):
                return Arr(("heaviside", vs[0].e, vs[1].e))
            if name == "heaviside" and len(vs) == 1:
                raise PyRaise("TypeError")  # numpy: heaviside() takes from 2 to 3 positional arguments
            if name == "ones" and len(vs) == 1 and isinstance(vs[0], Opaque) and vs[0].what == "gshape":
                return G(ONE)
            if name == "maximum" and len(vs) == 2 and all(isinstance(v, (Arr, Sc)) for v in vs) and any(isinstance(v, Arr) for v in vs):
                return Arr(("ifgt", vs[1].e, vs[0].e, vs[1].e, vs[0].e))  # entries of the second argument where they are larger
            if name == "ones_like" and len(vs) == 1 and isinstance(vs[0], Arr):
                return Arr(ONE)
            if name == "zeros_like" and len(vs) == 1 and isinstance(vs[0], Arr):
                return Arr(ZERO)
            if name == "zeros" and len(vs) == 1 and isinstance(vs[0], Opaque) and vs[0].what == "size":
                return Arr(ZERO)
            if name == "isclose" and len(vs) == 2 and isinstance(vs[0], Arr) and isinstance(vs[1], Sc) and vs[1].e == ZERO \
                    and [k.arg for k in node.keywords] == ["atol"]:
                tol = self.expr(node.keywords[0].value, env)
                if isinstance(tol, Sc):
                    # |a - 0| <= atol + rtol * |0|
                    return Mask("le", ("un", "abs", vs[0].e), tol.e)
            raise TranslateError(f"unsupported numpy call {ast.unparse(node)[:100]}")
        # methods
        if isinstance(f, ast.Attribute):
            obj = self.expr(f.value, env)
            name = f.attr
            if name == "astype" and len(args) == 1 and ast.unparse(args[0]) == "float":
                if isinstance(obj, (Arr, Sc)):
                    return obj
                if isinstance(obj, Mask):
                    return Arr(("ifgt", obj.a, obj.b, ONE, ZERO) if obj.kind == "gt" else ("ifgt", obj.a, obj.b, ZERO, ONE))
                raise TranslateError(f"astype on {type(obj).__name__}")
            if name == "copy" and not args and isinstance(obj, Arr):
                return Arr(obj.e)
            if name == "copy" and not args and isinstance(obj, Jac):
                return Jac(obj.coef)
            if name == "tocsr" and not args and isinstance(obj, Jac):
                return obj  # scipy returns the matrix itself when it already is csr: NOT a copy
            if name == "append" and len(args) == 1 and isinstance(obj, PyList) and statement:
                obj.items.append(self.expr(args[0], env))
                return None
            if name == "nonzero" and not args and isinstance(obj, Mask):
                return PyList([obj])  # the index array of a mask selects the same entries
            if name == "_regularization" and isinstance(obj, RegObj):
                fd = self.functions[obj.fname]
                pars = [a.arg for a in fd.args.args]
                vals = [self.expr(a, env) for a in args]
                if len(vals) != 1:
                    raise TranslateError("regularization called with several arguments")
                it = iter(obj.params)
                return self.call_def(fd, [vals[0] if q == "var" else next(it) for q in pars], f"functions.{obj.fname}")
            if isinstance(obj, Ad):
                return self.method(obj, name, [self.expr(a, env) for a in args])
            raise TranslateError(f"unsupported method call {ast.unparse(node)[:100]}")
        raise TranslateError(f"unsupported call {ast.unparse(node)[:100]}")


# ----------------------------------------------------------------------------- reading the sources
def _strip_doc(body):
    return [b for b in body if not (isinstance(b, ast.Expr) and isinstance(b.value, ast.Constant) and isinstance(b.value.value, str))]


def _norm_src(fdef):
    f = copy.deepcopy(fdef)
    for n in ast.walk(f):
        if isinstance(n, (ast.FunctionDef, ast.ClassDef)):
            n.body = _strip_doc(n.body) or [ast.Pass()]
            n.returns = None
            for a in n.args.args if isinstance(n, ast.FunctionDef) else []:
                a.annotation = None
    return ast.unparse(f)


# Methods that are modelled by hand (Model.lean `Tree.slice`, `initAd`): their text must be exactly this.
EXPECT_GETITEM = """def __getitem__(self, key):
    val = self.val[key]
    if val.ndim == 0:
        val = np.array([val])
    return AdArray(val, self.jac[key])"""
EXPECT_SETITEM = """def __setitem__(self, key, new_value):
    if isinstance(new_value, np.ndarray | pp.number):
        self.val[key] = new_value
    elif isinstance(new_value, AdArray):
        self.val[key] = new_value.val
        self.jac[key] = new_value.jac
    else:
        raise NotImplementedError('Setting')"""
EXPECT_INIT = """def initAdArrays(variables):
    num_values_per_variable = [v.size for v in variables]
    ad_arrays: list[AdArray] = []
    for i, val in enumerate(variables):
        n = num_values_per_variable[i]
        jac = [sps.csc_matrix((n, m)) for m in num_values_per_variable]
        jac[i] = sps.diags(np.ones(num_values_per_variable[i])).tocsr()
        jac = sps.bmat([jac])
        ad_arrays.append(AdArray(val, jac))
    return ad_arrays"""

ARITH = ["add", "radd", "sub", "rsub", "mul", "rmul", "pow", "rpow", "truediv", "rtruediv", "matmul", "rmatmul"]
KINDS = ["S", "A", "Ad", "Sp"]
# l2_norm: the numerical statements are translated; the index bookkeeping that places factor k of group g in row g, column dim*g+k
# (the "contract consecutive groups of dim rows" structure of NormRule in Model.lean) must have exactly this text.
EXPECT_L2_TAIL = """dim_size = var.val.size
assert dim_size % dim == 0
size = int(dim_size / dim)
local_inds_t = np.arange(dim_size)
if size == 0:
    local_inds_n = np.empty(0, dtype=np.int32)
else:
    local_inds_n = np.array(np.kron(np.arange(size), np.ones(dim)), dtype=np.int32)
norm_jac = sps.csr_matrix((jac_vals.ravel('F'), (local_inds_n, local_inds_t)), shape=(size, dim_size))
jac = norm_jac * var.jac
return pp.ad.AdArray(vals, jac)"""



def _self_ad():
    return Ad(Arr(("var", 0)), Jac({"self": None}))


def _other(kind):
    if kind == "S":
        return Sc(("var", 1))
    if kind == "A":
        return Arr(("var", 1))
    if kind == "Ad":
        return Ad(Arr(("var", 1)), Jac({"other": None}))
    return Sparse("other")


def _rule_from(res, what, allow_other):
    if not isinstance(res, Ad):
        raise TranslateError(f"{what}: result is {type(res).__name__}, not an AdArray")
    roots = set(res.jac.coef)
    if not roots <= ({"self", "other"} if allow_other else {"self"}):
        raise TranslateError(f"{what}: Jacobian refers to {sorted(roots)}")
    r = {"val": res.val.e, "dself": c_of(res.jac.coef["self"]) if "self" in roots else ZERO}
    if allow_other:
        r["dother"] = c_of(res.jac.coef["other"]) if "other" in roots else ZERO
    return r


def translate(repo, out_path):
    fm_path = os.path.join(repo, "src", "porepy", "numerics", "ad", "forward_mode.py")
    fn_path = os.path.join(repo, "src", "porepy", "numerics", "ad", "functions.py")
    fm = ast.parse(open(fm_path, encoding="utf-8").read())
    fn = ast.parse(open(fn_path, encoding="utf-8").read())
    cls = [n for n in fm.body if isinstance(n, ast.ClassDef) and n.name == "AdArray"]
    if len(cls) != 1:
        raise TranslateError("class AdArray not found")
    methods = {n.name: n for n in cls[0].body if isinstance(n, ast.FunctionDef)}
    functions = {n.name: n for n in fn.body if isinstance(n, ast.FunctionDef)}
    init = [n for n in fm.body if isinstance(n, ast.FunctionDef) and n.name == "initAdArrays"]
    if len(init) != 1:
        raise TranslateError("initAdArrays not found")
    for m in ["__neg__", "copy", "_diagvec_mul_jac", "__getitem__"] + [f"__{a}__" for a in ARITH]:
        if m not in methods:
            raise TranslateError(f"AdArray.{m} not found")
    if _norm_src(methods["__getitem__"]) != EXPECT_GETITEM:
        raise TranslateError("AdArray.__getitem__ changed; it is modelled by hand (row selection of val and jac):\n" + _norm_src(methods["__getitem__"]))
    if "__setitem__" not in methods or _norm_src(methods["__setitem__"]) != EXPECT_SETITEM:
        raise TranslateError("AdArray.__setitem__ changed; it is modelled by hand (Tree.setrows: rows of val and jac replaced by those of the AdArray value)")
    if _norm_src(init[0]) not in (EXPECT_INIT, EXPECT_INIT.replace("sps.bmat([jac])", "sps.bmat([jac], format='csr')")):
        raise TranslateError("initAdArrays changed; it is modelled by hand (identity block per variable):\n" + _norm_src(init[0]))

    ip = Interp(methods, functions)
    rules, raising, lines_of = [], [], {}

    # -- arithmetic
    for a in ARITH:
        for kind in KINDS:
            name = f"{a}_{kind}"
            lines_of[name] = f"forward_mode.py:{methods[f'__{a}__'].lineno} AdArray.__{a}__, other = {kind}"
            sa, ot = _self_ad(), _other(kind)
            try:
                res = ip.method(sa, f"__{a}__", [ot])
            except PyRaise as e:
                raising.append((name, e.kind))
                continue
            for o, root, v in ((sa, "self", 0), (ot, "other", 1)):
                if isinstance(o, Ad) and (o.val.e != ("var", v) or o.jac.coef != {root: None}):
                    raise TranslateError(f"AdArray.__{a}__ alters the value or Jacobian of an operand")
            if a == "rmatmul" and kind == "Sp":
                ok = isinstance(res, tuple) and res[0] == "matmul" and res[1].m == "other" and res[2].m == "other" \
                    and res[1].e == ("var", 0) and res[2].coef == {"self": None}
                if not ok:
                    raise TranslateError("__rmatmul__ with a sparse matrix is not (other @ self.val, other @ self.jac)")
                continue
            if kind == "Sp":
                raise TranslateError(f"{name}: a sparse operand did not raise")
            r = _rule_from(res, name, kind == "Ad")
            r["name"] = name
            rules.append(r)
    res = ip.method(_self_ad(), "__neg__", [])
    r = _rule_from(res, "neg", False)
    r["name"] = "neg"
    lines_of["neg"] = f"forward_mode.py:{methods['__neg__'].lineno} AdArray.__neg__"
    arith_rules = rules + [r]

    # -- library: every top-level function / class of functions.py must get a rule (coverage obligation)
    lib_rules, max_rules, plain_raising = [], [], []
    found = [n.name for n in fn.body if isinstance(n, (ast.FunctionDef, ast.ClassDef))]
    classes = {n.name: n for n in fn.body if isinstance(n, ast.ClassDef)}
    exported = []
    for n in fn.body:
        if isinstance(n, ast.Assign) and ast.unparse(n.targets[0]) == "__all__":
            exported = [e.value for e in n.value.elts]
    for nm in exported:
        if nm not in found:
            raise TranslateError(f"__all__ exports {nm}, which is not defined at the top level of functions.py")

    def untouched(what, *ops):
        for o, root, v in ops:
            if isinstance(o, Ad) and (o.val.e != ("var", v) or o.jac.coef != {root: None}):
                raise TranslateError(f"{what} alters the value or Jacobian of an AdArray it was given (in-place modification of an operand)")
            if isinstance(o, Arr) and o.e != ("var", v):
                raise TranslateError(f"{what} alters a numpy array it was given")

    def lib_rule(name, fdef, call_ad, call_plain, others, params):
        try:
            res = call_ad()
        except PyRaise as e:
            raise TranslateError(f"functions.{name} raises {e.kind} on an AdArray")
        r = _rule_from(res, f"functions.{name}", False)
        try:
            plain = call_plain()
            if not isinstance(plain, Arr):
                raise TranslateError(f"functions.{name}: ndarray branch returns {type(plain).__name__}")
            r["plain"] = plain.e
        except PyRaise as e:
            plain_raising.append((name, e.kind))
        r["name"] = name
        r["params"] = others
        lines_of[name] = f"functions.py:{fdef.lineno} {name}({', '.join(params)})"
        return r

    norm_rule = None
    for name in found:
        if name == "maximum":
            fdef = functions[name]
            for kind, mk in (("AdAd", lambda sa: (sa, _other("Ad"))), ("AdA", lambda sa: (sa, _other("A"))), ("AdS", lambda sa: (sa, _other("S"))),
                             ("AAd", lambda sa: (_other("A"), sa)), ("SAd", lambda sa: (_other("S"), sa))):
                sa = _self_ad()
                v0, v1 = mk(sa)
                rn = f"maximum_{kind}"
                try:
                    res = ip.call_def(fdef, [v0, v1], f"functions.{rn}")
                except PyRaise as e:
                    raise TranslateError(f"functions.{rn} raises {e.kind}")
                untouched(f"functions.{rn}", (v0, "self" if v0 is sa else "other", 0 if v0 is sa else 1), (v1, "self" if v1 is sa else "other", 0 if v1 is sa else 1))
                r = _rule_from(res, f"functions.{rn}", kind == "AdAd")
                r["name"] = rn
                lines_of[rn] = f"functions.py:{fdef.lineno} maximum(var_0, var_1), operands {kind}"
                max_rules.append(r)
            pl = ip.call_def(fdef, [Arr(("var", 0)), Arr(("var", 1))], "functions.maximum (ndarrays)")
            if not isinstance(pl, Arr) or pl.e != max_rules[0]["val"]:
                raise TranslateError("functions.maximum of two numpy arrays is not the value computed for AdArrays")
            for r in max_rules:
                r["plain"] = r["val"]
            continue
        if name == "l2_norm":
            fdef = functions[name]
            body = _strip_doc(fdef.body)
            cut = [i for i, st in enumerate(body) if ast.unparse(st).startswith("dim_size = ")]
            if [a.arg for a in fdef.args.args] != ["dim", "var"] or len(cut) != 1 or "\n".join(ast.unparse(st) for st in body[cut[0]:]) != EXPECT_L2_TAIL:
                raise TranslateError("l2_norm: the index bookkeeping (rows = kron(arange(size), ones(dim)), cols = arange(dim_size), data = jac_vals.ravel('F')) changed")
            # dim == 1: delegates to abs
            sa = _self_ad()
            res1 = ip.call_def(fdef, [IntSym(True), sa], "functions.l2_norm (dim = 1)")
            untouched("functions.l2_norm", (sa, "self", 0))
            r1 = _rule_from(res1, "functions.l2_norm (dim = 1)", False)
            r1["name"], r1["params"] = "l2_norm_dim1", []
            lines_of["l2_norm_dim1"] = f"functions.py:{fdef.lineno} l2_norm(dim, var) with dim == 1"
            # dim >= 2: value and Jacobian factors per group
            sa = _self_ad()
            env = {"dim": IntSym(False), "var": sa}
            if ip.block(body[:cut[0]], env) is not None:
                raise TranslateError("l2_norm returned before the Jacobian was assembled")
            vals, jv = env.get("vals"), env.get("jac_vals")
            untouched("functions.l2_norm", (sa, "self", 0))
            if not (isinstance(vals, GS) and isinstance(jv, G)):
                raise TranslateError("l2_norm: vals / jac_vals are not the per-group norm and the (dim, size) factor array")
            pl = ip.call_def(fdef, [IntSym(False), Arr(("var", 0))], "functions.l2_norm (ndarray)")
            if not isinstance(pl, GS):
                raise TranslateError("l2_norm of a numpy array is not a per-group number")
            pl1 = ip.call_def(fdef, [IntSym(True), Arr(("var", 0))], "functions.l2_norm (ndarray, dim = 1)")
            if not (isinstance(pl1, GS) and pl1.e == pl.e):
                raise TranslateError("l2_norm of a numpy array depends on dim == 1")
            r1["plain"] = None
            norm_rule = {"name": "l2_norm", "val": vals.e, "coef": jv.e, "plain": pl.e}
            lines_of["l2_norm"] = f"functions.py:{fdef.lineno} l2_norm(dim, var), dim >= 2: var 0 = one entry of a group, var 1 = the group's sum of squares"
            lib_rules.append({k: v for k, v in r1.items() if k != "plain"})
            continue
        if name in classes:
            if name != "RegularizedHeaviside":
                raise TranslateError(f"class {name} in functions.py has no rule")
            cdef = classes[name]
            meths = {n.name: n for n in cdef.body if isinstance(n, ast.FunctionDef)}
            if sorted(meths) != ["__call__", "__init__"] or _norm_src(meths["__init__"]) != "def __init__(self, regularization):\n    self._regularization = regularization":
                raise TranslateError("RegularizedHeaviside: unexpected methods / constructor")
            call = meths["__call__"]
            if [a.arg for a in call.args.args] != ["self", "var", "zerovalue"]:
                raise TranslateError("RegularizedHeaviside.__call__: unexpected signature")
            # instance with regularization = partial(heaviside_smooth, eps=var 1); zerovalue = var 2
            sa = _self_ad()
            r = lib_rule("regularized_heaviside", call,
                         lambda: ip.call_def(call, [RegObj("heaviside_smooth", [Sc(("var", 1))]), sa, Sc(("var", 2))], "RegularizedHeaviside.__call__"),
                         lambda: ip.call_def(call, [RegObj("heaviside_smooth", [Sc(("var", 1))]), Arr(("var", 0)), Sc(("var", 2))], "RegularizedHeaviside.__call__ (ndarray)"),
                         ["eps", "zerovalue"], ["self", "var", "zerovalue"])
            untouched("RegularizedHeaviside.__call__", (sa, "self", 0))
            lines_of["regularized_heaviside"] = f"functions.py:{call.lineno} RegularizedHeaviside(partial(heaviside_smooth, eps=eps)).__call__(var, zerovalue)"
            lib_rules.append(r)
            continue
        fdef = functions[name]
        params = [a.arg for a in fdef.args.args]
        if "var" not in params:
            raise TranslateError(f"functions.{name}: no parameter called var; no rule can be generated for it")
        others = [p for p in params if p != "var"]
        if len(others) > 3:
            raise TranslateError(f"functions.{name}: too many parameters")

        def mk(varval):
            return [varval if p == "var" else Sc(("var", 1 + others.index(p))) for p in params]

        sa, pa = _self_ad(), Arr(("var", 0))
        r = lib_rule(name, fdef, lambda: ip.call_def(fdef, mk(sa), f"functions.{name}"), lambda: ip.call_def(fdef, mk(pa), f"functions.{name} (ndarray)"), others, params)
        untouched(f"functions.{name}", (sa, "self", 0), (pa, "self", 0))
        lib_rules.append(r)
    if norm_rule is None or not max_rules:
        raise TranslateError("functions.py no longer defines l2_norm / maximum")
    covered = {"maximum": [r["name"] for r in max_rules], "l2_norm": ["l2_norm", "l2_norm_dim1"], "RegularizedHeaviside": ["regularized_heaviside"]}
    for nm in found:
        if nm not in covered and nm not in [r["name"] for r in lib_rules]:
            raise TranslateError(f"functions.{nm} has no rule")

    # -- emit
    def rule_lean(r):
        fields = [f'name := "{r["name"]}"', f"val := {lean(r['val'])}", f"dself := {lean(r['dself'])}"]
        fields.append("dother := " + (f"some {lean(r['dother'])}" if "dother" in r else "none"))
        fields.append("plain := " + (f"some {lean(r['plain'])}" if "plain" in r else "none"))
        return "{ " + ",\n    ".join(fields) + " }"

    out = ["/-", "GENERATED on every run by harness/props/c01_translate.py from",
           "  src/porepy/numerics/ad/forward_mode.py and src/porepy/numerics/ad/functions.py  — do not edit.",
           "One `Rule` per (method, operand kind) / library function:  val = f(self.val, other),",
           "jac = diag(dself) @ self.jac + diag(dother) @ other.jac.   var 0 = self.val, var 1 = other / first parameter.",
           "-/", "import PorepyVerif.C01.Model", "namespace PorepyVerif.C01.Gen", ""]
    for r in arith_rules + lib_rules + max_rules:
        out.append(f"/-- {lines_of[r['name']]} -/")
        out.append(f"def {r['name']} : Rule :=\n  {rule_lean(r)}")
        out.append("")
    out.append(f"/-- {lines_of['l2_norm']} -/")
    out.append("def l2_norm : NormRule :=\n  { name := \"l2_norm\",\n    val := " + lean(norm_rule["val"]) + ",\n    coef := " + lean(norm_rule["coef"])
               + ",\n    plain := some " + lean(norm_rule["plain"]) + " }")
    out.append("")
    out.append("/-- arithmetic rules, in source order -/")
    out.append("def arith : List Rule := [" + ", ".join(r["name"] for r in arith_rules) + "]")
    out.append("/-- library functions, in source order -/")
    out.append("def lib : List Rule := [" + ", ".join(r["name"] for r in lib_rules) + "]")
    out.append("/-- maximum(var_0, var_1) per operand kinds (AdArray / numpy array / python scalar) -/")
    out.append("def maxrules : List Rule := [" + ", ".join(r["name"] for r in max_rules) + "]")
    out.append("/-- every function / class defined at the top level of functions.py, in source order (each has a rule above) -/")
    out.append("def functions_found : List String := [" + ", ".join(f'"{n}"' for n in found) + "]")
    out.append("/-- library functions whose numpy-array branch raises -/")
    out.append("def plain_raising : List (String × String) := [" + ", ".join(f'("{n}", "{k}")' for n, k in plain_raising) + "]")
    out.append("/-- operand combinations that raise -/")
    out.append("def raising : List (String × String) := [" + ", ".join(f'("{n}", "{k}")' for n, k in raising) + "]")
    out.append("/-- `M @ AdArray` for sparse `M` is `AdArray(M @ val, M @ jac)`; `__getitem__` and `initAdArrays` have the text the hand-written model mirrors -/")
    out.append("def structural : List String := [\"rmatmul_Sp\", \"getitem\", \"initAdArrays\"]")
    out.append("")
    out.append("end PorepyVerif.C01.Gen")
    text = "\n".join(out) + "\n"
    old = open(out_path, encoding="utf-8").read() if os.path.exists(out_path) else None
    if old != text:  # keep mtime/hash stable when nothing changed, so that lake does not rebuild
        os.makedirs(os.path.dirname(out_path), exist_ok=True)
        with open(out_path, "w", encoding="utf-8") as f:
            f.write(text)
    return {
        # one generated proof obligation per rule: its `rule_sound_<name>` theorem in Props.lean (48 of them are audited through
        # the two bundle theorems lib_rules_sound / arith_rules_sound, safe_power through rule_sound_safe_power)
        "obligations": len(arith_rules) + len(lib_rules) + len(max_rules) + 1,
        "rules": len(arith_rules) + len(lib_rules) + len(max_rules) + 1,
        "maximum": [r["name"] for r in max_rules],
        "functions_found": found,
        "plain_raising": plain_raising,
        "asserts_skipped": sorted(set(ip.asserts)),
        "arith": [r["name"] for r in arith_rules],
        "lib": [r["name"] for r in lib_rules],
        "lib_params": {r["name"]: r.get("params", []) for r in lib_rules},
        "raising": raising,
        "hand_modelled": ["__getitem__", "initAdArrays", "the group/row index bookkeeping of l2_norm (text pinned)"],
        "guards_assumed_to_pass": sorted(set(ip.guards)),
        "changed": old != text,
        "rule_terms": {r["name"]: {k: to_json(r[k]) for k in ("val", "dself", "dother", "plain") if k in r} for r in arith_rules + lib_rules + max_rules},
    }


if __name__ == "__main__":
    import json
    import sys

    info = translate(sys.argv[1] if len(sys.argv) > 1 else "/repo", sys.argv[2] if len(sys.argv) > 2 else "/tmp/Generated.lean")
    print(json.dumps({k: v for k, v in info.items() if k != "rule_terms"}, indent=1))
