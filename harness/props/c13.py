"""C13 MPSA reproduces linear displacement fields exactly (stress, bound_stress, bound_displacement_*).

Oracle: the property itself on the real matrices of `pp.Mpsa.discretize`.
Correspondence: per interaction region (grid node) the real code's local solution (sub-cell gradients,
`igrad @ rhs`) and discrete Hooke's law (`hook`) against the Lean model of the region
(lean/PorepyVerif/C13/Model.lean), which also checks exactly over Q that G = A satisfies the rows.
"""
import json
import os
import random
from fractions import Fraction

for _v in ("OMP_NUM_THREADS", "OPENBLAS_NUM_THREADS", "MKL_NUM_THREADS"):  # tiny dense blocks: BLAS threads only cost time
    os.environ.setdefault(_v, "1")

import numpy as np  # noqa: E402

from harness.common import frac

PID = "C13"
THEOREMS = [
    "PorepyVerif.C13.hooke_split",
    "PorepyVerif.C13.avg_of_equal",
    "PorepyVerif.C13.traction_row_iff",
    "PorepyVerif.C13.local_consistency_vec",
    "PorepyVerif.C13.subface_traction_exact",
    "PorepyVerif.C13.gradient_exact",
    "PorepyVerif.C13.neumann_traction_prescribed",
    "PorepyVerif.C13.face_traction_exact",
    "PorepyVerif.C13.rigid_translation_zero_traction",
    "PorepyVerif.C13.rigid_rotation_zero_traction",
    "PorepyVerif.C13.dirichlet_reconstruction_exact",
    "PorepyVerif.C13.elim_row_iff",
    "PorepyVerif.C13.checkSolves_iff",
    "PorepyVerif.C13.driver_lin_ok",
    "PorepyVerif.C13.admissible_no_elimination",
    "PorepyVerif.C13.cert_unisolvent",
    "PorepyVerif.C13.cert_solution2",
    "PorepyVerif.C13.GridS.mpsa2d_regions_unisolvent",
    "PorepyVerif.C13.GridS.mpsa2d_linear_exact",
    "PorepyVerif.C13.GridS.mpsa2d_nonneumann_exact",
    "PorepyVerif.C13.GridS.mpsa2d_rigid_motion_zero_traction",
    "PorepyVerif.C13.GridS.apply_eq",
    "PorepyVerif.C13.GridS.admissible_of_manifold",
    "PorepyVerif.C13.GridS.mpsa2d_all_dirichlet_exact",
    "PorepyVerif.C13.GridS.cell_balance_zero",
]
LEAN_DIRS = ["C11"]  # Model/Lemmas import C11's Gauss-Jordan elimination and certificate lemmas
LEAN_MODULES = ["PorepyVerif.C13.Props"]
AUDIT = "PorepyVerif/C13/Audit.lean"
DRIVER = "PorepyVerif/C13/Driver.lean"
N = {"quick": 20, "thorough": 400}
TOL = 1e-8
RULE = ("grids: 2-D Cartesian / structured triangles / Delaunay triangles, 3-D Cartesian / structured tetrahedra, sizes 1..4 per direction "
        "(incl. single cells and single rows), anisotropic extents, node perturbation 0 / 1/4 / 1/2 of the mesh size (boundary nodes too, "
        "so hexahedral faces become non-planar); constant Lame parameters (mu>0, lambda>=0, ratio up to 128); displacement u = A x + b with "
        "A general / symmetric / skew (rotation) / zero (translation), dyadic entries; boundary types per face: all Dirichlet, or an admissible "
        "Dirichlet/Neumann mix (2-D: any mix with >=1 Dirichlet face, incl. whole sides and corners with two Neumann faces; 3-D: greedy random "
        "sets in which no two Neumann faces share an edge); continuity point eta default or 0, 1/4, 1/3, 1/2; inverter python or numba. "
        "non-trivial = at least 2 cells and a non-zero field; distinct = distinct (grid, material, field, boundary set) tuples. "
        "Strata: sub-face boundary-condition entry (_stress_discretization), assemble_matrix_rhs balance and solve, repeated discretize, coordinates scaled by 2^-10 / 2^10, stiffness scaled by 2^30, boundary face list permuted with duplicates. "
        "Tie: every node of 2-D grids / up to 8 sampled nodes of 3-D grids, the region's real sub-cell gradients for random non-linear data.")
TRUSTED = [
    "modelled, not verified: the vectorised assembly of the local systems in Mpsa._create_inverse_gradient_matrix / _tensor_vector_prod / "
    "_create_bound_rhs (index maps, Kronecker reorderings), SubcellTopology, the block inversion (invert_diagonal_blocks, python / numba), "
    "row scaling, hf2f summation; they are tied to the model per interaction region by the correspondence check (row residuals of the model "
    "at the real code's sub-cell gradients, discrete Hooke's law) and by the oracle on the assembled matrices",
    "unique solvability of each local system is a hypothesis of the exactness theorems (Unisolvent); on the real code it is observed "
    "(the local matrices are inverted, the inverse is finite and reproduces the model's rows)",
    "grid geometry (face normals, centres, volumes) is input data taken from porepy's compute_geometry; the harness extracts the region data "
    "(sub-face normals, continuity points, cell centres, volume shares, the Neumann elimination flag) from grid topology with its own code",
    "binary64 rounding: comparisons use relative tolerance 1e-8 against a scale derived from the inputs",
]
EXPLANATION = ("CORE (partial). (1) Abstract, dimension-generic theorems about one interaction region (G = A satisfies every row of the weakly "
               "symmetric local system; with a uniquely solvable system the sub-face traction is sigma(A) n; translations and rotations give zero "
               "traction; Dirichlet reconstruction exact; eliminated Neumann rows are consistent iff casym(A) n = 0, which is why the property "
               "restricts the Neumann sets). (2) mpsa2d: an executable Lean model of the WHOLE 2-D discretisation (regions built from face_nodes / "
               "cell_faces, local matrices, exact Gauss-Jordan with a re-checked left inverse, assembly of stress, bound_stress, "
               "bound_displacement_cell/face) with theorem mpsa2d_linear_exact: for every well-formed 2-D grid whose regions are all certified "
               "nonsingular the assembled matrices applied to a linear field and its boundary data give the exact traction on every non-Neumann "
               "face (every face whose nodes have no eliminated rows) and the exact boundary displacement - the hypothesis Unisolvent is discharged "
               "per instance by the certificate (cert_unisolvent). The model's four matrices are compared entry-wise with the real ones on small "
               "2-D grids. 3-D: region theorems + per-region tie + oracle. Outside the proofs: that the vectorised numpy code computes what the model "
               "computes (bridged by the correspondence check), floating point. "
               "FINDING (open, key singular-local-system-silent-garbage): the property says 'for any 2D or 3D grid', but there are valid, well-shaped "
               "grids (Delaunay corner whose two cell centres are collinear with the two boundary face centres) on which a local system is exactly "
               "singular - the Lean model returns certs = none on this configuration (example in Props.lean). No discretisation can satisfy the "
               "property there, so grids with a singular local system are outside the claim; an explicit exception of Mpsa.discretize is accepted. "
               "What IS a defect of the code: depending on rounding the block inverters do not fail but return a meaningless inverse, and "
               "Mpsa.discretize silently delivers wrong matrices (traction errors O(1)..1e16). That is recorded as the finding; repair: verify the "
               "inversion residual and raise (fixes/C13-singular-local-system.diff).")
ASSUMPTIONS = ["each local system is uniquely solvable (hypothesis Unisolvent of the exactness theorems; observed on the real code). Grids on which "
               "the MODEL's local matrix of some node, assembled by the harness from geometry alone, has condition number > 1e7 are outside the "
               "claim (MPSA is undefined there; example: corpus/C13/07-*.json, Mpsa.discretize raises on it) - the generator redraws them and "
               "the oracle makes no claim on them",
               "boundary sets are admissible in the sense of the property statement (generator enforces it, oracle re-checks it)"]

_CACHE = {}
MAT_KEYS = ("stress", "bound_stress", "bound_displacement_cell", "bound_displacement_face")


# ----------------------------------------------------------------------------- grids
def _F(x):
    return Fraction(x)


def build_grid(gs):
    """Deterministic grid from the case's grid spec."""
    import porepy as pp

    kind, n = gs["kind"], list(gs["n"])
    phys = [float(_F(x)) for x in gs["phys"]]
    d = len(n)
    if kind == "cart":
        g = pp.CartGrid(np.array(n), physdims=phys)
    elif kind == "tri":
        g = pp.StructuredTriangleGrid(np.array(n), physdims=phys)
    elif kind == "tet":
        g = pp.StructuredTetrahedralGrid(np.array(n), physdims=phys)
    elif kind == "deltri":
        r = random.Random(gs["pseed"])
        pts = [(0.0, 0.0), (phys[0], 0.0), (phys[0], phys[1]), (0.0, phys[1])]
        seen = set()
        for q in gs.get("pts", []):  # explicit interior points, in sixteenths of the extent
            seen.add(tuple(q))
            pts.append((phys[0] * q[0] / 16, phys[1] * q[1] / 16))
        while len(pts) < 4 + gs["npts"]:
            p = (r.randrange(1, 16), r.randrange(1, 16))
            if p in seen:
                continue
            seen.add(p)
            pts.append((phys[0] * p[0] / 16, phys[1] * p[1] / 16))
        g = pp.TriangleGrid(np.array(pts).T)
    else:
        raise ValueError(kind)
    pert = float(_F(gs.get("pert", "0")))
    if pert and kind != "deltri":
        r = random.Random(gs["pseed"])
        h = [phys[k] / n[k] for k in range(d)]
        for v in range(g.num_nodes):
            for k in range(d):
                g.nodes[k, v] += pert * h[k] * r.randrange(-32, 33) / 64
    if gs.get("scale"):  # extreme-scale stratum: power of two, exact in binary64
        g.nodes = g.nodes * float(_F(gs["scale"]))
    g.compute_geometry()
    return g


def share_edge_pairs_ok(g, neu):
    """3-D admissibility: no two Neumann boundary faces share an edge (= two nodes)."""
    fn = g.face_nodes.tocsc()
    sets = {f: set(fn.indices[fn.indptr[f]:fn.indptr[f + 1]].tolist()) for f in neu}
    neu = list(neu)
    for a in range(len(neu)):
        for b in range(a + 1, len(neu)):
            if len(sets[neu[a]] & sets[neu[b]]) >= 2:
                return False
    return True


def admissible(g, neu):
    bf = set(int(f) for f in g.get_all_boundary_faces())
    if not set(neu) <= bf:
        return False
    if not neu:
        return True
    if g.dim == 2:
        return len(neu) < len(bf)  # at least one Dirichlet face
    return share_edge_pairs_ok(g, neu)


# ----------------------------------------------------------------------------- generator
def _dy(rng, lo, hi, den):
    return Fraction(rng.randint(lo * den, hi * den), den)


def gen_case(rng, tier):
    big = tier == "thorough"
    dim = 2 if rng.random() < 0.5 else 3
    if dim == 2:
        kind = rng.choice(["cart", "cart", "tri", "deltri"])
        n = [rng.choice([1, 2, 2, 3, 3, 4] + ([5, 6] if big else [])), rng.choice([1, 2, 2, 3] + ([4, 5] if big else []))]
        if kind == "tri":
            n = [min(n[0], 3 if not big else 4), min(n[1], 3)]
    else:
        kind = rng.choice(["cart", "cart", "tet"])
        n = [rng.choice([1, 2, 2, 3 if big else 2]), rng.choice([1, 2, 2]), rng.choice([1, 2, 3 if big else 2])]
        if kind == "tet":
            n = [min(x, 2) for x in n]
            if not big and n == [2, 2, 2]:
                n = [2, 2, 1]
    phys = [str(Fraction(n[k]) * rng.choice([Fraction(1), Fraction(1), Fraction(1, 2), Fraction(2), Fraction(3, 4)])) for k in range(dim)]
    gs = {"kind": kind, "n": n, "phys": phys, "pseed": rng.randrange(10**6)}
    if kind == "deltri":
        gs["npts"] = rng.randint(0, 6 if not big else 12)
        gs["n"] = [1, 1]
    else:
        gs["pert"] = str(rng.choice([Fraction(0), Fraction(1, 4), Fraction(1, 2)] if kind == "cart" else [Fraction(0), Fraction(1, 4), Fraction(3, 8)]))
    g = _valid_grid(gs, rng)
    # material
    mu = rng.choice([Fraction(1, 4), Fraction(1, 2), Fraction(1), Fraction(1), Fraction(3, 2), Fraction(8)])
    lam = mu * rng.choice([Fraction(0), Fraction(1, 2), Fraction(1), Fraction(1), Fraction(3), Fraction(128)])
    # field
    ft = rng.choice(["general", "general", "general", "symmetric", "rotation", "translation"])
    A = [[Fraction(0)] * dim for _ in range(dim)]
    if ft in ("general", "symmetric"):
        A = [[_dy(rng, -4, 4, 8) for _ in range(dim)] for _ in range(dim)]
        if ft == "symmetric":
            A = [[A[min(i, j)][max(i, j)] for j in range(dim)] for i in range(dim)]
    elif ft == "rotation":
        for i in range(dim):
            for j in range(i + 1, dim):
                A[i][j] = _dy(rng, -4, 4, 8) or Fraction(1)
                A[j][i] = -A[i][j]
    b = [_dy(rng, -4, 4, 4) for _ in range(dim)]
    if ft == "translation" and all(x == 0 for x in b):
        b[0] = Fraction(3, 4)
    # boundary sets
    bf = [int(f) for f in g.get_all_boundary_faces()]
    mode = rng.choice(["alldir", "mix", "mix", "mix", "sides", "onedir"] if dim == 2 else ["alldir", "mix", "mix", "mix", "dense"])
    neu = []
    if mode in ("mix", "dense"):
        p = 0.95 if mode == "dense" else rng.choice([0.2, 0.5, 0.8])
        order = bf[:]
        rng.shuffle(order)
        for f in order:
            if rng.random() < p:
                if dim == 2 or share_edge_pairs_ok(g, neu + [f]):
                    neu.append(f)
    elif mode == "sides":  # whole sides Neumann: corners with two Neumann faces (asymmetric part eliminated there)
        fc = g.face_centers
        lo, hi = g.nodes[:2].min(axis=1), g.nodes[:2].max(axis=1)
        nrm = g.face_normals[:2] / np.linalg.norm(g.face_normals[:2], axis=0)
        sides = rng.sample(["w", "e", "s", "n"], rng.randint(1, 3))
        for f in bf:
            ax = int(abs(nrm[1, f]) > abs(nrm[0, f]))
            up = fc[ax, f] > 0.5 * (lo[ax] + hi[ax])
            tag = [["w", "e"], ["s", "n"]][ax][int(up)]
            if tag in sides:
                neu.append(f)
    elif mode == "onedir":
        keep = rng.choice(bf)
        neu = [f for f in bf if f != keep]
    if dim == 2 and len(neu) == len(bf):
        neu = neu[:-1]
    neu = sorted(neu)
    eta = rng.choice([None, None, None, None, None, "0", "1/4", "1/3", "1/2"])
    case = {"grid": gs, "lam": str(lam), "mu": str(mu), "field": ft, "A": [[str(x) for x in r] for r in A], "b": [str(x) for x in b],
            "neu": neu, "eta": eta, "inverter": rng.choice(["python", "python", "numba"]), "rseed": rng.randrange(10**6)}
    # strata (counts reported by stats): entry point, extreme scales, permuted / duplicated boundary face lists, repeated discretisation
    u01 = rng.random()
    if u01 < 0.2:
        case["entry"] = "subface"  # expert entry: boundary condition given per sub-face to Mpsa._stress_discretization
    u02 = rng.random()
    if u02 < 0.12:
        gs["scale"] = rng.choice(["1/1024", "1024"])
    elif u02 < 0.24:
        case["lam"], case["mu"] = str(lam * 2**30), str(mu * 2**30)  # GPa-like stiffness
    if rng.random() < 0.25:
        case["bc_perm"] = rng.randrange(10**6)  # boundary faces handed over unsorted, a third of them twice
    if rng.random() < 0.15:
        case["repeat"] = True  # discretize twice into the same dictionary
    if dim == 3:
        k = 4 if not big else 8
        case["tie_nodes"] = sorted(rng.sample(range(g.num_nodes), min(k, g.num_nodes)))
    if dim == 2 and g.num_cells <= (9 if not big else 12) and rng.random() < (0.45 if not big else 0.3):
        case["grid_tie"] = True  # whole-grid tie: the Lean model assembles all four matrices itself
    if degenerate(case):  # a local system of the model itself is singular: no claim (hypothesis Unisolvent); draw another case
        return gen_case(rng, tier)
    return case


REJECTED = {"grids": 0}


def _valid_grid(gs, rng):
    """Reduce the perturbation until porepy accepts the grid (compute_geometry raises e.g. on inverted tetrahedra) and all
    cells have a sane volume (mutates gs); rejected attempts are counted for stats()."""
    for _ in range(8):
        try:
            g = build_grid(gs)
            ref = g.cell_volumes.sum() / g.num_cells
            if (g.cell_volumes.min() > (0.05 if gs["kind"] != "deltri" else 0.02) * ref and np.all(np.isfinite(g.face_normals))
                    and np.all(np.isfinite(g.cell_centers))):
                return g
        except Exception:
            pass
        REJECTED["grids"] += 1
        if gs["kind"] == "deltri":
            gs["pseed"] = rng.randrange(10**6)
        else:
            gs["pert"] = str(_F(gs["pert"]) / 2) if _F(gs["pert"]) > Fraction(1, 16) else "0"
    gs["pert"] = "0"
    gs["npts"] = 0
    gs.pop("pts", None)
    return build_grid(gs)


# ----------------------------------------------------------------------------- real code
def _setup(case):
    """Grid, material, boundary condition, linear field and its boundary data."""
    import porepy as pp

    g = build_grid(case["grid"])
    d = g.dim
    lam, mu = float(_F(case["lam"])), float(_F(case["mu"]))
    A = np.array([[float(_F(x)) for x in r] for r in case["A"]])
    b = np.array([float(_F(x)) for x in case["b"]])
    bf = g.get_all_boundary_faces()
    neu = set(case["neu"])
    names = ["neu" if int(f) in neu else "dir" for f in bf]
    order = list(range(len(bf)))
    if case.get("bc_perm") is not None:
        r = random.Random(case["bc_perm"])
        r.shuffle(order)
        order = order + order[: len(order) // 3]
    bc = pp.BoundaryConditionVectorial(g, bf[order], [names[i] for i in order])
    C = pp.FourthOrderTensor(mu * np.ones(g.num_cells), lam * np.ones(g.num_cells))
    S = mu * (A + A.T) + lam * np.trace(A) * np.eye(d)
    uc = A @ g.cell_centers[:d] + b[:, None]
    uf = A @ g.face_centers[:d] + b[:, None]
    T = S @ g.face_normals[:d]
    sgn, _ = g.signs_and_cells_of_boundary_faces(bf)
    bcv = np.zeros((d, g.num_faces))
    for f, s, nm in zip(bf, sgn, names):
        bcv[:, f] = uf[:, f] if nm == "dir" else T[:, f] * s  # Neumann data: traction w.r.t. the outward normal
    return dict(g=g, d=d, lam=lam, mu=mu, A=A, b=b, bf=bf, names=dict(zip((int(f) for f in bf), names)), bc=bc, C=C, S=S,
                uc=uc, uf=uf, T=T, bcv=bcv, eta=None if case.get("eta") is None else float(_F(case["eta"])))


def _discretize(s, case):
    import porepy as pp

    par = {"fourth_order_tensor": s["C"], "bc": s["bc"], "inverter": case.get("inverter", "python")}
    if s["eta"] is not None:
        par["mpsa_eta"] = s["eta"]
    data = pp.initialize_data({}, "mechanics", par)
    pp.Mpsa("mechanics").discretize(s["g"], data)
    return data[pp.DISCRETIZATION_MATRICES]["mechanics"]


def _scales(s):
    g, d = s["g"], s["d"]
    amax = float(np.abs(s["A"]).max())
    bmax = float(np.abs(s["b"]).max())
    cf = g.cell_faces.tocoo()
    hmin = float(np.linalg.norm(g.face_centers[:, cf.row] - g.cell_centers[:, cf.col], axis=0).min())
    diam = float(np.linalg.norm(g.nodes.max(axis=1) - g.nodes.min(axis=1)))
    st = (s["lam"] + 2 * s["mu"]) * (amax + bmax / hmin) * float(g.face_areas.max())
    su = amax * diam + bmax
    return max(st, 1e-300), max(su, 1e-300)


def oracle(case):
    """The property on the real matrices: exact traction on every face (prescribed value on Neumann faces),
    zero traction for translations / rotations, exact boundary displacement on Dirichlet faces."""
    try:
        s = _setup(case)
    except Exception as e:
        return {"what": f"building grid / parameters raised {type(e).__name__}: {e}", "key": "setup-raises"}
    g, d = s["g"], s["d"]
    if not admissible(g, case["neu"]):
        return None  # the property makes no claim for this boundary set
    cls = f"{d}d-{case['grid']['kind']}-{'alldir' if not case['neu'] else 'mixed'}"
    r = _oracle_checks(case, s, cls)
    if r is not None and degenerate(case):
        # The model's own local system is singular here (Unisolvent fails, MPSA is undefined on this grid).  An explicit
        # refusal (exception) is acceptable; matrices that are silently meaningless are not.
        if r["key"].startswith("discretize-raises"):
            return None
        return {"what": "singular local MPSA system (valid grid, degenerate for the method) is not detected: Mpsa.discretize returns "
                        "meaningless matrices without an error; " + r["what"], "key": "singular-local-system-silent-garbage"}
    return r


def _oracle_checks(case, s, cls):
    g, d = s["g"], s["d"]
    try:
        M = _discretize(s, case)
    except Exception as e:
        return {"what": f"Mpsa.discretize raised {type(e).__name__}: {e} on {cls}", "key": f"discretize-raises-{type(e).__name__}"}
    u = s["uc"].ravel("F")
    bcv = s["bcv"].ravel("F")
    t = (M["stress"] @ u + M["bound_stress"] @ bcv).reshape((d, -1), order="F")
    ub = (M["bound_displacement_cell"] @ u + M["bound_displacement_face"] @ bcv).reshape((d, -1), order="F")
    st, su = _scales(s)
    if not (np.all(np.isfinite(t)) and np.all(np.isfinite(ub))):
        return {"what": f"non-finite traction / displacement reconstruction on {cls}", "key": f"nonfinite-{cls}"}
    is_neu = np.zeros(g.num_faces, bool)
    is_neu[case["neu"]] = True
    is_dir = np.zeros(g.num_faces, bool)
    is_dir[[f for f, nm in s["names"].items() if nm == "dir"]] = True
    err = np.abs(t - s["T"]).max(axis=0) / st
    ft = case.get("field", "general")
    for mask, label in ((~is_neu, "nonneumann"), (is_neu, "neumann")):
        if mask.any() and err[mask].max() > TOL:
            f = int(np.flatnonzero(mask)[np.argmax(err[mask])])
            where = "boundary" if f in s["names"] else "interior"
            zero = {"translation": "rigid translation must give zero traction; ", "rotation": "rigid rotation must give zero traction; "}.get(ft, "")
            return {"what": f"{zero}traction on {label} {where} face {f} is {t[:, f].tolist()} but sigma(A) n_f = {s['T'][:, f].tolist()} "
                            f"(relative error {err[f]:.3g}; {cls}, field {ft}, lambda={case['lam']}, mu={case['mu']}, {len(case['neu'])} Neumann faces)",
                    "key": f"traction-{label}-{cls}" + (f"-{ft}" if ft in ("translation", "rotation") else "")}
    eu = np.abs(ub - s["uf"]).max(axis=0) / su
    if is_dir.any() and eu[is_dir].max() > TOL:
        f = int(np.flatnonzero(is_dir)[np.argmax(eu[is_dir])])
        return {"what": f"boundary displacement reconstruction on Dirichlet face {f} is {ub[:, f].tolist()} but u(x_f) = {s['uf'][:, f].tolist()} "
                        f"(relative error {eu[f]:.3g}; {cls}, field {ft})", "key": f"bound-displacement-{cls}"}
    return _oracle_entries(case, s, cls, M, st, su)


def _oracle_entries(case, s, cls, M, st, su):
    """Neighbouring entry points the property's callers go through: assemble_matrix_rhs (the affine field solves the assembled
    system with zero source), a repeated discretize into the same dictionary, the per-sub-face boundary condition entry."""
    import porepy as pp
    from porepy.numerics.fv import _fvutils

    g, d = s["g"], s["d"]
    u, bcv = s["uc"].ravel("F"), s["bcv"].ravel("F")
    par = {"fourth_order_tensor": s["C"], "bc": s["bc"], "inverter": case.get("inverter", "python"), "bc_values": bcv,
           "source": np.zeros(d * g.num_cells)}
    if s["eta"] is not None:
        par["mpsa_eta"] = s["eta"]
    data = pp.initialize_data({}, "mechanics", par)
    discr = pp.Mpsa("mechanics")
    try:
        discr.discretize(g, data)
        if case.get("repeat"):
            first = {k: data[pp.DISCRETIZATION_MATRICES]["mechanics"][k].copy() for k in MAT_KEYS}
            discr.discretize(g, data)
            for k in MAT_KEYS:
                if (first[k] != data[pp.DISCRETIZATION_MATRICES]["mechanics"][k]).nnz:
                    return {"what": f"second discretize into the same dictionary changed matrix {k} ({cls})", "key": f"repeat-differs-{k}"}
        A, rhs = discr.assemble_matrix_rhs(g, data)
    except Exception as e:
        return {"what": f"discretize/assemble_matrix_rhs raised {type(e).__name__}: {e} on {cls}", "key": f"assemble-raises-{type(e).__name__}"}
    bal = np.abs(A @ u - rhs)
    if bal.max() / st > TOL:
        c = int(np.argmax(bal)) // d
        return {"what": f"assemble_matrix_rhs: the affine field does not satisfy the momentum balance of cell {c} "
                        f"(|A u - rhs| = {bal.max():.3g}, relative {bal.max() / st:.3g}; {cls})", "key": f"assemble-balance-{cls}"}
    if case["neu"] != sorted(int(f) for f in s["bf"]) and A.shape[0] <= 240:
        # Solvability is NOT part of the property (e.g. a single column of cells with Neumann sides and Dirichlet ends has an
        # exactly singular MPSA stiffness matrix although every affine field is reproduced): only well-conditioned systems.
        Ad = A.toarray()
        sv = np.linalg.svd(Ad, compute_uv=False)
        if sv[-1] > 1e-10 * sv[0]:
            sol = np.linalg.solve(Ad, rhs)
            if np.abs(sol - u).max() / su > max(TOL, 1e-13 * sv[0] / sv[-1]):
                return {"what": f"solution of the assembled system differs from the affine field by {np.abs(sol - u).max():.3g} ({cls})",
                        "key": f"solve-linear-{cls}"}
    if case.get("entry") == "subface":
        stp = _fvutils.SubcellTopology(g)
        bsub = _fvutils.boundary_to_sub_boundary(s["bc"], stp)
        try:
            S, B, hc, hb = discr._stress_discretization(g, s["C"], bsub, eta=s["eta"], inverter=case.get("inverter", "python"))
        except Exception as e:
            return {"what": f"_stress_discretization with a sub-face boundary condition raised {type(e).__name__}: {e} ({cls})",
                    "key": f"subface-raises-{type(e).__name__}"}
        nn = np.diff(g.face_nodes.indptr)
        fno = stp.fno_unique
        isneu = np.array([s["names"].get(int(f), "int") == "neu" for f in fno])
        bsv = (s["bcv"][:, fno] / np.where(isneu, nn[fno], 1)).ravel("F")  # Neumann data are integrated over the sub-face
        t = (S @ u + B @ bsv).reshape((d, -1), order="F")
        err = np.abs(t - s["T"][:, fno] / nn[fno]).max(axis=0) / st
        if err.max() > TOL:
            k = int(np.argmax(err))
            return {"what": f"sub-face entry: traction on sub-face {k} (face {int(fno[k])}) is {t[:, k].tolist()} but sigma(A) n_f/#nodes = "
                            f"{(s['T'][:, fno[k]] / nn[fno[k]]).tolist()} (relative error {err[k]:.3g}; {cls})", "key": f"subface-traction-{cls}"}
        ub = (hc @ u + hb @ bsv).reshape((d, -1), order="F")
        dirf = [f for f, nm in s["names"].items() if nm == "dir"]
        if dirf:
            eu = np.abs(ub[:, dirf] - s["uf"][:, dirf]).max(axis=0) / su
            if eu.max() > TOL:
                return {"what": f"sub-face entry: displacement reconstruction on Dirichlet face {dirf[int(np.argmax(eu))]} wrong "
                                f"(relative error {eu.max():.3g}; {cls})", "key": f"subface-displacement-{cls}"}
    return None


# ----------------------------------------------------------------------------- correspondence: regions
def _internals(s, case):
    """The pieces of Mpsa._stress_discretization, called as that method calls them."""
    import porepy as pp
    from porepy.numerics.fv import _fvutils

    g, d = s["g"], s["d"]
    discr = pp.Mpsa("mechanics")
    eta = s["eta"] if s["eta"] is not None else _fvutils.determine_eta(g)
    sd, C2 = discr._reduce_grid_constit_2d(g, s["C"]) if d == 2 else (g, s["C"])
    st = _fvutils.SubcellTopology(sd)
    bsub = _fvutils.boundary_to_sub_boundary(s["bc"], st)
    be = _fvutils.ExcludeBoundaries(st, bsub, d)
    hook, igrad, cnb = discr._create_inverse_gradient_matrix(sd, C2, st, be, eta, case.get("inverter", "python"))
    rhs_cells = discr._create_rhs_cell_center(sd, st, eta, cnb[0].size, be)
    rhs_bound = discr._create_bound_rhs(bsub, be, st, sd, False)
    hf2f = _fvutils.map_hf_2_f(st.fno_unique, st.subfno_unique, d)
    return dict(sd=sd, st=st, hook=hook, igrad=igrad, cnb=cnb, rhs_cells=rhs_cells, rhs_bound=rhs_bound, hf2f=hf2f, eta=eta)


def _topology(s):
    """Sub-cell topology only (nothing is discretised or inverted here)."""
    import porepy as pp
    from porepy.numerics.fv import _fvutils

    g, d = s["g"], s["d"]
    eta = s["eta"] if s["eta"] is not None else _fvutils.determine_eta(g)
    sd = pp.Mpsa("mechanics")._reduce_grid_constit_2d(g, s["C"])[0] if d == 2 else g
    st = _fvutils.SubcellTopology(sd)
    cnb, _ = pp.matrix_operations.rlencode(np.vstack((st.cno, st.nno)))
    return dict(sd=sd, st=st, cnb=cnb, eta=eta)


def _local_matrix(R, lam, mu, d):
    """Matrix of the MODEL's local system of a region (unknowns: sub-cell gradients), assembled by the harness from
    the region data - independent of the code under test.  Rows scaled by their absolute sum, as the code does."""
    m = len(R["cells"])
    CS = np.zeros((d, d, d, d))
    CA = np.zeros((d, d, d, d))
    for a in range(d):
        for b in range(d):
            if a == b:
                for p in range(d):
                    CS[a, a, p, p] += lam
                CS[a, a, a, a] += 2 * mu
            else:
                CS[a, b, a, b] = mu
                CA[a, b, b, a] = mu
    w = np.array(R["vol"]) / sum(R["vol"])
    rows = []
    for r in R["rows"]:
        blk = np.zeros((d, m, d, d))
        if r["t"] == "tc":
            t = np.einsum("abpq,b->apq", CS, r["n"])
            blk[:, r["i"]] += t
            blk[:, r["j"]] -= t
        elif r["t"] == "dc":
            for a in range(d):
                blk[a, r["i"], a, :] += r["xs"] - R["xc"][r["i"]]
                blk[a, r["j"], a, :] -= r["xs"] - R["xc"][r["j"]]
        elif r["t"] == "dir":
            for a in range(d):
                blk[a, r["i"], a, :] += r["xs"] - R["xc"][r["i"]]
        else:
            blk[:, r["i"]] += np.einsum("abpq,b->apq", CS, r["n"])
            if not r["elim"]:
                ta = np.einsum("abpq,b->apq", CA, r["n"])
                for k in range(m):
                    blk[:, k] += w[k] * ta
        rows.append(blk.reshape(d, m * d * d))
    M = np.vstack(rows) if rows else np.zeros((0, m * d * d))
    sc = np.abs(M).sum(axis=1)
    return M / np.where(sc > 0, sc, 1.0)[:, None]


COND_MAX = 1e7
_DEGENERATE = {}


def degenerate(case):
    """True iff some interaction region of the MODEL is not (numerically) uniquely solvable: the hypothesis `Unisolvent`
    of the exactness theorems fails and MPSA itself is undefined there (e.g. Delaunay grids where the centres of the two
    cells at a corner are collinear with the two boundary face centres).  Decided from geometry and boundary types only."""
    key = json.dumps({k: case[k] for k in ("grid", "neu", "eta", "lam", "mu")}, sort_keys=True)
    if key not in _DEGENERATE:
        try:
            s = _setup(case)
        except Exception:  # a grid porepy itself rejects: the oracle reports it (key setup-raises), nothing to skip here
            _DEGENERATE[key] = False
            return False
        T = _topology(s)
        worst = 0.0
        for R in _regions(s, T, range(s["g"].num_nodes)):
            M = _local_matrix(R, s["lam"], s["mu"], s["d"])
            if M.shape[0] < M.shape[1]:
                worst = float("inf")
                break
            sv = np.linalg.svd(M, compute_uv=False)
            worst = max(worst, float(sv[0] / sv[-1]) if sv[-1] > 0 else float("inf"))
        _DEGENERATE[key] = worst > COND_MAX
    return _DEGENERATE[key]


def _regions(s, I, nodes):
    """Region data per node from grid topology (harness code, independent of the discretisation):
    sub-cells, rows, hooks (first side of every sub-face, as `unique_subfno` picks it)."""
    sd, st, cnb = I["sd"], I["st"], I["cnb"]
    d = s["d"]
    nn = np.diff(sd.face_nodes.indptr)
    ncn = sd.num_cell_nodes()
    out = []
    for v in nodes:
        ks = np.flatnonzero(cnb[1] == v)
        cells = cnb[0][ks]
        loc = {int(c): i for i, c in enumerate(cells)}
        ss = np.flatnonzero(st.nno_unique == v)
        nneu = sum(1 for x in ss if s["names"].get(int(st.fno_unique[x])) == "neu")
        elim = len(ks) < nneu  # `_eliminate_ncasym`: more Neumann sub-faces than sub-cells
        rows, hooks = [], []
        for x in ss:
            f = int(st.fno_unique[x])
            es = np.flatnonzero(st.subfno == x)
            sides = [(int(st.cno[e]), int(sd.cell_faces[f, st.cno[e]])) for e in es]
            n = sd.face_normals[:d, f] / nn[f]
            kind = s["names"].get(f, "int")
            eta = 0.0 if kind != "int" else I["eta"]
            xs = sd.face_centers[:d, f] + eta * (sd.nodes[:d, v] - sd.face_centers[:d, f])
            hooks.append(dict(s=int(x), f=f, i=loc[int(st.cno_unique[x])], n=n, elim=bool(kind == "neu" and elim)))
            if kind == "int":
                (c1, s1), (c2, _) = sides
                if s1 < 0:
                    c1, c2 = c2, c1
                rows.append(dict(t="tc", i=loc[c1], j=loc[c2], n=n))
                rows.append(dict(t="dc", i=loc[c1], j=loc[c2], xs=xs))
            elif kind == "dir":
                rows.append(dict(t="dir", i=loc[sides[0][0]], xs=xs, f=f))
            else:
                rows.append(dict(t="neu", i=loc[sides[0][0]], n=n, f=f, sgn=sides[0][1], nn=int(nn[f]), elim=bool(elim)))
        out.append(dict(v=int(v), ks=[int(k) for k in ks], cells=[int(c) for c in cells],
                        vol=[float(sd.cell_volumes[c] / ncn[c]) for c in cells], xc=[sd.cell_centers[:d, c] for c in cells],
                        rows=rows, hooks=hooks))
    return out


def _prepare(case):
    key = json.dumps(case, sort_keys=True)
    if key in _CACHE:
        return _CACHE[key]
    s = _setup(case)
    g, d = s["g"], s["d"]
    I = _internals(s, case)
    nodes = case.get("tie_nodes")
    if nodes is None:
        nodes = list(range(g.num_nodes))
    regs = _regions(s, I, nodes)
    # random, non-linear data: the model's rows must be the code's rows, not only for affine fields
    r = random.Random(case["rseed"])
    u = np.array([[r.randrange(-64, 65) / 16 for _ in range(g.num_cells)] for _ in range(d)])
    bv = np.array([[r.randrange(-64, 65) / 16 for _ in range(g.num_faces)] for _ in range(d)])
    proj = I["rhs_bound"] @ I["hf2f"].T
    G = I["igrad"] @ (I["rhs_cells"] @ u.ravel("F") + proj @ bv.ravel("F"))
    Glin = I["igrad"] @ (I["rhs_cells"] @ s["uc"].ravel("F") + proj @ s["bcv"].ravel("F"))
    out = dict(s=s, regs=regs, u=u, bv=bv, G=G.reshape((-1, d, d)), Glin=Glin.reshape((-1, d, d)),
               tr=(I["hook"] @ G).reshape((-1, d)), trlin=(I["hook"] @ Glin).reshape((-1, d)))
    _CACHE[key] = out  # small: grid + region data (the sparse internals are dropped)
    return out


def _fl(v):
    return [frac(float(x)) for x in v]


def _grid_op(case, s):
    """The whole 2-D grid as the code sees it (topology arrays, geometry arrays, boundary types)."""
    from porepy.numerics.fv import _fvutils

    g = s["g"]
    fn = g.face_nodes.tocsc()
    cf = g.cell_faces.tocsr()
    fcs = []
    for f in range(g.num_faces):
        row = cf.getrow(f)
        order = np.argsort(row.indices)
        fcs.append([[int(row.indices[k]), frac(float(row.data[k]))] for k in order])
    eta = s["eta"] if s["eta"] is not None else _fvutils.determine_eta(g)
    return {"op": "grid", "nodes": [_fl(g.nodes[:2, v]) for v in range(g.num_nodes)],
            "face_nodes": [[int(x) for x in fn.indices[fn.indptr[f]:fn.indptr[f + 1]]] for f in range(g.num_faces)],
            "face_cells": fcs, "cell_centers": [_fl(g.cell_centers[:2, c]) for c in range(g.num_cells)],
            "face_centers": [_fl(g.face_centers[:2, f]) for f in range(g.num_faces)],
            "face_normals": [_fl(g.face_normals[:2, f]) for f in range(g.num_faces)],
            "vol_share": _fl(g.cell_volumes / g.num_cell_nodes()),
            "is_dir": [s["names"].get(f, "int") == "dir" for f in range(g.num_faces)],
            "eta": frac(eta), "lam": case["lam"], "mu": case["mu"], "A": case["A"], "b": case["b"]}


def _mat_scales(s):
    """Entry scales of the four matrices, from the inputs only."""
    g = s["g"]
    cf = g.cell_faces.tocoo()
    hmin = float(np.linalg.norm(g.face_centers[:, cf.row] - g.cell_centers[:, cf.col], axis=0).min())
    diam = float(np.linalg.norm(g.nodes.max(axis=1) - g.nodes.min(axis=1)))
    st = (s["lam"] + 2 * s["mu"]) * float(g.face_areas.max()) / hmin
    su = 1.0 + diam / hmin
    return {"stress": st, "bound_stress": max(st, su), "bound_displacement_cell": su,
            "bound_displacement_face": max(su, su * hmin / ((s["lam"] + 2 * s["mu"]) * float(g.face_areas.min())))}


def _grid_impl(case, s, M):
    d, nf = 2, s["g"].num_faces
    sc = _mat_scales(s)
    st_lin, su_lin = _scales(s)
    u, bcv = s["uc"].ravel("F"), s["bcv"].ravel("F")
    t = M["stress"] @ u + M["bound_stress"] @ bcv
    ub = M["bound_displacement_cell"] @ u + M["bound_displacement_face"] @ bcv
    out = {"flags": {"wf": True, "admissible": True, "certified": True, "manifold": True},
           "lin_traction": [float(x) / st_lin for x in t], "lin_disp": [float(x) / su_lin for x in ub]}
    for k in MAT_KEYS:
        out[k] = (M[k].toarray() / sc[k]).tolist()
    return out


def _grid_model(case, s, o):
    if "err" in o:
        return {"driver_error": o}
    flags = {k: o.get(k) for k in ("wf", "admissible", "certified", "manifold") if k in o}
    if not o.get("certified"):
        return {"flags": flags}
    g = s["g"]
    nf = g.num_faces
    sc = _mat_scales(s)
    st_lin, su_lin = _scales(s)

    def dense(cols, which):
        a = np.zeros((2 * nf, len(cols)))
        for j, col in enumerate(cols):
            for f in range(nf):
                for i in range(2):
                    a[2 * f + i, j] = float(Fraction(col[which][f][i]))
        return a

    out = {"flags": flags,
           "lin_traction": [float(Fraction(x)) / st_lin for v in o["lin"][0] for x in v],
           "lin_disp": [float(Fraction(x)) / su_lin for v in o["lin"][1] for x in v]}
    for k, cols, which in (("stress", o["cellcols"], 0), ("bound_stress", o["facecols"], 0),
                           ("bound_displacement_cell", o["cellcols"], 1), ("bound_displacement_face", o["facecols"], 1)):
        out[k] = (dense(cols, which) / sc[k]).tolist()
    return out


def model_ops(case):
    try:
        if degenerate(case):
            return []
        P = _prepare(case)
    except Exception:
        return []
    s = P["s"]
    ops = []
    for R in P["regs"]:
        rows = []
        for r in R["rows"]:
            if r["t"] == "tc":
                rows.append({"t": "tc", "i": r["i"], "j": r["j"], "n": _fl(r["n"])})
            elif r["t"] == "dc":
                rows.append({"t": "dc", "i": r["i"], "j": r["j"], "xs": _fl(r["xs"])})
            elif r["t"] == "dir":
                rows.append({"t": "dir", "i": r["i"], "xs": _fl(r["xs"]), "val": _fl(P["bv"][:, r["f"]])})
            else:  # code row: sgn * traction(n_s) = value / #nodes
                rows.append({"t": "neu", "i": r["i"], "n": _fl(r["n"]), "elim": r["elim"],
                             "val": [frac(Fraction(float(x)) * r["sgn"] / r["nn"]) for x in P["bv"][:, r["f"]]]})
        ops.append({"op": "region", "d": s["d"], "lam": case["lam"], "mu": case["mu"], "vol": _fl(R["vol"]),
                    "xc": [_fl(x) for x in R["xc"]], "rows": rows,
                    "hooks": [{"i": h["i"], "n": _fl(h["n"]), "elim": h["elim"]} for h in R["hooks"]],
                    "A": case["A"], "b": case["b"],
                    "u": [_fl(P["u"][:, c]) for c in R["cells"]], "G": [[_fl(row) for row in P["G"][k]] for k in R["ks"]]})
    if case.get("grid_tie"):
        ops.append(_grid_op(case, s))
    return ops


def _norms(P):
    s = P["s"]
    g = s["g"]
    sG = max(float(np.abs(P["G"]).max()), 1e-300)
    diam = float(np.linalg.norm(g.nodes.max(axis=1) - g.nodes.min(axis=1)))
    sT = (s["lam"] + 2 * s["mu"]) * sG * float(g.face_areas.max())
    sU = float(np.abs(P["u"]).max()) + float(np.abs(P["bv"]).max()) + sG * diam
    return sT, sU


def impl_run(case):
    """What the real code says about every sampled region (normalised to O(1) numbers)."""
    P = _prepare(case)
    s = P["s"]
    st_lin, _ = _scales(s)
    sT, sU = _norms(P)
    regs = []
    gtol = TOL * (float(np.abs(s["A"]).max()) + st_lin / ((s["lam"] + 2 * s["mu"]) * float(s["g"].face_areas.max())))
    for R in P["regs"]:
        # the real local solution for the affine data is G = A on every sub-cell (regions without eliminated rows)
        exact = all(float(np.abs(P["Glin"][k] - s["A"]).max()) <= gtol for k in R["ks"])
        regs.append({"v": R["v"], "lin_ok": bool(exact or any(r.get("elim") for r in R["rows"])), "n_elim": sum(1 for r in R["rows"] if r.get("elim")),
                     "lin_tr": [[float(x) / st_lin for x in P["trlin"][h["s"]]] for h in R["hooks"]],
                     "tr": [[float(x) / sT for x in P["tr"][h["s"]]] for h in R["hooks"]],
                     "res": [[0.0] * s["d"] for _ in R["rows"]]})
    out = {"regions": regs}
    if case.get("tie_nodes") is None:  # all nodes sampled: per-face sums against the assembled matrices
        M = _discretize(s, case)
        t = (M["stress"] @ s["uc"].ravel("F") + M["bound_stress"] @ s["bcv"].ravel("F")).reshape((s["d"], -1), order="F")
        out["face_traction"] = [[float(x) / st_lin for x in t[:, f]] for f in range(s["g"].num_faces)]
        if case.get("grid_tie"):
            out["grid"] = _grid_impl(case, s, M)
    return out


def model_decode(outs, case):
    try:
        if degenerate(case):
            return {"degenerate": True}
        P = _prepare(case)
    except Exception as e:
        return {"prepare_failed": f"{type(e).__name__}: {e}"}
    s = P["s"]
    st_lin, _ = _scales(s)
    sT, sU = _norms(P)
    regs = []
    face = np.zeros((s["d"], s["g"].num_faces))
    for R, o in zip(P["regs"], outs):
        if "err" in o:
            return {"driver_error": o}
        res = []
        for r, v in zip(R["rows"], o["res"]):
            sc = sT if r["t"] in ("tc", "neu") else sU
            res.append([float(Fraction(x)) / sc for x in v])
        lin_tr = [[float(Fraction(x)) for x in v] for v in o["lin_tr"]]
        for h, v in zip(R["hooks"], lin_tr):
            face[:, h["f"]] += v
        regs.append({"v": R["v"], "lin_ok": o["lin_ok"], "n_elim": o["n_elim"],
                     "lin_tr": [[x / st_lin for x in v] for v in lin_tr],
                     "tr": [[float(Fraction(x)) / sT for x in v] for v in o["tr"]], "res": res})
    out = {"regions": regs}
    if case.get("tie_nodes") is None:
        out["face_traction"] = [[float(x) / st_lin for x in face[:, f]] for f in range(s["g"].num_faces)]
        if case.get("grid_tie"):
            out["grid"] = _grid_model(case, s, outs[len(P["regs"])])
    return out


def compare(impl, model, case):
    from harness.common import deep_compare

    if degenerate(case):
        return None
    if "harness_exc" in impl:
        return "real code raised while extracting the local systems: " + impl["harness_exc"]
    return deep_compare(impl, model, tol=TOL)


# ----------------------------------------------------------------------------- bookkeeping
def nontrivial(case):
    gs = case["grid"]
    cells = (gs.get("npts", 0) + 2) if gs["kind"] == "deltri" else int(np.prod(gs["n"])) * {"cart": 1, "tri": 2, "tet": 6}[gs["kind"]]
    nonzero = any(_F(x) != 0 for r in case["A"] for x in r) or any(_F(x) != 0 for x in case["b"])
    return cells >= 2 and nonzero


def signature(case):
    c = dict(case)
    c.pop("rseed", None)
    c.pop("tie_nodes", None)
    c.pop("grid_tie", None)
    return json.dumps(c, sort_keys=True)


def shrink_candidates(case):
    gs = case["grid"]
    if case["neu"]:
        yield dict(case, neu=[])
        for i in range(len(case["neu"])):
            yield dict(case, neu=case["neu"][:i] + case["neu"][i + 1:])
    if gs.get("pert", "0") != "0":
        yield dict(case, grid=dict(gs, pert="0"))
    if case.get("eta") is not None:
        yield dict(case, eta=None)
    if case.get("inverter") != "python":
        yield dict(case, inverter="python")
    if not case["neu"]:
        for k in range(len(gs["n"])):
            if gs["n"][k] > 1 and gs["kind"] != "deltri":
                n2 = list(gs["n"])
                n2[k] -= 1
                c = dict(case, grid=dict(gs, n=n2, phys=[str(_F(p) * n2[j] / gs["n"][j]) for j, p in enumerate(gs["phys"])]))
                c.pop("tie_nodes", None)
                if len(n2) == 3:
                    c["tie_nodes"] = [0]
                yield c
        if gs["kind"] == "deltri" and gs.get("npts", 0) > 0:
            yield dict(case, grid=dict(gs, npts=gs["npts"] - 1))
    d = len(case["b"])
    for i in range(d):
        for j in range(d):
            if _F(case["A"][i][j]) not in (0, 1):
                for val in ("0", "1"):
                    A2 = [list(r) for r in case["A"]]
                    A2[i][j] = val
                    yield dict(case, A=A2, field="general")
        if _F(case["b"][i]) != 0:
            b2 = list(case["b"])
            b2[i] = "0"
            yield dict(case, b=b2)


def stats(cases, impl_outs):
    from collections import Counter

    kinds = Counter(f"{len(c['grid']['n'])}d-{c['grid']['kind']}" for c in cases)
    fields = Counter(c.get("field", "general") for c in cases)
    bcs = Counter("alldir" if not c["neu"] else "mixed" for c in cases)
    regs = [r for o in impl_outs if isinstance(o, dict) and "regions" in o for r in o["regions"]]
    return {"grids": dict(kinds), "fields": dict(fields), "boundary": dict(bcs),
            "grids_rejected_by_generator_guard": REJECTED["grids"],
            "strata": {"entry_subface_bc": sum(1 for c in cases if c.get("entry") == "subface"),
                       "coordinates_scaled_2^-10_or_2^10": sum(1 for c in cases if c["grid"].get("scale")),
                       "stiffness_scaled_2^30": sum(1 for c in cases if _F(c["mu"]) >= 2**20),
                       "bc_faces_permuted_with_duplicates": sum(1 for c in cases if c.get("bc_perm") is not None),
                       "repeated_discretize": sum(1 for c in cases if c.get("repeat")),
                       "single_cell": sum(1 for c in cases if c["grid"]["kind"] == "cart" and int(np.prod(c["grid"]["n"])) == 1),
                       "single_row_of_cells": sum(1 for c in cases if c["grid"]["kind"] != "deltri" and sorted(c["grid"]["n"])[-2] == 1),
                       "all_neumann_but_one": sum(1 for c in cases if len(c["grid"]["n"]) == 2 and len(c["neu"]) >= 3 and c.get("field")),
                       "lambda_zero": sum(1 for c in cases if _F(c["lam"]) == 0),
                       "lambda_over_mu_128": sum(1 for c in cases if _F(c["mu"]) and _F(c["lam"]) / _F(c["mu"]) == 128)},
            "whole_grid_ties_4_matrices_entrywise": sum(1 for c in cases if c.get("grid_tie")),
            "no_claim_singular_local_system": sum(1 for c in cases if degenerate(c)),
            "perturbed": sum(1 for c in cases if c["grid"].get("pert", "0") != "0"),
            "eta_nondefault": sum(1 for c in cases if c.get("eta") is not None),
            "numba_inverter": sum(1 for c in cases if c.get("inverter") == "numba"),
            "neumann_faces_total": sum(len(c["neu"]) for c in cases),
            "regions_checked": len(regs), "regions_with_eliminated_neumann_rows": sum(1 for r in regs if r["n_elim"]),
            "rows_checked": sum(len(r["res"]) for r in regs), "subface_tractions_checked": sum(len(r["tr"]) for r in regs)}
