"""C42 Phase saturations and fraction derivatives are thermodynamically consistent
(porepy/compositional/utils.py: compute_saturations, chainrule_fractional_derivatives, normalize_rows, safe_sum)."""
import math
import os
from fractions import Fraction

import numpy as np

from harness.common import frac, err_kind, deep_compare

# numba's default thread pool (one thread per core) spends seconds spinning per prange call on a busy machine; two threads
# still run the parallel code path.  Must be set before numba is imported (porepy is imported lazily below).
os.environ.setdefault("NUMBA_NUM_THREADS", "2")

PID = "C42"
_T = "PorepyVerif.C42."
THEOREMS = [_T + t for t in (
    "sat_nonneg", "sat_sum_one", "sat_reproduces_fractions", "sat_solves_coded_system", "coded_system_unique",
    "two_phase_as_coded", "saturated_branch", "vanished_branch", "satCell_eq_closed", "satCells_eq_closed",
    "computeSaturations_eq_closed", "computeSaturations_consistent",
    "chainrule_closed_form", "dxn_is_jacobian", "dxn_difference_quotient", "chainrule_is_derivative",
    "normalize_rows_sum_one", "safeSum_eq_sum",
    "codedSolution_eq_sat", "codedSolution_solves", "snap_reproduction", "snap_reproduction_error_le", "snap_sum_error",
    "snap_defect_le", "snap_saturated_error_le")]
LEAN_MODULES = ["PorepyVerif.C42.Props"]
AUDIT = "PorepyVerif/C42/Audit.lean"
DRIVER = "PorepyVerif/C42/Driver.lean"
N = {"quick": 400, "thorough": 8000}
TOL = 1e-10
RULE = ("one call per case. sat (55%): (num_phases 1-5) x (0-40 cells) arrays handed to compute_saturations at once (or one 1-D cell); every "
        "cell is a composition k_i/D (D dyadic => exactly on the simplex in binary64, or D in 3,5,6,7,10,12,20,100) of kind interior / "
        "with 1..n-2 vanished phases (exact 0; placed at the FRONT / MIDDLE / TAIL / random positions of the phase list, half of them leaving "
        "exactly two phases present) / saturated (exact 1) / near (2^-50-size deviations) / snap-vanished (0 < y_k <= eps: eps, eps/2, eps/8, "
        "same position strata) / snap-saturated (y_j = 1 - eps/2, 1 - eps/4); non-uniform densities p/q in [1/10, 4000] everywhere; eps in {1e-10 (default), 1e-8, 1e-6}; nonzero fractions are >= 1/100 and <= 1-1/100 unless "
        "saturated, i.e. far from the eps thresholds; malformed stream: shape mismatch, two saturated phases. chain (25%): "
        "df_dxn of shape (0-3 + ncomp, 0-30 columns), ncomp 1-5, x = positive / partly zero / partly negative rationals with |sum| >= 1/4 "
        "(normalised and non-normalised), vectorised or 1-D; malformed: too few rows, column mismatch. norm (12%): 0-20 rows x 1-6 "
        "columns, signed entries, |row sum| >= 1/10. safe_sum (8%): 0-8 exact Fractions. Non-trivial = at least one cell/column/row "
        "and, for sat, >= 2 phases; distinct = distinct case JSON")
TRUSTED = [
    "modelled, not verified: np.linalg.solve (LAPACK) — the model returns the explicit solution codedSolution (= the closed form when the "
    "fractions handed to the solve sum to one); theorems codedSolution_solves / sat_solves_coded_system show it solves the system exactly as "
    "assembled by the code, coded_system_unique shows uniqueness for fractions summing to one (uniqueness for the eps-snapped case, defect d > 0, "
    "is not proved — there the tie is the 1e-10 correspondence on the snap-vanished cells); floating-point rounding of the solve / divisions is covered only "
    "by the correspondence tolerance 1e-10",
    "numba njit / prange compilation of the anchored functions (called as they are, compiled)",
    "transposition between numpy (phase, cell) arrays and the model's list of cells is harness glue",
    "the model compares against eps exactly; inputs within 1e-16 of 1-eps or eps are not generated",
]
EXPLANATION = ("FULL (notes: see NOTES in harness/props/c42.py): model = compute_saturations branch for branch (1 phase / saturated / 2-phase formula as coded / masked n-phase) with the closed form "
               "s_j = (y_j/rho_j)/sum_k(y_k/rho_k) in place of linalg.solve, chain rule with the Jacobian as assembled, normalize_rows, safe_sum. Theorems: "
               "closed form is >= 0, sums to 1, reproduces y, solves the coded system uniquely (any n); all branches equal the closed form under "
               "simplex + eps-margin hypotheses; whole vectorised function consistent; coded Jacobian = derivative of x/sum(x) (HasDerivAt over R) and the "
               "code's output = derivative of f(x/sum x) for any differentiable f; normalised rows sum to 1. Correspondence: outputs of the real njit "
               "functions vs the exact rational model on the binary64 inputs, tolerance 1e-10. Oracle: property checked directly on the real code "
               "(non-negativity, unit sum, reproduction of fractions — within the proved snap_* bounds when a phase is within eps of vanished/saturated —, vectorised == per-cell, exact-rational central finite difference of a non-linear "
               "test function, Euler identity x . grad = 0, row sums, proportionality).")
NOTES = [
    "utils.py at this commit contains only safe_sum, normalize_rows, _chainrule_fractional_derivatives(+_parallel, public wrapper), "
    "_compute_saturations(+_parallel, public wrapper, eps argument varied by the generator) and the exception class "
    "CompositionalModellingError (a bare Exception subclass, nothing to verify): all functions are modelled; there are no extended/partial "
    "fraction helpers in this file",
    "observation (outside the property): docstring of compute_saturations says eps default=1e-8, the signature has 1e-10",
    "observation (outside the property): chainrule_fractional_derivatives(2-D df_dxn, 1-D x) raises IndexError (x.shape[1]) where the "
    "docstring promises ValueError for mismatching dimensions",
    "in the eps-snapping regime (some 0 < y_j <= eps, >= 3 phases) the saturations returned by the solve do not sum to one exactly: "
    "sum - 1 = (sum rho s) d / P (theorem snap_sum_error); the public function does not renormalise",
]
ASSUMPTIONS = ["fractions on the simplex up to binary64 rounding of k/D (exact for dyadic D), densities > 0",
               "exact consistency (tolerance 1e-10) is claimed for inputs clear of the eps thresholds (exactly 0 / 1 or at least 1/100 away); for inputs "
               "within eps of a vanished / saturated state the claim is the quantitative bound of the snap_* theorems (density ratio x dropped mass)",
               "no input is closer than 1e-16 (relative) to 1-eps from below, where the float and the exact comparison could differ"]

DYADIC = [2, 4, 8, 16, 32, 64]
OTHER = [3, 5, 6, 7, 10, 12, 20, 100]
EPS = [1e-10, 1e-10, 1e-8, 1e-6]


# ----------------------------------------------------------------------------- generators
def _q(x):
    return str(Fraction(x))


def _composition(rng, n, D):
    """n positive integers summing to D (D >= n)."""
    cuts = sorted(rng.sample(range(1, D), n - 1)) if n > 1 else []
    parts = [b - a for a, b in zip([0] + cuts, cuts + [D])]
    rng.shuffle(parts)
    return parts


def _rho(rng, small=False):
    if small:
        return Fraction(rng.randint(8, 800), 8)
    r = rng.random()
    if r < 0.3:
        return Fraction(rng.randint(1, 40), rng.choice([1, 2, 4, 8]))
    if r < 0.6:
        return Fraction(rng.randint(1, 4000), rng.choice([1, 3, 10]))
    return Fraction(rng.randint(200, 4000), 1) if rng.random() < 0.5 else Fraction(rng.randint(1, 30), 10)


def _place(rng, present, nv, fill):
    """put `nv` copies/values of the dropped phases at the FRONT / MIDDLE / TAIL of the phase list or at random places"""
    drop = fill if isinstance(fill, list) else [fill] * nv
    pos = rng.choice(["front", "front", "middle", "tail", "random"])
    if pos == "front":
        # index 0, or indices 0..nv-1, or index 1 only (a present phase first, then the dropped ones)
        if rng.random() < 0.3 and len(present) >= 1:
            return pos, present[:1] + drop + present[1:]
        return pos, drop + present
    if pos == "tail":
        return pos, present + drop
    if pos == "middle":
        k = rng.randint(1, max(1, len(present) - 1))
        return pos, present[:k] + drop + present[k:]
    y = present + drop
    rng.shuffle(y)
    return pos, y


def _cell(rng, n, dy, eps):
    """one composition for n phases; returns (kind, [Fraction])."""
    if n == 1:
        return "single", [Fraction(1)]
    r = rng.random()
    pool = DYADIC if dy else OTHER
    e = Fraction(eps)
    if r < 0.12:
        y = [Fraction(0)] * n
        y[rng.randrange(n)] = Fraction(1)
        return "saturated", y
    if r < 0.17:  # within 2^-48 of a saturated state
        d = Fraction(1, 2 ** rng.randint(48, 52))
        j = rng.randrange(n)
        k = rng.randint(1, n - 1)
        idx = rng.sample([i for i in range(n) if i != j], k)
        y = [Fraction(0)] * n
        for i in idx:
            y[i] = d
        y[j] = 1 - k * d
        return "near-saturated", y
    if r < 0.23:  # snapped to saturated: y_j = 1 - eps/2 or 1 - eps/4, the rest shared by the other phases
        t = e / rng.choice([2, 4])
        j = rng.randrange(n)
        k = rng.randint(1, n - 1)
        idx = rng.sample([i for i in range(n) if i != j], k)
        y = [Fraction(0)] * n
        for i in idx:
            y[i] = t / k
        y[j] = 1 - t
        return "snap-saturated", y
    if r < 0.28 and n >= 3:  # tiny but non-zero vanished phases
        d = Fraction(1, 2 ** rng.randint(48, 52))
        nv = rng.randint(1, n - 2)
        D = rng.choice([x for x in DYADIC if x >= n - nv and x >= 4])
        parts = [Fraction(p, D) for p in _composition(rng, n - nv, D)]
        parts[rng.randrange(len(parts))] -= nv * d
        pos, y = _place(rng, parts, nv, d)
        return "near-vanished-" + pos, y
    if r < 0.40 and n >= 3:  # snapped to vanished: 0 < y_k <= eps, i.e. the solve sees fractions summing to 1 - d
        nv = n - 2 if rng.random() < 0.5 else rng.randint(1, n - 2)
        drop = [e / rng.choice([1, 2, 8]) for _ in range(nv)]
        D = rng.choice([x for x in DYADIC if x >= n - nv and x >= 4])
        parts = [Fraction(p, D) for p in _composition(rng, n - nv, D)]
        parts[rng.randrange(len(parts))] -= sum(drop)
        pos, y = _place(rng, parts, nv, drop)
        return "snap-vanished-" + pos, y
    if r < 0.68 and n >= 3:  # exactly vanished phases, positions stratified, often exactly two phases left
        nv = n - 2 if rng.random() < 0.5 else rng.randint(1, n - 2)
        D = rng.choice([x for x in pool if x >= n - nv and x >= 3] or [8])
        parts = [Fraction(p, D) for p in _composition(rng, n - nv, D)]
        pos, y = _place(rng, parts, nv, Fraction(0))
        return "vanished-" + pos, y
    D = rng.choice([x for x in pool if x >= n and x >= 3] or [8])
    return "interior", [Fraction(p, D) for p in _composition(rng, n, D)]


def _gen_sat(rng, tier):
    n = rng.choice([1, 2, 2, 2, 3, 3, 3, 4, 4, 5, 5])
    vec = rng.random() < 0.85
    big = 40 if tier == "quick" else 120
    ncell = rng.choice([0, 1, 1, 2, 3, rng.randint(4, big), rng.randint(4, big)]) if vec else 1
    dy = rng.random() < 0.5
    eps = rng.choice(EPS)
    kinds, y, rho = [], [], []
    for _ in range(ncell):
        k, c = _cell(rng, n, dy, eps)
        kinds.append(k)
        y.append([_q(v) for v in c])
        rho.append([_q(_rho(rng)) for _ in range(n)])
    case = {"kind": "sat", "vec": vec, "eps": eps, "y": y, "rho": rho, "cell_kinds": kinds}
    m = rng.random()
    if m < 0.06 and ncell >= 1 and n >= 2:  # two saturated phases in one cell
        c = rng.randrange(ncell)
        yy = ["0"] * n
        for i in rng.sample(range(n), 2):
            yy[i] = "1"
        case["y"][c] = yy
        case["cell_kinds"][c] = "two-saturated"
        case["malformed"] = "two-saturated"
    elif m < 0.12 and ncell >= 1:  # shape mismatch
        if rng.random() < 0.5 or not vec:
            case["rho"] = [r + [_q(_rho(rng))] for r in case["rho"]]
        else:
            case["rho"] = case["rho"] + [case["rho"][0]]
        case["malformed"] = "shape"
    return case


def _xvec(rng, n):
    while True:
        r = rng.random()
        if r < 0.35:  # on the simplex
            D = rng.choice([x for x in DYADIC + OTHER if x >= n and x >= 2] or [8])
            x = [Fraction(p, D) for p in _composition(rng, n, D)] if D >= n else [Fraction(1, n)] * n
        elif r < 0.75:  # extended fractions: positive, sum != 1
            x = [Fraction(rng.randint(1, 40), rng.choice([8, 10, 16, 25, 3])) for _ in range(n)]
        elif r < 0.88:  # some zeros
            x = [Fraction(rng.randint(0, 1) * rng.randint(1, 30), rng.choice([8, 10])) for _ in range(n)]
        else:  # signed
            x = [Fraction(rng.randint(-20, 40), rng.choice([8, 10])) for _ in range(n)]
        if abs(sum(x)) >= (Fraction(1, 4) if min(x) <= 0 else Fraction(1, 25)):
            return x


def _gen_chain(rng, tier):
    n = rng.choice([1, 2, 2, 3, 3, 4, 5])
    pre = rng.choice([0, 0, 1, 2, 3])
    vec = rng.random() < 0.8
    big = 30 if tier == "quick" else 80
    ncol = rng.choice([0, 1, 2, 3, rng.randint(4, big)]) if vec else 1
    df = [[_q(Fraction(rng.randint(-400, 400), rng.choice([4, 8, 10, 3]))) for _ in range(pre + n)] for _ in range(ncol)]
    x = [[_q(v) for v in _xvec(rng, n)] for _ in range(ncol)]
    case = {"kind": "chain", "vec": vec, "pre": pre, "df": df, "x": x}
    m = rng.random()
    if m < 0.06 and ncol >= 1 and n >= 2:  # fewer derivatives than fractions
        case["df"] = [c[: n - 1] for c in df]
        case["pre"] = 0
        case["malformed"] = "rows"
    elif m < 0.11 and vec and ncol >= 1:  # column mismatch
        case["x"] = x + [x[0]]
        case["malformed"] = "cols"
    return case


def _gen_norm(rng, tier):
    m = rng.randint(1, 6)
    nrow = rng.choice([0, 1, 2, rng.randint(3, 20)])
    rows = []
    for _ in range(nrow):
        while True:
            r = rng.random()
            if r < 0.5:
                row = [Fraction(rng.randint(0, 30), rng.choice([1, 8, 10, 7])) for _ in range(m)]
            else:
                row = [Fraction(rng.randint(-30, 30), rng.choice([1, 8, 10, 7])) for _ in range(m)]
            if abs(sum(row)) >= Fraction(1, 10):
                break
        rows.append([_q(v) for v in row])
    return {"kind": "norm", "x": rows, "ncol": m}


def gen_case(rng, tier):
    r = rng.random()
    if r < 0.55:
        return _gen_sat(rng, tier)
    if r < 0.80:
        return _gen_chain(rng, tier)
    if r < 0.92:
        return _gen_norm(rng, tier)
    return {"kind": "safe_sum", "x": [_q(Fraction(rng.randint(-50, 50), rng.choice([1, 2, 3, 7, 10]))) for _ in range(rng.randint(0, 8))]}


# ----------------------------------------------------------------------------- real code
def _U():
    import porepy.compositional.utils as U
    return U


def _fl(cols):
    """list of columns of "n/d" strings -> list of columns of floats"""
    return [[float(Fraction(v)) for v in c] for c in cols]


def _arr(cols, nrow):
    """columns -> numpy array of shape (nrow, ncol)"""
    a = np.array(cols, dtype=float).reshape(len(cols), nrow) if cols else np.zeros((0, nrow))
    return np.ascontiguousarray(a.T)


def _out(v):
    v = float(v)
    return frac(v) if math.isfinite(v) else repr(v)


def _cols(a):
    a = np.atleast_2d(np.asarray(a, dtype=float))
    return [[_out(v) for v in a[:, j]] for j in range(a.shape[1])]


def _nrow(cols, default=0):
    return len(cols[0]) if cols else default


def _call_sat(case):
    U = _U()
    y, rho = _fl(case["y"]), _fl(case["rho"])
    n = _nrow(y, 2)
    if case["vec"]:
        return U.compute_saturations(_arr(y, n), _arr(rho, _nrow(rho, n)), case["eps"])
    return U.compute_saturations(np.array(y[0]), np.array(rho[0]), case["eps"])


def _call_chain(case):
    U = _U()
    df, x = _fl(case["df"]), _fl(case["x"])
    if case["vec"]:
        return U.chainrule_fractional_derivatives(_arr(df, _nrow(df, case["pre"] + 1)), _arr(x, _nrow(x, 1)))
    return U.chainrule_fractional_derivatives(np.array(df[0]), np.array(x[0]))


def _call_norm(case):
    x = _fl(case["x"])
    a = np.array(x, dtype=float).reshape(len(x), case["ncol"])
    return _U().normalize_rows(a)


def impl_run(case):
    k = case["kind"]
    try:
        if k == "sat":
            s = _call_sat(case)
            return {"s": _cols(s if case["vec"] else np.asarray(s).reshape(-1, 1))}
        if k == "chain":
            o = _call_chain(case)
            return {"out": _cols(o if case["vec"] else np.asarray(o).reshape(-1, 1))}
        if k == "norm":
            o = _call_norm(case)
            return {"out": [[_out(v) for v in row] for row in o]}
        if k == "safe_sum":
            return {"out": frac(Fraction(_U().safe_sum([Fraction(v) for v in case["x"]])))}
    except Exception as e:
        return err_kind(e)
    raise ValueError(k)


# ----------------------------------------------------------------------------- model
def _ex(cols):
    """exact binary64 values of the inputs as wire rationals"""
    return [[frac(float(Fraction(v))) for v in c] for c in cols]


def model_ops(case):
    k = case["kind"]
    if k == "sat":
        return [{"op": "sat", "y": _ex(case["y"]), "rho": _ex(case["rho"]), "eps": frac(case["eps"])}]
    if k == "chain":
        return [{"op": "chain", "df": _ex(case["df"]), "x": _ex(case["x"])}]
    if k == "norm":
        return [{"op": "norm", "x": _ex(case["x"])}]
    return [{"op": "safe_sum", "x": case["x"]}]


def model_decode(outs, case):
    return outs[0]


def compare(impl, model, case):
    if case["kind"] == "safe_sum":
        return deep_compare(impl, model)
    return deep_compare(impl, model, tol=TOL)


# ----------------------------------------------------------------------------- oracle (the property on the real code)
def _fail(key, what):
    return {"key": key, "what": what}


def _snap_tolerances(y, rho, eps):
    """allowed deviations (sum, reproduction of present phases, reproduction of dropped phases) = TOL plus the bounds of the
    theorems snap_saturated_error_le / snap_reproduction_error_le / snap_sum_error: with d = mass of the phases with y <= eps,
    m = number of present phases, q = max/min density of the present phases: q d / ((1-d)(m-1)), q d / (m-1), eps."""
    if len(y) >= 2 and max(y) >= 1.0 - eps:  # snapped to a saturated phase: s = e_j exactly
        return TOL, TOL + eps, TOL + eps
    present = [(a, r) for a, r in zip(y, rho) if a > eps]
    d = float(sum(Fraction(a) for a in y if a <= eps))
    if d == 0 or len(present) < 2:
        return TOL, TOL, TOL
    q = max(r for _, r in present) / min(r for _, r in present)
    m = len(present)
    return TOL + q * d / ((1 - d) * (m - 1)), TOL + q * d / (m - 1), TOL + eps


def _oracle_sat(case):
    mal = case.get("malformed")
    try:
        s = _call_sat(case)
    except ValueError as e:
        return None if mal else _fail("sat-error", f"compute_saturations raised ValueError({e}) on admissible input")
    except Exception as e:
        return _fail("sat-error", f"compute_saturations raised {type(e).__name__}: {e}")
    if mal:
        return _fail("sat-malformed-no-error", f"malformed input ({mal}) did not raise ValueError")
    y, rho = _fl(case["y"]), _fl(case["rho"])
    s = np.asarray(s, dtype=float)
    s = s if case["vec"] else s.reshape(-1, 1)
    if s.shape != (_nrow(y, s.shape[0]), len(y)):
        return _fail("sat-shape", f"result shape {s.shape} for {len(y)} cells")
    U = _U()
    for c in range(len(y)):
        sc = [Fraction(float(v)) if math.isfinite(v) else None for v in s[:, c]]
        kind = case["cell_kinds"][c]
        if any(v is None for v in sc):
            return _fail("sat-nonfinite", f"cell {c} ({kind}) y={case['y'][c]} rho={case['rho'][c]}: s={[float(v) for v in s[:, c]]}")
        if any(v < 0 for v in sc):
            return _fail("sat-negative", f"cell {c} ({kind}) y={case['y'][c]} rho={case['rho'][c]}: negative saturation {[float(v) for v in s[:, c]]}")
        t_sum, t_present, t_dropped = _snap_tolerances(y[c], rho[c], case["eps"])
        if abs(sum(sc) - 1) > t_sum:
            return _fail("sat-sum", f"cell {c} ({kind}) y={case['y'][c]} rho={case['rho'][c]}: saturations sum to {float(sum(sc))!r} "
                                    f"(allowed deviation {t_sum:.3g})")
        rs = [Fraction(r) * v for r, v in zip(rho[c], sc)]
        tot = sum(rs)
        for j, (a, yj) in enumerate(zip(rs, y[c])):
            tj = t_dropped if yj <= case["eps"] else t_present
            if tot == 0 or abs(a / tot - Fraction(yj)) > tj:
                got = float(a / tot) if tot else float("nan")
                return _fail("sat-fractions", f"cell {c} ({kind}) y={case['y'][c]} rho={case['rho'][c]} s={[float(v) for v in s[:, c]]}: "
                                              f"rho_j s_j/sum = {got!r} but y_{j} = {yj!r} (allowed deviation {tj:.3g})")
        if case["vec"]:  # vectorised result == per-cell result
            s1 = U.compute_saturations(np.array(y[c]), np.array(rho[c]), case["eps"])
            if not np.array_equal(np.asarray(s1), s[:, c]):
                return _fail("sat-vec-vs-1d", f"cell {c} ({kind}): vectorised {[float(v) for v in s[:, c]]} != single-cell {[float(v) for v in s1]}")
    return None


def _F(yv, xv, g, pre, x0n):
    """test function F(y, x) = f(y, x/sum x), f(y, v) = sum p_k y_k + sum g_i v_i + sum (i+1) (v_i - v0_i)^2 (exact rationals);
    its gradient w.r.t. (y, v) at v = v0 is exactly (p, g)."""
    S = sum(xv)
    v = [a / S for a in xv]
    return (sum(p * a for p, a in zip(pre, yv)) + sum(gi * vi for gi, vi in zip(g, v))
            + sum((i + 1) * (vi - v0) ** 2 for i, (vi, v0) in enumerate(zip(v, x0n))))


def _oracle_chain(case):
    mal = case.get("malformed")
    try:
        o = _call_chain(case)
    except ValueError as e:
        return None if mal else _fail("chain-error", f"chainrule_fractional_derivatives raised ValueError({e}) on well-formed input")
    except Exception as e:
        return _fail("chain-error", f"chainrule_fractional_derivatives raised {type(e).__name__}: {e}")
    if mal:
        return _fail("chain-malformed-no-error", f"malformed input ({mal}) did not raise ValueError")
    df, x = _fl(case["df"]), _fl(case["x"])
    o = np.asarray(o, dtype=float)
    o = o if case["vec"] else o.reshape(-1, 1)
    k = case["pre"]
    if o.shape != (_nrow(df, o.shape[0]), len(df)):
        return _fail("chain-shape", f"result shape {o.shape} for input {(_nrow(df), len(df))}")
    h = Fraction(1, 2 ** 40)
    for c in range(len(df)):
        oc = [float(v) for v in o[:, c]]
        if not all(math.isfinite(v) for v in oc):
            return _fail("chain-nonfinite", f"column {c} df={case['df'][c]} x={case['x'][c]}: {oc}")
        if oc[:k] != df[c][:k]:
            return _fail("chain-pre", f"column {c}: leading derivatives changed: {oc[:k]} vs {df[c][:k]}")
        xe = [Fraction(v) for v in x[c]]
        g = [Fraction(v) for v in df[c][k:]]
        p = [Fraction(v) for v in df[c][:k]]
        S = sum(xe)
        x0n = [a / S for a in xe]
        scale = max([1] + [abs(float(v)) for v in g]) / min(1.0, abs(float(S))) ** 2
        # Euler identity: F is homogeneous of degree 0 in x, hence x . grad_x F = 0
        eul = sum(a * Fraction(b) for a, b in zip(xe, oc[k:]))
        if abs(float(eul)) > 1e-9 * scale:
            return _fail("chain-euler", f"column {c} df={case['df'][c]} x={case['x'][c]}: x . result = {float(eul)!r} (must vanish)")
        yv = [Fraction(1, 3)] * k
        for j in range(len(xe)):
            xp = list(xe); xp[j] += h
            xm = list(xe); xm[j] -= h
            fd = (_F(yv, xp, g, p, x0n) - _F(yv, xm, g, p, x0n)) / (2 * h)  # exact central difference, truncation O(h^2)
            if abs(float(fd) - oc[k + j]) > 1e-9 * scale * (1 + len(xe)):
                return _fail("chain-fd", f"column {c} df={case['df'][c]} x={case['x'][c]}: d/dx_{j} of f(x/sum x) is {float(fd)!r} "
                                         f"(central difference) but the chain rule returned {oc[k + j]!r}")
    return None


def _oracle_norm(case):
    try:
        o = np.asarray(_call_norm(case), dtype=float)
    except Exception as e:
        return _fail("norm-error", f"normalize_rows raised {type(e).__name__}: {e}")
    x = _fl(case["x"])
    if o.shape != (len(x), case["ncol"]):
        return _fail("norm-shape", f"shape {o.shape} for input {(len(x), case['ncol'])}")
    for i, row in enumerate(x):
        orow = [Fraction(float(v)) if math.isfinite(v) else None for v in o[i]]
        if any(v is None for v in orow):
            return _fail("norm-nonfinite", f"row {case['x'][i]} -> {[float(v) for v in o[i]]}")
        if abs(sum(orow) - 1) > 1e-12:
            return _fail("norm-rowsum", f"row {case['x'][i]} -> {[float(v) for v in o[i]]} sums to {float(sum(orow))!r}")
        tot = sum(Fraction(v) for v in row)
        for j, v in enumerate(row):
            if abs(orow[j] * tot - Fraction(v)) > 1e-12 * max(1, abs(v)):
                return _fail("norm-proportional", f"row {case['x'][i]} -> {[float(v) for v in o[i]]}: entry {j} is not x/sum")
    return None


def oracle(case):
    k = case["kind"]
    if k == "sat":
        return _oracle_sat(case)
    if k == "chain":
        return _oracle_chain(case)
    if k == "norm":
        return _oracle_norm(case)
    xs = [Fraction(v) for v in case["x"]]
    got = _U().safe_sum(xs)
    if got != sum(xs) or (not xs and got != 0):
        return _fail("safe_sum", f"safe_sum({case['x']}) = {got}")
    return None


# ----------------------------------------------------------------------------- evidence helpers
def nontrivial(case):
    k = case["kind"]
    if k == "sat":
        return len(case["y"]) >= 1 and len(case["y"][0]) >= 2
    if k == "chain":
        return len(case["x"]) >= 1
    if k == "norm":
        return len(case["x"]) >= 1
    return len(case["x"]) >= 1


def shrink_candidates(case):
    k = case["kind"]
    if k == "sat" and len(case["y"]) > 1 and not case.get("malformed"):
        for c in range(len(case["y"])):
            yield dict(case, y=[case["y"][c]], rho=[case["rho"][c]], cell_kinds=[case["cell_kinds"][c]])
    if k == "chain" and len(case["x"]) > 1 and not case.get("malformed"):
        for c in range(len(case["x"])):
            yield dict(case, df=[case["df"][c]], x=[case["x"][c]])
    if k == "norm" and len(case["x"]) > 1:
        for c in range(len(case["x"])):
            yield dict(case, x=[case["x"][c]])


def stats(cases, impl_outs):
    from collections import Counter
    kinds = Counter(c["kind"] for c in cases)
    cells = Counter(k for c in cases if c["kind"] == "sat" for k in c["cell_kinds"])
    front = 0  # cells (>= 3 phases) whose phase 0 or 1 is dropped (y <= eps) while the densities of phases 0 and 1 differ
    for c in cases:
        if c["kind"] == "sat" and not c.get("malformed"):
            for yc, rc in zip(_fl(c["y"]), _fl(c["rho"])):
                if len(yc) >= 3 and max(yc) < 1 - c["eps"] and min(yc[0], yc[1]) <= c["eps"] and rc[0] != rc[1]:
                    front += 1
    phases = Counter(len(c["y"][0]) for c in cases if c["kind"] == "sat" and c["y"])
    exact = 0
    for c in cases:
        if c["kind"] == "sat":
            for yc in _fl(c["y"]):
                if sum(Fraction(v) for v in yc) == 1:
                    exact += 1
    return {"kinds": dict(kinds), "sat_cells_by_kind": dict(cells), "sat_cases_by_phases": {str(k): v for k, v in sorted(phases.items())},
            "sat_cells_exactly_on_simplex_in_binary64": exact, "sat_cells_dropped_phase_at_index_0_or_1_with_distinct_densities": front,
            "sat_cells_total": sum(len(c["y"]) for c in cases if c["kind"] == "sat"),
            "sat_1d_calls": sum(1 for c in cases if c["kind"] == "sat" and not c["vec"]),
            "malformed": dict(Counter(c["malformed"] for c in cases if c.get("malformed"))),
            "chain_columns": sum(len(c["x"]) for c in cases if c["kind"] == "chain"),
            "norm_rows": sum(len(c["x"]) for c in cases if c["kind"] == "norm"),
            "errors_from_impl": sum(1 for o in impl_outs if isinstance(o, dict) and "err" in o)}
