"""C16 TPSA is invariant under rigid translations (porepy.numerics.fv.tpsa.Tpsa.discretize).

Oracle: the property itself on the real matrices: (i) stress @ u_t + bound_stress @ g = 0 on every face,
(ii) (t, 0, 0) satisfies every equation of the full system div (F x + R g) - accum x = 0 assembled as in the
class docstring / tests/numerics/fv/test_tpsa.py, (iii) the sparse solve returns (t, 0, 0).
Correspondence: every face of the grid is sent to the Lean driver (area, normal, sides with mu and the distance
delta computed HERE from the grid geometry, boundary kinds per direction); the driver evaluates the model's flux
functions (the ones the theorems are about) on unit states, which yields the entries of all ten TPSA matrices in
the rows of that face; they are compared with the real matrices (and nothing else may be stored in those rows).
For small grids the model's cell residual at a random state and random boundary data is compared with the real
div (F x + R g) - accum x as well.
"""
import os

for _k in ("OMP_NUM_THREADS", "OPENBLAS_NUM_THREADS", "MKL_NUM_THREADS", "NUMBA_NUM_THREADS"):
    os.environ.setdefault(_k, "1")

import json
import random
import warnings
from fractions import Fraction

import numpy as np

from harness.common import frac

PID = "C16"
THEOREMS = [
    "PorepyVerif.C16.tpsa_translation_zero_stress",
    "PorepyVerif.C16.tpsa_stress_coefficients_balance",
    "PorepyVerif.C16.tpsa_translation_face_disp",
    "PorepyVerif.C16.tpsa_translation_face_fluxes",
    "PorepyVerif.C16.tpsa_translation_solves",
    "PorepyVerif.C16.tpsa_translation_unique",
    "PorepyVerif.C16.nonsingular_one_cell_dirichlet",
    "PorepyVerif.C16.tpsa_translation_unique_one_cell",
    "PorepyVerif.C16.nonsingular_grid21",
    "PorepyVerif.C16.strip_null_mode",
    "PorepyVerif.C16.strip_singular_1",
    "PorepyVerif.C16.strip_singular_3",
    "PorepyVerif.C16.tpsa_robin_stress",
    "PorepyVerif.C16.tpsa_robin_zero_stress_iff",
    "PorepyVerif.C16.tpsa_robin_face_disp",
    "PorepyVerif.C16.robin_not_translation_consistent",
    "PorepyVerif.C16.faceOK_of_wf",
    "PorepyVerif.C16.tpsa_translation_solves_wf",
    "PorepyVerif.C16.oneCell_K_ne_zero",
    "PorepyVerif.C16.tpsa_translation_unique_one_cell_pos",
    "PorepyVerif.C16.validate_ok",
    "PorepyVerif.C16.validate_rejects_mixed",
    "PorepyVerif.C16.ndof_counts_unknowns",
]
LEAN_MODULES = ["PorepyVerif.C16.Props"]
AUDIT = "PorepyVerif/C16/Audit.lean"
DRIVER = "PorepyVerif/C16/Driver.lean"
N = {"quick": 22, "thorough": 300}
KEY = "mechanics"
TOL_STRESS = 1e-10   # relative to the size of the cancelling terms (mu |t| area / delta)
TOL_RESID = 1e-10
TOL_SOLVE = 1e-8     # relative to max(1, |t|_inf); widened to 1e-15 * cond(A) for ill-conditioned systems
TOL_CORR = 1e-9
RESID_MAX_CELLS = {"quick": 8, "thorough": 16}
MATRIX_MAX_UNKNOWNS = {"quick": 14, "thorough": 30}  # assembled system matrix compared entry-wise up to this size
RULE = ("grids: 2-D Cartesian / structured triangles, 3-D Cartesian / structured tetrahedra, 1..3 (quick) resp. 1..5 (thorough, 2-D) / 1..3 (3-D) "
        "cells per direction incl. single cells and single rows, anisotropic dyadic extents, node perturbation 0 / 1/4 / 1/2 of the mesh size "
        "(boundary nodes too, hexahedral faces become non-planar); constant Lame parameters mu in 1/4..64, lambda in 1/8..128; translation "
        "vectors with dyadic components incl. zero components; boundary data: all Dirichlet (= t), whole Neumann faces (zero traction) with >= 1 "
        "Dirichlet face, per-direction mixes ('rolling': Dirichlet in some directions and Neumann in others on the same face) with >= 1 fully "
        "Dirichlet face; ~10% of the cases additionally carry Robin faces (outside the property: only the matrix entries are tied to the model "
        "and the stress is checked on the other faces). Mixed systems whose matrix is singular (condition number > 1e11: one-cell-wide strips with free "
        "lateral faces, ~1-2% of the cases) are outside the nonsingularity hypothesis: checked for zero stress and zero residual only, counted in "
        "input_distribution. non-trivial = t != 0 and the grid has an interior face; distinct = distinct cases. "
        "Corner strata (every 9th case each): single-cell grids, single-row grids, zero translation, and a malformed stream for the sanity checks of "
        "discretize (Robin mixed with Dirichlet/Neumann on one face, positive / negative off-diagonal Robin weights, positive / negative off-diagonal "
        "basis entries, non-unit basis diagonal) whose NotImplementedError / acceptance is compared with the model's `validate`; Tpsa.ndof (supported "
        "and unsupported dimension) and assemble_matrix_rhs are compared on every case. Generation is stratified: grid family x boundary mode cycle deterministically (roller faces on all four families in every run). "
        "Tie: EVERY face of every grid (all ten matrices, rows of the face); cell residual at a random state for grids up to 8 (16) cells; the "
        "assembled system matrix div F - accum and right-hand-side matrix div R entry-wise for systems up to 14 (30) unknowns.")
TRUSTED = [
    "modelled, not verified: the vectorised assembly in Tpsa.discretize (bincount / kron / dia_array / csr_matrix_from_dense_blocks glue, raveling "
    "orders, explicit-zero handling of the complement maps); it is tied to the per-face formula model on every face of every generated grid by the "
    "correspondence check (entries of stress, stress_rotation, stress_total_pressure, rotation_displacement, rotation_rotation, "
    "solid_mass_displacement, solid_mass_total_pressure, bound_stress, bound_rotation_displacement, bound_mass_displacement; nothing else in the rows)",
    "grid geometry (face normals, areas, centres, cell centres, volumes, cell_faces) is input data from porepy's compute_geometry; the distances delta "
    "= |n.(x_f - x_c)|/|n| (square root inside the area) are computed by the harness from that geometry and are input data of the model",
    "the assembly of the full system (divergence, accumulation, right-hand side) follows the Tpsa class docstring / test_tpsa._assemble_matrices and is "
    "re-implemented in the harness; the model's `resid` is tied to it on small grids",
    "uniqueness of the discrete solution is the hypothesis `Nonsingular` of tpsa_translation_unique; on the real code it is observed (dense SVD: "
    "condition number < 1e11, then scipy spsolve returns the translation to 1e-8); all-Dirichlet systems must be nonsingular, mixed systems that "
    "are singular (a strip one cell wide with traction-free lateral faces has a discrete shear/rotation mode) are counted in the evidence and only "
    "checked for (i) and (ii)",
    "closedness of every cell (signed face normals sum to zero) and opposite signs on interior faces are hypotheses of the theorems; the oracle "
    "re-checks them on every generated grid",
    "binary64 rounding, scipy.sparse, SuperLU",
]
EXPLANATION = ("CORE (partial): Lean model over Q of the per-face TPSA expressions exactly as coded (weights mu/delta, harmonic-type transmissibility, "
               "averaging maps and complements, Dirichlet / Neumann / Robin treatment per direction, 2-D and 3-D rotation branches) and of the assembled "
               "system. Theorems for ALL faces / grids / weights / translation vectors: zero face stress, face displacement = t, rotation and mass fluxes "
               "= -n x t, n.t, every balance equation of every closed cell holds for (t,0,0) with Dirichlet datum t and zero Neumann traction (any mix per "
               "direction), and with a nonsingular system any solution is (t,0,0). Nonsingularity is PROVED for every one-cell all-Dirichlet grid (any shape, "
               "2-D/3-D, symbolic data) and, by explicit computation, for a two-cell grid with an interior face; the singular mixed case is characterised "
               "(strip one cell wide, traction-free sides: the translation plus a discrete shear/rotation mode both solve the system, so it is provably "
               "singular); Robin faces: closed form of the stress row and of the face displacement, and a proof that no Robin datum is consistent with a "
               "translation in both (which is why the property excludes Robin). The vectorised assembly is bridged by the correspondence check on every "
               "face; rounding and the sparse solve by the oracle.")
ASSUMPTIONS = ["the system matrix is nonsingular (hypothesis of tpsa_translation_unique; proved for one-cell all-Dirichlet grids and a two-cell grid, "
               "observed elsewhere: condition number < 1e11 and spsolve succeeds; provably false for one-cell-wide strips with traction-free sides)",
               "cells are closed and interior faces carry signs +1/-1 (re-checked by the oracle on every grid)",
               "no Robin faces for the property statements (the property quantifies over Dirichlet / mixed Dirichlet-Neumann data)"]

_CACHE = {}
_RUNSTATS = {"max_solve_err": 0.0, "max_stress_rel": 0.0, "max_resid_rel": 0.0, "solves": 0, "singular_mixed": 0, "max_cond": 0.0}


def _F(x):
    return Fraction(x)


# ----------------------------------------------------------------------------- grids
def build_grid(gs):
    import porepy as pp

    kind, n = gs["kind"], list(gs["n"])
    phys = [float(_F(x)) for x in gs["phys"]]
    d = len(n)
    if kind == "cart":
        g = pp.CartGrid(np.array(n), physdims=phys)
    elif kind == "tri":
        g = pp.StructuredTriangleGrid(np.array(n), physdims=phys)
    elif kind == "tet":
        g = pp.StructuredTetrahedralGrid(np.array(n), physdims=phys)
    else:
        raise ValueError(kind)
    pert = float(_F(gs.get("pert", "0")))
    if pert:
        r = random.Random(gs["pseed"])
        h = [phys[k] / n[k] for k in range(d)]
        for v in range(g.num_nodes):
            for k in range(d):
                g.nodes[k, v] += pert * h[k] * r.randrange(-32, 33) / 64
    g.compute_geometry()
    return g


def _sides(g):
    """face -> [(cell, sign)] read from cell_faces (harness' own traversal)."""
    cf = g.cell_faces.tocsr()
    return [[(int(cf.indices[k]), int(cf.data[k])) for k in range(cf.indptr[f], cf.indptr[f + 1])] for f in range(g.num_faces)]


def _delta(g, f, c):
    n = g.face_normals[:, f]
    return abs(float(np.dot(n, g.face_centers[:, f] - g.cell_centers[:, c]))) / float(g.face_areas[f])


# ----------------------------------------------------------------------------- generator
def _dy(rng, lo, hi, den):
    return Fraction(rng.randint(lo * den, hi * den), den)


_STRATA = [(k, m) for m in ("roll", "dir", "mixed", "roll", "rob") for k in ("cart2", "tri", "cart3", "tet")]
_COUNT = {"n": 0}
_MALFORMED = ["robmix", "robw_pos", "robw_neg", "basis_off_pos", "basis_diag", "basis_off_neg"]


def gen_case(rng, tier):
    """Stratified: the grid family (2-D Cartesian / triangles, 3-D Cartesian / tetrahedra) and the boundary mode cycle
    deterministically, so that every run has component-wise mixed ('roller') faces on all four families."""
    big = tier == "thorough"
    idx = _COUNT["n"]
    kind, mode = _STRATA[idx % len(_STRATA)]
    _COUNT["n"] += 1
    corner = {2: "single_row", 4: "malformed", 7: "single_cell", 8: "zero_t"}.get(idx % 9)
    if kind in ("cart2", "tri"):
        m = 5 if big else 3
        n = [rng.randint(1, m), rng.randint(1, m)]
    else:
        m = 3 if big else 2
        n = [rng.randint(1, m) for _ in range(3)]
        while kind == "tet" and n[0] * n[1] * n[2] > (8 if big else 4):  # 6 tetrahedra per box
            n[rng.randrange(3)] = 1
    if corner == "single_cell" and kind in ("cart2", "cart3"):
        n = [1] * len(n)
    elif corner == "single_row":
        n[rng.randrange(len(n))] = 1
        if len(n) == 3:
            n[rng.randrange(3)] = 1
    phys = [rng.choice([Fraction(1, 2), Fraction(1), Fraction(1), Fraction(3, 2), Fraction(2), Fraction(4)]) for _ in n]
    gs = {"kind": {"cart2": "cart", "cart3": "cart"}.get(kind, kind), "n": n, "phys": [frac(p) for p in phys],
          "pert": rng.choice(["0", "0", "1/4", "1/2", "1/2"]), "pseed": rng.randrange(10**6)}
    g = None
    while g is None:
        try:
            g = build_grid(gs)
            if not (np.isfinite(g.cell_volumes).all() and g.cell_volumes.min() > 0 and g.face_areas.min() > 0):
                g = None
        except ValueError:  # the perturbation folded a cell: halve it
            g = None
        if g is None:
            gs["pert"] = {"1/2": "1/4", "1/4": "1/8"}.get(gs["pert"], "0")
    nd = g.dim
    bf = [int(f) for f in g.get_all_boundary_faces()]
    neu, rob = [], []
    keep = rng.choice(bf)  # one face stays fully Dirichlet
    if mode == "mixed":
        p = rng.choice([0.2, 0.5, 0.8])
        neu = [[f, d] for f in bf if f != keep and rng.random() < p for d in range(nd)]
    elif mode == "roll":
        p = rng.choice([0.2, 0.4, 0.7])
        others = [f for f in bf if f != keep]
        forced = {}
        for f in rng.sample(others, min(len(others), rng.randint(1, 3))):  # genuine rollers: a proper, non-empty subset of directions
            k = rng.randint(1, nd - 1)
            forced[f] = set(rng.sample(range(nd), k))
        neu = [[f, d] for f in others for d in range(nd) if (d in forced[f] if f in forced else rng.random() < p)]
    elif mode == "rob":
        cand = [f for f in bf if f != keep]
        rng.shuffle(cand)
        k = rng.randint(1, max(1, len(cand) // 2)) if cand else 0
        rob = [[f, [frac(rng.choice([Fraction(1, 4), Fraction(1), Fraction(3), Fraction(10)])) for _ in range(nd)]] for f in sorted(cand[:k])]
        rest = set(cand[k:])
        neu = [[f, d] for f in sorted(rest) for d in range(nd) if rng.random() < 0.3]
    t = [_dy(rng, -4, 4, 4) if rng.random() < 0.85 else Fraction(0) for _ in range(nd)]
    if rng.random() < 0.1:
        t = [Fraction(rng.choice([-1, 1]) * 2 ** rng.randint(-6, 10)) for _ in range(nd)]
    if corner == "zero_t":
        t = [Fraction(0)] * nd
    case = {"grid": gs, "mu": frac(rng.choice([Fraction(1, 4), Fraction(1, 2), 1, 1, 2, 3, 8, 64])),
            "lam": frac(rng.choice([Fraction(1, 8), 1, 1, 2, 10, 128])), "t": [frac(x) for x in t],
            "neu": neu, "rob": rob, "sseed": rng.randrange(10**6), "tier": tier}
    if corner == "malformed":  # inputs of the sanity checks at the top of discretize (NotImplementedError branches)
        sub = _MALFORMED[(idx // 9) % len(_MALFORMED)]
        f = rng.choice(bf)
        i, j = rng.sample(range(nd), 2)
        bad = {"kind": sub}
        if sub == "robmix":
            k = rng.randint(1, nd - 1)
            bad["robmix"] = [[f, sorted(rng.sample(range(nd), k))]]
        elif sub in ("robw_pos", "robw_neg"):
            bad["robw"] = [[i, j, f, frac(Fraction(rng.randint(1, 8), 4) * (1 if sub == "robw_pos" else -1))]]
        elif sub in ("basis_off_pos", "basis_off_neg"):
            bad["basis"] = [[i, j, f, frac(Fraction(rng.randint(1, 8), 4) * (1 if sub == "basis_off_pos" else -1))]]
        else:  # basis_diag
            bad["basis"] = [[i, i, f, frac(rng.choice([Fraction(0), Fraction(1, 2), Fraction(2), Fraction(-1)]))]]
        case["bad"] = bad
    return case


# ----------------------------------------------------------------------------- the real code
def _setup(case):
    key = json.dumps(case, sort_keys=True)
    if key in _CACHE:
        return _CACHE[key]
    import porepy as pp
    import scipy.sparse as sps

    g = build_grid(case["grid"])
    nd, nf, nc = g.dim, g.num_faces, g.num_cells
    rd = 3 if nd == 3 else 1
    bf = g.get_all_boundary_faces()
    bfs = set(int(f) for f in bf)
    bc = pp.BoundaryConditionVectorial(g, bf, bf.size * ["dir"])
    kinds = [["int"] * 3 for _ in range(nf)]
    for f in bfs:
        for d in range(nd):
            kinds[f][d] = "dir"
    for f, d in case["neu"]:
        if f not in bfs or not 0 <= d < nd:
            raise ValueError(f"case names ({f},{d}) which is not a boundary face-direction of the grid")
        bc.is_dir[d, f] = False
        bc.is_neu[d, f] = True
        kinds[f][d] = "neu"
    for f, al in case["rob"]:
        if f not in bfs:
            raise ValueError(f"case names Robin face {f} which is not a boundary face")
        bc.is_dir[:, f] = False
        bc.is_neu[:, f] = False
        bc.is_rob[:, f] = True
        for d in range(nd):
            bc.robin_weight[d, d, f] = float(_F(al[d]))
            kinds[f][d] = {"rob": al[d]}
    bad = case.get("bad") or {}
    for f, ds in bad.get("robmix", []):
        for d in ds:
            bc.is_dir[d, f] = False
            bc.is_neu[d, f] = False
            bc.is_rob[d, f] = True
            kinds[f][d] = {"rob": frac(bc.robin_weight[d, d, f])}
    for i, j, f, v in bad.get("robw", []):
        bc.robin_weight[i, j, f] = float(_F(v))
    for i, j, f, v in bad.get("basis", []):
        bc.basis[i, j, f] = float(_F(v))
    chk = []
    for f in range(nf):
        off = [(i, j) for i in range(nd) for j in range(nd) if i != j]
        chk.append({"isRob": [bool(bc.is_rob[d, f]) for d in range(nd)],
                    "basisOff": [frac(bc.basis[i, j, f]) for i, j in off], "basisDiag": [frac(bc.basis[i, i, f]) for i in range(nd)],
                    "robOff": [frac(bc.robin_weight[i, j, f]) for i, j in off]})
    mu, lam = float(_F(case["mu"])), float(_F(case["lam"]))
    C = pp.FourthOrderTensor(mu * np.ones(nc), lam * np.ones(nc))
    data = {pp.PARAMETERS: {KEY: {"fourth_order_tensor": C, "bc": bc}}, pp.DISCRETIZATION_MATRICES: {KEY: {}}}
    discr = pp.Tpsa(KEY)
    api = {"validate": "ok", "ndof": None, "ndof_bad": None, "assemble": None}
    try:
        api["ndof"] = int(discr.ndof(g))
    except Exception as e:
        api["ndof"] = {"err": type(e).__name__}
    try:
        class _G1:  # a grid of unsupported dimension
            dim, num_cells = 1, nc
        api["ndof_bad"] = int(discr.ndof(_G1()))
    except Exception as e:
        api["ndof_bad"] = {"err": type(e).__name__}
    try:
        discr.assemble_matrix_rhs(g, data)
        api["assemble"] = "returned"
    except Exception as e:
        api["assemble"] = {"err": type(e).__name__}
    base = {"g": g, "nd": nd, "nf": nf, "nc": nc, "rd": rd, "kinds": kinds, "mu": mu, "lam": lam, "sides": _sides(g), "bf": bfs,
            "chk": chk, "api": api, "err": None}
    try:
        with warnings.catch_warnings():
            warnings.simplefilter("ignore")
            discr.discretize(g, data)
    except NotImplementedError as e:
        api["validate"] = {"err": type(e).__name__}
        base["err"] = str(e)
        if len(_CACHE) > 6:
            _CACHE.clear()
        _CACHE[key] = base
        return base
    M = data[pp.DISCRETIZATION_MATRICES][KEY]
    # full system, as in the Tpsa class docstring / test_tpsa._assemble_matrices
    Fm = sps.block_array([
        [M["stress"], M["stress_rotation"], M["stress_total_pressure"]],
        [M["rotation_displacement"], M["rotation_rotation"], sps.csr_array((nf * rd, nc))],
        [M["solid_mass_displacement"], sps.csr_array((nf, nc * rd)), M["solid_mass_total_pressure"]]], format="csr")
    Rm = sps.block_array([[M["bound_stress"]], [M["bound_rotation_displacement"]], [M["bound_mass_displacement"]]], format="csr")
    div = sps.block_diag([g.divergence(dim=nd), g.divergence(dim=rd), g.divergence(dim=1)], format="csr")
    accum = sps.block_diag([
        sps.csr_array((nc * nd, nc * nd)),
        sps.dia_matrix((np.repeat(g.cell_volumes / C.mu, rd), 0), shape=(nc * rd, nc * rd)),
        sps.dia_matrix((g.cell_volumes / C.lmbda, 0), shape=(nc, nc))], format="csr")
    t = np.array([float(_F(x)) for x in case["t"]])
    gv = np.zeros((nd, nf))
    for f in bfs:
        for d in range(nd):
            if kinds[f][d] == "dir":
                gv[d, f] = t[d]
    s = dict(base, M=M, F=Fm, R=Rm, div=div, accum=accum, t=t, gv=gv.ravel("F"))
    if len(_CACHE) > 6:
        _CACHE.clear()
    _CACHE[key] = s
    return s


def _rand_state(case, s):
    """random dyadic state and boundary data for the residual tie (not translation-consistent on purpose)."""
    r = random.Random(case["sseed"])
    nd, nc, nf, rd = s["nd"], s["nc"], s["nf"], s["rd"]
    q = lambda: Fraction(r.randint(-16, 16), 8)
    u = [[q() for _ in range(nd)] for _ in range(nc)]
    rr = [[q() for _ in range(rd)] for _ in range(nc)]
    p = [q() for _ in range(nc)]
    gb = [[q() if f in s["bf"] else Fraction(0) for _ in range(nd)] for f in range(nf)]
    return u, rr, p, gb


def _with_resid(case, s):
    return s["err"] is None and s["nc"] <= RESID_MAX_CELLS.get(case.get("tier", "quick"), 8)


def _with_matrix(case, s):
    return s["err"] is None and s["nc"] * (s["nd"] + s["rd"] + 1) <= MATRIX_MAX_UNKNOWNS.get(case.get("tier", "quick"), 14)


def impl_run(case):
    s = _setup(case)
    if s["err"] is not None:
        return {"api": s["api"], "rows": None, "offpattern": 0.0, "res": None, "A": None, "B": None}
    nd, nf, nc, rd, M = s["nd"], s["nf"], s["nc"], s["rd"], s["M"]
    Fd, Rd = s["F"].toarray(), s["R"].toarray()
    Fr, Rr = Fd.copy(), Rd.copy()  # remainders: everything not read below must be zero
    rows_out = []
    for f in range(nf):
        rws = [f * nd + d for d in range(nd)] + [nf * nd + f * rd + k for k in range(rd)] + [nf * nd + nf * rd + f]
        cols = []
        for c, _ in s["sides"][f]:
            cols += [c * nd + e for e in range(nd)] + [nc * nd + c * rd + k for k in range(rd)] + [nc * nd + nc * rd + c]
        gcols = [f * nd + e for e in range(nd)]
        tab = []
        for rw in rws:
            tab.append([float(Fd[rw, cl]) for cl in cols] + [float(Rd[rw, cl]) for cl in gcols])
            Fr[rw, cols] = 0
            Rr[rw, gcols] = 0
        rows_out.append(tab)
    off = max(float(np.abs(Fr).max(initial=0.0)), float(np.abs(Rr).max(initial=0.0)))
    out = {"api": s["api"], "rows": rows_out, "offpattern": off, "res": None, "A": None, "B": None}
    if _with_matrix(case, s):
        out["A"] = [[float(v) for v in row] for row in (s["div"] @ s["F"] - s["accum"]).toarray()]
        out["B"] = [[float(v) for v in row] for row in (s["div"] @ s["R"]).toarray()]
    if _with_resid(case, s):
        u, rr, p, gb = _rand_state(case, s)
        x = np.array([float(v) for c in u for v in c] + [float(v) for c in rr for v in c] + [float(v) for v in p])
        gvec = np.array([float(v) for f in gb for v in f])
        res = s["div"] @ (s["F"] @ x + s["R"] @ gvec) - s["accum"] @ x
        out["res"] = [[float(res[c * nd + d]) for d in range(nd)] + [float(res[nc * nd + c * rd + k]) for k in range(rd)]
                      + [float(res[nc * nd + nc * rd + c])] for c in range(nc)]
    return out


# ----------------------------------------------------------------------------- the model
def _face_op(s, f, extra=None):
    g = s["g"]
    op = {"area": frac(g.face_areas[f]), "n": [frac(v) for v in g.face_normals[:, f]],
          "sides": [{"cell": c, "sgn": frac(sg), "mu": frac(s["mu"]), "delta": frac(_delta(g, f, c))} for c, sg in s["sides"][f]],
          "bc": s["kinds"][f]}
    if extra:
        op.update(extra)
    return op


N_API = 4


def model_ops(case):
    s = _setup(case)
    ops = [{"op": "validate", "faces": s["chk"]}, {"op": "ndof", "dim": s["nd"], "nc": s["nc"]}, {"op": "ndof", "dim": 1, "nc": s["nc"]},
           {"op": "assemble_matrix_rhs"}]
    ops += [dict(_face_op(s, f), op="face", dim=s["nd"]) for f in range(s["nf"])]
    if _with_resid(case, s):
        u, rr, p, gb = _rand_state(case, s)
        g = s["g"]
        pad = lambda v: [frac(x) for x in v] + ["0"] * (3 - len(v))
        rpad = (lambda v: [frac(x) for x in v]) if s["nd"] == 3 else (lambda v: ["0", "0", frac(v[0])])
        ops.append({"op": "resid", "dim": s["nd"],
                    "faces": [_face_op(s, f, {"g": pad(gb[f])}) for f in range(s["nf"])],
                    "cells": [{"vol": frac(g.cell_volumes[c]), "mu": frac(s["mu"]), "lam": frac(s["lam"])} for c in range(s["nc"])],
                    "u": [pad(v) for v in u], "r": [rpad(v) for v in rr], "p": [frac(v) for v in p]})
    if _with_matrix(case, s):
        g = s["g"]
        ops.append({"op": "matrix", "dim": s["nd"], "faces": [_face_op(s, f) for f in range(s["nf"])],
                    "cells": [{"vol": frac(g.cell_volumes[c]), "mu": frac(s["mu"]), "lam": frac(s["lam"])} for c in range(s["nc"])]})
    return ops


def model_decode(outs, case):
    s = _setup(case)
    nf = s["nf"]
    api = {"validate": outs[0], "ndof": outs[1], "ndof_bad": outs[2], "assemble": outs[3]}
    outs = outs[N_API:]
    if isinstance(api["validate"], dict):  # the model rejects the parameters: nothing else is defined
        return {"api": api, "rows": None, "offpattern": 0.0, "res": None, "A": None, "B": None}
    bad = [o for o in outs if isinstance(o, dict) and "err" in o]
    if bad:
        return {"driver_error": bad[0]}
    rest = outs[nf:]
    res = next((o["res"] for o in rest if "res" in o), None)
    mat = next((o for o in rest if "A" in o), None)
    return {"api": api, "rows": [o["rows"] for o in outs[:nf]], "offpattern": 0.0, "res": res,
            "A": mat["A"] if mat else None, "B": mat["B"] if mat else None}


def _fl(v):
    return float(Fraction(v)) if isinstance(v, str) else float(v)


def compare(impl, model, case):
    if "harness_exc" in impl:
        return f"impl_run crashed: {impl['harness_exc']}"
    if "driver_error" in model:
        return f"driver error: {model['driver_error']}"
    from harness.common import deep_compare
    d = deep_compare(impl.get("api"), model.get("api"), "api")
    if d:
        return f"parameter validation / ndof / assemble_matrix_rhs: {d}"
    if impl["rows"] is None or model["rows"] is None:
        return None if impl["rows"] is None and model["rows"] is None else "discretize raised on one side only"
    if len(impl["rows"]) != len(model["rows"]):
        return f"number of faces {len(impl['rows'])} vs {len(model['rows'])}"
    names = None
    scale_all = 0.0
    for f, (a, b) in enumerate(zip(impl["rows"], model["rows"])):
        A = np.array(a, dtype=float)
        B = np.array([[_fl(v) for v in row] for row in b], dtype=float)
        if A.shape != B.shape:
            return f"face {f}: table shape {A.shape} vs {B.shape}"
        sc = max(float(np.abs(B).max(initial=0.0)), float(np.abs(A).max(initial=0.0)))
        scale_all = max(scale_all, sc)
        tol = TOL_CORR * np.maximum(np.abs(A), np.abs(B)) + 1e-13 * sc
        badm = np.abs(A - B) > tol
        if badm.any() or not np.isfinite(A).all():
            i, j = (np.argwhere(badm | ~np.isfinite(A))[0]).tolist()
            return f"face {f} row {i} col {j}: impl {A[i, j]!r} vs model {B[i, j]!r} (layout: rows stress/rotation/mass, cols per side u,r,p then g)"
    if impl["offpattern"] > 1e-13 * max(scale_all, 1e-300):
        return f"the real matrices store {impl['offpattern']!r} outside the two-point pattern of the face rows"
    if (impl["res"] is None) != (model["res"] is None):
        return "residual computed on one side only"
    if impl["res"] is not None:
        A = np.array(impl["res"], dtype=float)
        B = np.array([[_fl(v) for v in row] for row in model["res"]], dtype=float)
        if A.shape != B.shape:
            return f"residual shape {A.shape} vs {B.shape}"
        sc = max(scale_all, 1.0) * 4.0  # |state| <= 2
        badm = np.abs(A - B) > TOL_CORR * np.maximum(np.abs(A), np.abs(B)) + 1e-11 * sc
        if badm.any():
            i, j = np.argwhere(badm)[0].tolist()
            return f"cell residual cell {i} equation {j}: impl {A[i, j]!r} vs model {B[i, j]!r}"
    for nm in ("A", "B"):
        if (impl.get(nm) is None) != (model.get(nm) is None):
            return f"assembled matrix {nm} computed on one side only"
        if impl.get(nm) is not None:
            X = np.array(impl[nm], dtype=float)
            Y = np.array([[_fl(v) for v in row] for row in model[nm]], dtype=float)
            if X.shape != Y.shape:
                return f"assembled matrix {nm}: shape {X.shape} vs {Y.shape}"
            sc = max(float(np.abs(Y).max(initial=0.0)), 1e-300)
            badm = np.abs(X - Y) > TOL_CORR * np.maximum(np.abs(X), np.abs(Y)) + 1e-12 * sc
            if badm.any():
                i, j = np.argwhere(badm)[0].tolist()
                return (f"assembled system {'matrix div F - accum' if nm == 'A' else 'right-hand-side matrix div R'} entry ({i},{j}): "
                        f"impl {X[i, j]!r} vs model {Y[i, j]!r}")
    return None


# ----------------------------------------------------------------------------- oracle
def oracle(case):
    """The property on the real code (independent of the Lean model)."""
    import scipy.sparse as sps
    import scipy.sparse.linalg as spla

    s = _setup(case)
    bad = case.get("bad") or {}
    unsupported = bool(bad.get("robmix")) or any(_F(v) > 0 for *_, v in bad.get("robw", [])) or any(
        (_F(v) > 0 if i != j else _F(v) != 1) for i, j, _, v in bad.get("basis", []))
    if s["api"]["ndof"] != s["nc"] * (s["nd"] + s["rd"] + 1):
        return {"what": f"Tpsa.ndof returns {s['api']['ndof']} for a {s['nd']}-d grid with {s['nc']} cells; the system has "
                        f"{s['nc'] * (s['nd'] + s['rd'] + 1)} unknowns", "key": "ndof-wrong"}
    if s["err"] is not None:
        if unsupported:
            return None
        return {"what": f"discretize raised NotImplementedError ({s['err']}) for supported boundary data; bad={bad}", "key": "discretize-raised"}
    if unsupported:
        return {"what": f"discretize accepted boundary data it documents as not implemented: {bad}", "key": "unsupported-bc-accepted"}
    if bad.get("robmix"):
        return None
    g, nd, nf, nc, rd, M = s["g"], s["nd"], s["nf"], s["nc"], s["rd"], s["M"]
    t, gv, kinds = s["t"], s["gv"], s["kinds"]
    tinf = float(np.abs(t).max(initial=0.0))
    # hypotheses about the grid: closed cells, interior faces with opposite signs
    cl = g.face_normals @ g.cell_faces
    if np.abs(cl).max(initial=0.0) > 1e-11 * max(1.0, float(g.face_areas.max())):
        return {"what": f"grid {case['grid']}: a cell is not closed (sum of signed normals {np.abs(cl).max():.3e})", "key": "grid-cell-not-closed"}
    for f in range(nf):
        sg = [x for _, x in s["sides"][f]]
        if (f in s["bf"]) != (len(sg) == 1) or (len(sg) == 2 and sum(sg) != 0) or len(sg) not in (1, 2):
            return {"what": f"grid {case['grid']}: face {f} has sides {s['sides'][f]}", "key": "grid-face-sides"}
    # (i) zero stress on every face
    u = np.tile(t, nc)
    sig = M["stress"] @ u + M["bound_stress"] @ gv
    scale = abs(M["stress"]) @ np.abs(u) + abs(M["bound_stress"]) @ np.abs(gv)
    floor = np.repeat(s["mu"] * tinf * g.face_areas, nd)
    rel = np.abs(sig) / (scale + floor + 1e-300)
    isrob = np.array([isinstance(kinds[f][d], dict) for f in range(nf) for d in range(nd)])
    rel[isrob] = 0.0
    if not np.isfinite(sig[~isrob]).all():
        k = int(np.argwhere(~np.isfinite(sig) & ~isrob)[0][0])
        return {"what": f"stress of the translated state is not finite on face {k // nd} direction {k % nd}", "key": "stress-not-finite"}
    _RUNSTATS["max_stress_rel"] = max(_RUNSTATS["max_stress_rel"], float(rel.max(initial=0.0)))
    if rel.max(initial=0.0) > TOL_STRESS:
        k = int(np.argmax(rel))
        f, d = k // nd, k % nd
        kd = kinds[f][d]
        return {"what": f"translation t={case['t']} with matching data: stress {sig[k]!r} on face {f} (kind {kd}) direction {d}, "
                        f"cancelling terms of size {scale[k]:.3e}; grid {case['grid']}", "key": f"stress-nonzero:{kd}"}
    if case["rob"]:
        return None  # Robin data are outside the property
    # (ii) (t, 0, 0) satisfies every discrete equation
    xe = np.concatenate([u, np.zeros(nc * rd + nc)])
    res = s["div"] @ (s["F"] @ xe + s["R"] @ gv) - s["accum"] @ xe
    rscale = abs(s["div"]) @ (abs(s["F"]) @ np.abs(xe) + abs(s["R"]) @ np.abs(gv)) + abs(s["accum"]) @ np.abs(xe)
    rrel = np.abs(res) / (rscale + 1e-300)
    rrel[rscale == 0] = np.abs(res[rscale == 0])
    if not np.isfinite(res).all():
        return {"what": "residual of the translated state is not finite", "key": "residual-not-finite"}
    _RUNSTATS["max_resid_rel"] = max(_RUNSTATS["max_resid_rel"], float(rrel.max(initial=0.0)))
    if rrel.max(initial=0.0) > TOL_RESID:
        k = int(np.argmax(rrel))
        eq = "momentum" if k < nc * nd else ("rotation" if k < nc * nd + nc * rd else "mass")
        return {"what": f"(t,0,0) with t={case['t']} does not satisfy the {eq} balance: row {k} residual {res[k]!r} (terms of size {rscale[k]:.3e}); "
                        f"grid {case['grid']}, neu={case['neu']}", "key": f"residual-nonzero:{eq}"}
    # (iii) the solve returns the translation -- provided the system is nonsingular (explicit hypothesis of the
    # property / of tpsa_translation_unique).  With all-Dirichlet data TPSA must be uniquely solvable, a singular
    # matrix is then a failure.  With Neumann faces the discrete system can be genuinely singular (e.g. a strip that
    # is one cell wide with traction-free lateral faces has a discrete shear/rotation mode; test_tpsa.py notes the
    # same: "at least two cells are needed ... to ensure solvability"); such cases are counted, (ii) still applies.
    A = (s["div"] @ s["F"] - s["accum"]).tocsc()
    b = -(s["div"] @ (s["R"] @ gv))
    sv = np.linalg.svd(A.toarray(), compute_uv=False)
    cond = float(sv[0] / sv[-1]) if sv[-1] > 0 else float("inf")
    if not np.isfinite(cond) or cond > 1e11:
        if not case["neu"]:
            return {"what": f"the TPSA system with all-Dirichlet data is singular (condition number {cond:.3e}); grid {case['grid']}",
                    "key": "singular-system:dirichlet"}
        _RUNSTATS["singular_mixed"] += 1
        return None
    _RUNSTATS["max_cond"] = max(_RUNSTATS["max_cond"], cond)
    with warnings.catch_warnings():
        warnings.simplefilter("ignore")
        try:
            x = spla.spsolve(A, b)
        except Exception as e:
            return {"what": f"the TPSA system could not be solved ({type(e).__name__}: {e}); grid {case['grid']}, neu={case['neu']}", "key": "solve-failed"}
    if not np.isfinite(x).all():
        return {"what": f"spsolve returned a non-finite solution although the condition number is {cond:.3e}; grid {case['grid']}, neu={case['neu']}",
                "key": "solve-failed"}
    tol = max(TOL_SOLVE, 1e-15 * cond)
    err = np.abs(x - xe)
    _RUNSTATS["solves"] += 1
    _RUNSTATS["max_solve_err"] = max(_RUNSTATS["max_solve_err"], float(err.max(initial=0.0)) / max(1.0, tinf))
    if err.max(initial=0.0) > tol * max(1.0, tinf):
        k = int(np.argmax(err))
        blk = "displacement" if k < nc * nd else ("rotation" if k < nc * nd + nc * rd else "pressure")
        return {"what": f"solving with translation data t={case['t']} returns {x[k]!r} instead of {xe[k]!r} in unknown {k} ({blk}); "
                        f"grid {case['grid']}, neu={case['neu']}", "key": f"solve-differs:{blk}"}
    return None


# ----------------------------------------------------------------------------- bookkeeping
def nontrivial(case):
    if all(_F(x) == 0 for x in case["t"]):
        return False
    n = case["grid"]["n"]
    return int(np.prod(n)) >= 2 or case["grid"]["kind"] != "cart"


def shrink_candidates(case):
    gs = case["grid"]
    for k in range(len(gs["n"])):
        if gs["n"][k] > 1:
            n = list(gs["n"])
            n[k] -= 1
            yield {k: v for k, v in dict(case, grid=dict(gs, n=n), neu=[], rob=[]).items() if k != "bad"}
    if gs.get("pert", "0") != "0":
        yield dict(case, grid=dict(gs, pert="0"))
    if any(p != "1" for p in gs["phys"]):
        yield dict(case, grid=dict(gs, phys=["1"] * len(gs["phys"])))
    if case.get("bad"):
        yield {k: v for k, v in case.items() if k != "bad"}
    if case["rob"]:
        yield dict(case, rob=[])
    if case["neu"]:
        yield dict(case, neu=[])
        for i in range(len(case["neu"])):
            yield dict(case, neu=case["neu"][:i] + case["neu"][i + 1:])
    for i, x in enumerate(case["t"]):
        if _F(x) not in (0, 1):
            for v in ("0", "1"):
                tt = list(case["t"])
                tt[i] = v
                yield dict(case, t=tt)
    if case["mu"] != "1":
        yield dict(case, mu="1")
    if case["lam"] != "1":
        yield dict(case, lam="1")


def stats(cases, impl_outs):
    from collections import Counter

    kinds, perts, modes, dims, roll_fam = Counter(), Counter(), Counter(), Counter(), Counter()
    nfaces = ncells = n_int = n_dir = n_neu = n_rob = n_roll = n_res = 0
    corner = Counter()
    for c, o in zip(cases, impl_outs):
        gs = c["grid"]
        corner["single_cell_grids"] += int(np.prod(gs["n"])) == 1 and gs["kind"] == "cart"
        corner["single_row_or_column_grids"] += min(gs["n"]) == 1
        corner["zero_translation"] += all(_F(x) == 0 for x in c["t"])
        if c.get("bad"):
            corner["malformed:" + c["bad"]["kind"]] += 1
            corner["malformed_raising_NotImplementedError"] += isinstance(o, dict) and isinstance((o.get("api") or {}).get("validate"), dict)
        kinds[f"{gs['kind']}{len(gs['n'])}d"] += 1
        perts[gs.get("pert", "0")] += 1
        dims["x".join(map(str, gs["n"]))] += 1
        s = _setup(c)
        nfaces += s["nf"]
        ncells += s["nc"]
        for f in range(s["nf"]):
            ks = s["kinds"][f][: s["nd"]]
            n_int += ks[0] == "int"
            n_rob += isinstance(ks[0], dict)
            n_dir += all(k == "dir" for k in ks)
            n_neu += all(k == "neu" for k in ks)
            n_roll += ("dir" in ks) and ("neu" in ks)
        roll_fam[f"{gs['kind']}{len(gs['n'])}d"] += sum(1 for f in range(s["nf"]) if "dir" in s["kinds"][f][: s["nd"]] and "neu" in s["kinds"][f][: s["nd"]])
        modes["rob" if c["rob"] else ("dir" if not c["neu"] else "dir+neu")] += 1
        n_res += isinstance(o, dict) and o.get("res") is not None
    return {"grids": dict(kinds), "cells_per_direction": dict(dims), "perturbation": dict(perts), "boundary_modes": dict(modes),
            "faces_tied_to_model": nfaces, "cells": ncells, "faces_interior": n_int, "faces_dirichlet": n_dir, "faces_neumann": n_neu,
            "faces_rolling": n_roll, "faces_robin": n_rob, "cases_with_residual_tie": n_res,
            "cases_with_assembled_matrix_tie": sum(1 for o in impl_outs if isinstance(o, dict) and o.get("A") is not None),
            "rolling_faces_by_family": dict(roll_fam), "corner_strata": dict(corner),
            "zero_translation_components": sum(1 for c in cases for x in c["t"] if _F(x) == 0),
            "oracle_solves": _RUNSTATS["solves"], "singular_mixed_systems_skipped": _RUNSTATS["singular_mixed"],
            "max_condition_number_solved": _RUNSTATS["max_cond"], "max_solve_error_rel": _RUNSTATS["max_solve_err"],
            "max_stress_rel": _RUNSTATS["max_stress_rel"], "max_residual_rel": _RUNSTATS["max_resid_rel"]}
