"""C12 TPFA is symmetric, conservative, and exact on K-orthogonal grids.

Correspondence: the real `pp.Tpfa.discretize` against the Lean model (`PorepyVerif/C12/Model.lean`) on the six
stored matrices; the harness hands the model the grid's topology (non-zeros of cell_faces), the geometry porepy
computed (normals, face / cell centres, as exact rationals of the binary64 values), the tensor and the boundary flags.
Oracle: the property itself on the real matrices (symmetry of div*flux, single-valued face flux, zero flux for
constant pressure, M-matrix signs and MPFA agreement on Cartesian/tensor grids with diagonal K, exactness for
affine pressures on K-orthogonal grids with constant K)."""
import json
import math
import warnings
from fractions import Fraction

import numpy as np

from harness.common import frac, err_kind, deep_compare

PID = "C12"
THEOREMS = [
    "PorepyVerif.C12.tpfa_symmetric",
    "PorepyVerif.C12.tpfa_single_valued",
    "PorepyVerif.C12.tpfa_single_valued_interior",
    "PorepyVerif.C12.tpfa_conservative",
    "PorepyVerif.C12.tpfa_const_zero_flux",
    "PorepyVerif.C12.tpfa_Mmatrix",
    "PorepyVerif.C12.tpfa_thalf_pos_diagK",
    "PorepyVerif.C12.tpfa_exact_Korth",
    "PorepyVerif.C12.tpfa_exact_Korth_dirichlet",
    "PorepyVerif.C12.tpfa_exact_neumann",
    "PorepyVerif.C12.tpfa_bound_pressure_exact_Korth",
    "PorepyVerif.C12.tpfa_bound_pressure_dirichlet",
    "PorepyVerif.C12.tpfa_hydrostatic_zero_flux",
    "PorepyVerif.C12.tpfa_hydrostatic_bound_pressure",
    "PorepyVerif.C12.tpfa_linear_exact",
    "PorepyVerif.C12.tpfa_const_zero_flux_wf",
    "PorepyVerif.C12.cartLike_pos",
    "PorepyVerif.C12.tpfa_Mmatrix_cartesian",
    "PorepyVerif.C12.tpfa_eq_mpfa_Korth",
    "PorepyVerif.C12.tpfa_eq_mpfa_Korth_entries",
]
LEAN_MODULES = ["PorepyVerif.C12.Props"]
LEAN_DIRS = ["C11"]  # Props imports the certified 2-D MPFA model of C11 (tpfa_eq_mpfa_Korth): its sources are grep'd too
AUDIT = "PorepyVerif/C12/Audit.lean"
DRIVER = "PorepyVerif/C12/Driver.lean"
N = {"quick": 200, "thorough": 2500}
TOL = 1e-10
KEYS = ["flux", "bound_flux", "bound_pressure_cell", "bound_pressure_face", "vector_source", "bound_pressure_vector_source"]
RULE = ("grids: CartGrid / TensorGrid (non-uniform rational coordinates) / StructuredTriangleGrid / StructuredTetrahedralGrid in 1-3 D, "
        "2-D Cartesian grids split by a fracture (internal boundary faces), 0-d point grids; optionally mapped by a rational affine map "
        "(sheared, K-orthogonal family with K = J K0 J^T), rotated out of the coordinate planes by a rational rotation, or with rationally "
        "perturbed nodes; tensors isotropic / diagonal / full SPD, constant or cell-wise, small rationals times 2^k with k in [-53, 27] (1e-16 .. 1e+8, 30% k = 0), node coordinates times 2^m, m in {-30,-20,-17,-14,-10,-5,5,10,20} (60% m = 0), strongly graded tensor grids (dyadic spacings, ratios up to 2^20) and single thin layers (2^-14 .. 2^-20); every boundary face gets "
        "dir / neu (a small share rob; occasionally dir on a fracture face); ambient_dimension 1-3 or default. "
        "non-trivial = at least 2 cells, at least one Dirichlet and one Neumann face; distinct = distinct case descriptions")
TRUSTED = [
    "the decidable hypotheses WellFormed and bndOK of the grid-level theorems are evaluated by the model on every real grid and compared with an independent evaluation on the porepy objects; cartLike / korthGrid are exact-arithmetic predicates (vanishing cross products) that binary64 geometry only satisfies when the rounded centres line up exactly: counted in the evidence, not compared",
    "modelled, not verified: the numpy/scipy glue of Tpfa.discretize (broadcasting, bincount, coo->csr conversion, dia->csr dropping zeros); compared on every case",
    "grid geometry (face normals, centres) and topology are INPUTS of the model, taken from the real grid object (C19/C21 cover them)",
    "not modelled: the deprecated periodic_face_map branch, the hidden Aavatsmark_transmissibilities option (norms), IEEE behaviour when a half transmissibility or a harmonic sum vanishes (such cases are flagged by the model, skipped and counted)",
    "MPFA agreement: proved (tpfa_eq_mpfa_Korth) against the executable 2-D MPFA model of C11 (PorepyVerif/C11/Model.lean, tied to pp.Mpfa by C11's own correspondence check) for K-orthogonal 2-D grids with eta = 0; 1-D (Mpfa falls back to Tpfa) and 3-D are checked by the oracle on the real code only",
    "ofGrid2 (conversion of a C11 grid into the TPFA model's input: z = 0, kzz = 1, non-Dirichlet boundary faces are Neumann) is a definition of the comparison, not compared with code",
]
EXPLANATION = ("FULL for the formula: the model is Tpfa.discretize over Q (half transmissibility (d.Kn)/(d.d), harmonic combination, "
               "Dirichlet/Neumann/internal treatment, all six stored matrices as triplets). Theorems hold for every topology, geometry, tensor and "
               "boundary assignment: symmetry of div*flux, single-valued face flux, conservation, zero flux for constants, M-matrix structure for "
               "well-formed grids with positive half transmissibilities, exactness of interior / Dirichlet / Neumann fluxes and of the boundary "
               "pressure reconstruction for affine pressures under K-orthogonality, hydrostatic consistency of vector_source / bound_pressure_vector_source, and equality of the flux / bound_flux matrices with those of the certified 2-D MPFA model of C11 on K-orthogonal grids (two-point gradients solve every interaction region; uniqueness by the nonsingularity certificates). Partial: binary64 rounding and the numpy glue are bridged by "
               "the correspondence check (relative tolerance 1e-10, sparsity patterns exact); agreement with the real pp.Mpfa in 1-D / 3-D is checked by the oracle only.")
ASSUMPTIONS = ["class T comparison of matrix values, relative: |impl - model| <= 1e-9 * max(|model|, 1e-9 * largest entry of that matrix), per-entry relative 1e-9 with floor 1e-9 of the largest entry; oracle tolerances are relative to max |K| |n| / |d|; sparsity patterns, shapes, formats and dictionary keys are compared exactly",
               "boundary faces have exactly one neighbouring cell (grid invariant, C21)"]

_skipped_degenerate = [0]
_flag_counts = {"cartLike": 0, "korthGrid": 0, "mpfa_unavailable": 0, "rejected_unbuildable": 0}


# ----------------------------------------------------------------------------- generation
def _fr(rng, lo, hi, dens=(1, 2, 3, 4, 5, 8)):
    d = rng.choice(dens)
    return Fraction(rng.randint(lo * d, hi * d), d)


def _spd(rng, mode):
    """six entries kxx,kyy,kzz,kxy,kxz,kyz of a symmetric positive definite tensor"""
    if mode == "iso":
        a = _fr(rng, 1, 4) + Fraction(1, 4)
        return [a, a, a, 0, 0, 0]
    if mode == "diag":
        return [_fr(rng, 0, 4) + Fraction(1, 8), _fr(rng, 0, 4) + Fraction(1, 8), _fr(rng, 0, 4) + Fraction(1, 8), 0, 0, 0]
    # full: L L^T with L lower triangular, positive diagonal
    l = [[_fr(rng, 0, 2, (1, 2, 4)) + Fraction(1, 2), 0, 0],
         [_fr(rng, -1, 1, (1, 2, 4)), _fr(rng, 0, 2, (1, 2, 4)) + Fraction(1, 2), 0],
         [_fr(rng, -1, 1, (1, 2, 4)), _fr(rng, -1, 1, (1, 2, 4)), _fr(rng, 0, 2, (1, 2, 4)) + Fraction(1, 2)]]
    k = [[sum(l[i][m] * l[j][m] for m in range(3)) for j in range(3)] for i in range(3)]
    return [k[0][0], k[1][1], k[2][2], k[0][1], k[0][2], k[1][2]]


def _matmul(a, b):
    return [[sum(a[i][m] * b[m][j] for m in range(3)) for j in range(3)] for i in range(3)]


def _transpose(a):
    return [[a[j][i] for j in range(3)] for i in range(3)]


def _cayley(rng):
    """rational rotation matrix (I - S)^-1 (I + S), S skew with small rational entries"""
    a, b, c = (_fr(rng, -1, 1, (1, 2, 3)) for _ in range(3))
    # closed form of the Cayley transform (Rodrigues with rational parameters)
    n = 1 + a * a + b * b + c * c
    return [[(1 + a * a - b * b - c * c) / n, 2 * (a * b - c) / n, 2 * (a * c + b) / n],
            [2 * (a * b + c) / n, (1 - a * a + b * b - c * c) / n, 2 * (b * c - a) / n],
            [2 * (a * c - b) / n, 2 * (b * c + a) / n, (1 - a * a - b * b + c * c) / n]]


def _shear(rng, dim):
    """rational in-dimension affine map with positive determinant (identity outside the grid's dimension)"""
    j = [[Fraction(int(i == k)) for k in range(3)] for i in range(3)]
    for i in range(dim):
        j[i][i] = _fr(rng, 0, 2, (1, 2, 4)) + Fraction(1, 2)
        for k in range(i + 1, dim):
            j[i][k] = _fr(rng, -1, 1, (1, 2, 4))
    return j


STRATA = ["single-cell", "strip", "tiny-aniso-K", "huge-K", "sheared-korth-constK", "dir-on-fracture", "one-dir", "all-neu-constK",
          "small-geometry", "small-geometry", "graded-tensor", "thin-layer"]
GSCALES = [-30, -20, -17, -14, -10, 20]  # node coordinates x 2^k: cells down to ~1e-9 and up to ~1e+6 length units


def gen_case(rng, tier):
    """30% of the cases come from an explicit stratum (corner cases), the rest from the free generator."""
    if rng.random() < 0.3:
        st = rng.choice(STRATA)
        force = {"single-cell": {"kind": rng.choice(["cart", "tensor", "cart1", "tri", "tet"]), "ones": True},
                 "strip": {"kind": rng.choice(["cart", "tensor"]), "strip": True},
                 "tiny-aniso-K": {"kind": rng.choice(["cart", "tensor"]), "variant": "plain", "mode": "diag", "const": True, "kscale": rng.randint(-53, -40), "aniso": True, "mpfa": True},
                 "huge-K": {"kscale": rng.randint(20, 27)},
                 "sheared-korth-constK": {"kind": rng.choice(["cart", "tensor"]), "variant": "affine", "mode": "korth", "const": True, "style": "mixed"},
                 "dir-on-fracture": {"kind": "frac", "frac_dir": True, "style": "all-dir"},
                 "one-dir": {"style": "one-dir"},
                 "small-geometry": {"kind": rng.choice(["cart", "tensor", "cart1", "tensor1", "tri", "tet"]), "variant": rng.choice(["plain", "plain", "affine"]),
                                    "gscale": rng.choice(GSCALES), "mpfa": True, "style": rng.choice(["mixed", "all-dir"])},
                 "graded-tensor": {"kind": rng.choice(["tensor", "tensor", "tensor1"]), "variant": "plain", "graded": True, "mpfa": True,
                                   "mode": rng.choice(["iso", "diag"]), "style": rng.choice(["mixed", "all-dir"])},
                 "thin-layer": {"kind": rng.choice(["tensor", "tensor", "tensor1"]), "variant": "plain", "thin": True, "mpfa": True,
                                "mode": rng.choice(["iso", "diag"]), "style": rng.choice(["mixed", "all-dir"])},
                 "all-neu-constK": {"style": "all-neu", "const": True}}[st]
        for _ in range(20):
            c = _gen(rng, tier, force)
            if _buildable(c):
                c["stratum"] = st
                return c
    while True:
        c = _gen(rng, tier, {})
        if _buildable(c):
            c["stratum"] = "free"
            return c


def _buildable(c):
    """porepy's geometry code rejects some extreme grids itself (thin 2-d strips count as collinear point sets, ...):
    those are not inputs of Tpfa.discretize; rejected and counted."""
    try:
        _build(c)
        return True
    except Exception:
        _flag_counts["rejected_unbuildable"] += 1
        return False


def _gen(rng, tier, force):
    big = tier == "thorough"
    r = rng.random()
    if r < 0.03 and not force:
        return {"kind": "point", "dim": 0, "nx": [], "K": {"mode": "iso", "vals": [[frac(x) for x in _spd(rng, "iso")]]}, "bc": [],
                "vsd": rng.choice([None, 0, 1, 2, 3]), "J": None, "perturb": [], "mpfa": False, "kscale": 0, "gscale": 0}
    kind = force.get("kind") or rng.choice(["cart", "cart", "tensor", "tensor", "tri", "tet", "frac", "cart1", "tensor1"])
    case = {"kind": kind, "J": None, "perturb": [], "coords": None, "frac": None}
    if kind in ("cart1", "tensor1"):
        dim = 1
        case["kind"] = kind[:-1]
    elif kind == "tri":
        dim = 2
    elif kind == "tet":
        dim = 3
    elif kind == "frac":
        dim = 2
    else:
        dim = rng.choice([2, 2, 3])
    mx = {1: 9 if big else 6, 2: 5 if big else 4, 3: 3 if big else 2}[dim]
    if kind == "tet":
        nx = [rng.randint(1, 2), 1, rng.randint(1, 2 if big else 1)]
        rng.shuffle(nx)
    elif kind == "tri":
        nx = [rng.randint(1, 3 if not big else 4), rng.randint(1, 3)]
    elif kind == "frac":
        nx = [rng.randint(2, 4), rng.randint(2, 3)]
    else:
        nx = [rng.randint(1, mx) for _ in range(dim)]
        if dim == 3 and not big and nx.count(2) == 3 and rng.random() < 0.5:
            nx[rng.randrange(3)] = 1
    if force.get("ones"):
        nx = [1] * len(nx)
    if force.get("strip") and dim >= 2:
        nx = [1] * len(nx)
        nx[rng.randrange(len(nx))] = rng.randint(2, 5)
    case["dim"], case["nx"] = dim, nx
    if case["kind"] == "tensor":
        coords = []
        thin_axis = rng.randrange(len(nx)) if force.get("thin") else None
        for ax, n in enumerate(nx):
            xs = [_fr(rng, -2, 2)]
            thin_at = rng.randrange(n) if ax == thin_axis else None
            for i in range(n):
                if force.get("graded"):  # strongly graded: dyadic spacings with ratios up to 2^20
                    h = Fraction(1, 2 ** rng.choice([0, 0, 1, 5, 10, 14, 17, 20]))
                elif force.get("thin"):  # one very thin layer among unit cells
                    h = Fraction(1, 2 ** rng.choice([14, 17, 20])) if i == thin_at else Fraction(1)
                else:
                    h = _fr(rng, 0, 2, (1, 2, 4, 5)) + Fraction(1, 4)
                xs.append(xs[-1] + h)
            coords.append([frac(x) for x in xs])
        case["coords"] = coords
    elif case["kind"] in ("cart", "tri", "tet") and rng.random() < 0.5:
        case["coords"] = [frac(_fr(rng, 0, 3) + Fraction(1, 2)) for _ in nx]  # physdims
    if kind == "frac":
        # a fracture along a grid line, possibly ending inside the domain
        if rng.random() < 0.5:
            x = rng.randint(1, nx[0] - 1)
            a, b = sorted(rng.sample(range(nx[1] + 1), 2))
            case["frac"] = [[x, x], [a, b]]
        else:
            y = rng.randint(1, nx[1] - 1)
            a, b = sorted(rng.sample(range(nx[0] + 1), 2))
            case["frac"] = [[a, b], [y, y]]
    # geometry variants
    variant = rng.choice(["plain", "plain", "plain", "plain", "plain", "affine", "affine", "perturbed", "rotated", "affine+rotated", "perturbed+rotated"])
    variant = force.get("variant", variant)
    if kind == "frac":
        variant = "plain"
    J = None
    shear = None
    if "affine" in variant:
        shear = _shear(rng, dim)
        J = shear
    if "rotated" in variant and dim < 3 or ("rotated" in variant and rng.random() < 0.5):
        Q = _cayley(rng)
        J = _matmul(Q, J) if J is not None else Q
    else:
        Q = None
    if J is not None:
        case["J"] = [[frac(x) for x in row] for row in J]
    g0 = _base_grid(case)
    if "perturbed" in variant:
        nn = g0.num_nodes
        # smallest node spacing along each axis of the (axis-aligned) base grid
        hmin = []
        for a in range(3):
            xs = sorted({Fraction(float(x)) for x in g0.nodes[a]})
            hmin.append(min((q - p for p, q in zip(xs, xs[1:])), default=Fraction(1)))
        hglob = min(hmin[:dim])
        k = rng.randint(1, nn)
        for i in sorted(rng.sample(range(nn), k)):
            d = [hglob * Fraction(rng.randint(-8, 8), 64) if a < dim else Fraction(0) for a in range(3)]
            case["perturb"].append([i] + [frac(x) for x in d])
    # tensor
    nc = int(g0.num_cells)
    mode = rng.choice(["iso", "diag", "full", "full", "korth", "korth"]) if shear is not None else rng.choice(["iso", "diag", "diag", "diag", "full", "full"])
    if force.get("mode") and (force["mode"] != "korth" or shear is not None):
        mode = force["mode"]
    const = force.get("const", rng.random() < (0.7 if mode == "korth" else 0.4))
    base_modes = "diag" if mode == "korth" else mode
    vals = [_spd(rng, base_modes)] * nc if const else [_spd(rng, base_modes) for _ in range(nc)]
    if force.get("aniso"):
        vals = [[v[0], v[1] * 100, v[2], 0, 0, 0] for v in vals]
    if mode == "korth":
        # K = J K0 J^T keeps the sheared grid K-orthogonal (J includes the rotation if any)
        Jm = J
        out = []
        for v in vals:
            k0 = [[v[0], 0, 0], [0, v[1], 0], [0, 0, v[2]]]
            k = _matmul(_matmul(Jm, k0), _transpose(Jm))
            out.append([k[0][0], k[1][1], k[2][2], k[0][1], k[0][2], k[1][2]])
        vals = out
    elif Q is not None and mode in ("diag",) and rng.random() < 0.5 and shear is None:
        # rotate the tensor with the grid: stays K-orthogonal for Cartesian/tensor grids
        out = []
        for v in vals:
            k0 = [[v[0], 0, 0], [0, v[1], 0], [0, 0, v[2]]]
            k = _matmul(_matmul(Q, k0), _transpose(Q))
            out.append([k[0][0], k[1][1], k[2][2], k[0][1], k[0][2], k[1][2]])
        vals = out
        mode = "diag-rotated"
    case["K"] = {"mode": mode, "const": const, "vals": [[frac(x) for x in v] for v in vals]}
    # boundary conditions (per boundary face, in the order of get_all_boundary_faces)
    nb = int(g0.get_all_boundary_faces().size)  # tags are set by the constructor
    style = force.get("style") or rng.choice(["mixed", "mixed", "mixed", "all-dir", "all-neu", "one-dir", "with-rob"])
    bc = []
    for _ in range(nb):
        if style == "all-dir":
            bc.append("dir")
        elif style == "all-neu":
            bc.append("neu")
        elif style == "with-rob":
            bc.append(rng.choice(["dir", "neu", "rob"]))
        else:
            bc.append(rng.choice(["dir", "neu"]))
    if style == "one-dir" and nb:
        bc = ["neu"] * nb
        bc[rng.randrange(nb)] = "dir"
    case["bc"] = bc
    case["frac_dir"] = kind == "frac" and (force.get("frac_dir") or rng.random() < 0.25)  # allow 'dir' to land on fracture faces
    case["vsd"] = rng.choice([None, None, 1, 2, 3])
    case["mpfa"] = force.get("mpfa") or rng.random() < (0.8 if not big else 0.35)
    # magnitude: the tensor is multiplied by 2^kscale (1e-16 .. 1e+8, e.g. SI permeabilities), the node coordinates by
    # 2^gscale (1e-3 .. 1e+3); powers of two keep every binary64 value (hence the rational model input) exact
    case["kscale"] = force["kscale"] if "kscale" in force else (0 if rng.random() < 0.3 else rng.randint(-53, 27))
    if "gscale" in force:
        case["gscale"] = force["gscale"]
    else:
        case["gscale"] = 0 if (rng.random() < 0.6 or kind == "frac") else rng.choice(GSCALES + [-5, 5, 10])
    # porepy's own geometry code has absolute tolerances (1-d: compute_tangent asserts |tangent| > 1e-8; 2-d/3-d planarity
    # checks): a grid that cannot be built is no input of Tpfa.discretize -> move the length scale towards one until it can
    while case["gscale"]:
        try:
            _build(case)
            break
        except Exception:
            case["gscale"] = int(case["gscale"] / 2)
    if case["perturb"]:
        try:  # a perturbation that inverts a cell is not an input of interest: fall back to the unperturbed grid
            g = _build(case)[0]
            if not np.all(g.cell_volumes > 0):
                raise ValueError("non-positive cell volume")
        except ValueError:
            case["perturb"] = []
    return case


# ----------------------------------------------------------------------------- building the real objects
_cache = {}


def _base_grid(case):
    import porepy as pp
    kind, nx = case["kind"], case["nx"]
    if kind == "point":
        return pp.PointGrid(np.zeros(3))
    if kind == "tensor":
        return pp.TensorGrid(*[np.array([float(Fraction(x)) for x in xs]) for xs in case["coords"]])
    phys = None if not case.get("coords") else np.array([float(Fraction(x)) for x in case["coords"]])
    if kind == "cart":
        return pp.CartGrid(np.array(nx), phys)
    if kind == "tri":
        return pp.StructuredTriangleGrid(np.array(nx), phys)
    if kind == "tet":
        return pp.StructuredTetrahedralGrid(np.array(nx), phys)
    if kind == "frac":
        with warnings.catch_warnings():
            warnings.simplefilter("ignore")
            mdg = pp.meshing.cart_grid([np.array(case["frac"], dtype=float)], np.array(nx))
        return mdg.subdomains(dim=2)[0]
    raise ValueError(kind)


def _build(case):
    """-> (grid with geometry, SecondOrderTensor, BoundaryCondition, labels per face)"""
    key = json.dumps(case, sort_keys=True)
    if key in _cache:
        return _cache[key]
    import porepy as pp
    g = _base_grid(case)
    if case.get("J") or case.get("perturb") or case.get("gscale"):
        nodes = [[Fraction(float(x)) for x in col] for col in g.nodes.T]
        for p in case.get("perturb") or []:
            i = p[0]
            nodes[i] = [a + Fraction(b) for a, b in zip(nodes[i], p[1:])]
        if case.get("J"):
            J = [[Fraction(x) for x in row] for row in case["J"]]
            nodes = [[sum(J[r][m] * nd[m] for m in range(3)) for r in range(3)] for nd in nodes]
        gs = Fraction(2) ** int(case.get("gscale") or 0)
        g.nodes = np.array([[float(x * gs) for x in nd] for nd in nodes]).T.copy()
    with warnings.catch_warnings():
        warnings.simplefilter("ignore")
        g.compute_geometry()
    ks = Fraction(2) ** int(case.get("kscale") or 0)
    v = np.array([[float(Fraction(x) * ks) for x in row] for row in case["K"]["vals"]])
    if v.shape[0] != g.num_cells:
        raise ValueError("tensor / cell count mismatch")
    k = pp.SecondOrderTensor(kxx=v[:, 0], kyy=v[:, 1], kzz=v[:, 2], kxy=v[:, 3], kxz=v[:, 4], kyz=v[:, 5])
    bf = g.get_all_boundary_faces()
    labels = list(case["bc"])
    if len(labels) != bf.size:
        raise ValueError("bc / boundary face count mismatch")
    if not case.get("frac_dir"):
        labels = ["neu" if g.tags["fracture_faces"][f] else l for f, l in zip(bf, labels)]
    with warnings.catch_warnings():
        warnings.simplefilter("ignore")  # "specifying conditions on internal boundaries"
        bc = pp.BoundaryCondition(g, bf, labels) if bf.size else pp.BoundaryCondition(g)
    res = (g, k, bc)
    if len(_cache) > 64:
        _cache.clear()
    _cache[key] = res
    return res


def _discretize(case, cls=None):
    import porepy as pp
    g, k, bc = _build(case)
    params = {"second_order_tensor": k, "bc": bc}
    if case.get("vsd") is not None:
        params["ambient_dimension"] = case["vsd"]
    data = pp.initialize_data({}, "flow", params)
    with warnings.catch_warnings(), np.errstate(all="ignore"):
        warnings.simplefilter("ignore")
        (cls or pp.Tpfa)("flow").discretize(g, data)
    return g, k, bc, data[pp.DISCRETIZATION_MATRICES]["flow"]


def _num(x):
    x = float(x)
    if math.isnan(x):
        return "nan"
    if math.isinf(x):
        return "inf"
    return frac(x)


def _canon(m):
    m = m.tocsr(copy=True)
    m.sum_duplicates()
    coo = m.tocoo()
    t = sorted((int(i), int(j), _num(v)) for i, j, v in zip(coo.row, coo.col, coo.data))
    return {"shape": [int(m.shape[0]), int(m.shape[1])], "t": [list(x) for x in t]}


# ----------------------------------------------------------------------------- impl / model
def impl_run(case):
    try:
        g, k, bc, M = _discretize(case)
    except Exception as e:
        return err_kind(e)
    out = {key: _canon(M[key]) for key in KEYS if key in M}
    out["keys"] = sorted(M.keys())
    out["formats"] = sorted({M[key].format for key in M})
    if g.dim > 0:
        out["hyp"] = _hypotheses(g, bc)
    return out


def _hypotheses(g, bc):
    """The topological hypotheses of the grid-level theorems (WellFormed, bndOK), evaluated independently on the real
    grid / boundary condition objects; compared with the model's decidable predicates on every case."""
    cf = g.cell_faces.tocsr()
    wf, per_face = True, []
    for f in range(g.num_faces):
        row = cf.getrow(f)
        cells, sg = list(row.indices), list(row.data)
        per_face.append(len(cells))
        if len(cells) == 1:
            wf &= sg[0] in (1, -1)
        elif len(cells) == 2:
            wf &= cells[0] != cells[1] and sorted(sg) == [-1, 1]
        else:
            wf = False
    bf = [int(f) for f in g.get_all_boundary_faces()]
    neu = bc.is_neu | bc.is_internal
    dr = bc.is_dir & ~bc.is_internal
    ok = len(set(bf)) == len(bf)
    for f in bf:
        ok &= per_face[f] == 1 and bool(neu[f] or dr[f])
    for f in range(g.num_faces):
        if f not in bf:
            ok &= per_face[f] == 2 and not bool(neu[f])
    return {"wellFormed": bool(wf), "bndOK": bool(ok)}


def _vsd(case, g):
    return case["vsd"] if case.get("vsd") is not None else g.dim


def model_ops(case):
    g, k, bc = _build(case)
    if g.dim == 0:
        return [{"op": "tpfa0", "nc": int(g.num_cells), "vsd": _vsd(case, g)}]
    cf = g.cell_faces.tocoo()  # column-major order of a csc matrix = the order the code sees
    v3 = lambda a: [[frac(x) for x in col] for col in a.T]
    perm = [[frac(k.values[i, j, c]) for i in range(3) for j in range(3)] for c in range(g.num_cells)]
    return [{"op": "tpfa", "nf": int(g.num_faces), "nc": int(g.num_cells),
             "fi": [int(x) for x in cf.row], "ci": [int(x) for x in cf.col], "sgn": [frac(x) for x in cf.data],
             "normals": v3(g.face_normals), "fc": v3(g.face_centers), "cc": v3(g.cell_centers), "perm": perm,
             "bndr": [int(x) for x in g.get_all_boundary_faces()],
             "is_dir": [int(x) for x in bc.is_dir], "is_neu": [int(x) for x in bc.is_neu], "is_int": [int(x) for x in bc.is_internal],
             "vsd": _vsd(case, g)}]


def model_decode(outs, case):
    o = outs[0]
    if not isinstance(o, dict) or "err" in o:
        return o
    res = {"degenerate": o.get("degenerate", False)}
    if "wellFormed" in o:
        res["hyp"] = {"wellFormed": o["wellFormed"], "bndOK": o["bndOK"]}
        res["flags"] = {"cartLike": o["cartLike"], "korthGrid": o["korthGrid"]}
        _flag_counts["cartLike"] += bool(o["cartLike"])
        _flag_counts["korthGrid"] += bool(o["korthGrid"])
    for key in KEYS:
        acc = {}
        for i, j, v in o[key]["t"]:  # coo -> csr sums duplicates
            acc[(i, j)] = acc.get((i, j), Fraction(0)) + Fraction(v)
        res[key] = {"shape": o[key]["shape"], "t": [[i, j, frac(v)] for (i, j), v in sorted(acc.items())]}
    res["keys"] = sorted(KEYS)
    res["formats"] = ["csr"]
    return res


def compare(impl, model, case):
    if not isinstance(model, dict) or "err" in model:
        return f"model answered {model}"
    if "err" in impl or "harness_exc" in impl:
        return f"implementation raised {impl} where the model produced matrices"
    if impl.get("hyp") != model.get("hyp"):  # topological hypotheses of the theorems: exact, also on knife-edge inputs
        return f"hypotheses on the real grid {impl.get('hyp')} vs model predicates {model.get('hyp')}"
    if impl.get("hyp") and not impl["hyp"]["wellFormed"]:
        return "real grid is not well-formed (a face without one cell / two oppositely oriented cells)"
    if model.get("degenerate"):
        _skipped_degenerate[0] += 1
        return None
    m = dict(model)
    m.pop("degenerate")
    for key in KEYS:
        if key not in impl:
            return f"matrix {key} missing from the matrix dictionary"
        a, b = impl[key], m[key]
        if a["shape"] != b["shape"]:
            return f"{key}: shape {a['shape']} vs {b['shape']}"
        pa, pb = [t[:2] for t in a["t"]], [t[:2] for t in b["t"]]
        if pa != pb:
            diff = [p for p in pa if p not in pb][:3], [p for p in pb if p not in pa][:3]
            return f"{key}: sparsity pattern differs (impl-only {diff[0]}, model-only {diff[1]})"
        for ta, tb in zip(a["t"], b["t"]):
            if ta[2] in ("nan", "inf"):
                return f"{key}[{ta[0]},{ta[1]}]: impl {ta[2]} vs model {tb[2]}"
        # class T, RELATIVE to the natural scale of the matrix (its largest model entry, ~ |K| area / distance for the flux
        # matrices): |impl - model| <= TOL * max(|model|, 1e-4 * scale); bound_pressure_face mixes 1 and -1/t: per entry
        vb = [Fraction(t[2]) for t in b["t"]]
        scale = max((abs(x) for x in vb), default=Fraction(0))
        if key == "bound_flux":  # Dirichlet entries scale with K (like flux), Neumann entries are +-1
            scale = max((abs(Fraction(t[2])) for t in m["flux"]["t"]), default=Fraction(0))
        # entries of one matrix range over many orders of magnitude on graded grids: per-entry relative tolerance; the floor
        # (1e-9 of the largest entry) only absorbs entries that are rounding noise of the inputs
        floor = Fraction(0) if key == "bound_pressure_face" else scale / 10 ** 9
        rt = Fraction(1, 10 ** 9)
        for ta, x in zip(a["t"], vb):
            if abs(Fraction(ta[2]) - x) > rt * max(abs(x), floor):
                return f"{key}[{ta[0]},{ta[1]}]: impl {float(Fraction(ta[2]))!r} vs model {float(x)!r} (relative tol {float(rt)}, matrix scale {float(scale)!r})"
    if impl["keys"] != m["keys"]:
        return f"matrix dictionary keys {impl['keys']} vs {m['keys']}"
    if impl["formats"] != m["formats"]:
        return f"matrix formats {impl['formats']} vs {m['formats']}"
    return None


# ----------------------------------------------------------------------------- oracle
def _classify(case, g, k):
    """(cart_like, diagK, constK, korth) determined from the case description and the real grid / tensor"""
    cart_like = case["kind"] in ("cart", "tensor") and not case.get("J") and not case.get("perturb")
    kv = k.values
    off = max(abs(kv[0, 1]).max(), abs(kv[0, 2]).max(), abs(kv[1, 2]).max())
    diag = off == 0 and kv[0, 0].min() > 0 and kv[1, 1].min() > 0 and kv[2, 2].min() > 0
    const = bool(np.all(kv == kv[:, :, :1]))
    cf = g.cell_faces.tocoo()
    n = g.face_normals[:, cf.row] * cf.data
    d = g.face_centers[:, cf.row] - g.cell_centers[:, cf.col]
    kn = np.einsum("ijh,jh->ih", kv[:, :, cf.col], n)
    cr = np.linalg.norm(np.cross(kn.T, d.T), axis=1)
    sc = np.linalg.norm(kn, axis=0) * np.linalg.norm(d, axis=0)
    korth = bool(np.all(cr <= 1e-9 * sc) and np.all((kn * d).sum(axis=0) > 0))
    return cart_like, diag, const, korth


def oracle(case):
    import porepy as pp
    _build(case)  # an exception here is a generator / shrinker problem, not a property failure
    try:
        g, k, bc, M = _discretize(case)
    except Exception as e:
        return {"what": f"Tpfa.discretize raised {type(e).__name__}: {e}", "key": f"raises-{type(e).__name__}"}
    if g.dim == 0:
        ok = M["flux"].shape == (0, g.num_cells) and M["bound_flux"].shape == (0, 0)
        return None if ok else {"what": "0-d grid: wrong matrix shapes", "key": "zero-dim-shapes"}
    flux, bflux = M["flux"].tocsr(), M["bound_flux"].tocsr()
    bpc, bpf = M["bound_pressure_cell"].tocsr(), M["bound_pressure_face"].tocsr()
    nf, nc = g.num_faces, g.num_cells
    if flux.shape != (nf, nc) or bflux.shape != (nf, nf) or bpc.shape != (nf, nc) or bpf.shape != (nf, nf):
        return {"what": f"matrix shapes {flux.shape} {bflux.shape} {bpc.shape} {bpf.shape} for nf={nf}, nc={nc}", "key": "shapes"}
    F = flux.toarray()
    if not np.all(np.isfinite(F)) or not np.all(np.isfinite(bflux.data)):
        return None  # vanishing half transmissibility: outside the property (no meaningful discretization)
    # natural scale of a transmissibility, from the INPUTS only: max |K_cell| |n| / |d| over half-faces; every tolerance
    # below is relative to it (no absolute tolerances: tensors range over 1e-16 .. 1e+8)
    cf0 = g.cell_faces.tocoo()
    dd = np.linalg.norm(g.face_centers[:, cf0.row] - g.cell_centers[:, cf0.col], axis=0)
    kmax = np.abs(k.values).max(axis=(0, 1))
    with np.errstate(all="ignore"):
        scale = float(np.max(kmax[cf0.col] * np.linalg.norm(g.face_normals[:, cf0.row], axis=0) / dd))
    if not np.isfinite(scale) or scale <= 0:
        return None
    # rounding errors are proportional to the largest transmissibility actually present, which exceeds the natural scale
    # only when a harmonic sum cancels (sheared grids with full tensors); both are proportional to |K|
    scale = max(scale, float(np.abs(F).max()))
    tol = 1e-9 * scale
    rho = float(dd.max() / dd.min())  # grading / aspect ratio of the grid: MPFA's local systems are conditioned like rho^2
    L = float(max(np.abs(g.nodes).max(), np.abs(g.face_centers).max()))  # length scale of the coordinates
    cf = g.cell_faces.tocsr()
    D = cf.toarray()
    has_rob = bool(bc.is_rob.any())
    pure_bc = not has_rob and not (bc.is_dir & bc.is_internal).any()

    # 1. symmetry of the cell-cell operator div * flux
    A = g.divergence(dim=1).toarray() @ F if hasattr(g, "divergence") else D.T @ F
    if np.abs(A - A.T).max() > tol:
        i, j = np.unravel_index(np.abs(A - A.T).argmax(), A.shape)
        return {"what": f"div*flux not symmetric: A[{i},{j}]={A[i, j]!r} vs A[{j},{i}]={A[j, i]!r}", "key": "symmetry"}
    # 2. single-valued flux: row f of flux is t_f times row f of cell_faces (one scalar per face), t_f = 0 on Neumann faces
    for f in range(nf):
        cells = np.nonzero(D[f])[0]
        other = np.setdiff1d(np.nonzero(F[f])[0], cells)
        if other.size:
            return {"what": f"flux row {f} couples to cell(s) {other.tolist()} that do not have this face", "key": "single-valued-support"}
        tf = F[f, cells] / D[f, cells]
        if np.abs(tf - tf[0]).max() > tol:
            return {"what": f"face {f}: flux seen from its two cells differs, t = {tf.tolist()}", "key": "single-valued"}
        is_neu = bc.is_neu[f] or bc.is_internal[f]
        if is_neu and abs(tf[0]) > 0:
            return {"what": f"Neumann face {f} has non-zero transmissibility {tf[0]!r}", "key": "neumann-trans-nonzero"}
    # 2b. every Neumann boundary face (internal / fracture faces included) carries exactly the prescribed outward flux:
    #     bound_flux[f, f] = orientation of the face, nothing else in that row
    Bf = bflux.toarray()
    for f in g.get_all_boundary_faces():
        if (bc.is_neu[f] or bc.is_internal[f]) and not bc.is_rob[f]:
            sg = float(D[f, np.nonzero(D[f])[0][0]])
            row = Bf[f].copy()
            row[f] -= sg
            if np.abs(row).max() > 1e-12:
                return {"what": f"Neumann face {f}: bound_flux row is not the orientation {sg} on the diagonal (diag {Bf[f, f]!r})", "key": "neumann-bound-flux"}
    # 3. constant pressure with matching Dirichlet data (and zero Neumann data): zero flux on every face
    if pure_bc:
        for c0 in (1.0, -2.5):
            vals = np.zeros(nf)
            vals[bc.is_dir] = c0
            q = flux @ (c0 * np.ones(nc)) + bflux @ vals
            if np.abs(q).max() > tol * abs(c0):
                f = int(np.abs(q).argmax())
                return {"what": f"constant pressure {c0} with matching Dirichlet data gives flux {q[f]!r} on face {f}", "key": "const-zero-flux"}
            pb = bpc @ (c0 * np.ones(nc)) + bpf @ vals
            bf = g.get_all_boundary_faces()
            if bf.size and np.all(np.isfinite(pb)) and np.abs(pb[bf] - c0).max() > 1e-9 * abs(c0):
                f = int(bf[np.abs(pb[bf] - c0).argmax()])
                return {"what": f"constant pressure {c0}: reconstructed boundary pressure {pb[f]!r} on face {f}", "key": "const-bound-pressure"}
    # 3b. hydrostatic consistency of the vector source (any grid, any K): p = a + G.x with vector source G in every cell
    #     gives zero flux on every interior / Dirichlet face, and the reconstructed boundary pressure is p at the face centre
    vsd = _vsd(case, g)
    if pure_bc and 1 <= vsd <= 3 and "vector_source" in M and np.abs(g.nodes[vsd:]).max(initial=0.0) == 0:
        Gv = np.array([1.5, -0.75, 2.0])
        Gv[vsd:] = 0
        p = 0.25 * L + Gv @ g.cell_centers
        pf = 0.25 * L + Gv @ g.face_centers
        vals = np.zeros(nf)
        vals[bc.is_dir] = pf[bc.is_dir]
        vs = np.tile(Gv[:vsd], nc)
        q = flux @ p + bflux @ vals + M["vector_source"] @ vs
        sc = scale * max(np.abs(p).max(), np.abs(pf).max())
        if np.abs(q).max() > 1e-9 * sc:
            f = int(np.abs(q).argmax())
            return {"what": f"hydrostatic pressure with matching vector source gives flux {q[f]!r} on face {f}", "key": "vector-source-hydrostatic"}
        pb = bpc @ p + bpf @ vals + M["bound_pressure_vector_source"] @ vs
        bf = g.get_all_boundary_faces()
        ext = bf[~bc.is_internal[bf] | bc.is_neu[bf]]
        if ext.size and np.all(np.isfinite(pb)) and np.abs(pb - pf)[ext].max() > 1e-9 * np.abs(pf).max():
            f = int(ext[np.abs(pb - pf)[ext].argmax()])
            return {"what": f"hydrostatic pressure: reconstructed boundary pressure {pb[f]!r} on face {f}, expected {pf[f]!r}", "key": "vector-source-bound-pressure"}
    cart_like, diag, const, korth = _classify(case, g, k)
    # 4. M-matrix structure on Cartesian / tensor grids with diagonal permeability
    if cart_like and diag and not has_rob:
        dA = np.diag(A)
        offA = A - np.diag(dA)
        if offA.max() > tol:
            i, j = np.unravel_index(offA.argmax(), A.shape)
            return {"what": f"positive off-diagonal entry A[{i},{j}]={A[i, j]!r} on a Cartesian/tensor grid with diagonal K", "key": "mmatrix-offdiag"}
        if dA.min() < -tol:
            return {"what": f"negative diagonal entry {dA.min()!r}", "key": "mmatrix-diag"}
        neu = bc.is_neu | bc.is_internal
        for c in range(nc):
            faces = np.nonzero(D[:, c])[0]
            if np.any(~neu[faces]) and not dA[c] > 0:
                return {"what": f"cell {c} has a non-Neumann face but diagonal entry {dA[c]!r} is not positive", "key": "mmatrix-diag"}
        rs = A.sum(axis=1)
        if rs.min() < -tol:
            return {"what": f"row {int(rs.argmin())} is not weakly diagonally dominant (row sum {rs.min()!r})", "key": "mmatrix-dominance"}
        if np.any(F[neu] != 0):
            return {"what": "non-zero flux row on a Neumann face", "key": "neumann-trans-nonzero"}
        tfaces = np.array([(F[f, np.nonzero(D[f])[0][0]] / D[f, np.nonzero(D[f])[0][0]]) for f in range(nf)])
        if np.any(tfaces[~neu] <= 0):
            return {"what": f"non-positive transmissibility {tfaces[~neu].min()!r} on a Cartesian/tensor grid with positive diagonal K", "key": "trans-positive"}
        # 5. agreement with MPFA
        if case.get("mpfa") and pure_bc:
            try:
                _, _, _, MM = _discretize(case, pp.Mpfa)
            except Exception:
                # pp.Mpfa refuses some extreme grids (a thin 2-D strip counts as collinear in map_grid's relative planarity
                # tolerance): no reference to compare with; not a statement about Tpfa. Counted in the evidence.
                MM = None
                _flag_counts["mpfa_unavailable"] += 1
            for key in (("flux", "bound_flux") if MM is not None else ()):
                a, b = M[key].toarray(), MM[key].toarray()
                # pp.Mpfa solves local systems whose conditioning grows like rho^2 on graded / thin cells: its own rounding
                # error is ~ eps * rho^2 (observed 1e-7 for rho = 2^17); the tolerance follows, capped at 1e-2 (the
                # failures looked for are relative errors of order one)
                mtol = 1e-8 if rho <= 64 else min(1e-2, max(1e-8, 1e-14 * rho * rho))
                colscale = np.full(a.shape[1], scale)
                if key == "bound_flux":  # columns of Neumann faces are dimensionless (entries of order one), the others scale with K
                    colscale[bc.is_neu | bc.is_internal] = max(scale, 1.0)
                if a.shape != b.shape or np.any(np.abs(a - b) > mtol * colscale[None, :]):
                    return {"what": f"TPFA and MPFA {key} differ on a Cartesian/tensor grid with diagonal K (max diff {np.abs(a - b).max() if a.shape == b.shape else 'shape'}, natural scale {scale!r})", "key": f"mpfa-{key}"}
    # 6. affine pressure with constant K on a K-orthogonal grid: exact fluxes and boundary pressures
    if korth and const and pure_bc:
        K0 = k.values[:, :, 0]
        for a0, grad in ((0.5 * L, np.array([1.0, -2.0, 0.75])), (-1.0 * L, np.array([0.25, 3.0, -1.5]))):
            p = a0 + grad @ g.cell_centers
            pf = a0 + grad @ g.face_centers
            exact = -(g.face_normals * (K0 @ grad)[:, None]).sum(axis=0)  # flux in the direction of the stored normal
            bf = g.get_all_boundary_faces()
            sgn = np.zeros(nf)
            sgn[bf] = np.asarray(cf[bf].sum(axis=1)).ravel()
            vals = np.zeros(nf)
            vals[bc.is_dir] = pf[bc.is_dir]
            neu = bc.is_neu & ~bc.is_dir
            vals[neu] = (sgn * exact)[neu]  # Neumann data: outward flux
            interior_or_dir = ~(bc.is_neu | bc.is_internal)
            q = flux @ p + bflux @ vals
            sc = np.abs(exact).max() + scale * max(np.abs(p).max(), np.abs(pf).max())
            chk = np.ones(nf, dtype=bool)
            chk[bc.is_internal] = False  # internal (fracture) faces carry interface fluxes, not part of the claim
            if np.abs(q - exact)[chk].max() > 1e-9 * sc:
                f = int(np.nonzero(chk)[0][np.abs(q - exact)[chk].argmax()])
                where = "Neumann" if neu[f] else ("Dirichlet" if bc.is_dir[f] else "interior")
                return {"what": f"affine pressure on a K-orthogonal grid: {where} face {f} flux {q[f]!r}, exact {exact[f]!r}", "key": f"linear-exact-{where.lower()}"}
            pb = bpc @ p + bpf @ vals
            ext = np.setdiff1d(bf, np.nonzero(bc.is_internal)[0])
            if ext.size and not np.all(np.isfinite(pb[ext])):
                f = int(ext[~np.isfinite(pb[ext])][0])
                return {"what": f"K-orthogonal grid (positive half transmissibilities): reconstructed boundary pressure on face {f} is {pb[f]!r}", "key": "bound-pressure-not-finite"}
            if ext.size and np.abs(pb - pf)[ext].max() > 1e-8 * np.abs(pf).max():
                f = int(ext[np.abs(pb - pf)[ext].argmax()])
                return {"what": f"affine pressure on a K-orthogonal grid: reconstructed boundary pressure {pb[f]!r} on face {f}, exact {pf[f]!r}", "key": "linear-exact-bound-pressure"}
    return None


# ----------------------------------------------------------------------------- bookkeeping
def nontrivial(case):
    return case["kind"] != "point" and "dir" in case["bc"] and "neu" in case["bc"] and (len(case["K"]["vals"]) >= 2)


def shrink_candidates(case):
    if case.get("perturb"):
        for i in range(len(case["perturb"])):
            yield dict(case, perturb=case["perturb"][:i] + case["perturb"][i + 1:])
    if case.get("vsd") is not None:
        yield dict(case, vsd=None)
    if any(b != "neu" for b in case["bc"]):
        for i, b in enumerate(case["bc"]):
            if b != "neu":
                yield dict(case, bc=case["bc"][:i] + ["neu"] + case["bc"][i + 1:])
    vals = case["K"]["vals"]
    if len(set(map(tuple, vals))) > 1:
        yield dict(case, K=dict(case["K"], vals=[vals[0]] * len(vals), const=True))


def stats(cases, impl_outs):
    def cnt(f):
        return sum(1 for c in cases if f(c))
    kinds = {}
    for c in cases:
        key = f"{c['kind']}{c['dim']}d"
        kinds[key] = kinds.get(key, 0) + 1
    cls = {"cart_like": 0, "cart_like_diagK": 0, "korth": 0, "korth_constK": 0}
    ncells = []
    for c in cases:
        try:
            g, k, bc = _build(c)
            if g.dim == 0:
                continue
            a, d, co, ko = _classify(c, g, k)
            cls["cart_like"] += int(bool(a))
            cls["cart_like_diagK"] += int(bool(a and d))
            cls["korth"] += int(bool(ko))
            cls["korth_constK"] += int(bool(ko and co))
            ncells.append(int(g.num_cells))
        except Exception:
            pass
    return {"kinds": kinds, "classes": cls,
            "affine": cnt(lambda c: bool(c.get("J"))), "perturbed": cnt(lambda c: bool(c.get("perturb"))),
            "tensor_modes": {m: cnt(lambda c: c["K"]["mode"] == m) for m in ("iso", "diag", "full", "korth", "diag-rotated")},
            "bc": {"all_dir": cnt(lambda c: c["bc"] and set(c["bc"]) == {"dir"}), "all_neu": cnt(lambda c: c["bc"] and set(c["bc"]) == {"neu"}),
                   "with_rob": cnt(lambda c: "rob" in c["bc"]), "dir_on_fracture": cnt(lambda c: c.get("frac_dir"))},
            "ambient_dimension_set": cnt(lambda c: c.get("vsd") is not None),
            "tensor_scale_log2": {"0": cnt(lambda c: not c.get("kscale")), "<-30": cnt(lambda c: (c.get("kscale") or 0) < -30),
                                  "-30..-1": cnt(lambda c: -30 <= (c.get("kscale") or 0) < 0), ">0": cnt(lambda c: (c.get("kscale") or 0) > 0)},
            "grid_scaled": cnt(lambda c: bool(c.get("gscale"))),
            "grid_scale_log2": {str(k): cnt(lambda c: (c.get("gscale") or 0) == k) for k in GSCALES + [-5, 5, 10]},
            "strata": {st: cnt(lambda c: c.get("stratum") == st) for st in STRATA + ["free"]},
            "model_predicates_true_on_real_geometry": dict(_flag_counts),
            "cells_min_max": [min(ncells), max(ncells)] if ncells else None,
            "impl_errors": sum(1 for o in impl_outs if isinstance(o, dict) and ("err" in o or "harness_exc" in o)),
            "skipped_degenerate": _skipped_degenerate[0]}


