"""C44 Geometric clipping keeps exactly the parts inside the domain
(constrain_geometry.lines_by_polygon / polygons_by_polyhedron)."""
import math
import traceback
from fractions import Fraction as F

import numpy as np

from harness.common import frac, err_kind, deep_compare

PID = "C44"
THEOREMS = [
    "PorepyVerif.C44.halfplane_is_left_of_edge",
    "PorepyVerif.C44.clip_convex_exact",
    "PorepyVerif.C44.clip_convex_sound",
    "PorepyVerif.C44.clip_convex_complete",
    "PorepyVerif.C44.clip_convex_none_or_nonempty",
    "PorepyVerif.C44.clip_convex_open_strict",
    "PorepyVerif.C44.clip_convex_dropped_on_boundary",
    "PorepyVerif.C44.clip_simple_sound_partial",
    "PorepyVerif.C44.clip_simple_piece_off_boundary",
    "PorepyVerif.C44.clip_simple_piece_inside",
    "PorepyVerif.C44.clip_simple_dropped_not_inside",
    "PorepyVerif.C44.clip_simple_cover",
    "PorepyVerif.C44.clip_simple_exact_evenodd",
    "PorepyVerif.C44.merge_union",
    "PorepyVerif.C44.clip_simple_merge_union",
    "PorepyVerif.C44.sh_clip_sound",
    "PorepyVerif.C44.sh_clip_inside_unchanged",
    "PorepyVerif.C44.sh2_complete1",
    "PorepyVerif.C44.sh2_sound1",
    "PorepyVerif.C44.sh2_convex1",
    "PorepyVerif.C44.sh2_complete",
    "PorepyVerif.C44.sh2_sound",
    "PorepyVerif.C44.sh_clip_planar",
    "PorepyVerif.C44.sh_clip_complete_planar",
    "PorepyVerif.C44.inRegion_halfPlanes_iff",
    "PorepyVerif.C44.sh2_hull_sound",
    "PorepyVerif.C44.convexCCWb_iff",
    "PorepyVerif.C44.inRegion_halfPlanes_cw",
    "PorepyVerif.C44.clip_convex_polygon_exact",
    "PorepyVerif.C44.sh_clip_complete_decidable",
]
LEAN_MODULES = ["PorepyVerif.C44.Props"]
AUDIT = "PorepyVerif/C44/Audit.lean"
DRIVER = "PorepyVerif/C44/Driver.lean"
N = {"quick": 260, "thorough": 6000}
TOL = 1e-9
RULE = ("70% `lines` cases: a simple polygon with integer (sometimes one dyadic) coordinates — convex hull of random points, "
        "star-shaped, or an integer affine image of an L/U/comb/dart/spike/V-notch/Z template, either orientation, random start vertex, "
        "25% with a redundant vertex on an edge — and 1-5 tagged segments: random, through two vertices, along an edge (inside, beyond, "
        "partly), through one vertex, end point(s) on the boundary, extended chords through notches, axis-parallel through the "
        "bounding box, zero length, far outside.  30% `p3d` cases: a convex polyhedron (box, tetrahedron, prism, pyramid, octahedron, "
        "parallelepiped, some integer-sheared) and 1-3 convex planar polygons (axis-parallel or oblique plane, through polyhedron "
        "vertices / edge midpoints, fully inside / outside, with edges in face planes; about 3% in the plane of a face = documented "
        "unsupported input, soundness only).  Strata (counted in stats): lines — no segments at all, triangle, a segment repeated and reversed, "
        "points shared between segments in permuted order, exact dyadic scaling 2^-6..2^12 with shift, 3-row arrays; p3d — single polygon passed "
        "as an array, the same polygon twice, a polygon beyond the bounding box first in the list, rotated / reversed vertex order; every "
        "lines result is clipped a second time (must come back unchanged).  non-trivial = a lines case with at least one segment that is properly cut (neither "
        "untouched nor removed) or a p3d case whose exact clipped area is positive and smaller than the polygon; distinct = distinct inputs")
TRUSTED = [
    "the Lean model is the exact SPECIFICATION (lines_by_polygon delegates to shapely/GEOS, polygons_by_polyhedron to polygons_3d, "
    "point_in_polyhedron, networkx): the code itself is tied to it by correspondence and oracle only",
    "simple polygons: inside is DEFINED by the even-odd rule; that this rule decides the topological interior of a simple polygon "
    "(Jordan curve theorem for polygons, independence of the ray direction) is not proved",
    "Sutherland-Hodgman: the region of a convex counter-clockwise polygon is its H-representation (left of every edge); its equality "
    "with the convex hull of the vertices (Minkowski-Weyl) is not proved — relevant for degenerate outputs (< 3 distinct vertices); "
    "the oracle uses an independent exact python reference",
    "binary64 rounding inside GEOS / numpy: pieces are compared by their parameters along the input segment with tolerance 1e-9",
]
EXPLANATION = ("CORE: convex region fully proved (returned interval = segment ∩ region, both inclusions, all inputs). Arbitrary polygons: "
               "clip_simple_exact_evenodd — off the finitely many cut parameters, t lies in a returned piece iff s(t) is strictly inside by the "
               "even-odd rule (every point of a piece, not only the midpoint; ray along the segment; the horizontal-ray rule is cross-checked "
               "by the driver on every case). Sutherland-Hodgman: soundness in 3d; completeness + soundness + preservation of convexity for "
               "convex counter-clockwise polygons against a half-plane list in the plane of the polygon (H-representation), transported to 3d "
               "by sh_clip_planar. lines_by_polygon is compared piece by piece (merged parameter intervals per input segment, kept edges, "
               "tags) with the model, and for convex polygons the half-plane model and the crossing model are compared with each other; "
               "polygons_by_polyhedron: total area per input polygon vs exact Sutherland-Hodgman and containment of every returned vertex.")
ASSUMPTIONS = [
    "convention of the code: what is returned is the closure of (input ∩ INTERIOR of the region): zero-length pieces (touching a vertex "
    "from outside) and pieces lying in the boundary (segment along a polygon edge) are excluded, on both sides of every comparison",
    "inputs are exact in binary64 (integers, halves, quarters, eighths); outputs compared with tolerance 1e-9",
    "polygons_by_polyhedron: convex polygons without three collinear vertices, convex polyhedra with convex faces (documented "
    "assumptions of polygons_3d); a polygon lying in the plane of a face of the polyhedron is documented as unsupported (FIXME in "
    "the source, 'intersection types are not classified' in polygons_3d): only soundness is checked there, exceptions are tolerated",
]

# ============================================================================ exact 2d reference (python Fractions)


def sub(a, b):
    return (a[0] - b[0], a[1] - b[1])


def cross(a, b):
    return a[0] * b[1] - a[1] * b[0]


def dot(a, b):
    return a[0] * b[0] + a[1] * b[1]


def pt(P0, P1, t):
    return (P0[0] + t * (P1[0] - P0[0]), P0[1] + t * (P1[1] - P0[1]))


def on_seg(A, B, P):
    return cross(sub(B, A), sub(P, A)) == 0 and dot(sub(P, A), sub(P, B)) <= 0


def edges_of(poly):
    return [(poly[i], poly[(i + 1) % len(poly)]) for i in range(len(poly))]


def on_boundary(poly, P):
    return any(on_seg(A, B, P) for A, B in edges_of(poly))


def winding(poly, P):
    """winding number of a closed polygon around P (P not on the boundary) — independent of the
    even-odd rule of the Lean model"""
    w = 0
    for A, B in edges_of(poly):
        if A[1] <= P[1]:
            if B[1] > P[1] and cross(sub(B, A), sub(P, A)) > 0:
                w += 1
        elif B[1] <= P[1] and cross(sub(B, A), sub(P, A)) < 0:
            w -= 1
    return w


def inside_strict(poly, P):
    return (not on_boundary(poly, P)) and winding(poly, P) != 0


def crossings(poly, P0, P1):
    D = sub(P1, P0)
    out = []
    for A, B in edges_of(poly):
        E = sub(B, A)
        den = cross(D, E)
        if den != 0:
            t = cross(sub(A, P0), E) / den
            u = cross(sub(A, P0), D) / den
            if 0 <= t <= 1 and 0 <= u <= 1:
                out.append(t)
        elif cross(D, sub(A, P0)) == 0:
            for Q in (A, B):
                t = dot(sub(Q, P0), D) / dot(D, D)
                if 0 <= t <= 1:
                    out.append(t)
    return out


def clip_exact(poly, P0, P1):
    """merged parameter intervals of closure(segment ∩ interior(poly))"""
    if P0 == P1:
        return []
    cuts = sorted(set([F(0), F(1)] + crossings(poly, P0, P1)))
    out = []
    for a, b in zip(cuts[:-1], cuts[1:]):
        if inside_strict(poly, pt(P0, P1, (a + b) / 2)):
            if out and out[-1][1] == a:
                out[-1] = (out[-1][0], b)
            else:
                out.append((a, b))
    return out


def dist_to_boundary(poly, P):
    """float distance of a (float) point to the polygon boundary"""
    best = float("inf")
    px, py = float(P[0]), float(P[1])
    for A, B in edges_of(poly):
        ax, ay, bx, by = float(A[0]), float(A[1]), float(B[0]), float(B[1])
        ex, ey = bx - ax, by - ay
        l2 = ex * ex + ey * ey
        t = 0.0 if l2 == 0 else max(0.0, min(1.0, ((px - ax) * ex + (py - ay) * ey) / l2))
        best = min(best, math.hypot(px - ax - t * ex, py - ay - t * ey))
    return best


def is_convex(poly):
    n = len(poly)
    s = [cross(sub(poly[(i + 1) % n], poly[i]), sub(poly[(i + 2) % n], poly[(i + 1) % n])) for i in range(n)]
    return all(x >= 0 for x in s) or all(x <= 0 for x in s)


# ============================================================================ exact 3d reference


def sub3(a, b):
    return (a[0] - b[0], a[1] - b[1], a[2] - b[2])


def add3(a, b):
    return (a[0] + b[0], a[1] + b[1], a[2] + b[2])


def sc3(k, a):
    return (k * a[0], k * a[1], k * a[2])


def dot3(a, b):
    return a[0] * b[0] + a[1] * b[1] + a[2] * b[2]


def cross3(a, b):
    return (a[1] * b[2] - a[2] * b[1], a[2] * b[0] - a[0] * b[2], a[0] * b[1] - a[1] * b[0])


def halfspaces(faces):
    """faces of a CONVEX polyhedron -> [(n, c)] with n.x <= c inside"""
    verts = sorted({v for f in faces for v in f})
    cen = sc3(F(1, len(verts)), tuple(sum(v[i] for v in verts) for i in range(3)))
    hs = []
    for f in faces:
        n = cross3(sub3(f[1], f[0]), sub3(f[2], f[0]))
        c = dot3(n, f[0])
        if dot3(n, cen) > c:
            n, c = sc3(-1, n), -c
        assert dot3(n, cen) < c
        hs.append((n, c))
    return hs


def sh_clip(poly, h):
    n, c = h
    out = []
    m = len(poly)
    for i in range(m):
        P, Q = poly[i], poly[(i + 1) % m]
        fp, fq = dot3(n, P) - c, dot3(n, Q) - c
        if fp <= 0:
            out.append(P)
        if (fp < 0 and fq > 0) or (fp > 0 and fq < 0):
            out.append(add3(P, sc3(fp / (fp - fq), sub3(Q, P))))
    return out


def clip_poly3(poly, hs):
    for h in hs:
        poly = sh_clip(poly, h)
        if not poly:
            break
    return poly


def vec_area(poly):
    s = (F(0), F(0), F(0))
    for i in range(len(poly)):
        s = add3(s, cross3(poly[i], poly[(i + 1) % len(poly)]))
    return sc3(F(1, 2), s)


def norm3f(v):
    return math.sqrt(float(dot3(v, v)))


def in_convex_planar(poly, P):
    n = vec_area(poly)
    for i in range(len(poly)):
        A, B = poly[i], poly[(i + 1) % len(poly)]
        if dot3(n, cross3(sub3(B, A), sub3(P, A))) < 0:
            return False
    return True


def seg_seg_3d(A, B, C, D):
    u, v, w = sub3(B, A), sub3(D, C), sub3(C, A)
    n = cross3(u, v)
    if dot3(n, w) != 0:
        return False
    if not any(n):
        if any(cross3(u, w)):
            return False
        uu = dot3(u, u)
        t0, t1 = dot3(w, u) / uu, dot3(sub3(D, A), u) / uu
        return max(min(t0, t1), 0) <= min(max(t0, t1), 1)
    nn = dot3(n, n)
    t, s = dot3(cross3(w, v), n) / nn, dot3(cross3(w, u), n) / nn
    return 0 <= t <= 1 and 0 <= s <= 1


def flags3(faces, poly):
    """exact special-position flags of a polygon relative to a convex polyhedron"""
    fl = set()
    n = vec_area(poly)
    c = dot3(n, poly[0])
    verts = sorted({v for f in faces for v in f})
    m = len(poly)
    for f in faces:
        fn = vec_area(f)
        fc = dot3(fn, f[0])
        if not any(cross3(fn, n)) and dot3(fn, poly[0]) == fc:
            fl.add("coplanar")
        for i, P in enumerate(poly):
            if dot3(fn, P) == fc:
                if in_convex_planar(f, P):
                    fl.add("vertex-on-face")
                if dot3(fn, poly[(i + 1) % m]) == fc:
                    fl.add("edge-in-face-plane")
    for V in verts:
        if dot3(n, V) == c and in_convex_planar(poly, V):
            fl.add("through-vertex")
    pedges = set()
    for f in faces:
        for i in range(len(f)):
            a, b = f[i], f[(i + 1) % len(f)]
            pedges.add((min(a, b), max(a, b)))
    for (C, D) in pedges:
        for i in range(m):
            if seg_seg_3d(poly[i], poly[(i + 1) % m], C, D):
                fl.add("edge-edge")
                if dot3(n, C) == c and dot3(n, D) == c:
                    fl.add("face-edge-in-polygon-plane")
    return sorted(fl)


def class3(fl):
    """root-cause class used in the oracle keys (most specific degenerate feature first)"""
    for k in ("coplanar", "edge-in-face-plane", "face-edge-in-polygon-plane"):
        if k in fl:
            return k
    if "edge-edge" in fl and "through-vertex" in fl:
        return "edge-through-polyhedron-vertex"
    if "edge-edge" in fl:
        return "edge-edge"
    if "vertex-on-face" in fl:
        return "vertex-on-face"
    if "through-vertex" in fl:
        return "through-vertex"
    return "general"


# ============================================================================ generators

TEMPLATES = {
    "L": [(0, 0), (2, 0), (2, 1), (1, 1), (1, 2), (0, 2)],
    "U": [(0, 0), (3, 0), (3, 3), (2, 3), (2, 1), (1, 1), (1, 3), (0, 3)],
    "comb": [(0, 0), (5, 0), (5, 3), (4, 3), (4, 1), (3, 1), (3, 3), (2, 3), (2, 1), (1, 1), (1, 3), (0, 3)],
    "dart": [(0, 0), (4, 2), (0, 4), (1, 2)],
    "spike": [(0, 0), (4, 0), (4, 2), (8, 3), (4, 4), (4, 6), (0, 6)],
    "notchV": [(0, 0), (4, 0), (4, 4), (2, 1), (0, 4)],
    "Z": [(0, 0), (3, 0), (3, 2), (5, 2), (5, 4), (2, 4), (2, 2), (0, 2)],
}


def hull(pts):
    pts = sorted(set(pts))
    if len(pts) < 3:
        return pts

    def half(ps):
        h = []
        for p in ps:
            while len(h) >= 2 and cross(sub(h[-1], h[-2]), sub(p, h[-2])) <= 0:
                h.pop()
            h.append(p)
        return h

    lo = half(pts)
    up = half(pts[::-1])
    return lo[:-1] + up[:-1]


def gen_polygon(rng, convex_only=False):
    r = 0.0 if convex_only else rng.random()
    if r < 0.35:
        while True:
            k = rng.randint(3, 9)
            pts = [(rng.randint(-6, 6), rng.randint(-6, 6)) for _ in range(k)]
            h = hull(pts)
            if len(h) >= 3:
                poly, fam = h, "hull"
                break
    elif r < 0.55:
        while True:
            k = rng.randint(4, 9)
            pts = set()
            while len(pts) < k:
                p = (rng.randint(-6, 6), rng.randint(-6, 6))
                if p != (0, 0):
                    pts.add(p)
            pts = sorted(pts, key=lambda p: math.atan2(p[1], p[0]))
            if all(cross(pts[i], pts[(i + 1) % k]) > 0 for i in range(k)):
                poly, fam = pts, "star"
                break
    else:
        fam = rng.choice(sorted(TEMPLATES))
        base = TEMPLATES[fam]
        while True:
            a, b, c, d = [rng.randint(-2, 2) for _ in range(4)]
            if a * d - b * c != 0:
                break
        if rng.random() < 0.5:
            a, b, c, d = 1, 0, 0, 1
        tx, ty = rng.randint(-3, 3), rng.randint(-3, 3)
        poly = [(a * x + b * y + tx, c * x + d * y + ty) for x, y in base]
    if not convex_only and rng.random() < 0.25:  # redundant vertex on an edge
        i = rng.randrange(len(poly))
        A, B = poly[i], poly[(i + 1) % len(poly)]
        poly = poly[: i + 1] + [(F(A[0] + B[0], 2), F(A[1] + B[1], 2))] + poly[i + 1:]
    if rng.random() < 0.5:
        poly = poly[::-1]
    s = rng.randrange(len(poly))
    poly = poly[s:] + poly[:s]
    return [(F(x), F(y)) for x, y in poly], fam


def gen_segment(rng, poly):
    n = len(poly)
    xs = [p[0] for p in poly]
    ys = [p[1] for p in poly]
    lo = (int(math.floor(min(xs))) - 2, int(math.floor(min(ys))) - 2)
    hi = (int(math.ceil(max(xs))) + 2, int(math.ceil(max(ys))) + 2)

    def rnd():
        den = rng.choice([1, 1, 1, 2, 4])
        return (F(rng.randint(lo[0] * den, hi[0] * den), den), F(rng.randint(lo[1] * den, hi[1] * den), den))

    def lerp(A, B, t):
        return (A[0] + t * (B[0] - A[0]), A[1] + t * (B[1] - A[1]))

    r = rng.random()
    if r < 0.24:
        return rnd(), rnd(), "random"
    if r < 0.35:  # through two vertices, extended or not
        i, j = rng.sample(range(n), 2)
        t0, t1 = rng.choice([F(0), F(-1, 2), F(-1), F(1, 4)]), rng.choice([F(1), F(3, 2), F(2), F(3, 4)])
        return lerp(poly[i], poly[j], t0), lerp(poly[i], poly[j], t1), "two-vertices"
    if r < 0.48:  # along an edge
        i = rng.randrange(n)
        A, B = poly[i], poly[(i + 1) % n]
        t0, t1 = rng.choice([F(0), F(-1, 2), F(-1), F(1, 4), F(1, 2)]), rng.choice([F(1), F(3, 2), F(2), F(3, 4), F(3)])
        return lerp(A, B, t0), lerp(A, B, t1), "along-edge"
    if r < 0.59:  # through one vertex
        A = poly[rng.randrange(n)]
        Q = rnd()
        t0, t1 = rng.choice([F(0), F(-1), F(-1, 2)]), rng.choice([F(1), F(2), F(1, 2)])
        return lerp(A, Q, t0), lerp(A, Q, t1), "one-vertex"
    if r < 0.68:  # end point on the boundary
        i = rng.randrange(n)
        A = lerp(poly[i], poly[(i + 1) % n], rng.choice([F(1, 2), F(1, 4), F(0)]))
        return A, rnd(), "end-on-boundary"
    if r < 0.75:  # both end points on the boundary
        i, j = rng.randrange(n), rng.randrange(n)
        A = lerp(poly[i], poly[(i + 1) % n], rng.choice([F(1, 2), F(1, 4), F(0)]))
        B = lerp(poly[j], poly[(j + 1) % n], rng.choice([F(1, 2), F(3, 4), F(1)]))
        return A, B, "chord"
    if r < 0.85:  # chord through two boundary points, extended beyond both (crosses notches)
        i, j = rng.sample(range(n), 2)
        A = lerp(poly[i], poly[(i + 1) % n], rng.choice([F(1, 2), F(1, 4), F(3, 4)]))
        B = lerp(poly[j], poly[(j + 1) % n], rng.choice([F(1, 2), F(1, 4), F(3, 4)]))
        if A == B:
            return A, rnd(), "end-on-boundary"
        return lerp(A, B, F(-2)), lerp(A, B, F(3)), "long-chord"
    if r < 0.94:  # axis parallel through the bounding box (hits notches of the templates)
        if rng.random() < 0.5:
            y = F(rng.randint(2 * lo[1], 2 * hi[1]), 2)
            return (F(lo[0]), y), (F(hi[0]), y), "horizontal"
        x = F(rng.randint(2 * lo[0], 2 * hi[0]), 2)
        return (x, F(lo[1])), (x, F(hi[1])), "vertical"
    if r < 0.97:
        P = rnd()
        return P, P, "zero-length"
    return (F(hi[0] + 5), F(hi[1] + 1)), (F(hi[0] + 9), F(lo[1] - 3)), "far"


def box(a, b):
    x0, y0, z0 = a
    x1, y1, z1 = b
    return [
        [(x0, y0, z0), (x0, y1, z0), (x0, y1, z1), (x0, y0, z1)],
        [(x1, y0, z0), (x1, y1, z0), (x1, y1, z1), (x1, y0, z1)],
        [(x0, y0, z0), (x1, y0, z0), (x1, y0, z1), (x0, y0, z1)],
        [(x0, y1, z0), (x1, y1, z0), (x1, y1, z1), (x0, y1, z1)],
        [(x0, y0, z0), (x1, y0, z0), (x1, y1, z0), (x0, y1, z0)],
        [(x0, y0, z1), (x1, y0, z1), (x1, y1, z1), (x0, y1, z1)],
    ]


TET = [[(0, 0, 0), (4, 0, 0), (0, 4, 0)], [(0, 0, 0), (4, 0, 0), (0, 0, 4)], [(0, 0, 0), (0, 4, 0), (0, 0, 4)], [(4, 0, 0), (0, 4, 0), (0, 0, 4)]]
PRISM = [[(0, 0, 0), (4, 0, 0), (0, 4, 0)], [(0, 0, 3), (4, 0, 3), (0, 4, 3)], [(0, 0, 0), (4, 0, 0), (4, 0, 3), (0, 0, 3)],
         [(0, 0, 0), (0, 4, 0), (0, 4, 3), (0, 0, 3)], [(4, 0, 0), (0, 4, 0), (0, 4, 3), (4, 0, 3)]]
PYR = [[(0, 0, 0), (4, 0, 0), (4, 4, 0), (0, 4, 0)], [(0, 0, 0), (4, 0, 0), (2, 2, 4)], [(4, 0, 0), (4, 4, 0), (2, 2, 4)],
       [(4, 4, 0), (0, 4, 0), (2, 2, 4)], [(0, 4, 0), (0, 0, 0), (2, 2, 4)]]
OCT = [[(s * 3, 0, 0), (0, t * 3, 0), (0, 0, u * 3)] for s in (1, -1) for t in (1, -1) for u in (1, -1)]


def gen_polyhedron(rng):
    r = rng.random()
    if r < 0.4:
        a = tuple(rng.randint(-2, 0) for _ in range(3))
        b = tuple(a[i] + rng.randint(1, 4) for i in range(3))
        faces, fam = box(a, b), "box"
    else:
        fam = rng.choice(["tet", "prism", "pyr", "oct", "pbox"])
        faces = {"tet": TET, "prism": PRISM, "pyr": PYR, "oct": OCT, "pbox": box((0, 0, 0), (2, 2, 2))}[fam]
        if fam == "pbox" or rng.random() < 0.3:
            while True:
                M = [[rng.randint(-1, 2) for _ in range(3)] for _ in range(3)]
                if dot3(tuple(M[0]), cross3(tuple(M[1]), tuple(M[2]))) != 0:
                    break
            faces = [[tuple(sum(M[i][j] * v[j] for j in range(3)) for i in range(3)) for v in f] for f in faces]
    faces = [[tuple(F(x) for x in v) for v in f] for f in faces]
    faces = [f[::-1] if rng.random() < 0.5 else f for f in faces]
    rng.shuffle(faces)
    return faces, fam


def gen_polygon3d(rng, faces):
    verts = sorted({v for f in faces for v in f})
    poly2, _ = gen_polygon(rng, True)
    r = rng.random()
    scale = rng.choice([F(1), F(1, 2), F(1, 4), F(1, 2), F(1, 8)])
    if r < 0.45:   # axis-parallel plane
        ax = rng.randrange(3)
        U = [(0, 1, 0), (0, 0, 1), (1, 0, 0)][ax]
        V = [(0, 0, 1), (1, 0, 0), (0, 1, 0)][ax]
        kind = "axis"
    elif r < 0.96:
        while True:
            U = tuple(rng.randint(-2, 2) for _ in range(3))
            V = tuple(rng.randint(-2, 2) for _ in range(3))
            if any(cross3(U, V)):
                break
        kind = "oblique"
    else:  # in the plane of a face (documented unsupported)
        f = rng.choice(faces)
        U = sub3(f[1], f[0])
        V = sub3(f[2], f[0])
        kind = "in-face-plane"
    r = rng.random()
    if kind == "in-face-plane":
        O = f[0]
    elif r < 0.55:
        O = tuple(F(rng.randint(-4, 8), 2) for _ in range(3))
    elif r < 0.7:
        O = rng.choice(verts)
        kind += "+through-vertex"
    elif r < 0.85:
        f = rng.choice(faces)
        O = sc3(F(1, 2), add3(f[0], f[1]))
        kind += "+through-edge-mid"
    else:  # somewhere inside the polyhedron (small polygons end up fully inside)
        O = sc3(F(1, 4), add3(add3(rng.choice(verts), rng.choice(verts)), add3(rng.choice(verts), rng.choice(verts))))
        kind += "+centre"
    if rng.random() < 0.5:
        q = rng.choice(poly2)
        poly2 = [(p[0] - q[0], p[1] - q[1]) for p in poly2]
    poly = [add3(O, add3(sc3(scale * p[0], U), sc3(scale * p[1], V))) for p in poly2]
    return poly, kind, {"uv": [[frac(scale * p[0]), frac(scale * p[1])] for p in poly2],
                        "frame": [_s2(O), _s2(U), _s2(V)]}


def _s2(p):
    return [frac(x) for x in p]


LINES_STRATA = ["plain"] * 10 + ["no-segments", "triangle", "duplicate-segments", "shared-points", "scaled", "three-rows"]
P3D_STRATA = ["plain"] * 8 + ["as-array", "duplicate-polygons", "outside-bbox", "rotated-reversed"]


def gen_case(rng, tier):
    if rng.random() < 0.7:
        stratum = rng.choice(LINES_STRATA)
        poly, fam = gen_polygon(rng)
        if stratum == "triangle":  # smallest polygon
            while True:
                poly = [(F(rng.randint(-5, 5)), F(rng.randint(-5, 5))) for _ in range(3)]
                if cross(sub(poly[1], poly[0]), sub(poly[2], poly[0])) != 0:
                    fam = "triangle"
                    break
        k = 0 if stratum == "no-segments" else rng.randint(1, 5)
        segs, kinds = [], []
        for _ in range(k):
            a, b, kind = gen_segment(rng, poly)
            segs.append([_s2(a), _s2(b)])
            kinds.append(kind)
        if stratum == "duplicate-segments":  # the same segment again, once reversed
            j = rng.randrange(k)
            segs += [segs[j], segs[j][::-1]]
            kinds += [kinds[j], kinds[j]]
            k += 2
        scale = None
        if stratum == "scaled":  # exact dyadic scaling and an integer shift (extreme scale)
            sc, sh = F(2) ** rng.choice([-6, -3, 8, 12]), (rng.randint(-3, 3), rng.randint(-3, 3))
            tr = lambda q: (sc * (F(q[0]) + sh[0]), sc * (F(q[1]) + sh[1]))
            poly = [tr(q) for q in poly]
            segs = [[_s2(tr(_pts([e])[0])) for e in sg] for sg in segs]
            scale = frac(sc)
        ntag = rng.choice([0, 1, 1, 2])
        tags = [[rng.randint(0, 9) for _ in range(k)] for _ in range(ntag)]
        return {"kind": "lines", "fam": fam, "stratum": stratum, "poly": [_s2(p) for p in poly], "segs": segs, "seg_kinds": kinds,
                "tags": tags, "scale": scale}
    faces, fam = gen_polyhedron(rng)
    stratum = rng.choice(P3D_STRATA)
    polys, kinds, planes = [], [], []
    n = 1 if stratum == "as-array" else rng.choice([1, 1, 1, 2, 3])
    for _ in range(n):
        for _attempt in range(6):
            p, kind, plane = gen_polygon3d(rng, faces)
            # polygons in the plane of a face are unsupported input: keep only a few of them
            if "coplanar" not in flags3(faces, p) or rng.random() < 0.15:
                break
        if stratum == "rotated-reversed":  # other start vertex / other orientation of the same polygon
            r = rng.randrange(len(p))
            p, plane = p[r:] + p[:r], dict(plane, uv=plane["uv"][r:] + plane["uv"][:r])
            if rng.random() < 0.5:
                p, plane = p[::-1], dict(plane, uv=plane["uv"][::-1])
        polys.append([_s2(v) for v in p])
        kinds.append(kind)
        planes.append(plane)
    if stratum == "duplicate-polygons":
        polys.append(polys[0]); kinds.append(kinds[0]); planes.append(planes[0])
    if stratum == "outside-bbox":  # a polygon beyond the bounding box of the polyhedron, first in the list
        verts = [v for f in faces for v in f]
        far = max(v[0] for v in verts) + 3
        uv = [["0", "0"], ["1", "0"], ["0", "1"]]
        fr = [_s2((far, F(0), F(0))), _s2((F(1), F(0), F(0))), _s2((F(0), F(1), F(1)))]
        polys.insert(0, [_s2((far, F(0), F(0))), _s2((far + 1, F(0), F(0))), _s2((far, F(1), F(1)))])
        kinds.insert(0, "outside-bbox"); planes.insert(0, {"uv": uv, "frame": fr})
    return {"kind": "p3d", "fam": fam, "stratum": stratum, "faces": [[_s2(v) for v in f] for f in faces], "polygons": polys,
            "poly_kinds": kinds, "planes": planes}


# ============================================================================ decoding of cases


def _pts(lst):
    return [tuple(F(x) for x in p) for p in lst]


def _farr(points):
    return np.array([[float(x) for x in p] for p in points], dtype=float).T


# ============================================================================ real code


def _call_lines(case):
    from porepy.geometry.constrain_geometry import lines_by_polygon
    poly = _pts(case["poly"])
    segs = [_pts(s) for s in case["segs"]]
    k = len(segs)
    stratum = case.get("stratum", "plain")
    if stratum == "shared-points":  # every distinct point stored once, in permuted (descending) order
        uniq = sorted({p for s in segs for p in s}, reverse=True)
        pts = _farr(uniq)
        edges = np.array([[uniq.index(s[0]) for s in segs], [uniq.index(s[1]) for s in segs]], dtype=int).reshape((2, k))
    else:
        pts = _farr([p for s in segs for p in s]) if k else np.zeros((2, 0))
        edges = np.arange(2 * k).reshape((2, -1), order="F")
    if case["tags"]:
        edges = np.vstack([edges, np.array(case["tags"], dtype=int).reshape((len(case["tags"]), k))])
    ppts = _farr(poly)
    if stratum == "three-rows":  # callers hold 3 x n arrays; only the first two rows are used
        pts = np.vstack([pts, np.zeros((1, pts.shape[1]))])
        ppts = np.vstack([ppts, np.zeros((1, ppts.shape[1]))])
    return poly, segs, edges, lines_by_polygon(ppts, pts, edges)


def _params(segs, int_pts, edges_kept):
    """per returned piece: (edge index, a, b, off-line distance)"""
    out = []
    for i, ei in enumerate(edges_kept):
        P0, P1 = segs[int(ei)]
        D = (float(P1[0] - P0[0]), float(P1[1] - P0[1]))
        dd = D[0] ** 2 + D[1] ** 2
        ts, off = [], 0.0
        for j in (2 * i, 2 * i + 1):
            q = (int_pts[0, j] - float(P0[0]), int_pts[1, j] - float(P0[1]))
            if dd == 0:
                ts.append(0.0)
                off = max(off, math.hypot(*q))
            else:
                ts.append((q[0] * D[0] + q[1] * D[1]) / dd)
                off = max(off, abs(q[0] * D[1] - q[1] * D[0]) / math.sqrt(dd))
        out.append((int(ei), min(ts), max(ts), off))
    return out


def _merge_f(iv):
    iv = sorted(iv)
    m = []
    for a, b in iv:
        if m and abs(m[-1][1] - a) <= TOL:
            m[-1] = [m[-1][0], b]
        else:
            m.append([a, b])
    return m


def _impl_lines(case):
    try:
        poly, segs, edges, (int_pts, int_edges, kept) = _call_lines(case)
    except Exception as e:
        return err_kind(e)
    if int_pts.shape[1] != 2 * len(kept):
        return {"err": "malformed-output"}
    per = {}
    for ei, a, b, _ in _params(segs, int_pts, kept):
        per.setdefault(ei, []).append((a, b))
    uniq = sorted(per)
    tags = []
    for ei in uniq:
        col = [i for i, k in enumerate(kept) if int(k) == ei][0]
        tags.append([int(x) for x in int_edges[2:, col]])
    return {"pieces": [_merge_f(per.get(i, [])) for i in range(len(segs))], "kept": uniq, "tags": tags}


def _area_of(c):
    pl = [tuple(F(float(x)) for x in c[:, j]) for j in range(c.shape[1])]
    return norm3f(vec_area(pl))


def _call_p3d(faces, polys, as_array=False):
    from porepy.geometry.constrain_geometry import polygons_by_polyhedron
    if as_array and len(polys) == 1:  # alternative entry: a single polygon as an array instead of a list
        return polygons_by_polyhedron(_farr(polys[0]), [_farr(f) for f in faces])
    return polygons_by_polyhedron([_farr(p) for p in polys], [_farr(f) for f in faces])


def _impl_p3d(case):
    faces = [_pts(f) for f in case["faces"]]
    polys = [_pts(p) for p in case["polygons"]]
    try:
        cp, inds = _call_p3d(faces, polys, case.get("stratum") == "as-array")
    except Exception as e:
        return err_kind(e)
    areas = [0.0] * len(polys)
    for c, i in zip(cp, inds):
        areas[int(i)] += _area_of(c)
    return {"areas": areas}


def impl_run(case):
    return _impl_lines(case) if case["kind"] == "lines" else _impl_p3d(case)


# ============================================================================ Lean model


def model_ops(case):
    if case["kind"] == "lines":
        ops = []
        conv = is_convex(_pts(case["poly"]))
        for s in case["segs"]:
            ops.append({"op": "clip", "poly": case["poly"], "seg": s})
            if conv:
                ops.append({"op": "clip_convex", "poly": case["poly"], "seg": s})
        return ops
    hs = [[frac(n[0]), frac(n[1]), frac(n[2]), frac(c)] for n, c in halfspaces([_pts(f) for f in case["faces"]])]
    ops = []
    for i, p in enumerate(case["polygons"]):
        op = {"op": "shclip", "hs": hs, "poly": p}
        if case.get("planes"):  # plane coordinates: the driver evaluates the hypotheses of the completeness theorems
            op.update(uv=case["planes"][i]["uv"], frame=case["planes"][i]["frame"])
        ops.append(op)
    return ops


def model_decode(outs, case):
    if case["kind"] == "lines":
        conv = is_convex(_pts(case["poly"]))
        pieces, k = [], 0
        for _ in case["segs"]:
            o = outs[k]
            k += 1
            merged = o["merged"]
            if o["raw_std"] != o["raw"]:
                return {"err": f"model-internal: even-odd rule along the segment selects {o['raw']}, the horizontal-ray rule {o['raw_std']}"}
            if conv:
                oc = outs[k]
                k += 1
                want = [] if oc["open"] is None else [oc["open"]]
                if oc["convex"] is not True:
                    return {"err": "model-internal: polygon convex for the harness but convexCCWb fails in the driver"}
                if want != merged:
                    return {"err": f"model-internal: half-plane model {want} differs from crossing model {merged}"}
            pieces.append(merged)
        kept = [i for i, p in enumerate(pieces) if p]
        return {"pieces": pieces, "kept": kept, "tags": [[int(row[i]) for row in case["tags"]] for i in kept]}
    areas = []
    for o in outs:
        a = [F(x) for x in o["area2"]]
        if "convex_ccw" in o:  # hypotheses of sh_clip_complete_decidable, evaluated by the driver
            a2 = [F(x) for x in o["area2_2d"]]
            if not (o["convex_ccw"] and o["embed_ok"] and o["planar_ok"]) or dot3(a, a) != dot3(a2, a2):
                return {"err": f"model-internal: convex_ccw={o['convex_ccw']} embed_ok={o['embed_ok']} planar_ok={o['planar_ok']} "
                               f"area2 {o['area2']} vs 2d {o['area2_2d']}"}
        areas.append(norm3f(a) / 2)
    return {"areas": areas}


def compare(impl, model, case):
    if case["kind"] == "p3d":
        faces = [_pts(f) for f in case["faces"]]
        if any("coplanar" in flags3(faces, _pts(p)) for p in case["polygons"]):
            return None  # documented unsupported input: soundness is checked by the oracle only
    return deep_compare(impl, model, tol=TOL)


# ============================================================================ oracle (independent of the Lean model)


def _oracle_lines(case):
    try:
        poly, segs, edges, (int_pts, int_edges, kept) = _call_lines(case)
    except Exception as e:
        return {"what": f"lines_by_polygon raised {type(e).__name__}: {e}", "key": f"lines:exception:{type(e).__name__}"}
    k = len(kept)
    if int_pts.shape != (2, 2 * k) or int_edges.shape[1] != k or int_edges.shape[0] != edges.shape[0]:
        return {"what": f"inconsistent shapes pts {int_pts.shape} edges {int_edges.shape} kept {kept.shape}", "key": "lines:structure"}
    if k and not (int_edges[:2].ravel(order="F") == np.arange(2 * k)).all():
        return {"what": "returned edges do not address consecutive point pairs", "key": "lines:structure"}
    if any(int(kept[i]) > int(kept[i + 1]) for i in range(k - 1)) or any(not (0 <= int(e) < len(segs)) for e in kept):
        return {"what": f"edges_kept not ascending / out of range: {kept.tolist()}", "key": "lines:structure"}
    for i in range(k):
        if [int(x) for x in int_edges[2:, i]] != [int(x) for x in edges[2:, int(kept[i])]]:
            return {"what": f"piece {i} of edge {int(kept[i])} carries tags {int_edges[2:, i].tolist()} instead of {edges[2:, int(kept[i])].tolist()}",
                    "key": "lines:tags"}
    per = {}
    for i, (ei, a, b, off) in enumerate(_params(segs, int_pts, kept)):
        if off > 1e-9 or a < -1e-9 or b > 1 + 1e-9:
            return {"what": f"piece {i} is not part of input segment {ei}: parameters [{a},{b}], distance from its line {off}", "key": "lines:not-on-segment"}
        if not b - a > 0:
            return {"what": f"piece {i} of edge {ei} has zero length", "key": "lines:zero-length-piece"}
        P0, P1 = segs[ei]
        for lam in (0, 0.25, 0.5, 0.75, 1):   # end points, midpoint and quarter points, exactly as returned
            x = int_pts[0, 2 * i] + lam * (int_pts[0, 2 * i + 1] - int_pts[0, 2 * i])
            y = int_pts[1, 2 * i] + lam * (int_pts[1, 2 * i + 1] - int_pts[1, 2 * i])
            Q = (F(float(x)), F(float(y)))
            if not (inside_strict(poly, Q) or dist_to_boundary(poly, Q) <= 1e-9):
                return {"what": f"point ({x},{y}) of returned piece {i} (edge {ei}) lies outside the polygon", "key": "lines:outside"}
        t = (a + b) / 2
        M = (F(float(P0[0])) + F(t) * (P1[0] - P0[0]), F(float(P0[1])) + F(t) * (P1[1] - P0[1]))
        if not inside_strict(poly, M) and dist_to_boundary(poly, M) <= 1e-9 and b - a > 1e-6:
            return {"what": f"piece {i} of edge {ei} lies in the polygon boundary (excluded by the convention)", "key": "lines:boundary-piece"}
        per.setdefault(ei, []).append((a, b))
    for ei, P in enumerate(segs):
        got = sorted(per.get(ei, []))
        for (a0, b0), (a1, b1) in zip(got[:-1], got[1:]):
            if a1 < b0 - 1e-9:
                return {"what": f"pieces of edge {ei} overlap: {got}", "key": "lines:overlap"}
        want = clip_exact(poly, P[0], P[1])
        lw = float(sum(b - a for a, b in want))
        lg = sum(b - a for a, b in got)
        if abs(lw - lg) > 1e-9:
            L = math.sqrt(float(dot(sub(P[1], P[0]), sub(P[1], P[0]))))
            return {"what": f"edge {ei} {[str(x) for x in P[0]]}-{[str(x) for x in P[1]]}: returned length {lg * L} but segment ∩ polygon has length {lw * L} "
                            f"(parameters {got} vs {[(str(a), str(b)) for a, b in want]})",
                    "key": "lines:length-missing" if lg < lw else "lines:length-excess"}
    # repeated operation: clipping the returned pieces again returns them unchanged
    if k:
        from porepy.geometry.constrain_geometry import lines_by_polygon
        e2 = np.arange(2 * k).reshape((2, -1), order="F")
        p2, _, k2 = lines_by_polygon(_farr(poly), int_pts, e2)
        segs2 = [[(F(float(int_pts[0, 2 * i])), F(float(int_pts[1, 2 * i]))), (F(float(int_pts[0, 2 * i + 1])), F(float(int_pts[1, 2 * i + 1])))]
                 for i in range(k)]
        again = {}
        for ei, a, b, _ in _params(segs2, p2, k2):
            again.setdefault(ei, []).append((a, b))
        for i in range(k):  # as point sets (a piece through a polygon vertex may come back in two parts)
            m = _merge_f(again.get(i, []))
            if len(m) != 1 or abs(m[0][0]) > 1e-7 or abs(m[0][1] - 1) > 1e-7:
                return {"what": f"clipping returned piece {i} again does not return it unchanged: parameters {m}", "key": "lines:not-idempotent"}
    return None


def _check_p3d_single(faces, hs, poly, returned):
    """returned: list of 3 x k float arrays for this one input polygon -> None | (kind, what)"""
    n = vec_area(poly)
    nn = norm3f(n)
    got = 0.0
    for c in returned:
        if c.shape[0] != 3 or c.shape[1] < 3:
            return "degenerate", f"returned polygon with shape {c.shape}"
        a = _area_of(c)
        if a <= 1e-12:
            return "degenerate", "returned polygon of zero area"
        got += a
        for j in range(c.shape[1]):
            v = tuple(float(x) for x in c[:, j])
            for hn, hc in hs:
                if (sum(float(hn[i]) * v[i] for i in range(3)) - float(hc)) / norm3f(hn) > 1e-8:
                    return "outside", f"vertex {v} of a returned polygon lies outside the polyhedron"
            if abs(sum(float(n[i]) * (v[i] - float(poly[0][i])) for i in range(3))) / nn > 1e-8:
                return "outside", f"vertex {v} of a returned polygon is not in the plane of the input polygon"
            for i in range(len(poly)):
                A, B = poly[i], poly[(i + 1) % len(poly)]
                e = sub3(B, A)
                w = tuple(v[i2] - float(A[i2]) for i2 in range(3))
                s = sum(float(x) * y for x, y in zip(n, cross3(tuple(float(x) for x in e), w)))
                if s / (nn * norm3f(e)) < -1e-8:
                    return "outside", f"vertex {v} of a returned polygon lies outside the input polygon"
    ex = clip_poly3(poly, hs)
    want = norm3f(vec_area(ex)) if ex else 0.0
    if abs(got - want) > 1e-9 * max(1.0, want):
        return ("area-missing" if got < want else "area-excess"), f"returned area {got} but polygon ∩ polyhedron has area {want}"
    return None


def _oracle_p3d(case):
    faces = [_pts(f) for f in case["faces"]]
    polys = [_pts(p) for p in case["polygons"]]
    hs = halfspaces(faces)

    def single(i):
        p = polys[i]
        fl = flags3(faces, p)
        cls = class3(fl)
        try:
            cp, inds = _call_p3d(faces, [p], case.get("stratum") == "as-array")
        except Exception as e:
            if cls == "coplanar":
                return None
            tb = traceback.extract_tb(e.__traceback__)[-1]
            return {"what": f"polygons_by_polyhedron raised {type(e).__name__} in {tb.name} for polygon {[[str(x) for x in v] for v in p]} "
                            f"(position: {'+'.join(fl) or 'general'})", "key": f"p3d:exception-{type(e).__name__}:{cls}"}
        if any(int(i2) != 0 for i2 in inds) or len(inds) != len(cp):
            return {"what": f"index array {inds} for a single input polygon", "key": f"p3d:index:{cls}"}
        r = _check_p3d_single(faces, hs, p, cp)
        if r is None or (cls == "coplanar" and r[0] != "outside"):
            return None
        return {"what": f"{r[1]}; polygon {[[str(x) for x in v] for v in p]} (position: {'+'.join(fl) or 'general'})", "key": f"p3d:{r[0]}:{cls}"}

    firsts = [single(i) for i in range(len(polys))]
    bad = [f for f in firsts if f is not None]
    if bad:
        return bad[0]
    if len(polys) > 1:
        cop = any("coplanar" in flags3(faces, p) for p in polys)
        try:
            cp, inds = _call_p3d(faces, polys)
        except Exception as e:
            if cop:
                return None
            return {"what": f"call with {len(polys)} polygons raised {type(e).__name__} although every polygon alone is fine", "key": "p3d:multi-inconsistent"}
        if len(inds) != len(cp) or any(int(a) > int(b) for a, b in zip(inds[:-1], inds[1:])) or any(not 0 <= int(i) < len(polys) for i in inds):
            return {"what": f"index array {inds} not ascending / out of range", "key": "p3d:index:multi"}
        for i, p in enumerate(polys):
            r = _check_p3d_single(faces, hs, p, [c for c, j in zip(cp, inds) if int(j) == i])
            if r is not None and not (cop and r[0] != "outside"):
                return {"what": f"polygon {i} of a call with {len(polys)} polygons: {r[1]} (alone it is clipped correctly)", "key": "p3d:multi-inconsistent"}
    return None


def oracle(case):
    return _oracle_lines(case) if case["kind"] == "lines" else _oracle_p3d(case)


# ============================================================================ bookkeeping


def nontrivial(case):
    if case["kind"] == "lines":
        poly = _pts(case["poly"])
        for s in case["segs"]:
            P = _pts(s)
            w = clip_exact(poly, P[0], P[1])
            if w and w != [(F(0), F(1))]:
                return True
        return False
    faces = [_pts(f) for f in case["faces"]]
    hs = halfspaces(faces)
    for p in case["polygons"]:
        P = _pts(p)
        ex = clip_poly3(P, hs)
        a = norm3f(vec_area(ex)) if ex else 0.0
        if 1e-12 < a < norm3f(vec_area(P)) - 1e-12:
            return True
    return False


def shrink_candidates(case):
    if case["kind"] == "lines":
        k = len(case["segs"])
        if k > 1:
            for i in range(k):
                yield dict(case, segs=case["segs"][:i] + case["segs"][i + 1:], seg_kinds=case["seg_kinds"][:i] + case["seg_kinds"][i + 1:],
                           tags=[row[:i] + row[i + 1:] for row in case["tags"]])
        if case["tags"]:
            yield dict(case, tags=[])
    else:
        k = len(case["polygons"])
        if k > 1:
            for i in range(k):
                yield dict(case, polygons=case["polygons"][:i] + case["polygons"][i + 1:], poly_kinds=case["poly_kinds"][:i] + case["poly_kinds"][i + 1:])


def stats(cases, impl_outs):
    from collections import Counter
    c = Counter()
    for case, out in zip(cases, impl_outs):
        c["stratum:" + case["kind"] + ":" + case.get("stratum", "corpus")] += 1
        if case["kind"] == "lines":
            c["lines_cases"] += 1
            c["polygon:" + case.get("fam", "corpus")] += 1
            poly = _pts(case["poly"])
            c["polygon_convex" if is_convex(poly) else "polygon_nonconvex"] += 1
            for s, kind in zip(case["segs"], case.get("seg_kinds", ["corpus"] * len(case["segs"]))):
                P = _pts(s)
                n = len(clip_exact(poly, P[0], P[1]))
                c[f"segment:{kind}"] += 1
                c[f"pieces:{min(n, 3)}{'+' if n >= 3 else ''}"] += 1
        else:
            c["p3d_cases"] += 1
            c["polyhedron:" + case.get("fam", "corpus")] += 1
            faces = [_pts(f) for f in case["faces"]]
            for p in case["polygons"]:
                c["position:" + class3(flags3(faces, _pts(p)))] += 1
            if isinstance(out, dict) and "err" in out:
                c["p3d_exceptions"] += 1
    return dict(sorted(c.items()))
