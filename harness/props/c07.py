"""C07 Schur complement reduction reproduces the full solution (several splits on ONE EquationSystem).

Case = a small mixed-dimensional grid + cell variables + equations given by coefficient data (so that the
Jacobian and residual are known in closed form, as exact rationals) + a history of steps on ONE
`EquationSystem` instance:

  {"op":"state","x":[q,…]}                              set the iterate (global dof order)
  {"op":"split","form":"list","eqs":[[k,style],…],"vars":[[name,null|[grid,…],style],…],"inverter":…}
  {"op":"split","form":"dict","eqs":[[k,[grid,…],style],…],"vars":…,"inverter":…}
  {"op":"expand","x":[q,…]} | {"op":"expand","solve":true}

grid key  = position in case["grids"]; keys >= len(grids) are grids that are NOT in the md-grid.
equation k = the string "e<k>" (k >= len(eqs): unknown name); variable name n = "v<n>".
style: eqs "str" | "op"; vars "str" (name) | "md" (md-variable, restricted if grids are given) | "atom" (one Variable per grid).
inverter: "default" | "dense" (np.linalg.inv) | "exact" (Gauss-Jordan over Fractions, rounded).
"""
import itertools
import random
import warnings
from fractions import Fraction

import numpy as np

from harness.common import deep_compare, err_kind, frac

PID = "C07"
THEOREMS = [
    "PorepyVerif.C07.schur_expand_solves",
    "PorepyVerif.C07.schur_reduced_of_full",
    "PorepyVerif.C07.schur_expand_solves_inv",
    "PorepyVerif.C07.schur_increment_eq_full_solve",
    "PorepyVerif.C07.schur_complement_isUnit",
    "PorepyVerif.C07.schur_expand_solves_full",
    "PorepyVerif.C07.permuted_inverse",
    "PorepyVerif.C07.block_diagonal_inverse",
    "PorepyVerif.C07.row_split_is_partition",
    "PorepyVerif.C07.col_split_is_partition",
    "PorepyVerif.C07.split_gives_equiv",
    "PorepyVerif.C07.expand_places",
    "PorepyVerif.C07.eqIndices_tile",
]
LEAN_MODULES = ["PorepyVerif.C07.Props"]
AUDIT = "PorepyVerif/C07/Audit.lean"
DRIVER = "PorepyVerif/C07/Driver.lean"
N = {"quick": 70, "thorough": 1500}
RULE = ("md-grids with 1-3 subdomains (dim 0-2, 1-3 cells, instantiated in random order) and 0-2 mortar grids; 2-4 cell variables on "
        "random sub-lists of the subdomains (+0-2 on interfaces); per variable 1-2 equations (its grids split in groups) with a dominant "
        "cell-wise diagonal term, cell-wise linear and bilinear couplings to co-located variables (local: the secondary block is a permuted "
        "block-diagonal matrix), non-local sparse-matrix couplings to any variable and a constant vector; equations stored in shuffled order. "
        "History on ONE EquationSystem: 1-3 iterates (dyadic values, many zeros) and 4-9 Schur splits: natural splits by equation list or by "
        "grid-restricted dict (all / some / no grids of an equation), crossed splits (another co-located variable as primary), non-square "
        "splits, malformed requests (unknown equation, grid outside the equation's domain, foreign grid, empty / complete equation or "
        "variable lists, unknown variable name, duplicated variable), each with the default inverter, np.linalg.inv or an exact rational "
        "inverter; after most splits the reduced system is solved and expanded, plus expansions of arbitrary vectors, of wrong-size vectors "
        "and before any assembly. non-trivial = at least two admissible splits with different secondary blocks on the instance, one of them "
        "with the default inverter; distinct = distinct cases")
TRUSTED = [
    "modelled, not verified: evaluation of the AD operators (the Jacobian/residual given to the model are computed in closed form by the "
    "harness from the case's coefficients and compared exactly with EquationSystem.assemble() in every state), scipy sparse slicing / vstack / "
    "products, networkx connected components and the numba block inverter inside the default inverter (property C37), np.linalg.inv",
    "the exact Gauss-Jordan elimination of the Lean driver is not verified but certified: every inverse and every solve is re-checked by an "
    "exact matrix product before it is answered, and the driver reports J*X = r exactly for every expanded solution",
    "md-grid listing order and grid-wise dof clustering are parameters of the model (properties C24/C05); the harness computes them "
    "independently of porepy and the comparison of primary/secondary column sets checks the code against them",
]
EXPLANATION = ("FULL (algebra) + CORE (bookkeeping, inverter): Mathlib-Matrix theorems over any field: the expanded Schur solution solves the "
               "full system for ANY row split / column split given as bijections (schur_expand_solves_full), conversely every full solution "
               "solves the reduced system, with an invertible Jacobian the Schur complement is invertible and the increments coincide; inverse of a "
               "permuted block-diagonal matrix assembled from block inverses is the inverse (default inverter). Executable model of the "
               "row/column bookkeeping transcribed from the code: primary rows + excluded primary rows + secondary equations are a permutation "
               "of all rows for EVERY layout and request, primary/secondary columns a permutation of all dofs for every duplicate-free variable "
               "list, such a split yields the bijections the algebra needs (split_gives_equiv), expand places x_p and x_s at those indices. "
               "Correspondence compares S, rhs, b_s, A_sp, column sets, assembled_equation_indices and expanded vectors of the real code with the "
               "model (exact where only slicing is involved, 1e-9 otherwise).")
ASSUMPTIONS = [
    "all coefficients and iterates are dyadic rationals of small magnitude, so Jacobian and residual are exact in binary64",
    "values that pass through an inverse are compared with tolerance 1e-9 and only when cond(A_ss), cond(S), cond(J) < 1e6",
]

TOL = 1e-9
COND_MAX = 1e6


# ----------------------------------------------------------------------------- independent layout
def _cells(g):
    if g["kind"] == "sub":
        return 1 if g["dim"] == 0 else g["n"]
    return (1 if g["dim"] == 0 else g["n"]) * g["sides"]


def md_order(case):
    """md-grid listing order computed independently of porepy: dimension descending, then instantiation order."""
    gs = case["grids"]
    subs = sorted((k for k, g in enumerate(gs) if g["kind"] == "sub"), key=lambda k: (-gs[k]["dim"], gs[k]["rank"]))
    intfs = sorted((k for k, g in enumerate(gs) if g["kind"] == "intf"), key=lambda k: (-gs[k]["dim"], gs[k]["rank"]))
    return subs + intfs


class Layout:
    """dof order (grid-wise clustering, creation order inside a grid), equation row blocks; no porepy involved."""

    def __init__(self, case):
        gs = case["grids"]
        self.order = md_order(case)
        pos = {g: i for i, g in enumerate(self.order)}
        self.cells = [_cells(g) for g in gs]
        self.vars = []  # (name, grid, size) in dof order
        for g in self.order:
            for v in case["vars"]:
                if g in v["grids"]:
                    self.vars.append((v["name"], g, self.cells[g]))
        self.voff = {}
        off = 0
        for (n, g, s) in self.vars:
            self.voff[(n, g)] = off
            off += s
        self.ndof = off
        self.eqs = []  # per equation: [(grid, rows)] in md order
        self.eoff = []
        off = 0
        self.roff = {}
        for k, e in enumerate(case["eqs"]):
            blocks = [(g, self.cells[g]) for g in sorted(e["grids"], key=lambda g: pos[g])]
            self.eqs.append(blocks)
            self.eoff.append(off)
            for g, s in blocks:
                self.roff[(k, g)] = off
                off += s
        self.nrows = off
        self.var_grids = {v["name"]: list(v["grids"]) for v in case["vars"]}


def closed_form(case, lay, x):
    """Jacobian and right-hand side (= -residual) of the full system at iterate x, as Fractions."""
    x = [Fraction(v) for v in x]
    J = [[Fraction(0)] * lay.ndof for _ in range(lay.nrows)]
    r = [Fraction(0)] * lay.nrows
    for k, e in enumerate(case["eqs"]):
        for g, s in lay.eqs[k]:
            r0 = lay.roff[(k, g)]
            for c in range(s):
                row = r0 + c
                res = Fraction(e["const"][row - lay.eoff[k]])
                for v, coef in [[e["diag"], e["dcoef"]]] + e["lin"]:
                    j = lay.voff[(v, g)] + c
                    J[row][j] += Fraction(coef)
                    res += Fraction(coef) * x[j]
                for v1, v2, coef in e["quad"]:
                    j1, j2 = lay.voff[(v1, g)] + c, lay.voff[(v2, g)] + c
                    J[row][j1] += Fraction(coef) * x[j2]
                    J[row][j2] += Fraction(coef) * x[j1]
                    res += Fraction(coef) * x[j1] * x[j2]
                r[row] = res
        for v, g, M in e["nonlocal"]:
            for i, mrow in enumerate(M):
                row = lay.eoff[k] + i
                for c, m in enumerate(mrow):
                    j = lay.voff[(v, g)] + c
                    J[row][j] += Fraction(m)
                    r[row] += Fraction(m) * x[j]
    return J, [-v for v in r]


# ----------------------------------------------------------------------------- the real objects
def _mk_grid(dim, n):
    import porepy as pp
    if dim == 0:
        g = pp.PointGrid(np.zeros((3, 1)))
    else:
        g = pp.CartGrid(np.array([n] + [1] * (dim - 1)))
    g.compute_geometry()
    return g


def _mk_mortar(dim, n, sides):
    import porepy as pp
    from porepy.grids.mortar_grid import MortarSides
    sg = {MortarSides.LEFT_SIDE: _mk_grid(dim, n)}
    if sides == 2:
        sg[MortarSides.RIGHT_SIDE] = _mk_grid(dim, n)
    return pp.MortarGrid(dim, sg, codim=1)


def _exact_inverse(A):
    import scipy.sparse as sps
    M = [[Fraction(float(v)) for v in row] for row in A.toarray()]
    inv = _frac_inverse(M)
    if inv is None:
        raise np.linalg.LinAlgError("singular")
    return sps.csr_matrix(np.array([[float(v) for v in row] for row in inv]))


def _frac_inverse(M):
    n = len(M)
    A = [list(row) + [Fraction(int(i == j)) for j in range(n)] for i, row in enumerate(M)]
    for c in range(n):
        p = next((i for i in range(c, n) if A[i][c] != 0), None)
        if p is None:
            return None
        A[c], A[p] = A[p], A[c]
        piv = A[c][c]
        A[c] = [v / piv for v in A[c]]
        for i in range(n):
            if i != c and A[i][c] != 0:
                f = A[i][c]
                A[i] = [a - f * b for a, b in zip(A[i], A[c])]
    return [row[n:] for row in A]


class World:
    def __init__(self, case):
        import porepy as pp
        import scipy.sparse as sps
        self.case = case
        self.pp = pp
        gs = case["grids"]
        self.objs = [None] * len(gs)
        for k in sorted(range(len(gs)), key=lambda k: gs[k]["rank"]):
            g = gs[k]
            self.objs[k] = _mk_grid(g["dim"], g["n"]) if g["kind"] == "sub" else _mk_mortar(g["dim"], g["n"], g["sides"])
        self.mdg = pp.MixedDimensionalGrid()
        self.mdg.add_subdomains([self.objs[k] for k, g in enumerate(gs) if g["kind"] == "sub"])
        for k, g in enumerate(gs):
            if g["kind"] == "intf":
                a, b = g["pair"]
                self.mdg.add_interface(self.objs[k], (self.objs[a], self.objs[b]), sps.identity(1))
        self.foreign = {}
        self.es = es = pp.ad.EquationSystem(self.mdg)
        order = md_order(case)
        pos = {g: i for i, g in enumerate(order)}
        self.atom = {}
        for v in case["vars"]:
            grids = sorted(v["grids"], key=lambda g: pos[g])
            objs = [self.objs[g] for g in grids]
            if gs[grids[0]]["kind"] == "sub":
                md = es.create_variables(f"v{v['name']}", {"cells": 1}, subdomains=objs)
            else:
                md = es.create_variables(f"v{v['name']}", {"cells": 1}, interfaces=objs)
            for sv in md.sub_vars:
                self.atom[(v["name"], next(g for g in grids if self.objs[g] is sv.domain))] = sv
        self.ops = []
        for k, e in enumerate(case["eqs"]):
            grids = sorted(e["grids"], key=lambda g: pos[g])
            objs = [self.objs[g] for g in grids]
            nrows = sum(_cells(gs[g]) for g in grids)
            mdv = lambda n: es.md_variable(f"v{n}", objs)
            op = pp.ad.Scalar(float(Fraction(e["dcoef"]))) * mdv(e["diag"])
            for v, coef in e["lin"]:
                op = op + pp.ad.Scalar(float(Fraction(coef))) * mdv(v)
            for v1, v2, coef in e["quad"]:
                op = op + pp.ad.Scalar(float(Fraction(coef))) * (mdv(v1) * mdv(v2))
            for v, g, M in e["nonlocal"]:
                Mf = sps.csr_matrix(np.array([[float(Fraction(m)) for m in row] for row in M]).reshape(nrows, _cells(gs[g])))
                op = op + pp.ad.SparseArray(Mf) @ self.atom[(v, g)]
            op = op + pp.ad.DenseArray(np.array([float(Fraction(c)) for c in e["const"]]))
            op.set_name(f"e{k}")
            es.set_equation(op, list(reversed(objs)), {"cells": 1})
            self.ops.append(op)

    def grid(self, key):
        if 0 <= key < len(self.objs):
            return self.objs[key]
        if key not in self.foreign:
            self.foreign[key] = _mk_grid(1, 2)
        return self.foreign[key]

    def eq_arg(self, step):
        def ident(k, style):
            return self.ops[k] if style == "op" and k < len(self.ops) else f"e{k}"
        if step["form"] == "list":
            return [ident(k, st) for k, st in step["eqs"]]
        return {ident(k, st): [self.grid(g) for g in grids] for k, grids, st in step["eqs"]}

    def var_arg(self, step):
        out = []
        for name, grids, style in step["vars"]:
            if style == "str" or (name, None) == (name, grids) and style != "md":
                out.append(f"v{name}")
            elif style == "md":
                out.append(self.es.md_variable(f"v{name}", None if grids is None else [self.grid(g) for g in grids]))
            else:
                out += [self.atom[(name, g)] for g in grids]
        return out

    def inverter(self, kind):
        import scipy.sparse as sps
        if kind == "default":
            return None
        if kind == "dense":
            return lambda A: sps.csr_matrix(np.linalg.inv(A.toarray()))
        return _exact_inverse

    def set_state(self, x):
        self.es.set_variable_values(np.array([float(Fraction(v)) for v in x]), iterate_index=0)

    def full(self):
        J, r = self.es.assemble()
        return J.toarray(), r

    def stored_cols(self):
        """primary / secondary column indices read off the stored prolongation matrices."""
        out = []
        for P in self.es._Schur_complement[3:5]:
            P = P.tocoo()
            trip = sorted(zip(P.col.tolist(), P.row.tolist(), P.data.tolist()))
            if [t[0] for t in trip] != list(range(P.shape[1])) or any(t[2] != 1.0 for t in trip):
                return None
            out.append([int(t[1]) for t in trip])
        return out


def _cond(M):
    M = np.asarray(M, dtype=float)
    if M.shape[0] != M.shape[1] or M.shape[0] == 0 or not np.all(np.isfinite(M)):
        return float("inf")
    with warnings.catch_warnings():
        warnings.simplefilter("ignore")
        return float(np.linalg.cond(M))


CAUGHT = (ValueError, KeyError, AssertionError, IndexError, TypeError, np.linalg.LinAlgError, ZeroDivisionError)


def _run_steps(case):
    """The history on the real code; canonical answer per step."""
    w = World(case)
    es = w.es
    out = []
    last = None  # (S, rhs) of the last successful assembly
    for step in case["steps"]:
        kind = step["op"]
        if kind == "state":
            w.set_state(step["x"])
            J, r = w.full()
            out.append({"J": [[frac(v) for v in row] for row in J], "r": [frac(v) for v in r], "_cond": _cond(J)})
        elif kind == "split":
            try:
                with warnings.catch_warnings():
                    warnings.simplefilter("ignore")
                    S, rhs = es.assemble_schur_complement_system(w.eq_arg(step), w.var_arg(step), inverter=w.inverter(step["inverter"]))
            except CAUGHT as e:
                out.append(err_kind(e))
                continue
            S = S.toarray() if hasattr(S, "toarray") else np.asarray(S)
            inv, bs, Asp = es._Schur_complement[:3]
            cols = w.stored_cols()
            Jf, _ = w.full()
            # assemble() inside overwrote the public attribute; read it from the Schur call by re-assembling
            # is not possible without side effects, so it was captured right after the call (see below)
            last = (S, np.asarray(rhs))
            ans = {"S": [[float(v) for v in row] for row in S], "rhs": [float(v) for v in rhs],
                   "bs": [frac(v) for v in bs], "Asp": [[frac(v) for v in row] for row in Asp.toarray()],
                   "pcols": cols[0] if cols else "not-a-selection", "scols": cols[1] if cols else "not-a-selection",
                   "eqidx": step.get("_eqidx"),
                   "_cond": max(_cond(S) if S.shape[0] == S.shape[1] else 1.0, _cond(np.linalg.pinv(inv.toarray())) if inv.shape[0] else 1.0, _cond(Jf))}
            out.append(ans)
        else:
            try:
                if step.get("solve"):
                    if last is None:
                        x = np.zeros(0)
                    else:
                        S, rhs = last
                        if S.shape[0] != S.shape[1]:
                            out.append({"skip": "nonsquare S"})
                            continue
                        x = np.linalg.solve(S, rhs)
                else:
                    x = np.array([float(Fraction(v)) for v in step["x"]])
                with warnings.catch_warnings():
                    warnings.simplefilter("ignore")
                    X = es.expand_schur_complement_solution(x)
                out.append({"X": [float(v) for v in X]})
            except CAUGHT as e:
                out.append(err_kind(e))
    return out
