"""C07 Schur complement reduction reproduces the full solution (several splits on ONE EquationSystem).

Case = a small mixed-dimensional grid + cell variables + equations given by coefficient data (so that the
Jacobian and residual are known in closed form, as exact rationals) + a history of steps on ONE
`EquationSystem` instance:

  {"op":"state","x":[q,…]}                              set the iterate (global dof order)
  {"op":"split","form":"list","eqs":[[k,style],…],"vars":[[name,null|[grid,…],style],…],"inverter":…}
  {"op":"split","form":"dict","eqs":[[k,[grid,…],style],…],"vars":…,"inverter":…}
  {"op":"expand","x":[q,…]} | {"op":"expand","solve":true}

grid key  = position in case["grids"]; keys >= len(grids) are grids that are NOT in the md-grid.
equation k = the string "e<k>" (k >= len(eqs): unknown name); variable name n = "v<n>".
style: eqs "str" | "op"; vars "str" (name) | "md" (md-variable, restricted if grids are given) | "atom" (one Variable per grid).
inverter: "default" | "dense" (np.linalg.inv) | "exact" (Gauss-Jordan over Fractions, rounded).
"""
import atexit
import itertools
import json
import os
import random
import select
import subprocess
import sys
import traceback
import warnings
from fractions import Fraction

import numpy as np

from harness.common import deep_compare, err_kind, frac

PID = "C07"
THEOREMS = [
    "PorepyVerif.C07.schur_expand_solves",
    "PorepyVerif.C07.schur_reduced_of_full",
    "PorepyVerif.C07.schur_expand_solves_full",
    "PorepyVerif.C07.schur_expand_solves_inv",
    "PorepyVerif.C07.schur_complement_isUnit",
    "PorepyVerif.C07.schur_increment_eq_full_solve",
    "PorepyVerif.C07.schur_reduced_solution_unique",
    "PorepyVerif.C07.permuted_inverse",
    "PorepyVerif.C07.block_diagonal_inverse",
    "PorepyVerif.C07.default_inverter_correct",
    "PorepyVerif.C07.row_split_is_partition",
    "PorepyVerif.C07.row_split_disjoint_cover",
    "PorepyVerif.C07.col_split_is_partition",
    "PorepyVerif.C07.split_gives_equiv",
    "PorepyVerif.C07.expand_places",
    "PorepyVerif.C07.model_split_solves",
    "PorepyVerif.C07.inverse_toM",
    "PorepyVerif.C07.schurSolve_solves_full",
    "PorepyVerif.C07.schurSolve_eq_full_solve",
    "PorepyVerif.C07.assembleSplit_reduced",
    "PorepyVerif.C07.model_schurSolve_solves_full",
    "PorepyVerif.C07.storedInv_run",
    "PorepyVerif.C07.history_expand_solves",
    "PorepyVerif.C07.failed_split_keeps_state",
]
LEAN_MODULES = ["PorepyVerif.C07.Props"]
LEAN_DIRS = ["C37"]  # Model imports C37.Model (Gauss-Jordan), Lemmas import C37.Lemmas (its correctness proof)
AUDIT = "PorepyVerif/C07/Audit.lean"
DRIVER = "PorepyVerif/C07/Driver.lean"
N = {"quick": 30, "thorough": 800}
RULE = ("md-grids with 1-3 subdomains (dim 0-2, 1-3 cells, instantiated in random order) and 0-2 mortar grids; 2-4 cell variables on "
        "random sub-lists of the subdomains (+0-2 on interfaces); per variable 1-2 equations (its grids split in groups) with a dominant "
        "cell-wise diagonal term, cell-wise linear and bilinear couplings to co-located variables (local: the secondary block is a permuted "
        "block-diagonal matrix), non-local sparse-matrix couplings to any variable and a constant vector; equations stored in shuffled order. "
        "History on ONE EquationSystem: 1-3 iterates (dyadic values, many zeros) and 4-9 Schur splits: natural splits by equation list or by "
        "grid-restricted dict (all / some / no grids of an equation), crossed splits (another co-located variable as primary), non-square "
        "splits, malformed requests (unknown equation, grid outside the equation's domain, foreign grid, empty / complete equation or "
        "variable lists, unknown variable name, duplicated variable), each with the default inverter, np.linalg.inv or an exact rational "
        "inverter; after most splits the reduced system is solved and expanded, plus expansions of arbitrary vectors, of wrong-size vectors "
        "and before any assembly; 15 % of the splits repeat an earlier request of the instance (cached permutation of the default inverter). non-trivial = at least two admissible splits with different secondary blocks on the instance, one of them "
        "with the default inverter; distinct = distinct cases")
TRUSTED = [
    "modelled, not verified: evaluation of the AD operators (the Jacobian/residual given to the model are computed in closed form by the "
    "harness from the case's coefficients and compared exactly with EquationSystem.assemble() in every state), scipy sparse slicing / vstack / "
    "products, networkx connected components and the numba block inverter inside the default inverter (property C37), np.linalg.inv",
    "nothing numerical is trusted on the model side any more: the driver computes with C37.inverse (exact Gauss-Jordan, proved in "
    "C37/Lemmas to return a left inverse) and schurSolve_solves_full proves that every answer solves the full system; the driver does no "
    "run-time re-check",
    "assembled_equation_indices after a Schur assembly is outside the property: the code overwrites the primary-block indices in its "
    "secondary loop (assemble(equations=[name]) resets the attribute); the comparison accepts the value as coded or the primary-block "
    "indices the comment in the code promises (fixes/C07-schur-assembled-equation-indices.diff)",
    "md-grid listing order and grid-wise dof clustering are parameters of the model (properties C24/C05); the harness computes them "
    "independently of porepy and the comparison of primary/secondary column sets checks the code against them",
]
EXPLANATION = ("FULL (algebra) + CORE (bookkeeping, inverter): Mathlib-Matrix theorems over any field: the expanded Schur solution solves the "
               "full system for ANY row split / column split given as bijections (schur_expand_solves_full), conversely every full solution "
               "solves the reduced system, with an invertible Jacobian the Schur complement is invertible and the increments coincide; inverse of a "
               "permuted block-diagonal matrix assembled from block inverses is the inverse (default inverter). Executable model of the "
               "row/column bookkeeping transcribed from the code: primary rows + excluded primary rows + secondary equations are a permutation "
               "of all rows for EVERY layout and request, primary/secondary columns a permutation of all dofs for every duplicate-free variable "
               "list, such a split yields the bijections the algebra needs (split_gives_equiv; model_split_solves composes all of it), expand places "
               "x_p and x_s at those indices. The model's arithmetic is proved too: reading lists of rationals as Mathlib matrices, "
               "whenever assembleSplit answers, the secondary block is invertible, the stored inverse is its Mathlib inverse and (S, rhs_S) is the "
               "Schur complement system (assembleSplit_reduced); whenever schurSolve answers, J X = r (schurSolve_solves_full, "
               "model_schurSolve_solves_full on the model's own row/column lists) and X = J^-1 r if J is invertible "
               "(schurSolve_eq_full_solve) - no invertibility hypothesis and no run-time certificate. The calls are a state machine (mstep: new "
               "iterate, split with optional `state` argument and all error branches in code order, expand, solve-and-expand; the driver runs "
               "exactly this function): history_expand_solves proves for EVERY history that solve-and-expand answers the solution of the full "
               "system the stored data was assembled from (never mixed with a later iterate, a failed call or another split), "
               "failed_split_keeps_state that a failing call changes nothing. Remaining input condition: no variable named twice in a request. "
               "Not proved: completeness of the elimination (invertible block => the model answers; exercised by the correspondence check). Equations registered with an "
               "empty grid list are modelled (0 rows; a grid-restricted request for them raises ValueError in "
               "_gridbased_equation_complement). "
               "Correspondence compares S, rhs, b_s, A_sp, column sets, assembled_equation_indices and expanded vectors of the real code with the "
               "model (exact where only slicing is involved, 1e-9 otherwise).")
ASSUMPTIONS = [
    "all coefficients and iterates are dyadic rationals of small magnitude, so Jacobian and residual are exact in binary64",
    "values that pass through an inverse are compared with tolerance 1e-9 and only when cond(A_ss), cond(S), cond(J) < 1e6",
]

TOL = 1e-9
COND_MAX = 1e6


# ----------------------------------------------------------------------------- independent layout
def _cells(g):
    if g["kind"] == "sub":
        return 1 if g["dim"] == 0 else g["n"]
    return (1 if g["dim"] == 0 else g["n"]) * g["sides"]


def md_order(case):
    """md-grid listing order computed independently of porepy: dimension descending, then instantiation order."""
    gs = case["grids"]
    subs = sorted((k for k, g in enumerate(gs) if g["kind"] == "sub"), key=lambda k: (-gs[k]["dim"], gs[k]["rank"]))
    intfs = sorted((k for k, g in enumerate(gs) if g["kind"] == "intf"), key=lambda k: (-gs[k]["dim"], gs[k]["rank"]))
    return subs + intfs


class Layout:
    """dof order (grid-wise clustering, creation order inside a grid), equation row blocks; no porepy involved."""

    def __init__(self, case):
        gs = case["grids"]
        self.order = md_order(case)
        pos = {g: i for i, g in enumerate(self.order)}
        self.cells = [_cells(g) for g in gs]
        self.vars = []  # (name, grid, size) in dof order
        for g in self.order:
            for v in case["vars"]:
                if g in v["grids"]:
                    self.vars.append((v["name"], g, self.cells[g]))
        self.voff = {}
        off = 0
        for (n, g, s) in self.vars:
            self.voff[(n, g)] = off
            off += s
        self.ndof = off
        self.eqs = []  # per equation: [(grid, rows)] in md order
        self.eoff = []
        off = 0
        self.roff = {}
        for k, e in enumerate(case["eqs"]):
            blocks = [(g, self.cells[g]) for g in sorted(e["grids"], key=lambda g: pos[g])]
            self.eqs.append(blocks)
            self.eoff.append(off)
            for g, s in blocks:
                self.roff[(k, g)] = off
                off += s
        self.nrows = off
        self.var_grids = {v["name"]: list(v["grids"]) for v in case["vars"]}


def closed_form(case, lay, x):
    """Jacobian and right-hand side (= -residual) of the full system at iterate x, as Fractions."""
    x = [Fraction(v) for v in x]
    J = [[Fraction(0)] * lay.ndof for _ in range(lay.nrows)]
    r = [Fraction(0)] * lay.nrows
    for k, e in enumerate(case["eqs"]):
        for g, s in lay.eqs[k]:
            r0 = lay.roff[(k, g)]
            for c in range(s):
                row = r0 + c
                res = Fraction(e["const"][row - lay.eoff[k]])
                for v, coef in [[e["diag"], e["dcoef"]]] + e["lin"]:  # (not reached for an empty-grid equation)
                    j = lay.voff[(v, g)] + c
                    J[row][j] += Fraction(coef)
                    res += Fraction(coef) * x[j]
                for v1, v2, coef in e["quad"]:
                    j1, j2 = lay.voff[(v1, g)] + c, lay.voff[(v2, g)] + c
                    J[row][j1] += Fraction(coef) * x[j2]
                    J[row][j2] += Fraction(coef) * x[j1]
                    res += Fraction(coef) * x[j1] * x[j2]
                r[row] = res
        for v, g, M in e["nonlocal"]:
            for i, mrow in enumerate(M):
                row = lay.eoff[k] + i
                for c, m in enumerate(mrow):
                    j = lay.voff[(v, g)] + c
                    J[row][j] += Fraction(m)
                    r[row] += Fraction(m) * x[j]
    return J, [-v for v in r]


# ----------------------------------------------------------------------------- the real objects
def _mk_grid(dim, n):
    import porepy as pp
    if dim == 0:
        g = pp.PointGrid(np.zeros((3, 1)))
    else:
        g = pp.CartGrid(np.array([n] + [1] * (dim - 1)))
    g.compute_geometry()
    return g


def _mk_mortar(dim, n, sides):
    import porepy as pp
    from porepy.grids.mortar_grid import MortarSides
    sg = {MortarSides.LEFT_SIDE: _mk_grid(dim, n)}
    if sides == 2:
        sg[MortarSides.RIGHT_SIDE] = _mk_grid(dim, n)
    mg = pp.MortarGrid(dim, sg, codim=1)
    # the synthetic mortar grid has no projections to its neighbours; repr() (used in error messages) needs their shapes
    import scipy.sparse as sps
    mg._mortar_to_secondary_int = sps.csc_matrix((1, mg.num_cells))
    mg._mortar_to_primary_int = sps.csc_matrix((1, mg.num_cells))
    return mg


def _exact_inverse(A):
    import scipy.sparse as sps
    M = [[Fraction(float(v)) for v in row] for row in A.toarray()]
    inv = _frac_inverse(M)
    if inv is None:
        raise np.linalg.LinAlgError("singular")
    return sps.csr_matrix(np.array([[float(v) for v in row] for row in inv]))


def _frac_inverse(M):
    n = len(M)
    A = [list(row) + [Fraction(int(i == j)) for j in range(n)] for i, row in enumerate(M)]
    for c in range(n):
        p = next((i for i in range(c, n) if A[i][c] != 0), None)
        if p is None:
            return None
        A[c], A[p] = A[p], A[c]
        piv = A[c][c]
        A[c] = [v / piv for v in A[c]]
        for i in range(n):
            if i != c and A[i][c] != 0:
                f = A[i][c]
                A[i] = [a - f * b for a, b in zip(A[i], A[c])]
    return [row[n:] for row in A]


class World:
    def __init__(self, case):
        import porepy as pp
        import scipy.sparse as sps
        self.case = case
        self.pp = pp
        gs = case["grids"]
        self.objs = [None] * len(gs)
        for k in sorted(range(len(gs)), key=lambda k: gs[k]["rank"]):
            g = gs[k]
            self.objs[k] = _mk_grid(g["dim"], g["n"]) if g["kind"] == "sub" else _mk_mortar(g["dim"], g["n"], g["sides"])
        self.mdg = pp.MixedDimensionalGrid()
        self.mdg.add_subdomains([self.objs[k] for k, g in enumerate(gs) if g["kind"] == "sub"])
        for k, g in enumerate(gs):
            if g["kind"] == "intf":
                a, b = g["pair"]
                self.mdg.add_interface(self.objs[k], (self.objs[a], self.objs[b]), sps.identity(1))
        self.foreign = {}
        self.es = es = pp.ad.EquationSystem(self.mdg)
        order = md_order(case)
        pos = {g: i for i, g in enumerate(order)}
        self.atom = {}
        for v in case["vars"]:
            grids = sorted(v["grids"], key=lambda g: pos[g])
            objs = [self.objs[g] for g in grids]
            if gs[grids[0]]["kind"] == "sub":
                md = es.create_variables(f"v{v['name']}", {"cells": 1}, subdomains=objs)
            else:
                md = es.create_variables(f"v{v['name']}", {"cells": 1}, interfaces=objs)
            for sv in md.sub_vars:
                self.atom[(v["name"], next(g for g in grids if self.objs[g] is sv.domain))] = sv
        self.ops = []
        for k, e in enumerate(case["eqs"]):
            if not e["grids"]:  # an equation registered with an empty grid list: an operator with zero rows
                v, g = e["on"]
                op = pp.ad.SparseArray(sps.csr_matrix((0, _cells(gs[g])))) @ self.atom[(v, g)]
                op.set_name(f"e{k}")
                es.set_equation(op, [], {"cells": 1})
                self.ops.append(op)
                continue
            grids = sorted(e["grids"], key=lambda g: pos[g])
            objs = [self.objs[g] for g in grids]
            nrows = sum(_cells(gs[g]) for g in grids)
            mdv = lambda n: es.md_variable(f"v{n}", objs)
            op = pp.ad.Scalar(float(Fraction(e["dcoef"]))) * mdv(e["diag"])
            for v, coef in e["lin"]:
                op = op + pp.ad.Scalar(float(Fraction(coef))) * mdv(v)
            for v1, v2, coef in e["quad"]:
                op = op + pp.ad.Scalar(float(Fraction(coef))) * (mdv(v1) * mdv(v2))
            for v, g, M in e["nonlocal"]:
                Mf = sps.csr_matrix(np.array([[float(Fraction(m)) for m in row] for row in M]).reshape(nrows, _cells(gs[g])))
                op = op + pp.ad.SparseArray(Mf) @ self.atom[(v, g)]
            op = op + pp.ad.DenseArray(np.array([float(Fraction(c)) for c in e["const"]]))
            op.set_name(f"e{k}")
            es.set_equation(op, list(reversed(objs)), {"cells": 1})
            self.ops.append(op)

    def grid(self, key):
        if 0 <= key < len(self.objs):
            return self.objs[key]
        if key not in self.foreign:
            self.foreign[key] = _mk_grid(1, 2)
        return self.foreign[key]


    def eq_arg(self, step):
        def ident(k, style):
            return self.ops[k] if style == "op" and k < len(self.ops) else f"e{k}"
        if step["form"] == "list":
            return [ident(k, st) for k, st in step["eqs"]]
        return {ident(k, st): [self.grid(g) for g in grids] for k, grids, st in step["eqs"]}

    def var_arg(self, step):
        out = []
        for name, grids, style in step["vars"]:
            if style == "str":
                out.append(f"v{name}")
            elif style == "md":
                out.append(self.es.md_variable(f"v{name}", None if grids is None else [self.grid(g) for g in grids]))
            else:
                gl = grids if grids is not None else [g for (n, g) in self.atom if n == name]
                out += [self.atom[(name, g)] for g in gl]
        return out

    def inverter(self, kind):
        import scipy.sparse as sps
        if kind == "default":
            return None
        if kind == "dense":
            return lambda A: sps.csr_matrix(np.linalg.inv(A.toarray()))
        return _exact_inverse

    def set_state(self, x):
        self.es.set_variable_values(np.array([float(Fraction(v)) for v in x]), iterate_index=0)

    def full(self, state=None):
        if state is None:
            J, r = self.es.assemble()
        else:
            J, r = self.es.assemble(state=np.array([float(Fraction(v)) for v in state]))
        return J.toarray(), np.asarray(r)

    def split(self, step):
        with warnings.catch_warnings():
            warnings.simplefilter("ignore")
            kw = {}
            if step.get("state") is not None:  # the `state` argument: linearise at this vector instead of the stored iterate
                kw["state"] = np.array([float(Fraction(v)) for v in step["state"]])
            S, rhs = self.es.assemble_schur_complement_system(self.eq_arg(step), self.var_arg(step), inverter=self.inverter(step["inverter"]), **kw)
        return (S.toarray() if hasattr(S, "toarray") else np.asarray(S)), np.asarray(rhs)

    def expand(self, x):
        with warnings.catch_warnings():
            warnings.simplefilter("ignore")
            return np.asarray(self.es.expand_schur_complement_solution(x))

    def stored_cols(self):
        """primary / secondary column indices read off the stored prolongation matrices."""
        out = []
        for P in self.es._Schur_complement[3:5]:
            P = P.tocoo()
            trip = sorted(zip(P.col.tolist(), P.row.tolist(), P.data.tolist()))
            if [t[0] for t in trip] != list(range(P.shape[1])) or any(t[2] != 1.0 for t in trip):
                return ["not-a-selection", "not-a-selection"]
            out.append([int(t[1]) for t in trip])
        return out


def _cond(M):
    M = np.asarray(M, dtype=float)
    if M.ndim != 2 or M.shape[0] != M.shape[1] or not np.all(np.isfinite(M)):
        return float("inf")
    if M.shape[0] == 0:
        return 1.0
    with warnings.catch_warnings():
        warnings.simplefilter("ignore")
        try:
            return float(np.linalg.cond(M))
        except np.linalg.LinAlgError:
            return float("inf")


CAUGHT = (ValueError, KeyError, AssertionError, IndexError, TypeError, np.linalg.LinAlgError, ZeroDivisionError)


def _impl_run(case):
    """The history on the real code; canonical answer per step."""
    w = World(case)
    es = w.es
    out = []
    last = None  # (S, rhs) of the last successful assembly
    condJ = float("inf")
    for step in case["steps"]:
        kind = step["op"]
        if kind == "state":
            w.set_state(step["x"])
            J, r = w.full()
            condJ = _cond(J)
            out.append({"J": [[frac(v) for v in row] for row in J], "r": [frac(v) for v in r]})
        elif kind == "split":
            try:
                S, rhs = w.split(step)
            except CAUGHT as e:
                out.append(err_kind(e))
                continue
            eqidx = [[int(n[1:]), [int(i) for i in idx]] for n, idx in es.assembled_equation_indices.items()]
            inv, bs, Asp = es._Schur_complement[:3]
            cols = w.stored_cols()
            last = (S, rhs)
            cS = _cond(S) if S.shape[0] == S.shape[1] else 1.0
            cJ = condJ if step.get("state") is None else _cond(w.full(step["state"])[0])
            out.append({"S": [[float(v) for v in row] for row in S], "rhs": [float(v) for v in rhs],
                        "bs": [frac(v) for v in bs], "Asp": [[frac(v) for v in row] for row in Asp.toarray()],
                        "pcols": cols[0], "scols": cols[1], "eqidx": eqidx,
                        "_cond": max(cS, _cond(inv.toarray()), cJ)})
        else:
            try:
                if step.get("solve"):
                    if last is None:
                        x = np.zeros(1)
                    else:
                        S, rhs = last
                        if S.shape[0] != S.shape[1]:
                            out.append({"skip": "nonsquare S"})
                            continue
                        x = np.linalg.solve(S, rhs)
                else:
                    x = np.array([float(Fraction(v)) for v in step["x"]])
                out.append({"X": [float(v) for v in w.expand(x)]})
            except CAUGHT as e:
                out.append(err_kind(e))
    return out


# ----------------------------------------------------------------------------- model side
def model_ops(case):
    lay = Layout(case)
    ops = [{"op": "layout", "eqs": [[[g, s] for g, s in blocks] for blocks in lay.eqs], "vars": [list(v) for v in lay.vars]}]
    for step in case["steps"]:
        if step["op"] == "state":
            J, r = closed_form(case, lay, step["x"])
            ops.append({"op": "state", "J": [[frac(v) for v in row] for row in J], "r": [frac(v) for v in r]})
        elif step["op"] == "split":
            if step["form"] == "list":
                eqs = [k for k, _ in step["eqs"]]
            else:
                eqs = [[k, list(grids)] for k, grids, _ in step["eqs"]]
            op = {"op": "split", "form": step["form"], "eqs": eqs, "vars": [[n, g] for n, g, _ in step["vars"]]}
            if step.get("state") is not None:
                J, r = closed_form(case, lay, step["state"])
                op["J"], op["r"] = [[frac(v) for v in row] for row in J], [frac(v) for v in r]
            ops.append(op)
        else:
            ops.append({k: v for k, v in step.items() if k in ("op", "x", "solve")})
    return ops


def model_decode(outs, case):
    lay = Layout(case)
    res = []
    for step, o in zip(case["steps"], outs[1:]):
        if step["op"] == "state" and o == "ok":
            J, r = closed_form(case, lay, step["x"])
            o = {"J": [[frac(v) for v in row] for row in J], "r": [frac(v) for v in r]}
        res.append(o)
    return res


def compare(impl, model, case):
    if isinstance(impl, dict) and "harness_exc" in impl:
        return f"impl_run raised {impl['harness_exc']}\n{impl.get('tb', '')}"
    if len(impl) != len(model):
        return f"{len(impl)} impl answers vs {len(model)} model answers"
    dead = False   # stored Schur data of the model is unusable (singular secondary block)
    loose = False  # ill-conditioned: values that went through an inverse are not compared
    for i, (step, a, m) in enumerate(zip(case["steps"], impl, model)):
        tag = f"step[{i}:{step['op']}]"
        if isinstance(m, dict) and str(m.get("err", "")).startswith("bad-op"):
            return f"{tag}: driver rejected the op: {m}"
        if step["op"] == "state":
            d = deep_compare(a, m, tag)
            if d:
                return "closed-form system differs from assemble(): " + d
        elif step["op"] == "split":
            if "err" in m or "err" in a:
                if m.get("singular"):
                    continue  # a failing call leaves the stored data unchanged in the code; the model lost it
                if a != m:
                    return f"{tag}: impl {a if 'err' in a else 'ok'} vs model {m if 'err' in m else 'ok'}"
                continue
            if m.get("singular"):
                dead = True
                continue
            dead = False
            loose = not (a["_cond"] < COND_MAX)
            for key in ("bs", "Asp", "pcols", "scols"):
                d = deep_compare(a[key], m[key], f"{tag}.{key}")
                if d:
                    return d
            if a["eqidx"] != m["eqidx"] and a["eqidx"] != m["eqidx_asis"]:
                return f"{tag}.eqidx: impl {a['eqidx']} vs model primary-block {m['eqidx']} / as coded {m['eqidx_asis']}"
            if not loose:
                for key in ("S", "rhs"):
                    d = deep_compare(a[key], m[key], f"{tag}.{key}", tol=TOL)
                    if d:
                        return d
        else:
            if dead or "skip" in a or "skip" in m:
                continue
            if "err" in a or "err" in m:
                if a != m:
                    return f"{tag}: impl {a} vs model {m}"
                continue
            if m.get("full_ok") is False:
                return f"{tag}: the model's expanded solution does not solve the full system exactly"
            if not loose:
                d = deep_compare(a["X"], m["X"], f"{tag}.X", tol=TOL)
                if d:
                    return d
    return None


# ----------------------------------------------------------------------------- oracle: the statement on the real code
def classify(case, lay, step):
    """Set-based reading of a split request, written independently of the Lean model.
    Returns (expected, prow_set, srow_set, pcol_list, scol_set) with expected in
    ValueError | AssertionError | dup | square."""
    neq = len(case["eqs"])
    units = set()
    requested = set()
    if step["form"] == "list":
        for k, _ in step["eqs"]:
            if k >= neq:
                return ("ValueError",)
            requested.add(k)
            units |= {(k, g) for g in case["eqs"][k]["grids"]}
    else:
        for k, grids, _ in step["eqs"]:
            if k >= neq or any(g not in case["eqs"][k]["grids"] for g in grids):
                return ("ValueError",)
            if not case["eqs"][k]["grids"]:
                return ("ValueError",)  # np.hstack([]) in _gridbased_equation_complement
            requested.add(k)
            units |= {(k, g) for g in grids}
    prows = set()
    for (k, g) in units:
        prows |= set(range(lay.roff[(k, g)], lay.roff[(k, g)] + lay.cells[g]))
    srows = set(range(lay.nrows)) - prows
    pcols = []
    for name, grids, _ in step["vars"]:
        for g in lay.var_grids.get(name, []):
            if grids is None or g in grids:
                pcols += list(range(lay.voff[(name, g)], lay.voff[(name, g)] + lay.cells[g]))
    scols = set(range(lay.ndof)) - set(pcols)
    if not requested or not pcols or not scols:
        return ("AssertionError",)
    if step["form"] == "list" and len(requested) == neq:
        return ("ValueError",)  # no secondary row block at all: sps.vstack([]) (documented as AssertionError)
    if len(srows) != len(scols):
        return ("AssertionError",)
    if len(set(pcols)) != len(pcols):
        return ("dup", prows, srows, pcols, scols)
    return ("square", prows, srows, pcols, scols)


def _allclose(a, b, tol=1e-8):
    a, b = np.asarray(a, float), np.asarray(b, float)
    return a.shape == b.shape and bool(np.all(np.isfinite(a))) and bool(np.all(np.abs(a - b) <= tol * (1 + np.abs(b))))


def _oracle(case):
    w = World(case)
    lay = Layout(case)
    J = r = None
    stored = None      # (srows, pcols, scols, J, r, reliable) of the last successful assembly on the real code
    for i, step in enumerate(case["steps"]):
        kind = step["op"]
        if kind == "state":
            w.set_state(step["x"])
            J, r = w.full()
        elif kind == "split":
            cls = classify(case, lay, step)
            inv = step["inverter"]
            Js, rs = (J, r) if step.get("state") is None else w.full(step["state"])  # the system this call linearises
            singular = False
            if cls[0] == "square":
                sr, sc = sorted(cls[2]), sorted(cls[4])
                singular = _frac_inverse([[Fraction(float(Js[a, b])) for b in sc] for a in sr]) is None
            got = None
            try:
                S, rhs = w.split(step)
            except CAUGHT as e:
                got = type(e).__name__
            if cls[0] in ("ValueError", "AssertionError"):
                if got != cls[0]:
                    return {"what": f"step {i}: inadmissible split ({step.get('kind')}) should raise {cls[0]}, got {got or 'no error'}",
                            "key": f"inadmissible-{cls[0]}-got-{got or 'none'}"}
                continue
            if singular:
                if got is None:
                    stored = (sorted(cls[2]), cls[3], sorted(cls[4]), Js, rs, False)
                continue
            if got is not None:
                return {"what": f"step {i}: admissible split ({step.get('kind')}, {inv} inverter, square invertible secondary block) raised {got}",
                        "key": f"admissible-split-raises-{got}-{inv}"}
            reliable = cls[0] == "square"
            stored = (sorted(cls[2]), cls[3], sorted(cls[4]), Js, rs, reliable)
            if not reliable:
                continue
            if S.shape != (len(cls[3]), len(cls[3])) or rhs.shape != (len(cls[3]),):
                return {"what": f"step {i}: reduced system has shape {S.shape}, expected {len(cls[3])} primary unknowns", "key": f"reduced-shape-{inv}"}
            if max(_cond(Js), _cond(S), _cond(Js[np.ix_(sorted(cls[2]), sorted(cls[4]))])) >= COND_MAX:
                continue
            X = w.expand(np.linalg.solve(S, rhs))
            Xf = np.linalg.solve(Js, rs)
            if not _allclose(X, Xf):
                return {"what": f"step {i}: expanded Schur solution ({step.get('kind')}, {inv} inverter) differs from the full solve by "
                                f"{float(np.max(np.abs(X - Xf))):.3g}", "key": f"expanded-differs-from-full-solve-{inv}"}
        else:
            if step.get("solve"):
                continue  # checked right after every admissible split above
            x = np.array([float(Fraction(v)) for v in step["x"]])
            got = None
            try:
                X = w.expand(x)
            except CAUGHT as e:
                got = type(e).__name__
            if stored is None or len(x) != len(stored[1]):
                if got != "ValueError":
                    return {"what": f"step {i}: expand {'before any assembly' if stored is None else 'of a wrong-size vector'} should raise ValueError, got {got or 'no error'}",
                            "key": f"expand-inadmissible-got-{got or 'none'}"}
                continue
            srows, pcols, scols, Js, rs, reliable = stored
            if got is not None:
                return {"what": f"step {i}: expand of a vector of the right size raised {got}", "key": f"expand-raises-{got}"}
            if not reliable:
                continue
            if X.shape != (lay.ndof,) or [float(v) for v in X[sorted(pcols)]] != [float(v) for v in x]:
                return {"what": f"step {i}: expand does not put x_p at the primary dofs", "key": "expand-misplaces-primary"}
            if _cond(Js[np.ix_(srows, scols)]) < COND_MAX and not _allclose(Js[srows] @ X, rs[srows]):
                return {"what": f"step {i}: expanded vector violates the secondary rows of the full system", "key": "expand-violates-secondary-rows"}
    return None


# ----------------------------------------------------------------------------- sandbox for the real code
# A stale block permutation handed to the numba block inverter (the defect class this property is about) writes out of
# bounds and can kill the interpreter.  The real code is therefore driven in ONE long-lived worker process; if it dies,
# the case that was running is reported as a failure of the property and a fresh worker serves the remaining cases.
_WORKER = None
IN_WORKER = os.environ.get("C07_WORKER") == "1"
CALL_TIMEOUT = 120  # seconds for one history (normally well below one second)


def _stop_worker():
    global _WORKER
    if _WORKER is not None and _WORKER.poll() is None:
        try:
            _WORKER.stdin.close()
            _WORKER.wait(timeout=10)
        except Exception:
            _WORKER.kill()
    _WORKER = None


atexit.register(_stop_worker)


def _call(fn, case):
    global _WORKER
    if _WORKER is None or _WORKER.poll() is not None:
        env = dict(os.environ, C07_WORKER="1", PYTHONPATH=os.pathsep.join(p for p in sys.path if p))
        env.setdefault("NUMBA_NUM_THREADS", "2")  # blocks are tiny; 16 spinning OpenMP threads only hurt on a busy machine
        env.setdefault("OMP_NUM_THREADS", "2")
        _WORKER = subprocess.Popen([sys.executable, "-c", "import harness.props.c07 as m; m._serve()"],
                                   cwd=os.path.dirname(os.path.dirname(os.path.dirname(os.path.abspath(__file__)))),
                                   env=env, stdin=subprocess.PIPE, stdout=subprocess.PIPE, text=True)
    w = _WORKER
    line = ""
    try:
        w.stdin.write(json.dumps({"fn": fn, "case": case}) + "\n")
        w.stdin.flush()
        ready, _, _ = select.select([w.stdout], [], [], CALL_TIMEOUT)
        if not ready:  # e.g. the numba parallel loop never returns when it is handed inconsistent block sizes
            w.kill()
            w.wait()
            _WORKER = None
            return {"died": f"no answer within {CALL_TIMEOUT} s, killed"}
        line = w.stdout.readline()
    except (BrokenPipeError, OSError):
        pass
    if not line:
        rc = w.wait()
        _WORKER = None
        return {"died": f"exit status {rc}"}
    return json.loads(line)


def _serve():
    """worker loop: protocol on the original stdout, anything the real code prints goes to stderr"""
    out = os.fdopen(os.dup(1), "w")
    os.dup2(2, 1)
    from harness.common import assert_repo
    assert_repo()
    for line in sys.stdin:
        req = json.loads(line)
        try:
            res = {"ok": (_impl_run if req["fn"] == "impl" else _oracle)(req["case"])}
        except Exception as e:
            res = {"exc": f"{type(e).__name__}: {e}", "tb": traceback.format_exc()[-1500:]}
        out.write(json.dumps(res) + "\n")
        out.flush()


def impl_run(case):
    if IN_WORKER:
        return _impl_run(case)
    r = _call("impl", case)
    if "died" in r:
        raise RuntimeError(f"the real code killed or hung the interpreter ({r['died']}) while running this history")
    if "exc" in r:
        raise RuntimeError(r["exc"] + "\n" + r.get("tb", ""))
    return r["ok"]


def oracle(case):
    if IN_WORKER:
        return _oracle(case)
    r = _call("oracle", case)
    if "died" in r:
        return {"what": f"the real code killed or hung the interpreter ({r['died']}) while running this history of Schur splits",
                "key": "interpreter-crash"}
    if "exc" in r:
        raise RuntimeError(r["exc"] + "\n" + r.get("tb", ""))
    return r["ok"]


# ----------------------------------------------------------------------------- generator
def _dy(rng, lo, hi, den):
    return frac(Fraction(rng.randint(lo * den, hi * den), den))


def _gen_system(rng, tier):
    big = tier == "thorough"
    ns = rng.choice([1, 2, 2, 3, 3] if not big else [1, 2, 2, 3, 3, 4])
    grids = []
    for _ in range(ns):
        dim = rng.choice([0, 1, 1, 2])
        grids.append({"kind": "sub", "dim": dim, "n": 1 if dim == 0 else rng.randint(1, 3)})
    subs = list(range(ns))
    ni = rng.choice([0, 0, 1, 2]) if ns >= 2 else 0
    pairs = rng.sample(list(itertools.combinations(subs, 2)), min(ni, ns * (ns - 1) // 2))
    for a, b in pairs:
        dim = min(1, rng.choice([0, max(0, max(grids[a]["dim"], grids[b]["dim"]) - 1)]))  # dim <= dim_max, else the md-grid does not list it
        grids.append({"kind": "intf", "dim": dim, "n": 1 if dim == 0 else rng.randint(1, 2), "sides": rng.choice([1, 1, 2]), "pair": [a, b]})
    ranks = list(range(len(grids)))
    rng.shuffle(ranks)
    for g, rk in zip(grids, ranks):
        g["rank"] = rk
    intfs = list(range(ns, len(grids)))
    vars_ = []
    nv = rng.randint(2, 4)
    for n in range(nv):
        gl = subs[:] if rng.random() < 0.6 else rng.sample(subs, rng.randint(1, ns))
        rng.shuffle(gl)
        vars_.append({"name": n, "grids": gl})
    if intfs:
        for n in range(nv, nv + rng.randint(1, 2)):
            gl = intfs[:] if rng.random() < 0.6 else rng.sample(intfs, rng.randint(1, len(intfs)))
            vars_.append({"name": n, "grids": gl})
    rng.shuffle(vars_)
    cells = [_cells(g) for g in grids]
    eqs = []
    for v in vars_:
        gl = v["grids"][:]
        rng.shuffle(gl)
        groups = [gl]
        if len(gl) >= 2 and rng.random() < 0.4:
            c = rng.randint(1, len(gl) - 1)
            groups = [gl[:c], gl[c:]]
        for G in groups:
            co = [u["name"] for u in vars_ if u["name"] != v["name"] and set(G) <= set(u["grids"])]
            lin = [[u, rng.choice(["1/2", "-1/2", "1", "-1", "1/4", "-1/4"])] for u in co if rng.random() < 0.55]
            quad = []
            pool = co + [v["name"]]
            for _ in range(rng.choice([0, 0, 1, 1, 2])):
                quad.append([rng.choice(pool), rng.choice(pool), rng.choice(["1/4", "-1/4", "1/2", "-1/2"])])
            nrows = sum(cells[g] for g in G)
            nonlocal_ = []
            for _ in range(rng.choice([0, 1, 1, 2])):
                u = rng.choice(vars_)
                g = rng.choice(u["grids"])
                M = [[rng.choice(["0", "0", "0", "1/2", "-1/2", "1/4", "-1/4", "1"]) for _ in range(cells[g])] for _ in range(nrows)]
                nonlocal_.append([u["name"], g, M])
            eqs.append({"grids": G, "diag": v["name"], "dcoef": rng.choice(["4", "5", "6", "8", "-4", "-5", "-6", "3"]),
                        "lin": lin, "quad": quad, "nonlocal": nonlocal_, "const": [_dy(rng, -4, 4, 4) for _ in range(nrows)]})
    if rng.random() < 0.2:
        u = rng.choice(vars_)
        eqs.append({"grids": [], "diag": None, "dcoef": "0", "lin": [], "quad": [], "nonlocal": [], "const": [],
                    "on": [u["name"], rng.choice(u["grids"])]})
    rng.shuffle(eqs)
    return {"grids": grids, "vars": vars_, "eqs": eqs}


def _gen_state(rng, n):
    return {"op": "state", "x": [("0" if rng.random() < 0.3 else _dy(rng, -2, 2, 4)) for _ in range(n)]}


def _var_items(rng, case, picks):
    """picks: list of (var name, grids) -> request items in assorted styles."""
    vg = {v["name"]: v["grids"] for v in case["vars"]}
    items = []
    for name, G in picks:
        if not G:
            continue
        G = list(G)
        rng.shuffle(G)
        if set(G) == set(vg[name]) and rng.random() < 0.6:
            items.append([name, None, rng.choice(["str", "md", "atom"])])
        elif rng.random() < 0.5 or len(G) == 1:
            items.append([name, G, rng.choice(["md", "atom"])])
        else:
            items += [[name, [g], rng.choice(["md", "atom"])] for g in G]
    rng.shuffle(items)
    return items


def _gen_split(rng, case):
    eqs = case["eqs"]
    neq = len(eqs)
    vg = {v["name"]: v["grids"] for v in case["vars"]}
    u = rng.random()
    kind = ("natural-list" if u < 0.3 else "natural-dict" if u < 0.62 else "crossed" if u < 0.72 else
            "nonsquare" if u < 0.8 else "malformed")
    sty = lambda: rng.choice(["str", "str", "op"])
    inverter = rng.choice(["default", "default", "default", "dense", "exact"])
    base = "natural-list" if kind == "malformed" or (kind != "natural-dict" and rng.random() < 0.5) else "natural-dict"
    if neq == 1 or (neq == 2 and any(not e["grids"] for e in eqs)):
        base = "natural-dict"
    if base == "natural-list":
        Q = rng.sample(range(neq), rng.randint(1, neq - 1))
        step = {"op": "split", "form": "list", "eqs": [[k, sty()] for k in Q]}
        if rng.random() < 0.15:
            step["eqs"].append([rng.choice(Q), sty()])
        picks = [(eqs[k]["diag"], eqs[k]["grids"]) for k in Q]
    else:
        sel = []
        picks = []
        for k in range(neq):
            t = rng.random()
            if t < 0.3:
                continue
            G = eqs[k]["grids"]
            if t < 0.5:
                chosen = list(G)
            elif t < 0.57:
                chosen = []
            else:
                chosen = rng.sample(G, rng.randint(1, len(G))) if G else []
            rng.shuffle(chosen)
            sel.append([k, chosen, sty()])
            picks.append((eqs[k]["diag"], chosen))
        if not sel or not any(p[1] for p in picks):
            k = rng.choice([k_ for k_ in range(neq) if eqs[k_]["grids"]])
            sel = [s for s in sel if s[0] != k] + [[k, [eqs[k]["grids"][0]], sty()]]
            picks = [(eqs[s_[0]]["diag"], s_[1]) for s_ in sel]
        rng.shuffle(sel)
        step = {"op": "split", "form": "dict", "eqs": sel}
    # merge picks of the same variable (two equations of one variable)
    merged = {}
    for name, G in picks:
        merged.setdefault(name, [])
        merged[name] += [g for g in G if g not in merged[name]]
    picks = list(merged.items())
    if kind == "crossed" and picks:
        i = rng.randrange(len(picks))
        name, G = picks[i]
        others = [n for n in vg if n != name and set(G) <= set(vg[n]) and all(n != p[0] or not (set(G) & set(p[1])) for p in picks)]
        if others and G:
            picks[i] = (rng.choice(others), G)
        else:
            kind = base
    step["vars"] = _var_items(rng, case, picks)
    if kind == "nonsquare":
        t = rng.random()
        allunits = [(n, g) for n in vg for g in vg[n]]
        if t < 0.4 and len(step["vars"]) > 1:
            step["vars"].pop(rng.randrange(len(step["vars"])))
        elif t < 0.8:
            have = {(n, g) for n, G, _ in step["vars"] for g in (G if G is not None else vg[n])}
            extra = [u_ for u_ in allunits if u_ not in have]
            if extra:
                n, g = rng.choice(extra)
                step["vars"].append([n, [g], "atom"])
        elif step["form"] == "list" and neq > len(step["eqs"]):
            step["eqs"].append([rng.choice([k for k in range(neq) if k not in [e[0] for e in step["eqs"]]]), "str"])
    if kind == "malformed":
        t = rng.choice(["unknown-eq", "outside-grid", "foreign-grid", "no-eqs", "no-vars", "all-vars", "unknown-var", "all-eqs", "dup-var", "empty-dict"])
        step["bad"] = t
        if t == "unknown-eq":
            step["eqs"].insert(rng.randint(0, len(step["eqs"])), [neq + rng.randint(0, 2), "str"])
        elif t in ("outside-grid", "foreign-grid"):
            k = rng.randrange(neq)
            out = [g for g in range(len(case["grids"])) if g not in eqs[k]["grids"]] if t == "outside-grid" else []
            g = rng.choice(out) if out else len(case["grids"]) + 1
            step["form"] = "dict"
            step["eqs"] = [[k, [g] + rng.sample(eqs[k]["grids"], rng.randint(0, len(eqs[k]["grids"]))), "str"]]
        elif t == "no-eqs":
            step["eqs"] = []
        elif t == "empty-dict":
            step["form"], step["eqs"] = "dict", []
        elif t == "no-vars":
            step["vars"] = []
        elif t == "all-vars":
            step["vars"] = [[n, None, rng.choice(["str", "md"])] for n in vg]
        elif t == "unknown-var":
            step["vars"] = [[len(vg) + 5, None, "str"]]
        elif t == "all-eqs":
            step["form"], step["eqs"] = "list", [[k, sty()] for k in range(neq)]
        elif t == "dup-var" and step["vars"]:
            n, G, _ = rng.choice(step["vars"])
            step["vars"].append([n, G, "atom" if G is not None else "str"])
    step["inverter"] = inverter
    step["kind"] = kind
    return step


def gen_case(rng, tier):
    case = _gen_system(rng, tier)
    lay = Layout(case)
    steps = []
    if rng.random() < 0.12:
        steps.append({"op": "expand", "x": [_dy(rng, -2, 2, 4) for _ in range(rng.randint(1, 3))]})
    steps.append(_gen_state(rng, lay.ndof))
    nsplit = rng.randint(4, 9 if tier == "quick" else 14)
    np_last = None
    for _ in range(nsplit):
        if rng.random() < 0.12:
            steps.append(_gen_state(rng, lay.ndof))
        s = _gen_split(rng, case)
        earlier = [t for t in steps if t["op"] == "split"]
        if earlier and rng.random() < 0.15:  # the same request again (cache hit of the default inverter, possibly at another iterate)
            s = json.loads(json.dumps(rng.choice(earlier)))
            s.pop("state", None)
            s["inverter"] = rng.choice(["default", "default", s["inverter"]])
        if rng.random() < 0.15:
            s["state"] = _gen_state(rng, lay.ndof)["x"]
        steps.append(s)
        cls = classify(case, lay, s)
        if cls[0] in ("square", "dup"):
            np_last = len(cls[3])
        if rng.random() < 0.75:
            steps.append({"op": "expand", "solve": True})
        if np_last is not None and rng.random() < 0.35:
            k = np_last if rng.random() < 0.85 else np_last + rng.choice([-1, 1])
            steps.append({"op": "expand", "x": [_dy(rng, -2, 2, 4) for _ in range(max(k, 0))]})
    case["steps"] = steps
    return case


# ----------------------------------------------------------------------------- evidence helpers
def _admissible_splits(case):
    lay = Layout(case)
    out = []
    for s in case["steps"]:
        if s["op"] == "split":
            cls = classify(case, lay, s)
            if cls[0] == "square":
                out.append((tuple(sorted(cls[2])), tuple(sorted(cls[4])), s["inverter"]))
    return out


def nontrivial(case):
    adm = _admissible_splits(case)
    return len({a[:2] for a in adm}) >= 2 and any(a[2] == "default" for a in adm)


def shrink_candidates(case):
    steps = case["steps"]
    for k in range(1, len(steps)):  # shortest failing prefix first: everything after the failing step goes in one call
        yield dict(case, steps=steps[:k])
    for i in range(len(steps) - 2, -1, -1):
        if steps[i]["op"] != "state" or sum(1 for s in steps if s["op"] == "state") > 1:
            yield dict(case, steps=steps[:i] + steps[i + 1:])
    for i, s in enumerate(steps):
        if s["op"] == "split" and s["inverter"] != "default":
            yield dict(case, steps=steps[:i] + [dict(s, inverter="default")] + steps[i + 1:])
    for k, e in enumerate(case["eqs"]):
        for fld in ("nonlocal", "quad", "lin"):
            if e[fld]:
                e2 = dict(e, **{fld: []})
                yield dict(case, eqs=case["eqs"][:k] + [e2] + case["eqs"][k + 1:])


def stats(cases, impl_outs):
    kinds, inverters, outcome, forms = {}, {}, {}, {}
    nsplit = nexp = ill = 0
    per_inst = []
    for c, out in zip(cases, impl_outs):
        if not isinstance(out, list):
            continue
        per_inst.append(len({a[:2] for a in _admissible_splits(c)}))
        for s, o in zip(c["steps"], out):
            if s["op"] == "split":
                nsplit += 1
                kinds[s.get("kind", "?")] = kinds.get(s.get("kind", "?"), 0) + 1
                inverters[s["inverter"]] = inverters.get(s["inverter"], 0) + 1
                forms[s["form"]] = forms.get(s["form"], 0) + 1
                res = o.get("err", "ok")
                outcome[res] = outcome.get(res, 0) + 1
                if "_cond" in o and not o["_cond"] < COND_MAX:
                    ill += 1
            elif s["op"] == "expand":
                nexp += 1
    strata = {"systems_with_empty_grid_equation": 0, "splits_with_state_argument": 0, "expands_on_stale_data_after_failed_split": 0,
              "expands_after_state_change": 0, "dict_all_grids": 0, "dict_some_grids": 0, "dict_no_grids": 0, "duplicate_variable_requests": 0,
              "repeated_identical_split": 0, "expand_before_any_assembly": 0, "expand_wrong_size": 0, "interface_variable_primary": 0}
    for c, out in zip(cases, impl_outs):
        if not isinstance(out, list):
            continue
        lay = Layout(c)
        strata["systems_with_empty_grid_equation"] += any(not e["grids"] for e in c["eqs"])
        ok_seen, failed_since_ok, state_since_ok, seen_req = False, False, False, set()
        for st_, o in zip(c["steps"], out):
            if st_["op"] == "state":
                state_since_ok = True
            elif st_["op"] == "split":
                strata["splits_with_state_argument"] += st_.get("state") is not None
                key = json.dumps([st_["form"], st_["eqs"], st_["vars"]], sort_keys=True)
                strata["repeated_identical_split"] += key in seen_req
                seen_req.add(key)
                cls = classify(c, lay, st_)
                strata["duplicate_variable_requests"] += cls[0] == "dup"
                if st_["form"] == "dict":
                    for k, grids, _ in st_["eqs"]:
                        if k < len(c["eqs"]):
                            full = set(c["eqs"][k]["grids"])
                            strata["dict_no_grids"] += not grids
                            strata["dict_all_grids"] += bool(grids) and set(grids) == full
                            strata["dict_some_grids"] += bool(grids) and set(grids) < full
                if any(c["grids"][g]["kind"] == "intf" for n, G, _ in st_["vars"] for g in (G if G is not None else lay.var_grids.get(n, [])) if g < len(c["grids"])):
                    strata["interface_variable_primary"] += 1
                if "err" in o:
                    failed_since_ok = failed_since_ok or ok_seen
                else:
                    ok_seen, failed_since_ok, state_since_ok = True, False, False
            else:
                if not ok_seen:
                    strata["expand_before_any_assembly"] += 1
                elif "err" in o:
                    strata["expand_wrong_size"] += 1
                else:
                    strata["expands_on_stale_data_after_failed_split"] += failed_since_ok
                    strata["expands_after_state_change"] += state_since_ok
    hist = {}
    for k in per_inst:
        hist[str(k)] = hist.get(str(k), 0) + 1
    return {"splits": nsplit, "expands": nexp, "split_kinds": kinds, "forms": forms, "inverters": inverters, "split_outcomes": outcome,
            "ill_conditioned_splits_not_value_compared": ill, "strata": {k: int(v) for k, v in strata.items()}, "distinct_admissible_splits_per_instance": hist,
            "dofs": {"min": min((Layout(c).ndof for c in cases), default=0), "max": max((Layout(c).ndof for c in cases), default=0)}}
