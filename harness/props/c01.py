"""C01 Forward-mode AD values and Jacobians are exact.

Three ties to /repo, all exercised on every run:
  translator      harness/props/c01_translate.py: python `ast` of numerics/ad/forward_mode.py and numerics/ad/functions.py
                  -> lean/PorepyVerif/C01/Generated.lean (one (value, Jacobian-factor) rule per overload x operand kind and per
                  library function); Props.lean proves every generated rule against Mathlib's derivatives, so a changed
                  rule stops compiling
  correspondence  random AD program trees evaluated by the real AdArray code and by the Lean driver (the SAME generated
                  rules, Float semantics), values and dense Jacobians compared with tolerance 1e-9
  oracle          the property itself on the real code: plain numpy re-evaluation of the tree for the values, complex-step
                  differentiation of that plain evaluation for the Jacobian (exact to rounding), Richardson-extrapolated
                  central differences as an independent second opinion
"""
import math
import os
import struct
from fractions import Fraction

import numpy as np
import scipy.sparse as sps

from harness import common
from harness.common import frac
from harness.props import c01_translate

PID = "C01"
THEOREMS = [
    "PorepyVerif.C01.lib_rules_sound",
    "PorepyVerif.C01.arith_rules_sound",
    "PorepyVerif.C01.max_rules_sound",
    "PorepyVerif.C01.rule_sound_l2_norm",
    "PorepyVerif.C01.rule_sound_safe_power",
    "PorepyVerif.C01.rule_regularized_heaviside",
    "PorepyVerif.C01.regularized_heaviside_not_exact",
    "PorepyVerif.C01.safe_power_generated_known",
    "PorepyVerif.C01.safe_power_as_found_unsound",
    "PorepyVerif.C01.rules_covered",
    "PorepyVerif.C01.raising_table",
    "PorepyVerif.C01.lib_plain_eq_val",
    "PorepyVerif.C01.plain_raising_known",
    "PorepyVerif.C01.ad_val",
    "PorepyVerif.C01.ad_jac",
    "PorepyVerif.C01.prog_ad_val",
    "PorepyVerif.C01.prog_ad_jac",
    "PorepyVerif.C01.den_subst",
    "PorepyVerif.C01.ad_subst",
    "PorepyVerif.C01.excluded_sets",
    "PorepyVerif.C01.kinks_necessary",
    "PorepyVerif.C01.table1_sound",
    "PorepyVerif.C01.table2_sound",
    "PorepyVerif.C01.dom_table_agrees",
    "PorepyVerif.C01.inDom_sound",
    "PorepyVerif.C01.prog_exact",
]
LEAN_MODULES = ["PorepyVerif.C01.Props"]
AUDIT = "PorepyVerif/C01/Audit.lean"
DRIVER = "PorepyVerif/C01/Driver.lean"
N = {"quick": 300, "thorough": 12000}
RULE = ("random AD program trees of depth 1-5 over 1-4 variables from initAdArrays (sizes 1-6): every overload "
        "(+ - * / ** and the reflected forms) with python scalars (int and float), numpy arrays (int and float dtype), other "
        "AdArrays (including the same object on both sides), straight-line programs with 0-3 shared intermediate results so that "
        "variables and results are used by several later operations as the SAME python object (expression DAGs), sparse matrices on the left (csr/csc, empty rows), row slicing "
        "(int, negative int, slices with steps, index arrays with repeats), every library function with its parameters, l2_norm "
        "(dim 1-3), maximum (AdArray/array/scalar on either side), RegularizedHeaviside; every library function is also called with the plain "
        "numpy array and must return the AdArray's values; operands are drawn so that every intermediate value lies inside "
        "the smooth domain of the next operation with a margin and stays below 1e4; plus ~5% trees that sit exactly ON a kink "
        "(ties in maximum, zero vectors in l2_norm, abs/heaviside at 0: compared with the model only) and ~6% trees with one "
        "illegal operation (sparse operand, @ misuse, size mismatch, bad l2_norm size, slice out of range: error kinds compared). "
        "non-trivial = at least 3 operation nodes, at least one chain-rule composition (a rule applied to a non-leaf) and at least "
        "one AdArray-AdArray, matrix, slicing, l2_norm or maximum node; distinct = distinct (tree, inputs)")
TRUSTED = [
    "translator c01_translate.py (python ast -> SExpr rules): its output is proved by Lean and cross-checked numerically, so a wrong translation shows up as a failing proof or a disagreement",
    "SExpr.evalF (Float, driver) and SExpr.evalR (reals, theorems) are two readings of the same generated terms; that Lean's Float functions (libm) and numpy agree to 1e-9 relative is checked by the correspondence run, not proved",
    "a ** b is read as Real.rpow: agrees with C pow for positive bases and for integer exponents (Real.rpow_intCast); arccosh/arctanh/arcsinh are Mathlib's arcosh/artanh/arsinh",
    "modelled, not verified: scipy sparse products and formats, numpy broadcasting of python scalars, pp.matrix_operations.merge_matrices / slice_sparse_matrix inside maximum (C35), binary64 rounding",
    "hand-modelled (source text pinned by the translator, not translated): __getitem__, initAdArrays, and the index bookkeeping of l2_norm that places factor k of group g in row g / column dim*g+k (Expr.slice / Expr.var / Expr.l2norm in the theorems, Tree.* in the driver); the numerical part of l2_norm, all five operand combinations of maximum and RegularizedHeaviside (with heaviside_smooth as regularization) are generated rules",
    "the translator refuses to run when a top-level function or class of functions.py has no rule (Gen.functions_found, theorem rules_covered) or when an interpreted function alters an operand in place",
    "RegularizedHeaviside is by design outside the property (value = sharp step, Jacobian = that of the regularization: theorems rule_regularized_heaviside / regularized_heaviside_not_exact); its Jacobian is compared with the model only",
    "aliasing / in-place modification of operands is a run-time notion the immutable Lean model cannot exhibit (a shared sub-expression is simply expanded in the model): that no operation alters an AdArray it is given is checked by the oracle only (operands and all inputs / shared results are compared bit for bit with copies taken before), and shows up in the correspondence as a wrong Jacobian of a later use",
    "the tree theorems index rows by natural numbers; array lengths and the size errors of the code are part of the Float model only",
]
EXPLANATION = ("Deepening round: maximum (5 operand combinations), l2_norm and RegularizedHeaviside are generated rules with their own soundness "
               "theorems; prog_ad_val / prog_ad_jac extend ad_val / ad_jac to straight-line programs with shared results (expression DAGs; "
               "den_subst / ad_subst: sharing = substitution); excluded_sets / kinks_necessary classify what the rule domains exclude "
               "(kinks of measure zero vs. domain restrictions). "
               "FULL on the smooth domain. Per generated rule: value expression = the real operation, Jacobian factor(s) = its derivative "
               "(HasDerivAt / joint HasFDerivAt) on an explicit domain. ad_val / ad_jac: for every program tree built from such rules, "
               "left matrix products, slicing, l2_norm (rows above its tolerance) and maximum (rows not tied), at every point, "
               "forward-mode values equal the plain evaluation and every Jacobian row is the Frechet derivative of that output "
               "component (induction over the tree). safe_power: the theorem is about the repaired rule; the rule at the pinned "
               "commit is proved NOT to be a derivative (safe_power_as_found_unsound; repaired in /repo since). "
               "Operand immutability (needed for expression DAGs that reuse one AdArray object) is tested by the oracle only.")
ASSUMPTIONS = ["inputs inside the smooth domain of every operation of the tree (margins enforced by the generator); numpy arrays are 1-d and of the AdArray's size"]

GEN_LEAN = os.path.join(common.LEAN, "PorepyVerif", "C01", "Generated.lean")
_TR = {}


def translate():
    """called by the harness before the build; raises if the sources left the translatable fragment"""
    info = c01_translate.translate(common.REPO, GEN_LEAN)
    _TR.update(info)
    out = {k: v for k, v in info.items() if k != "rule_terms"}
    sp = info["rule_terms"].get("safe_power", {}).get("dself")
    out["safe_power_rule"] = "as found at the pinned commit (mul power (pow vals ..))" if sp and sp[0] == "mul" else "repaired (masked derivative)"
    return out


# ----------------------------------------------------------------------------- numbers
def F(s):
    return float(Fraction(s))


def Fs(xs):
    return np.array([F(x) for x in xs], dtype=float)


def bits2f(b):
    return struct.unpack("<d", struct.pack("<Q", int(b)))[0]


LIB_SIG = {  # function -> order of (parameters..., var) as in functions.py; params are taken from node["p"]
    "safe_power": ("p", "p", "p", "var"), "heaviside": ("p", "var"), "heaviside_smooth": ("var", "p"), "characteristic_function": ("p", "var"),
}
REG = "regularized_heaviside"  # RegularizedHeaviside(partial(heaviside_smooth, eps=p[0]))(var, zerovalue=p[1])
UNARY = ["exp", "log", "abs", "sin", "cos", "tan", "arcsin", "arccos", "arctan", "sinh", "cosh", "tanh", "arcsinh", "arccosh", "arctanh"]
OPS = ["add", "radd", "sub", "rsub", "mul", "rmul", "pow", "rpow", "truediv", "rtruediv"]


# ----------------------------------------------------------------------------- plain numpy semantics (oracle side; works for complex input)
def _np_fn(f, x, p):
    re = np.real(x)
    if f == "neg":
        return -x
    if f == "abs":
        return x * np.sign(re)
    if f == "heaviside":
        return np.heaviside(re, p[0]) + 0 * x
    if f == REG:
        return np.heaviside(re, 0.0) + 0 * x
    if f == "heaviside_smooth":
        return 0.5 * (1 + (2 / np.pi) * np.arctan(x / p[0]))
    if f == "characteristic_function":
        return np.isclose(re, 0, atol=p[0]).astype(float) + 0 * x
    if f == "safe_power":
        power, zero_val, tol = p
        out = np.ones_like(x) * zero_val
        nz = np.abs(re) > tol
        out[nz] = x[nz] ** power
        return out
    return getattr(np, f)(x)


def _np_op(op, a, c):
    if op == "add":
        return a + c
    if op == "radd":
        return c + a
    if op == "sub":
        return a - c
    if op == "rsub":
        return c - a
    if op == "mul":
        return a * c
    if op == "rmul":
        return c * a
    if op == "pow":
        return a ** c
    if op == "rpow":
        return c ** a
    if op == "truediv":
        return a / c
    if op == "rtruediv":
        return c / a
    raise KeyError(op)


def _key_of(k):
    if k["t"] == "int":
        return int(k["i"])
    if k["t"] == "slice":
        return slice(k["start"], k["stop"], k["step"])
    return np.array(k["idx"], dtype=int)


def _operand(node, n):
    """constant operand of an op / maximum node as a numpy object (plain float array for the oracle)"""
    if "c" in node:
        return Fs(node["c"])
    return np.full(n, F(node["s"]))


def _np_eval(t, X, Lv):
    k = t["k"]
    if k == "ref":
        return Lv[t["i"]]
    if k == "var":
        return X[t["i"]]
    if k == "fn":
        return _np_fn(t["f"], _np_eval(t["a"], X, Lv), [F(x) for x in t["p"]])
    if k == "op":
        a = _np_eval(t["a"], X, Lv)
        kind = t["kind"]
        if kind == "S":
            c = F(t["c"])
        elif kind == "A":
            c = Fs(t["c"])
            if c.size != a.size:
                raise ValueError("size")
        elif kind == "Ad":
            c = a if t["b"] == "same" else _np_eval(t["b"], X, Lv)
            if c.size != a.size:
                raise ValueError("size")
            if t["op"] == "rmul":
                raise RuntimeError("AdArray.__rmul__(AdArray) is not reachable through `*` and refuses to answer")
        else:
            if t["op"] != "rmatmul":
                raise ValueError("sparse operand")
            M = np.array([[F(x) for x in row] for row in t["m"]]).reshape(len(t["m"]), t["cols"])
            if a.size != t["cols"]:
                raise ValueError("dimension")
            return M @ a
        if t["op"] in ("matmul", "rmatmul"):
            raise ValueError("matmul")
        return _np_op(t["op"], a, c)
    if k == "slice":
        a = _np_eval(t["a"], X, Lv)
        key = _key_of(t["key"])
        r = a[key]
        return np.array([r]) if np.ndim(r) == 0 else r
    if k == "copy":
        return _np_eval(t["a"], X, Lv)
    if k == "setitem":
        a = np.array(_np_eval(t["a"], X, Lv), copy=True)
        b = _np_eval(t["b"], X, Lv)
        if np.iscomplexobj(b):
            a = a.astype(complex)
        n_rows = np.atleast_1d(np.arange(a.size)[_key_of(t["key"])]).size
        if b.size != n_rows:
            raise ValueError("size")
        a[_key_of(t["key"])] = b
        return a
    if k == "l2":
        a = _np_eval(t["a"], X, Lv)
        if a.size % t["dim"] != 0:
            raise AssertionError("l2 size")
        r = np.reshape(a, (t["dim"], -1), order="F")
        if np.iscomplexobj(r):
            return np.sqrt(np.sum(r * r, axis=0))
        return np.linalg.norm(r, axis=0)
    if k in ("max", "maxR", "maxL"):
        a = _np_eval(t["a"], X, Lv)
        if k == "max":
            b = _np_eval(t["b"], X, Lv)
            if a.size != b.size:
                raise ValueError("size")
            return np.where(np.real(b) > np.real(a), b, a)
        c = _operand(t, a.size)
        if c.size != a.size:
            raise ValueError("size")
        if k == "maxR":
            return np.where(c > np.real(a), c + 0 * a, a)
        return np.where(np.real(a) > c, a, c + 0 * a)
    raise KeyError(k)


def np_eval(t, X, L=()):
    """Plain numpy evaluation of the program `L[0]; L[1]; ...; t` (every `{"k": "ref", "i": j}` stands for the value of L[j])
    at the list of variable arrays X (real or complex)."""
    Lv = []
    for d in L:
        Lv.append(_np_eval(d, X, Lv))
    return _np_eval(t, X, Lv)


def size_of(t, sizes, L=()):
    """output length of a tree (None if it raises)"""
    try:
        with np.errstate(all="ignore"):
            return int(np_eval(t, [np.zeros(s) + 1.5 for s in sizes], L).size)
    except Exception:
        return None


# ----------------------------------------------------------------------------- the real code
def _snap(ad):
    J = ad.jac.toarray() if sps.issparse(ad.jac) else np.array(ad.jac, dtype=float)
    return (np.array(ad.val, dtype=float, copy=True), np.array(J, dtype=float, copy=True))


def _unchanged(ad, snap):
    J = ad.jac.toarray() if sps.issparse(ad.jac) else np.asarray(ad.jac, dtype=float)
    return np.array_equal(ad.val, snap[0], equal_nan=True) and J.shape == snap[1].shape and np.array_equal(J, snap[1], equal_nan=True)


def _apply(t, a, b, c):
    """one operation of the real code; a = evaluated first operand, b = evaluated second AdArray operand (or None), c = constant"""
    from porepy.numerics.ad import functions as af
    k = t["k"]
    if k == "fn":
        if t["f"] == "neg":
            return -a
        p = [F(x) for x in t["p"]]
        if t["f"] == REG:
            from functools import partial
            return af.RegularizedHeaviside(partial(af.heaviside_smooth, eps=p[0]))(a, p[1])
        sig = LIB_SIG.get(t["f"], ("var",))
        it = iter(p)
        return getattr(af, t["f"])(*[a if s == "var" else next(it) for s in sig])
    if k == "op":
        kind, op = t["kind"], t["op"]
        if kind == "S":
            if t.get("syntax"):  # python operator syntax instead of the dunder call
                return {"add": lambda: a + c, "radd": lambda: c + a, "sub": lambda: a - c, "rsub": lambda: c - a, "mul": lambda: a * c,
                        "rmul": lambda: c * a, "pow": lambda: a ** c, "rpow": lambda: c ** a, "truediv": lambda: a / c,
                        "rtruediv": lambda: c / a, "matmul": lambda: a @ c, "rmatmul": lambda: c @ a}[op]()
        elif kind == "Ad":
            c = b
            if t.get("syntax") and not op.startswith("r"):
                return {"add": lambda: a + c, "sub": lambda: a - c, "mul": lambda: a * c, "pow": lambda: a ** c, "truediv": lambda: a / c,
                        "matmul": lambda: a @ c}[op]()
        elif kind == "Sp":
            if op == "rmatmul" and t.get("syntax"):
                return c @ a
        return getattr(a, f"__{op}__")(c)
    if k == "slice":
        return a[_key_of(t["key"])]
    if k == "copy":
        return a.copy()
    if k == "setitem":  # AdArray.__setitem__ with an AdArray value, on a copy (the method works in place by design)
        import warnings
        r = a.copy()
        with warnings.catch_warnings():
            warnings.simplefilter("ignore")
            r[_key_of(t["key"])] = b
        return r
    if k == "l2":
        return af.l2_norm(t["dim"], a)
    if k == "max":
        return af.maximum(a, b)
    return af.maximum(a, c) if k == "maxR" else af.maximum(c, a)


def _const_operand(t):
    k = t["k"]
    if k == "op":
        if t["kind"] == "S":
            c = F(t["c"])
            return int(c) if t.get("int") else c
        if t["kind"] == "A":
            c = Fs(t["c"])
            return c.astype(int) if t.get("int") else c
        if t["kind"] == "Sp":
            M = np.array([[F(x) for x in row] for row in t["m"]]).reshape(len(t["m"]), t["cols"])
            return sps.csc_matrix(M) if t.get("fmt") == "csc" else sps.csr_matrix(M)
        return None
    if k in ("maxR", "maxL"):
        return F(t["s"]) if "s" in t else Fs(t["c"])
    return None


def _impl_eval(t, ads, lets, watch=None):
    """Evaluate with the real code.  Variables and shared results (`ref`) are the SAME python objects wherever they occur.
    watch (a list) collects the operations that altered one of their AdArray operands."""
    k = t["k"]
    if k == "var":
        return ads[t["i"]]
    if k == "ref":
        return lets[t["i"]]
    a = _impl_eval(t["a"], ads, lets, watch)
    b = None
    if (k == "op" and t["kind"] == "Ad") or k in ("max", "setitem"):
        b = a if t["b"] == "same" else _impl_eval(t["b"], ads, lets, watch)
    c = _const_operand(t)
    if watch is None:
        return _apply(t, a, b, c)
    sa, sb = _snap(a), (_snap(b) if b is not None else None)
    try:
        return _apply(t, a, b, c)
    finally:
        if not _unchanged(a, sa) or (b is not None and not _unchanged(b, sb)):
            watch.append(_node_name(t))


def _run_real(case, watch=None, keep=None):
    """the program `lets; tree` on fresh initAdArrays.  keep (a list) receives (label, object, snapshot at creation) of every
    input AdArray and every shared result."""
    from porepy.numerics.ad.forward_mode import initAdArrays
    ads = initAdArrays([Fs(v) for v in case["vars"]])
    if keep is not None:
        keep += [(f"variable {i}", a, _snap(a)) for i, a in enumerate(ads)]
    lets = []
    for j, d in enumerate(case.get("lets", [])):
        r = _impl_eval(d, ads, lets, watch)
        lets.append(r)
        if keep is not None:
            keep.append((f"shared result {j}", r, _snap(r)))
    return _impl_eval(case["tree"], ads, lets, watch)


def _err(e):
    return {"err": type(e).__name__}


def impl_run(case):
    with np.errstate(all="ignore"):
        try:
            r = _run_real(case)
        except Exception as e:
            return _err(e)
    J = r.jac.toarray() if sps.issparse(r.jac) else np.asarray(r.jac)
    return {"val": [float(x) for x in r.val], "jac": [[float(x) for x in row] for row in np.atleast_2d(J)]}


# ----------------------------------------------------------------------------- the model
def _model_tree(t, sizes, L=(), Lm=()):
    k = t["k"]
    if k == "var":
        return {"k": "var", "i": t["i"]}
    if k == "ref":
        return Lm[t["i"]]
    if k == "fn":
        return {"k": "fn", "f": t["f"], "p": t["p"], "a": _model_tree(t["a"], sizes, L, Lm)}
    if k == "op":
        out = {"k": "op", "op": t["op"], "kind": t["kind"], "a": _model_tree(t["a"], sizes, L, Lm)}
        if t["kind"] in ("S", "A"):
            out["c"] = t["c"]
        elif t["kind"] == "Ad":
            out["b"] = _model_tree(t["a"] if t["b"] == "same" else t["b"], sizes, L, Lm)
        else:
            out["m"], out["cols"] = t["m"], t["cols"]
        return out
    if k == "slice":
        n = size_of(t["a"], sizes, L)
        try:
            idx = [int(i) for i in np.atleast_1d(np.arange(n if n is not None else 0)[_key_of(t["key"])])]
        except IndexError:
            idx = [10 ** 6]  # out of range: the model answers IndexError
        return {"k": "slice", "idx": idx, "a": _model_tree(t["a"], sizes, L, Lm)}
    if k == "copy":
        return {"k": "copy", "a": _model_tree(t["a"], sizes, L, Lm)}
    if k == "setitem":
        n = size_of(t["a"], sizes, L)
        try:
            idx = [int(i) for i in np.atleast_1d(np.arange(n if n is not None else 0)[_key_of(t["key"])])]
        except IndexError:
            idx = [10 ** 6]
        return {"k": "setitem", "idx": idx, "a": _model_tree(t["a"], sizes, L, Lm), "b": _model_tree(t["b"], sizes, L, Lm)}
    if k == "l2":
        return {"k": "l2", "dim": t["dim"], "a": _model_tree(t["a"], sizes, L, Lm)}
    if k == "max":
        return {"k": "max", "a": _model_tree(t["a"], sizes, L, Lm), "b": _model_tree(t["b"], sizes, L, Lm)}
    out = {"k": k, "a": _model_tree(t["a"], sizes, L, Lm)}
    out.update({"s": t["s"]} if "s" in t else {"c": t["c"]})
    return out


def model_ops(case):
    sizes = [len(v) for v in case["vars"]]
    L, Lm = case.get("lets", []), []
    for j, d in enumerate(L):
        Lm.append(_model_tree(d, sizes, L[:j], Lm))
    return [{"op": "eval", "vars": case["vars"], "tree": _model_tree(case["tree"], sizes, L, Lm)}]


def model_decode(outs, case):
    o = outs[0]
    if "err" in o:
        return o
    return {"val": [bits2f(b) for b in o["val"]], "jac": [[bits2f(b) for b in row] for row in o["jac"]], "dom": bool(o.get("dom"))}


TOL = 1e-9


def _close_arr(a, b, tol):
    a, b = np.asarray(a, dtype=float), np.asarray(b, dtype=float)
    if a.shape != b.shape:
        return f"shape {a.shape} vs {b.shape}"
    if a.size == 0:
        return None
    bad = ~((np.abs(a - b) <= tol * (1 + np.maximum(np.abs(a), np.abs(b)))) | (np.isnan(a) & np.isnan(b)) | ((a == b)))
    if bad.any():
        i = tuple(int(x) for x in np.argwhere(bad)[0])
        return f"entry {i}: {a[i]!r} vs {b[i]!r}"
    return None


def compare(impl, model, case):
    if "harness_exc" in impl:
        return "impl runner crashed: " + impl["harness_exc"]
    if "err" in impl or "err" in model:
        return None if impl == model else f"error kinds: impl {impl.get('err', 'ok')} vs model {model.get('err', 'ok')}"
    # the hypothesis of Props.prog_exact (InDom), evaluated by the driver: a case generated as smooth must satisfy it
    if case.get("kind") == "smooth" and not model.get("dom") and not any(n.get("f") == REG for n in _case_nodes(case)):
        return "the model finds a rule application outside its smooth domain (InDom false) in a case generated as smooth"
    d = _close_arr(impl["val"], model["val"], TOL)
    if d:
        return "val " + d
    ji, jm = np.array(impl["jac"], dtype=float), np.array(model["jac"], dtype=float)
    if ji.size == 0 and jm.size == 0:
        return None
    d = _close_arr(ji.reshape(len(impl["val"]), -1), jm.reshape(len(model["val"]), -1), TOL)
    return "jac " + d if d else None


# ----------------------------------------------------------------------------- oracle
def _complex_step(tree, X, h=1e-30, L=()):
    n = sum(x.size for x in X)
    cols = []
    for vi, x in enumerate(X):
        for j in range(x.size):
            Xc = [v.astype(complex) for v in X]
            Xc[vi][j] += 1j * h
            cols.append(np.imag(np_eval(tree, Xc, L)) / h)
    return np.array(cols).T if cols else np.zeros((int(np.size(np_eval(tree, X, L))), n))


def _central(tree, X, hh, L=()):
    cols = []
    for vi, x in enumerate(X):
        for j in range(x.size):
            Xp = [v.copy() for v in X]
            Xm = [v.copy() for v in X]
            Xp[vi][j] += hh
            Xm[vi][j] -= hh
            cols.append((np_eval(tree, Xp, L) - np_eval(tree, Xm, L)) / (2 * hh))
    return np.array(cols).T


def _richardson(tree, X, h=2e-4, L=()):
    return (4 * _central(tree, X, h / 2, L) - _central(tree, X, h, L)) / 3


def _expected_error(t):
    """documented errors: 'A violation of these rules will result in a ValueError' (class docstring of AdArray)"""
    if t["k"] == "op":
        if t["kind"] == "Sp" and t["op"] != "rmatmul":
            return "ValueError"
        if t["op"] == "matmul" or (t["op"] == "rmatmul" and t["kind"] != "Sp"):
            return "ValueError"
    for key in ("a", "b"):
        if isinstance(t.get(key), dict):
            e = _expected_error(t[key])
            if e:
                return e
    return None


def _node_name(t):
    k = t["k"]
    if k == "fn":
        return "fn." + t["f"]
    if k == "op":
        return f"op.{t['op']}_{t['kind']}"
    return k


def _check(tree, case, jac_check=True, L=None):
    """None or (what, kind) for the AdArray the real code produces for the program `L; tree` (L defaults to the case's lets)"""
    L = case.get("lets", []) if L is None else L
    sub = {"vars": case["vars"], "lets": L, "tree": tree}
    X = [Fs(v) for v in case["vars"]]
    with np.errstate(all="ignore"):
        try:
            want = np_eval(tree, X, L)
        except Exception:
            return None  # not a legal expression: nothing to say here
        watch, keep = [], []
        try:
            r = _run_real(sub, watch, keep)
        except Exception as e:
            slug = "-".join("".join(ch for ch in w if ch.isalnum() or ch == "_") for w in str(e).lower().split()[:4])
            return (f"{type(e).__name__} ({str(e)[:80]}) on a legal expression", f"raises-{type(e).__name__}-{slug}")
        # operands are values: no operation may alter an AdArray it was given (the same object may be used again later)
        if watch:
            return (f"{watch[0]} altered the value or Jacobian of one of its AdArray operands", "mutates-operand")
        for label, obj, snap in keep:
            if not _unchanged(obj, snap):
                return (f"{label} (val/jac) was altered while the expression was evaluated", "mutates-input")
        if not np.all(np.isfinite(want)):
            return None
        d = _close_arr(r.val, want, 1e-10)
        if d:
            return (f"value differs from plain numpy evaluation, {d}", "val")
        # the library function's own numpy-array branch must give the same values
        # (for RegularizedHeaviside only on the nodes marked by the generator: that branch is a listed finding, and cases that hit a
        # listed finding are not compared with the model)
        if tree["k"] in ("fn", "l2") and tree.get("f") != "neg" and (tree.get("f") != REG or tree.get("check_plain")):
            try:
                cv = np.real(np_eval(tree["a"], X, L))
                pv = _apply(tree, np.array(cv, dtype=float), None, None)
            except Exception as e:
                return (f"{type(e).__name__} ({str(e)[:80]}) when the function is given the plain numpy array", f"plain-raises-{type(e).__name__}")
            d = _close_arr(pv, want, 1e-10)
            if d:
                return (f"numpy-array branch differs from the AdArray value, {d}", "plain-val")
        if not jac_check:
            return None
        J = r.jac.toarray() if sps.issparse(r.jac) else np.asarray(r.jac)
        J = np.atleast_2d(J)
        Jc = _complex_step(tree, X, L=L)
        if J.shape != Jc.shape:
            return (f"Jacobian shape {J.shape}, expected {Jc.shape}", "jac-shape")
        if Jc.size == 0 or not np.all(np.isfinite(Jc)):
            return None
        scale = 1 + np.max(np.abs(Jc), axis=1, keepdims=True)
        bad = np.abs(J - Jc) > 1e-7 * scale
        if bad.any():
            i = tuple(int(x) for x in np.argwhere(bad)[0])
            return (f"Jacobian entry {i} is {J[i]!r}, the derivative (complex step) is {Jc[i]!r}", "jac")
        # second opinion by real finite differences.  A step can cross a kink of abs / maximum / heaviside although the point
        # itself is at a safe distance (large gradients), so a disagreement only counts if smaller steps confirm it.
        fmag = 1 + np.max(np.abs(want))
        worst = None
        for fd, tol in ((lambda: _richardson(tree, X, L=L), 1e-4), (lambda: _central(tree, X, 1e-7, L), 1e-3), (lambda: _central(tree, X, 1e-9, L), 3e-2)):
            Jr = fd()
            if not np.all(np.isfinite(Jr)):
                return None
            bad = np.abs(J - Jr) > tol * scale * fmag
            if not bad.any():
                return None
            i = tuple(int(x) for x in np.argwhere(bad)[0])
            worst = worst or (f"Jacobian entry {i} is {J[i]!r}, finite differences give {Jr[i]!r} (confirmed with steps 1e-7 and 1e-9)", "jac-fd")
        return worst
    return None


def _subtrees_postorder(t):
    for key in ("a", "b"):
        if isinstance(t.get(key), dict):
            yield from _subtrees_postorder(t[key])
    yield t


def _all_subprograms(case):
    """(sub-expression, shared results defined before it) in evaluation order"""
    L = case.get("lets", [])
    for j, d in enumerate(L):
        for sub in _subtrees_postorder(d):
            yield sub, L[:j]
    for sub in _subtrees_postorder(case["tree"]):
        yield sub, L


def _localise(case, jac_check):
    for sub, L in _all_subprograms(case):
        r = _check(sub, case, jac_check, L)
        if r is not None:
            return {"what": f"{_node_name(sub)}: {r[0]}", "key": f"{r[1]}:{_node_name(sub)}"}
    return None


def oracle(case):
    tree = case["tree"]
    exp_err = None
    for d in list(case.get("lets", [])) + [tree]:
        exp_err = exp_err or _expected_error(d)
    if exp_err:
        out = impl_run(case)
        if out.get("err") != exp_err:
            r = _localise(case, False)  # a legal sub-expression that already fails explains it
            return r or {"what": f"an illegal operand combination did not raise {exp_err}: got {out.get('err', 'a result')}", "key": "no-" + exp_err}
        return None
    if case.get("kind") == "error":
        return _localise(case, False)  # the legal sub-expressions must still be right
    # RegularizedHeaviside reports the Jacobian of its regularization, by design not the derivative of its value
    # (Props.regularized_heaviside_not_exact): programs using it are compared with the model only
    jac_check = case.get("kind") != "kink" and not any(n.get("f") == REG for n in _case_nodes(case))
    top = _check(tree, case, jac_check)
    if top is None:
        return None
    # localise: the first sub-expression (in evaluation order) whose AdArray is already wrong names the call site
    return _localise(case, jac_check) or {"what": f"{_node_name(tree)}: {top[0]}", "key": f"{top[1]}:{_node_name(tree)}"}


# ----------------------------------------------------------------------------- generator
VMAX = 1e4


class _Gen:
    def __init__(self, rng, tier):
        self.rng = rng
        self.vars = []  # list of float arrays
        self.lets = []  # shared sub-expressions (evaluated once, in order, before the main tree; referenced by {"k": "ref"})
        self.let_sizes = []
        self.maxvars = rng.choice([1, 2, 3, 3, 4])
        self.tier = tier

    def fl(self, lo, hi):
        # binary64 values with short decimal expansions and generic ones
        r = self.rng
        if r.random() < 0.3:
            return float(Fraction(r.randint(math.ceil(lo * 16), math.floor(hi * 16)), 16))
        return r.uniform(lo, hi)

    def new_var(self, size):
        v = np.array([self.fl(-2.0, 2.0) for _ in range(size)])
        self.vars.append(v)
        return len(self.vars) - 1

    def X(self):
        return self.vars

    def val(self, t):
        with np.errstate(all="ignore"):
            return np_eval(t, self.vars, self.lets)

    def leaf(self, size):
        r = self.rng
        shared = [j for j, n in enumerate(self.let_sizes) if n == size]
        if shared and r.random() < 0.5:
            return {"k": "ref", "i": r.choice(shared)}
        same = [i for i, v in enumerate(self.vars) if v.size == size]
        if same and (len(self.vars) >= self.maxvars or r.random() < 0.3):
            return {"k": "var", "i": r.choice(same)}
        if len(self.vars) < self.maxvars:
            return {"k": "var", "i": self.new_var(size)}
        # no variable of that size and no room for another one: select / combine rows of an existing one
        i = r.randrange(len(self.vars))
        m = self.vars[i].size
        if r.random() < 0.5:
            return self.mk_matmul({"k": "var", "i": i}, size, m)
        return {"k": "slice", "key": {"t": "arr", "idx": [r.randrange(m) for _ in range(size)]}, "a": {"k": "var", "i": i}}

    def mk_matmul(self, child, rows, cols):
        r = self.rng
        dens = r.choice([0.3, 0.6, 1.0])
        m = [[frac(self.fl(-2, 2)) if r.random() < dens else "0" for _ in range(cols)] for _ in range(rows)]
        return {"k": "op", "op": "rmatmul", "kind": "Sp", "m": m, "cols": cols, "fmt": r.choice(["csr", "csc"]), "syntax": r.random() < 0.5, "a": child}

    def ok(self, t, lo=None):
        v = self.val(t)
        return np.all(np.isfinite(v)) and np.all(np.abs(v) < VMAX)

    # -- one operation on top of `child` (value cv); returns a tree or None
    def unary_candidates(self, cv):
        c = ["sin", "cos", "arctan", "sinh", "cosh", "tanh", "arcsinh", "neg", "heaviside_smooth"]
        if np.all(cv < 6):
            c.append("exp")
        if np.all(cv > 0.05):
            c.append("log")
        if np.all(np.abs(cv) > 0.02):
            c += ["abs", "heaviside", "safe_power"]
            c.append(REG)
        if np.all(np.abs(np.cos(cv)) > 0.2):
            c.append("tan")
        if np.all(np.abs(cv) < 0.95):
            c += ["arcsin", "arccos", "arctanh"]
        if np.all(cv > 1.05):
            c.append("arccosh")
        c.append("characteristic_function")
        return c

    RESTRICTED = {"log": (0.1, 5.0), "arcsin": (-0.9, 0.9), "arccos": (-0.9, 0.9), "arctanh": (-0.9, 0.9), "arccosh": (1.1, 6.0), "tan": (-1.2, 1.2)}

    def adapt(self, child, L, U):
        """affine map (two more AD operations) taking the values of `child` into [L, U]"""
        r = self.rng
        cv = self.val(child)
        lo, hi = float(np.min(cv)), float(np.max(cv))
        sc = 1.0 if hi - lo < 1e-9 else min(4.0, (U - L) / (hi - lo) * r.uniform(0.4, 1.0))
        sc = float(Fraction(sc).limit_denominator(32)) or 1 / 32
        room = (U - L) - sc * (hi - lo)
        sh = L + max(room, 0.0) * r.random() - sc * lo
        t = {"k": "op", "op": r.choice(["mul", "rmul"]), "kind": "S", "c": frac(sc), "int": False, "syntax": r.random() < 0.5, "a": child}
        return {"k": "op", "op": r.choice(["add", "radd"]), "kind": "S", "c": frac(sh), "int": False, "syntax": r.random() < 0.5, "a": t}

    def mk_fn(self, child):
        r = self.rng
        if r.random() < 0.3:
            f = r.choice(sorted(self.RESTRICTED))
            child = self.adapt(child, *self.RESTRICTED[f])
            cv = self.val(child)
            if f in self.unary_candidates(cv):
                return {"k": "fn", "f": f, "p": [], "a": child}
        cv = self.val(child)
        f = r.choice(self.unary_candidates(cv))
        p = []
        if f == "heaviside":
            p = [frac(r.choice([0.0, 0.5, 1.0]))]
        elif f == "heaviside_smooth":
            p = [frac(r.choice([1e-3, 0.5, 2.0, 0.125]))]
        elif f == REG:
            p = [frac(r.choice([1e-3, 0.5, 2.0])), frac(r.choice([0.0, 0.5, 1.0]))]
            return {"k": "fn", "f": f, "p": p, "check_plain": r.random() < 0.4, "a": child}
        elif f == "characteristic_function":
            m = float(np.min(np.abs(cv)))
            big = float(np.max(np.abs(cv)))
            tol = r.choice([m / 2, big * 2 + 0.5]) if m > 0.02 else big * 2 + 0.5
            if np.any(np.abs(np.abs(cv) - tol) < 0.01):
                return None
            p = [frac(tol)]
        elif f == "safe_power":
            power = r.choice([-1.0, 2.0, 3.0, -2.0, 1.0, 0.5 if np.all(cv > 0.02) else 2.0])
            m = float(np.min(np.abs(cv)))
            tol = r.choice([1e-8, m / 2, m / 2, float(np.max(np.abs(cv))) + 0.5])
            p = [frac(power), frac(r.choice([0.0, 1.0, 0.5])), frac(tol)]
        return {"k": "fn", "f": f, "p": p, "a": child}

    def const_for(self, op, cv, scalar):
        """a constant operand (python scalar or array entry generator) keeping `op` smooth at the values cv"""
        r = self.rng
        n = 1 if scalar else cv.size
        if op == "pow":
            if np.all(cv > 0.05) and r.random() < 0.5:
                c = [self.fl(-2.0, 2.5) for _ in range(n)]
            else:
                lo = -3 if np.all(np.abs(cv) > 0.2) else 1  # near 0 only exponents >= 1 are smooth
                c = [float(r.randint(lo, 4)) for _ in range(n)]
        elif op == "rpow":
            c = [self.fl(0.1, 3.0) for _ in range(n)]
        elif op == "truediv":
            c = [r.choice([-1, 1]) * self.fl(0.2, 3.0) for _ in range(n)]
        else:
            c = [self.fl(-3.0, 3.0) for _ in range(n)]
        return c

    def mk_op_const(self, child):
        r = self.rng
        cv = self.val(child)
        op = r.choice(OPS)
        if op == "rtruediv" and np.any(np.abs(cv) < 0.1):
            op = "rmul"
        scalar = r.random() < 0.5
        c = self.const_for(op, cv, scalar)
        isint = r.random() < 0.3
        if isint:
            c = [float(round(x)) for x in c]
            if op in ("truediv",) and any(x == 0 for x in c):
                c = [x if x != 0 else 2.0 for x in c]
            if op == "rpow":
                c = [x if x >= 1 else 2.0 for x in c]
            if op == "pow" and np.any(np.abs(cv) < 0.2):
                c = [max(abs(x), 1.0) for x in c]
        if scalar:
            return {"k": "op", "op": op, "kind": "S", "c": frac(c[0]), "int": isint, "syntax": r.random() < 0.6, "a": child}
        return {"k": "op", "op": op, "kind": "A", "c": [frac(x) for x in c], "int": isint, "a": child}

    def mk_op_ad(self, a, b):
        r = self.rng
        av = self.val(a)
        bv = av if b == "same" else self.val(b)
        cands = ["add", "radd", "sub", "rsub", "mul"]
        if np.all(np.abs(bv) > 0.1):
            cands.append("truediv")
        if np.all(np.abs(av) > 0.1):
            cands.append("rtruediv")
        if np.all(av > 0.05) and np.all(np.abs(bv) < 4):
            cands += ["pow", "pow"]
        if np.all(bv > 0.05) and np.all(np.abs(av) < 4):
            cands += ["rpow"]
        return {"k": "op", "op": r.choice(cands), "kind": "Ad", "b": b, "syntax": r.random() < 0.6, "a": a}

    def mk_slice(self, size, depth):
        r = self.rng
        m = r.randint(size, max(size, min(8, size + 3)))
        child = self.tree(depth - 1, m)
        if child is None:
            return None
        kind = r.choice(["arr", "slice", "int"] if size == 1 else ["arr", "slice"])
        if kind == "int":
            key = {"t": "int", "i": r.randrange(-m, m)}
        elif kind == "arr":
            key = {"t": "arr", "idx": [r.randrange(m) for _ in range(size)]}
        else:
            step = r.choice([1, 1, 2, -1, 3])
            opts = []
            for start in list(range(m)) + [None]:
                for stop in list(range(0, m + 1)) + [None]:
                    if len(range(m)[slice(start, stop, step)]) == size:
                        opts.append((start, stop))
            if opts:
                start, stop = r.choice(opts)
                key = {"t": "slice", "start": start, "stop": stop, "step": step}
            else:
                key = {"t": "arr", "idx": [r.randrange(m) for _ in range(size)]}
        return {"k": "slice", "key": key, "a": child}

    def mk_setitem(self, size, depth):
        r = self.rng
        a = self.tree(depth - 1, size)
        if a is None:
            return None
        m = r.randint(1, size)
        mode = r.choice(["arr", "slice", "int"] if m == 1 else ["arr", "slice"])
        if mode == "int":
            key = {"t": "int", "i": r.randrange(-size, size)}
        elif mode == "arr":
            key = {"t": "arr", "idx": r.sample(range(size), m)}  # distinct rows, any order
        else:
            start = r.randint(0, size - m)
            key = {"t": "slice", "start": start, "stop": start + m, "step": 1}
        b = self.tree(r.randint(0, depth - 1), m)
        if b is None:
            return None
        return {"k": "setitem", "key": key, "a": a, "b": b}

    def mk_max(self, size, depth):
        r = self.rng
        a = self.tree(depth - 1, size)
        if a is None:
            return None
        av = self.val(a)
        mode = r.choice(["max", "max", "maxR", "maxL", "scalarR", "scalarL"])
        if mode == "max":
            b = self.tree(depth - 1, size)
            if b is None or np.any(np.abs(self.val(b) - av) < 0.02):
                return None
            return {"k": "max", "a": a, "b": b}
        if mode in ("maxR", "maxL"):
            c = [x + r.choice([-1, 1]) * self.fl(0.05, 1.5) for x in av]
            return {"k": mode, "a": a, "c": [frac(x) for x in c]}
        s = self.fl(float(np.min(av)) - 1, float(np.max(av)) + 1)
        if np.any(np.abs(av - s) < 0.02):
            return None
        return {"k": "maxR" if mode == "scalarR" else "maxL", "a": a, "s": frac(s)}

    def tree(self, depth, size):
        """a tree of output length `size`, all intermediate values smooth and bounded; None if unlucky"""
        r = self.rng
        if depth <= 0 or r.random() < 0.12:
            return self.leaf(size)
        for _ in range(6):
            kind = r.choices(["fn", "opc", "opad", "matmul", "slice", "l2", "max", "same", "setitem", "copy"], weights=[26, 20, 26, 9, 8, 5, 6, 2, 3, 1])[0]
            t = None
            if kind == "fn":
                c = self.tree(depth - 1, size)
                t = c and self.mk_fn(c)
            elif kind == "opc":
                c = self.tree(depth - 1, size)
                t = c and self.mk_op_const(c)
            elif kind == "opad":
                a = self.tree(depth - 1, size)
                b = self.tree(r.randint(0, depth - 1), size)
                t = a and b and self.mk_op_ad(a, b)
            elif kind == "same":
                a = self.tree(depth - 1, size)
                t = a and self.mk_op_ad(a, "same")
            elif kind == "matmul":
                cols = r.randint(1, 6)
                c = self.tree(depth - 1, cols)
                t = c and self.mk_matmul(c, size, cols)
            elif kind == "slice":
                t = self.mk_slice(size, depth)
            elif kind == "l2":
                dim = r.choice([d for d in (1, 2, 3) if d * size <= 12])
                c = self.tree(depth - 1, dim * size)
                if c is not None:
                    cv = np.reshape(self.val(c), (dim, -1), order="F")
                    if np.all(np.linalg.norm(cv, axis=0) > 0.02) and (dim > 1 or np.all(np.abs(cv) > 0.02)):
                        t = {"k": "l2", "dim": dim, "a": c}
            elif kind == "max":
                t = self.mk_max(size, depth)
            elif kind == "setitem":
                t = self.mk_setitem(size, depth)
            elif kind == "copy":
                c = self.tree(depth - 1, size)
                t = c and {"k": "copy", "a": c}
            if t and self.ok(t):
                return t
        return self.leaf(size)


def _finish(g, tree, kind):
    return {"kind": kind, "vars": [[frac(x) for x in v] for v in g.vars], "lets": g.lets, "tree": tree}


def _gen_smooth(rng, tier, size1=False):
    for _ in range(50):
        g = _Gen(rng, tier)
        depth = rng.choice([1, 2, 3, 3, 4, 4, 5])
        size = 1 if size1 else rng.randint(1, 6)
        # shared sub-expressions: results (and variables) that several later operations use as the same python object
        for _ in range(rng.choice([0, 0, 1, 1, 2, 3])):
            n = size if (size1 or rng.random() < 0.75) else rng.randint(1, 6)
            d = g.tree(rng.choice([1, 1, 2, 3]), n)
            if d is not None and d["k"] not in ("var", "ref") and g.ok(d):
                g.lets.append(d)
                g.let_sizes.append(n)
        t = g.tree(depth, size)
        if t is None or t["k"] in ("var", "ref") and rng.random() < 0.9:
            continue
        with np.errstate(all="ignore"):
            X = [v.copy() for v in g.vars]
            J = _complex_step(t, X, L=g.lets)
        if not (np.all(np.isfinite(J)) and np.all(np.abs(J) < 1e7)):
            continue
        return _finish(g, t, "smooth")
    raise RuntimeError("generator failed to produce a smooth tree")


def _gen_kink(rng, tier):
    """trees sitting exactly on a kink: only model-vs-implementation is compared (the property is silent there)"""
    g = _Gen(rng, tier)
    size = rng.randint(1, 4)
    mode = rng.choice(["tie", "l2zero", "abs0", "heav0", "char0", "l2tiny"])
    if mode in ("l2zero", "l2tiny"):
        dim = rng.choice([2, 3])
        a = g.tree(rng.randint(0, 2), dim * size)
        z = {"k": "op", "op": "sub", "kind": "Ad", "b": "same", "a": a} if mode == "l2zero" else \
            {"k": "op", "op": "mul", "kind": "S", "c": frac(1e-14), "a": a}
        t = {"k": "l2", "dim": dim, "a": z}
    else:
        a = g.tree(rng.randint(0, 2), size)
        z = {"k": "op", "op": "sub", "kind": "Ad", "b": "same", "a": a}
        if mode == "tie":  # a constant array equal to the values: the code takes the Jacobian of the FIRST argument
            # (only operations that are exact in binary64, so that both sides see the very same tie)
            a = {"k": "op", "op": "mul", "kind": "S", "c": rng.choice(["2", "-1/2", "1"]), "a": {"k": "var", "i": g.new_var(size)}}
            t = {"k": rng.choice(["maxR", "maxL"]), "a": a, "c": [frac(x) for x in g.val(a)]}
            if rng.random() < 0.5:
                t = {"k": "fn", "f": "sin", "p": [], "a": t}
        elif mode == "abs0":
            t = {"k": "fn", "f": "abs", "p": [], "a": z}
        elif mode == "heav0":
            t = {"k": "fn", "f": "heaviside", "p": [frac(rng.choice([0.0, 0.5, 1.0]))], "a": z}
        else:
            t = {"k": "fn", "f": "characteristic_function", "p": [frac(rng.choice([0.0, 1e-8]))], "a": z}
    return _finish(g, t, "kink")


def _gen_error(rng, tier):
    g = _Gen(rng, tier)
    size = rng.randint(2, 5)
    a = g.tree(rng.randint(0, 2), size)
    mode = rng.choice(["sparse", "sparse", "matmul", "rmatmul", "size_ad", "size_arr", "dim", "l2", "index", "rmul_ad"])
    M = [[frac(g.fl(-2, 2)) for _ in range(size)] for _ in range(size)]
    if mode == "sparse":
        t = {"k": "op", "op": rng.choice(OPS), "kind": "Sp", "m": M, "cols": size, "a": a}
    elif mode == "matmul":
        kind = rng.choice(["S", "A", "Ad", "Sp"])
        t = {"k": "op", "op": "matmul", "kind": kind, "a": a}
        if kind == "S":
            t["c"] = frac(g.fl(-2, 2))
        elif kind == "A":
            t["c"] = [frac(g.fl(-2, 2)) for _ in range(size)]
        elif kind == "Ad":
            t["b"] = "same"
        else:
            t["m"], t["cols"] = M, size
    elif mode == "rmatmul":
        kind = rng.choice(["S", "A", "Ad"])
        t = {"k": "op", "op": "rmatmul", "kind": kind, "a": a}
        if kind == "S":
            t["c"] = frac(g.fl(-2, 2))
        elif kind == "A":
            t["c"] = [frac(g.fl(-2, 2)) for _ in range(size)]
        else:
            t["b"] = "same"
    elif mode == "size_ad":
        b = g.tree(rng.randint(0, 1), size + 1)
        t = {"k": rng.choice(["op", "op", "max"]), "op": rng.choice(OPS), "kind": "Ad", "a": a, "b": b}
    elif mode == "size_arr":
        t = {"k": "op", "op": rng.choice(OPS), "kind": "A", "c": [frac(g.fl(0.5, 2)) for _ in range(size + 1)], "a": a}
    elif mode == "dim":
        t = {"k": "op", "op": "rmatmul", "kind": "Sp", "m": [[frac(g.fl(-2, 2)) for _ in range(size + 1)] for _ in range(2)], "cols": size + 1, "a": a}
    elif mode == "l2":
        t = {"k": "l2", "dim": size + 1 if size > 2 else 3 if size == 2 else 2, "a": a}
    elif mode == "index":
        a2 = {"k": "op", "op": "mul", "kind": "A", "c": [frac(g.fl(0.5, 2)) for _ in range(size)], "a": a}  # csr Jacobian
        t = {"k": "slice", "key": {"t": rng.choice(["int", "arr"]), "i": size + rng.randint(0, 2), "idx": [0, size + rng.randint(0, 2)]}, "a": a2}
    else:
        t = {"k": "op", "op": "rmul", "kind": "Ad", "b": "same", "a": a}
    if rng.random() < 0.4:
        t = {"k": "fn", "f": "sin", "p": [], "a": t}
    return _finish(g, t, "error")


def _gen_empty(rng, tier):
    """size 0: an empty variable (plus possibly a non-empty one) through unary functions, scalar arithmetic, itself, (rows x 0) matrices"""
    g = _Gen(rng, tier)
    g.vars.append(np.array([]))
    if rng.random() < 0.5:
        g.new_var(rng.randint(1, 3))
    t = {"k": "var", "i": 0}
    for _ in range(rng.randint(1, 4)):
        m = rng.choice(["fn", "S", "same", "slice"])
        if m == "fn":
            t = {"k": "fn", "f": rng.choice(["sin", "exp", "abs", "neg", "tanh"]), "p": [], "a": t}
        elif m == "S":
            t = {"k": "op", "op": rng.choice(["add", "mul", "rsub", "truediv", "pow"]), "kind": "S", "c": frac(g.fl(0.5, 3)), "syntax": True, "a": t}
        elif m == "same":
            t = {"k": "op", "op": rng.choice(["add", "mul", "sub"]), "kind": "Ad", "b": "same", "syntax": True, "a": t}
        else:
            t = {"k": "slice", "key": {"t": "slice", "start": 0, "stop": None, "step": 1}, "a": t}
    if rng.random() < 0.5:
        rows = rng.randint(1, 3)
        t = {"k": "op", "op": "rmatmul", "kind": "Sp", "m": [[] for _ in range(rows)], "cols": 0, "fmt": rng.choice(["csr", "csc"]), "syntax": True, "a": t}
    return _finish(g, t, "smooth")


def _gen_scaled(rng, tier):
    """extreme scale: inputs of magnitude 1e-8 .. 1e8 through + - * and constant divisors / matrices (no cancellation-prone functions)"""
    g = _Gen(rng, tier)
    size = rng.randint(1, 5)
    sc = [10.0 ** rng.choice([-8, -6, -3, 3, 6, 8]) for _ in range(2)]
    for k in range(2):
        g.vars.append(np.array([g.fl(0.5, 2.0) * rng.choice([-1, 1]) * sc[k] for _ in range(size)]))
    t = {"k": "var", "i": 0}
    for _ in range(rng.randint(2, 5)):
        m = rng.choice(["mulAd", "addAd", "S", "A", "mat", "neg"])
        other = {"k": "var", "i": rng.randrange(2)}
        if m == "mulAd":
            t = {"k": "op", "op": rng.choice(["mul", "rmul"]) if False else "mul", "kind": "Ad", "b": other, "syntax": True, "a": t}
        elif m == "addAd":
            t = {"k": "op", "op": rng.choice(["add", "sub", "rsub", "radd"]), "kind": "Ad", "b": other, "a": t}
        elif m == "S":
            t = {"k": "op", "op": rng.choice(["mul", "truediv", "rmul"]), "kind": "S", "c": frac(g.fl(0.5, 3) * 10.0 ** rng.choice([-4, 0, 4])), "syntax": True, "a": t}
        elif m == "A":
            t = {"k": "op", "op": rng.choice(["add", "rsub", "mul"]), "kind": "A", "c": [frac(g.fl(0.5, 3) * sc[0]) for _ in range(size)], "a": t}
        elif m == "mat":
            t = g.mk_matmul(t, size, size)
        else:
            t = {"k": "fn", "f": "neg", "p": [], "a": t}
    return _finish(g, t, "smooth")


def _gen_repeat(rng, tier):
    """the same operation applied 6-12 times in a row"""
    g = _Gen(rng, tier)
    size = rng.randint(1, 4)
    x = {"k": "var", "i": g.new_var(size)}
    g.vars[0] = np.clip(g.vars[0], -1.2, 1.2)
    t = x
    mode = rng.choice(["fn", "mul", "add", "sub", "neg", "pow2", "div"])
    for _ in range(rng.randint(6, 12)):
        if mode == "fn":
            t = {"k": "fn", "f": "sin", "p": [], "a": t}
        elif mode == "neg":
            t = {"k": "fn", "f": "neg", "p": [], "a": t}
        elif mode == "pow2":
            t = {"k": "op", "op": "rpow", "kind": "S", "c": "1/2", "syntax": True, "a": t}
        elif mode == "div":
            t = {"k": "op", "op": "rtruediv", "kind": "S", "c": "1", "syntax": True, "a": {"k": "op", "op": "add", "kind": "S", "c": "2", "a": t}}
        else:
            t = {"k": "op", "op": mode, "kind": "Ad", "b": x, "syntax": True, "a": t}
    if mode == "fn":
        for n_ in _nodes(t):
            if n_["k"] == "fn":
                n_["f"] = rng.choice(["sin", "tanh", "arctan", "cos"]) if rng.random() < 0.0 else n_["f"]
    return _finish(g, t, "smooth")


def gen_case(rng, tier):
    u = rng.random()
    if u < 0.06:
        c = _gen_error(rng, tier)
        c["stratum"] = "error"
    elif u < 0.11:
        c = _gen_kink(rng, tier)
        c["stratum"] = "kink"
    elif u < 0.15:
        c = _gen_smooth(rng, tier, size1=True)
        c["stratum"] = "size-1"
    elif u < 0.17:
        c = _gen_empty(rng, tier)
        c["stratum"] = "size-0"
    elif u < 0.21:
        c = _gen_scaled(rng, tier)
        c["stratum"] = "extreme-scale"
    elif u < 0.25:
        c = _gen_repeat(rng, tier)
        c["stratum"] = "repeated-operation"
    else:
        c = _gen_smooth(rng, tier)
        c["stratum"] = "general"
    return c


# ----------------------------------------------------------------------------- bookkeeping
def _nodes(t):
    return list(_subtrees_postorder(t))


def _case_nodes(case):
    out = []
    for d in list(case.get("lets", [])) + [case["tree"]]:
        out += _nodes(d)
    return out


def _depth(t):
    return 1 + max([_depth(t[k]) for k in ("a", "b") if isinstance(t.get(k), dict)] or [0])


def _shared_uses(case):
    """how often each python object that exists once (variable / shared result) is used as an operand"""
    from collections import Counter
    uses = Counter()
    for n in _case_nodes(case):
        if n["k"] == "var":
            uses[("var", n["i"])] += 1
        elif n["k"] == "ref":
            uses[("ref", n["i"])] += 1
        if n.get("b") == "same":
            uses[("same", id(n))] += 2
    return uses


def nontrivial(case):
    ns = _case_nodes(case)
    ops = [n for n in ns if n["k"] not in ("var", "ref")]
    chain = any(n["k"] in ("fn", "op") and n["a"]["k"] != "var" for n in ops)
    struct_ = any(n["k"] in ("slice", "l2", "max", "maxR", "maxL") or (n["k"] == "op" and n["kind"] in ("Ad", "Sp")) for n in ops)
    return case.get("kind") == "smooth" and len(ops) >= 3 and chain and struct_


def _renumber(t, drop):
    """tree with every ref > drop shifted down by one (ref == drop must not occur)"""
    out = dict(t)
    if t["k"] == "ref" and t["i"] > drop:
        out["i"] = t["i"] - 1
    for k in ("a", "b"):
        if isinstance(t.get(k), dict):
            out[k] = _renumber(t[k], drop)
    return out


def shrink_candidates(case):
    t = case["tree"]
    L = case.get("lets", [])
    # a shared result alone, with the shared results before it
    for j in reversed(range(len(L))):
        yield dict(case, lets=L[:j], tree=L[j])
    # drop a shared result nobody refers to
    for j in range(len(L)):
        rest = L[:j] + L[j + 1:] + [t]
        if not any(n["k"] == "ref" and n["i"] == j for d in rest for n in _nodes(d)):
            yield dict(case, lets=[_renumber(d, j) for d in L[:j] + L[j + 1:]], tree=_renumber(t, j))
    # promote any proper subtree to the root
    for sub in _subtrees_postorder(t):
        if sub is not t:
            yield dict(case, tree=sub)

    # replace one node by its first child
    def rebuild(node, target):
        if node is target:
            return node["a"]
        out = dict(node)
        for k in ("a", "b"):
            if isinstance(node.get(k), dict):
                out[k] = rebuild(node[k], target)
        return out
    for sub in _subtrees_postorder(t):
        if sub is not t and isinstance(sub.get("a"), dict):
            yield dict(case, tree=rebuild(t, sub))
    for j, d in enumerate(L):
        for sub in _subtrees_postorder(d):
            if isinstance(sub.get("a"), dict):
                yield dict(case, lets=L[:j] + [rebuild(d, sub)] + L[j + 1:])
    # simpler inputs
    simple = [[frac(round(F(x) * 4) / 4 or 0.5) for x in v] for v in case["vars"]]
    if simple != case["vars"]:
        yield dict(case, vars=simple)


def stats(cases, impl_outs):
    from collections import Counter
    kinds, nodes, depths, sizes, nv, nlets, strata = Counter(), Counter(), Counter(), Counter(), Counter(), Counter(), Counter()
    reused = 0
    for c in cases:
        kinds[c.get("kind", "?")] += 1
        depths[_depth(c["tree"])] += 1
        nv[len(c["vars"])] += 1
        for n in _case_nodes(c):
            nodes[_node_name(n)] += 1
        nlets[len(c.get("lets", []))] += 1
        strata[c.get("stratum", "corpus")] += 1
        for n in _case_nodes(c):
            if n["k"] in ("slice", "setitem") and n["key"]["t"] == "arr":
                idx = n["key"]["idx"]
                strata["index-array with repeated rows" if len(set(idx)) < len(idx) else "index-array permuted / unsorted" if idx != sorted(idx) else "index-array sorted"] += 1
            if n["k"] == "slice" and n["key"]["t"] == "slice" and (n["key"]["step"] or 1) < 0:
                strata["slice with negative step"] += 1
            if n["k"] == "slice" and n["key"]["t"] == "int" and n["key"]["i"] < 0:
                strata["negative integer index"] += 1
        if any(v >= 2 for v in _shared_uses(c).values()):
            reused += 1
    for o in impl_outs:
        sizes[len(o["val"]) if "val" in o else "err:" + o.get("err", "?")] += 1
    return {"case_kinds": dict(kinds), "tree_depth": {str(k): v for k, v in sorted(depths.items())}, "n_variables": {str(k): v for k, v in sorted(nv.items())},
            "output_size_or_error": {str(k): v for k, v in sorted(sizes.items(), key=lambda kv: str(kv[0]))},
            "strata": dict(sorted(strata.items())),
            "shared_results_per_case": {str(k): v for k, v in sorted(nlets.items())},
            "cases_using_one_AdArray_object_at_least_twice": reused,
            "node_kinds": dict(sorted(nodes.items())), "rules_generated": _TR.get("rules"),
            "rules_never_exercised": sorted(set((_TR.get("arith") or []) + (_TR.get("lib") or [])) - {n.split(".", 1)[1] for n in nodes if "." in n})}


