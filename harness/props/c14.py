"""C14 FV discretizations (MPFA, MPSA, Biot) do not depend on how the grid is split.

Real code: one-piece vs. split (num_subproblems / max_memory) vs. partial rediscretisation
(specified_cells/faces/nodes: fresh, in place via the parameter `update_discretization`, or via
`update_discretization()`), python vs. numba block inverter.
Lean model: the gluing bookkeeping (zero non-owned rows, map to global, sum, divide by repetition count,
replace rows on partial update).  The harness takes the REAL decomposition (`_fvutils.subproblems`) and the
REAL local matrices (`_flux_discretization`, `_stress_discretization`, `_local_discretization`), lets the Lean
driver glue them, and compares with the real glued result and with the one-piece result.
"""
import os

for _v in ("OPENBLAS_NUM_THREADS", "OMP_NUM_THREADS", "MKL_NUM_THREADS", "NUMBA_NUM_THREADS"):
    os.environ.setdefault(_v, "1")  # the local systems are tiny; threaded BLAS only adds contention

import json
import random
import warnings
from fractions import Fraction

from harness.common import frac

PID = "C14"
THEOREMS = [
    "PorepyVerif.C14.glue_entry",
    "PorepyVerif.C14.glue_eq_whole",
    "PorepyVerif.C14.glue_eq_whole_vec",
    "PorepyVerif.C14.glue_unowned_zero",
    "PorepyVerif.C14.glueNoScale_eq_whole",
    "PorepyVerif.C14.partial_fresh_rows",
    "PorepyVerif.C14.partial_update_rows",
    "PorepyVerif.C14.partial_update_eq_whole",
    "PorepyVerif.C14.partial_update_eq_whole_specified",
    "PorepyVerif.C14.l2g_maps_inverse",
    "PorepyVerif.C14.mapAll_entry_of_inj",
    "PorepyVerif.C14.glueAsCoded_eq_glue",
    "PorepyVerif.C14.glueAsCoded_eq_whole",
    "PorepyVerif.C14.regions_inside_of_contains_neighbours",
    "PorepyVerif.C14.own_face_regions_inside",
    "PorepyVerif.C14.own_cell_regions_inside",
    "PorepyVerif.C14.affected_face_regions_inside",
    "PorepyVerif.C14.partialFreshSplit_rows",
    "PorepyVerif.C14.partialFreshSplit_coded",
]
LEAN_MODULES = ["PorepyVerif.C14.Props"]
AUDIT = "PorepyVerif/C14/Audit.lean"
DRIVER = "PorepyVerif/C14/Driver.lean"
N = {"quick": 10, "thorough": 400}
TOL = 1e-10
RULE = ("grid (2-D/3-D Cartesian with perturbed interior nodes, structured triangles/tetrahedra, Delaunay grids of 4-8 random "
        "lattice points) x scheme (mpfa/mpsa/biot) x random SPD tensors (dyadic) x random Dirichlet faces x split "
        "(num_subproblems 1..9 or max_memory = peak/k; 35% of the cases come from a multi-owner family - triangle [3,2]/[4,2] or tetrahedral "
        "[2,1,1]/[2,2,1] grids with 2-9 subproblems - where some faces are owned by >= 3 subproblems, for all three schemes) x optional second split x optional numba run x optional partial "
        "rediscretisation (mode cells/faces/nodes, 1-3 random ids, parameters changed on the ids or not, applied fresh + in place "
        "via the parameter flag or via update_discretization(); 20-25% of the cases are the stratum 'partial update x split': Cartesian 6x6/7x6, "
        "triangles 4x4/5x4, Cartesian 4x4x4 with partition_arguments (num_subproblems 2/3/5 or max_memory) passed to the PARTIAL discretisation so "
        "that the extracted active subgrid is itself split into >= 2 subproblems); non-trivial = some face is owned by >= 2 real subproblems or a "
        "partial update is present (the maximal ownership count per scheme is reported in the input distribution); distinct = distinct case JSON")
TRUSTED = [
    "modelled, not verified: the local MPxA discretisation itself (what each subproblem computes) - it enters the theorems only through "
    "the locality hypothesis 'a subproblem reproduces the whole-grid rows of the faces it owns', which the oracle checks on the real code "
    "for every case (rows of faces_in_subgrid of every real subproblem vs. the one-piece matrix, 1e-10)",
    "modelled, not verified: scipy sparse products face_map*loc*cell_map, dia_matrix scaling, sparse row assignment, np.bincount/np.isin; "
    "binary64 rounding of sum-then-scale (compared with the exact rational model at 1e-10)",
    "the harness re-runs the per-subproblem parameter restriction (tensor.restrict_to_cells, _bc_for_subgrid) by calling the same porepy helpers",
    "partition_metis is not installed; the splits exercised are partition_structured / partition_coordinates",
]
EXPLANATION = ("CORE (bookkeeping): model = COO triplets + zeroing of non-owned rows + local->global index expansion + sum + division by "
               "bincount + row replacement; glue_eq_whole: cover + locality => glued = one-piece for any number of subproblems/overlaps; "
               "glueNoScale_eq_whole for Biot's cell-row terms; glue_eq_whole_vec (nd rows per face); glueAsCoded_eq_whole (the Mpfa shortcut as coded now); "
               "partial_update_rows / partial_update_eq_whole(_specified); l2g_maps_inverse; index-set locality: own_face_regions_inside, "
               "own_cell_regions_inside (subproblems()), affected_face_regions_inside (cell_ind_for_partial_update, any combination of cells/faces/nodes). "
               "Correspondence: the Lean driver glues the real local matrices with the real maps; result compared (1e-10) with the real "
               "split result, the one-piece result, the real fresh partial matrices and the real in-place update; the index sets of subproblems() and "
               "cell_ind_for_partial_update (incl. the empty-face-array quirk) are compared exactly with the model. Oracle: all matrices of "
               "data[DISCRETIZATION_MATRICES][kw] one piece vs. splits vs. partial vs. numba, plus the theorem hypotheses on the real decomposition.")
ASSUMPTIONS = ["tolerance class T (1e-10 relative to max(1, max|entry|)) between float results; the model is exact over the rationals",
               "Biot, specified_cells: the cell set handed to discretize() is widened by one layer of node neighbours (pp.partition.overlap), "
               "exactly as update_discretization() does for the cell-row terms; without it the rows of diagonal neighbours are not targeted",
               "update paths are exercised with the documented inputs only (ids within range, Dirichlet changes on boundary faces)"]

KW = "kw"
COUPLING = ("a", "b")


# ----------------------------------------------------------------------------- case generation
def _rand_pts(rng, dim):
    n = rng.randint(dim + 2, 6 + dim)
    seen, pts = set(), []
    while len(pts) < n:
        p = tuple(rng.randint(0, 8) for _ in range(dim))
        if p not in seen:
            seen.add(p)
            pts.append(p)
    return [[frac(Fraction(p[d], 4)) for p in pts] for d in range(dim)]


def gen_case(rng, tier):
    big = tier == "thorough"
    scheme = rng.choice(["mpfa", "mpfa", "mpsa", "biot"])
    r = rng.random()
    if r < 0.3:
        grid = {"type": "cart", "dims": [rng.randint(1, 5 if big else 4), rng.randint(1, 4 if big else 3)], "pert": rng.choice([0, rng.randint(1, 999)])}
    elif r < 0.45:
        mx = 3 if (big and scheme == "mpfa") else 2
        grid = {"type": "cart", "dims": [rng.randint(1, mx + 1), rng.randint(1, mx), rng.randint(1, 2)], "pert": rng.choice([0, rng.randint(1, 999)])}
    elif r < 0.65:
        grid = {"type": "tri", "dims": [rng.randint(1, 4 if big else 3), rng.randint(1, 3)], "pert": rng.choice([0, rng.randint(1, 999)])}
    elif r < 0.75:
        grid = {"type": "tet", "dims": [rng.randint(1, 2), rng.randint(1, 2 if big else 1), 1], "pert": 0}
    else:
        dim = 2 if rng.random() < 0.6 else 3
        grid = {"type": "pts", "pts": _rand_pts(rng, dim)}
    if rng.random() < 0.7:
        split = {"num_subproblems": rng.choice([1, 2, 2, 2, 3, 3, 4, 5, 6, 9])}
    else:
        split = {"max_memory_div": rng.choice([2, 3, 4, 7])}
    if rng.random() < 0.35:
        # multi-owner family: simplex grids split finely enough that some faces lie in THREE or more faces_in_subgrid
        # (calibrated on the real partition_coordinates decompositions; Cartesian grids and 2 subproblems never get there)
        scheme = rng.choice(["mpfa", "mpsa", "biot"])
        grid, split = rng.choice([
            ({"type": "tri", "dims": [3, 2], "pert": 0}, {"num_subproblems": rng.randint(5, 7)}),
            ({"type": "tri", "dims": [4, 2], "pert": 0}, {"num_subproblems": rng.randint(5, 9)}),
            ({"type": "tet", "dims": [2, 1, 1], "pert": 0}, {"num_subproblems": rng.randint(2, 6)}),
            ({"type": "tet", "dims": [2, 2, 1], "pert": 0}, {"num_subproblems": rng.randint(4, 8)}),
        ] if big else [
            ({"type": "tri", "dims": [3, 2], "pert": 0}, {"num_subproblems": rng.randint(5, 7)}),
            ({"type": "tri", "dims": [4, 2], "pert": 0}, {"num_subproblems": rng.randint(5, 9)}),
            ({"type": "tet", "dims": [2, 1, 1], "pert": 0}, {"num_subproblems": rng.randint(2, 6)}),
        ])
        if grid["type"] == "tri" and rng.random() < 0.5:
            grid = dict(grid, pert=rng.randint(1, 999))
    case = {
        "grid": grid,
        "scheme": scheme,
        "pseed": rng.randint(0, 10**6),
        "dir": [rng.randint(0, 999) for _ in range(rng.choice([0, 1, 2, 4]))],
        "split": split,
        "split2": rng.choice([None, {"num_subproblems": rng.randint(2, 8)}, {"max_memory_div": rng.randint(2, 6)}]),
        "numba": rng.random() < (0.3 if big else 0.2),
        "partial": None,
        "mats": [rng.randint(0, 99) for _ in range(3 if big else 2)],
    }
    if rng.random() < 0.6:
        mode = rng.choice(["cells", "faces", "nodes"])
        via = rng.choice(["flag", "flag", "method"]) if mode != "nodes" else rng.choice(["flag", "none"])
        if scheme == "biot" and via == "flag" and rng.random() < 0.7:
            via = "method" if mode != "nodes" else "none"  # the flag path of Biot is a recorded finding; keep most Biot cases comparable
        case["partial"] = {"mode": mode, "ids": [rng.randint(0, 9999) for _ in range(rng.randint(1, 3))],
                           "change": mode != "nodes" and rng.random() < 0.6, "via": via}
    if rng.random() < (0.25 if big else 0.2):
        case = _gen_partial_split(rng, big)
    return case


def _gen_partial_split(rng, big):
    """Stratum "partial update x split": a grid large enough that the stencil of the specified cells/faces/nodes is a proper
    subgrid, which is then itself split into >= 2 subproblems (num_subproblems 2/3/5 or max_memory driven)."""
    scheme = rng.choice(["mpfa", "mpfa", "mpsa", "biot"])
    r = rng.random()
    if r < 0.45:
        grid = {"type": "cart", "dims": [rng.randint(6, 7), 6], "pert": rng.choice([0, rng.randint(1, 999)])}
    elif r < 0.8:
        grid = {"type": "tri", "dims": [rng.randint(4, 5), 4], "pert": rng.choice([0, rng.randint(1, 999)])}
    else:
        scheme = "mpfa" if not big else rng.choice(["mpfa", "mpsa"])
        grid = {"type": "cart", "dims": [4, 4, 4], "pert": 0}
    mode = rng.choice(["cells", "faces", "nodes"])
    via = rng.choice(["flag", "flag", "method"]) if mode != "nodes" else rng.choice(["flag", "none"])
    psplit = {"num_subproblems": rng.choice([2, 3, 5])} if rng.random() < 0.7 else {"max_memory_div": rng.choice([3, 5, 8])}
    return {"grid": grid, "scheme": scheme, "pseed": rng.randint(0, 10**6), "dir": [rng.randint(0, 999) for _ in range(rng.choice([0, 2]))],
            "split": {"num_subproblems": rng.choice([2, 3])}, "split2": None, "numba": False,
            "partial": {"mode": mode, "ids": [rng.randint(0, 9999) for _ in range(rng.randint(1, 2))],
                        "change": mode != "nodes" and rng.random() < 0.6, "via": via, "split": psplit},
            "mats": [rng.randint(0, 99)]}


# ----------------------------------------------------------------------------- real code: set-up
def _pp():
    import numpy as np
    import porepy as pp
    from porepy.numerics.fv import _fvutils

    return np, pp, _fvutils


def _grid(case):
    np, pp, _ = _pp()
    gs = case["grid"]
    t = gs["type"]
    g = None
    if t == "pts":
        pts = np.array([[float(Fraction(x)) for x in row] for row in gs["pts"]])
        try:
            with warnings.catch_warnings():
                warnings.simplefilter("ignore")
                g = pp.TriangleGrid(pts) if pts.shape[0] == 2 else pp.TetrahedralGrid(pts)
                g.compute_geometry()
            if g.num_cells < 2 or float(g.cell_volumes.min()) < 1e-3:
                g = None
        except Exception:
            g = None
        if g is None:  # degenerate point set: deterministic fallback
            g = pp.StructuredTriangleGrid(np.array([2, 2])) if pts.shape[0] == 2 else pp.StructuredTetrahedralGrid(np.array([1, 1, 1]))
            g.compute_geometry()
        return g
    dims = np.array(gs["dims"])
    g = {"cart": pp.CartGrid, "tri": pp.StructuredTriangleGrid, "tet": pp.StructuredTetrahedralGrid}[t](dims)
    if gs.get("pert"):
        r = random.Random(gs["pert"])
        g.compute_geometry()
        bn = np.zeros(g.num_nodes, dtype=bool)
        bf = g.get_all_boundary_faces()
        bn[g.face_nodes[:, bf].nonzero()[0]] = True
        for n in range(g.num_nodes):
            for d in range(g.dim):
                dx = r.randint(-8, 8) / 64.0
                if not bn[n]:
                    g.nodes[d, n] += dx
    g.compute_geometry()
    return g


def _dyad(r, lo, hi):
    return r.randint(int(lo * 16), int(hi * 16)) / 16.0


def _params(case, g, new=False, inverter="python"):
    """Parameter dictionary of the scheme; `new` applies the change attached to the partial update."""
    np, pp, _ = _pp()
    r = random.Random(case["pseed"])
    nc = g.num_cells
    scheme = case["scheme"]
    bf = g.get_all_boundary_faces()
    dirf = sorted({int(bf[x % bf.size]) for x in case["dir"]})
    part = case.get("partial")
    ids = _ids(case, g) if part else None
    scale1 = np.ones(nc)
    scale2 = np.ones(nc)
    if new and part and part["change"]:
        if part["mode"] == "cells":
            scale1[ids] = 3.0
            scale2[ids] = 0.5
        elif part["mode"] == "faces":
            dirf = sorted(set(dirf) | {int(f) for f in ids})
    if scheme == "mpfa":
        diag = [np.array([_dyad(r, 1, 3) for _ in range(nc)]) for _ in range(3)]
        off = [np.array([_dyad(r, -0.25, 0.25) for _ in range(nc)]) for _ in range(3)]
        if g.dim == 2:
            k = pp.SecondOrderTensor(diag[0] * scale1, kyy=diag[1] * scale1, kxy=off[0] * scale1)
        else:
            k = pp.SecondOrderTensor(diag[0] * scale1, kyy=diag[1] * scale1, kzz=diag[2] * scale1,
                                     kxy=off[0] * scale1, kxz=off[1] * scale1, kyz=off[2] * scale1)
        bc = pp.BoundaryCondition(g, np.array(dirf, dtype=int), ["dir"] * len(dirf))
        return {"second_order_tensor": k, "bc": bc, "mpfa_inverter": inverter}
    mu = np.array([_dyad(r, 1, 3) for _ in range(nc)]) * scale1
    lam = np.array([_dyad(r, 1, 3) for _ in range(nc)]) * scale2
    alpha = np.array([_dyad(r, 0.5, 1.5) for _ in range(nc)]) * scale2
    bc = pp.BoundaryConditionVectorial(g, np.array(dirf, dtype=int), ["dir"] * len(dirf))
    p = {"fourth_order_tensor": pp.FourthOrderTensor(mu, lam), "bc": bc, "inverter": inverter}
    if scheme == "biot":
        p["scalar_vector_mappings"] = {"a": 1, "b": pp.SecondOrderTensor(alpha)}
    return p


def _ids(case, g):
    np, _, _ = _pp()
    part = case["partial"]
    mode = part["mode"]
    if mode == "faces" and part["change"]:
        bf = g.get_all_boundary_faces()
        return np.array(sorted({int(bf[x % bf.size]) for x in part["ids"]}), dtype=int)
    n = {"cells": g.num_cells, "faces": g.num_faces, "nodes": g.num_nodes}[mode]
    return np.array(sorted({x % n for x in part["ids"]}), dtype=int)


def _discr(scheme):
    _, pp, _ = _pp()
    return {"mpfa": pp.Mpfa, "mpsa": pp.Mpsa, "biot": pp.Biot}[scheme](KW)


def _data(p):
    _, pp, _ = _pp()
    return {pp.PARAMETERS: {KW: p}, pp.DISCRETIZATION_MATRICES: {KW: {}}}


def _flat(md):
    out = {}
    for k, v in md.items():
        if isinstance(v, dict):
            for k2, v2 in v.items():
                out[f"{k}/{k2}"] = v2
        else:
            out[k] = v
    return out


def _run(scheme, g, p):
    _, pp, _ = _pp()
    d = _data(p)
    with warnings.catch_warnings():
        warnings.simplefilter("ignore")
        _discr(scheme).discretize(g, d)
    return d


def _mats(d):
    _, pp, _ = _pp()
    return _flat(d[pp.DISCRETIZATION_MATRICES][KW])


def _table(scheme, dim):
    """matrix name -> (row kind, rows per entity, column kind, columns per entity, position in the local tuple)"""
    if scheme == "mpfa":
        t = {"flux": ("face", 1, "cell", 1, 0), "bound_flux": ("face", 1, "face", 1, 1),
             "bound_pressure_cell": ("face", 1, "cell", 1, 2), "bound_pressure_face": ("face", 1, "face", 1, 3)}
        if dim == 3:
            t["vector_source"] = ("face", 1, "cell", 3, 4)
            t["bound_pressure_vector_source"] = ("face", 1, "cell", 3, 5)
        return t
    d = dim
    if scheme == "mpsa":
        return {"stress": ("face", d, "cell", d, 0), "bound_stress": ("face", d, "face", d, 1),
                "bound_displacement_cell": ("face", d, "cell", d, 2), "bound_displacement_face": ("face", d, "face", d, 3)}
    t = {"stress": ("face", d, "cell", d, 0), "bound_stress": ("face", d, "face", d, 1),
         "bound_displacement_cell": ("face", d, "cell", d, 6), "bound_displacement_face": ("face", d, "face", d, 7)}
    for k in COUPLING:
        t[f"displacement_divergence/{k}"] = ("cell", 1, "cell", d, (2, k))
        t[f"boundary_displacement_divergence/{k}"] = ("cell", 1, "face", d, (3, k))
        t[f"scalar_gradient/{k}"] = ("face", d, "cell", 1, (4, k))
        t[f"mpsa_consistency/{k}"] = ("cell", 1, "cell", 1, (5, k))
        t[f"bound_displacement_pressure/{k}"] = ("face", d, "cell", 1, (8, k))
    return t


def _local_fields(scheme, D, grid, P, sub_sd, l2gc, l2gf, whole_grid):
    """The local discretisation of one subproblem of `grid` (parameters P live on `grid`) with the real code;
    returns the raw tuple, nothing removed."""
    _, pp, fv = _pp()
    with warnings.catch_warnings():
        warnings.simplefilter("ignore")
        if scheme == "mpfa":
            k = P["second_order_tensor"].restrict_to_cells(l2gc)
            bnd = D._bc_for_subgrid(P["bc"], sub_sd, l2gf, grid)
            return D._flux_discretization(sub_sd, k, bnd, eta=None, inverter="python", ambient_dimension=whole_grid.dim)
        c = P["fourth_order_tensor"].restrict_to_cells(l2gc)
        bnd = D._bc_for_subgrid(P["bc"], sub_sd, l2gf)
        if scheme == "mpsa":
            return D._stress_discretization(sub_sd, c, bnd, eta=None, inverter="python", hf_eta=None)
        alphas = {k: v.restrict_to_cells(l2gc) for k, v in P["alphas"].items()}
        return D._local_discretization(sub_sd, c, bnd, alphas, eta=fv.determine_eta(whole_grid), inverter="python")


def _pick(fields, pos):
    return fields[pos[0]][pos[1]] if isinstance(pos, tuple) else fields[pos]


def _with_alphas(case, g, P):
    """Biot: the per-cell coupling tensors exactly as Biot.discretize expands them."""
    np, pp, _ = _pp()
    if case["scheme"] != "biot":
        return P
    Q = dict(P)
    Q["alphas"] = {k: (pp.SecondOrderTensor(v * np.ones(g.num_cells)) if isinstance(v, (int, float)) else v)
                   for k, v in P["scalar_vector_mappings"].items()}
    return Q


def _restrict_params(case, D, g, P, cells, sub, faces):
    """Parameters restricted to the active grid of a partial discretisation (as discretize() does)."""
    scheme = case["scheme"]
    Q = {}
    if scheme == "mpfa":
        Q["second_order_tensor"] = P["second_order_tensor"].restrict_to_cells(cells)
        Q["bc"] = D._bc_for_subgrid(P["bc"], sub, faces, g)
    else:
        Q["fourth_order_tensor"] = P["fourth_order_tensor"].restrict_to_cells(cells)
        Q["bc"] = D._bc_for_subgrid(P["bc"], sub, faces)
        if scheme == "biot":
            Q["alphas"] = {k: v.restrict_to_cells(cells) for k, v in P["alphas"].items()}
    return Q


def _partition_args(case, g, spec):
    np, _, _ = _pp()
    D = _discr(case["scheme"])
    peak = D._estimate_peak_memory(g) if case["scheme"] == "mpfa" else D._estimate_peak_memory_mpsa(g)
    if "num_subproblems" in spec:
        return {"num_subproblems": int(spec["num_subproblems"])}, peak, None, int(spec["num_subproblems"])
    mm = int(np.ceil(peak / spec["max_memory_div"]))
    return {"max_memory": mm}, peak, mm, None


# ----------------------------------------------------------------------------- real code: everything one case needs
_CACHE = {}


def _key(case):
    return json.dumps(case, sort_keys=True)


def _exc(e):
    return {"err": type(e).__name__, "msg": str(e)[:200]}


def _rec(case):
    k = _key(case)
    if k in _CACHE:
        return _CACHE[k]
    if len(_CACHE) > 400:
        _CACHE.clear()
    rec = _compute(case)
    _CACHE[k] = rec
    return rec


def _compute(case):
    """All real-code results one case needs. An exception of the real code in the parts every other step builds on
    (one-piece discretisation, the decomposition and its local matrices) is recorded as rec["fatal"] and reported by the oracle."""
    try:
        return _compute_inner(case)
    except Exception as e:
        import traceback
        return {"fatal": _exc(e), "tb": traceback.format_exc()[-1200:], "subs": [], "table": {}}


def _compute_inner(case):
    np, pp, fv = _pp()
    scheme = case["scheme"]
    g = _grid(case)
    D = _discr(scheme)
    rec = {"g": g, "nf": g.num_faces, "nc": g.num_cells, "dim": g.dim, "table": _table(scheme, g.dim)}
    P_old = _params(case, g)
    rec["whole"] = _mats(_run(scheme, g, _params(case, g)))
    cnm, fnm = g.cell_nodes().tocsc(), g.face_nodes.tocsc()
    rec["cn"] = [sorted(int(x) for x in cnm.indices[cnm.indptr[c]:cnm.indptr[c + 1]]) for c in range(g.num_cells)]
    rec["fn"] = [sorted(int(x) for x in fnm.indices[fnm.indptr[f]:fnm.indptr[f + 1]]) for f in range(g.num_faces)]

    # --- splits -----------------------------------------------------------------------------
    for name in ("split", "split2"):
        spec = case.get(name)
        if not spec:
            continue
        pa, peak, mm, ns = _partition_args(case, g, spec)
        p = _params(case, g)
        p["partition_arguments"] = pa
        try:
            rec[name] = _mats(_run(scheme, g, p))
        except Exception as e:
            rec[name] = _exc(e)
        if name == "split":
            subs = []
            Pa = _with_alphas(case, g, P_old)
            for sub_sd, F, C, l2gc, l2gf in fv.subproblems(g, peak, mm, ns):
                fields = _local_fields(scheme, D, g, Pa, sub_sd, l2gc, l2gf, g)
                subs.append({"F": np.asarray(F).astype(int), "C": np.asarray(C).astype(int), "l2gc": np.asarray(l2gc).astype(int),
                             "l2gf": np.asarray(l2gf).astype(int), "fields": fields, "sub_sd": sub_sd})
            rec["subs"] = subs
            fm, _cm = pp.partition.subgrid_to_grid_mapping(g, subs[0]["l2gf"], subs[0]["l2gc"], is_vector=scheme != "mpfa")
            rec["face_map_rows"] = [int(x) for x in fm.tocsc().indices]

    # --- numba --------------------------------------------------------------------------------
    if case.get("numba"):
        try:
            rec["numba"] = _mats(_run(scheme, g, _params(case, g, inverter="numba")))
        except Exception as e:
            rec["numba"] = _exc(e)

    # --- partial rediscretisation ---------------------------------------------------------------
    part = case.get("partial")
    if part:
        mode, via = part["mode"], part["via"]
        ids = _ids(case, g)
        rec["ids"] = ids
        P_new = _params(case, g, new=True)
        rec["whole_new"] = _mats(_run(scheme, g, _params(case, g, new=True))) if part["change"] else rec["whole"]
        spec_ids = ids
        if scheme == "biot" and mode == "cells":
            # cell-row terms need one more layer: update_discretization() widens the set itself
            # (partial_update_discretization), for the flag path the harness passes the widened set
            spec_ids = pp.partition.overlap(g, ids, 1)
        rec["spec_ids"] = spec_ids
        with warnings.catch_warnings():
            warnings.simplefilter("ignore")
            ci, fi = fv.cell_ind_for_partial_update(g, **{mode: spec_ids})
            rec["cellind"] = {"cells": sorted({int(x) for x in ci}), "faces": sorted({int(x) for x in fi})}
            if mode == "cells":  # observation: an empty face array is not the same as None (the branches share active_faces)
                ci, fi = fv.cell_ind_for_partial_update(g, cells=spec_ids, faces=np.array([], dtype=int))
                rec["cellind_empty_faces"] = {"cells": sorted({int(x) for x in ci}), "faces": sorted({int(x) for x in fi})}
        # fresh partial discretisation (new parameters, empty matrix dictionary)
        ppa = None
        if part.get("split"):
            ppa, _pk, pmm, pns = _partition_args(case, g, part["split"])
        p = _params(case, g, new=True)
        p["specified_" + mode] = spec_ids
        if ppa:
            p["partition_arguments"] = ppa
        try:
            rec["fresh"] = _mats(_run(scheme, g, p))
            af = np.asarray(p["active_faces"]).astype(int)
            ac = np.asarray(p["active_cells"]).astype(int)
            rec["active_faces"], rec["active_cells"] = af, ac
            tmp = abs(g.cell_faces).T.tocsr()
            afv = np.zeros(g.num_faces)
            afv[af] = 1
            rec["update_cells"] = np.where(tmp @ afv > 0)[0].astype(int)
            nact = (abs(g.cell_faces).T @ (1 - afv))
            rec["full_cells"] = np.where(nact == 0)[0].astype(int)  # cells all of whose faces are active
            # cells whose whole stencil (all cells sharing a node) lies in the active grid: only their cell-wise
            # terms can be right on the active grid (repaired behaviour; finding biot:partial:cell-rows-incomplete-stencil)
            outside = np.ones(g.num_cells)
            outside[ac] = 0
            cn = g.cell_nodes().astype(int)
            trunc = (cn.T @ ((cn @ outside) > 0).astype(int)) > 0
            rec["incomplete_cells"] = np.where(trunc)[0].astype(int)
            rec["complete_update_cells"] = np.array([c for c in rec["update_cells"] if not trunc[c]], dtype=int)
            # the active grid and its local matrices (one piece), for the model
            sub, faces, _n = pp.partition.extract_subgrid(g, ac)
            Pn = _with_alphas(case, g, P_new)
            Q = _restrict_params(case, D, g, Pn, ac, sub, faces)
            fields = _local_fields(scheme, D, sub, Q, sub, np.arange(sub.num_cells), np.arange(sub.num_faces), g)
            rec["active_sub"] = {"F": af, "C": rec["complete_update_cells"], "l2gc": ac, "l2gf": np.asarray(faces).astype(int), "fields": fields}
            if ppa and sub.num_cells < g.num_cells:
                # the active grid is itself split: its real decomposition and local matrices (numbering of the active grid)
                peakA = D._estimate_peak_memory(sub) if scheme == "mpfa" else D._estimate_peak_memory_mpsa(sub)
                inner = []
                for sub2, F2, C2, l2gc2, l2gf2 in fv.subproblems(sub, peakA, pmm, pns):
                    f2 = _local_fields(scheme, D, sub, Q, sub2, l2gc2, l2gf2, g)
                    inner.append({"F": np.asarray(F2).astype(int), "C": np.asarray(C2).astype(int), "l2gc": np.asarray(l2gc2).astype(int),
                                  "l2gf": np.asarray(l2gf2).astype(int), "fields": f2})
                rec["active_inner"] = inner
                rec["active_nf"], rec["active_nc"] = sub.num_faces, sub.num_cells
        except Exception as e:
            rec["fresh"] = _exc(e)
        # update of an existing (old-parameter) discretisation
        if via == "flag":
            try:
                d = _run(scheme, g, _params(case, g))
                pn = _params(case, g, new=True)
                pn["update_discretization"] = True
                pn["specified_" + mode] = spec_ids
                if ppa:
                    pn["partition_arguments"] = ppa
                d[pp.PARAMETERS][KW] = pn
                with warnings.catch_warnings():
                    warnings.simplefilter("ignore")
                    _discr(scheme).discretize(g, d)
                rec["updated"] = _mats(d)
            except Exception as e:
                rec["updated"] = _exc(e)
        elif via == "method":
            try:
                d = _run(scheme, g, _params(case, g))
                d[pp.PARAMETERS][KW] = _params(case, g, new=True)
                if ppa:
                    d[pp.PARAMETERS][KW]["partition_arguments"] = ppa
                d["update_discretization"] = {"modified_" + mode: ids}
                with warnings.catch_warnings():
                    warnings.simplefilter("ignore")
                    _discr(scheme).update_discretization(g, d)
                rec["updated"] = _mats(d)
            except Exception as e:
                rec["updated"] = _exc(e)
    return rec


# ----------------------------------------------------------------------------- canonical forms
def _coo(m):
    c = m.tocoo()
    return [int(x) for x in c.row], [int(x) for x in c.col], [float(x) for x in c.data]


def _canon(m):
    """{"shape": [m, n], "e": {"r,c": float}} with duplicates summed and exact zeros dropped"""
    r, c, v = _coo(m)
    e = {}
    for i, j, x in zip(r, c, v):
        e[(i, j)] = e.get((i, j), 0.0) + x
    return {"shape": [int(m.shape[0]), int(m.shape[1])], "e": {f"{i},{j}": x for (i, j), x in sorted(e.items()) if x != 0.0}}


def _scale_of(*mats):
    s = 1.0
    for m in mats:
        if m is not None and not isinstance(m, dict) and m.nnz:
            s = max(s, float(abs(m).max()))
    return s


def _maxdiff(a, b):
    if a.shape != b.shape:
        return float("inf")
    d = (a - b)
    return float(abs(d).max()) if d.nnz else 0.0


def _chosen(case, rec):
    names = sorted(rec["table"])
    out = []
    for x in case["mats"]:
        n = names[x % len(names)]
        if n not in out:
            out.append(n)
    return out


# ----------------------------------------------------------------------------- impl side of the correspondence
def impl_run(case):
    rec = _rec(case)
    if "fatal" in rec:
        return {"fatal": rec["fatal"]["err"]}
    out = {"split": {}, "whole": {}, "fresh": {}, "updated": {}, "maps": {"gidx": rec.get("face_map_rows")},
           "subgrid": {"cells": [[int(x) for x in s["l2gc"]] for s in rec["subs"]], "faces": [[int(x) for x in s["F"]] for s in rec["subs"]]},
           "cellind": rec.get("cellind"), "cellind_empty_faces": rec.get("cellind_empty_faces")}
    for n in _chosen(case, rec):
        out["whole"][n] = _canon(rec["whole"][n])
        sp = rec.get("split")
        out["split"][n] = {"err": sp["err"]} if "err" in sp else _canon(sp[n])
        if case.get("partial"):
            fr = rec.get("fresh")
            out["fresh"][n] = {"err": fr["err"]} if "err" in fr else _canon(fr[n])
            up = rec.get("updated")
            if up is not None:
                out["updated"][n] = {"err": up["err"]} if "err" in up else _canon(up[n])
    return out


def _sub_json(sub, meta, zero_rows_not_sent=False):
    rowkind, ndr, colkind, ndc, pos = meta
    m = _pick(sub["fields"], pos)
    r, c, v = _coo(m)
    return {"own": [int(x) for x in (sub["F"] if rowkind == "face" else sub["C"])],
            "l2gR": [int(x) for x in (sub["l2gf"] if rowkind == "face" else sub["l2gc"])],
            "l2gC": [int(x) for x in (sub["l2gf"] if colkind == "face" else sub["l2gc"])],
            "rows": r, "cols": c, "vals": [frac(x) for x in v]}


def model_ops(case):
    rec = _rec(case)
    ops = []
    if "fatal" in rec:
        return ops
    for n in _chosen(case, rec):
        meta = rec["table"][n]
        rowkind, ndr, colkind, ndc, pos = meta
        nrow = rec["nf"] if rowkind == "face" else rec["nc"]
        ops.append({"op": "gluecoded" if case["scheme"] == "mpfa" else "glue", "tag": f"split:{n}", "ndr": ndr, "ndc": ndc,
                    "divide": rowkind == "face", "nrow": nrow, "subs": [_sub_json(s, meta) for s in rec["subs"]]})
        if case.get("partial") and "active_sub" in rec:
            if "active_inner" in rec:
                a = rec["active_sub"]
                ops.append({"op": "fresh2", "tag": f"fresh:{n}", "ndr": ndr, "ndc": ndc, "divide": rowkind == "face",
                            "coded": case["scheme"] == "mpfa", "nrow": rec["active_nf"] if rowkind == "face" else rec["active_nc"],
                            "subs": [_sub_json(x, meta) for x in rec["active_inner"]],
                            "outer": {"own": [int(x) for x in (a["F"] if rowkind == "face" else a["C"])],
                                      "l2gR": [int(x) for x in (a["l2gf"] if rowkind == "face" else a["l2gc"])],
                                      "l2gC": [int(x) for x in (a["l2gf"] if colkind == "face" else a["l2gc"])]}})
            else:
                ops.append({"op": "glue", "tag": f"fresh:{n}", "ndr": ndr, "ndc": ndc, "divide": False, "nrow": nrow, "store": True,
                            "subs": [_sub_json(rec["active_sub"], meta)]})
            if rec.get("updated") is not None:
                r, c, v = _coo(rec["whole"][n])
                active = rec["active_faces"] if rowkind == "face" else rec["complete_update_cells"]
                ops.append({"op": "update", "tag": f"updated:{n}", "ndr": ndr, "active": [int(x) for x in active],
                            "old": {"rows": r, "cols": c, "vals": [frac(x) for x in v]}})
    s0 = rec["subs"][0]
    nd = 1 if case["scheme"] == "mpfa" else rec["dim"]
    probe = sorted({int(f) * nd + (i % nd) for i, f in enumerate(s0["l2gf"][:6])})
    ops.append({"op": "subgrid", "tag": "subgrid", "cn": rec["cn"], "fn": rec["fn"], "parts": [[int(x) for x in s["C"]] for s in rec["subs"]]})
    if "cellind" in rec:
        mode = case["partial"]["mode"]
        spec = {"cells": None, "faces": None, "nodes": None}
        spec[mode] = [int(x) for x in rec["spec_ids"]]
        ops.append(dict({"op": "cellind", "tag": "cellind", "cn": rec["cn"], "fn": rec["fn"]}, **spec))
        if "cellind_empty_faces" in rec:
            ops.append(dict({"op": "cellind", "tag": "cellind_empty_faces", "cn": rec["cn"], "fn": rec["fn"]}, **dict(spec, faces=[])))
    ops.append({"op": "maps", "tag": "maps", "l2g": [int(x) for x in s0["l2gf"]], "nd": nd, "probe": probe})
    return ops


def model_decode(outs, case):
    rec = _rec(case)
    if "fatal" in rec:
        return {"fatal": rec["fatal"]["err"]}
    ops = model_ops(case)
    res = {"split": {}, "fresh": {}, "updated": {}, "maps": {}}
    for op, o in zip(ops, outs):
        tag = op["tag"]
        if tag == "maps":
            res["maps"] = {"gidx": o.get("gidx"), "back_ok": o.get("back") == list(range(len(o.get("gidx") or []))),
                           "lidx": o.get("lidx"), "probe": op["probe"], "l2g": op["l2g"], "nd": op["nd"]}
            continue
        if tag in ("subgrid", "cellind", "cellind_empty_faces"):
            res[tag] = o
            continue
        sec, n = tag.split(":", 1)
        if "err" in o:
            res[sec][n] = {"err": o["err"]}
            continue
        e = {}
        for i, j, x in zip(o["rows"], o["cols"], o["vals"]):
            e[(i, j)] = e.get((i, j), Fraction(0)) + Fraction(x)
        res[sec][n] = {"e": {f"{i},{j}": float(x) for (i, j), x in sorted(e.items()) if x != 0}}
        if "counts" in o and sec == "split":
            res[sec][n]["counts"] = o["counts"]
    return res


def _cmp_entries(a, b, scale, what):
    keys = set(a) | set(b)
    worst, wk = 0.0, None
    for k in keys:
        d = abs(a.get(k, 0.0) - b.get(k, 0.0))
        if d > worst:
            worst, wk = d, k
    if worst > TOL * scale:
        return f"{what}: entry ({wk}) differs by {worst:.3e} (impl {a.get(wk, 0.0)!r}, model {b.get(wk, 0.0)!r})"
    return None


def compare(impl, model, case):
    if "harness_exc" in impl:
        return f"impl_run raised: {impl['harness_exc']}"
    if "fatal" in impl:
        return None  # the real code raised before anything could be compared; the oracle reports it
    rec = _rec(case)
    for n, w in impl["whole"].items():
        scale = max([1.0] + [abs(x) for x in w["e"].values()])
        sp, ms = impl["split"][n], model["split"].get(n)
        if ms is None or "err" in ms or "err" in sp:
            return f"split:{n}: impl {sp if 'err' in sp else 'ok'} vs model {ms}"
        r = _cmp_entries(sp["e"], ms["e"], scale, f"real split result vs Lean glue of the real local matrices [{n}]")
        r = r or _cmp_entries(w["e"], ms["e"], scale, f"real one-piece result vs Lean glue of the real local matrices [{n}]")
        if r:
            return r
        if rec["table"][n][0] == "face":
            import numpy as np
            want = np.bincount(np.concatenate([s["F"] for s in rec["subs"]]), minlength=rec["nf"]).tolist()
            if ms.get("counts") != [int(x) for x in want]:
                return f"repetition counts: np.bincount {want} vs model {ms.get('counts')}"
        if n in impl["fresh"]:
            fr, mf = impl["fresh"][n], model["fresh"].get(n)
            if "err" in fr or mf is None or "err" in mf:
                return f"fresh:{n}: impl {fr if 'err' in fr else 'ok'} vs model {mf}"
            r = _cmp_entries(fr["e"], mf["e"], scale, f"real fresh partial matrix vs Lean partialFresh [{n}]")
            if r:
                return r
        if n in impl["updated"]:
            up, mu = impl["updated"][n], model["updated"].get(n)
            if "err" in up or mu is None or "err" in mu:
                return f"updated:{n}: impl {up if 'err' in up else 'ok'} vs model {mu}"
            r = _cmp_entries(up["e"], mu["e"], scale, f"real updated matrix vs Lean updateRows [{n}]")
            if r:
                return r
    for tag in ("subgrid", "cellind", "cellind_empty_faces"):
        if impl.get(tag) is not None:
            mo = model.get(tag)
            if mo is None or mo.get("cells") != impl[tag]["cells"] or mo.get("faces") != impl[tag]["faces"]:
                return f"{tag}: index sets of the real code {json.dumps(impl[tag])[:300]} vs model {json.dumps(mo)[:300]}"
    mm = model["maps"]
    if impl["maps"]["gidx"] != mm.get("gidx"):
        return f"index expansion: subgrid_to_grid_mapping rows {impl['maps']['gidx'][:12]}.. vs model gidx {str(mm.get('gidx'))[:80]}"
    if not mm.get("back_ok"):
        return "lidx(gidx(i)) != i in the model driver"
    l2g, nd = mm["l2g"], mm["nd"]
    want = [l2g.index(I // nd) * nd + I % nd for I in mm["probe"]]
    if want != mm["lidx"]:
        return f"lidx: expected {want}, model {mm['lidx']}"
    return None


# ----------------------------------------------------------------------------- oracle: the property on the real code
def _differs(rec, a, b, keys=None):
    """first matrix name where two flattened matrix dictionaries differ by more than the tolerance"""
    for n in (keys or sorted(a)):
        if n not in b:
            return n, float("inf")
        d = _maxdiff(a[n].tocsr(), b[n].tocsr())
        if not d <= TOL * _scale_of(a[n], b[n]):
            return n, d
    return None


def _rows(rec, n, ents):
    import numpy as np
    rowkind, ndr = rec["table"][n][0], rec["table"][n][1]
    ents = np.asarray(ents, dtype=int)
    return (ents[:, None] * ndr + np.arange(ndr)[None, :]).ravel()


_ORACLE = {}


def oracle(case):
    k = _key(case)
    if k not in _ORACLE:
        if len(_ORACLE) > 2000:
            _ORACLE.clear()
        _ORACLE[k] = _oracle(case)
    return _ORACLE[k]


def _oracle(case):
    import numpy as np
    import scipy.sparse as sps
    np_, pp, fv = _pp()
    rec = _rec(case)
    scheme = case["scheme"]
    desc = f"{scheme} on {json.dumps(case['grid'])[:120]}"
    if "fatal" in rec:
        return {"what": f"{desc}: split {case['split']}: the one-piece discretisation or the decomposition into subproblems raised "
                        f"{rec['fatal']['err']}: {rec['fatal']['msg']} | {rec['tb'][-300:]}", "key": f"{scheme}:decomposition:{rec['fatal']['err']}"}
    whole = rec["whole"]
    known = []  # failures that match a recorded finding are reported only if nothing else fails

    # hypotheses of the theorems on the real decomposition ------------------------------------------------
    subs = rec["subs"]
    nf, nc = rec["nf"], rec["nc"]
    cnt = np.bincount(np.concatenate([s["F"] for s in subs]), minlength=nf)
    if cnt.size != nf or cnt.min() < 1:
        return {"what": f"{desc}: split {case['split']}: faces {np.where(cnt[:nf] < 1)[0].tolist()} are in no faces_in_subgrid", "key": f"{scheme}:split:face-not-covered"}
    for s in subs:
        if np.unique(s["F"]).size != s["F"].size or not np.all(np.isin(s["F"], s["l2gf"])):
            return {"what": f"{desc}: faces_in_subgrid repeats an id or is not inside the subgrid", "key": f"{scheme}:split:faces-in-subgrid-malformed"}
        if np.unique(s["l2gf"]).size != s["l2gf"].size or np.unique(s["l2gc"]).size != s["l2gc"].size:
            return {"what": f"{desc}: local-to-global map not injective", "key": f"{scheme}:split:l2g-not-injective"}
    ccnt = np.bincount(np.concatenate([s["C"] for s in subs]), minlength=nc)
    if ccnt.size != nc or np.any(ccnt != 1):
        return {"what": f"{desc}: cells_in_subgrid is not a partition of the cells: counts {ccnt.tolist()}", "key": f"{scheme}:split:cells-not-partitioned"}
    late_full = [i for i, s in enumerate(subs) if i > 0 and s["F"].size == nf]
    for i, s in enumerate(subs):  # hypothesis of glueAsCoded_eq_glue: a subproblem owning all faces keeps the numbering
        if s["F"].size == nf and not (np.array_equal(s["l2gf"], np.arange(nf)) and np.array_equal(s["l2gc"], np.arange(nc))):
            return {"what": f"{desc}: subproblem {i} owns all faces but its local-to-global maps are not the identity", "key": f"{scheme}:split:full-cover-subproblem-not-identity"}
    # locality: every real subproblem reproduces the one-piece rows of the entities it owns
    for pi, s in enumerate(subs):
        for n, (rowkind, ndr, colkind, ndc, pos) in rec["table"].items():
            loc = _pick(s["fields"], pos).tocoo()
            # the local matrix in global numbering, by plain index arithmetic (independent of subgrid_to_grid_mapping)
            lr = s["l2gf"] if rowkind == "face" else s["l2gc"]
            lc = s["l2gf"] if colkind == "face" else s["l2gc"]
            G = sps.coo_matrix((loc.data, (lr[loc.row // ndr] * ndr + loc.row % ndr, lc[loc.col // ndc] * ndc + loc.col % ndc)),
                               shape=whole[n].shape).tocsr()
            own = s["F"] if rowkind == "face" else s["C"]
            rows = _rows(rec, n, own)
            d = _maxdiff(G[rows], whole[n].tocsr()[rows])
            if not d <= TOL * _scale_of(whole[n]):
                return {"what": f"{desc}: split {case['split']}: subproblem {pi} does not reproduce the one-piece rows of its own {rowkind}s in '{n}' (max diff {d:.3e}): overlap too small or wrong local-to-global maps",
                        "key": f"{scheme}:split:locality-violated"}

    # one piece vs. splits ---------------------------------------------------------------------------------
    for name in ("split", "split2"):
        if case.get(name) is None:
            continue
        got = rec[name]
        if "err" in got:
            return {"what": f"{desc}: {name} {case[name]} raised {got['err']}: {got['msg']}", "key": f"{scheme}:split:{got['err']}"}
        r = _differs(rec, whole, got)
        if r:
            full_late = late_full
            if name == "split2":
                pa, peak, mm, ns = _partition_args(case, rec["g"], case[name])
                full_late = [i for i, t in enumerate(fv.subproblems(rec["g"], peak, mm, ns)) if i > 0 and t[1].size == nf]
            f = {"what": f"{desc}: {name} {case[name]}: matrix '{r[0]}' differs from the one-piece discretisation by {r[1]:.3e}"
                         + (f" (subproblem {full_late} owns all faces and is not the first)" if full_late else ""),
                 "key": "mpfa:split:late-full-cover-subproblem" if (scheme == "mpfa" and full_late) else f"{scheme}:split:differs-from-one-piece"}
            if f["key"] == "mpfa:split:late-full-cover-subproblem":
                known.append(f)
            else:
                return f

    # numba vs. python ---------------------------------------------------------------------------------------
    if "numba" in rec:
        got = rec["numba"]
        if "err" in got:
            return {"what": f"{desc}: numba inverter raised {got['err']}: {got['msg']}", "key": f"{scheme}:numba:{got['err']}"}
        r = _differs(rec, whole, got)
        if r:
            return {"what": f"{desc}: inverter numba vs python: matrix '{r[0]}' differs by {r[1]:.3e}", "key": f"{scheme}:numba-differs"}

    # partial rediscretisation ---------------------------------------------------------------------------------
    part = case.get("partial")
    if part:
        mode, via = part["mode"], part["via"]
        pd = f"{desc}: specified_{mode}={rec['ids'].tolist()} change={part['change']}"
        wn = rec["whole_new"]
        fr = rec["fresh"]
        if "err" in fr:
            return {"what": f"{pd}: fresh partial discretisation raised {fr['err']}: {fr['msg']}", "key": f"{scheme}:partial-fresh:{fr['err']}"}
        for n, (rowkind, ndr, colkind, ndc, pos) in rec["table"].items():
            A, B = wn[n].tocsr(), fr[n].tocsr()
            if A.shape != B.shape:
                return {"what": f"{pd}: '{n}' has shape {B.shape}, expected {A.shape}", "key": f"{scheme}:partial-fresh-{mode}:shape"}
            target = rec["active_faces"] if rowkind == "face" else rec["full_cells"]
            allowed = rec["active_faces"] if rowkind == "face" else rec["update_cells"]
            rows = _rows(rec, n, target)
            d = _maxdiff(A[rows], B[rows]) if rows.size else 0.0
            if not d <= TOL * _scale_of(A):
                return {"what": f"{pd}: rows of the active {rowkind}s of '{n}' differ from the one-piece matrix by {d:.3e}", "key": f"{scheme}:partial-fresh-{mode}:target-rows-differ"}
            mask = np.ones(A.shape[0], dtype=bool)
            mask[_rows(rec, n, allowed)] = False
            other = B[np.where(mask)[0]]
            if other.nnz and float(abs(other).max()) > TOL:
                return {"what": f"{pd}: '{n}' has non-zero rows outside the active {rowkind}s", "key": f"{scheme}:partial-fresh-{mode}:non-target-rows-nonzero"}
            if rowkind == "cell":
                # every cell row a partial discretisation hands out (non-zero row) must be the one-piece row
                nzr = np.unique(B.nonzero()[0])
                bad = [int(i) for i in nzr if abs(A[i] - B[i]).max() > TOL * _scale_of(A)]
                if bad:
                    f = {"what": f"{pd}: fresh partial '{n}' hands out cell rows {bad[:8]} that differ from the one-piece matrix"
                                 + (" (cells whose stencil is not contained in the active grid)" if set(bad) <= set(rec["incomplete_cells"].tolist()) else ""),
                         "key": "biot:partial:cell-rows-incomplete-stencil" if set(bad) <= set(rec["incomplete_cells"].tolist()) else f"{scheme}:partial-fresh-{mode}:cell-rows-differ"}
                    if f["key"] == "biot:partial:cell-rows-incomplete-stencil":
                        known.append(f)
                    else:
                        return f
        up = rec.get("updated")
        if up is not None:
            if "err" in up:
                f = {"what": f"{pd}: update of an existing discretisation via {via} raised {up['err']}: {up['msg']}", "key": f"{scheme}:update-{via}:{up['err']}"}
                if f["key"] == "biot:update-flag:TypeError":
                    known.append(f)
                else:
                    return f
            else:
                r = _differs(rec, wn, up)
                if r:
                    n = r[0]
                    rowkind = rec["table"][n][0]
                    D_ = (wn[n] - up[n]).tocsr()
                    bad = sorted({int(i) // rec["table"][n][1] for i in np.unique(D_.nonzero()[0]) if abs(D_[i]).max() > TOL * _scale_of(wn[n])})
                    act = set((rec["active_faces"] if rowkind == "face" else rec["update_cells"]).tolist())
                    where = "targeted" if set(bad) <= act else "non-targeted"
                    f = {"what": f"{pd}: after the update via {via}, '{n}' differs from the one-piece matrix of the new parameters by {r[1]:.3e} in {where} {rowkind} rows {bad[:8]}",
                         "key": f"{scheme}:update-{via}-{mode}:{where}-rows-differ"}
                    if scheme == "biot" and rowkind == "cell" and set(bad) <= set(rec["incomplete_cells"].tolist()):
                        # the only wrong rows are cell rows of cells whose stencil is cut by the active grid; check that nothing else is wrong
                        facekeys = [k for k in sorted(wn) if rec["table"][k][0] == "face"]
                        r2 = _differs(rec, wn, up, facekeys)
                        others = [k for k in sorted(wn) if rec["table"][k][0] == "cell" and any(
                            abs((wn[k] - up[k]).tocsr()[i]).max() > TOL * _scale_of(wn[k]) for i in range(nc) if i not in set(rec["incomplete_cells"].tolist()))]
                        if r2 is None and not others:
                            f["key"] = "biot:partial:cell-rows-incomplete-stencil"
                            f["what"] += " (cells whose stencil is not contained in the active grid)"
                            known.append(f)
                            f = None
                    if f is not None:
                        return f
    return known[0] if known else None


# ----------------------------------------------------------------------------- bookkeeping for the evidence
def _max_owners(rec):
    import numpy as np
    return int(np.bincount(np.concatenate([s["F"] for s in rec["subs"]])).max())


def nontrivial(case):
    rec = _rec(case)
    if "fatal" in rec:
        return False
    return _max_owners(rec) >= 2 or case.get("partial") is not None


def shrink_candidates(case):
    if case.get("split2"):
        yield dict(case, split2=None)
    if case.get("numba"):
        yield dict(case, numba=False)
    if case.get("partial"):
        yield dict(case, partial=None)
        p = case["partial"]
        if len(p["ids"]) > 1:
            for i in range(len(p["ids"])):
                yield dict(case, partial=dict(p, ids=p["ids"][:i] + p["ids"][i + 1:]))
        if p["change"]:
            yield dict(case, partial=dict(p, change=False))
        if p.get("split") and p["split"].get("num_subproblems", 0) > 2:
            yield dict(case, partial=dict(p, split={"num_subproblems": 2}))
    if case["dir"]:
        yield dict(case, dir=case["dir"][1:])
    g = case["grid"]
    if g["type"] != "pts":
        if g.get("pert"):
            yield dict(case, grid=dict(g, pert=0))
        for i, d in enumerate(g["dims"]):
            if d > 1:
                dims = list(g["dims"])
                dims[i] = d - 1
                yield dict(case, grid=dict(g, dims=dims))
    else:
        n = len(g["pts"][0])
        if n > len(g["pts"]) + 2:
            for i in range(n):
                yield dict(case, grid=dict(g, pts=[row[:i] + row[i + 1:] for row in g["pts"]]))
    sp = case["split"]
    if sp.get("num_subproblems", 0) > 2:
        yield dict(case, split={"num_subproblems": sp["num_subproblems"] - 1})
    if len(case["mats"]) > 1:
        yield dict(case, mats=case["mats"][:1])


def stats(cases, impl_outs):
    out = {"scheme": {}, "grid": {}, "subproblems": {}, "max_face_repetition": {}, "partial_mode": {}, "partial_via": {}, "numba_runs": 0,
           "late_full_cover_subproblem": 0, "parameters_changed": 0}
    import numpy as np
    for c in cases:
        rec = _rec(c)
        if "fatal" in rec:
            out["fatal"] = out.get("fatal", 0) + 1
            continue
        out["scheme"][c["scheme"]] = out["scheme"].get(c["scheme"], 0) + 1
        gk = f"{c['grid']['type']}{rec['dim']}d"
        out["grid"][gk] = out["grid"].get(gk, 0) + 1
        ns = str(len(rec["subs"]))
        out["subproblems"][ns] = out["subproblems"].get(ns, 0) + 1
        mo = _max_owners(rec)
        mr = str(mo)
        out["max_face_repetition"][mr] = out["max_face_repetition"].get(mr, 0) + 1
        by = out.setdefault("max_face_owners_by_scheme", {})
        by[c["scheme"]] = max(by.get(c["scheme"], 0), mo)
        if mo >= 3:
            ge3 = out.setdefault("cases_with_a_face_owned_by_3_or_more_subproblems", {})
            ge3[c["scheme"]] = ge3.get(c["scheme"], 0) + 1
        if any(i > 0 and s["F"].size == rec["nf"] for i, s in enumerate(rec["subs"])):
            out["late_full_cover_subproblem"] += 1
        if c.get("numba"):
            out["numba_runs"] += 1
        o = oracle(c)
        if o is not None:
            out.setdefault("oracle_failures_by_key", {})
            out["oracle_failures_by_key"][o["key"]] = out["oracle_failures_by_key"].get(o["key"], 0) + 1
        p = c.get("partial")
        if p:
            out["partial_mode"][p["mode"]] = out["partial_mode"].get(p["mode"], 0) + 1
            out["partial_via"][p["via"]] = out["partial_via"].get(p["via"], 0) + 1
            out["parameters_changed"] += bool(p["change"])
            if "active_inner" in rec:
                ps = out.setdefault("partial_x_split", {"cases": 0, "by_scheme": {}, "by_mode": {}, "active_subproblems": {}, "max_active_face_owners": 0})
                ps["cases"] += 1
                ps["by_scheme"][c["scheme"]] = ps["by_scheme"].get(c["scheme"], 0) + 1
                ps["by_mode"][p["mode"]] = ps["by_mode"].get(p["mode"], 0) + 1
                k = str(len(rec["active_inner"]))
                ps["active_subproblems"][k] = ps["active_subproblems"].get(k, 0) + 1
                ps["max_active_face_owners"] = max(ps["max_active_face_owners"], int(np.bincount(np.concatenate([x["F"] for x in rec["active_inner"]])).max()))
    return out
