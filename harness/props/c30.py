"""C30 Distance computations are exact (porepy.geometry.distances)."""
import math
import warnings
from fractions import Fraction as F

import numpy as np

from harness.common import frac, err_kind, deep_compare

PID = "C30"
THEOREMS = [
    "PorepyVerif.C30.pt_pt_symm",
    "PorepyVerif.C30.pt_pt_zero_iff",
    "PorepyVerif.C30.pt_pt1_metric",
    "PorepyVerif.C30.pointset_entry",
    "PorepyVerif.C30.pt_seg_closest_on_seg",
    "PorepyVerif.C30.pt_seg_minimal",
    "PorepyVerif.C30.seg_seg_closest_on_segs",
    "PorepyVerif.C30.seg_seg_minimal",
    "PorepyVerif.C30.seg_seg_minimal_int",
    "PorepyVerif.C30.seg_set_entry",
    "PorepyVerif.C30.pt_poly_inside_plane_minimal",
    "PorepyVerif.C30.pt_poly_outside_boundary_minimal",
    "PorepyVerif.C30.pt_poly_le_boundary",
    "PorepyVerif.C30.membership_convex",
    "PorepyVerif.C30.convex_nearest_on_boundary",
    "PorepyVerif.C30.pt_polygon_minimal_convex",
    "PorepyVerif.C30.seg_poly_minimal_convex",
    "PorepyVerif.C30.seg_poly_attained_convex",
    "PorepyVerif.C30.seg_poly_cross_sound",
    "PorepyVerif.C30.seg_poly_general_min",
]
LEAN_MODULES = ["PorepyVerif.C30.Props"]
AUDIT = "PorepyVerif/C30/Audit.lean"
DRIVER = "PorepyVerif/C30/Driver.lean"
N = {"quick": 800, "thorough": 50000}
TOL_SS = F(1, 10**8)      # SMALL_TOLERANCE factor of segment_segment_set
TOL_P = F(1, 10**5)       # default tol of points_polygon / segments_polygon
RULE = ("one call of point_pointset (exponent 2 or 1) / pointset (with and without max_diag) / points_segments / segment_segment_set / segment_set / points_polygon / segments_polygon per case, "
        "2-d and 3-d, coordinates small dyadic rationals (k/1,k/2,k/4, |k|<=16) so that all dot products are exact in binary64; "
        "structured placements: collinear, parallel (offset / overlapping / disjoint), shared end points, T-touching, crossing, skew, "
        "perpendicular foot inside/at/outside the ends, zero-length segments (dedicated stream), a power-of-two rescaling stream "
        "(2^-20..2^12) for segment-segment; polygons: simple star-shaped (convex and non-convex, 3-7 vertices, both orientations) in the "
        "xy-plane or in a random integer frame, points above the interior / an edge / a vertex / outside / in the plane, segments "
        "crossing, touching, parallel above, inside the plane, aimed at the polygon but stopping short; single points / segments are also passed as 1-d arrays (alternative entry form); explicit strata are counted in input_distribution.strata; pairs that are nearly but not exactly "
        "parallel (0 < sin^2 < 1e-6, the kernel's tolerance band is 1e-8) are dropped and counted; non-trivial = not (everything in general position: a placement class "
        "other than 'random' was used or a polygon is non-convex); distinct = distinct cases")
TRUSTED = [
    "modelled, not verified: numpy broadcasting / masking glue of the vectorised kernels, np.argmin tie order, np.ma comparisons",
    "modelled, not verified: project_plane_matrix / rotation to the xy-plane (model projects with an un-normalised Newell normal and drops the dominant axis instead)",
    "NON-CONVEX polygons only: that the winding-number test decides membership, and that a point whose projection is outside has its nearest polygon "
    "point on the boundary, are tied by correspondence + exact rational oracle (for CONVEX planar polygons both are theorems: membership_convex, "
    "convex_nearest_on_boundary, pt_polygon_minimal_convex, seg_poly_minimal_convex)",
    "the tolerance devices (parallel test and snap of segment_segment_set, |dz| > tol of segments_polygon) are outside the minimality theorems: explicit decidable "
    "hypotheses (`exact = true`, reported per case by the driver and true for every generated case; incline zero or above tol) say they do not fire on non-zero "
    "quantities; seg_seg_minimal_int discharges `exact = true` for integer coordinates with tol*|u|^2*|v|^2 <= 1",
]
EXPLANATION = ("FULL for point-point, point-segment, segment-segment (minimality over the whole segment(s), all branches incl. parallel and zero-length, "
               "proved via the KKT conditions of the convex quadratic; unconditional for integer data under an explicit bound), and FULL for CONVEX planar "
               "polygons: the winding test as coded accepts exactly the points of the closed polygon off its boundary (membership_convex), the returned "
               "point-polygon distance is the minimum over the whole polygon and is attained at the returned point (pt_polygon_minimal_convex), and the "
               "segment-polygon distance is a lower bound for all pairs of points (seg_poly_minimal_convex). CORE (partial) for NON-CONVEX polygons: distance = "
               "plane distance when the projection is accepted, else minimum over boundary segments; segment-polygon = crossing point or min(end points, "
               "boundary segments); membership and sufficiency of these candidates are tied there by correspondence + exact rational oracle only. "
               "The length scale (2^-20..2^12) is a stratified generator dimension of every function; all tolerances of the oracle and the comparison are "
               "relative to the extent of the configuration.")
ASSUMPTIONS = ["inputs are dyadic with few bits, so the rational model and binary64 agree up to the final divisions / square roots (class T, 1e-9)",
               "polygons are planar, simple, with at least three non-collinear vertices"]

# ----------------------------------------------------------------------------- exact rational geometry (oracle side)
def sub(a, b):
    return [x - y for x, y in zip(a, b)]


def add(a, b):
    return [x + y for x, y in zip(a, b)]


def scl(k, a):
    return [k * x for x in a]


def dot(a, b):
    return sum((x * y for x, y in zip(a, b)), F(0))


def nsq(a):
    return dot(a, a)


def clamp01(x):
    return F(0) if x < 0 else (F(1) if x > 1 else x)


def x_pt_seg(p, a, b):
    """exact (squared distance, closest point, parameter)"""
    u = sub(b, a)
    uu = nsq(u)
    if uu == 0:
        return nsq(sub(p, a)), list(a), F(0)
    t = clamp01(dot(sub(p, a), u) / uu)
    q = add(a, scl(t, u))
    return nsq(sub(p, q)), q, t


def x_seg_seg(p0, p1, q0, q1):
    """exact squared distance of two segments: the convex quadratic |w + s u - t v|^2 on the unit square attains its minimum
    at the interior stationary point or on one of the four edges (each a point-segment problem)."""
    u, v, w = sub(p1, p0), sub(q1, q0), sub(p0, q0)
    a, b, c, d, e = nsq(u), dot(u, v), nsq(v), dot(u, w), dot(v, w)
    cands = []
    D = a * c - b * b
    if D != 0:
        s, t = (b * e - c * d) / D, (a * e - b * d) / D
        if 0 <= s <= 1 and 0 <= t <= 1:
            cands.append((s, t))
    for s in (F(0), F(1)):
        cands.append((s, x_pt_seg(add(p0, scl(s, u)), q0, q1)[2]))
    for t in (F(0), F(1)):
        cands.append((x_pt_seg(add(q0, scl(t, v)), p0, p1)[2], t))
    return min(nsq(sub(add(p0, scl(s, u)), add(q0, scl(t, v)))) for s, t in cands)


def cross(a, b):
    return [a[1] * b[2] - a[2] * b[1], a[2] * b[0] - a[0] * b[2], a[0] * b[1] - a[1] * b[0]]


def x_normal(poly):
    n = len(poly)
    for i in range(1, n):
        for j in range(i + 1, n):
            c = cross(sub(poly[i], poly[0]), sub(poly[j], poly[0]))
            if any(x != 0 for x in c):
                return c
    return None


def x_to2d(n):
    k = max(range(3), key=lambda i: abs(n[i]))
    ax = [i for i in range(3) if i != k]
    return lambda v: [v[ax[0]], v[ax[1]]]


def x_in_poly_2d(poly2, p):
    """exact even-odd rule: 1 inside, 0 on the boundary, -1 outside (simple polygon)"""
    n = len(poly2)
    for i in range(n):
        a, b = poly2[i], poly2[(i + 1) % n]
        cr = (b[0] - a[0]) * (p[1] - a[1]) - (b[1] - a[1]) * (p[0] - a[0])
        if cr == 0 and min(a[0], b[0]) <= p[0] <= max(a[0], b[0]) and min(a[1], b[1]) <= p[1] <= max(a[1], b[1]):
            return 0
    inside = False
    for i in range(n):
        a, b = poly2[i], poly2[(i + 1) % n]
        if (a[1] > p[1]) != (b[1] > p[1]):
            x = a[0] + (p[1] - a[1]) * (b[0] - a[0]) / (b[1] - a[1])
            if x > p[0]:
                inside = not inside
    return 1 if inside else -1


def x_on_edge_extension(poly, q):
    """q (in the plane) is collinear with the line through some edge"""
    k = len(poly)
    for i in range(k):
        a, b = poly[i], poly[(i + 1) % k]
        if all(x == 0 for x in cross(sub(b, a), sub(q, a))):
            return True
    return False


def x_project(p, o, n):
    k = dot(sub(p, o), n) / nsq(n)
    return sub(p, scl(k, n)), k * k * nsq(n)


def x_membership(poly, q):
    n = x_normal(poly)
    f = x_to2d(n)
    return x_in_poly_2d([f(v) for v in poly], f(q))


def x_pt_poly(p, poly):
    """exact (squared distance to the closed planar polygon, a closest point, membership of the projection, unique?)"""
    n = x_normal(poly)
    q, h2 = x_project(p, poly[0], n)
    m = x_membership(poly, q)
    if m >= 0:
        return h2, q, m, True
    k = len(poly)
    res = [x_pt_seg(p, poly[i], poly[(i + 1) % k]) for i in range(k)]
    d2 = min(r[0] for r in res)
    cps = {tuple(r[1]) for r in res if r[0] == d2}
    cp = next(r[1] for r in res if r[0] == d2)
    return d2, cp, m, len(cps) == 1


def x_seg_poly(s, e, poly):
    """exact squared distance segment - closed planar polygon"""
    n = x_normal(poly)
    hs, he = dot(sub(s, poly[0]), n), dot(sub(e, poly[0]), n)
    if hs != he:
        t = hs / (hs - he)
        if 0 <= t <= 1 and x_membership(poly, add(s, scl(t, sub(e, s)))) >= 0:
            return F(0)
    best = min(x_pt_poly(s, poly)[0], x_pt_poly(e, poly)[0])
    k = len(poly)
    for i in range(k):
        best = min(best, x_seg_seg(s, e, poly[i], poly[(i + 1) % k]))
    return best


# ----------------------------------------------------------------------------- case encoding
def enc(v):
    return [frac(x) for x in v]


def dec(v, k=0):
    m = F(2) ** k
    return [F(x) * m for x in v]


def fl(v):
    return [float(x) for x in v]


def cols(vs):
    """list of points -> (nd, n) float array"""
    nd = len(vs[0])
    return np.array([fl(v) for v in vs], dtype=float).T.reshape(nd, len(vs))


def fr(v):
    return [F(float(x)) for x in v]


def fstr(x):
    x = float(x)
    return "nan" if not math.isfinite(x) else frac(x)


def _pts(case, key):
    return [dec(v, case.get("k", 0)) for v in case[key]]


def _segs(case, key):
    return [(dec(s[0], case.get("k", 0)), dec(s[1], case.get("k", 0))) for s in case[key]]


# ----------------------------------------------------------------------------- generators
def rq(rng, r=4):
    return F(rng.randint(-4 * r, 4 * r), rng.choice([4, 4, 4, 2, 1]))


def rpt(rng, nd, r=4):
    return [rq(rng, r) for _ in range(nd)]


def rvec(rng, nd, r=3):
    while True:
        v = [F(rng.randint(-r, r)) for _ in range(nd)]
        if any(v):
            return v


def gen_seg_related(rng, nd, p0, p1):
    """a second segment in a chosen relation to p0p1; returns (q0, q1, tag)"""
    u = sub(p1, p0)
    r = rng.random()
    if nsq(u) == 0:
        r = 0.99
    if r < 0.14:
        k = F(rng.choice([-3, -2, -1, 1, 2, 3, 1, -1]), rng.choice([1, 2]))
        q0 = rpt(rng, nd)
        q1, tag = add(q0, scl(k, u)), "parallel"
    elif r < 0.30:
        s0 = F(rng.randint(-6, 8), 4)
        s1 = s0 + F(rng.choice([-6, -4, -2, -1, 1, 2, 4, 6]), 4)
        q0, q1, tag = add(p0, scl(s0, u)), add(p0, scl(s1, u)), "collinear"
    elif r < 0.40:
        q0, q1, tag = list(rng.choice([p0, p1])), rpt(rng, nd), "shared-endpoint"
    elif r < 0.52:
        q0, q1, tag = add(p0, scl(F(rng.randint(0, 4), 4), u)), rpt(rng, nd), "t-touch"
    elif r < 0.66:
        x = add(p0, scl(F(rng.randint(0, 4), 4), u))
        v = rvec(rng, nd)
        q0, q1, tag = sub(x, scl(F(rng.randint(0, 3)), v)), add(x, scl(F(rng.randint(0, 3)), v)), "crossing"
    elif r < 0.78:
        # perpendicular offset from a point of the carrier line (foot inside / at the ends / outside)
        x = add(p0, scl(F(rng.randint(-4, 8), 4), u))
        if nd == 2:
            nrm = [-u[1], u[0]]
        else:
            nrm = cross(u, rvec(rng, 3))
            if not any(nrm):
                nrm = cross(u, [F(1), F(0), F(0)]) if any(cross(u, [F(1), F(0), F(0)])) else cross(u, [F(0), F(1), F(0)])
        nrm = scl(F(1, max(1, int(max(abs(c) for c in nrm)) // 2 or 1)), nrm)
        q0 = add(x, scl(F(rng.choice([1, 2, -1, 1])), nrm))
        q1, tag = add(q0, rvec(rng, nd)), "perp-offset"
    else:
        q0, q1, tag = rpt(rng, nd), rpt(rng, nd), "random"
    if rng.random() < 0.5:
        q0, q1 = q1, q0
    return q0, q1, tag


def gen_star_poly(rng, n):
    """simple polygon with integer vertices, star-shaped w.r.t. the origin (sorted by angle, distinct directions)"""
    while True:
        pts = set()
        while len(pts) < n:
            x, y = rng.randint(-4, 4), rng.randint(-4, 4)
            if (x, y) != (0, 0):
                pts.add((x, y))
        pts = list(pts)
        ang = [math.atan2(y, x) for x, y in pts]
        if len({round(a, 9) for a in ang}) < n:
            continue
        order = sorted(range(n), key=lambda i: ang[i])
        pts = [pts[i] for i in order]
        an = sorted(ang)
        gaps = [an[(i + 1) % n] - an[i] + (2 * math.pi if i == n - 1 else 0) for i in range(n)]
        if max(gaps) >= math.pi - 1e-9:
            continue
        if any((pts[(i + 1) % n][0] - pts[i][0]) * (pts[(i + 2) % n][1] - pts[i][1])
               - (pts[(i + 1) % n][1] - pts[i][1]) * (pts[(i + 2) % n][0] - pts[i][0]) == 0 for i in range(n)):
            continue
        return pts


def gen_frame(rng):
    if rng.random() < 0.35:
        return [F(0)] * 3, [F(1), F(0), F(0)], [F(0), F(1), F(0)]
    while True:
        e1, e2 = rvec(rng, 3, 2), rvec(rng, 3, 2)
        if any(cross(e1, e2)):
            break
    return [F(rng.randint(-2, 2)) for _ in range(3)], e1, e2


def lift(fr_, x, y, z=F(0)):
    o, e1, e2 = fr_
    return add(add(o, add(scl(F(x), e1), scl(F(y), e2))), scl(F(z), cross(e1, e2)))


def gen_poly(rng):
    n = rng.choice([3, 4, 4, 5, 5, 6, 7])
    p2 = gen_star_poly(rng, n)
    if rng.random() < 0.5:
        p2 = p2[::-1]
    frame = gen_frame(rng)
    return p2, frame, [lift(frame, x, y) for x, y in p2]


def gen_poly_point(rng, p2, frame):
    """a point in a chosen relation to the polygon (2-d coordinates p2 in `frame`)"""
    n = len(p2)
    r = rng.random()
    z = F(rng.choice([0, 0, 1, -1, 2, 3, 1]), rng.choice([1, 2, 4]))
    if r < 0.15:
        i = rng.randrange(n)
        return lift(frame, p2[i][0], p2[i][1], z), "over-vertex"
    if r < 0.30:
        i = rng.randrange(n)
        a, b = p2[i], p2[(i + 1) % n]
        s = F(rng.choice([1, 2, 3, -1, 5, 6]), 4)
        return lift(frame, a[0] + s * (b[0] - a[0]), a[1] + s * (b[1] - a[1]), z), "over-edge-line"
    if r < 0.38:
        # explicit stratum: strictly inside AND on the extension of an edge (only possible in non-convex polygons)
        for _ in range(12):
            i = rng.randrange(n)
            a, b = p2[i], p2[(i + 1) % n]
            sx = F(rng.choice([-3, -2, -1, 5, 6, 7, 8]), 4)
            q = [a[0] + sx * (b[0] - a[0]), a[1] + sx * (b[1] - a[1])]
            if x_in_poly_2d([[F(v[0]), F(v[1])] for v in p2], q) > 0:
                return lift(frame, q[0], q[1], z), "edge-extension-inside"
    if r < 0.50:
        # near the origin, which is strictly inside
        return lift(frame, F(rng.randint(-2, 2), 4), F(rng.randint(-2, 2), 4), z), "over-interior"
    return lift(frame, F(rng.randint(-10, 10), 2), F(rng.randint(-10, 10), 2), z), "random"


DROPPED = {"knife-edge": 0}


def _pairs(case):
    """all (segment, segment) pairs the segment-segment kernel is applied to in this case"""
    kind = case["kind"]
    if kind == "segseg":
        a = (dec(case["p0"]), dec(case["p1"]))
        return [(a, s) for s in _segs(dict(case, k=0), "set")]
    if kind == "segset":
        sg = _segs(case, "segs")
        return [(sg[i], sg[j]) for i in range(len(sg)) for j in range(i + 1, len(sg))]
    if kind == "segpoly":
        poly = _pts(case, "poly")
        return [(s, (poly[i], poly[(i + 1) % len(poly)])) for s in _segs(case, "segs") for i in range(len(poly))]
    return []


def _knife_edge(case):
    """a pair that is nearly, but not exactly, parallel (0 < sin^2 < 1e-6): inside or close to the tolerance band of the kernel"""
    for (p0, p1), (q0, q1) in _pairs(case):
        u, v = sub(p1, p0), sub(q1, q0)
        a, b, c = nsq(u), dot(u, v), nsq(v)
        D = a * c - b * b
        if 0 < D < F(1, 10**6) * a * c:
            return True
    return False


SCALES = list(range(-20, -7)) + [-4, 4, 8, 10, 12]


def gen_case(rng, tier):
    """cases whose decisions are within 1e-6 (relative) of the kernel's parallel test are dropped and counted (DESIGN section 3).
    The length scale is a stratified dimension of EVERY function: three cases in ten are rescaled by an exact power of two
    (2^-20 .. 2^12, i.e. lengths from 1e-5 to 6e4; the polygon tolerance argument `tol` is rescaled with the geometry)."""
    while True:
        c = _gen_case(rng, tier)
        if not _knife_edge(c):
            break
        DROPPED["knife-edge"] += 1
    if not c.get("k") and rng.random() < 0.3:
        # half of the rescaled cases sit at the ends of the range, where absolute tolerances in the code would bite
        c["k"] = rng.choice([-20, -19, -18, 11, 12]) if rng.random() < 0.5 else rng.choice(SCALES)
        c["tags"] = sorted(set(c["tags"]) | {"scaled"})
    return c


def _gen_case(rng, tier):
    c = _gen_case0(rng, tier)
    # alternative entry form: the functions accept 1-d arrays for a single point / segment
    single = {"ptseg": len(c.get("pts", [])) == 1 and len(c.get("segs", [])) == 1, "ptpoly": len(c.get("pts", [])) == 1,
              "segpoly": len(c.get("segs", [])) == 1, "ptset": len(c.get("pts", [])) == 1}.get(c["kind"], False)
    if single and rng.random() < 0.5:
        c["flat"] = True
        c["tags"] = sorted(set(c["tags"]) | {"flat-1d-input"})
    return c


def _gen_case0(rng, tier):
    r = rng.random()
    nd = rng.choice([2, 3])
    if r < 0.04:
        # pointset(p, max_diag): mutual distances
        n = rng.choice([1, 1, 2, 3, 4, 5])
        pts = [rpt(rng, nd) for _ in range(n)]
        if n > 2 and rng.random() < 0.4:
            pts[-1] = list(pts[0])
        md = rng.random() < 0.5
        return {"kind": "ptset", "nd": nd, "pts": [enc(q) for q in pts], "max_diag": md, "tags": ["max-diag" if md else "plain"] + (["single-point"] if n == 1 else [])}
    if r < 0.07:
        p = rpt(rng, nd)
        n = rng.randint(0, 5)
        qs = [rpt(rng, nd) if rng.random() < 0.8 else list(p) for _ in range(n)]
        ex = rng.choice([2, 2, 1])
        return {"kind": "ptpt", "nd": nd, "exponent": ex, "p": enc(p), "q": [enc(q) for q in qs], "tags": ["random", f"exponent-{ex}"] + (["empty-set"] if n == 0 else [])}
    if r < 0.27:
        npt, ns = rng.randint(1, 4), rng.randint(1, 4)
        degenerate = rng.random() < 0.06
        segs, tags = [], set()
        for i in range(ns):
            a = rpt(rng, nd)
            u = rvec(rng, nd, 4) if rng.random() < 0.7 else sub(rpt(rng, nd), a)
            if not any(u):
                u = rvec(rng, nd)
            if degenerate and (i == 0 or rng.random() < 0.3):
                u = [F(0)] * nd
                tags.add("zero-length")
            segs.append((a, add(a, u)))
        pts = []
        for _ in range(npt):
            a, b = rng.choice(segs)
            rr = rng.random()
            if rr < 0.3:
                pts.append(add(a, scl(F(rng.randint(-4, 8), 4), sub(b, a))))
                tags.add("collinear")
            elif rr < 0.5 and nd == 2:
                u = sub(b, a)
                pts.append(add(add(a, scl(F(rng.randint(-4, 8), 4), u)), scl(F(rng.choice([1, -1, 2]), 2), [-u[1], u[0]])))
                tags.add("perp-offset")
            else:
                pts.append(rpt(rng, nd))
        return {"kind": "ptseg", "nd": nd, "pts": [enc(p) for p in pts], "segs": [[enc(a), enc(b)] for a, b in segs], "tags": sorted(tags) or ["random"]}
    if r < 0.60:
        rr = rng.random()
        tags = set()
        p0 = rpt(rng, nd)
        p1 = add(p0, rvec(rng, nd, 4)) if rng.random() < 0.6 else rpt(rng, nd)
        if p1 == p0:
            p1 = add(p0, rvec(rng, nd))
        degenerate = rr < 0.06
        if degenerate and rng.random() < 0.5:
            p1 = list(p0)
            tags.add("zero-length")
        sset = []
        for i in range(rng.randint(1, 3)):
            q0, q1, tag = gen_seg_related(rng, nd, p0, p1)
            if q0 == q1:
                q1 = add(q0, rvec(rng, nd))
            if degenerate and (p1 != p0 or rng.random() < 0.5) and (i == 0 or rng.random() < 0.3):
                q1 = list(q0)
                tag = "zero-length"
            tags.add(tag)
            sset.append((q0, q1))
        k = 0
        if 0.06 <= rr < 0.16:
            k = rng.choice(list(range(-20, -7)) + [8, 10, 12])
            tags.add("scaled")
        return {"kind": "segseg", "nd": nd, "k": k, "p0": enc(p0), "p1": enc(p1), "set": [[enc(a), enc(b)] for a, b in sset], "tags": sorted(tags)}
    if r < 0.64:
        ns = rng.randint(1, 4)
        segs = []
        tags = set()
        a = rpt(rng, nd)
        segs.append((a, add(a, rvec(rng, nd, 4))))
        for _ in range(ns - 1):
            q0, q1, tag = gen_seg_related(rng, nd, *rng.choice(segs))
            if q0 == q1:
                q1 = add(q0, rvec(rng, nd))
            tags.add(tag)
            segs.append((q0, q1))
        return {"kind": "segset", "nd": nd, "segs": [[enc(a), enc(b)] for a, b in segs], "tags": sorted(tags) or ["random"]}
    p2, frame, poly = gen_poly(rng)
    convex = all(_ccw(p2, i) > 0 for i in range(len(p2))) or all(_ccw(p2, i) < 0 for i in range(len(p2)))
    tags = {"convex" if convex else "non-convex"}
    if r < 0.82:
        pts = []
        for _ in range(rng.randint(1, 3)):
            p, tag = gen_poly_point(rng, p2, frame)
            pts.append(p)
            tags.add(tag)
        return {"kind": "ptpoly", "nd": 3, "pts": [enc(p) for p in pts], "poly": [enc(v) for v in poly], "tags": sorted(tags)}
    segs = []
    for _ in range(rng.randint(1, 2)):
        rr = rng.random()
        if rr < 0.25:
            z = F(rng.choice([0, 0, 0, 1, 2]), rng.choice([1, 2]))
            a = lift(frame, F(rng.randint(-10, 10), 2), F(rng.randint(-10, 10), 2), z)
            b = lift(frame, F(rng.randint(-10, 10), 2), F(rng.randint(-10, 10), 2), z)
            tags.add("in-plane" if z == 0 else "parallel-above")
        elif rr < 0.45:
            x, _ = gen_poly_point(rng, p2, frame)
            x = sub(x, scl(dot(sub(x, poly[0]), cross(frame[1], frame[2])) / nsq(cross(frame[1], frame[2])), cross(frame[1], frame[2])))
            v = rvec(rng, 3, 2)
            a, b = sub(x, scl(F(rng.randint(0, 2)), v)), add(x, scl(F(rng.randint(0, 2)), v))
            tags.add("through-plane-point")
        elif rr < 0.62:
            # the carrier line hits the polygon's plane at x, but the segment stops short of it / starts beyond it
            x, _ = gen_poly_point(rng, p2, frame)
            nrm = cross(frame[1], frame[2])
            x = sub(x, scl(dot(sub(x, poly[0]), nrm) / nsq(nrm), nrm))
            v = add(rvec(rng, 3, 2), scl(F(rng.choice([1, 2, -1])), nrm))
            if dot(v, nrm) == 0:
                v = add(v, nrm)
            k0, k1 = rng.choice([(1, 2), (1, 3), (2, 3), (-2, -1), (1, 4)])
            a, b = add(x, scl(F(k0, 2), v)), add(x, scl(F(k1, 2), v))
            if rng.random() < 0.5:
                a, b = b, a
            tags.add("aimed-short")
        else:
            a, _ = gen_poly_point(rng, p2, frame)
            b, _ = gen_poly_point(rng, p2, frame)
            tags.add("random")
        if a == b:
            tags.add("zero-length")
        segs.append((a, b))
    return {"kind": "segpoly", "nd": 3, "segs": [[enc(a), enc(b)] for a, b in segs], "poly": [enc(v) for v in poly], "tags": sorted(tags)}


def _ccw(p2, i):
    n = len(p2)
    a, b, c = p2[i], p2[(i + 1) % n], p2[(i + 2) % n]
    return (b[0] - a[0]) * (c[1] - a[1]) - (b[1] - a[1]) * (c[0] - a[0])


# ----------------------------------------------------------------------------- real code
def _call(case):
    """call the real function of the case; returns raw numpy outputs (or raises)"""
    from porepy.geometry import distances as D
    kind = case["kind"]
    with warnings.catch_warnings():
        warnings.simplefilter("ignore")
        with np.errstate(all="ignore"):
            if kind == "ptpt":
                q = _pts(case, "q")
                arr = cols(q) if q else np.zeros((case["nd"], 0))
                return D.point_pointset(np.array(fl(dec(case["p"], case.get("k", 0)))), arr, exponent=case.get("exponent", 2))
            if kind == "ptset":
                pts = _pts(case, "pts")
                arr = np.array(fl(pts[0])) if case.get("flat") else cols(pts)
                return D.pointset(arr, case["max_diag"])
            if kind == "ptseg":
                segs = _segs(case, "segs")
                if case.get("flat"):
                    return D.points_segments(np.array(fl(_pts(case, "pts")[0])), np.array(fl(segs[0][0])), np.array(fl(segs[0][1])))
                return D.points_segments(cols(_pts(case, "pts")), cols([s[0] for s in segs]), cols([s[1] for s in segs]))
            if kind == "segseg":
                k = case.get("k", 0)
                sset = _segs(case, "set")
                return D.segment_segment_set(np.array(fl(dec(case["p0"], k))), np.array(fl(dec(case["p1"], k))),
                                             cols([s[0] for s in sset]), cols([s[1] for s in sset]))
            if kind == "segset":
                segs = _segs(case, "segs")
                return D.segment_set(cols([s[0] for s in segs]), cols([s[1] for s in segs]))
            if kind == "ptpoly":
                return D.points_polygon(np.array(fl(_pts(case, "pts")[0])) if case.get("flat") else cols(_pts(case, "pts")), cols(_pts(case, "poly")), tol=float(TOL_P * F(2) ** case.get("k", 0)))
            if kind == "segpoly":
                segs = _segs(case, "segs")
                if case.get("flat"):
                    return D.segments_polygon(np.array(fl(segs[0][0])), np.array(fl(segs[0][1])), cols(_pts(case, "poly")), tol=float(TOL_P * F(2) ** case.get("k", 0)))
                return D.segments_polygon(cols([s[0] for s in segs]), cols([s[1] for s in segs]), cols(_pts(case, "poly")), tol=float(TOL_P * F(2) ** case.get("k", 0)))
    raise ValueError(kind)


def _sq(x):
    x = float(x)
    return "nan" if not math.isfinite(x) else frac(x * x)


def impl_run(case):
    kind = case["kind"]
    try:
        out = _call(case)
    except Exception as e:
        return err_kind(e)
    if kind == "ptpt":
        if case.get("exponent", 2) == 1:
            return {"d1": [fstr(x) for x in out]}
        return {"d2": [_sq(x) for x in out]}
    if kind == "ptset":
        return {"d2": [[_sq(x) for x in row] for row in out]}
    if kind == "ptseg":
        d, cp = out
        return {"d2": [[_sq(x) for x in row] for row in d], "cp": [[[fstr(x) for x in cp[i, j]] for j in range(cp.shape[1])] for i in range(cp.shape[0])]}
    if kind == "segseg":
        d, c1, c2 = out
        return [{"d2": _sq(d[j]), "cp1": [fstr(x) for x in c1[:, j]], "cp2": [fstr(x) for x in c2[:, j]]} for j in range(len(d))]
    if kind == "segset":
        d, cp = out
        n = d.shape[0]
        return {"d2": [[_sq(d[i, j]) for j in range(n)] for i in range(n)], "cp": [[[fstr(x) for x in cp[i, j]] for j in range(n)] for i in range(n)]}
    if kind == "ptpoly":
        d, cp, inp = out
        return [{"d2": _sq(d[i]), "cp": [fstr(x) for x in cp[:, i]], "inside": bool(inp[i])} for i in range(len(d))]
    if kind == "segpoly":
        d, cp = out
        return [{"d2": _sq(d[i]), "cp": [fstr(x) for x in cp[:, i]]} for i in range(len(d))]


# ----------------------------------------------------------------------------- model
def model_ops(case):
    kind = case["kind"]
    k = case.get("k", 0)
    E = lambda v: enc(dec(v, k))
    Es = lambda segs: [[E(a), E(b)] for a, b in segs]
    if kind == "ptpt":
        return [{"op": "ptpt1" if case.get("exponent", 2) == 1 else "ptpt", "p": E(case["p"]), "q": [E(q) for q in case["q"]]}]
    if kind == "ptset":
        return [{"op": "ptset", "pts": [E(x) for x in case["pts"]], "max_diag": case["max_diag"]}]
    if kind == "ptseg":
        return [{"op": "ptseg", "pts": [E(x) for x in case["pts"]], "segs": Es(case["segs"])}]
    if kind == "segseg":
        return [{"op": "segseg", "tol": frac(TOL_SS), "p0": E(case["p0"]), "p1": E(case["p1"]), "set": Es(case["set"])}]
    if kind == "segset":
        return [{"op": "segset", "tol": frac(TOL_SS), "segs": Es(case["segs"])}]
    if kind == "ptpoly":
        return [{"op": "ptpoly", "pts": [E(x) for x in case["pts"]], "poly": [E(x) for x in case["poly"]]}]
    if kind == "segpoly":
        return [{"op": "segpoly", "tolP": frac(TOL_P * F(2) ** k), "tolS": frac(TOL_SS), "segs": Es(case["segs"]), "poly": [E(x) for x in case["poly"]]}]
    raise ValueError(kind)


def model_decode(outs, case):
    return outs[0]


def _scale2(points):
    """squared extent of a configuration (for tolerances relative to the geometry)"""
    m = F(0)
    for i in range(len(points)):
        for j in range(i + 1, len(points)):
            m = max(m, nsq(sub(points[i], points[j])))
    return m


def _all_points(case):
    """all points of the case, at the scale of the case"""
    k = case.get("k", 0)
    pts = []
    for key in ("p", "p0", "p1"):
        if key in case:
            pts.append(dec(case[key], k))
    for key in ("q", "pts", "poly"):
        if key in case:
            pts += [dec(v, k) for v in case[key]]
    for key in ("segs", "set"):
        if key in case:
            pts += [dec(x, k) for sg in case[key] for x in sg]
    return pts


def _scales(case):
    """(S2, C2): squared extent of the configuration and squared size of the largest coordinate vector; every tolerance is
    relative to these, so that the checks mean the same at every length scale"""
    pts = _all_points(case)
    s2 = float(_scale2(pts))
    c2 = max([float(nsq(q)) for q in pts] + [s2])
    return max(s2, 1e-300), max(c2, 1e-300)


def _cmp_num(a, b, path, rel, abs_):
    if a == "nan" or b == "nan":
        return None if a == b else f"{path}: {a} vs {b}"
    fa, fb = float(F(a)), float(F(b))
    return None if abs(fa - fb) <= abs_ + rel * max(abs(fa), abs(fb)) else f"{path}: {fa!r} vs {fb!r}"


def _cmp_vec(a, b, path, abs_):
    if len(a) != len(b):
        return f"{path}: length {len(a)} vs {len(b)}"
    for i, (x, y) in enumerate(zip(a, b)):
        r = _cmp_num(x, y, f"{path}[{i}]", 1e-9, abs_)
        if r:
            return r
    return None


def compare(impl, model, case):
    kind = case["kind"]
    if isinstance(impl, dict) and "err" in impl or isinstance(model, dict) and "err" in model:
        return None if impl == model else f"error kinds differ: {impl} vs {model}"
    S2, C2 = _scales(case)
    A2, A1 = 1e-9 * S2, 1e-9 * math.sqrt(C2)   # absolute parts of the tolerances for squared distances / coordinates

    def tree(a, b, path, abs_):
        if isinstance(a, list) and isinstance(b, list):
            if len(a) != len(b):
                return f"{path}: length {len(a)} vs {len(b)}"
            for i, (x, y) in enumerate(zip(a, b)):
                r = tree(x, y, f"{path}[{i}]", abs_)
                if r:
                    return r
            return None
        return _cmp_num(a, b, path, 1e-9, abs_)

    if kind == "ptpt":
        if case.get("exponent", 2) == 1:
            return tree(impl["d1"], model["d1"], ".d1", A1)
        return tree(impl["d2"], model["d2"], ".d2", A2)
    if kind == "ptset":
        return tree(impl["d2"], model["d2"], ".d2", A2)
    if kind in ("ptseg", "segset"):
        return tree(impl["d2"], model["d2"], ".d2", A2) or tree(impl["cp"], model["cp"], ".cp", A1)
    if kind == "segseg":
        if len(impl) != len(model):
            return f"length {len(impl)} vs {len(model)}"
        for j, (a, b) in enumerate(zip(impl, model)):
            if not b["exact"]:
                continue  # tolerance band of the kernel: outside the comparison (none generated, see _knife_edge)
            r = (_cmp_num(a["d2"], b["d2"], f"[{j}].d2", 1e-9, A2) or _cmp_vec(a["cp1"], b["cp1"], f"[{j}].cp1", A1)
                 or _cmp_vec(a["cp2"], b["cp2"], f"[{j}].cp2", A1))
            if r:
                return r
        return None
    if kind == "ptpoly":
        poly = _pts(case, "poly")
        for i, (a, b, p) in enumerate(zip(impl, model, _pts(case, "pts"))):
            _, _, m, unique = x_pt_poly(p, poly)
            r = _cmp_num(a["d2"], b["d2"], f"[{i}].d2", 1e-9, A2)
            if not r and m != 0 and a["inside"] != b["inside"]:
                r = f"[{i}].inside: {a['inside']} vs {b['inside']}"
            if not r and unique:
                r = _cmp_vec(a["cp"], b["cp"], f"[{i}].cp", 10 * A1)
            if r:
                return r
        return None
    if kind == "segpoly":
        for i, (a, b) in enumerate(zip(impl, model)):
            r = _cmp_num(a["d2"], b["d2"], f"[{i}].d2", 1e-9, A2)
            if not r and b["branch"] == 0:  # unique only there: any common point is a valid answer in branch 1, ties in branch 2
                r = _cmp_vec(a["cp"], b["cp"], f"[{i}].cp(branch {b['branch']})", 10 * A1)
            if r:
                return r
        return None
    return f"unknown kind {kind}"


# ----------------------------------------------------------------------------- oracle
def _fail(fails, key, what):
    fails.append({"key": key, "what": what})


def _near(a, b, tol):
    return abs(a - b) <= tol


def oracle(case):
    """The property on the real code: returned distance = exact Euclidean distance (rational minimisation), returned closest points lie
    on their objects and realise that distance."""
    kind = case["kind"]
    fails = []
    S2, C2 = _scales(case)
    S = math.sqrt(C2)
    try:
        out = _call(case)
    except Exception as e:
        if kind == "ptpoly" and case.get("flat") and isinstance(e, IndexError):
            return {"key": "points_polygon:1d-point:raises:IndexError", "what": f"points_polygon(p of shape (3,), poly) raised IndexError: {str(e)[:80]}"}
        if kind == "segset":
            return {"key": f"segment_set:raises:{type(e).__name__}", "what": f"segment_set({len(case['segs'])} segments, {case['nd']}-d) raised {type(e).__name__}: {str(e)[:80]}"}
        return {"key": f"{kind}:raises:{type(e).__name__}", "what": f"{kind} raised {type(e).__name__}: {str(e)[:120]} on {case}"}
    if kind == "ptpt":
        p, qs = dec(case["p"], case.get("k", 0)), _pts(case, "q")
        if len(out) != len(qs):
            _fail(fails, "point_pointset:length", f"{len(out)} distances for {len(qs)} points")
        else:
            for i, q in enumerate(qs):
                if case.get("exponent", 2) == 1:
                    ex1 = float(sum(abs(x) for x in sub(p, q)))
                    if not _near(float(out[i]), ex1, 1e-9 * max(S, ex1)):
                        _fail(fails, "point_pointset:exponent-1", f"point_pointset({case['p']},{case['q'][i]}, exponent=1) = {float(out[i])} but exact {ex1}")
                    continue
                ex = float(nsq(sub(p, q)))
                if not _near(float(out[i]) ** 2, ex, 1e-9 * max(S2, ex)):
                    _fail(fails, "point_pointset:distance", f"point_pointset({case['p']},{case['q'][i]})^2 = {float(out[i])**2} but exact {ex}")
    elif kind == "ptset":
        pts = _pts(case, "pts")
        n = len(pts)
        if out.shape != (n, n):
            _fail(fails, "pointset:shape", f"shape {out.shape} for {n} points")
        else:
            for i in range(n):
                rowmax = max(float(nsq(sub(pts[i], q))) for q in pts)
                for j in range(n):
                    ex = float(nsq(sub(pts[i], pts[j]))) if i != j or not case["max_diag"] else 4 * rowmax
                    if not _near(float(out[i, j]) ** 2, ex, 1e-9 * max(S2, ex)):
                        _fail(fails, "pointset:max-diag" if i == j else "pointset:distance",
                              f"pointset({case['pts']}, max_diag={case['max_diag']})[{i},{j}]^2 = {float(out[i, j])**2!r} but exact {ex!r}")
    elif kind == "ptseg":
        d, cp = out
        pts, segs = _pts(case, "pts"), _segs(case, "segs")
        if d.shape != (len(pts), len(segs)):
            _fail(fails, "points_segments:shape", f"shape {d.shape} for {len(pts)} points, {len(segs)} segments")
        else:
            for i, p in enumerate(pts):
                for j, (a, b) in enumerate(segs):
                    ex, xcp, _ = x_pt_seg(p, a, b)
                    what = f"points_segments(p={case['pts'][i]}, seg={case['segs'][j]}): d^2={float(d[i, j])**2!r}, cp={cp[i, j].tolist()} but exact d^2={float(ex)}, cp={fl(xcp)}"
                    if not (np.isfinite(d[i, j]) and np.all(np.isfinite(cp[i, j]))):
                        _fail(fails, "points_segments:zero-length-segment:nan" if a == b else "points_segments:nan", what)
                        continue
                    if not _near(float(d[i, j]) ** 2, float(ex), 1e-9 * max(S2, float(ex))):
                        _fail(fails, "points_segments:distance", what)
                    c = fr(cp[i, j])
                    if float(x_pt_seg(c, a, b)[0]) > 1e-18 * C2 or not _near(float(nsq(sub(p, c))), float(ex), 1e-9 * max(S2, float(ex))):
                        _fail(fails, "points_segments:closest-point", what)
    elif kind == "segseg":
        d, c1, c2 = out
        k = case.get("k", 0)
        p0, p1, sset = dec(case["p0"], k), dec(case["p1"], k), _segs(case, "set")
        s2 = S2
        any_deg = p0 == p1 or any(a == b for a, b in sset)
        coord2 = C2
        if len(d) != len(sset):
            _fail(fails, "segment_segment_set:length", f"{len(d)} distances for {len(sset)} segments")
        else:
            for j, (q0, q1) in enumerate(sset):
                ex = float(x_seg_seg(p0, p1, q0, q1))
                what = (f"segment_segment_set({fl(p0)}-{fl(p1)} vs {fl(q0)}-{fl(q1)}): d^2={float(d[j])**2!r}, cp1={c1[:, j].tolist()}, cp2={c2[:, j].tolist()} "
                        f"but exact d^2={ex!r}")
                if not (np.isfinite(d[j]) and np.all(np.isfinite(c1[:, j])) and np.all(np.isfinite(c2[:, j]))):
                    _fail(fails, "segment_segment_set:zero-length-segment:nan" if any_deg else "segment_segment_set:nan", what)
                    continue
                bad = None
                if not _near(float(d[j]) ** 2, ex, 1e-9 * max(s2, ex)):
                    bad = "distance"
                else:
                    a1, a2 = fr(c1[:, j]), fr(c2[:, j])
                    if float(x_pt_seg(a1, p0, p1)[0]) > 1e-18 * coord2 or float(x_pt_seg(a2, q0, q1)[0]) > 1e-18 * coord2:
                        bad = "closest-point-off-segment"
                    elif not _near(float(nsq(sub(a1, a2))), ex, 1e-9 * max(s2, ex)):
                        bad = "closest-points-do-not-realise-distance"
                if bad:
                    _fail(fails, f"segment_segment_set:{bad}", what)
    elif kind == "segset":
        d, cp = out
        segs = _segs(case, "segs")
        n = len(segs)
        if d.shape != (n, n) or cp.shape != (n, n, case["nd"]):
            _fail(fails, "segment_set:shape", f"shapes {d.shape}, {cp.shape} for {n} segments")
        else:
            for i in range(n):
                for j in range(n):
                    ex = 0.0 if i == j else float(x_seg_seg(*segs[i], *segs[j]))
                    what = f"segment_set entry ({i},{j}) of {case['segs']}: d^2={float(d[i, j])**2!r}, cp={cp[i, j].tolist()}, exact d^2={ex!r}"
                    if not np.isfinite(d[i, j]) or not _near(float(d[i, j]) ** 2, ex, 1e-9 * max(S2, ex)):
                        _fail(fails, "segment_set:distance", what)
                        continue
                    c = fr(cp[i, j])
                    on_i = float(x_pt_seg(c, *segs[i])[0]) <= 1e-16 * C2
                    to_j = float(x_pt_seg(c, *segs[j])[0]) if i != j else 0.0
                    if not on_i or not _near(to_j, ex, 1e-9 * max(S2, ex)):
                        _fail(fails, "segment_set:closest-point", what)
    elif kind == "ptpoly":
        d, cp, inp = out
        pts, poly = _pts(case, "pts"), _pts(case, "poly")
        nrm = x_normal(poly)
        for i, p in enumerate(pts):
            ex, xcp, m, _ = x_pt_poly(p, poly)
            q, _ = x_project(p, poly[0], nrm)
            ext = m > 0 and x_on_edge_extension(poly, q)
            what = (f"points_polygon(p={case['pts'][i]}, poly={case['poly']}): d^2={float(d[i])**2!r}, cp={cp[:, i].tolist()}, in_poly={bool(inp[i])} "
                    f"but exact d^2={float(ex)!r}, cp={fl(xcp)}, projection {'inside' if m > 0 else 'on boundary' if m == 0 else 'outside'}")
            pre = "points_polygon:projection-on-edge-extension" if ext else None
            if not np.isfinite(d[i]) or not _near(float(d[i]) ** 2, float(ex), 1e-9 * max(S2, float(ex))):
                _fail(fails, pre or "points_polygon:distance", what)
                continue
            c = fr(cp[:, i])
            if float(x_pt_poly(c, poly)[0]) > 1e-16 * C2 or not _near(float(nsq(sub(p, c))), float(ex), 1e-9 * max(S2, float(ex))):
                _fail(fails, pre or "points_polygon:closest-point", what)
            elif m != 0 and bool(inp[i]) != (m > 0):
                _fail(fails, pre or "points_polygon:inside-flag", what)
    elif kind == "segpoly":
        d, cp = out
        segs, poly = _segs(case, "segs"), _pts(case, "poly")
        nrm = x_normal(poly)
        for i, (a, b) in enumerate(segs):
            ex = float(x_seg_poly(a, b, poly))
            what = f"segments_polygon(seg={case['segs'][i]}, poly={case['poly']}): d^2={float(d[i])**2!r}, cp={cp[:, i].tolist()} but exact d^2={ex!r}"
            # input classes of the known defects
            rel = [x_project(a, poly[0], nrm)[0], x_project(b, poly[0], nrm)[0]]
            ha, hb = dot(sub(a, poly[0]), nrm), dot(sub(b, poly[0]), nrm)
            if ha != hb and 0 <= ha / (ha - hb) <= 1:
                rel.append(add(a, scl(ha / (ha - hb), sub(b, a))))
            ext = any(x_membership(poly, q) > 0 and x_on_edge_extension(poly, q) for q in rel)
            in_plane_end_only = ha == 0 and hb == 0 and x_membership(poly, a) < 0 and x_membership(poly, b) >= 0
            if not np.isfinite(d[i]) or not _near(float(d[i]) ** 2, ex, 1e-9 * max(S2, ex)):
                _fail(fails, "segments_polygon:point-on-edge-extension" if ext else "segments_polygon:distance", what)
                continue
            c = fr(cp[:, i])
            d_seg, d_pol = math.sqrt(float(x_pt_seg(c, a, b)[0])), math.sqrt(float(x_pt_poly(c, poly)[0]))
            dd = math.sqrt(ex)
            # the single returned point lies on one of the two objects and is at the returned distance from the other
            ok = (d_seg <= 1e-8 * S and _near(d_pol, dd, 1e-8 * max(S, dd))) or (d_pol <= 1e-8 * S and _near(d_seg, dd, 1e-8 * max(S, dd)))
            if not ok:
                if in_plane_end_only and max(abs(float(x) - float(y)) for x, y in zip(c, a)) <= 1e-9 * S:
                    key = "segments_polygon:in-plane-only-end-inside:closest-point-is-start"
                elif ext:
                    key = "segments_polygon:point-on-edge-extension"
                else:
                    key = "segments_polygon:closest-point"
                _fail(fails, key, what + f"; the returned point is {d_seg:.3g} from the segment and {d_pol:.3g} from the polygon")
    if not fails:
        return None
    f = fails[0]
    k = case.get("k", 0)
    if k != 0 and not f["key"].endswith(":nan") and oracle(dict(case, k=0)) is None:
        f = {"key": f["key"] + ":only-at-scale", "what": f"(the same configuration is handled correctly at scale 2^0, wrong at scale 2^{k}) " + f["what"]}
    return f


# ----------------------------------------------------------------------------- bookkeeping
def nontrivial(case):
    return any(t not in ("random", "convex") for t in case.get("tags", []))


def shrink_candidates(case):
    for key, least in (("pts", 1), ("segs", 1), ("set", 1), ("q", 1)):
        if key in case and len(case[key]) > least:
            for i in range(len(case[key])):
                yield dict(case, **{key: case[key][:i] + case[key][i + 1:]})
    if case.get("k", 0):
        yield dict(case, k=0)


def stats(cases, impl_outs):
    kinds, tags, dims = {}, {}, {}
    for c in cases:
        kinds[c["kind"]] = kinds.get(c["kind"], 0) + 1
        dims[str(c.get("nd"))] = dims.get(str(c.get("nd")), 0) + 1
        for t in c.get("tags", []):
            tags[c["kind"] + ":" + t] = tags.get(c["kind"] + ":" + t, 0) + 1
    nan = sum(1 for o in impl_outs if "nan" in str(o))
    errs = sum(1 for o in impl_outs if isinstance(o, dict) and "err" in o)
    strata = {"scale:tiny(2^-20..-16)": 0, "scale:small(2^-15..-1)": 0, "scale:unit": 0, "scale:large(2^1..12)": 0, "flat-1d-input": 0,
              "zero-length-segment": 0, "ptpt:exponent-1": 0, "ptpt:empty-set": 0, "ptset:max-diag": 0, "ptset:single-point": 0,
              "ptseg:more-points-than-segments-loop": 0, "ptseg:more-segments-than-points-loop": 0,
              "ptpoly:projection-inside": 0, "ptpoly:projection-on-boundary": 0, "ptpoly:projection-outside": 0,
              "ptpoly:projection-on-edge-extension-inside": 0, "segpoly:true-distance-zero": 0, "segpoly:true-distance-positive": 0,
              "segseg:exactly-parallel-pair": 0, "segseg:true-distance-zero": 0}
    for c in cases:
        k = c.get("k", 0)
        strata["scale:tiny(2^-20..-16)" if k <= -16 else "scale:small(2^-15..-1)" if k < 0 else "scale:unit" if k == 0 else "scale:large(2^1..12)"] += 1
        tg = c.get("tags", [])
        strata["flat-1d-input"] += "flat-1d-input" in tg
        strata["zero-length-segment"] += "zero-length" in tg
        if c["kind"] == "ptpt":
            strata["ptpt:exponent-1"] += c.get("exponent", 2) == 1
            strata["ptpt:empty-set"] += len(c["q"]) == 0
        elif c["kind"] == "ptset":
            strata["ptset:max-diag"] += bool(c["max_diag"])
            strata["ptset:single-point"] += len(c["pts"]) == 1
        elif c["kind"] == "ptseg":
            strata["ptseg:more-segments-than-points-loop" if len(c["pts"]) < len(c["segs"]) else "ptseg:more-points-than-segments-loop"] += 1
        elif c["kind"] == "ptpoly":
            c0 = dict(c, k=0)
            poly = _pts(c0, "poly")
            nrm = x_normal(poly)
            for q in _pts(c0, "pts"):
                pr, _ = x_project(q, poly[0], nrm)
                m = x_membership(poly, pr)
                strata["ptpoly:projection-inside" if m > 0 else "ptpoly:projection-on-boundary" if m == 0 else "ptpoly:projection-outside"] += 1
                strata["ptpoly:projection-on-edge-extension-inside"] += m > 0 and x_on_edge_extension(poly, pr)
        elif c["kind"] == "segpoly":
            c0 = dict(c, k=0)
            poly = _pts(c0, "poly")
            for a, b in _segs(c0, "segs"):
                strata["segpoly:true-distance-zero" if x_seg_poly(a, b, poly) == 0 else "segpoly:true-distance-positive"] += 1
        elif c["kind"] == "segseg":
            for (p0, p1), (q0, q1) in _pairs(c):
                u, v = sub(p1, p0), sub(q1, q0)
                strata["segseg:exactly-parallel-pair"] += nsq(u) * nsq(v) == dot(u, v) ** 2
                strata["segseg:true-distance-zero"] += x_seg_seg(p0, p1, q0, q1) == 0
    return {"strata": strata, "dropped_knife_edge_cases": DROPPED["knife-edge"], "kinds": kinds, "dims": dims, "placement_tags": dict(sorted(tags.items())), "impl_outputs_with_nan": nan, "impl_exceptions": errs}
