"""C45 Operator hash keys identify operator trees.

A case is a small list of operator-tree *expressions* (JSON terms).  Every expression is built with the real
porepy classes and overloads (including raw numbers / arrays / matrices as operands, previous_timestep /
previous_iteration of leaves and of whole trees, pp.ad.Function calls) and, independently, normalised by the
harness to the tree that porepy is supposed to have built (`norm`).  The oracle demands, for every pair of
expressions of a case:  equal normal forms  <=>  equal `_key()`  (and equal `hash`).  The Lean model receives
the normal forms (with grid ids and digests resolved) and returns the rendered key strings, which must equal the
real `_key()` strings character by character, and the pairs with equal token lists.
"""
import copy
import hashlib
import json
import operator as _op
from fractions import Fraction

import numpy as np

from harness.common import frac, load_findings

PID = "C45"
THEOREMS = [
    "PorepyVerif.C45.key_congr",
    "PorepyVerif.C45.key_prefix_code",
    "PorepyVerif.C45.key_injective",
    "PorepyVerif.C45.key_eq_iff",
    "PorepyVerif.C45.key_not_proper_prefix",
    "PorepyVerif.C45.leafKey_injective",
    "PorepyVerif.C45.lex_render",
    "PorepyVerif.C45.render_injective",
    "PorepyVerif.C45.key_wellformed",
    "PorepyVerif.C45.keyString_injective",
    "PorepyVerif.C45.keyString_eq_iff",
    "PorepyVerif.C45.hash_congr",
    "PorepyVerif.C45.key_ne_of_hash_ne",
    "PorepyVerif.C45.hash_eq_iff",
    "PorepyVerif.C45.domain_size_collides",
    "PorepyVerif.C45.abbreviated_indices_collide",
    "PorepyVerif.C45.evaluate_function_collides",
    "PorepyVerif.C45.surrogate_name_collides",
    "PorepyVerif.C45.evaluate_arity_collides",
    "PorepyVerif.C45.time_index_collides",
    "PorepyVerif.C45.projection_list_collides",
    "PorepyVerif.C45.domain_type_collides",
    "PorepyVerif.C45.merged_domain_type_collides",
    "PorepyVerif.C45.dense_shape_collides",
    "PorepyVerif.C45.original_not_injective",
    "PorepyVerif.C45.delimiter_in_value_collides",
    "PorepyVerif.C45.projection_domain_size_distinct",
    "PorepyVerif.C45.projection_domain_size_distinct_string",
    "PorepyVerif.C45.shift_changes_key",
    "PorepyVerif.C45.shift_keeps_independent",
    "PorepyVerif.C45.history_keys_correct",
    "PorepyVerif.C45.stale_key_without_shift_reset",
    "PorepyVerif.C45.stale_key_without_set_reset",
]
LEAN_MODULES = ["PorepyVerif.C45.Props"]
AUDIT = "PorepyVerif/C45/Audit.lean"
DRIVER = "PorepyVerif/C45/Driver.lean"
N = {"quick": 400, "thorough": 25000}
RULE = ("a case = 4 expressions: a random operator tree E0 (depth <= 4 quick / 6 thorough; leaves: Variable, MixedDimensionalVariable, "
        "TimeDependentDenseArray on subdomains/interfaces/boundary grids whose ids coincide across grid classes, Scalar (any float), DenseArray (1-d, 2-d), MergedOperator, "
        "SparseArray (csr/csc/coo/dia, matrix/array), Projection (also >1000 indices, transposed slicer), ProjectionList (0-3 members), Divergence; "
        "nodes: add sub mul div pow matmul (also with a raw float / ndarray / spmatrix operand on either side, i.e. the reverse overloads), "
        "pp.ad.Function / AbstractFunction calls with 1-3 arguments, SurrogateOperator nodes, previous_timestep / previous_iteration of leaves and "
        "of whole trees, keys computed before a shift, and 'hash x, then build x.previous_timestep() twice' histories); E1 = E0 built again in a different way (same normal form); E2 = E0 with one leaf datum or one "
        "structural element changed (name, domain, domain class, time/iterate index, value, array entry/shape, matrix entry/format/shape, "
        "index entry, domain/range size, transposed, function, function name, argument grouping, operation, operand order); "
        "E3 = a second mutant or an unrelated tree. About one case in five is instead a HISTORY of calls on one operator object (_key(), "
        "previous_timestep(k), previous_iteration(k), Scalar.set_value, k = 0 and illegal shift orders included), compared call by call with the model's "
        "object-with-cache state machine; explicit strata (counted in the evidence): single leaf, empty domain lists / empty arrays / 0 members, duplicate subtrees, "
        "permuted operands, repeated shifts, >1000 indices, extreme scalars. non-trivial = at least one equal and one different pair; distinct = distinct case JSON")
TRUSTED = [
    "proved, no longer trusted: the key string determines the token list (lex_render / keyString_injective) for names and digests without the "
    "characters ',' ')' ' ' ']' (sparse format names also without '('); the driver re-checks wfTree/wfList and lex(render(key)) = key on every case",
    "sha256 digests (dense/sparse data, projection index arrays) are treated as injective identifiers and are computed by the harness, "
    "independently of porepy's code; a scalar is identified by python's repr of its float value (repr round-trips floats)",
    "the harness' normalisation of an expression to the tree porepy should have built (reverse overloads, add with a raw left operand puts the "
    "operator first, shifts are pushed to the time-dependent leaves) - a disagreement there shows up as a key-string mismatch",
    "function identity = id() of the wrapped callable (pp.ad.Function) or of the AbstractFunction instance, as in fixes/C45-4-evaluate-function-identity.diff (+ C45-10-evaluate-arity.diff for the argument count); "
    "a SurrogateOperator is identified by its name and its dependencies (its domains are those of the dependencies by contract)",
    "python's str hash: hash(op) == hash(op._key()) is checked; equal hashes of different keys would be a 64-bit collision of the string hash (counted, never observed)",
    "not covered: Projection objects mutated in place by sum_projection_list, operator names (not part of the key by design), the legacy key formats "
    "before fixes C45-1/2/3 (model keeps them only for the collision theorems)",
]
EXPLANATION = ("FULL: the model key is the lexed key string; key_injective/key_prefix_code prove that the repaired key is a prefix code at token level, "
               "lex_render/render_injective/keyString_injective lift this to the actual strings (decoder lex with lex(render ts) = ts), hash_eq_iff states the "
               "hash consequence; one *_collides theorem per repair shows that the key without it is not injective. The correspondence compares rendered model "
               "keys with the real _key() strings exactly, in the configuration (repair by repair) detected on the checked tree.")
ASSUMPTIONS = ["names and digests contain none of the characters ',' ')' ' ' ']' (checked by the driver on every case)"]

NSD, NINTF, NBG = 4, 3, 3
NAMES = ["p", "q", "lam", "T_1", "flux-x", "u.v", "a=b", "f(x"]
MKEYS = ["flux", "bound_flux", "stress"]
PKEYS = ["flow", "mechanics"]
MCLS = ["DiscrA", "DiscrB"]
FN_NAMES = ["f", "g", "density_exponential"]
OPS = {"add": _op.add, "sub": _op.sub, "mul": _op.mul, "div": _op.truediv, "pow": _op.pow, "matmul": _op.matmul}
FMTS = ["csr_matrix", "csc_matrix", "coo_matrix", "dia_matrix", "csr_array", "csc_array", "coo_array"]
DT = {"sd": "subdomains", "intf": "interfaces", "bg": "boundary"}

# ------------------------------------------------------------------------------------------ fixtures (once per process)
_POOL = None
_FUNCS = None
_CFG = None


def pool():
    """Grids of the three classes whose ids coincide: sd[i].id == intf[i].id == bg[i].id (ids are unique per class only)."""
    global _POOL
    if _POOL is None:
        import porepy as pp
        from porepy.grids.mortar_grid import MortarSides
        h1 = pp.CartGrid([2]); h1.compute_geometry()
        h2 = pp.CartGrid([2, 2]); h2.compute_geometry()
        mk = {"sd": lambda: pp.CartGrid([1]), "intf": lambda: pp.MortarGrid(1, {MortarSides.LEFT_SIDE: h1}), "bg": lambda: pp.BoundaryGrid(h2)}
        nxt = {t: mk[t]().id + 1 for t in mk}
        n = max(nxt.values())
        for t in mk:
            for _ in range(n - nxt[t]):
                mk[t]()
        _POOL = {"sd": [mk["sd"]() for _ in range(NSD)], "intf": [mk["intf"]() for _ in range(NINTF)], "bg": [mk["bg"]() for _ in range(NBG)]}
        assert _POOL["sd"][0].id == _POOL["intf"][0].id == _POOL["bg"][0].id == n
    return _POOL


def funcs():
    """callables wrapped by pp.ad.Function (a new Function instance per build, as porepy's models do) and AbstractFunction instances"""
    global _FUNCS
    if _FUNCS is None:
        import porepy as pp

        class _DJ(pp.ad.DiagonalJacobianFunction):
            def get_values(self, *args):
                return args[0]

        class DiscrA:
            pass

        class DiscrB:
            pass

        _FUNCS = {"discr": {"DiscrA": DiscrA(), "DiscrB": DiscrB()}, "fn": {"exp": pp.ad.functions.exp, "log": pp.ad.functions.log, "sin": pp.ad.functions.sin,
                         "sum": (lambda *a: sum(a)), "first": (lambda *a: a[0])},
                  "inst": {"dj1": _DJ(1.0, "dj"), "dj2": _DJ(2.0, "dj")}}
    return _FUNCS


FN_TOKENS = ["exp", "log", "sin", "sum", "first"]
INST_TOKENS = ["dj1", "dj2"]


def detect_cfg():
    """Which of the repairs fixes/C45-*.diff are present in the checked tree (the model follows the code as it is, repair by repair)."""
    global _CFG
    if _CFG is None:
        import porepy as pp
        from porepy.numerics.ad.operators import Projection, ProjectionList
        k = Projection(np.array([0]), np.array([0]), 5, 3)._key()
        pl = ProjectionList([Projection(np.array([0]), np.array([0]), 5, 3), Projection(np.array([0]), np.array([0]), 5, 3)])._key()
        v = pp.ad.Variable("x", {"cells": 1}, domain=pool()["sd"][0])
        e = pp.ad.Function(funcs()["fn"]["exp"], "e")(v)
        _CFG = {"domSize": "domain_size=5" in k, "idxHash": "range_indices=[" not in k, "plistKeys": "Projection operator" not in pl,
                "timeIdx": "time_step_index" in v._key(), "domType": "domain_type" in v._key(), "evalFn": "(function" in e._key(), "evalArity": "nargs=" in e._key(),
                "denseShape": "shape=" in pp.ad.DenseArray(np.zeros(2))._key(),
                "mergedDomType": "domain_type" in pp.ad.MergedOperator(funcs()["discr"]["DiscrA"], "flux", "flow", None, [pool()["sd"][0]])._key()}
    return _CFG


_POL = None


def detect_policy():
    """which code paths discard a cached key (CachePolicy of the model)"""
    global _POL
    if _POL is None:
        import porepy as pp
        v = pp.ad.Variable("x", {"cells": 1}, domain=pool()["sd"][0])
        k0 = v._key()
        sc = pp.ad.Scalar(1.0)
        sc._key()
        sc.set_value(2.0)
        _POL = {"resetOnShift": v.previous_timestep()._key() != k0 or not detect_cfg()["timeIdx"], "resetOnSet": "2.0" in sc._key()}
    return _POL


# ------------------------------------------------------------------------------------------ expression helpers
def _idx(spec):
    """index array spec: list of ints, or {"arange": n, "set": [[pos, val], ...]} for long arrays"""
    if isinstance(spec, dict):
        a = list(range(spec["arange"]))
        for p, v in spec.get("set", []):
            a[p] = v
        return a
    return list(spec)


def _fl(s):
    return float(Fraction(s))


def _dense_arr(E):
    return np.array([_fl(v) for v in E["vals"]], dtype=float).reshape(E["shape"])


def _sparse_mat(E):
    import scipy.sparse as sps
    ent = E["ent"]
    coo = sps.coo_matrix((np.array([_fl(e[2]) for e in ent], dtype=float), (np.array([e[0] for e in ent], dtype=int), np.array([e[1] for e in ent], dtype=int))), shape=tuple(E["shape"]))
    f = E["fmt"]
    if f == "coo_matrix":
        return coo
    if f == "csr_matrix":
        return coo.tocsr()
    if f == "csc_matrix":
        return coo.tocsc()
    if f == "dia_matrix":
        return coo.todia()
    return getattr(sps, f)(coo)


def _final_indices(steps):
    """(ts, it) private indices after a list of steps; None if porepy must raise (time shift of a previous iterate or vice versa)"""
    ts, it = -1, -1
    for s in steps:
        if s[0] == "fork":
            s = s[1:]
        if s[0] == "ts":
            if it >= 0:
                return None
            ts += s[1]
        elif s[0] == "it":
            if ts >= 0:
                return None
            it += s[1]
    return ts, it


# ------------------------------------------------------------------------------------------ building with the real code
def _apply_steps(op, steps):
    for s in steps:
        if s[0] == "key":
            op._key()
        elif s[0] == "ts":
            op = op.previous_timestep(steps=s[1])
        elif s[0] == "it":
            op = op.previous_iteration(steps=s[1])
        elif s[0] == "set":
            op.set_value(_fl(s[1]))
        elif s[0] == "fork":
            # hash x, build the shifted operator twice from the same x (keys of the first copy computed in between)
            hash(op)
            mk = (lambda o: o.previous_timestep(steps=s[2])) if s[1] == "ts" else (lambda o: o.previous_iteration(steps=s[2]))
            first = mk(op)
            hash(first)
            second = mk(op)
            op = first if s[3] == 0 else second
    return op


def _dom(d):
    return pool()[d[0]][d[1]]


def _raw(E):
    k = E["k"]
    if k == "scalar":
        return _fl(E["v"])
    if k == "dense":
        return _dense_arr(E)
    if k == "sparse":
        return _sparse_mat(E)
    raise ValueError("no raw form of " + k)


def _build_proj(E):
    import porepy as pp
    from porepy.numerics.ad.operators import Projection
    rng, dom = np.array(_idx(E["rng"]), dtype=int), np.array(_idx(E["dom"]), dtype=int)
    P = Projection(domain_indices=dom, range_indices=rng, domain_size=E["dsize"], range_size=E["rsize"])
    if E.get("tr"):
        # a transposed slicer with the same domain/range data (reachable through ArraySlicer.transpose only)
        P._slicer = pp.matrix_operations.ArraySlicer(domain_indices=rng, range_indices=dom, range_size=E["dsize"], domain_size=E["rsize"]).transpose()
    return P


def build(E):
    import porepy as pp
    k = E["k"]
    if k == "var":
        return _apply_steps(pp.ad.Variable(E["name"], {"cells": 1}, domain=_dom(E["dom"])), E.get("steps", []))
    if k == "mdvar":
        subs = [pp.ad.Variable(E["name"], {"cells": 1}, domain=_dom(d)) for d in E["doms"]]
        steps = E.get("steps", [])
        if E.get("shift_first") and subs:
            subs = [_apply_steps(s, [x for x in steps if x[0] != "key"]) for s in subs]
            return pp.ad.MixedDimensionalVariable(subs)
        return _apply_steps(pp.ad.MixedDimensionalVariable(subs), steps)
    if k == "tdda":
        return _apply_steps(pp.ad.TimeDependentDenseArray(E["name"], [_dom(d) for d in E["doms"]]), E.get("steps", []))
    if k == "scalar":
        v0 = E.get("v0", E["v"])
        op = _apply_steps(pp.ad.Scalar(_fl(v0)), E.get("steps", []))
        return op
    if k == "dense":
        return pp.ad.DenseArray(_dense_arr(E))
    if k == "sparse":
        return pp.ad.SparseArray(_sparse_mat(E))
    if k == "proj":
        return _build_proj(E)
    if k == "plist":
        from porepy.numerics.ad.operators import ProjectionList
        return ProjectionList([_build_proj(p) for p in E["ps"]])
    if k == "div":
        return pp.ad.Divergence([pool()["sd"][i] for i in E["sds"]], dim=E["dim"])
    if k == "merged":
        return pp.ad.MergedOperator(funcs()["discr"][E["cls"]], E["mk"], E["pk"], E.get("inner"), [_dom(d) for d in E["doms"]])
    if k == "surr":
        from porepy.numerics.ad.surrogate_operator import SurrogateOperator
        ch = [build(a) for a in E["args"]]
        return SurrogateOperator(E["name"], list(ch[0].domains), ch)
    if k == "bin":
        a = _raw(E["a"]) if E["a"].get("raw") else build(E["a"])
        b = _raw(E["b"]) if E["b"].get("raw") else build(E["b"])
        return OPS[E["op"]](a, b)
    if k == "eval":
        f = funcs()["inst"][E["inst"]] if "inst" in E else pp.ad.Function(funcs()["fn"][E["fn"]], E["fname"])
        return f(*[build(a) for a in E["args"]])
    if k == "shift":
        op = build(E["t"])
        if E.get("prekey"):
            op._key()
        return op.previous_timestep(steps=E["steps"]) if E["kind"] == "ts" else op.previous_iteration(steps=E["steps"])
    raise ValueError("unknown node " + k)


# ------------------------------------------------------------------------------------------ normal form (what porepy should have built)
class Invalid(Exception):
    pass


def _shift_leaf(n, kind, steps):
    """previous_timestep / previous_iteration applied to a built leaf"""
    k = n["k"]
    if kind == "ts" and k in ("var", "mdvar", "tdda"):
        if n.get("it", -1) >= 0:
            raise Invalid()
        return dict(n, ts=n["ts"] + steps)
    if kind == "it" and k in ("var", "mdvar"):
        if n["ts"] >= 0:
            raise Invalid()
        return dict(n, it=n["it"] + steps)
    return n


def _shift(n, kind, steps):
    k = n["k"]
    if k == "bin":
        return dict(n, a=_shift(n["a"], kind, steps), b=_shift(n["b"], kind, steps))
    if k == "eval":
        return dict(n, args=[_shift(a, kind, steps) for a in n["args"]])
    return _shift_leaf(n, kind, steps)


def _dt_of(doms):
    return DT[doms[0][0]] if doms else "subdomains"


def norm(E):
    k = E["k"]
    if k in ("var", "mdvar", "tdda"):
        fi = _final_indices(E.get("steps", []))
        if fi is None:
            raise Invalid()
        if k == "var":
            return {"k": "var", "name": E["name"], "dt": DT[E["dom"][0]], "dom": E["dom"][1], "ts": fi[0], "it": fi[1]}
        if len({d[0] for d in E["doms"]}) > 1 or len({tuple(d) for d in E["doms"]}) < len(E["doms"]):
            raise Invalid()
        name = E["name"] if (E["doms"] or k == "tdda") else "empty_md_variable"
        n = {"k": k, "name": name, "dt": _dt_of(E["doms"]), "doms": [d[1] for d in E["doms"]], "ts": fi[0]}
        if k == "mdvar":
            n["it"] = fi[1]
        elif fi[1] != -1:
            raise Invalid()
        return n
    if k == "scalar":
        v = E["v"]
        for s in E.get("steps", []):
            if s[0] == "set":
                v = s[1]
        return {"k": "scalar", "v": frac(Fraction(_fl(v)))}  # the exact value of the float
    if k == "dense":
        return {"k": "dense", "shape": list(E["shape"]), "vals": [frac(Fraction(_fl(v))) for v in E["vals"]]}
    if k == "sparse":
        return {"k": "sparse", "fmt": E["fmt"], "shape": list(E["shape"]), "ent": [[e[0], e[1], frac(Fraction(_fl(e[2])))] for e in E["ent"]]}
    if k == "proj":
        return {"k": "proj", "rng": _idx(E["rng"]), "dom": _idx(E["dom"]), "dsize": E["dsize"], "rsize": E["rsize"], "tr": bool(E.get("tr"))}
    if k == "plist":
        return {"k": "plist", "ps": [norm(p) for p in E["ps"]]}
    if k == "div":
        return {"k": "div", "dim": E["dim"], "sds": list(E["sds"])}
    if k == "merged":
        if len({d[0] for d in E["doms"]}) > 1:
            raise Invalid()
        return {"k": "merged", "name": E["cls"], "dt": _dt_of(E["doms"]), "doms": [d[1] for d in E["doms"]], "mk": E["mk"], "pk": E["pk"], "inner": E.get("inner")}
    if k == "surr":
        if not E["args"] or any(a["k"] not in ("var", "mdvar") for a in E["args"]):
            raise Invalid()
        return {"k": "eval", "fn": "surr:", "fname": E["name"], "args": [norm(a) for a in E["args"]]}
    if k == "bin":
        ra, rb = bool(E["a"].get("raw")), bool(E["b"].get("raw"))
        if ra and rb:
            raise Invalid()
        na, nb = norm(E["a"]), norm(E["b"])
        if E["op"] == "pow" and na["k"] == "sparse":
            raise Invalid()  # SparseArray ** Scalar/DenseArray raises by design; not generated
        if E["op"] == "add" and ra:
            na, nb = nb, na  # __radd__ delegates to __add__: the operator comes first
        return {"k": "bin", "op": E["op"], "a": na, "b": nb}
    if k == "eval":
        if not E["args"] or any(a.get("raw") for a in E["args"]):
            raise Invalid()
        if "inst" in E:
            return {"k": "eval", "fn": "inst:" + E["inst"], "fname": "dj", "args": [norm(a) for a in E["args"]]}
        return {"k": "eval", "fn": "fn:" + E["fn"], "fname": E["fname"], "args": [norm(a) for a in E["args"]]}
    if k == "shift":
        return _shift(norm(E["t"]), E["kind"], E["steps"])
    raise ValueError("unknown node " + k)


def _valid(E):
    try:
        norm(E)
        return True
    except Invalid:
        return False


# ------------------------------------------------------------------------------------------ digests (own computation) and the wire form
def _sha(a):
    return hashlib.sha256(np.ascontiguousarray(a)).hexdigest()


def dense_digest(n):
    return _sha(np.array([_fl(v) for v in n["vals"]], dtype=float).reshape(n["shape"]))


def sparse_digest(n):
    m = _sparse_mat(n)
    m.data = m.data.astype(float)
    f = n["fmt"]
    if f.startswith("coo"):
        parts = [m.data, m.row, m.col]
    elif f.startswith("dia"):
        parts = [m.data, m.offsets]
    else:
        parts = [m.data, m.indices, m.indptr]
    return f, tuple(int(x) for x in m.shape), "".join(_sha(p) for p in parts)


def idx_digest(l, cfg):
    a = np.array(l, dtype=int)
    return _sha(a.astype(np.int64)) if cfg["idxHash"] else str(a)


def wire(n, cfg):
    k = n["k"]
    P = pool()
    key = {"subdomains": "sd", "interfaces": "intf", "boundary": "bg"}
    if k == "var":
        return dict(n, dom=P[key[n["dt"]]][n["dom"]].id)
    if k in ("mdvar", "tdda"):
        return dict(n, doms=[P[key[n["dt"]]][i].id for i in n["doms"]])
    if k == "scalar":
        return {"k": "scalar", "repr": repr(_fl(n["v"]))}
    if k == "merged":
        return dict(n, doms=[P[key[n["dt"]]][i].id for i in n["doms"]])
    if k == "dense":
        return {"k": "dense", "shape": n["shape"], "hash": dense_digest(n)}
    if k == "sparse":
        fmt, shape, hexd = sparse_digest(n)
        return {"k": "sparse", "fmt": fmt, "rows": shape[0], "cols": shape[1], "hex": hexd}
    if k == "proj":
        return {"k": "proj", "rng": idx_digest(n["rng"], cfg), "dom": idx_digest(n["dom"], cfg), "dsize": n["dsize"], "rsize": n["rsize"], "tr": n["tr"]}
    if k == "plist":
        return {"k": "plist", "ps": [wire(p, cfg) for p in n["ps"]]}
    if k == "div":
        return dict(n, sds=[P["sd"][i].id for i in n["sds"]])
    if k == "bin":
        return dict(n, a=wire(n["a"], cfg), b=wire(n["b"], cfg))
    if k == "eval":
        kind, tok = n["fn"].split(":")
        fid = None if kind == "surr" else id(funcs()[kind][tok])
        return {"k": "eval", "fname": n["fname"], "fid": fid, "args": [wire(a, cfg) for a in n["args"]]}
    raise ValueError(k)


# ------------------------------------------------------------------------------------------ generator
def _dy(rng):
    if rng.random() < 0.2:  # floats whose repr is not a short decimal: 0.1, 1e-05, 1e+22, 1/3 ...
        return rng.choice(["1/10", "1/100000", "10000000000000000000000", "1/3", "-7/1000", "123456789/1000", "0"])
    return frac(Fraction(rng.randint(-4096, 4096), rng.choice([1, 1, 2, 4, 8, 64, 1024])))


def _gen_steps(rng, allow_it=True):
    r = rng.random()
    steps = []
    if r < 0.5:
        return steps
    kind = "ts" if (r < 0.8 or not allow_it) else "it"
    if rng.random() < 0.4:
        steps.append(["key"])
    if rng.random() < 0.25:
        steps.append(["fork", kind, rng.choice([1, 1, 2]), rng.choice([0, 1])])
    else:
        steps.append([kind, rng.choice([1, 1, 2, 3])])
    if rng.random() < 0.3:
        if rng.random() < 0.5:
            steps.append(["key"])
        steps.append([kind, rng.choice([1, 2])])
    return steps


def _gen_doms(rng, types=("sd", "intf")):
    t = rng.choice(types)
    n = {"sd": NSD, "intf": NINTF, "bg": NBG}[t]
    cnt = rng.choice([0, 1, 1, 2, 2, 3])
    return [[t, i] for i in rng.sample(range(n), min(cnt, n))]


def _gen_idx(rng, n, hi):
    return [rng.randrange(hi) for _ in range(n)]


def _gen_proj(rng, big=False):
    if big:
        n = rng.choice([1001, 1200, 2500])
        return {"k": "proj", "rng": {"arange": n, "set": []}, "dom": {"arange": n, "set": [[rng.randrange(4, n - 4), rng.randrange(n)]] if rng.random() < 0.5 else []},
                "dsize": n + rng.randrange(3), "rsize": n + rng.randrange(3), "tr": False}
    n = rng.choice([0, 1, 2, 3, 5])
    ds, rs = rng.randint(max(n, 1), 8), rng.randint(max(n, 1), 8)
    return {"k": "proj", "rng": _gen_idx(rng, n, rs), "dom": _gen_idx(rng, n, ds), "dsize": ds, "rsize": rs, "tr": rng.random() < 0.15}


def _gen_sparse(rng):
    r, c = rng.randint(1, 4), rng.randint(1, 4)
    cells = [(i, j) for i in range(r) for j in range(c)]
    ent = sorted(rng.sample(cells, rng.randint(0, min(4, len(cells)))))
    vals = [rng.choice([x for x in range(-8, 9) if x != 0]) for _ in ent]
    return {"k": "sparse", "fmt": rng.choice(FMTS), "shape": [r, c], "ent": [[i, j, frac(Fraction(v, rng.choice([1, 2, 4])))] for (i, j), v in zip(ent, vals)]}


def gen_leaf(rng, allow_big=True):
    r = rng.random()
    if r < 0.22:
        t = rng.choice(["sd", "sd", "intf"])
        return {"k": "var", "name": rng.choice(NAMES), "dom": [t, rng.randrange(NSD if t == "sd" else NINTF)], "steps": _gen_steps(rng)}
    if r < 0.32:
        E = {"k": "mdvar", "name": rng.choice(NAMES), "doms": _gen_doms(rng), "steps": _gen_steps(rng)}
        if E["steps"] and rng.random() < 0.3:
            E["shift_first"] = True
        return E
    if r < 0.42:
        return {"k": "tdda", "name": rng.choice(NAMES), "doms": _gen_doms(rng, ("sd", "intf", "bg", "bg")), "steps": _gen_steps(rng, allow_it=False)}
    if r < 0.56:
        E = {"k": "scalar", "v": _dy(rng)}
        if rng.random() < 0.04:  # in-place change of the value after the key was computed
            E = {"k": "scalar", "v0": E["v"], "v": E["v"], "steps": [["key"], ["set", _dy(rng)]]}
            E["v"] = E["steps"][-1][1]
        return E
    if r < 0.66:
        n = rng.choice([0, 1, 2, 3, 4, 6])
        shape = [n]
        if n in (4, 6) and rng.random() < 0.3:
            shape = rng.choice([[2, n // 2], [n, 1], [1, n]])
        return {"k": "dense", "shape": shape, "vals": [_dy(rng) for _ in range(n)]}
    if r < 0.76:
        return _gen_sparse(rng)
    if r < 0.88:
        return _gen_proj(rng, big=allow_big and rng.random() < 0.12)
    if r < 0.92:
        return {"k": "plist", "ps": [_gen_proj(rng) for _ in range(rng.choice([0, 1, 2, 2, 3]))]}
    if r < 0.95:
        return _gen_merged(rng)
    if r < 0.97:
        return {"k": "div", "dim": rng.choice([1, 2, 3]), "sds": rng.sample(range(NSD), rng.randint(0, 3))}
    return _gen_merged(rng)


def _gen_merged(rng):
    return {"k": "merged", "cls": rng.choice(MCLS), "mk": rng.choice(MKEYS), "pk": rng.choice(PKEYS), "inner": rng.choice([None, None, "flow", "x"]),
            "doms": _gen_doms(rng)}


def gen_tree(rng, depth):
    for _ in range(50):
        E = _gen_tree(rng, depth)
        if _valid(E):
            return E
    return {"k": "scalar", "v": "1"}


def _gen_tree(rng, depth):
    if depth <= 0 or rng.random() < 0.25:
        return gen_leaf(rng)
    r = rng.random()
    if r < 0.6:
        op = rng.choice(list(OPS))
        a, b = _gen_tree(rng, depth - 1), _gen_tree(rng, depth - 1)
        if rng.random() < 0.3:
            side = rng.choice(["a", "b"])
            leaf = rng.choice([{"k": "scalar", "v": _dy(rng)}, {"k": "dense", "shape": [3], "vals": [_dy(rng) for _ in range(3)]}, _gen_sparse(rng)])
            leaf["raw"] = True
            if side == "a":
                a = leaf
            else:
                b = leaf
        if op == "pow" and a["k"] == "sparse":
            op = "mul"
        return {"k": "bin", "op": op, "a": a, "b": b}
    if r < 0.66:
        t = rng.choice(["sd", "sd", "intf"])
        n = NSD if t == "sd" else NINTF
        args = []
        for _ in range(rng.choice([1, 1, 2])):
            if rng.random() < 0.6:
                args.append({"k": "var", "name": rng.choice(NAMES), "dom": [t, rng.randrange(n)], "steps": _gen_steps(rng)})
            else:
                args.append({"k": "mdvar", "name": rng.choice(NAMES), "doms": [[t, i] for i in rng.sample(range(n), rng.choice([1, 2]))], "steps": _gen_steps(rng)})
        return {"k": "surr", "name": rng.choice(["rho", "mu", "p"]), "args": args}
    if r < 0.85:
        args = [_gen_tree(rng, depth - 1) for _ in range(rng.choice([1, 1, 2, 3]))]
        if rng.random() < 0.2:
            return {"k": "eval", "inst": rng.choice(INST_TOKENS), "args": args}
        return {"k": "eval", "fn": rng.choice(FN_TOKENS), "fname": rng.choice(FN_NAMES), "args": args}
    return {"k": "shift", "kind": rng.choice(["ts", "ts", "it"]), "steps": rng.choice([1, 1, 2]), "prekey": rng.random() < 0.5, "t": _gen_tree(rng, depth - 1)}


def _nodes(E, path=()):
    """all (path, node) pairs; a path is a tuple of keys / indices into the JSON term"""
    yield path, E
    k = E["k"]
    if k == "bin":
        yield from _nodes(E["a"], path + ("a",))
        yield from _nodes(E["b"], path + ("b",))
    elif k in ("eval", "surr"):
        for i, a in enumerate(E["args"]):
            yield from _nodes(a, path + ("args", i))
    elif k == "shift":
        yield from _nodes(E["t"], path + ("t",))


def _get(E, path):
    for p in path:
        E = E[p]
    return E


def _set(E, path, new):
    if not path:
        return new
    E = copy.deepcopy(E)
    cur = E
    for p in path[:-1]:
        cur = cur[p]
    cur[path[-1]] = new
    return E


def _other(rng, pool_, cur):
    return rng.choice([x for x in pool_ if x != cur])


def _mut_proj(rng, E):
    E = copy.deepcopy(E)
    opts = ["dsize", "rsize", "tr"]
    n = len(_idx(E["rng"]))
    if n:
        opts += ["rng", "dom", "dom"]
    m = rng.choice(opts)
    if m in ("dsize", "rsize"):
        E[m] += rng.choice([1, 2])
    elif m == "tr":
        E["tr"] = not E.get("tr")
    else:
        if isinstance(E[m], dict):
            pos = rng.randrange(4, n - 4)
            cur = dict(E[m].get("set", [])).get(pos, pos)
            E[m] = {"arange": E[m]["arange"], "set": [s for s in E[m].get("set", []) if s[0] != pos] + [[pos, (cur + 1) % n]]}
        else:
            pos = rng.randrange(n)
            E[m] = list(E[m])
            E[m][pos] += 1
            if m == "rng":
                E["rsize"] = max(E["rsize"], E[m][pos] + 1)
            else:
                E["dsize"] = max(E["dsize"], E[m][pos] + 1)
    return E, "proj." + m


def mutate_node(rng, E):
    """one changed datum / structural element of node E; returns (E', label) or None"""
    k = E["k"]
    E2 = copy.deepcopy(E)
    if k in ("var", "mdvar", "tdda"):
        m = rng.choice(["name", "dom", "dtype", "shift"])
        if m == "name":
            E2["name"] = _other(rng, NAMES, E["name"])
        elif m == "dom":
            if k == "var":
                t = E["dom"][0]
                E2["dom"] = [t, _other(rng, range({"sd": NSD, "intf": NINTF}[t]), E["dom"][1])]
            else:
                types = ("sd", "intf") if k == "mdvar" else ("sd", "intf", "bg")
                d = _gen_doms(rng, (E["doms"][0][0],) if E["doms"] else types)
                if d and d == E["doms"]:
                    d = d[::-1] if len(d) > 1 else []
                E2["doms"] = d
        elif m == "dtype":
            types = ["sd", "intf"] if k != "tdda" else ["sd", "intf", "bg"]
            if k == "var":
                t = _other(rng, types, E["dom"][0])
                E2["dom"] = [t, min(E["dom"][1], {"sd": NSD, "intf": NINTF, "bg": NBG}[t] - 1)]
            else:
                if not E["doms"]:
                    return None
                t = _other(rng, types, E["doms"][0][0])
                lim = {"sd": NSD, "intf": NINTF, "bg": NBG}[t]
                E2["doms"] = [[t, d[1]] for d in E["doms"] if d[1] < lim]
        else:
            kind = rng.choice(["ts", "it"]) if k != "tdda" else "ts"
            E2["steps"] = list(E.get("steps", [])) + [[kind, rng.choice([1, 2])]]
            m = "shift." + kind
        return E2, k + "." + m
    if k == "scalar":
        E2 = {"k": "scalar", "v": frac(Fraction(norm(E)["v"]) + rng.choice([1, -1, Fraction(1, 2), Fraction(1, 1024)]))}
        if E.get("raw"):
            E2["raw"] = True
        return E2, "scalar.value"
    if k == "dense":
        n = len(E["vals"])
        opts = (["val"] if n else []) + (["shape"] if n >= 1 and len(E["shape"]) == 1 else []) + ["len"]
        m = rng.choice(opts)
        if m == "val":
            i = rng.randrange(n)
            E2["vals"][i] = frac(Fraction(E["vals"][i]) + 1)
        elif m == "shape":
            E2["shape"] = rng.choice([[n, 1], [1, n]])
        else:
            E2["vals"] = E["vals"] + ["0"]
            E2["shape"] = [n + 1]
        return E2, "dense." + m
    if k == "sparse":
        m = rng.choice((["val", "pos"] if E["ent"] else []) + ["fmt", "shape", "add"])
        r, c = E["shape"]
        if m == "val":
            i = rng.randrange(len(E["ent"]))
            E2["ent"][i][2] = frac(Fraction(E["ent"][i][2]) * 2)
        elif m in ("pos", "add"):
            free = [[i, j] for i in range(r) for j in range(c) if [i, j] not in [e[:2] for e in E["ent"]]]
            if not free:
                return None
            f = rng.choice(free)
            if m == "pos":
                i = rng.randrange(len(E["ent"]))
                E2["ent"][i] = [f[0], f[1], E["ent"][i][2]]
            else:
                E2["ent"].append([f[0], f[1], "1"])
            E2["ent"].sort(key=lambda e: (e[0], e[1]))
        elif m == "fmt":
            E2["fmt"] = _other(rng, FMTS, E["fmt"])
        else:
            E2["shape"] = rng.choice([[r + 1, c], [r, c + 1]])
        return E2, "sparse." + m
    if k == "proj":
        return _mut_proj(rng, E)
    if k == "plist":
        m = rng.choice((["member", "member", "drop", "swap"] if E["ps"] else []) + ["add"])
        if m == "member":
            i = rng.randrange(len(E["ps"]))
            E2["ps"][i], lab = _mut_proj(rng, E["ps"][i])
            return E2, "plist." + lab
        if m == "drop":
            del E2["ps"][rng.randrange(len(E["ps"]))]
        elif m == "swap":
            if len(E["ps"]) < 2:
                return None
            E2["ps"][0], E2["ps"][1] = E2["ps"][1], E2["ps"][0]
        else:
            E2["ps"].append(_gen_proj(rng))
        return E2, "plist." + m
    if k == "div":
        if rng.random() < 0.5:
            E2["dim"] += 1
            return E2, "div.dim"
        E2["sds"] = rng.sample(range(NSD), rng.randint(0, 3))
        return E2, "div.sds"
    if k == "bin":
        m = rng.choice(["op", "swap"])
        if m == "op":
            E2["op"] = _other(rng, list(OPS), E["op"])
        else:
            E2["a"], E2["b"] = E2["b"], E2["a"]
        return E2, "bin." + m
    if k == "eval":
        m = rng.choice(["fn", "fname", "regroup", "regroup", "arg"])
        if m == "fn":
            if "inst" in E:
                E2["inst"] = _other(rng, INST_TOKENS, E["inst"])
            else:
                E2["fn"] = _other(rng, FN_TOKENS, E["fn"])
        elif m == "fname":
            if "inst" in E:
                return None
            E2["fname"] = _other(rng, FN_NAMES, E["fname"])
        elif m == "regroup":
            # f(g(a), b)  <->  f(g(a, b)):  move the last argument into / out of a first argument that is itself an evaluation
            first = E["args"][0]
            if first["k"] != "eval":
                return None
            if len(E["args"]) >= 2:
                E2["args"] = [dict(copy.deepcopy(first), args=first["args"] + [E["args"][-1]])] + copy.deepcopy(E["args"][1:-1])
            elif len(first["args"]) >= 2:
                E2["args"] = [dict(copy.deepcopy(first), args=first["args"][:-1]), copy.deepcopy(first["args"][-1])]
            else:
                return None
        else:
            E2["args"] = E["args"] + [{"k": "scalar", "v": "1"}] if len(E["args"]) < 3 else E["args"][:-1]
        return E2, "eval." + m
    if k == "shift":
        E2["steps"] += 1
        return E2, "shift.steps"
    if k == "merged":
        m = rng.choice(["cls", "mk", "pk", "inner", "dom", "dtype", "dtype"])
        if m == "cls":
            E2["cls"] = _other(rng, MCLS, E["cls"])
        elif m == "mk":
            E2["mk"] = _other(rng, MKEYS, E["mk"])
        elif m == "pk":
            E2["pk"] = _other(rng, PKEYS, E["pk"])
        elif m == "inner":
            E2["inner"] = _other(rng, [None, "flow", "x"], E.get("inner"))
        elif m == "dom":
            d = _gen_doms(rng, (E["doms"][0][0],) if E["doms"] else ("sd", "intf"))
            if d == E["doms"]:
                d = d[::-1] if len(d) > 1 else (d + [[d[0][0], (d[0][1] + 1) % NINTF]] if d else [["sd", 0]])
            E2["doms"] = d
        else:
            if not E["doms"]:
                return None
            t = "intf" if E["doms"][0][0] == "sd" else "sd"
            E2["doms"] = [[t, d[1]] for d in E["doms"] if d[1] < {"sd": NSD, "intf": NINTF}[t]]
        return E2, "merged." + m
    if k == "surr":
        m = rng.choice(["name", "name", "arg"])
        if m == "name":
            E2["name"] = _other(rng, ["rho", "mu", "p"], E["name"])
        else:
            E2["args"] = E["args"] + [copy.deepcopy(E["args"][0])] if len(E["args"]) < 3 else E["args"][:-1]
        return E2, "surr." + m
    return None


def mutate(rng, E):
    n0 = norm(E)
    nodes = list(_nodes(E))
    for _ in range(60):
        path, node = rng.choice(nodes)
        r = mutate_node(rng, node)
        if r is None:
            continue
        E2 = _set(E, path, r[0])
        try:
            if norm(E2) != n0:
                return E2, r[1]
        except Invalid:
            continue
    return {"k": "scalar", "v": "7/8"}, "replaced"


def variant(rng, E):
    """the same tree built in a different way: raw operands instead of wrapped ones (and back), keys computed before shifts,
    shifts split in two, md-variables assembled from shifted sub-variables"""
    n0 = norm(E)
    E2 = copy.deepcopy(E)
    for path, node in list(_nodes(E2)):
        k = node["k"]
        if k == "bin":
            for side in ("a", "b"):
                ch = node[side]
                if ch["k"] in ("scalar", "dense", "sparse") and "steps" not in ch and rng.random() < 0.5:
                    old = ch.get("raw", False)
                    ch["raw"] = not old
                    try:
                        ok = norm(E2) == n0
                    except Invalid:
                        ok = False
                    if not ok:
                        ch["raw"] = old
        elif k in ("var", "mdvar", "tdda"):
            st = []
            for s in node.get("steps", []):
                if s[0] in ("ts", "it") and s[1] >= 2 and rng.random() < 0.5:
                    st += [[s[0], 1], ["key"], [s[0], s[1] - 1]]
                elif s[0] == "key" and rng.random() < 0.5:
                    continue
                else:
                    st.append(s)
            if st and rng.random() < 0.3:
                st = [["key"]] + st
            node["steps"] = st
            if k == "mdvar" and st and rng.random() < 0.5:
                node["shift_first"] = not node.get("shift_first", False)
        elif k == "shift":
            node["prekey"] = not node.get("prekey", False)
    assert norm(E2) == n0
    return E2


def gen_hist(rng, tier):
    r = rng.random()
    if r < 0.25:
        E = {"k": "scalar", "v": _dy(rng)}
    elif r < 0.6:
        E = gen_leaf(rng, allow_big=False)
        E.pop("steps", None)
        E.pop("shift_first", None)
        if E["k"] == "scalar":
            E = {"k": "scalar", "v": E["v"]}
    else:
        E = gen_tree(rng, rng.choice([1, 2]))
    ops = []
    for _ in range(rng.randint(1, 7)):
        q = rng.random()
        if q < 0.4:
            ops.append(["key"])
        elif q < 0.85 or E["k"] != "scalar":
            ops.append([rng.choice(["ts", "ts", "it"]), rng.choice([0, 1, 1, 1, 2, 3]) if rng.random() < 0.15 else rng.choice([1, 1, 2])])
        else:
            ops.append(["set", _dy(rng)])
    if rng.random() < 0.5:
        ops.append(["key"])
    return {"hist": {"tree": E, "ops": ops}, "stratum": "history"}


def _stratum_tree(rng, tier):
    """corner-case strata for E0"""
    q = rng.random()
    if q < 0.15:
        return gen_leaf(rng), "single-leaf"
    if q < 0.25:
        E = rng.choice([{"k": "mdvar", "name": "p", "doms": [], "steps": []}, {"k": "tdda", "name": "t", "doms": [], "steps": _gen_steps(rng, False)},
                        {"k": "dense", "shape": [0], "vals": []}, {"k": "plist", "ps": []}, {"k": "div", "dim": 1, "sds": []},
                        {"k": "proj", "rng": [], "dom": [], "dsize": rng.randint(0, 3), "rsize": rng.randint(0, 3), "tr": False},
                        {"k": "sparse", "fmt": rng.choice(FMTS), "shape": [rng.randint(1, 2), rng.randint(1, 2)], "ent": []},
                        {"k": "merged", "cls": "DiscrA", "mk": "flux", "pk": "flow", "inner": None, "doms": []}])
        return E, "empty-data"
    if q < 0.35:
        a = gen_tree(rng, rng.choice([0, 1, 2]))
        return {"k": "bin", "op": rng.choice(list(OPS)), "a": a, "b": copy.deepcopy(a)}, "duplicate-subtrees"
    if q < 0.42:
        E = {"k": "var", "name": rng.choice(NAMES), "dom": ["sd", rng.randrange(NSD)], "steps": [[rng.choice(["ts", "it"]), 1]] * rng.randint(2, 6)}
        E["steps"] = [[E["steps"][0][0], 1] for _ in E["steps"]]
        return E, "repeated-shifts"
    if q < 0.48:
        return {"k": "bin", "op": "mul", "a": {"k": "scalar", "v": rng.choice(["1/1000000000000000000000000000000", "179769313486231570000000000000000000000000000000000000000", "-0", "1/3"])},
                "b": _gen_proj(rng, big=True)}, "extreme-scale"
    return None, None


def gen_case(rng, tier):
    if rng.random() < 0.2:
        return gen_hist(rng, tier)
    E0s, stratum = _stratum_tree(rng, tier)
    if E0s is not None and _valid(E0s):
        E1 = variant(rng, E0s)
        E2, lab = mutate(rng, E0s)
        E3, lab3 = mutate(rng, E0s)
        if stratum == "duplicate-subtrees":  # also the operands of the root permuted (only equal if both are equal)
            E3, lab3 = dict(copy.deepcopy(E0s), a=E0s["b"], b=E0s["a"]), "permuted-operands"
        return {"trees": [E0s, E1, E2, E3], "mut": [lab, lab3], "stratum": stratum}
    depth = rng.choice([0, 1, 2, 3, 4] if tier == "quick" else [0, 1, 2, 3, 4, 5, 6])
    E0 = gen_tree(rng, depth)
    E1 = variant(rng, E0)
    E2, lab = mutate(rng, E0)
    labs = [lab]
    if rng.random() < 0.5:
        E3, lab3 = mutate(rng, E0 if rng.random() < 0.7 else E2)
        labs.append(lab3)
    else:
        E3 = gen_tree(rng, rng.choice([0, 1, 2]))
        labs.append("unrelated")
    return {"trees": [E0, E1, E2, E3], "mut": labs}


# ------------------------------------------------------------------------------------------ real code, model, comparison
def _eq_pairs(keys):
    return [[i, j] for i in range(len(keys)) for j in range(i + 1, len(keys)) if keys[i] == keys[j]]


def _run_hist(h):
    """the history on the real object; returns ({"keys": [...]} | {"err": "raised"}, normal forms at the key calls, set seen before key)"""
    op = build(h["tree"])
    n = norm(h["tree"])
    keys, norms, stale = [], [], []
    was_set = False
    for o in h["ops"]:
        if o[0] == "key":
            keys.append(op._key())
            norms.append(n)
            stale.append(was_set)
        elif o[0] in ("ts", "it"):
            try:
                op = op.previous_timestep(steps=o[1]) if o[0] == "ts" else op.previous_iteration(steps=o[1])
            except (ValueError, AssertionError):
                return {"err": "raised"}, norms, stale, keys
            n = _shift_hist(n, o[0], o[1])
        else:
            op.set_value(_fl(o[1]))
            n = {"k": "scalar", "v": frac(Fraction(_fl(o[1])))}
            was_set = True
    return {"keys": keys}, norms, stale, keys


def _shift_hist(n, kind, steps):
    """normal form after a legal shift (the real call did not raise)"""
    try:
        return _shift(n, kind, steps)
    except Invalid:
        return {"k": "invalid"}


def impl_run(case):
    if "hist" in case:
        return _run_hist(case["hist"])[0]
    ops = [build(E) for E in case["trees"]]
    keys = [o._key() for o in ops]
    return {"keys": keys, "eq": _eq_pairs(keys)}


def model_ops(case):
    cfg = detect_cfg()
    lean_cfg = {k: v for k, v in cfg.items() if k != "idxHash"}
    if "hist" in case:
        h = case["hist"]
        ops = [[o[0], repr(_fl(o[1]))] if o[0] == "set" else o for o in h["ops"]]
        return [{"op": "hist", "cfg": lean_cfg, "pol": detect_policy(), "tree": wire(norm(h["tree"]), cfg), "ops": ops}]
    return [{"op": "keys", "cfg": lean_cfg, "trees": [wire(norm(E), cfg) for E in case["trees"]]}]


def model_decode(outs, case):
    return outs[0]


def compare(impl, model, case):
    if "harness_exc" in impl:
        return "real code raised: " + impl["harness_exc"]
    if "hist" in case:
        return None if impl == model else f"history: real {str(impl)[:300]} vs model {str(model)[:300]}"
    if "err" in model:
        return "driver: " + str(model)
    for i, (a, b) in enumerate(zip(impl["keys"], model["keys"])):
        if a != b:
            return f"key string of tree {i}: real {a[:300]!r} vs model {b[:300]!r}"
    if impl["eq"] != model["eq"]:
        return f"pairs with equal keys: real {impl['eq']} vs model (token lists) {model['eq']}"
    cfg = detect_cfg()
    if cfg["idxHash"] and cfg["plistKeys"] and cfg["domSize"]:  # the legacy formats are outside the decoder
        if not all(model["wf"]):
            return f"model: tree / token list not well-formed (a name or digest with a delimiter character?): {model['wf']}"
        if not all(model["lex"]):
            return f"model: lex(render(key)) != key for tree(s) {[i for i, b in enumerate(model['lex']) if not b]}"
    return None


# ------------------------------------------------------------------------------------------ oracle
def _has_stale_scalar(E):
    for _, n in _nodes(E):
        if n["k"] == "scalar" and any(s[0] == "set" for s in n.get("steps", [])):
            return True
    return False


def _proj_class(a, b):
    if len(a["rng"]) != len(b["rng"]) or a["rng"] != b["rng"] or a["dom"] != b["dom"]:
        return "collision:projection-index-abbreviated" if min(len(a["rng"]), len(b["rng"])) > 1000 else "collision:projection-indices"
    if a["tr"] != b["tr"]:
        return "collision:projection-transposed"
    if a["rsize"] != b["rsize"]:
        return "collision:projection-range-size"
    return "collision:projection-domain-size"


def diff_class(a, b):
    """names the first difference between two different normal forms (= the datum a colliding key fails to show)"""
    if a["k"] != b["k"]:
        return "collision:tree-structure"
    k = a["k"]
    if k == "bin":
        if a["op"] != b["op"]:
            return "collision:operation"
        return diff_class(a["a"], b["a"]) if a["a"] != b["a"] else diff_class(a["b"], b["b"])
    if k == "eval":
        if (a["fn"], a["fname"]) != (b["fn"], b["fname"]):
            return "collision:evaluate-function"
        if len(a["args"]) != len(b["args"]):
            return "collision:evaluate-arity"
        for x, y in zip(a["args"], b["args"]):
            if x != y:
                return diff_class(x, y)
    if k in ("var", "mdvar", "tdda"):
        if a["name"] != b["name"]:
            return f"collision:{k}-name"
        dom = "dom" if k == "var" else "doms"
        if a[dom] != b[dom]:
            return f"collision:{k}-domain"
        if a["dt"] != b["dt"]:
            return "collision:domain-type"
        return "collision:time-iterate-index"
    if k == "scalar":
        return "collision:scalar-value"
    if k == "dense":
        return "collision:dense-values" if a["vals"] != b["vals"] else "collision:dense-array-shape"
    if k == "sparse":
        return "collision:sparse-data"
    if k == "proj":
        return _proj_class(a, b)
    if k == "plist":
        if len(a["ps"]) != len(b["ps"]):
            return "collision:projection-list-length"
        rep = lambda p: (p["dsize"], len(p["rng"]), len(p["dom"]), p["tr"])
        if [rep(p) for p in a["ps"]] == [rep(p) for p in b["ps"]] and not detect_cfg()["plistKeys"]:
            return "collision:projection-list"  # keyed by repr of the members: whatever repr does not show is lost
        for x, y in zip(a["ps"], b["ps"]):
            if x != y:
                return _proj_class(x, y)
    if k == "div":
        return "collision:divergence"
    if k == "merged":
        for f in ("name", "doms", "mk", "pk", "inner"):
            if a[f] != b[f]:
                return "collision:merged-" + f
        return "collision:merged-domain-type"
    return "collision:unclassified"


def canon(n):
    """the plainest expression with normal form `n`: wrapped operands only, one shift per leaf, no keys computed on the way"""
    k = n["k"]
    key = {"subdomains": "sd", "interfaces": "intf", "boundary": "bg"}
    if k in ("var", "mdvar", "tdda"):
        steps = ([["ts", n["ts"] + 1]] if n["ts"] >= 0 else []) + ([["it", n["it"] + 1]] if n.get("it", -1) >= 0 else [])
        if k == "var":
            return {"k": "var", "name": n["name"], "dom": [key[n["dt"]], n["dom"]], "steps": steps}
        return {"k": k, "name": n["name"], "doms": [[key[n["dt"]], i] for i in n["doms"]], "steps": steps}
    if k == "bin":
        return dict(n, a=canon(n["a"]), b=canon(n["b"]))
    if k == "eval":
        kind, tok = n["fn"].split(":")
        args = [canon(a) for a in n["args"]]
        if kind == "surr":
            return {"k": "surr", "name": n["fname"], "args": args}
        return {"k": "eval", "inst": tok, "args": args} if kind == "inst" else {"k": "eval", "fn": tok, "fname": n["fname"], "args": args}
    if k == "merged":
        return {"k": "merged", "cls": n["name"], "mk": n["mk"], "pk": n["pk"], "inner": n["inner"], "doms": [[key[n["dt"]], i] for i in n["doms"]]}
    return copy.deepcopy(n)


_KNOWN = None
HASH_STATS = {"pairs": 0, "str_hash_collisions": 0}


def _known():
    global _KNOWN
    if _KNOWN is None:
        _KNOWN = {f["key"] for f in load_findings(PID)}
    return _KNOWN


def oracle(case):
    """The property on the real code: for every pair of expressions, equal trees <=> equal keys (and hashes);
    keys are stable under repeated calls."""
    if "hist" in case:
        h = case["hist"]
        out, norms, stale, keys = _run_hist(h)
        # legal / illegal shifts: the real call raises iff the shift of the tree is illegal (or has zero steps on a reacting leaf)
        n, want_err = norm(h["tree"]), False
        for o in h["ops"]:
            if o[0] in ("ts", "it"):
                try:
                    n2 = _shift(n, o[0], o[1])
                except Invalid:
                    want_err = True
                    break
                if o[1] == 0 and n2 != _shift(n, o[0], 1):
                    want_err = True
                    break
                n = n2
            elif o[0] == "set":
                n = {"k": "scalar", "v": frac(Fraction(_fl(o[1])))}
        if want_err != ("err" in out):
            return {"what": f"history {h['ops']}: the shift should {'raise' if want_err else 'not raise'}", "key": "shift-legality"}
        if any(nf.get("k") == "invalid" for nf in norms):
            return {"what": f"history {h['ops']}: an illegal shift (time shift of a previous iterate or vice versa) did not raise", "key": "shift-legality"}
        for i, (k, nf, st) in enumerate(zip(keys, norms, stale)):
            fresh = build(canon(nf))._key()
            if k != fresh:
                key = "stale-key:scalar-set-value" if (st or _has_stale_scalar(h["tree"])) else "stale-key:history"
                return {"what": f"history {h['ops']}: key call {i} returned {k[:120]!r} but the operator now is {fresh[:120]!r}", "key": key}
        return None
    trees = case["trees"]
    ops = [build(E) for E in trees]
    keys = [o._key() for o in ops]
    norms = [norm(E) for E in trees]
    fails = []
    for i, o in enumerate(ops):
        if o._key() != keys[i] or hash(o) != hash(keys[i]):
            fails.append({"what": f"tree {i}: _key() not stable or hash(op) != hash(key)", "key": "unstable-key"})
        if build(trees[i])._key() != keys[i]:
            fails.append({"what": f"tree {i}: the same expression built twice gives two keys", "key": "equal-trees-different-keys:rebuild"})
        kc = build(canon(norms[i]))._key()
        if kc != keys[i]:
            key = "stale-key:scalar-set-value" if _has_stale_scalar(trees[i]) else "equal-trees-different-keys:canonical"
            fails.append({"what": f"tree {i} has key {keys[i][:160]!r} but the same tree built plainly (wrapped operands, shifts applied to fresh leaves) has {kc[:160]!r}", "key": key})
    for i in range(len(trees)):
        for j in range(i + 1, len(trees)):
            same_tree, same_key = norms[i] == norms[j], keys[i] == keys[j]
            stale = _has_stale_scalar(trees[i]) or _has_stale_scalar(trees[j])
            if same_tree and not same_key:
                key = "stale-key:scalar-set-value" if stale else "equal-trees-different-keys"
                fails.append({"what": f"trees {i},{j} are the same operator tree but have keys {keys[i][:160]!r} / {keys[j][:160]!r}", "key": key})
            elif not same_tree and same_key:
                key = "stale-key:scalar-set-value" if stale else diff_class(norms[i], norms[j])
                fails.append({"what": f"trees {i},{j} differ ({key.split(':')[1]}) but share the key {keys[i][:200]!r}", "key": key})
            # __hash__ is hash(key): equal hashes <=> equal keys, except for 64-bit collisions of the string hash itself
            HASH_STATS["pairs"] += 1
            if (hash(ops[i]) == hash(ops[j])) != same_key:
                if not same_key and hash(keys[i]) == hash(keys[j]):
                    HASH_STATS["str_hash_collisions"] += 1  # a collision of python's str hash, not of the keys
                else:
                    fails.append({"what": f"trees {i},{j}: hash(op) equality ({hash(ops[i]) == hash(ops[j])}) disagrees with key equality ({same_key})", "key": "hash-vs-key"})
    if not fails:
        return None
    for f in fails:
        if f["key"] not in _known():
            return f
    return fails[0]


# ------------------------------------------------------------------------------------------ evidence helpers
def nontrivial(case):
    if "hist" in case:
        return any(o[0] == "key" for o in case["hist"]["ops"]) and any(o[0] != "key" for o in case["hist"]["ops"])
    try:
        ns = [norm(E) for E in case["trees"]]
    except Invalid:
        return False
    pairs = [(i, j) for i in range(len(ns)) for j in range(i + 1, len(ns))]
    return any(ns[i] == ns[j] for i, j in pairs) and any(ns[i] != ns[j] for i, j in pairs)


def shrink_candidates(case):
    if "hist" in case:
        h = case["hist"]
        for i in range(len(h["ops"])):
            yield {"hist": {"tree": h["tree"], "ops": h["ops"][:i] + h["ops"][i + 1:]}}
        for path, node in _nodes(h["tree"]):
            if path and not node.get("raw"):
                yield {"hist": {"tree": node, "ops": h["ops"]}}
        return
    t = case["trees"]
    if len(t) > 2:
        for i in range(len(t)):
            for j in range(i + 1, len(t)):
                yield {"trees": [t[i], t[j]], "mut": []}
    if len(t) == 2:  # the same sub-term of both trees
        for path, node in _nodes(t[0]):
            try:
                other = _get(t[1], path)
            except (KeyError, IndexError, TypeError):
                continue
            if path and isinstance(other, dict) and "k" in other and not node.get("raw") and not other.get("raw"):
                yield {"trees": [node, other], "mut": []}
    for i, E in enumerate(t):
        for path, node in _nodes(E):
            if path and not node.get("raw"):
                yield {"trees": t[:i] + [node] + t[i + 1:], "mut": []}


def stats(cases, impl_outs):
    kinds, muts, depth = {}, {}, {}
    eqp = nep = big = 0

    def d(E):
        ch = [E[c] for c in ("a", "b", "t") if c in E and isinstance(E[c], dict)] + list(E.get("args", []))
        return 1 + max([d(c) for c in ch], default=0)

    strata, hops, hraised = {}, {}, 0
    for c, o in zip(cases, impl_outs):
        strata[c.get("stratum") or "random-tree"] = strata.get(c.get("stratum") or "random-tree", 0) + 1
        if "hist" in c:
            for op in c["hist"]["ops"]:
                lab = op[0] + ("(0 steps)" if op[0] in ("ts", "it") and op[1] == 0 else "")
                hops[lab] = hops.get(lab, 0) + 1
            hraised += int(isinstance(o, dict) and "err" in o)
    tree_cases = [c for c in cases if "trees" in c]
    for c in tree_cases:
        for m in c.get("mut", []):
            muts[m] = muts.get(m, 0) + 1
        for E in c["trees"]:
            depth[d(E)] = depth.get(d(E), 0) + 1
            for _, n in _nodes(E):
                kinds[n["k"] + ("(raw)" if n.get("raw") else "")] = kinds.get(n["k"] + ("(raw)" if n.get("raw") else ""), 0) + 1
                if n["k"] == "proj" and isinstance(n["rng"], dict):
                    big += 1
    for o in impl_outs:
        if isinstance(o, dict) and "eq" in o:
            n = len(o["keys"])
            eqp += len(o["eq"])
            nep += n * (n - 1) // 2 - len(o["eq"])
    return {"strata": strata, "history_calls": hops, "histories_that_raise": hraised, "cache_policy_detected": detect_policy(),
            "repairs_detected_in_checked_tree": detect_cfg(), "hash_vs_key_pairs_checked": dict(HASH_STATS), "node_kinds": dict(sorted(kinds.items())), "mutation_kinds": dict(sorted(muts.items())),
            "tree_depth_histogram": {str(k): v for k, v in sorted(depth.items())}, "pairs_equal_key": eqp, "pairs_different_key": nep,
            "projections_with_more_than_1000_indices": big}
