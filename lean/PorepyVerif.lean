-- Root of the `PorepyVerif` library: every model, property and audit module is imported here
-- so that `lake build` checks all of them.
import PorepyVerif.Common.Wire
