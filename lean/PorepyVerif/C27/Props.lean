/-
C27 — property theorems (statements only depend on Model.lean; helper lemmas in Lemmas.lean).

Property: for any list of subdomains, interfaces or boundary grids (in any order, scalar or
vector-valued), restriction followed by prolongation to the same grids is the identity,
prolongations from all listed grids together form a permutation of the global vector following
the list order, and mortar projections equal the per-interface projections placed at the matching
global offsets.

Notation: `gs` = the subdomain list handed to the projection object, `dim` = vector dimension,
`useFaces` selects face (`true`) or cell (`false`) quantities, `sel` = positions (in `gs`) of the
grids a restriction / prolongation is asked for, in the order asked.  A 0-1 projection is described
by its index map `idx` (`P[idx[j], j] = 1`, `R[j, idx[j]] = 1`); `Mat.apply` is the matrix–vector
product of the triplet matrices the model (and the driver) produce.

Hypotheses used throughout (explicit, decidable, satisfied by every real grid list):
`0 < dim` and `∀ g ∈ gs, g.wf` (≥ 1 cell; faces = 0 iff the grid is 0-dimensional).
-/
import PorepyVerif.C27.Lemmas

namespace PorepyVerif.C27
open List

/-! ### Kronecker structure: index `i ↦ i*dim + k` -/

/-- Vector-valued projections are the scalar ones expanded by `expand_indices_nd`
    (`P_dim = P_1 ⊗ I_dim`), and expanding a range of scalar indices gives the range of vector dofs. -/
theorem kron_dim (useFaces : Bool) (gs : List G) (dim : Nat) (hd : 0 < dim) (hwf : ∀ g ∈ gs, g.wf) :
    projsOf useFaces gs dim =
        (projsOf useFaces gs 1).map (fun bl => bl.map (fun b => expandNd b dim)) ∧
      (∀ a n, expandNd (List.range' a n) dim = List.range' (dim * a) (dim * n)) := by
  constructor
  · rw [projsOf_eq useFaces gs dim hd hwf, projsOf_eq useFaces gs 1 (by omega) hwf]
    have := blocks_mul dim 0 (gs.map (fun g => sizeOf useFaces g)) hd
    simp only [List.map_map, Function.comp_def, Nat.mul_zero] at this
    simp only [Option.map_some, Nat.one_mul, this]
  · intro a n
    exact expandNd_range' a n dim hd

/-- Component `k` of scalar index `ind[j]` sits at position `j*dim + k` and is `dim*ind[j] + k`;
    nothing else is produced. -/
theorem expandNd_index (ind : List Nat) (dim : Nat) (hd : 0 < dim) :
    (expandNd ind dim).length = ind.length * dim ∧
      (∀ j k (hj : j < ind.length), k < dim → (expandNd ind dim)[j * dim + k]? = some (dim * ind[j] + k)) ∧
      (∀ g, g ∈ expandNd ind dim ↔ ∃ i ∈ ind, ∃ k, k < dim ∧ g = dim * i + k) :=
  ⟨expandNd_length ind dim hd, fun j k hj hk => expandNd_getElem? ind dim j k hj hk,
    fun g => mem_expandNd ind dim g hd⟩

/-- `sparse_kronecker_product(M, dim)`: entry `(r, c, v)` of `M` becomes exactly the entries
    `(r*dim + k, c*dim + k, v)`, `k < dim`. -/
theorem kron_triplets (tr : List Trip) (dim : Nat) (hd : 0 < dim) (t' : Trip) :
    t' ∈ kronI tr dim ↔ ∃ t ∈ tr, ∃ k, k < dim ∧ t' = (t.1 * dim + k, t.2.1 * dim + k, t.2.2) :=
  mem_kronI tr dim hd t'

/-! ### offsets are prefix sums: disjoint, contiguous, covering blocks -/

/-- The offset loops of `_cell_projections` / `_face_projections` (offset = `ind[-1] + 1`, for faces
    only moved when `sd.dim > 0`) never raise on well-formed grids and produce consecutive ranges. -/
theorem projections_are_blocks (useFaces : Bool) (gs : List G) (dim : Nat) (hd : 0 < dim)
    (hwf : ∀ g ∈ gs, g.wf) :
    projsOf useFaces gs dim = some (blocks 0 (gs.map (fun g => dim * sizeOf useFaces g))) :=
  projsOf_eq useFaces gs dim hd hwf

/-- The blocks, in list order, tile `[off, off + total)`: concatenated they are exactly the range
    (so they are pairwise disjoint, contiguous and cover it), one block per listed grid. -/
theorem blocks_disjoint_contiguous_cover (off : Nat) (ss : List Nat) :
    (blocks off ss).flatten = List.range' off ss.sum ∧ (blocks off ss).flatten.Nodup ∧
      (blocks off ss).length = ss.length := by
  refine ⟨blocks_flatten off ss, ?_, blocks_length off ss⟩
  rw [blocks_flatten]
  exact List.nodup_range' (step := 1)

/-- Grid `p` of the list owns the global indices `[dim * (sizes of the grids before it), + dim * size)`. -/
theorem block_offsets (useFaces : Bool) (gs : List G) (dim : Nat) (hd : 0 < dim)
    (hwf : ∀ g ∈ gs, g.wf) (p : Nat) (hp : p < gs.length) :
    ∃ projs, projsOf useFaces gs dim = some projs ∧ projs.length = gs.length ∧
      projs[p]? = some (List.range' (dim * sumMap (sizeOf useFaces) (gs.take p))
        (dim * sizeOf useFaces gs[p])) := by
  refine ⟨_, projsOf_eq useFaces gs dim hd hwf, by simp [blocks_length], ?_⟩
  have hp' : p < (blocks 0 (gs.map (fun g => dim * sizeOf useFaces g))).length := by
    simpa [blocks_length] using hp
  rw [List.getElem?_eq_getElem hp']
  have := blocks_grid_getD gs (sizeOf useFaces) dim p hp
  rw [List.getD_eq_getElem?_getD, List.getElem?_eq_getElem hp'] at this
  exact congrArg some this

/-! ### restriction ∘ prolongation = identity; prolongation ∘ restriction = indicator -/

/-- the index map the model computes for a selection of listed grids -/
private def selIdx (useFaces : Bool) (gs : List G) (dim : Nat) (sel : List Nat) : List Nat :=
  sel.flatMap (fun i => (blocks 0 (gs.map (fun g => dim * sizeOf useFaces g))).getD i [])

private theorem subIdx_sel (useFaces : Bool) (gs : List G) (dim : Nat) (hd : 0 < dim)
    (hwf : ∀ g ∈ gs, g.wf) (sel : List Nat) (hlt : ∀ i ∈ sel, i < gs.length) :
    subIdx (projsOf useFaces gs dim) sel = .ok (selIdx useFaces gs dim sel) := by
  rw [projsOf_eq useFaces gs dim hd hwf]
  exact subIdx_blocks _ sel (by simpa using hlt)

private theorem sum_sizes (useFaces : Bool) (gs : List G) (dim : Nat) :
    (gs.map (fun g => dim * sizeOf useFaces g)).sum = sumMap (sizeOf useFaces) gs * dim := by
  rw [sum_map_mul_left, Nat.mul_comm]

private theorem prol_eq (useFaces : Bool) (gs : List G) (dim : Nat) (hd : 0 < dim)
    (hwf : ∀ g ∈ gs, g.wf) (sel : List Nat) (hlt : ∀ i ∈ sel, i < gs.length) :
    prolongation useFaces gs dim sel =
      .ok (prolongMat (sumMap (sizeOf useFaces) gs * dim) (selIdx useFaces gs dim sel)) := by
  simp only [prolongation, subIdx_sel useFaces gs dim hd hwf sel hlt]; rfl

private theorem restr_eq (useFaces : Bool) (gs : List G) (dim : Nat) (hd : 0 < dim)
    (hwf : ∀ g ∈ gs, g.wf) (sel : List Nat) (hlt : ∀ i ∈ sel, i < gs.length) :
    restriction useFaces gs dim sel =
      .ok (restrictMat (sumMap (sizeOf useFaces) gs * dim) (selIdx useFaces gs dim sel)) := by
  simp only [restriction, subIdx_sel useFaces gs dim hd hwf sel hlt]; rfl

private theorem RP_id (n : Nat) (idx : List Nat) (hnodup : idx.Nodup) (hrange : ∀ g ∈ idx, g < n)
    (w : List Rat) (hw : w.length = idx.length) :
    (restrictMat n idx).apply ((prolongMat n idx).apply w) = w := by
  rw [prolongMat_apply, restrictMat_apply]
  unfold restrictV
  rw [List.map_congr_left (fun g hg => prolongV_getD _ idx w g (hrange g hg))]
  exact map_scatterAt_self idx w hnodup hw

private theorem PR_mask (n : Nat) (idx : List Nat) (hnodup : idx.Nodup) (v : List Rat) :
    (prolongMat n idx).apply ((restrictMat n idx).apply v) =
      (List.range n).map (fun g => if g ∈ idx then v.getD g 0 else 0) := by
  rw [restrictMat_apply, prolongMat_apply]
  unfold prolongV restrictV
  apply List.map_congr_left
  intro g _
  exact scatterAt_map g idx (fun g => v.getD g 0) hnodup

private theorem selIdx_nodup_range (useFaces : Bool) (gs : List G) (dim : Nat) (sel : List Nat)
    (hnd : sel.Nodup) (hlt : ∀ i ∈ sel, i < gs.length) :
    (selIdx useFaces gs dim sel).Nodup ∧
      ∀ g ∈ selIdx useFaces gs dim sel, g < sumMap (sizeOf useFaces) gs * dim := by
  have hsp := selIdx_subperm 0 (gs.map (fun g => dim * sizeOf useFaces g)) sel hnd (by simpa using hlt)
  rw [sum_sizes] at hsp
  refine ⟨nodup_of_subperm hsp (List.nodup_range' (step := 1)), ?_⟩
  intro g hg
  have := List.mem_range'_1.mp (subset_of_subperm hsp hg)
  omega

/-- For ANY duplicate-free sub-list of the listed grids, in ANY order: the model's prolongation and
    restriction are `P` and `R = Pᵀ` of one index map with distinct, in-range targets, and
    `R (P w) = w` for every vector `w` on the selected grids. -/
theorem restrict_prolong_id (useFaces : Bool) (gs : List G) (dim : Nat) (hd : 0 < dim)
    (hwf : ∀ g ∈ gs, g.wf) (sel : List Nat) (hnd : sel.Nodup) (hlt : ∀ i ∈ sel, i < gs.length) :
    ∃ idx, prolongation useFaces gs dim sel = .ok (prolongMat (sumMap (sizeOf useFaces) gs * dim) idx) ∧
      restriction useFaces gs dim sel = .ok (restrictMat (sumMap (sizeOf useFaces) gs * dim) idx) ∧
      idx.Nodup ∧ (∀ g ∈ idx, g < sumMap (sizeOf useFaces) gs * dim) ∧
      ∀ w : List Rat, w.length = idx.length →
        (restrictMat (sumMap (sizeOf useFaces) gs * dim) idx).apply
          ((prolongMat (sumMap (sizeOf useFaces) gs * dim) idx).apply w) = w := by
  obtain ⟨hnodup, hrange⟩ := selIdx_nodup_range useFaces gs dim sel hnd hlt
  exact ⟨_, prol_eq useFaces gs dim hd hwf sel hlt, restr_eq useFaces gs dim hd hwf sel hlt, hnodup, hrange,
    fun w hw => RP_id _ _ hnodup hrange w hw⟩

/-- `P (R v)` keeps the entries of `v` that belong to the selected grids and zeroes the rest. -/
theorem prolong_restrict_mask (useFaces : Bool) (gs : List G) (dim : Nat) (hd : 0 < dim)
    (hwf : ∀ g ∈ gs, g.wf) (sel : List Nat) (hnd : sel.Nodup) (hlt : ∀ i ∈ sel, i < gs.length) :
    ∃ idx, prolongation useFaces gs dim sel = .ok (prolongMat (sumMap (sizeOf useFaces) gs * dim) idx) ∧
      restriction useFaces gs dim sel = .ok (restrictMat (sumMap (sizeOf useFaces) gs * dim) idx) ∧
      ∀ v : List Rat,
        (prolongMat (sumMap (sizeOf useFaces) gs * dim) idx).apply
          ((restrictMat (sumMap (sizeOf useFaces) gs * dim) idx).apply v) =
        (List.range (sumMap (sizeOf useFaces) gs * dim)).map (fun g => if g ∈ idx then v.getD g 0 else 0) := by
  obtain ⟨hnodup, _⟩ := selIdx_nodup_range useFaces gs dim sel hnd hlt
  exact ⟨_, prol_eq useFaces gs dim hd hwf sel hlt, restr_eq useFaces gs dim hd hwf sel hlt,
    fun v => PR_mask _ _ hnodup v⟩

/-! ### all listed grids together: a permutation, in list order -/

/-- If the selection is a permutation of ALL listed grids, the prolongation's index map is a
    permutation of `[0, total)` — the identity when the selection is the list itself — and `P`, `R`
    are mutually inverse on full vectors. -/
theorem prolong_all_is_perm (useFaces : Bool) (gs : List G) (dim : Nat) (hd : 0 < dim)
    (hwf : ∀ g ∈ gs, g.wf) (sel : List Nat) (hp : sel ~ List.range gs.length) :
    ∃ idx, prolongation useFaces gs dim sel = .ok (prolongMat (sumMap (sizeOf useFaces) gs * dim) idx) ∧
      restriction useFaces gs dim sel = .ok (restrictMat (sumMap (sizeOf useFaces) gs * dim) idx) ∧
      idx ~ List.range (sumMap (sizeOf useFaces) gs * dim) ∧
      (sel = List.range gs.length → idx = List.range (sumMap (sizeOf useFaces) gs * dim)) ∧
      (∀ v : List Rat, v.length = sumMap (sizeOf useFaces) gs * dim →
        (prolongMat (sumMap (sizeOf useFaces) gs * dim) idx).apply
          ((restrictMat (sumMap (sizeOf useFaces) gs * dim) idx).apply v) = v) ∧
      (∀ w : List Rat, w.length = sumMap (sizeOf useFaces) gs * dim →
        (restrictMat (sumMap (sizeOf useFaces) gs * dim) idx).apply
          ((prolongMat (sumMap (sizeOf useFaces) gs * dim) idx).apply w) = w) := by
  have hnd : sel.Nodup := hp.nodup_iff.mpr List.nodup_range
  have hlt : ∀ i ∈ sel, i < gs.length := fun i hi => List.mem_range.mp (hp.subset hi)
  obtain ⟨hnodup, hrange⟩ := selIdx_nodup_range useFaces gs dim sel hnd hlt
  have hperm : selIdx useFaces gs dim sel ~ List.range (sumMap (sizeOf useFaces) gs * dim) := by
    have := selIdx_perm 0 (gs.map (fun g => dim * sizeOf useFaces g)) sel (by simpa using hp)
    rw [sum_sizes, ← List.range_eq_range'] at this
    exact this
  refine ⟨_, prol_eq useFaces gs dim hd hwf sel hlt, restr_eq useFaces gs dim hd hwf sel hlt, hperm, ?_, ?_, ?_⟩
  · intro hsel
    unfold selIdx
    rw [hsel]
    have := flatMap_getD_range (blocks 0 (gs.map (fun g => dim * sizeOf useFaces g)))
    rw [blocks_length, List.length_map] at this
    rw [this, blocks_flatten, sum_sizes, ← List.range_eq_range']
  · intro v hv
    rw [PR_mask _ _ hnodup v]
    have hall : ∀ g ∈ List.range (sumMap (sizeOf useFaces) gs * dim), g ∈ selIdx useFaces gs dim sel :=
      fun g hg => hperm.symm.subset hg
    rw [List.map_congr_left (fun g hg => if_pos (hall g hg))]
    rw [← hv]
    exact map_getD_range v 0
  · intro w hw
    exact RP_id _ _ hnodup hrange w (by rw [hw, hperm.length_eq, List.length_range])

/-- List order: the `k`-th grid of the selection occupies the next `dim * size` columns, and column
    `t` of that group is sent to global index `dim * (sizes of the grids listed before it in gs) + t`.
    (No distinctness needed; `selSize` is the size of a selected grid.) -/
theorem prolong_follows_list_order (useFaces : Bool) (gs : List G) (dim : Nat) (hd : 0 < dim)
    (hwf : ∀ g ∈ gs, g.wf) (sel : List Nat) (hlt : ∀ i ∈ sel, i < gs.length)
    (k t : Nat) (hk : k < sel.length) (g : G) (hg : gs[sel[k]]? = some g)
    (ht : t < dim * sizeOf useFaces g) :
    ∃ idx, prolongation useFaces gs dim sel = .ok (prolongMat (sumMap (sizeOf useFaces) gs * dim) idx) ∧
      idx[sumMap (fun i => match gs[i]? with
                            | some g' => dim * sizeOf useFaces g'
                            | none => 0) (sel.take k) + t]? =
        some (dim * sumMap (sizeOf useFaces) (gs.take sel[k]) + t) := by
  refine ⟨_, prol_eq useFaces gs dim hd hwf sel hlt, ?_⟩
  have hblk : ∀ i (hi : i < gs.length),
      (blocks 0 (gs.map (fun g => dim * sizeOf useFaces g))).getD i [] =
        List.range' (dim * sumMap (sizeOf useFaces) (gs.take i)) (dim * sizeOf useFaces gs[i]) :=
    fun i hi => blocks_grid_getD gs (sizeOf useFaces) dim i hi
  have hsk : sel[k] < gs.length := hlt _ (List.getElem_mem hk)
  have hgk : gs[sel[k]] = g := by
    rw [List.getElem?_eq_getElem hsk] at hg
    exact Option.some.inj hg
  have hoff : sumMap (fun i => match gs[i]? with
                            | some g' => dim * sizeOf useFaces g'
                            | none => 0) (sel.take k) =
      sumMap (fun i => ((blocks 0 (gs.map (fun g => dim * sizeOf useFaces g))).getD i []).length) (sel.take k) := by
    rw [sumMap_eq_sum, sumMap_eq_sum]
    congr 1
    apply List.map_congr_left
    intro i hi
    have hi' : i < gs.length := hlt i (List.mem_of_mem_take hi)
    rw [hblk i hi', List.getElem?_eq_getElem hi', List.length_range']
  unfold selIdx
  rw [hoff, flatMap_getElem? _ sel k t hk (by rw [hblk _ hsk, hgk, List.length_range']; exact ht)]
  rw [hblk _ hsk, hgk, List.getElem?_range' ht]
  simp

/-- The triplet matrices produced by the model act on vectors exactly as their index maps say
    (`P w` scatters, `R v` gathers). -/
theorem matrices_act_as_index_maps (n : Nat) (idx : List Nat) (x : List Rat) :
    (prolongMat n idx).apply x = prolongV n idx x ∧ (restrictMat n idx).apply x = restrictV idx x :=
  ⟨prolongMat_apply n idx x, restrictMat_apply n idx x⟩

/-! ### mortar projections: per-interface blocks at the matching global offsets -/

/-- `mortar_to_primary_*` / `mortar_to_secondary_*` (`is_primary` selects the side): for ANY list of
    subdomains and ANY non-empty ordered list of interfaces of one codimension `c ∈ {1, 2}`, the global
    matrix has shape `(dim * Σ size) × (dim * Σ mortar cells)` and consists exactly of the local
    matrices `kron(M_k, I_dim)`, interface `k` shifted to
      rows    `dim * (sizes of the subdomains listed before its neighbour)`,
      columns `dim * (cells of the interfaces listed before it)`;
    interfaces whose neighbour is not in the subdomain list contribute nothing.  `size` is faces for
    codimension-1 primaries and cells otherwise.  (Local entries are assumed to fit the neighbour.) -/
theorem mortar_block_offsets (gs : List G) (dim : Nat) (hd : 0 < dim) (hwf : ∀ g ∈ gs, g.wf)
    (intfs : List Intf) (hne : intfs ≠ []) (isPrimary : Bool) (c : Nat) (hc : c = 1 ∨ c = 2)
    (hcod : ∀ i ∈ intfs, i.codim = c)
    (hpos : ∀ i ∈ intfs, ∀ p, (if isPrimary then i.prim else i.sec) = some p →
      ∃ g, gs[p]? = some g ∧ ∀ t ∈ i.mat, t.1 < sizeOf (decide (c = 1) && isPrimary) g) :
    constructProjection gs dim intfs false isPrimary =
      .ok ⟨dim * sumMap (sizeOf (decide (c = 1) && isPrimary)) gs, dim * sumMap Intf.cells intfs,
        (List.range intfs.length).flatMap (fun k =>
          match intfs[k]? with
          | some i =>
            (match (if isPrimary then i.prim else i.sec) with
             | some p => (kronI i.mat dim).map (fun t =>
                 (dim * sumMap (sizeOf (decide (c = 1) && isPrimary)) (gs.take p) + t.1,
                  dim * sumMap Intf.cells (intfs.take k) + t.2.1, t.2.2))
             | none => [])
          | none => [])⟩ := by
  cases intfs with
  | nil => exact absurd rfl hne
  | cons i0 rest =>
    have h0 : i0.codim = c := hcod i0 (by simp)
    have hcc : ¬ (c ≠ 1 ∧ c ≠ 2) := by omega
    simp only [constructProjection, mixedCodim_false c _ hcod, Bool.false_eq_true, if_false, h0,
      projsOf_eq _ gs dim hd hwf]
    rw [if_neg hcc]
    rw [List.map_congr_left (fun i hi => mortarBlock_from gs _ dim hd _ i (hpos i hi))]
    exact hstack_from gs _ dim (fun i => if isPrimary then i.prim else i.sec) i0 rest

/-- `primary_to_mortar_*` / `secondary_to_mortar_*`: the same placement, transposed (rows = mortar
    cells of interface `k` at `dim * (cells of the earlier interfaces)`, columns at the subdomain offset). -/
theorem mortar_to_mortar_block_offsets (gs : List G) (dim : Nat) (hd : 0 < dim) (hwf : ∀ g ∈ gs, g.wf)
    (intfs : List Intf) (hne : intfs ≠ []) (isPrimary : Bool) (c : Nat) (hc : c = 1 ∨ c = 2)
    (hcod : ∀ i ∈ intfs, i.codim = c)
    (hpos : ∀ i ∈ intfs, ∀ p, (if isPrimary then i.prim else i.sec) = some p →
      ∃ g, gs[p]? = some g ∧ ∀ t ∈ i.mat, t.2.1 < sizeOf (decide (c = 1) && isPrimary) g) :
    constructProjection gs dim intfs true isPrimary =
      .ok ⟨dim * sumMap Intf.cells intfs, dim * sumMap (sizeOf (decide (c = 1) && isPrimary)) gs,
        (List.range intfs.length).flatMap (fun k =>
          match intfs[k]? with
          | some i =>
            (match (if isPrimary then i.prim else i.sec) with
             | some p => (kronI i.mat dim).map (fun t =>
                 (dim * sumMap Intf.cells (intfs.take k) + t.1,
                  dim * sumMap (sizeOf (decide (c = 1) && isPrimary)) (gs.take p) + t.2.1, t.2.2))
             | none => [])
          | none => [])⟩ := by
  cases intfs with
  | nil => exact absurd rfl hne
  | cons i0 rest =>
    have h0 : i0.codim = c := hcod i0 (by simp)
    have hcc : ¬ (c ≠ 1 ∧ c ≠ 2) := by omega
    simp only [constructProjection, mixedCodim_false c _ hcod, Bool.false_eq_true, if_false, h0,
      projsOf_eq _ gs dim hd hwf, if_true]
    rw [if_neg hcc]
    rw [List.map_congr_left (fun i hi => mortarBlock_to gs _ dim hd _ i (hpos i hi))]
    exact vstack_to gs _ dim (fun i => if isPrimary then i.prim else i.sec) i0 rest

/-- Interfaces of different codimension in one list are refused (`ValueError`), as are codimensions
    other than 1 and 2; an empty interface list gives an empty matrix of the right non-mortar size. -/
theorem mortar_rejections (gs : List G) (dim : Nat) (toMortar isPrimary : Bool) :
    (∀ i j rest, i.codim ≠ j.codim → j ∈ rest →
        constructProjection gs dim (i :: rest) toMortar isPrimary = .error .valueError) ∧
      (∀ i rest, i.codim ≠ 1 → i.codim ≠ 2 →
        constructProjection gs dim (i :: rest) toMortar isPrimary = .error .valueError) ∧
      constructProjection gs dim [] false isPrimary = .ok ⟨dim * sumMap (sizeOf isPrimary) gs, 0, []⟩ ∧
      constructProjection gs dim [] true isPrimary = .ok ⟨0, dim * sumMap (sizeOf isPrimary) gs, []⟩ := by
  refine ⟨?_, ?_, rfl, rfl⟩
  · intro i j rest hij hj
    have : mixedCodim (i :: rest) = true := by
      simp only [mixedCodim, List.any_eq_true]
      exact ⟨j, hj, by simpa using fun h => hij h.symm⟩
    simp [constructProjection, this]
  · intro i rest h1 h2
    by_cases hm : mixedCodim (i :: rest) = true
    · simp [constructProjection, hm]
    · simp [constructProjection, hm, h1, h2]

/-! ### boundary projection -/

/-- `BoundaryProjection`: `subdomain_to_boundary` is the restriction `R` (and `boundary_to_subdomain`
    its transpose `P`) of ONE index map: boundary cell `i`, component `k` of the grid at position `p`
    reads global face dof `dim * (faces of the grids listed before) + dim * bf_i + k`, grid after grid
    in list order (0-d grids contribute no rows).  The targets are distinct and in range, hence
    `R (P w) = w`: going to the subdomains and back is the identity on boundary data. -/
theorem boundary_projection_is_restriction (gs : List G) (dim : Nat) (hd : 0 < dim)
    (hwf : ∀ g ∈ gs, g.wf) (hb : ∀ g ∈ gs, g.bfaces.Nodup ∧ ∀ b ∈ g.bfaces, b < g.faces) :
    ∃ idx, boundaryProjection gs dim = .ok (restrictMat (sumMap G.faces gs * dim) idx) ∧
      idx = (List.range gs.length).flatMap (fun p =>
        match gs[p]? with
        | some g =>
          if 0 < g.gdim then (expandNd g.bfaces dim).map (fun c => dim * sumMap G.faces (gs.take p) + c)
          else []
        | none => []) ∧
      idx.Nodup ∧ (∀ x ∈ idx, x < sumMap G.faces gs * dim) ∧
      ∀ w : List Rat, w.length = idx.length →
        (restrictMat (sumMap G.faces gs * dim) idx).apply
          ((prolongMat (sumMap G.faces gs * dim) idx).apply w) = w := by
  have hidx : boundaryIdx gs dim = .ok (accFlat (fun g => dim * g.faces) (bPiece dim) 0 gs) := by
    simp only [boundaryIdx, faceProjs_eq gs dim hd hwf, liftO, bind, Except.bind, pure, Except.pure]
    rw [boundaryIdxAux_eq dim hd gs 0 (fun g hg => (hb g hg).2)]
  obtain ⟨hnodup, hrange⟩ := accFlat_bPiece_props dim hd gs 0 hb
  have hrange' : ∀ x ∈ accFlat (fun g => dim * g.faces) (bPiece dim) 0 gs, x < sumMap G.faces gs * dim := by
    intro x hx
    have := (hrange x hx).2
    rw [Nat.mul_comm]
    omega
  refine ⟨_, ?_, ?_, hnodup, hrange', fun w hw => RP_id _ _ hnodup hrange' w hw⟩
  · simp only [boundaryProjection, hidx]; rfl
  · rw [accFlat_eq]
    congr 1
    funext p
    cases gs[p]? with
    | none => rfl
    | some g =>
      simp only [bPiece, Nat.zero_add]
      rw [sumMap_eq_sum, sum_map_mul_left]

/-! ### Divergence and Trace: block placement at the cell / face offsets of the listed subdomains -/

/-- `Divergence(subdomains, dim).parse = blockdiag(kron(div_p, I_dim))` in list order: the local
    divergence of the grid at position `p` (cells × faces, expanded by `dim`) sits at row offset
    `dim * (cells of the grids before it)` and column offset `dim * (faces of the grids before it)`;
    the shape is `(dim * Σ cells) × (dim * Σ faces)`.  Holds for ALL grid lists and `dim`. -/
theorem divergence_is_block_diagonal (gs : List G) (dim : Nat) (locals : List (List Trip))
    (hlen : gs.length = locals.length) :
    divergenceMat gs dim locals = ⟨dim * sumMap G.cells gs, dim * sumMap G.faces gs,
      (List.range gs.length).flatMap (fun p =>
        match (gs.zip locals)[p]? with
        | some x => (kronI x.2 dim).map (fun t =>
            (dim * sumMap G.cells (gs.take p) + t.1, dim * sumMap G.faces (gs.take p) + t.2.1, t.2.2))
        | none => [])⟩ := by
  have hzl : (gs.zip locals).length = gs.length := by simp [List.length_zip, hlen]
  unfold divergenceMat
  rw [blockDiagAux_eq, accFlat2_map_list, accFlat2_eq, sumMap_map, sumMap_map]
  simp only [Nat.zero_add, hzl]
  congr 1
  · rw [sumMap_mul_right (fun x : G × List Trip => x.1.cells), sumMap_zip_fst G.cells gs locals (by omega)]
  · rw [sumMap_mul_right (fun x : G × List Trip => x.1.faces), sumMap_zip_fst G.faces gs locals (by omega)]
  · congr 1
    funext p
    cases (gs.zip locals)[p]? with
    | none => rfl
    | some x =>
      simp only []
      rw [sumMap_mul_right (fun x : G × List Trip => x.1.cells),
        sumMap_mul_right (fun x : G × List Trip => x.1.faces),
        sumMap_take_zip_fst G.cells gs locals p hlen, sumMap_take_zip_fst G.faces gs locals p hlen]

/-- `Trace(subdomains).trace` (scalar): the local trace of the grid at position `p` (faces × cells)
    sits at row offset `Σ faces before`, column offset `Σ cells before` — the same offsets as the
    face / cell projections — and the shape is `Σ faces × Σ cells`. -/
theorem trace_is_block_placement (gs : List G) (hne : gs ≠ []) (hwf : ∀ g ∈ gs, g.wf)
    (locals : List (List Trip)) (hlen : gs.length = locals.length)
    (hfit : ∀ x ∈ gs.zip locals, ∀ t ∈ x.2, t.2.1 < x.1.cells) :
    traceMat gs 1 locals = .ok ⟨sumMap G.faces gs, sumMap G.cells gs,
      (List.range gs.length).flatMap (fun p =>
        match (gs.zip locals)[p]? with
        | some x => x.2.map (fun t =>
            (sumMap G.faces (gs.take p) + t.1, sumMap G.cells (gs.take p) + t.2.1, t.2.2))
        | none => [])⟩ := by
  have hzl : (gs.zip locals).length = gs.length := by simp [List.length_zip, hlen]
  cases gs with
  | nil => exact absurd rfl hne
  | cons g gs' =>
    cases locals with
    | nil => simp at hlen
    | cons L ls =>
      have hcp := cellProjs_eq (g :: gs') 1 (by omega) hwf
      have e : traceMat (g :: gs') 1 (L :: ls) =
          vstack (traceBlocks (sumMap G.cells (g :: gs') * 1) 0 (g :: gs') (L :: ls)) := by
        simp only [traceMat, hcp, liftO, bind, Except.bind, ne_eq, not_true_eq_false, if_false]
        rfl
      rw [e, traceBlocks_cons, vstack_ok (sumMap G.cells (g :: gs') * 1) _ _
        (by rw [← traceBlocks_cons]; exact traceBlocks_nc _ _ _ _),
        ← traceBlocks_cons, traceBlocks_nr _ _ _ _ hlen, traceBlocks_acc _ _ _ _ _ hlen hfit, accFlat2_eq, hzl]
      congr 2
      · exact Nat.mul_one _
      · congr 1
        funext p
        cases ((g :: gs').zip (L :: ls))[p]? with
        | none => rfl
        | some x =>
          simp only [Nat.zero_add]
          rw [sumMap_take_zip_fst G.faces _ _ p hlen, sumMap_take_zip_fst G.cells _ _ p hlen]

/-- The other branches of `Trace.__init__`: an empty list gives the empty matrix; vector-valued
    traces are refused (`NotImplementedError`) for every non-empty well-formed list. -/
theorem trace_other_cases (gs : List G) (dim : Nat) (locals : List (List Trip)) :
    traceMat [] dim locals = .ok ⟨0, 0, []⟩ ∧
      (gs ≠ [] → 0 < dim → dim ≠ 1 → (∀ g ∈ gs, g.wf) → traceMat gs dim locals = .error .notImplemented) := by
  refine ⟨rfl, ?_⟩
  intro hne hd h1 hwf
  cases gs with
  | nil => exact absurd rfl hne
  | cons g gs' =>
    simp [traceMat, cellProjs_eq (g :: gs') dim hd hwf, liftO, bind, Except.bind, h1]

/-! ### when exactly the code raises -/

/-- Error paths of `cell_/face_restriction/prolongation`, for ALL grid data (no well-formedness assumed):
    * the offset loop raises `IndexError` exactly when some grid has no cells (cell version) resp. some
      grid of positive dimension has no faces (face version) — and then every call raises it, whatever `sel`;
    * otherwise a call raises `KeyError` exactly when some requested grid is not in the list;
    * otherwise it returns a matrix.  No other exception is possible. -/
theorem error_paths (useFaces : Bool) (gs : List G) (dim : Nat) (hd : 0 < dim) (sel : List Nat) :
    (projsOf useFaces gs dim = none ↔
        ∃ g ∈ gs, if useFaces then (0 < g.gdim ∧ g.faces = 0) else g.cells = 0) ∧
      (prolongation useFaces gs dim sel = .error .indexError ↔ projsOf useFaces gs dim = none) ∧
      (prolongation useFaces gs dim sel = .error .keyError ↔
        projsOf useFaces gs dim ≠ none ∧ ∃ i ∈ sel, gs.length ≤ i) ∧
      ((∃ m, prolongation useFaces gs dim sel = .ok m) ↔
        projsOf useFaces gs dim ≠ none ∧ ∀ i ∈ sel, i < gs.length) ∧
      (restriction useFaces gs dim sel = .error .indexError ↔ projsOf useFaces gs dim = none) ∧
      (restriction useFaces gs dim sel = .error .keyError ↔
        projsOf useFaces gs dim ≠ none ∧ ∃ i ∈ sel, gs.length ≤ i) ∧
      ((∃ m, restriction useFaces gs dim sel = .ok m) ↔
        projsOf useFaces gs dim ≠ none ∧ ∀ i ∈ sel, i < gs.length) := by
  have hlen : ∀ r, projsOf useFaces gs dim = some r → r.length = gs.length := by
    intro r hr
    cases useFaces with
    | true =>
      have h := projAux_length dim (gs.map (fun g => (g.faces, decide (0 < g.gdim)))) 0 r
        (by simpa [projsOf, faceProjs] using hr)
      rw [List.length_map] at h
      exact h
    | false =>
      have h := projAux_length dim (gs.map (fun g => (g.cells, true))) 0 r
        (by simpa [projsOf, cellProjs] using hr)
      rw [List.length_map] at h
      exact h
  obtain ⟨h1, h2, h3⟩ := subIdx_char (projsOf useFaces gs dim) gs.length hlen sel
  refine ⟨?_, ?_, ?_, ?_, ?_, ?_, ?_⟩
  · cases useFaces with
    | true =>
      simp only [projsOf, faceProjs, if_true, projAux_none_iff dim hd]
      constructor
      · rintro ⟨p, hp, h⟩
        obtain ⟨g, hg, rfl⟩ := List.mem_map.mp hp
        exact ⟨g, hg, by simpa using h⟩
      · rintro ⟨g, hg, h⟩
        exact ⟨_, List.mem_map.mpr ⟨g, hg, rfl⟩, by simpa using h⟩
    | false =>
      simp only [projsOf, cellProjs, Bool.false_eq_true, if_false, projAux_none_iff dim hd]
      constructor
      · rintro ⟨p, hp, h⟩
        obtain ⟨g, hg, rfl⟩ := List.mem_map.mp hp
        exact ⟨g, hg, h.2⟩
      · rintro ⟨g, hg, h⟩
        exact ⟨_, List.mem_map.mpr ⟨g, hg, rfl⟩, rfl, h⟩
  · exact (bind_pure_error _ _ _).trans h1
  · exact (bind_pure_error _ _ _).trans h2
  · exact (bind_pure_ok _ _).trans h3
  · exact (bind_pure_error _ _ _).trans h1
  · exact (bind_pure_error _ _ _).trans h2
  · exact (bind_pure_ok _ _).trans h3

/-! ### sign of mortar sides -/

/-- `MortarProjections.sign_of_mortar_sides`: the diagonal is the concatenation, in interface order, of
    the per-interface signs; interface `k` occupies the entries `[dim * (cells of the earlier
    interfaces), + dim * cells)`, `-1` on the first (`LEFT`) side, `+1` on the second, all `+1` for
    one-sided interfaces.  Every entry is `±1`, so the operator is its own inverse. -/
theorem sign_block_offsets (dim : Nat) (intfs : List Intf)
    (hcons : ∀ i ∈ intfs, i.sides = 1 ∨ i.left + i.right = i.cells) :
    (signDiag dim intfs).length = dim * sumMap Intf.cells intfs ∧
      (∀ x ∈ signDiag dim intfs, x * x = 1) ∧
      ∀ k j (hk : k < intfs.length), j < intfs[k].cells * dim →
        (signDiag dim intfs)[dim * sumMap Intf.cells (intfs.take k) + j]? =
          some (if intfs[k].sides = 1 then 1 else if j < intfs[k].left * dim then -1 else 1) := by
  have hl : ∀ l : List Intf, (∀ i ∈ l, i.sides = 1 ∨ i.left + i.right = i.cells) →
      sumMap (fun i => (signOf dim i).length) l = dim * sumMap Intf.cells l := by
    intro l hlc
    rw [sumMap_congr _ (fun i : Intf => i.cells * dim) l (fun i hi => signOf_length dim i (hlc i hi)),
      sumMap_mul_right]
  refine ⟨?_, ?_, ?_⟩
  · unfold signDiag
    rw [← hl intfs hcons]
    have hgen : ∀ l : List Intf, (l.flatMap (signOf dim)).length = sumMap (fun i => (signOf dim i).length) l := by
      intro l
      induction l with
      | nil => rfl
      | cons i is ih => simp only [List.flatMap_cons, List.length_append, sumMap, ih]
    exact hgen intfs
  · intro x hx
    obtain ⟨i, _, hxi⟩ := List.mem_flatMap.mp hx
    rcases signOf_mem dim i x hxi with rfl | rfl <;> grind
  · intro k j hk hj
    have hkc := hcons _ (List.getElem_mem hk)
    unfold signDiag
    rw [← hl (intfs.take k) (fun i hi => hcons i (List.mem_of_mem_take hi)),
      flatMap_getElem? (signOf dim) intfs k j hk (by rw [signOf_length dim _ hkc]; exact hj)]
    exact signOf_getElem? dim _ hkc j hj

/-! ### hypotheses discharged from the code that establishes them; argument checks of the entry points -/

/-- `np.where(tags["domain_boundary_faces"])[0]` is strictly increasing (hence duplicate free) and
    below `num_faces = len(mask)`: the hypothesis `hb` of `boundary_projection_is_restriction` holds for
    every grid whose boundary faces are read from its tag mask, so for such grids it disappears. -/
theorem boundary_tags_satisfy_hypothesis (cells gdim : Nat) (mask : List Bool) :
    (G.ofTags cells gdim mask).bfaces.Pairwise (· < ·) ∧ (G.ofTags cells gdim mask).bfaces.Nodup ∧
      ∀ b ∈ (G.ofTags cells gdim mask).bfaces, b < (G.ofTags cells gdim mask).faces := by
  obtain ⟨hp, hr⟩ := whereTrue_props 0 mask
  refine ⟨hp, ?_, fun b hb => by have := hr b hb; simpa [G.ofTags] using this.2⟩
  exact hp.imp (fun h => Nat.ne_of_lt h)

/-- boundary projection for grid lists read from real grids (tag masks): no hypothesis on the boundary
    faces is left — only `0 < dim` and well-formed sizes. -/
theorem boundary_projection_from_tags (specs : List (Nat × Nat × List Bool)) (dim : Nat) (hd : 0 < dim)
    (hwf : ∀ g ∈ specs.map (fun x => G.ofTags x.1 x.2.1 x.2.2), g.wf) :
    ∃ idx, boundaryProjection (specs.map (fun x => G.ofTags x.1 x.2.1 x.2.2)) dim =
        .ok (restrictMat (sumMap G.faces (specs.map (fun x => G.ofTags x.1 x.2.1 x.2.2)) * dim) idx) ∧
      idx.Nodup ∧
      ∀ w : List Rat, w.length = idx.length →
        (restrictMat (sumMap G.faces (specs.map (fun x => G.ofTags x.1 x.2.1 x.2.2)) * dim) idx).apply
          ((prolongMat (sumMap G.faces (specs.map (fun x => G.ofTags x.1 x.2.1 x.2.2)) * dim) idx).apply w) = w := by
  have hb : ∀ g ∈ specs.map (fun x => G.ofTags x.1 x.2.1 x.2.2),
      g.bfaces.Nodup ∧ ∀ b ∈ g.bfaces, b < g.faces := by
    intro g hg
    obtain ⟨x, _, rfl⟩ := List.mem_map.mp hg
    exact (boundary_tags_satisfy_hypothesis x.1 x.2.1 x.2.2).2
  obtain ⟨idx, h1, _, h3, _, h5⟩ := boundary_projection_is_restriction _ dim hd hwf hb
  exact ⟨idx, h1, h3, h5⟩

/-- Argument checks of the entry points: the constructor refuses (`ValueError`) exactly the lists with a
    repeated subdomain; a restriction / prolongation called with a non-list raises `ValueError` before
    anything else (even when the offset loop would raise), and with a list it is the projection proper,
    whose error paths are characterised by `error_paths`. -/
theorem entry_point_checks (ids : List Nat) (restrict useFaces : Bool) (gs : List G) (dim : Nat) (sel : List Nat) :
    (ctorCheck ids = .error .valueError ↔ ¬ ids.Nodup) ∧ (ctorCheck ids = .ok () ↔ ids.Nodup) ∧
      subCall restrict useFaces false gs dim sel = .error .valueError ∧
      subCall restrict useFaces true gs dim sel =
        (if restrict then restriction useFaces gs dim sel else prolongation useFaces gs dim sel) := by
  refine ⟨?_, ?_, rfl, rfl⟩
  · rw [← setLen_lt_iff]
    unfold ctorCheck
    split <;> simp [*]
  · rw [← not_iff_not, ← setLen_lt_iff]
    unfold ctorCheck
    split <;> simp [*]

/-- The Boolean hypothesis checks the driver evaluates on every case are exactly the hypotheses of the
    theorems above (so a `true` answer makes the theorems applicable to that case). -/
theorem driver_hypotheses_sound (gs : List G) (intfs : List Intf) :
    (hypGrids gs = true → (∀ g ∈ gs, g.wf) ∧ ∀ g ∈ gs, g.bfaces.Nodup ∧ ∀ b ∈ g.bfaces, b < g.faces) ∧
      (hypSign intfs = true → ∀ i ∈ intfs, i.sides = 1 ∨ i.left + i.right = i.cells) ∧
      (∀ isPrimary i0 rest, intfs = i0 :: rest → hypMortar gs intfs false isPrimary = true →
        (i0.codim = 1 ∨ i0.codim = 2) ∧ (∀ i ∈ intfs, i.codim = i0.codim) ∧
        ∀ i ∈ intfs, ∀ p, (if isPrimary then i.prim else i.sec) = some p →
          ∃ g, gs[p]? = some g ∧ ∀ t ∈ i.mat, t.1 < sizeOf (decide (i0.codim = 1) && isPrimary) g) ∧
      (∀ isPrimary i0 rest, intfs = i0 :: rest → hypMortar gs intfs true isPrimary = true →
        (i0.codim = 1 ∨ i0.codim = 2) ∧ (∀ i ∈ intfs, i.codim = i0.codim) ∧
        ∀ i ∈ intfs, ∀ p, (if isPrimary then i.prim else i.sec) = some p →
          ∃ g, gs[p]? = some g ∧ ∀ t ∈ i.mat, t.2.1 < sizeOf (decide (i0.codim = 1) && isPrimary) g) := by
  refine ⟨?_, ?_, ?_, ?_⟩
  · intro h
    simp only [hypGrids, List.all_eq_true, Bool.and_eq_true, decide_eq_true_eq] at h
    exact ⟨fun g hg => (h g hg).1.1, fun g hg => ⟨(h g hg).1.2, (h g hg).2⟩⟩
  · intro h
    simp only [hypSign, List.all_eq_true, Bool.or_eq_true, beq_iff_eq] at h
    exact h
  · intro isPrimary i0 rest he h
    subst he
    simp only [hypMortar, Bool.and_eq_true, Bool.or_eq_true, beq_iff_eq, List.all_eq_true] at h
    obtain ⟨⟨hc, hu⟩, hf⟩ := h
    refine ⟨hc, hu, ?_⟩
    intro i hi p hp
    have := hf i hi
    rw [hp] at this
    cases hg : gs[p]? with
    | none => simp [hg] at this
    | some g =>
      simp only [hg, Bool.false_eq_true, if_false, List.all_eq_true, decide_eq_true_eq] at this
      exact ⟨g, rfl, this⟩

  · intro isPrimary i0 rest he h
    subst he
    simp only [hypMortar, Bool.and_eq_true, Bool.or_eq_true, beq_iff_eq, List.all_eq_true] at h
    obtain ⟨⟨hc, hu⟩, hf⟩ := h
    refine ⟨hc, hu, ?_⟩
    intro i hi p hp
    have := hf i hi
    rw [hp] at this
    cases hg : gs[p]? with
    | none => simp [hg] at this
    | some g =>
      simp only [hg, if_true, List.all_eq_true, decide_eq_true_eq] at this
      exact ⟨g, rfl, this⟩

/-! ### non-vacuity: the hypotheses are satisfiable with non-trivial data -/

/-- a 2-d grid (4 cells, 16 faces), two 1-d grids, a 0-d grid — listed in a non-sorted order -/
def exGs : List G :=
  [⟨2, 4, 1, [0, 3]⟩, ⟨4, 16, 2, [0, 1, 5, 9]⟩, ⟨1, 0, 0, []⟩, ⟨3, 6, 1, [5]⟩]

/-- two codimension-1 interfaces: primary = grid 1 (the 2-d grid), secondaries = grids 0 and 3;
    a third one whose neighbours are not in the list -/
def exIntfs : List Intf :=
  [⟨4, 1, some 1, some 0, [(3, 0, 1), (5, 1, 1), (7, 2, 1 / 2), (7, 3, 1 / 2)], 2, 2, 2⟩,
   ⟨2, 1, none, none, [(0, 0, 1)], 2, 1, 1⟩,
   ⟨6, 1, some 1, some 3, [(15, 5, 1), (0, 0, 1)], 2, 3, 3⟩]

example : ∀ g ∈ exGs, g.wf := by decide

example : projsOf true exGs 2 =
    some [List.range' 0 8, List.range' 8 32, [], List.range' 40 12] := by decide

example := kron_dim true exGs 3 (by decide) (by decide)
example := expandNd_index [4, 0, 7] 3 (by decide)
example : expandNd [4, 0, 7] 3 = [12, 13, 14, 0, 1, 2, 21, 22, 23] := by decide
example := projections_are_blocks false exGs 2 (by decide) (by decide)
example : (blocks 3 [2, 0, 4]) = [[3, 4], [], [5, 6, 7, 8]] := by decide
example := block_offsets true exGs 2 (by decide) (by decide) 3 (by decide)
example := restrict_prolong_id true exGs 2 (by decide) (by decide) [3, 0] (by decide) (by decide)
example := prolong_restrict_mask false exGs 3 (by decide) (by decide) [2, 1] (by decide) (by decide)

example : [2, 0, 3, 1] ~ List.range exGs.length := by decide
example := prolong_all_is_perm true exGs 2 (by decide) (by decide) [2, 0, 3, 1] (by decide)

example := prolong_follows_list_order true exGs 2 (by decide) (by decide) [3, 0, 1] (by decide)
  2 5 (by decide) ⟨4, 16, 2, [0, 1, 5, 9]⟩ rfl (by decide)

private theorem exIntfs_fit :
    ∀ i ∈ exIntfs, ∀ p, (if true then i.prim else i.sec) = some p →
      ∃ g, exGs[p]? = some g ∧ ∀ t ∈ i.mat, t.1 < sizeOf (decide (1 = 1) && true) g := by
  intro i hi p hp
  simp only [exIntfs, List.mem_cons, List.not_mem_nil, or_false] at hi
  rcases hi with rfl | rfl | rfl <;> simp at hp <;> subst hp <;> exact ⟨_, rfl, by decide⟩

example := mortar_block_offsets exGs 2 (by decide) (by decide) exIntfs (by decide)
  true 1 (Or.inl rfl) (by decide) exIntfs_fit

/-- the placed blocks of the example: 4 local entries × dim 2 for interface 0 and 2 × 2 for
    interface 2 (interface 1 has no listed neighbour) -/
example : (match constructProjection exGs 2 exIntfs false true with
    | .ok m => (m.nr, m.nc, m.tr.map (fun t => (t.1, t.2.1)))
    | .error _ => (0, 0, [])) =
    (52, 24, [(14, 0), (15, 1), (18, 2), (19, 3), (22, 4), (23, 5), (22, 6), (23, 7),
              (38, 22), (39, 23), (8, 12), (9, 13)]) := by decide

/-- the same interfaces with the transposed local matrices (`primary_to_mortar_*`) -/
def exIntfsT : List Intf :=
  exIntfs.map (fun i => { i with mat := i.mat.map (fun t => (t.2.1, t.1, t.2.2)) })

private theorem exIntfsT_fit :
    ∀ i ∈ exIntfsT, ∀ p, (if true then i.prim else i.sec) = some p →
      ∃ g, exGs[p]? = some g ∧ ∀ t ∈ i.mat, t.2.1 < sizeOf (decide (1 = 1) && true) g := by
  intro i hi p hp
  simp only [exIntfsT, exIntfs, List.map_cons, List.map_nil, List.mem_cons, List.not_mem_nil, or_false] at hi
  rcases hi with rfl | rfl | rfl <;> simp at hp <;> subst hp <;> exact ⟨_, rfl, by decide⟩

example := mortar_to_mortar_block_offsets exGs 2 (by decide) (by decide) exIntfsT (by decide)
  true 1 (Or.inl rfl) (by decide) exIntfsT_fit

example := mortar_rejections exGs 2 false true

example : ∀ g ∈ exGs, g.bfaces.Nodup ∧ ∀ b ∈ g.bfaces, b < g.faces := by decide
example := boundary_projection_is_restriction exGs 2 (by decide) (by decide) (by decide)

example : (match boundaryIdx exGs 2 with | .ok idx => idx | .error _ => []) =
    [0, 1, 6, 7, 8, 9, 10, 11, 18, 19, 26, 27, 50, 51] := by decide

/-- local divergences (cells × faces) / traces (faces × cells) of the four example grids -/
def exDivs : List (List Trip) :=
  [[(0, 0, -1), (0, 1, 1), (1, 1, -1), (1, 2, 1)], [(0, 0, -1), (3, 15, 1)], [], [(2, 5, 1)]]
def exTraces : List (List Trip) :=
  [[(0, 0, 1), (3, 1, 1)], [(15, 3, 1), (0, 0, 1)], [], [(5, 2, 1)]]

example := divergence_is_block_diagonal exGs 2 exDivs rfl
example : (divergenceMat exGs 2 exDivs).tr.map (fun t => (t.1, t.2.1)) =
    [(0, 0), (1, 1), (0, 2), (1, 3), (2, 2), (3, 3), (2, 4), (3, 5),
     (4, 8), (5, 9), (10, 38), (11, 39), (18, 50), (19, 51)] := by decide
example := trace_is_block_placement exGs (by decide) (by decide) exTraces rfl (by decide)
example := (trace_other_cases exGs 2 exTraces).2 (by decide) (by decide) (by decide) (by decide)
example := error_paths true exGs 2 (by decide) [0, 7]
/-- a grid of positive dimension without faces makes the face version raise, the cell version not -/
example : projsOf true [⟨2, 4, 1, []⟩, ⟨3, 0, 1, []⟩] 2 = none ∧
    projsOf false [⟨2, 4, 1, []⟩, ⟨3, 0, 1, []⟩] 2 ≠ none := by decide
example : prolongation false exGs 2 [0, 7] = .error .keyError :=
  ((error_paths false exGs 2 (by decide) [0, 7]).2.2.1).mpr ⟨by decide, 7, by decide, by decide⟩
example := sign_block_offsets 2 exIntfs (by decide)
example : signDiag 2 exIntfs = [-1, -1, -1, -1, 1, 1, 1, 1, -1, -1, 1, 1, -1, -1, -1, -1, -1, -1, 1, 1, 1, 1, 1, 1] := by
  decide

example := boundary_tags_satisfy_hypothesis 4 2 [true, false, true, true, false]
example : (G.ofTags 4 2 [true, false, true, true, false]).bfaces = [0, 2, 3] := by decide
example := boundary_projection_from_tags [(4, 2, [true, false, true, true]), (1, 0, []), (2, 1, [true, false, true])] 2
  (by decide) (by decide)
example := entry_point_checks [3, 1, 3] true false exGs 2 [0]
example : ctorCheck [3, 1, 3] = .error .valueError ∧ ctorCheck [3, 1, 2] = .ok () := by decide
example : hypGrids exGs = true ∧ hypSign exIntfs = true ∧ hypMortar exGs exIntfs false true = true := by decide

end PorepyVerif.C27
