/-
C27 — executable model of the global projection operators of
`porepy.numerics.ad.grid_operators` (core Lean only).

What the code reads from a grid is a handful of numbers (`num_cells`, `num_faces`, `dim`, the
indices of the domain-boundary faces); what it reads from an interface is its number of cells,
its codimension, which two subdomains it joins and its (scalar) local projection matrices.
Everything else is index bookkeeping, and that bookkeeping is what is modelled here, branch for
branch:

* `expandNd`              = `pp.array_operations.expand_indices_nd` (Fortran order),
* `projAux`               = the loop of `_cell_projections` / `_face_projections`
                            (offset taken from `ind[-1] + 1`; for faces only when `sd.dim > 0`),
* `select`, `subIdx`      = the dictionary look-ups + `sps.bmat` of `cell_/face_restriction/prolongation`,
* `kronI`                 = `sparse_kronecker_product` (`sps.kron(M, eye(nd))`) on triplets,
* `constructProjection`   = `MortarProjections._construct_projection`,
* `signDiag`              = `MortarProjections.sign_of_mortar_sides`,
* `boundaryProjection`    = `BoundaryProjection.__init__` with `BoundaryGrid.projection`,
* `traceMat`, `divergenceMat` = `Trace.__init__`, `Divergence.parse`.

A prolongation / restriction of 0-1 type is represented by its *index map*: the list `idx` with
`idx[j]` = global row of local column `j` (prolongation `P[idx[j], j] = 1`, restriction
`R[j, idx[j]] = 1`).  General sparse matrices are lists of triplets.

The simple specification `blocks` (consecutive ranges with prefix-sum offsets) lives here as well;
the theorems in Props.lean show that the code-shaped functions compute it.
-/
namespace PorepyVerif.C27

abbrev Trip := Nat × Nat × Rat

structure Mat where
  nr : Nat
  nc : Nat
  tr : List Trip
deriving Repr

/-- the exceptions of the real code that the model reproduces -/
inductive Err where
  | valueError | keyError | indexError | notImplemented
deriving Repr, DecidableEq

/-- what the projection code reads from a subdomain grid -/
structure G where
  cells : Nat
  faces : Nat
  gdim : Nat
  /-- `np.where(tags["domain_boundary_faces"])[0]` -/
  bfaces : List Nat
deriving Repr

/-- what the projection code reads from an interface (mortar grid); `prim` / `sec` are the
    positions of the two neighbouring subdomains in the subdomain list handed to the projection
    object (`none`: that subdomain is not in the list) -/
structure Intf where
  cells : Nat
  codim : Nat
  prim : Option Nat
  sec : Option Nat
  /-- scalar local matrix of the requested projection method, as triplets -/
  mat : List Trip
  /-- number of sides, and the cell counts of the two side grids (for the sign matrix) -/
  sides : Nat
  left : Nat
  right : Nat
deriving Repr

def sumMap {α : Type} (f : α → Nat) : List α → Nat
  | [] => 0
  | a :: l => f a + sumMap f l

def liftO {α : Type} (e : Err) : Option α → Except Err α
  | some a => .ok a
  | none => .error e

/-! ### index expansion and per-grid projections -/

/-- `expand_indices_nd(ind, nd, "F")`: `nd * ind + arange(nd)[:, None]` ravelled with the
    component index running fastest. -/
def expandNd (ind : List Nat) (nd : Nat) : List Nat :=
  if nd = 1 then ind
  else ind.flatMap (fun i => (List.range nd).map (fun k => nd * i + k))

/-- The loop of `_cell_projections` / `_face_projections` over `(size, update?)` pairs: index map of
    every grid in turn; the running offset is `ind[-1] + 1` (an `IndexError`, here `none`, when `ind`
    is empty) and is only moved when `update?` holds (`sd.dim > 0` in the face version). -/
def projAux (dim : Nat) : Nat → List (Nat × Bool) → Option (List (List Nat))
  | _, [] => some []
  | off, (n, upd) :: rest =>
    let ind := (expandNd (List.range n) dim).map (off + ·)
    if upd then
      match ind.getLast? with
      | none => none
      | some l => (projAux dim (l + 1) rest).map (ind :: ·)
    else (projAux dim off rest).map (ind :: ·)

def cellProjs (gs : List G) (dim : Nat) : Option (List (List Nat)) :=
  projAux dim 0 (gs.map (fun g => (g.cells, true)))

def faceProjs (gs : List G) (dim : Nat) : Option (List (List Nat)) :=
  projAux dim 0 (gs.map (fun g => (g.faces, decide (0 < g.gdim))))

/-- dictionary look-ups `projections[sd] for sd in subdomains` by position (`none` = `KeyError`) -/
def select (projs : List (List Nat)) : List Nat → Option (List (List Nat))
  | [] => some []
  | i :: is =>
    match projs[i]? with
    | none => none
    | some b => (select projs is).map (b :: ·)

/-- index map of `sps.bmat([[projections[sd] for sd in sel]])` -/
def subIdx (projs : Option (List (List Nat))) (sel : List Nat) : Except Err (List Nat) := do
  let p ← liftO .indexError projs
  let bs ← liftO .keyError (select p sel)
  pure bs.flatten

/-! ### 0-1 matrices from index maps -/

def colTrips : Nat → List Nat → List Trip
  | _, [] => []
  | j, g :: gs => (g, j, 1) :: colTrips (j + 1) gs

def Mat.transpose (m : Mat) : Mat := ⟨m.nc, m.nr, m.tr.map (fun t => (t.2.1, t.1, t.2.2))⟩

/-- prolongation: `total × idx.length`, `P[idx[j], j] = 1` -/
def prolongMat (total : Nat) (idx : List Nat) : Mat := ⟨total, idx.length, colTrips 0 idx⟩

/-- restriction = transpose of the prolongation -/
def restrictMat (total : Nat) (idx : List Nat) : Mat := (prolongMat total idx).transpose

/-- size of a grid in cell (`useFaces = false`) or face (`true`) quantities -/
def sizeOf (useFaces : Bool) (g : G) : Nat := if useFaces then g.faces else g.cells

def projsOf (useFaces : Bool) (gs : List G) (dim : Nat) : Option (List (List Nat)) :=
  if useFaces then faceProjs gs dim else cellProjs gs dim

/-- `cell_prolongation` / `face_prolongation` (the two methods are copies of each other) -/
def prolongation (useFaces : Bool) (gs : List G) (dim : Nat) (sel : List Nat) : Except Err Mat := do
  let idx ← subIdx (projsOf useFaces gs dim) sel
  pure (prolongMat (sumMap (sizeOf useFaces) gs * dim) idx)

/-- `cell_restriction` / `face_restriction` -/
def restriction (useFaces : Bool) (gs : List G) (dim : Nat) (sel : List Nat) : Except Err Mat := do
  let idx ← subIdx (projsOf useFaces gs dim) sel
  pure (restrictMat (sumMap (sizeOf useFaces) gs * dim) idx)

def cellProlongation := prolongation false
def cellRestriction := restriction false
def faceProlongation := prolongation true
def faceRestriction := restriction true

/-! ### action on vectors (the meaning of the 0-1 matrices) -/

/-- entry `g` of `P w`: sum of the `w[j]` with `idx[j] = g` -/
def scatterAt (g : Nat) : List Nat → List Rat → Rat
  | i :: is, x :: xs => (if i = g then x else 0) + scatterAt g is xs
  | _, _ => 0

/-- `P w` for the prolongation with index map `idx` into a global vector of length `n` -/
def prolongV (n : Nat) (idx : List Nat) (w : List Rat) : List Rat :=
  (List.range n).map (fun g => scatterAt g idx w)

/-- `R v` for the restriction with index map `idx` -/
def restrictV (idx : List Nat) (v : List Rat) : List Rat := idx.map (fun g => v.getD g 0)

/-- generic sparse matrix–vector product on triplets (used to tie `prolongMat` to `prolongV`) -/
def rowDot (r : Nat) (v : List Rat) : List Trip → Rat
  | [] => 0
  | t :: ts => (if t.1 = r then t.2.2 * v.getD t.2.1 0 else 0) + rowDot r v ts

def Mat.apply (m : Mat) (v : List Rat) : List Rat := (List.range m.nr).map (fun r => rowDot r v m.tr)

/-! ### specification: consecutive blocks with prefix-sum offsets -/

/-- `blocks off [s₀, s₁, …] = [[off, off+s₀), [off+s₀, off+s₀+s₁), …]` -/
def blocks : Nat → List Nat → List (List Nat)
  | _, [] => []
  | off, s :: ss => List.range' off s :: blocks (off + s) ss

/-- prefix sum `s₀ + … + s_{i-1}` -/
def prefixSum (ss : List Nat) (i : Nat) : Nat := (ss.take i).sum

/-! ### Kronecker product with the identity, on triplets -/

/-- `sparse_kronecker_product(M, nd)`: `M` itself for `nd = 1`, else `kron(M, eye(nd))`:
    entry `(r, c, v)` becomes `(r*nd + k, c*nd + k, v)`, `k < nd`. -/
def kronI (tr : List Trip) (nd : Nat) : List Trip :=
  if nd = 1 then tr
  else tr.flatMap (fun t => (List.range nd).map (fun k => (t.1 * nd + k, t.2.1 * nd + k, t.2.2)))

/-- `projections[sd] @ M`: row `r` of `M` goes to global row `p[r]` -/
def mapRows (p : List Nat) (tr : List Trip) : List Trip :=
  tr.filterMap (fun t => (p[t.1]?).map (fun g => (g, t.2.1, t.2.2)))

/-- `M @ projections[sd].T`: column `c` of `M` goes to global column `p[c]` -/
def mapCols (p : List Nat) (tr : List Trip) : List Trip :=
  tr.filterMap (fun t => (p[t.2.1]?).map (fun g => (t.1, g, t.2.2)))

/-- `sps.bmat([[m₀, m₁, …]])`: column offsets accumulate the block widths; all blocks must have the
    same number of rows (`ValueError` otherwise). -/
def hstackAux (nr : Nat) : Nat → List Mat → Except Err (Nat × List Trip)
  | off, [] => .ok (off, [])
  | off, m :: ms =>
    if m.nr ≠ nr then .error .valueError
    else do
      let (w, ts) ← hstackAux nr (off + m.nc) ms
      pure (w, m.tr.map (fun t => (t.1, off + t.2.1, t.2.2)) ++ ts)

def hstack : List Mat → Except Err Mat
  | [] => .ok ⟨0, 0, []⟩
  | m :: ms => do
    let (w, ts) ← hstackAux m.nr 0 (m :: ms)
    pure ⟨m.nr, w, ts⟩

/-- `sps.bmat([[m₀], [m₁], …])` -/
def vstack (ms : List Mat) : Except Err Mat := do
  let h ← hstack (ms.map Mat.transpose)
  pure h.transpose

/-! ### MortarProjections -/

/-- `np.unique` of the codimensions has more than one element -/
def mixedCodim : List Intf → Bool
  | [] => false
  | i :: is => is.any (fun j => j.codim != i.codim)

/-- one block of `_construct_projection`: `projections[sd] @ M(dim)` / `M(dim) @ projections[sd].T` if the
    subdomain on the requested side is in the list (`side = some position`), else a zero block -/
def mortarBlock (dim : Nat) (projs : List (List Nat)) (total nms : Nat) (toMortar : Bool)
    (side : Option Nat) (i : Intf) : Mat :=
  match side with
  | some p =>
    if toMortar then ⟨i.cells * dim, total, mapCols (projs.getD p []) (kronI i.mat dim)⟩
    else ⟨total, i.cells * dim, mapRows (projs.getD p []) (kronI i.mat dim)⟩
  | none =>
    if toMortar then ⟨i.cells * dim, nms, []⟩ else ⟨nms, i.cells * dim, []⟩

/-- `MortarProjections._construct_projection(proj_func, to_mortar, is_primary)`; the local matrices
    `getattr(intf, proj_func)` are the `mat` fields.

    The size of the non-mortar side follows the PROPERTY (and the proposed repair): it is the size
    of the projection actually used, i.e. faces for codimension 1 primaries and cells otherwise.
    The code at the pinned commit uses faces for every primary projection, which for codimension 2
    gives zero blocks of the wrong size (recorded finding `mortar-codim2-primary-size`). -/
def constructProjection (gs : List G) (dim : Nat) (intfs : List Intf) (toMortar isPrimary : Bool) :
    Except Err Mat :=
  match intfs with
  | [] =>
    let nms := dim * sumMap (sizeOf isPrimary) gs
    if toMortar then .ok ⟨0, nms, []⟩ else .ok ⟨nms, 0, []⟩
  | i0 :: _ =>
    if mixedCodim intfs then .error .valueError
    else if i0.codim ≠ 1 ∧ i0.codim ≠ 2 then .error .valueError
    else
      let useFaces := decide (i0.codim = 1) && isPrimary
      match projsOf useFaces gs dim with
      | none => .error .indexError
      | some projs =>
        let total := sumMap (sizeOf useFaces) gs * dim
        let nms := dim * sumMap (sizeOf useFaces) gs
        let blks := intfs.map (fun i =>
          mortarBlock dim projs total nms toMortar (if isPrimary then i.prim else i.sec) i)
        if toMortar then vstack blks else hstack blks

/-- diagonal of `MortarProjections.sign_of_mortar_sides` -/
def signOf (dim : Nat) (i : Intf) : List Rat :=
  if i.sides = 1 then List.replicate (i.cells * dim) 1
  else List.replicate (i.left * dim) (-1) ++ List.replicate (i.right * dim) 1

def signDiag (dim : Nat) (intfs : List Intf) : List Rat := intfs.flatMap (signOf dim)

/-! ### BoundaryProjection -/

/-- index map of `bg.projection(dim) * face_projections[sd].T`: boundary-grid row `i*dim + k` reads
    global face dof `fp[bf_i*dim + k]` -/
def boundaryIdxOf (dim : Nat) (fp : List Nat) (g : G) : List Nat :=
  if 0 < g.gdim then (expandNd g.bfaces dim).filterMap (fun c => fp[c]?) else []

def boundaryIdxAux (dim : Nat) : List (List Nat) → List G → List Nat
  | fp :: fps, g :: gs => boundaryIdxOf dim fp g ++ boundaryIdxAux dim fps gs
  | _, _ => []

/-- `BoundaryProjection(mdg, subdomains, dim)._projection` (subdomain faces → boundary cells) as a
    restriction index map; `subdomain_to_boundary = restrictMat`, `boundary_to_subdomain = prolongMat`. -/
def boundaryIdx (gs : List G) (dim : Nat) : Except Err (List Nat) := do
  let fps ← liftO .indexError (faceProjs gs dim)
  pure (boundaryIdxAux dim fps gs)

def boundaryProjection (gs : List G) (dim : Nat) : Except Err Mat := do
  let idx ← boundaryIdx gs dim
  pure (restrictMat (sumMap G.faces gs * dim) idx)

/-! ### Trace and Divergence (block placement with the same offsets) -/

/-- `Trace(subdomains, dim).trace`: `vstack(sd.trace() * cell_projections[sd].T)`; `locals` are the
    per-grid trace matrices (faces × cells).  Only implemented for `dim = 1`. -/
def traceMat (gs : List G) (dim : Nat) (locals : List (List Trip)) : Except Err Mat :=
  match gs with
  | [] => .ok ⟨0, 0, []⟩
  | _ => do
    let projs ← liftO .indexError (cellProjs gs dim)
    if dim ≠ 1 then .error .notImplemented
    else
      let total := sumMap G.cells gs * dim
      vstack ((gs.zip (projs.zip locals)).map (fun x => ⟨x.1.faces, total, mapCols x.2.1 x.2.2⟩))

/-- `csr_matrix_from_sparse_blocks`: block diagonal -/
def blockDiagAux : Nat → Nat → List Mat → Nat × Nat × List Trip
  | ro, co, [] => (ro, co, [])
  | ro, co, m :: ms =>
    let r := blockDiagAux (ro + m.nr) (co + m.nc) ms
    (r.1, r.2.1, m.tr.map (fun t => (ro + t.1, co + t.2.1, t.2.2)) ++ r.2.2)

/-- `Divergence(subdomains, dim).parse`: block diagonal of `sd.divergence(dim) = kron(div, I_dim)`;
    `locals` are the scalar divergences (cells × faces). -/
def divergenceMat (gs : List G) (dim : Nat) (locals : List (List Trip)) : Mat :=
  let r := blockDiagAux 0 0 ((gs.zip locals).map (fun x => ⟨x.1.cells * dim, x.1.faces * dim, kronI x.2 dim⟩))
  ⟨r.1, r.2.1, r.2.2⟩

/-! ### entry points: argument checks of the wrappers -/

/-- `len(set(subdomains))` -/
def setLen : List Nat → Nat
  | [] => 0
  | c :: l => if c ∈ l then setLen l else setLen l + 1

/-- `SubdomainProjections.__init__`: `ValueError` if a subdomain occurs more than once -/
def ctorCheck (ids : List Nat) : Except Err Unit :=
  if setLen ids < ids.length then .error .valueError else .ok ()

/-- `cell_/face_restriction/prolongation(subdomains)`: `ValueError` unless the argument is a list
    (checked before anything else), then the projection proper -/
def subCall (restrict useFaces isList : Bool) (gs : List G) (dim : Nat) (sel : List Nat) : Except Err Mat :=
  if !isList then .error .valueError
  else if restrict then restriction useFaces gs dim sel else prolongation useFaces gs dim sel

/-! ### boundary faces from the tag mask -/

/-- `np.where(mask)[0]` (running index `i`) -/
def whereTrue : Nat → List Bool → List Nat
  | _, [] => []
  | i, b :: bs => if b then i :: whereTrue (i + 1) bs else whereTrue (i + 1) bs

/-- grid data as `BoundaryGrid.set_projections` reads it: `num_faces = len(mask)`,
    boundary faces `= np.where(tags["domain_boundary_faces"])[0]` -/
def G.ofTags (cells gdim : Nat) (mask : List Bool) : G := ⟨cells, mask.length, gdim, whereTrue 0 mask⟩

/-! ### well-formedness of the grid data (hypotheses of the theorems) -/

/-- a real grid: at least one cell; a 0-d grid has no faces, a grid of positive dimension has some -/
def G.wf (g : G) : Prop := 0 < g.cells ∧ (g.gdim = 0 → g.faces = 0) ∧ (0 < g.gdim → 0 < g.faces)

instance (g : G) : Decidable g.wf := by unfold G.wf; infer_instance

/-! ### the decidable hypotheses of the theorems, evaluated by the driver on every case -/

def hypGrids (gs : List G) : Bool :=
  gs.all (fun g => decide g.wf && decide g.bfaces.Nodup && g.bfaces.all (fun b => decide (b < g.faces)))

def hypMortar (gs : List G) (intfs : List Intf) (toMortar isPrimary : Bool) : Bool :=
  match intfs with
  | [] => true
  | i0 :: _ =>
    let uf := decide (i0.codim = 1) && isPrimary
    (i0.codim == 1 || i0.codim == 2) && intfs.all (fun i => i.codim == i0.codim) &&
    intfs.all (fun i =>
      match (if isPrimary then i.prim else i.sec) with
      | some p =>
        (match gs[p]? with
         | some g => i.mat.all (fun t => decide ((if toMortar then t.2.1 else t.1) < sizeOf uf g))
         | none => false)
      | none => true)

def hypSign (intfs : List Intf) : Bool :=
  intfs.all (fun i => i.sides == 1 || i.left + i.right == i.cells)

end PorepyVerif.C27
