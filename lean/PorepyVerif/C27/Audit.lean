import PorepyVerif.C27.Props
#print axioms PorepyVerif.C27.kron_dim
#print axioms PorepyVerif.C27.expandNd_index
#print axioms PorepyVerif.C27.kron_triplets
#print axioms PorepyVerif.C27.projections_are_blocks
#print axioms PorepyVerif.C27.blocks_disjoint_contiguous_cover
#print axioms PorepyVerif.C27.block_offsets
#print axioms PorepyVerif.C27.restrict_prolong_id
#print axioms PorepyVerif.C27.prolong_restrict_mask
#print axioms PorepyVerif.C27.prolong_all_is_perm
#print axioms PorepyVerif.C27.prolong_follows_list_order
#print axioms PorepyVerif.C27.matrices_act_as_index_maps
#print axioms PorepyVerif.C27.mortar_block_offsets
#print axioms PorepyVerif.C27.mortar_to_mortar_block_offsets
#print axioms PorepyVerif.C27.mortar_rejections
#print axioms PorepyVerif.C27.boundary_projection_is_restriction
