/-
C27 — helper lemmas (property theorems are in Props.lean).
-/
import Mathlib.Data.List.Perm.Basic
import Mathlib.Data.List.Perm.Subperm
import Mathlib.Data.List.Nodup
import Mathlib.Data.List.Flatten
import Mathlib.Tactic.Ring
import PorepyVerif.C27.Model

namespace PorepyVerif.C27
open List

/-! ### expand_indices_nd -/

theorem map_mul_add_range (dim a : Nat) :
    (List.range dim).map (fun k => dim * a + k) = List.range' (dim * a) dim := by
  rw [List.range_eq_range', List.map_add_range']
  simp

/-- for `nd ≥ 1` the `nd = 1` shortcut of the code is not a special case -/
theorem expandNd_eq_flatMap (ind : List Nat) (dim : Nat) (hd : 0 < dim) :
    expandNd ind dim = ind.flatMap (fun i => (List.range dim).map (fun k => dim * i + k)) := by
  unfold expandNd
  split
  · next h =>
    subst h
    induction ind with
    | nil => rfl
    | cons a l _ => simp [List.flatMap_cons]
  · rfl

theorem expandNd_range' (a n dim : Nat) (hd : 0 < dim) :
    expandNd (List.range' a n) dim = List.range' (dim * a) (dim * n) := by
  rw [expandNd_eq_flatMap _ _ hd]
  induction n generalizing a with
  | zero => simp
  | succ n ih =>
    rw [List.range'_succ, List.flatMap_cons, ih, map_mul_add_range]
    have h1 : dim * (a + 1) = dim * a + 1 * dim := by ring
    have h2 : dim * (n + 1) = dim + dim * n := by ring
    rw [h1, h2, List.range'_append]

theorem expandNd_length (ind : List Nat) (dim : Nat) (hd : 0 < dim) :
    (expandNd ind dim).length = ind.length * dim := by
  rw [expandNd_eq_flatMap _ _ hd]
  induction ind with
  | nil => simp
  | cons a l ih =>
    rw [List.flatMap_cons, List.length_append, ih]
    simp
    ring

theorem expandNd_getElem? (ind : List Nat) (dim j k : Nat) (hj : j < ind.length) (hk : k < dim) :
    (expandNd ind dim)[j * dim + k]? = some (dim * ind[j] + k) := by
  have hd : 0 < dim := by omega
  rw [expandNd_eq_flatMap _ _ hd]
  induction ind generalizing j with
  | nil => simp at hj
  | cons a l ih =>
    rw [List.flatMap_cons, List.getElem?_append]
    cases j with
    | zero => simp [hk]
    | succ j =>
      have hlen : ((List.range dim).map (fun k => dim * a + k)).length = dim := by simp
      have hge : ¬ ((j + 1) * dim + k < dim) := by
        have : (j + 1) * dim = j * dim + dim := by ring
        omega
      rw [hlen, if_neg hge]
      have : (j + 1) * dim + k - dim = j * dim + k := by
        have : (j + 1) * dim = j * dim + dim := by ring
        omega
      rw [this, ih j (by simpa using hj)]
      simp

theorem mem_expandNd (ind : List Nat) (dim g : Nat) (hd : 0 < dim) :
    g ∈ expandNd ind dim ↔ ∃ i ∈ ind, ∃ k, k < dim ∧ g = dim * i + k := by
  rw [expandNd_eq_flatMap _ _ hd]
  simp only [List.mem_flatMap, List.mem_map, List.mem_range]
  constructor
  · rintro ⟨i, hi, k, hk, rfl⟩; exact ⟨i, hi, k, hk, rfl⟩
  · rintro ⟨i, hi, k, hk, rfl⟩; exact ⟨i, hi, k, hk, rfl⟩

/-! ### the offset loop computes consecutive blocks -/

theorem projAux_eq_blocks (dim : Nat) (hd : 0 < dim) (l : List (Nat × Bool)) (off : Nat)
    (h : ∀ p ∈ l, (p.2 = true → 0 < p.1) ∧ (p.2 = false → p.1 = 0)) :
    projAux dim off l = some (blocks off (l.map (fun p => dim * p.1))) := by
  induction l generalizing off with
  | nil => rfl
  | cons p rest ih =>
    obtain ⟨n, upd⟩ := p
    have hp := h (n, upd) (by simp)
    have hrest : ∀ q ∈ rest, (q.2 = true → 0 < q.1) ∧ (q.2 = false → q.1 = 0) :=
      fun q hq => h q (List.mem_cons_of_mem _ hq)
    have hind : (expandNd (List.range n) dim).map (off + ·) = List.range' off (dim * n) := by
      rw [List.range_eq_range', expandNd_range' 0 n dim hd, List.map_add_range']
      simp
    simp only [projAux, hind, List.map_cons, blocks]
    cases upd with
    | true =>
      have hn : 0 < n := hp.1 rfl
      have hpos : dim * n ≠ 0 := Nat.mul_ne_zero (by omega) (by omega)
      have hpos' : 0 < dim * n := Nat.pos_of_ne_zero hpos
      simp only [List.getLast?_range', if_neg hpos, if_true]
      have : off + dim * n - 1 + 1 = off + dim * n := by omega
      rw [this, ih _ hrest]
      rfl
    | false =>
      have hn : n = 0 := hp.2 rfl
      subst hn
      simp [ih _ hrest]

/-! ### blocks -/

theorem blocks_length (off : Nat) (ss : List Nat) : (blocks off ss).length = ss.length := by
  induction ss generalizing off with
  | nil => rfl
  | cons s ss ih => simp [blocks, ih]

theorem blocks_getElem? (off : Nat) (ss : List Nat) (i : Nat) (h : i < ss.length) :
    (blocks off ss)[i]? = some (List.range' (off + (ss.take i).sum) ss[i]) := by
  induction ss generalizing off i with
  | nil => simp at h
  | cons s ss ih =>
    cases i with
    | zero => simp [blocks]
    | succ i =>
      simp only [blocks, List.getElem?_cons_succ, List.take_succ_cons, List.sum_cons, List.getElem_cons_succ]
      rw [ih (off + s) i (by simpa using h), Nat.add_assoc]

theorem blocks_flatten (off : Nat) (ss : List Nat) :
    (blocks off ss).flatten = List.range' off ss.sum := by
  induction ss generalizing off with
  | nil => simp [blocks]
  | cons s ss ih =>
    simp only [blocks, List.flatten_cons, List.sum_cons, ih]
    simp

theorem blocks_mul (dim off : Nat) (ss : List Nat) (hd : 0 < dim) :
    blocks (dim * off) (ss.map (fun s => dim * s)) = (blocks off ss).map (fun b => expandNd b dim) := by
  induction ss generalizing off with
  | nil => rfl
  | cons s ss ih =>
    simp only [List.map_cons, blocks, expandNd_range' _ _ _ hd]
    have : dim * off + dim * s = dim * (off + s) := by ring
    rw [this, ih]

/-! ### selection of blocks (dictionary look-ups + bmat) -/

theorem select_eq (projs : List (List Nat)) (sel : List Nat) (h : ∀ i ∈ sel, i < projs.length) :
    select projs sel = some (sel.map (fun i => projs.getD i [])) := by
  induction sel with
  | nil => rfl
  | cons i is ih =>
    have hi : i < projs.length := h i (by simp)
    have his : ∀ j ∈ is, j < projs.length := fun j hj => h j (List.mem_cons_of_mem _ hj)
    simp only [select, List.getElem?_eq_getElem hi, ih his, List.map_cons, Option.map_some]
    simp [List.getD_eq_getElem?_getD, List.getElem?_eq_getElem hi]

theorem select_none (projs : List (List Nat)) (sel : List Nat) (i : Nat) (hi : i ∈ sel)
    (hge : projs.length ≤ i) : select projs sel = none := by
  induction sel with
  | nil => cases hi
  | cons a is ih =>
    rcases List.mem_cons.mp hi with rfl | h
    · simp [select, List.getElem?_eq_none hge]
    · simp only [select]
      cases projs[a]? with
      | none => rfl
      | some b => simp [ih h]

theorem map_getD_range {α : Type} (l : List α) (d : α) :
    (List.range l.length).map (fun i => l.getD i d) = l := by
  induction l with
  | nil => rfl
  | cons a l ih =>
    rw [List.length_cons, List.range_succ_eq_map, List.map_cons, List.map_map]
    simp only [List.getD_cons_zero]
    congr 1

theorem flatMap_getD_range (bl : List (List Nat)) :
    (List.range bl.length).flatMap (fun i => bl.getD i []) = bl.flatten := by
  rw [List.flatMap_def, map_getD_range]

/-- flatMap respects sub-permutations -/
theorem subperm_flatMap {α β : Type} (f : α → List β) {l₁ l₂ : List α} (h : l₁ <+~ l₂) :
    l₁.flatMap f <+~ l₂.flatMap f := by
  obtain ⟨l, hp, hs⟩ := h
  exact ⟨l.flatMap f, hp.flatMap_right f, hs.flatMap f⟩

theorem nodup_of_subperm {α : Type} {l₁ l₂ : List α} (h : l₁ <+~ l₂) (hn : l₂.Nodup) : l₁.Nodup := by
  obtain ⟨l, hp, hs⟩ := h
  exact hp.nodup_iff.mp (hn.sublist hs)

theorem subset_of_subperm {α : Type} {l₁ l₂ : List α} (h : l₁ <+~ l₂) : l₁ ⊆ l₂ := by
  obtain ⟨l, hp, hs⟩ := h
  intro x hx
  exact hs.subset (hp.symm.subset hx)

/-- the index map of a duplicate-free selection of blocks: duplicate free, inside `[off, off+total)` -/
theorem selIdx_subperm (off : Nat) (ss : List Nat) (sel : List Nat) (hnd : sel.Nodup)
    (hlt : ∀ i ∈ sel, i < ss.length) :
    sel.flatMap (fun i => (blocks off ss).getD i []) <+~ List.range' off ss.sum := by
  have hsub : sel <+~ List.range (blocks off ss).length := by
    apply List.subperm_of_subset hnd
    intro i hi
    rw [blocks_length]
    exact List.mem_range.mpr (hlt i hi)
  have := subperm_flatMap (fun i => (blocks off ss).getD i []) hsub
  rwa [flatMap_getD_range, blocks_flatten] at this

theorem selIdx_perm (off : Nat) (ss : List Nat) (sel : List Nat) (hp : sel ~ List.range ss.length) :
    sel.flatMap (fun i => (blocks off ss).getD i []) ~ List.range' off ss.sum := by
  have := hp.flatMap_right (fun i => (blocks off ss).getD i [])
  rw [← blocks_length off ss, flatMap_getD_range, blocks_flatten] at this
  exact this

/-! ### action on vectors -/

theorem scatterAt_not_mem (g : Nat) (idx : List Nat) (w : List Rat) (h : g ∉ idx) :
    scatterAt g idx w = 0 := by
  induction idx generalizing w with
  | nil => cases w <;> rfl
  | cons i is ih =>
    cases w with
    | nil => rfl
    | cons x xs =>
      have hne : i ≠ g := fun e => h (by simp [e])
      have hg : g ∉ is := fun e => h (List.mem_cons_of_mem _ e)
      simp [scatterAt, hne, ih xs hg]

theorem map_scatterAt_self (idx : List Nat) (w : List Rat) (hnd : idx.Nodup)
    (hlen : w.length = idx.length) : idx.map (fun g => scatterAt g idx w) = w := by
  induction idx generalizing w with
  | nil => cases w with
    | nil => rfl
    | cons x xs => simp at hlen
  | cons i is ih =>
    cases w with
    | nil => simp at hlen
    | cons x xs =>
      have hi : i ∉ is := (List.nodup_cons.mp hnd).1
      have hnd' : is.Nodup := (List.nodup_cons.mp hnd).2
      rw [List.map_cons]
      congr 1
      · simp [scatterAt, scatterAt_not_mem i is xs hi]
      · conv_rhs => rw [← ih xs hnd' (by simpa using hlen)]
        apply List.map_congr_left
        intro g hg
        have hne : i ≠ g := fun e => hi (e ▸ hg)
        simp [scatterAt, hne]

theorem scatterAt_map (g : Nat) (idx : List Nat) (f : Nat → Rat) (hnd : idx.Nodup) :
    scatterAt g idx (idx.map f) = if g ∈ idx then f g else 0 := by
  induction idx with
  | nil => rfl
  | cons i is ih =>
    have hi : i ∉ is := (List.nodup_cons.mp hnd).1
    have hnd' : is.Nodup := (List.nodup_cons.mp hnd).2
    simp only [List.map_cons, scatterAt, ih hnd']
    by_cases h : i = g
    · subst h
      simp [hi]
    · have : ¬ g = i := fun e => h e.symm
      simp [h, this]

theorem prolongV_getD (n : Nat) (idx : List Nat) (w : List Rat) (g : Nat) (hg : g < n) :
    (prolongV n idx w).getD g 0 = scatterAt g idx w := by
  simp [prolongV, List.getD_eq_getElem?_getD, hg]

/-! ### sums -/

theorem sumMap_eq_sum {α : Type} (f : α → Nat) (l : List α) : sumMap f l = (l.map f).sum := by
  induction l with
  | nil => rfl
  | cons a l ih => simp [sumMap, ih]

theorem sum_map_mul_left {α : Type} (f : α → Nat) (d : Nat) (l : List α) :
    (l.map (fun a => d * f a)).sum = d * sumMap f l := by
  induction l with
  | nil => simp [sumMap]
  | cons a l ih => simp [sumMap, ih, Nat.mul_add]

theorem sum_map_mul_right {α : Type} (f : α → Nat) (d : Nat) (l : List α) :
    (l.map (fun a => f a * d)).sum = d * sumMap f l := by
  have : (fun a => f a * d) = (fun a => d * f a) := by funext a; ring
  rw [this, sum_map_mul_left]

/-! ### the per-grid projections of well-formed grid lists -/

theorem cellProjs_eq (gs : List G) (dim : Nat) (hd : 0 < dim) (hwf : ∀ g ∈ gs, g.wf) :
    cellProjs gs dim = some (blocks 0 (gs.map (fun g => dim * g.cells))) := by
  unfold cellProjs
  rw [projAux_eq_blocks dim hd]
  · simp [List.map_map, Function.comp_def]
  · intro p hp
    obtain ⟨g, hg, rfl⟩ := List.mem_map.mp hp
    exact ⟨fun _ => (hwf g hg).1, fun h => by simp at h⟩

theorem faceProjs_eq (gs : List G) (dim : Nat) (hd : 0 < dim) (hwf : ∀ g ∈ gs, g.wf) :
    faceProjs gs dim = some (blocks 0 (gs.map (fun g => dim * g.faces))) := by
  unfold faceProjs
  rw [projAux_eq_blocks dim hd]
  · simp [List.map_map, Function.comp_def]
  · intro p hp
    obtain ⟨g, hg, rfl⟩ := List.mem_map.mp hp
    refine ⟨fun h => (hwf g hg).2.2 (by simpa using h), fun h => (hwf g hg).2.1 ?_⟩
    have : ¬ 0 < g.gdim := by simpa using h
    omega

theorem blocks_getD (off : Nat) (ss : List Nat) (i : Nat) (h : i < ss.length) :
    (blocks off ss).getD i [] = List.range' (off + (ss.take i).sum) ss[i] := by
  rw [List.getD_eq_getElem?_getD, blocks_getElem? off ss i h]
  rfl

/-- block `p` of the projections of a grid list, with the offset as a prefix sum of grid sizes -/
theorem blocks_grid_getD (gs : List G) (size : G → Nat) (dim p : Nat) (hp : p < gs.length) :
    (blocks 0 (gs.map (fun g => dim * size g))).getD p [] =
      List.range' (dim * sumMap size (gs.take p)) (dim * size gs[p]) := by
  rw [blocks_getD _ _ _ (by simpa using hp)]
  simp only [List.getElem_map, Nat.zero_add, ← List.map_take, sum_map_mul_left]

/-! ### generic "place blocks at accumulated offsets" -/

def accFlat {α β : Type} (size : α → Nat) (F : Nat → α → List β) : Nat → List α → List β
  | _, [] => []
  | off, a :: l => F off a ++ accFlat size F (off + size a) l

theorem accFlat_eq {α β : Type} (size : α → Nat) (F : Nat → α → List β) (off : Nat) (l : List α) :
    accFlat size F off l = (List.range l.length).flatMap (fun k =>
      match l[k]? with
      | some a => F (off + sumMap size (l.take k)) a
      | none => []) := by
  induction l generalizing off with
  | nil => rfl
  | cons a l ih =>
    rw [accFlat, ih, List.length_cons, List.range_succ_eq_map, List.flatMap_cons, List.flatMap_map]
    simp [sumMap, Nat.add_assoc]

theorem accFlat_map_list {α β γ : Type} (size : α → Nat) (F : Nat → α → List β) (g : γ → α) (off : Nat)
    (l : List γ) :
    accFlat size F off (l.map g) = accFlat (fun c => size (g c)) (fun o c => F o (g c)) off l := by
  induction l generalizing off with
  | nil => rfl
  | cons a l ih => simp [accFlat, ih]

theorem map_accFlat {α β γ : Type} (size : α → Nat) (F : Nat → α → List β) (h : β → γ) (off : Nat)
    (l : List α) :
    (accFlat size F off l).map h = accFlat size (fun o a => (F o a).map h) off l := by
  induction l generalizing off with
  | nil => rfl
  | cons a l ih => simp [accFlat, ih]

theorem accFlat_congr {α β : Type} (size : α → Nat) (F F' : Nat → α → List β) (off : Nat) (l : List α)
    (h : ∀ a ∈ l, ∀ o, F o a = F' o a) : accFlat size F off l = accFlat size F' off l := by
  induction l generalizing off with
  | nil => rfl
  | cons a l ih =>
    simp only [accFlat]
    rw [h a (by simp), ih _ (fun b hb => h b (List.mem_cons_of_mem _ hb))]

/-! ### hstack / vstack -/

theorem hstackAux_ok (nr off : Nat) (ms : List Mat) (h : ∀ m ∈ ms, m.nr = nr) :
    hstackAux nr off ms = .ok (off + sumMap Mat.nc ms,
      accFlat Mat.nc (fun o m => m.tr.map (fun t => (t.1, o + t.2.1, t.2.2))) off ms) := by
  induction ms generalizing off with
  | nil => rfl
  | cons m ms ih =>
    have hm : m.nr = nr := h m (by simp)
    have hms : ∀ m' ∈ ms, m'.nr = nr := fun m' hm' => h m' (List.mem_cons_of_mem _ hm')
    simp only [hstackAux, hm, ne_eq, not_true_eq_false, if_false, ih _ hms, accFlat, sumMap]
    simp [bind, Except.bind, pure, Except.pure, Nat.add_assoc]

theorem hstack_ok (nr : Nat) (m : Mat) (ms : List Mat) (h : ∀ m' ∈ m :: ms, m'.nr = nr) :
    hstack (m :: ms) = .ok ⟨nr, sumMap Mat.nc (m :: ms),
      accFlat Mat.nc (fun o m => m.tr.map (fun t => (t.1, o + t.2.1, t.2.2))) 0 (m :: ms)⟩ := by
  have hm : m.nr = nr := h m (by simp)
  simp only [hstack, hm, hstackAux_ok nr 0 (m :: ms) h]
  simp [bind, Except.bind, pure, Except.pure]

theorem sumMap_nc_transpose (l : List Mat) : sumMap Mat.nc (l.map Mat.transpose) = sumMap Mat.nr l := by
  induction l with
  | nil => rfl
  | cons a l ih => simp [sumMap, ih, Mat.transpose]

theorem accFlat_transpose (off : Nat) (l : List Mat) :
    (accFlat Mat.nc (fun o m => m.tr.map (fun t => (t.1, o + t.2.1, t.2.2))) off (l.map Mat.transpose)).map
        (fun t => (t.2.1, t.1, t.2.2)) =
      accFlat Mat.nr (fun o m => m.tr.map (fun t => (o + t.1, t.2.1, t.2.2))) off l := by
  induction l generalizing off with
  | nil => rfl
  | cons a l ih =>
    simp only [List.map_cons, accFlat, List.map_append, ih]
    simp [Mat.transpose, List.map_map, Function.comp_def]

theorem vstack_ok (nc : Nat) (m : Mat) (ms : List Mat) (h : ∀ m' ∈ m :: ms, m'.nc = nc) :
    vstack (m :: ms) = .ok ⟨sumMap Mat.nr (m :: ms), nc,
      accFlat Mat.nr (fun o m => m.tr.map (fun t => (o + t.1, t.2.1, t.2.2))) 0 (m :: ms)⟩ := by
  have h' : ∀ m' ∈ m.transpose :: ms.map Mat.transpose, m'.nr = nc := by
    intro m' hm'
    rw [← List.map_cons] at hm'
    obtain ⟨a, ha, rfl⟩ := List.mem_map.mp hm'
    exact h a ha
  have e : vstack (m :: ms) =
      (do let x ← hstack (m.transpose :: ms.map Mat.transpose); pure x.transpose) := rfl
  have key : ∀ (a b : Nat) (t : List Trip),
      Mat.transpose ⟨a, b, t⟩ = ⟨b, a, t.map (fun t => (t.2.1, t.1, t.2.2))⟩ := fun _ _ _ => rfl
  rw [e, hstack_ok nc _ _ h']
  show Except.ok (Mat.transpose _) = _
  rw [key, ← List.map_cons, accFlat_transpose, sumMap_nc_transpose]

theorem hstack_map_ok {α : Type} (nr : Nat) (f : α → Mat) (a : α) (l : List α)
    (h : ∀ x ∈ a :: l, (f x).nr = nr) :
    hstack ((a :: l).map f) = .ok ⟨nr, sumMap (fun x => (f x).nc) (a :: l),
      accFlat (fun x => (f x).nc) (fun o x => (f x).tr.map (fun t => (t.1, o + t.2.1, t.2.2))) 0 (a :: l)⟩ := by
  have h' : ∀ m' ∈ f a :: l.map f, m'.nr = nr := by
    intro m' hm'
    rw [← List.map_cons] at hm'
    obtain ⟨x, hx, rfl⟩ := List.mem_map.mp hm'
    exact h x hx
  have := hstack_ok nr (f a) (l.map f) h'
  rw [← List.map_cons, accFlat_map_list, sumMap_eq_sum, List.map_map] at this
  rw [this, sumMap_eq_sum]
  rfl

theorem vstack_map_ok {α : Type} (nc : Nat) (f : α → Mat) (a : α) (l : List α)
    (h : ∀ x ∈ a :: l, (f x).nc = nc) :
    vstack ((a :: l).map f) = .ok ⟨sumMap (fun x => (f x).nr) (a :: l), nc,
      accFlat (fun x => (f x).nr) (fun o x => (f x).tr.map (fun t => (o + t.1, t.2.1, t.2.2))) 0 (a :: l)⟩ := by
  have h' : ∀ m' ∈ f a :: l.map f, m'.nc = nc := by
    intro m' hm'
    rw [← List.map_cons] at hm'
    obtain ⟨x, hx, rfl⟩ := List.mem_map.mp hm'
    exact h x hx
  have := vstack_ok nc (f a) (l.map f) h'
  rw [← List.map_cons, accFlat_map_list, sumMap_eq_sum, List.map_map] at this
  rw [this, sumMap_eq_sum]
  rfl

/-! ### Kronecker product and placement of one local matrix -/

theorem kronI_eq_flatMap (tr : List Trip) (dim : Nat) (hd : 0 < dim) :
    kronI tr dim = tr.flatMap (fun t => (List.range dim).map (fun k => (t.1 * dim + k, t.2.1 * dim + k, t.2.2))) := by
  unfold kronI
  split
  · next h =>
    subst h
    induction tr with
    | nil => rfl
    | cons a l _ => simp [List.flatMap_cons]
  · rfl

theorem mem_kronI (tr : List Trip) (dim : Nat) (hd : 0 < dim) (t' : Trip) :
    t' ∈ kronI tr dim ↔ ∃ t ∈ tr, ∃ k, k < dim ∧ t' = (t.1 * dim + k, t.2.1 * dim + k, t.2.2) := by
  rw [kronI_eq_flatMap _ _ hd]
  simp only [List.mem_flatMap, List.mem_map, List.mem_range]
  constructor
  · rintro ⟨t, ht, k, hk, rfl⟩; exact ⟨t, ht, k, hk, rfl⟩
  · rintro ⟨t, ht, k, hk, rfl⟩; exact ⟨t, ht, k, hk, rfl⟩

theorem kronI_row_lt (tr : List Trip) (dim n : Nat) (hd : 0 < dim) (h : ∀ t ∈ tr, t.1 < n) :
    ∀ t' ∈ kronI tr dim, t'.1 < dim * n := by
  intro t' ht'
  obtain ⟨t, ht, k, hk, rfl⟩ := (mem_kronI tr dim hd t').mp ht'
  have := h t ht
  show t.1 * dim + k < dim * n
  calc t.1 * dim + k < t.1 * dim + dim := by omega
    _ = (t.1 + 1) * dim := by ring
    _ ≤ n * dim := Nat.mul_le_mul_right _ (by omega)
    _ = dim * n := by ring

theorem kronI_col_lt (tr : List Trip) (dim n : Nat) (hd : 0 < dim) (h : ∀ t ∈ tr, t.2.1 < n) :
    ∀ t' ∈ kronI tr dim, t'.2.1 < dim * n := by
  intro t' ht'
  obtain ⟨t, ht, k, hk, rfl⟩ := (mem_kronI tr dim hd t').mp ht'
  have := h t ht
  show t.2.1 * dim + k < dim * n
  calc t.2.1 * dim + k < t.2.1 * dim + dim := by omega
    _ = (t.2.1 + 1) * dim := by ring
    _ ≤ n * dim := Nat.mul_le_mul_right _ (by omega)
    _ = dim * n := by ring

theorem mapRows_range' (ro n : Nat) (tr : List Trip) (h : ∀ t ∈ tr, t.1 < n) :
    mapRows (List.range' ro n) tr = tr.map (fun t => (ro + t.1, t.2.1, t.2.2)) := by
  induction tr with
  | nil => rfl
  | cons t ts ih =>
    have ht : t.1 < n := h t (by simp)
    have hts : ∀ t' ∈ ts, t'.1 < n := fun t' ht' => h t' (List.mem_cons_of_mem _ ht')
    have := ih hts
    unfold mapRows at this ⊢
    rw [List.filterMap_cons, List.getElem?_range' ht, this]
    simp

theorem mapCols_range' (co n : Nat) (tr : List Trip) (h : ∀ t ∈ tr, t.2.1 < n) :
    mapCols (List.range' co n) tr = tr.map (fun t => (t.1, co + t.2.1, t.2.2)) := by
  induction tr with
  | nil => rfl
  | cons t ts ih =>
    have ht : t.2.1 < n := h t (by simp)
    have hts : ∀ t' ∈ ts, t'.2.1 < n := fun t' ht' => h t' (List.mem_cons_of_mem _ ht')
    have := ih hts
    unfold mapCols at this ⊢
    rw [List.filterMap_cons, List.getElem?_range' ht, this]
    simp

/-! ### mortar projections -/

theorem mixedCodim_false (c : Nat) (intfs : List Intf) (h : ∀ i ∈ intfs, i.codim = c) :
    mixedCodim intfs = false := by
  cases intfs with
  | nil => rfl
  | cons i0 rest =>
    simp only [mixedCodim, List.any_eq_false]
    intro j hj
    have h0 := h i0 (by simp)
    have hj' := h j (List.mem_cons_of_mem _ hj)
    simp [h0, hj']

theorem projsOf_eq (useFaces : Bool) (gs : List G) (dim : Nat) (hd : 0 < dim) (hwf : ∀ g ∈ gs, g.wf) :
    projsOf useFaces gs dim = some (blocks 0 (gs.map (fun g => dim * sizeOf useFaces g))) := by
  cases useFaces with
  | true => simpa [projsOf, sizeOf] using faceProjs_eq gs dim hd hwf
  | false => simpa [projsOf, sizeOf] using cellProjs_eq gs dim hd hwf

/-- content of the block of one interface (from the mortar side): local triplets moved to the row
    offset of the subdomain -/
def rowPlaced (gs : List G) (size : G → Nat) (dim : Nat) (side : Option Nat) (i : Intf) : List Trip :=
  match side with
  | some p => (kronI i.mat dim).map (fun t => (dim * sumMap size (gs.take p) + t.1, t.2.1, t.2.2))
  | none => []

def colPlaced (gs : List G) (size : G → Nat) (dim : Nat) (side : Option Nat) (i : Intf) : List Trip :=
  match side with
  | some p => (kronI i.mat dim).map (fun t => (t.1, dim * sumMap size (gs.take p) + t.2.1, t.2.2))
  | none => []

theorem mortarBlock_from (gs : List G) (useFaces : Bool) (dim : Nat) (hd : 0 < dim) (side : Option Nat)
    (i : Intf)
    (hpos : ∀ p, side = some p → ∃ g, gs[p]? = some g ∧ ∀ t ∈ i.mat, t.1 < sizeOf useFaces g) :
    mortarBlock dim (blocks 0 (gs.map (fun g => dim * sizeOf useFaces g)))
        (sumMap (sizeOf useFaces) gs * dim) (dim * sumMap (sizeOf useFaces) gs) false side i =
      ⟨dim * sumMap (sizeOf useFaces) gs, i.cells * dim, rowPlaced gs (sizeOf useFaces) dim side i⟩ := by
  cases side with
  | none => rfl
  | some p =>
    obtain ⟨g, hg, hlt⟩ := hpos p rfl
    have hp : p < gs.length := by
      by_contra hc
      rw [List.getElem?_eq_none (by omega)] at hg
      cases hg
    have hgp : gs[p] = g := by
      rw [List.getElem?_eq_getElem hp] at hg
      exact Option.some.inj hg
    simp only [mortarBlock, rowPlaced, Bool.false_eq_true, if_false]
    rw [blocks_grid_getD gs (sizeOf useFaces) dim p hp, hgp,
      mapRows_range' _ _ _ (kronI_row_lt i.mat dim _ hd hlt), Nat.mul_comm _ dim]

theorem mortarBlock_to (gs : List G) (useFaces : Bool) (dim : Nat) (hd : 0 < dim) (side : Option Nat)
    (i : Intf)
    (hpos : ∀ p, side = some p → ∃ g, gs[p]? = some g ∧ ∀ t ∈ i.mat, t.2.1 < sizeOf useFaces g) :
    mortarBlock dim (blocks 0 (gs.map (fun g => dim * sizeOf useFaces g)))
        (sumMap (sizeOf useFaces) gs * dim) (dim * sumMap (sizeOf useFaces) gs) true side i =
      ⟨i.cells * dim, dim * sumMap (sizeOf useFaces) gs, colPlaced gs (sizeOf useFaces) dim side i⟩ := by
  cases side with
  | none => rfl
  | some p =>
    obtain ⟨g, hg, hlt⟩ := hpos p rfl
    have hp : p < gs.length := by
      by_contra hc
      rw [List.getElem?_eq_none (by omega)] at hg
      cases hg
    have hgp : gs[p] = g := by
      rw [List.getElem?_eq_getElem hp] at hg
      exact Option.some.inj hg
    simp only [mortarBlock, colPlaced, if_true]
    rw [blocks_grid_getD gs (sizeOf useFaces) dim p hp, hgp,
      mapCols_range' _ _ _ (kronI_col_lt i.mat dim _ hd hlt), Nat.mul_comm (sumMap _ gs) dim]

theorem sumMap_cells_mul (dim : Nat) (l : List Intf) :
    sumMap (fun i : Intf => i.cells * dim) l = dim * sumMap Intf.cells l := by
  rw [sumMap_eq_sum, sum_map_mul_right]

/-- hstack of the from-mortar blocks: block `k` sits at column offset `dim * (cells of the earlier interfaces)` -/
theorem hstack_from (gs : List G) (size : G → Nat) (dim : Nat) (side : Intf → Option Nat) (i0 : Intf)
    (rest : List Intf) :
    hstack ((i0 :: rest).map (fun i =>
        (⟨dim * sumMap size gs, i.cells * dim, rowPlaced gs size dim (side i) i⟩ : Mat))) =
      .ok ⟨dim * sumMap size gs, dim * sumMap Intf.cells (i0 :: rest),
        (List.range (i0 :: rest).length).flatMap (fun k =>
          match (i0 :: rest)[k]? with
          | some i =>
            (match side i with
             | some p => (kronI i.mat dim).map (fun t =>
                 (dim * sumMap size (gs.take p) + t.1,
                  dim * sumMap Intf.cells ((i0 :: rest).take k) + t.2.1, t.2.2))
             | none => [])
          | none => [])⟩ := by
  rw [hstack_map_ok (dim * sumMap size gs) _ i0 rest (fun _ _ => rfl), accFlat_eq]
  congr 2
  · exact sumMap_cells_mul dim (i0 :: rest)
  · congr 1
    funext k
    cases (i0 :: rest)[k]? with
    | none => rfl
    | some i =>
      simp only [rowPlaced, sumMap_cells_mul, Nat.zero_add]
      cases side i with
      | none => rfl
      | some p => simp [List.map_map, Function.comp_def]

theorem vstack_to (gs : List G) (size : G → Nat) (dim : Nat) (side : Intf → Option Nat) (i0 : Intf)
    (rest : List Intf) :
    vstack ((i0 :: rest).map (fun i =>
        (⟨i.cells * dim, dim * sumMap size gs, colPlaced gs size dim (side i) i⟩ : Mat))) =
      .ok ⟨dim * sumMap Intf.cells (i0 :: rest), dim * sumMap size gs,
        (List.range (i0 :: rest).length).flatMap (fun k =>
          match (i0 :: rest)[k]? with
          | some i =>
            (match side i with
             | some p => (kronI i.mat dim).map (fun t =>
                 (dim * sumMap Intf.cells ((i0 :: rest).take k) + t.1,
                  dim * sumMap size (gs.take p) + t.2.1, t.2.2))
             | none => [])
          | none => [])⟩ := by
  rw [vstack_map_ok (dim * sumMap size gs) _ i0 rest (fun _ _ => rfl), accFlat_eq]
  congr 2
  · exact sumMap_cells_mul dim (i0 :: rest)
  · congr 1
    funext k
    cases (i0 :: rest)[k]? with
    | none => rfl
    | some i =>
      simp only [colPlaced, sumMap_cells_mul, Nat.zero_add]
      cases side i with
      | none => rfl
      | some p => simp [List.map_map, Function.comp_def]

/-! ### boundary projection -/

theorem filterMap_range'_getElem? (off n : Nat) (l : List Nat) (h : ∀ c ∈ l, c < n) :
    l.filterMap (fun c => (List.range' off n)[c]?) = l.map (fun c => off + c) := by
  induction l with
  | nil => rfl
  | cons c cs ih =>
    have hc : c < n := h c (by simp)
    rw [List.filterMap_cons, List.getElem?_range' hc, ih (fun x hx => h x (List.mem_cons_of_mem _ hx))]
    simp

theorem expandNd_lt (ind : List Nat) (dim n : Nat) (hd : 0 < dim) (h : ∀ b ∈ ind, b < n) :
    ∀ c ∈ expandNd ind dim, c < dim * n := by
  intro c hc
  obtain ⟨b, hb, k, hk, rfl⟩ := (mem_expandNd ind dim c hd).mp hc
  have := h b hb
  calc dim * b + k < dim * b + dim := by omega
    _ = dim * (b + 1) := by ring
    _ ≤ dim * n := Nat.mul_le_mul_left _ (by omega)

theorem expandNd_nodup (ind : List Nat) (dim n : Nat) (hd : 0 < dim) (hnd : ind.Nodup)
    (h : ∀ b ∈ ind, b < n) : (expandNd ind dim).Nodup := by
  have hsub : ind <+~ List.range' 0 n := by
    apply List.subperm_of_subset hnd
    intro b hb
    rw [← List.range_eq_range']
    exact List.mem_range.mpr (h b hb)
  have := subperm_flatMap (fun i => (List.range dim).map (fun k => dim * i + k)) hsub
  rw [← expandNd_eq_flatMap _ _ hd, ← expandNd_eq_flatMap _ _ hd, expandNd_range' _ _ _ hd] at this
  exact nodup_of_subperm this (List.nodup_range' (step := 1))

/-- per-grid piece of the boundary index map, at face-dof offset `o` -/
def bPiece (dim : Nat) (o : Nat) (g : G) : List Nat :=
  if 0 < g.gdim then (expandNd g.bfaces dim).map (fun c => o + c) else []

theorem boundaryIdxAux_eq (dim : Nat) (hd : 0 < dim) (gs : List G) (off : Nat)
    (hb : ∀ g ∈ gs, ∀ b ∈ g.bfaces, b < g.faces) :
    boundaryIdxAux dim (blocks off (gs.map (fun g => dim * g.faces))) gs =
      accFlat (fun g => dim * g.faces) (bPiece dim) off gs := by
  induction gs generalizing off with
  | nil => rfl
  | cons g gs ih =>
    simp only [List.map_cons, blocks, boundaryIdxAux, accFlat]
    rw [ih _ (fun g' hg' => hb g' (List.mem_cons_of_mem _ hg'))]
    congr 1
    unfold boundaryIdxOf bPiece
    split
    · exact filterMap_range'_getElem? _ _ _ (expandNd_lt _ _ _ hd (hb g (by simp)))
    · rfl

theorem bPiece_props (dim : Nat) (hd : 0 < dim) (o : Nat) (g : G) (hnd : g.bfaces.Nodup)
    (hb : ∀ b ∈ g.bfaces, b < g.faces) :
    (bPiece dim o g).Nodup ∧ ∀ x ∈ bPiece dim o g, o ≤ x ∧ x < o + dim * g.faces := by
  unfold bPiece
  split
  · constructor
    · exact (expandNd_nodup _ _ _ hd hnd hb).map (fun a b hab => by simpa using hab)
    · intro x hx
      obtain ⟨c, hc, rfl⟩ := List.mem_map.mp hx
      have := expandNd_lt _ _ _ hd hb c hc
      omega
  · simp

theorem accFlat_bPiece_props (dim : Nat) (hd : 0 < dim) (gs : List G) (off : Nat)
    (h : ∀ g ∈ gs, g.bfaces.Nodup ∧ ∀ b ∈ g.bfaces, b < g.faces) :
    (accFlat (fun g => dim * g.faces) (bPiece dim) off gs).Nodup ∧
      ∀ x ∈ accFlat (fun g => dim * g.faces) (bPiece dim) off gs,
        off ≤ x ∧ x < off + dim * sumMap G.faces gs := by
  induction gs generalizing off with
  | nil => simp [accFlat]
  | cons g gs ih =>
    obtain ⟨hn1, hr1⟩ := bPiece_props dim hd off g (h g (by simp)).1 (h g (by simp)).2
    obtain ⟨hn2, hr2⟩ := ih (off + dim * g.faces) (fun g' hg' => h g' (List.mem_cons_of_mem _ hg'))
    simp only [accFlat, sumMap]
    constructor
    · rw [List.nodup_append]
      refine ⟨hn1, hn2, ?_⟩
      intro a ha b hb hab
      have := hr1 a ha
      have := hr2 b hb
      omega
    · intro x hx
      rw [Nat.mul_add]
      rcases List.mem_append.mp hx with hx | hx
      · have := hr1 x hx; omega
      · have := hr2 x hx; omega

/-! ### the triplet matrices act on vectors as the index maps say -/

theorem scatterAt_nil (g : Nat) (idx : List Nat) : scatterAt g idx [] = 0 := by
  cases idx <;> rfl

theorem rowDot_colTrips (g : Nat) (w : List Rat) (j : Nat) (idx : List Nat) :
    rowDot g w (colTrips j idx) = scatterAt g idx (w.drop j) := by
  induction idx generalizing j with
  | nil => cases h : w.drop j <;> rfl
  | cons i is ih =>
    simp only [colTrips, rowDot, ih]
    by_cases hj : j < w.length
    · rw [List.drop_eq_getElem_cons hj]
      simp [scatterAt, List.getD_eq_getElem?_getD, List.getElem?_eq_getElem hj]
    · have h1 : w.drop j = [] := List.drop_eq_nil_of_le (by omega)
      have h2 : w.drop (j + 1) = [] := List.drop_eq_nil_of_le (by omega)
      have h3 : w.getD j 0 = 0 := by
        simp [List.getD_eq_getElem?_getD, List.getElem?_eq_none (show w.length ≤ j by omega)]
      rw [h1, h2, h3, scatterAt_nil, scatterAt_nil]
      simp

theorem prolongMat_apply (n : Nat) (idx : List Nat) (w : List Rat) :
    (prolongMat n idx).apply w = prolongV n idx w := by
  simp [prolongMat, Mat.apply, prolongV, rowDot_colTrips]

theorem rowDot_swap_lt (r : Nat) (v : List Rat) (j : Nat) (idx : List Nat) (h : r < j) :
    rowDot r v ((colTrips j idx).map (fun t => (t.2.1, t.1, t.2.2))) = 0 := by
  induction idx generalizing j with
  | nil => rfl
  | cons i is ih =>
    have hne : ¬ j = r := by omega
    simp [colTrips, rowDot, hne, ih (j + 1) (by omega)]

theorem map_rowDot_swap (v : List Rat) (j : Nat) (idx : List Nat) :
    (List.range' j idx.length).map (fun r => rowDot r v ((colTrips j idx).map (fun t => (t.2.1, t.1, t.2.2)))) =
      idx.map (fun g => v.getD g 0) := by
  induction idx generalizing j with
  | nil => rfl
  | cons i is ih =>
    rw [List.length_cons, List.range'_succ, List.map_cons, List.map_cons]
    congr 1
    · simp [colTrips, rowDot, rowDot_swap_lt j v (j + 1) is (by omega)]
    · rw [← ih (j + 1)]
      apply List.map_congr_left
      intro r hr
      have : j + 1 ≤ r := (List.mem_range'_1.mp hr).1
      have hne : ¬ j = r := by omega
      simp [colTrips, rowDot, hne]

theorem restrictMat_apply (n : Nat) (idx : List Nat) (v : List Rat) :
    (restrictMat n idx).apply v = restrictV idx v := by
  have := map_rowDot_swap v 0 idx
  rw [← List.range_eq_range'] at this
  simpa [restrictMat, prolongMat, Mat.transpose, Mat.apply, restrictV] using this

/-! ### index map of a selection -/

theorem subIdx_blocks (ss : List Nat) (sel : List Nat) (hlt : ∀ i ∈ sel, i < ss.length) :
    subIdx (some (blocks 0 ss)) sel = .ok (sel.flatMap (fun i => (blocks 0 ss).getD i [])) := by
  have h := select_eq (blocks 0 ss) sel (by simpa [blocks_length] using hlt)
  simp only [subIdx, liftO, bind, Except.bind, h, pure, Except.pure]
  rw [List.flatMap_def]

theorem subIdx_keyError (ss : List Nat) (sel : List Nat) (i : Nat) (hi : i ∈ sel) (hge : ss.length ≤ i) :
    subIdx (some (blocks 0 ss)) sel = .error .keyError := by
  have h := select_none (blocks 0 ss) sel i hi (by simpa [blocks_length] using hge)
  simp only [subIdx, liftO, bind, Except.bind, h]

theorem flatMap_getElem? {α β : Type} (f : α → List β) (l : List α) (k t : Nat) (hk : k < l.length)
    (ht : t < (f l[k]).length) :
    (l.flatMap f)[sumMap (fun a => (f a).length) (l.take k) + t]? = (f l[k])[t]? := by
  induction l generalizing k with
  | nil => simp at hk
  | cons a l ih =>
    cases k with
    | zero =>
      simp only [List.take_zero, sumMap, Nat.zero_add, List.flatMap_cons, List.getElem_cons_zero] at ht ⊢
      rw [List.getElem?_append_left ht]
    | succ k =>
      simp only [List.take_succ_cons, sumMap, List.flatMap_cons, List.getElem_cons_succ] at ht ⊢
      rw [List.getElem?_append_right (by omega)]
      have : (f a).length + sumMap (fun a => (f a).length) (List.take k l) + t - (f a).length =
          sumMap (fun a => (f a).length) (List.take k l) + t := by omega
      rw [this]
      exact ih k (by simpa using hk) ht

/-! ### two running offsets (block diagonal placement) -/

def accFlat2 {α β : Type} (sa sb : α → Nat) (F : Nat → Nat → α → List β) : Nat → Nat → List α → List β
  | _, _, [] => []
  | a, b, x :: l => F a b x ++ accFlat2 sa sb F (a + sa x) (b + sb x) l

theorem accFlat2_eq {α β : Type} (sa sb : α → Nat) (F : Nat → Nat → α → List β) (a b : Nat) (l : List α) :
    accFlat2 sa sb F a b l = (List.range l.length).flatMap (fun k =>
      match l[k]? with
      | some x => F (a + sumMap sa (l.take k)) (b + sumMap sb (l.take k)) x
      | none => []) := by
  induction l generalizing a b with
  | nil => rfl
  | cons x l ih =>
    rw [accFlat2, ih, List.length_cons, List.range_succ_eq_map, List.flatMap_cons, List.flatMap_map]
    simp [sumMap, Nat.add_assoc]

theorem sumMap_congr {α : Type} (f g : α → Nat) (l : List α) (h : ∀ a ∈ l, f a = g a) :
    sumMap f l = sumMap g l := by
  induction l with
  | nil => rfl
  | cons a l ih =>
    simp only [sumMap]
    rw [h a (by simp), ih (fun b hb => h b (List.mem_cons_of_mem _ hb))]

theorem sumMap_mul_left {α : Type} (f : α → Nat) (d : Nat) (l : List α) :
    sumMap (fun a => d * f a) l = d * sumMap f l := by
  rw [sumMap_eq_sum, sum_map_mul_left]

theorem sumMap_mul_right {α : Type} (f : α → Nat) (d : Nat) (l : List α) :
    sumMap (fun a => f a * d) l = d * sumMap f l := by
  rw [sumMap_eq_sum, sum_map_mul_right]

theorem sumMap_zip_fst {α β : Type} (f : α → Nat) (l₁ : List α) (l₂ : List β) (h : l₁.length ≤ l₂.length) :
    sumMap (fun x => f x.1) (l₁.zip l₂) = sumMap f l₁ := by
  induction l₁ generalizing l₂ with
  | nil => rfl
  | cons a l₁ ih =>
    cases l₂ with
    | nil => simp at h
    | cons b l₂ =>
      simp only [List.zip_cons_cons, sumMap]
      rw [ih l₂ (by simpa using h)]

theorem sumMap_take_zip_fst {α β : Type} (f : α → Nat) (l₁ : List α) (l₂ : List β) (k : Nat)
    (h : l₁.length = l₂.length) :
    sumMap (fun x => f x.1) ((l₁.zip l₂).take k) = sumMap f (l₁.take k) := by
  have : (l₁.zip l₂).take k = (l₁.take k).zip (l₂.take k) := by
    simp only [List.zip, List.take_zipWith]
  rw [this]
  apply sumMap_zip_fst
  simp [List.length_take, h]

theorem blockDiagAux_eq (ro co : Nat) (ms : List Mat) :
    blockDiagAux ro co ms = (ro + sumMap Mat.nr ms, co + sumMap Mat.nc ms,
      accFlat2 Mat.nr Mat.nc (fun a b m => m.tr.map (fun t => (a + t.1, b + t.2.1, t.2.2))) ro co ms) := by
  induction ms generalizing ro co with
  | nil => rfl
  | cons m ms ih => simp [blockDiagAux, ih, accFlat2, sumMap, Nat.add_assoc]

theorem accFlat2_map_list {α β γ : Type} (sa sb : α → Nat) (F : Nat → Nat → α → List β) (g : γ → α)
    (a b : Nat) (l : List γ) :
    accFlat2 sa sb F a b (l.map g) =
      accFlat2 (fun c => sa (g c)) (fun c => sb (g c)) (fun x y c => F x y (g c)) a b l := by
  induction l generalizing a b with
  | nil => rfl
  | cons x l ih => simp [accFlat2, ih]

/-! ### Trace: local traces stacked, columns through the cell projections -/

/-- the list of blocks `Trace.__init__` stacks, for projections `blocks co (sizes)` -/
def traceBlocks (total : Nat) (co : Nat) (gs : List G) (locals : List (List Trip)) : List Mat :=
  (gs.zip ((blocks co (gs.map (fun g => 1 * g.cells))).zip locals)).map
    (fun x => ⟨x.1.faces, total, mapCols x.2.1 x.2.2⟩)

theorem traceBlocks_cons (total co : Nat) (g : G) (gs : List G) (L : List Trip) (ls : List (List Trip)) :
    traceBlocks total co (g :: gs) (L :: ls) =
      ⟨g.faces, total, mapCols (List.range' co (1 * g.cells)) L⟩ :: traceBlocks total (co + 1 * g.cells) gs ls := rfl

theorem traceBlocks_nc (total co : Nat) (gs : List G) (locals : List (List Trip)) :
    ∀ m ∈ traceBlocks total co gs locals, m.nc = total := by
  intro m hm
  obtain ⟨x, _, rfl⟩ := List.mem_map.mp hm
  rfl

theorem traceBlocks_nr (total co : Nat) (gs : List G) (locals : List (List Trip))
    (h : gs.length = locals.length) :
    sumMap Mat.nr (traceBlocks total co gs locals) = sumMap G.faces gs := by
  induction gs generalizing co locals with
  | nil => rfl
  | cons g gs ih =>
    cases locals with
    | nil => simp at h
    | cons L ls =>
      rw [traceBlocks_cons]
      simp only [sumMap]
      rw [ih _ ls (by simpa using h)]

theorem traceBlocks_acc (total ro co : Nat) (gs : List G) (locals : List (List Trip))
    (h : gs.length = locals.length) (hfit : ∀ x ∈ gs.zip locals, ∀ t ∈ x.2, t.2.1 < x.1.cells) :
    accFlat Mat.nr (fun o m => m.tr.map (fun t => (o + t.1, t.2.1, t.2.2))) ro (traceBlocks total co gs locals) =
      accFlat2 (fun x : G × List Trip => x.1.faces) (fun x => x.1.cells)
        (fun a b x => x.2.map (fun t => (a + t.1, b + t.2.1, t.2.2))) ro co (gs.zip locals) := by
  induction gs generalizing ro co locals with
  | nil => rfl
  | cons g gs ih =>
    cases locals with
    | nil => simp at h
    | cons L ls =>
      rw [traceBlocks_cons]
      simp only [List.zip_cons_cons, accFlat, accFlat2, Nat.one_mul]
      rw [ih _ _ ls (by simpa using h) (fun x hx => hfit x (by simp [hx]))]
      rw [mapCols_range' _ _ _ (hfit (g, L) (by simp))]
      simp [List.map_map, Function.comp_def]

/-! ### when the offset loop raises -/

theorem projAux_none_iff (dim : Nat) (hd : 0 < dim) (l : List (Nat × Bool)) (off : Nat) :
    projAux dim off l = none ↔ ∃ p ∈ l, p.2 = true ∧ p.1 = 0 := by
  induction l generalizing off with
  | nil => simp [projAux]
  | cons p rest ih =>
    obtain ⟨n, upd⟩ := p
    have hind : (expandNd (List.range n) dim).map (off + ·) = List.range' off (dim * n) := by
      rw [List.range_eq_range', expandNd_range' 0 n dim hd, List.map_add_range']
      simp
    simp only [projAux, hind]
    cases upd with
    | false =>
      simp only [Bool.false_eq_true, if_false, Option.map_eq_none_iff, ih, List.mem_cons]
      constructor
      · rintro ⟨q, hq, h⟩; exact ⟨q, Or.inr hq, h⟩
      · rintro ⟨q, hq | hq, h⟩
        · subst hq; simp at h
        · exact ⟨q, hq, h⟩
    | true =>
      by_cases hn : n = 0
      · subst hn
        simp
      · have hpos : dim * n ≠ 0 := Nat.mul_ne_zero (by omega) hn
        simp only [if_true, List.getLast?_range', if_neg hpos, Option.map_eq_none_iff, ih, List.mem_cons]
        constructor
        · rintro ⟨q, hq, h⟩; exact ⟨q, Or.inr hq, h⟩
        · rintro ⟨q, hq | hq, h⟩
          · subst hq; exact absurd h.2 hn
          · exact ⟨q, hq, h⟩

theorem projAux_length (dim : Nat) (l : List (Nat × Bool)) (off : Nat) (r : List (List Nat))
    (h : projAux dim off l = some r) : r.length = l.length := by
  induction l generalizing off r with
  | nil => simp [projAux] at h; subst h; rfl
  | cons p rest ih =>
    obtain ⟨n, upd⟩ := p
    simp only [projAux] at h
    split at h
    · split at h
      · cases h
      · obtain ⟨r', hr', rfl⟩ := Option.map_eq_some_iff.mp h
        simp [ih _ _ hr']
    · obtain ⟨r', hr', rfl⟩ := Option.map_eq_some_iff.mp h
      simp [ih _ _ hr']

theorem subIdx_ok_of_lt (projs : List (List Nat)) (sel : List Nat) (h : ∀ i ∈ sel, i < projs.length) :
    subIdx (some projs) sel = .ok ((sel.map (fun i => projs.getD i [])).flatten) := by
  simp only [subIdx, liftO, bind, Except.bind, select_eq projs sel h, pure, Except.pure]

theorem subIdx_keyError_of_ge (projs : List (List Nat)) (sel : List Nat) (i : Nat) (hi : i ∈ sel)
    (hge : projs.length ≤ i) : subIdx (some projs) sel = .error .keyError := by
  simp only [subIdx, liftO, bind, Except.bind, select_none projs sel i hi hge]

theorem subIdx_none (sel : List Nat) : subIdx none sel = .error .indexError := rfl

/-! ### sign of mortar sides -/

theorem signOf_length (dim : Nat) (i : Intf) (h : i.sides = 1 ∨ i.left + i.right = i.cells) :
    (signOf dim i).length = i.cells * dim := by
  unfold signOf
  split
  · simp
  · rcases h with h | h
    · contradiction
    · simp [← h, Nat.add_mul]

theorem signOf_getElem? (dim : Nat) (i : Intf) (h : i.sides = 1 ∨ i.left + i.right = i.cells) (j : Nat)
    (hj : j < i.cells * dim) :
    (signOf dim i)[j]? = some (if i.sides = 1 then 1 else if j < i.left * dim then -1 else 1) := by
  unfold signOf
  split
  · next h1 => simp [hj]
  · next h1 =>
    have h2 : i.left + i.right = i.cells := by
      rcases h with h | h
      · contradiction
      · exact h
    rw [List.getElem?_append]
    simp only [List.length_replicate]
    split
    · next hlt => simp [hlt]
    · next hge =>
      have : j - i.left * dim < i.right * dim := by
        rw [← h2, Nat.add_mul] at hj
        omega
      simp [this]

theorem signOf_mem (dim : Nat) (i : Intf) (x : Rat) (hx : x ∈ signOf dim i) : x = 1 ∨ x = -1 := by
  unfold signOf at hx
  split at hx
  · exact Or.inl (List.eq_of_mem_replicate hx)
  · rcases List.mem_append.mp hx with h | h
    · exact Or.inr (List.eq_of_mem_replicate h)
    · exact Or.inl (List.eq_of_mem_replicate h)

theorem sumMap_map {α β : Type} (f : β → Nat) (g : α → β) (l : List α) :
    sumMap f (l.map g) = sumMap (fun a => f (g a)) l := by
  induction l with
  | nil => rfl
  | cons a l ih => simp [sumMap, ih]

theorem bind_pure_error {α β : Type} (x : Except Err α) (f : α → β) (e : Err) :
    (do let a ← x; pure (f a) : Except Err β) = .error e ↔ x = .error e := by
  cases x <;> simp [bind, Except.bind, pure, Except.pure]

theorem bind_pure_ok {α β : Type} (x : Except Err α) (f : α → β) :
    (∃ m, (do let a ← x; pure (f a) : Except Err β) = .ok m) ↔ ∃ a, x = .ok a := by
  cases x <;> simp [bind, Except.bind, pure, Except.pure]

theorem subIdx_char (projs : Option (List (List Nat))) (n : Nat)
    (hlen : ∀ r, projs = some r → r.length = n) (sel : List Nat) :
    (subIdx projs sel = .error .indexError ↔ projs = none) ∧
      (subIdx projs sel = .error .keyError ↔ projs ≠ none ∧ ∃ i ∈ sel, n ≤ i) ∧
      ((∃ idx, subIdx projs sel = .ok idx) ↔ projs ≠ none ∧ ∀ i ∈ sel, i < n) := by
  cases projs with
  | none => simp [subIdx_none]
  | some r =>
    have hr : r.length = n := hlen r rfl
    by_cases hall : ∀ i ∈ sel, i < r.length
    · rw [subIdx_ok_of_lt r sel hall]
      refine ⟨by simp, ?_, ?_⟩
      · constructor
        · intro h; cases h
        · rintro ⟨_, i, hi, hge⟩
          have := hall i hi
          omega
      · constructor
        · intro _; exact ⟨by simp, fun i hi => hr ▸ hall i hi⟩
        · intro _; exact ⟨_, rfl⟩
    · have : ∃ i ∈ sel, r.length ≤ i := by
        by_contra hc
        apply hall
        intro i hi
        by_contra hlt
        exact hc ⟨i, hi, by omega⟩
      obtain ⟨i, hi, hge⟩ := this
      rw [subIdx_keyError_of_ge r sel i hi hge]
      refine ⟨by simp, ?_, ?_⟩
      · constructor
        · intro _; exact ⟨by simp, i, hi, hr ▸ hge⟩
        · intro _; rfl
      · constructor
        · rintro ⟨idx, h⟩; cases h
        · rintro ⟨_, h⟩
          have := h i hi
          omega

/-! ### np.where on the boundary tag mask; argument checks -/

theorem whereTrue_props (i : Nat) (mask : List Bool) :
    (whereTrue i mask).Pairwise (· < ·) ∧ ∀ b ∈ whereTrue i mask, i ≤ b ∧ b < i + mask.length := by
  induction mask generalizing i with
  | nil => simp [whereTrue]
  | cons c cs ih =>
    obtain ⟨hp, hr⟩ := ih (i + 1)
    have hr' : ∀ b ∈ whereTrue (i + 1) cs, i ≤ b ∧ b < i + (c :: cs).length := by
      intro b hb
      have := hr b hb
      simp only [List.length_cons]
      omega
    cases c with
    | false => simpa [whereTrue] using ⟨hp, hr'⟩
    | true =>
      simp only [whereTrue, if_true, List.pairwise_cons, List.mem_cons]
      refine ⟨⟨fun b hb => by have := hr b hb; omega, hp⟩, ?_⟩
      rintro b (rfl | hb)
      · simp
      · exact hr' b hb

theorem setLen_le (l : List Nat) : setLen l ≤ l.length := by
  induction l with
  | nil => simp [setLen]
  | cons c l ih =>
    simp only [setLen, List.length_cons]
    split <;> omega

theorem setLen_lt_iff (l : List Nat) : setLen l < l.length ↔ ¬ l.Nodup := by
  induction l with
  | nil => simp [setLen]
  | cons c l ih =>
    have hle := setLen_le l
    simp only [setLen, List.length_cons, List.nodup_cons]
    split
    · next h => simp [h]; omega
    · next h =>
      simp only [h, not_false_eq_true, true_and]
      rw [← ih]
      omega

end PorepyVerif.C27
