/-
C27 — helper lemmas (property theorems are in Props.lean).
-/
import Mathlib.Data.List.Perm.Basic
import Mathlib.Data.List.Perm.Subperm
import Mathlib.Data.List.Nodup
import Mathlib.Data.List.Flatten
import Mathlib.Tactic.Ring
import PorepyVerif.C27.Model

namespace PorepyVerif.C27
open List

/-! ### expand_indices_nd -/

theorem map_mul_add_range (dim a : Nat) :
    (List.range dim).map (fun k => dim * a + k) = List.range' (dim * a) dim := by
  rw [List.range_eq_range', List.map_add_range']
  simp

/-- for `nd ≥ 1` the `nd = 1` shortcut of the code is not a special case -/
theorem expandNd_eq_flatMap (ind : List Nat) (dim : Nat) (hd : 0 < dim) :
    expandNd ind dim = ind.flatMap (fun i => (List.range dim).map (fun k => dim * i + k)) := by
  unfold expandNd
  split
  · next h =>
    subst h
    induction ind with
    | nil => rfl
    | cons a l ih => simp [List.flatMap_cons, ← ih]
  · rfl

theorem expandNd_range' (a n dim : Nat) (hd : 0 < dim) :
    expandNd (List.range' a n) dim = List.range' (dim * a) (dim * n) := by
  rw [expandNd_eq_flatMap _ _ hd]
  induction n generalizing a with
  | zero => simp
  | succ n ih =>
    rw [List.range'_succ, List.flatMap_cons, ih, map_mul_add_range]
    have h1 : dim * (a + 1) = dim * a + 1 * dim := by ring
    have h2 : dim * (n + 1) = dim + dim * n := by ring
    rw [h1, h2, List.range'_append]

theorem expandNd_length (ind : List Nat) (dim : Nat) (hd : 0 < dim) :
    (expandNd ind dim).length = ind.length * dim := by
  rw [expandNd_eq_flatMap _ _ hd]
  induction ind with
  | nil => simp
  | cons a l ih =>
    rw [List.flatMap_cons, List.length_append, ih]
    simp
    ring

theorem expandNd_getElem? (ind : List Nat) (dim j k : Nat) (hj : j < ind.length) (hk : k < dim) :
    (expandNd ind dim)[j * dim + k]? = some (dim * ind[j] + k) := by
  have hd : 0 < dim := by omega
  rw [expandNd_eq_flatMap _ _ hd]
  induction ind generalizing j with
  | nil => simp at hj
  | cons a l ih =>
    rw [List.flatMap_cons, List.getElem?_append]
    cases j with
    | zero => simp [hk]
    | succ j =>
      have hlen : ((List.range dim).map (fun k => dim * a + k)).length = dim := by simp
      have hge : ¬ ((j + 1) * dim + k < dim) := by
        have : (j + 1) * dim = j * dim + dim := by ring
        omega
      rw [hlen, if_neg hge]
      have : (j + 1) * dim + k - dim = j * dim + k := by
        have : (j + 1) * dim = j * dim + dim := by ring
        omega
      rw [this, ih j (by simpa using hj)]
      simp

theorem mem_expandNd (ind : List Nat) (dim g : Nat) (hd : 0 < dim) :
    g ∈ expandNd ind dim ↔ ∃ i ∈ ind, ∃ k, k < dim ∧ g = dim * i + k := by
  rw [expandNd_eq_flatMap _ _ hd]
  simp only [List.mem_flatMap, List.mem_map, List.mem_range]
  constructor
  · rintro ⟨i, hi, k, hk, rfl⟩; exact ⟨i, hi, k, hk, rfl⟩
  · rintro ⟨i, hi, k, hk, rfl⟩; exact ⟨i, hi, k, hk, rfl⟩

/-! ### the offset loop computes consecutive blocks -/

theorem projAux_eq_blocks (dim : Nat) (hd : 0 < dim) (l : List (Nat × Bool)) (off : Nat)
    (h : ∀ p ∈ l, (p.2 = true → 0 < p.1) ∧ (p.2 = false → p.1 = 0)) :
    projAux dim off l = some (blocks off (l.map (fun p => dim * p.1))) := by
  induction l generalizing off with
  | nil => rfl
  | cons p rest ih =>
    obtain ⟨n, upd⟩ := p
    have hp := h (n, upd) (by simp)
    have hrest : ∀ q ∈ rest, (q.2 = true → 0 < q.1) ∧ (q.2 = false → q.1 = 0) :=
      fun q hq => h q (List.mem_cons_of_mem _ hq)
    have hind : (expandNd (List.range n) dim).map (off + ·) = List.range' off (dim * n) := by
      rw [List.range_eq_range', expandNd_range' 0 n dim hd, List.map_add_range']
      simp
    simp only [projAux, hind, List.map_cons, blocks]
    cases upd with
    | true =>
      have hn : 0 < n := hp.1 rfl
      have hpos : dim * n ≠ 0 := Nat.mul_ne_zero (by omega) (by omega)
      have hpos' : 0 < dim * n := Nat.pos_of_ne_zero hpos
      simp only [List.getLast?_range', if_neg hpos, if_true]
      have : off + dim * n - 1 + 1 = off + dim * n := by omega
      rw [this, ih _ hrest]
      rfl
    | false =>
      have hn : n = 0 := hp.2 rfl
      subst hn
      simp [ih _ hrest]

/-! ### blocks -/

theorem blocks_length (off : Nat) (ss : List Nat) : (blocks off ss).length = ss.length := by
  induction ss generalizing off with
  | nil => rfl
  | cons s ss ih => simp [blocks, ih]

theorem blocks_getElem? (off : Nat) (ss : List Nat) (i : Nat) (h : i < ss.length) :
    (blocks off ss)[i]? = some (List.range' (off + (ss.take i).sum) ss[i]) := by
  induction ss generalizing off i with
  | nil => simp at h
  | cons s ss ih =>
    cases i with
    | zero => simp [blocks]
    | succ i =>
      simp only [blocks, List.getElem?_cons_succ, List.take_succ_cons, List.sum_cons, List.getElem_cons_succ]
      rw [ih (off + s) i (by simpa using h), Nat.add_assoc]

theorem blocks_flatten (off : Nat) (ss : List Nat) :
    (blocks off ss).flatten = List.range' off ss.sum := by
  induction ss generalizing off with
  | nil => simp [blocks]
  | cons s ss ih =>
    simp only [blocks, List.flatten_cons, List.sum_cons, ih]
    have := @List.range'_append off s ss.sum 1
    simpa using this

theorem blocks_mul (dim off : Nat) (ss : List Nat) (hd : 0 < dim) :
    blocks (dim * off) (ss.map (fun s => dim * s)) = (blocks off ss).map (fun b => expandNd b dim) := by
  induction ss generalizing off with
  | nil => rfl
  | cons s ss ih =>
    simp only [List.map_cons, blocks, expandNd_range' _ _ _ hd]
    have : dim * off + dim * s = dim * (off + s) := by ring
    rw [this, ih]

end PorepyVerif.C27
