/- C27 line-protocol driver: `lake env lean --run PorepyVerif/C27/Driver.lean` -/
import PorepyVerif.Common.Wire
import PorepyVerif.C27.Model
open Lean PV PorepyVerif.C27

/-- state: the subdomain list handed to the projection object (grid data + ids) and `dim` -/
structure St where
  gs : List G := []
  ids : List Nat := []
  dim : Nat := 1
  tagsOk : Bool := true
  mortarHyps : List Bool := []
  signHyp : Bool := true

def jTrip (j : Json) : R Trip :=
  match j with
  | .arr a =>
    match a.toList with
    | [r, c, v] => do pure ((← jNat r), (← jNat c), (← jRat v))
    | _ => throw s!"not a triplet: {j.compress}"
  | _ => throw s!"not a triplet: {j.compress}"

/-- grid data; boundary faces come as the tag mask (0/1 per face) and are extracted by the model's `whereTrue`;
    the flag says whether the mask has one entry per face -/
def jG (j : Json) : R (G × Bool) := do
  let faces ← fNat j "faces"
  let mask := (← fNats j "btags").map (fun b => b != 0)
  pure (⟨← fNat j "cells", faces, ← fNat j "gdim", whereTrue 0 mask⟩, mask.length == faces || mask.isEmpty)

def jIntf (j : Json) : R Intf := do
  let prim ← jOpt jNat (fieldD j "prim" .null)
  let sec ← jOpt jNat (fieldD j "sec" .null)
  let mat ← jList jTrip (fieldD j "mat" (.arr #[]))
  pure ⟨← fNat j "cells", ← fNat j "codim", prim, sec, mat, ← fNat j "sides", ← fNat j "left", ← fNat j "right"⟩

def ofTrip (t : Trip) : Json := .arr #[ofNat t.1, ofNat t.2.1, ofRat t.2.2]

def ofMat (m : Mat) : Json := obj [("shape", ofNats [m.nr, m.nc]), ("trip", ofList ofTrip m.tr)]

def errName : Err → String
  | .valueError => "ValueError"
  | .keyError => "KeyError"
  | .indexError => "IndexError"
  | .notImplemented => "NotImplementedError"

def ofRes : Except Err Mat → Json
  | .ok m => ofMat m
  | .error e => err (errName e)

def step (st : St) (j : Json) : R (St × Json) := do
  let op ← fStr j "op"
  match op with
  | "init" =>
    let gts ← (field j "grids" >>= jList jG)
    let gs := gts.map (·.1)
    let ids ← fNats j "ids"
    let dim ← fNat j "dim"
    if ids.length != gs.length then throw "ids/grids length mismatch" else
    let unique ← fBool j "unique"
    -- SubdomainProjections.__init__ : `len(set(subdomains)) < len(subdomains)` → ValueError
    match (if unique then ctorCheck ids else .ok ()) with
    | .error e => pure (st, err (errName e))
    | .ok _ => pure ({ gs := gs, ids := ids, dim := dim, tagsOk := gts.all (·.2) }, Json.str "ok")
  | "sub" =>
    let kind ← fStr j "kind"
    let sel ← fNats j "sel"
    -- dictionary look-up by grid: position of the id in the list (a missing id → past the end → KeyError)
    let pos := sel.map (fun i => st.ids.idxOf i)
    let isList := !(← jBool (fieldD j "as_tuple" (.bool false)))
    match kind with
    | "cell_prolongation" => pure (st, ofRes (subCall false false isList st.gs st.dim pos))
    | "cell_restriction" => pure (st, ofRes (subCall true false isList st.gs st.dim pos))
    | "face_prolongation" => pure (st, ofRes (subCall false true isList st.gs st.dim pos))
    | "face_restriction" => pure (st, ofRes (subCall true true isList st.gs st.dim pos))
    | _ => throw s!"unknown kind {kind}"
  | "mortar" =>
    let intfs ← (field j "intfs" >>= jList jIntf)
    let toMortar ← fBool j "to_mortar"
    let isPrimary ← fBool j "is_primary"
    pure ({ st with mortarHyps := st.mortarHyps ++ [hypMortar st.gs intfs toMortar isPrimary] },
      ofRes (constructProjection st.gs st.dim intfs toMortar isPrimary))
  | "sign" =>
    let intfs ← (field j "intfs" >>= jList jIntf)
    pure ({ st with signHyp := hypSign intfs }, ofRats (signDiag st.dim intfs))
  | "hyps" =>
    pure (st, obj [("grids", .bool (hypGrids st.gs && st.tagsOk)), ("dim", .bool (decide (0 < st.dim))),
                   ("mortar", ofList Json.bool st.mortarHyps), ("sign", .bool st.signHyp)])
  | "boundary" =>
    match boundaryProjection st.gs st.dim with
    | .ok m => pure (st, obj [("s2b", ofMat m), ("b2s", ofMat m.transpose)])
    | .error e => pure (st, err (errName e))
  | "trace" =>
    let locals ← (field j "locals" >>= jList (jList jTrip))
    pure (st, ofRes (traceMat st.gs st.dim locals))
  | "divergence" =>
    let locals ← (field j "locals" >>= jList (jList jTrip))
    pure (st, ofMat (divergenceMat st.gs st.dim locals))
  | _ => throw s!"unknown op {op}"

def main : IO Unit := runDriver ({} : St) step
