/-
C25 — helper lemmas (the property theorems are in Props.lean).
-/
import PorepyVerif.C25.Model
import Mathlib.Algebra.Order.Field.Rat
import Mathlib.Tactic.Linarith
import Mathlib.Tactic.Ring

namespace PorepyVerif.C25

/-! ### finite sums -/

theorem sumTo_congr {n : Nat} {F G : Nat → Nat} (h : ∀ g, g < n → F g = G g) :
    sumTo n F = sumTo n G := by
  induction n with
  | zero => rfl
  | succ n ih =>
    simp only [sumTo]
    rw [ih (fun g hg => h g (Nat.lt_succ_of_lt hg)), h n (Nat.lt_succ_self n)]

theorem sumTo_add_fun (n : Nat) (F G : Nat → Nat) :
    sumTo n (fun g => F g + G g) = sumTo n F + sumTo n G := by
  induction n with
  | zero => rfl
  | succ n ih => simp only [sumTo, ih]; omega

theorem sumTo_add (a b : Nat) (F : Nat → Nat) :
    sumTo (a + b) F = sumTo a F + sumTo b (fun p => F (a + p)) := by
  induction b with
  | zero => simp [sumTo]
  | succ b ih =>
    have : a + (b + 1) = (a + b) + 1 := by omega
    rw [this]
    simp only [sumTo, ih]; omega

theorem sumTo_zero_fun (n : Nat) : sumTo n (fun _ => 0) = 0 := by
  induction n with
  | zero => rfl
  | succ n ih => simp [sumTo, ih]

theorem sumTo_const (n c : Nat) : sumTo n (fun _ => c) = n * c := by
  induction n with
  | zero => simp [sumTo]
  | succ n ih => simp only [sumTo, ih, Nat.succ_mul]

theorem sumTo_ind (n a v : Nat) :
    sumTo n (fun g => if g = a then v else 0) = if a < n then v else 0 := by
  induction n with
  | zero => simp [sumTo]
  | succ n ih =>
    simp only [sumTo, ih]
    by_cases h1 : a < n
    · have : ¬ n = a := by omega
      have h2 : a < n + 1 := by omega
      simp [h1, h2, this]
    · by_cases h2 : n = a
      · subst h2; simp
      · have h3 : ¬ a < n + 1 := by omega
        simp [h1, h2, h3]

theorem sumTo_succ_front (n : Nat) (F : Nat → Nat) :
    sumTo (n + 1) F = F 0 + sumTo n (fun p => F (p + 1)) := by
  induction n with
  | zero => simp [sumTo]
  | succ n ih =>
    rw [sumTo, ih]
    simp only [sumTo]; omega

theorem sumTo_getD (ids : List Nat) (h : Nat → Nat) :
    sumTo ids.length (fun p => h (ids.getD p 0)) = (ids.map h).sum := by
  induction ids with
  | nil => rfl
  | cons a t ih =>
    rw [List.length_cons, sumTo_succ_front]
    simp only [List.getD_cons_zero, List.getD_cons_succ, List.map_cons, List.sum_cons, ih]

theorem sumTo_mem (ids : List Nat) (hnd : ids.Nodup) (n : Nat) (h : Nat → Nat)
    (hz : ∀ g ∈ ids, n ≤ g → h g = 0) :
    sumTo n (fun g => if g ∈ ids then h g else 0) = (ids.map h).sum := by
  induction ids with
  | nil => simp [sumTo_zero_fun]
  | cons a t ih =>
    rw [List.nodup_cons] at hnd
    have hpt : ∀ g, (if g ∈ a :: t then h g else 0)
        = (if g = a then h a else 0) + (if g ∈ t then h g else 0) := by
      intro g
      by_cases hga : g = a
      · subst hga; simp [hnd.1]
      · simp [hga]
    rw [show (fun g => if g ∈ a :: t then h g else 0)
        = (fun g => (if g = a then h a else 0) + (if g ∈ t then h g else 0)) from funext hpt]
    rw [sumTo_add_fun, sumTo_ind, ih hnd.2 (fun g hg => hz g (List.mem_cons_of_mem _ hg))]
    simp only [List.map_cons, List.sum_cons]
    by_cases han : a < n
    · simp [han]
    · have := hz a (List.mem_cons_self) (by omega)
      simp [han, this]

/-! ### basic facts about the set of duplicated faces -/

theorem mem_fracFaces (s : Host) (i g : Nat) :
    g ∈ s.fracFaces i ↔ g < s.fcCols ∧ (s.fc i g).isSome = true := by
  simp [Host.fracFaces]

theorem mem_ids (s : Host) (i g : Nat) :
    g ∈ s.ids i ↔ g < s.fcCols ∧ (s.fc i g).isSome = true ∧ s.rem g = false := by
  simp [Host.ids, mem_fracFaces, and_assoc]

theorem nodup_ids (s : Host) (i : Nat) : (s.ids i).Nodup := by
  unfold Host.ids Host.fracFaces
  exact ((List.nodup_range).filter _).filter _

/-! ### the branches of `splitOne` -/

theorem splitOne_cases {s s' : Host} {i : Nat} (h : splitOne s i = .ok s') :
    (s' = s.tagOnly i ∧ (s.ids i).length = 0) ∨ (s' = s.boundary i ∧ (s.ids i).length ≠ 0) ∨
    (s' = s.split i ∧ (s.ids i).length ≠ 0 ∧ s.nLeft i = (s.ids i).length) := by
  unfold splitOne at h
  split at h
  · left; injection h with h; exact ⟨h.symm, by assumption⟩
  · split at h
    · right; left; injection h with h; exact ⟨h.symm, by assumption⟩
    · split at h
      · cases h
      · split at h
        · cases h
        · right; right; injection h with h
          refine ⟨h.symm, by assumption, ?_⟩
          rename_i h4
          exact Decidable.not_not.mp h4

/-- length of a list = left part + right part (w.r.t. any boolean flag) -/
theorem length_filter_split (p q : Inc → Bool) (L : List Inc) :
    (L.filter q).length = ((L.filter p).filter q).length + ((L.filter (fun a => !p a)).filter q).length := by
  induction L with
  | nil => rfl
  | cons a L ih =>
    by_cases hp : p a <;> by_cases hq : q a <;> simp [hp, hq, ih] <;> omega

theorem faceCount_split (s : Host) (i c : Nat) (hwf : s.RowsWF) :
    (s.split i).faceCount c = s.faceCount c := by
  let cnt : Nat → Nat := fun g => ((s.inc g).filter (fun a => a.cell = c)).length
  let cntL : Nat → Nat := fun g => (((s.inc g).filter (·.left)).filter (fun a => a.cell = c)).length
  let cntR : Nat → Nat := fun g => (((s.inc g).filter (fun a => !a.left)).filter (fun a => a.cell = c)).length
  have hsplit : ∀ g, cnt g = cntL g + cntR g := fun g => length_filter_split (·.left) _ _
  have hzero : ∀ g ∈ s.ids i, s.nF ≤ g → cntL g = 0 := by
    intro g _ hg
    simp [cntL, hwf g hg]
  show sumTo (s.nF + (s.ids i).length) _ = sumTo s.nF _
  rw [sumTo_add]
  -- the old faces
  have hold : sumTo s.nF (fun g => (((s.split i).inc g).filter (fun a => a.cell = c)).length)
      + sumTo s.nF (fun g => if g ∈ s.ids i then cntL g else 0) = sumTo s.nF cnt := by
    rw [← sumTo_add_fun]
    apply sumTo_congr
    intro g hg
    simp only [Host.split, if_pos hg]
    by_cases hm : g ∈ s.ids i
    · simp only [if_pos hm]; rw [hsplit g]; exact Nat.add_comm _ _
    · simp only [if_neg hm]; rfl
  -- the new faces
  have hnew : sumTo (s.ids i).length (fun p => (((s.split i).inc (s.nF + p)).filter (fun a => a.cell = c)).length)
      = sumTo s.nF (fun g => if g ∈ s.ids i then cntL g else 0) := by
    rw [sumTo_mem _ (nodup_ids s i) _ _ hzero, ← sumTo_getD]
    apply sumTo_congr
    intro p hp
    have h1 : ¬ s.nF + p < s.nF := by omega
    have h2 : s.nF + p < s.nF + (s.ids i).length := by omega
    simp only [Host.split, if_neg h1, if_pos h2, Host.src, Nat.add_sub_cancel_left, cntL]
  rw [hnew]
  exact hold

theorem rowsWF_split (s : Host) (i : Nat) (hwf : s.RowsWF) : (s.split i).RowsWF := by
  intro g hg
  have hg' : s.nF + (s.ids i).length ≤ g := hg
  have h1 : ¬ g < s.nF := by omega
  have h2 : ¬ g < s.nF + (s.ids i).length := by omega
  simp only [Host.split, if_neg h1, if_neg h2]
  exact hwf g (by omega)

theorem splitOne_faceCount {s s' : Host} {i : Nat} (h : splitOne s i = .ok s') (hwf : s.RowsWF) (c : Nat) :
    s'.faceCount c = s.faceCount c ∧ s'.RowsWF := by
  rcases splitOne_cases h with ⟨rfl, _⟩ | ⟨rfl, _⟩ | ⟨rfl, _⟩
  · exact ⟨rfl, hwf⟩
  · exact ⟨rfl, hwf⟩
  · exact ⟨faceCount_split s i c hwf, rowsWF_split s i hwf⟩

/-! ### the loop -/

theorem splitFrom_cons {s s' : Host} {i : Nat} {is : List Nat} (h : splitFrom s (i :: is) = .ok s') :
    ∃ s1, splitOne s i = .ok s1 ∧ splitFrom s1 is = .ok s' := by
  unfold splitFrom at h
  split at h
  · cases h
  · rename_i s1 h1; exact ⟨s1, h1, h⟩

theorem splitFrom_faceCount : ∀ (is : List Nat) (s s' : Host), splitFrom s is = .ok s' → s.RowsWF →
    ∀ c, s'.faceCount c = s.faceCount c := by
  intro is
  induction is with
  | nil => intro s s' h _ c; injection h with h; subst h; rfl
  | cons i is ih =>
    intro s s' h hwf c
    obtain ⟨s1, h1, h2⟩ := splitFrom_cons h
    have := splitOne_faceCount h1 hwf c
    rw [ih s1 s' h2 this.2 c, this.1]

/-! ### alignment of face indices and face_cells columns -/

theorem splitOne_gap {s s' : Host} {i : Nat} (h : splitOne s i = .ok s') (hle : s.nF ≤ s.fcCols) :
    s'.nF ≤ s'.fcCols ∧ s.fcCols - s.nF ≤ s'.fcCols - s'.nF ∧
    (s'.fcCols = s'.nF → s' = s.tagOnly i ∨ s' = s.split i) := by
  rcases splitOne_cases h with ⟨rfl, _⟩ | ⟨rfl, hk⟩ | ⟨rfl, _⟩
  · exact ⟨hle, Nat.le_refl _, fun _ => Or.inl rfl⟩
  · refine ⟨?_, ?_, ?_⟩
    · show s.nF ≤ s.fcCols + (s.ids i).length; omega
    · show s.fcCols - s.nF ≤ s.fcCols + (s.ids i).length - s.nF; omega
    · intro h'
      have : s.fcCols + (s.ids i).length = s.nF := h'
      omega
  · refine ⟨?_, ?_, fun _ => Or.inr rfl⟩
    · show s.nF + (s.ids i).length ≤ s.fcCols + (s.ids i).length; omega
    · show s.fcCols - s.nF ≤ s.fcCols + (s.ids i).length - (s.nF + (s.ids i).length); omega

theorem splitFrom_gap : ∀ (is : List Nat) (s s' : Host), splitFrom s is = .ok s' → s.nF ≤ s.fcCols →
    s'.nF ≤ s'.fcCols ∧ s.fcCols - s.nF ≤ s'.fcCols - s'.nF := by
  intro is
  induction is with
  | nil => intro s s' h hle; injection h with h; subst h; exact ⟨hle, Nat.le_refl _⟩
  | cons i is ih =>
    intro s s' h hle
    obtain ⟨s1, h1, h2⟩ := splitFrom_cons h
    have g1 := splitOne_gap h1 hle
    have g2 := ih s1 s' h2 g1.1
    exact ⟨g2.1, Nat.le_trans g1.2.1 g2.2⟩

/-! ### tags -/

/-- the fracture tag marks exactly the faces coupled by one of the fractures in `P` -/
def TagInv (s : Host) (P : Nat → Prop) : Prop :=
  ∀ g, g < s.nF → (s.frac g = true ↔ ∃ j, P j ∧ (s.fc j g).isSome = true)

theorem getD_mem_ids {s : Host} {i p : Nat} (hp : p < (s.ids i).length) : (s.ids i).getD p 0 ∈ s.ids i := by
  rw [List.getD_eq_getElem?_getD, List.getElem?_eq_getElem hp]
  exact List.getElem_mem hp

theorem tagInv_old (s : Host) (i : Nat) (P : Nat → Prop) (hal : s.fcCols = s.nF) (hinv : TagInv s P)
    (g : Nat) (hg : g < s.nF) :
    (s.frac1 i g = true ↔ ∃ j, (j = i ∨ P j) ∧ (s.fc j g).isSome = true) := by
  unfold Host.frac1
  by_cases hm : g ∈ s.fracFaces i
  · rw [if_pos hm]
    simp only [true_iff]
    exact ⟨i, Or.inl rfl, ((mem_fracFaces s i g).mp hm).2⟩
  · rw [if_neg hm, hinv g hg]
    constructor
    · rintro ⟨j, hj, hs⟩; exact ⟨j, Or.inr hj, hs⟩
    · rintro ⟨j, hj | hj, hs⟩
      · subst hj
        exact absurd ((mem_fracFaces s j g).mpr ⟨by omega, hs⟩) hm
      · exact ⟨j, hj, hs⟩

theorem tagInv_step {s s' : Host} {i : Nat} {P : Nat → Prop} (h : splitOne s i = .ok s')
    (hal : s.fcCols = s.nF) (hal' : s'.fcCols = s'.nF) (hinv : TagInv s P) :
    TagInv s' (fun j => j = i ∨ P j) := by
  rcases (splitOne_gap h (by omega)).2.2 hal' with rfl | rfl
  · intro g hg
    exact tagInv_old s i P hal hinv g hg
  · intro g hg
    have hg' : g < s.nF + (s.ids i).length := hg
    by_cases hlt : g < s.nF
    · have hc : ¬ (s.nF ≤ g ∧ g < s.nF + (s.ids i).length) := by omega
      have hfc : ∀ j, (s.split i).fc j g = s.fc j g := by
        intro j; simp only [Host.split, Host.fc1, if_pos (show g < s.fcCols by omega)]
      simp only [hfc]
      simp only [Host.split, if_neg hc]
      exact tagInv_old s i P hal hinv g hlt
    · have hc : s.nF ≤ g ∧ g < s.nF + (s.ids i).length := by omega
      simp only [Host.split, if_pos hc, true_iff]
      refine ⟨i, Or.inl rfl, ?_⟩
      have h1 : ¬ g < s.fcCols := by omega
      have h2 : g < s.fcCols + (s.ids i).length := by omega
      simp only [Host.fc1, if_neg h1, if_pos h2, if_true]
      exact ((mem_ids s i _).mp (getD_mem_ids (by omega))).2.1

theorem splitFrom_tags : ∀ (is : List Nat) (s s' : Host) (P : Nat → Prop), splitFrom s is = .ok s' →
    s.fcCols = s.nF → s'.fcCols = s'.nF → TagInv s P → TagInv s' (fun j => j ∈ is ∨ P j) := by
  intro is
  induction is with
  | nil =>
    intro s s' P h _ _ hinv; injection h with h; subst h
    intro g hg; rw [hinv g hg]; simp
  | cons i is ih =>
    intro s s' P h hal hal' hinv
    obtain ⟨s1, h1, h2⟩ := splitFrom_cons h
    have g1 := splitOne_gap h1 (by omega)
    have g2 := splitFrom_gap is s1 s' h2 g1.1
    have hal1 : s1.fcCols = s1.nF := by omega
    have := ih s1 s' _ h2 hal1 hal' (tagInv_step h1 hal hal1 hinv)
    intro g hg
    rw [this g hg]
    constructor
    · rintro ⟨j, hj | hj | hj, hs⟩
      · exact ⟨j, Or.inl (List.mem_cons_of_mem _ hj), hs⟩
      · exact ⟨j, Or.inl (hj ▸ List.mem_cons_self), hs⟩
      · exact ⟨j, Or.inr hj, hs⟩
    · rintro ⟨j, hj | hj, hs⟩
      · rcases List.mem_cons.mp hj with rfl | hj
        · exact ⟨j, Or.inr (Or.inl rfl), hs⟩
        · exact ⟨j, Or.inl hj, hs⟩
      · exact ⟨j, Or.inr (Or.inr hj), hs⟩


/-! ### the main invariant of the loop of `split_faces` -/

/-- what the pass for fracture `j` leaves behind for the lower-dimensional cell `l` on host face `f` -/
def Done (s0 s : Host) (j : Nat) : Prop :=
  ∀ f l, f < s0.nF → s0.fc j f = some l →
    (s0.rem f = true → ∀ g, g < s.nF → (s.fc j g = some l ↔ g = f)) ∧
    (s0.rem f = false → ∃ d, s0.nF ≤ d ∧ d < s.nF ∧
        (∀ g, g < s.nF → (s.fc j g = some l ↔ (g = f ∨ g = d))) ∧
        ∃ a b : Inc, (s0.inc f = [a, b] ∨ s0.inc f = [b, a]) ∧ a.left = false ∧ b.left = true ∧
          b.sign = -a.sign ∧ s.inc f = [a] ∧ s.inc d = [b] ∧
          s.normal f = s0.normal f ∧ s.normal d = s0.normal f ∧ (f, d) ∈ s.pairs)

structure Inv (s0 s : Host) (done : Nat → Prop) : Prop where
  nF : s0.nF ≤ s.nF
  aligned : s.fcCols = s.nF
  oldFc : ∀ j g, g < s0.nF → s.fc j g = s0.fc j g
  newFc : ∀ j g, ¬ done j → s0.nF ≤ g → g < s.nF → s.fc j g = none
  newSrc : ∀ j g l, s0.nF ≤ g → g < s.nF → s.fc j g = some l → ∃ f, f < s0.nF ∧ s0.fc j f = some l
  untouched : ∀ g, g < s0.nF → (∀ j, done j → j < s0.nFr → s0.fc j g = none) →
      s.inc g = s0.inc g ∧ s.frac g = s0.frac g ∧ s.tip g = s0.tip g ∧ s.dom g = s0.dom g ∧
      s.normal g = s0.normal g
  res : ∀ j, done j → j < s0.nFr → Done s0 s j

theorem inv_init (s0 : Host) (hv : s0.Valid) : Inv s0 s0 (fun _ => False) where
  nF := Nat.le_refl _
  aligned := hv.aligned
  oldFc := fun _ _ _ => rfl
  newFc := fun _ g _ h1 h2 => absurd h2 (by omega)
  newSrc := fun _ g _ h1 h2 _ => absurd h2 (by omega)
  untouched := fun _ _ _ => ⟨rfl, rfl, rfl, rfl, rfl⟩
  res := fun _ h _ => h.elim

/-! fields of `s.split i` -/

theorem split_fc_old (s : Host) (i j g : Nat) (hg : g < s.fcCols) : (s.split i).fc j g = s.fc j g := by
  simp only [Host.split, Host.fc1, if_pos hg]

theorem split_fc_new_other (s : Host) (i j g : Nat) (h1 : s.fcCols ≤ g) (h2 : g < s.fcCols + (s.ids i).length)
    (hj : j ≠ i) : (s.split i).fc j g = none := by
  have : ¬ g < s.fcCols := by omega
  simp only [Host.split, Host.fc1, if_neg this, if_pos h2, if_neg hj]

theorem split_fc_new_self (s : Host) (i q : Nat) (hq : q < (s.ids i).length) :
    (s.split i).fc i (s.fcCols + q) = s.fc i ((s.ids i).getD q 0) := by
  have h1 : ¬ s.fcCols + q < s.fcCols := by omega
  have h2 : s.fcCols + q < s.fcCols + (s.ids i).length := by omega
  simp only [Host.split, Host.fc1, if_neg h1, if_pos h2, if_true, Nat.add_sub_cancel_left]

theorem split_inc_old_notin (s : Host) (i g : Nat) (hg : g < s.nF) (hm : g ∉ s.ids i) :
    (s.split i).inc g = s.inc g := by
  simp only [Host.split, if_pos hg, if_neg hm]

theorem split_inc_old_in (s : Host) (i g : Nat) (hg : g < s.nF) (hm : g ∈ s.ids i) :
    (s.split i).inc g = (s.inc g).filter (fun a => !a.left) := by
  simp only [Host.split, if_pos hg, if_pos hm]

theorem split_inc_new (s : Host) (i q : Nat) (hq : q < (s.ids i).length) :
    (s.split i).inc (s.nF + q) = (s.inc ((s.ids i).getD q 0)).filter (·.left) := by
  have h1 : ¬ s.nF + q < s.nF := by omega
  have h2 : s.nF + q < s.nF + (s.ids i).length := by omega
  simp only [Host.split, if_neg h1, if_pos h2, Host.src, Nat.add_sub_cancel_left]

theorem split_normal_old (s : Host) (i g : Nat) (hg : g < s.nF) : (s.split i).normal g = s.normal g := by
  have : ¬ (s.nF ≤ g ∧ g < s.nF + (s.ids i).length) := by omega
  simp only [Host.split, if_neg this]

theorem split_normal_new (s : Host) (i q : Nat) (hq : q < (s.ids i).length) :
    (s.split i).normal (s.nF + q) = s.normal ((s.ids i).getD q 0) := by
  have : s.nF ≤ s.nF + q ∧ s.nF + q < s.nF + (s.ids i).length := by omega
  simp only [Host.split, if_pos this, Host.src, Nat.add_sub_cancel_left]

theorem split_tags_old (s : Host) (i g : Nat) (hg : g < s.nF) :
    (s.split i).frac g = s.frac1 i g ∧ (s.split i).tip g = s.tip1 i g ∧ (s.split i).dom g = s.dom g := by
  have : ¬ (s.nF ≤ g ∧ g < s.nF + (s.ids i).length) := by omega
  simp only [Host.split, if_neg this, and_self]

theorem split_pairs_mem (s : Host) (i q : Nat) (hq : q < (s.ids i).length) :
    ((s.ids i).getD q 0, s.nF + q) ∈ (s.split i).pairs := by
  show _ ∈ s.pairs ++ _
  apply List.mem_append_right
  have hlen : q < ((s.ids i).zip ((List.range (s.ids i).length).map (· + s.nF))).length := by
    simp [List.length_zip]; exact hq
  have := List.getElem_mem hlen
  rw [List.getElem_zip] at this
  simp only [List.getElem_map, List.getElem_range] at this
  rw [List.getD_eq_getElem?_getD, List.getElem?_eq_getElem hq, Option.getD_some, Nat.add_comm]
  exact this

theorem getD_inj_of_nodup {L : List Nat} (hnd : L.Nodup) {p q : Nat} (hp : p < L.length) (hq : q < L.length)
    (h : L.getD p 0 = L.getD q 0) : p = q := by
  exact (List.getD_inj hp hq hnd).mp h

theorem exists_index_of_mem {L : List Nat} {x : Nat} (h : x ∈ L) : ∃ p, p < L.length ∧ L.getD p 0 = x := by
  obtain ⟨p, hp, hx⟩ := List.mem_iff_getElem.mp h
  exact ⟨p, hp, by rw [List.getD_eq_getElem?_getD, List.getElem?_eq_getElem hp]; exact hx⟩

section step
variable {s0 s : Host} {done : Nat → Prop} {i : Nat}

theorem fracFaces_iff (hinv : Inv s0 s done) (hnd : ¬ done i) (g : Nat) :
    g ∈ s.fracFaces i ↔ g < s0.nF ∧ (s0.fc i g).isSome = true := by
  rw [mem_fracFaces, hinv.aligned]
  constructor
  · rintro ⟨hg, hs⟩
    by_cases hlt : g < s0.nF
    · exact ⟨hlt, by rw [← hinv.oldFc i g hlt]; exact hs⟩
    · rw [hinv.newFc i g hnd (by omega) hg] at hs; cases hs
  · rintro ⟨hg, hs⟩
    exact ⟨by have := hinv.nF; omega, by rw [hinv.oldFc i g hg]; exact hs⟩

theorem untouched_of_face (hv : s0.Valid) (hinv : Inv s0 s done) (hi : i < s0.nFr) (hnd : ¬ done i)
    {g : Nat} (hg : g < s0.nF) (hs : (s0.fc i g).isSome = true) :
    s.inc g = s0.inc g ∧ s.frac g = s0.frac g ∧ s.tip g = s0.tip g ∧ s.dom g = s0.dom g ∧
      s.normal g = s0.normal g := by
  apply hinv.untouched g hg
  intro j hj hjn
  have hne : i ≠ j := fun e => hnd (e ▸ hj)
  exact hv.disjoint i j g hi hjn hne hg hs

theorem rem_of_face (hv : s0.Valid) (hinv : Inv s0 s done) (hi : i < s0.nFr) (hnd : ¬ done i)
    {g : Nat} (hg : g < s0.nF) (hs : (s0.fc i g).isSome = true) : s.rem g = s0.rem g := by
  have := untouched_of_face hv hinv hi hnd hg hs
  simp only [Host.rem, this.2.1, this.2.2.1, this.2.2.2.1]

theorem ids_iff (hv : s0.Valid) (hinv : Inv s0 s done) (hi : i < s0.nFr) (hnd : ¬ done i) (g : Nat) :
    g ∈ s.ids i ↔ g < s0.nF ∧ (s0.fc i g).isSome = true ∧ s0.rem g = false := by
  unfold Host.ids
  rw [List.mem_filter, fracFaces_iff hinv hnd]
  constructor
  · rintro ⟨⟨hg, hs⟩, hr⟩
    refine ⟨hg, hs, ?_⟩
    rw [← rem_of_face hv hinv hi hnd hg hs]; simpa using hr
  · rintro ⟨hg, hs, hr⟩
    refine ⟨⟨hg, hs⟩, ?_⟩
    rw [rem_of_face hv hinv hi hnd hg hs, hr]; rfl

theorem interior_of_ids (hv : s0.Valid) (hinv : Inv s0 s done) (hi : i < s0.nFr) (hnd : ¬ done i)
    {g : Nat} (hg : g ∈ s.ids i) : s.Interior g := by
  obtain ⟨h1, h2, h3⟩ := (ids_iff hv hinv hi hnd g).mp hg
  have := hv.interior i g hi h1 h2 h3
  unfold Host.Interior at this ⊢
  rw [(untouched_of_face hv hinv hi hnd h1 h2).1]
  exact this

/-- counts of `left` flags over a list of interior faces -/
theorem counts_interior (s : Host) (L : List Nat) (h : ∀ g ∈ L, s.Interior g) :
    ((L.flatMap s.inc).filter (·.left)).length = L.length ∧ (L.flatMap s.inc).length = 2 * L.length := by
  induction L with
  | nil => exact ⟨rfl, rfl⟩
  | cons g L ih =>
    have ih' := ih (fun x hx => h x (List.mem_cons_of_mem _ hx))
    obtain ⟨a, b, hab, ha, hb, _⟩ := h g List.mem_cons_self
    simp only [List.flatMap_cons, List.filter_append, List.length_append, ih'.1, ih'.2, List.length_cons]
    rcases hab with e | e <;> rw [e] <;> simp [ha, hb] <;> omega

theorem fc_old_iff (hv : s0.Valid) (hinv : Inv s0 s done) (hi : i < s0.nFr) (hnd : ¬ done i)
    {f l : Nat} (hf : f < s0.nF) (hfl : s0.fc i f = some l) (g : Nat) (hg : g < s.nF) :
    s.fc i g = some l ↔ g = f := by
  by_cases hlt : g < s0.nF
  · rw [hinv.oldFc i g hlt]
    exact ⟨fun h => hv.inj i g f l hi hlt hf h hfl, fun h => h ▸ hfl⟩
  · rw [hinv.newFc i g hnd (by omega) hg]
    constructor
    · intro h; cases h
    · intro h; omega

theorem inv_tagOnly (hv : s0.Valid) (hinv : Inv s0 s done) (hi : i < s0.nFr) (hnd : ¬ done i)
    (hk : (s.ids i).length = 0) : Inv s0 (s.tagOnly i) (fun j => j = i ∨ done j) where
  nF := hinv.nF
  aligned := hinv.aligned
  oldFc := hinv.oldFc
  newFc := fun j g hj h1 h2 => hinv.newFc j g (fun h => hj (Or.inr h)) h1 h2
  newSrc := hinv.newSrc
  untouched := by
    intro g hg hnone
    have hu := hinv.untouched g hg (fun j hj hjn => hnone j (Or.inr hj) hjn)
    have hni : g ∉ s.fracFaces i := by
      rw [fracFaces_iff hinv hnd]
      rintro ⟨_, hs⟩
      rw [hnone i (Or.inl rfl) hi] at hs; cases hs
    refine ⟨hu.1, ?_, ?_, hu.2.2.2.1, hu.2.2.2.2⟩
    · show s.frac1 i g = _
      unfold Host.frac1; rw [if_neg hni]; exact hu.2.1
    · show s.tip1 i g = _
      unfold Host.tip1; rw [if_neg hni]; exact hu.2.2.1
  res := by
    intro j hj hjn
    rcases hj with rfl | hj
    · intro f l hf hfl
      refine ⟨fun _ g hg => fc_old_iff hv hinv hjn hnd hf hfl g hg, ?_⟩
      intro hr
      have : f ∈ s.ids j := (ids_iff hv hinv hjn hnd f).mpr ⟨hf, by rw [hfl]; rfl, hr⟩
      rw [List.length_eq_zero_iff.mp hk] at this
      cases this
    · exact hinv.res j hj hjn

/-- the pass for fracture `i` does not disturb what an earlier pass (fracture `j ≠ i`) left behind -/
theorem done_split_other (hv : s0.Valid) (hinv : Inv s0 s done) (hi : i < s0.nFr) (hnd : ¬ done i)
    {j : Nat} (hj : done j) (hjn : j < s0.nFr) (hd : Done s0 s j) : Done s0 (s.split i) j := by
  have hji : j ≠ i := fun e => hnd (e ▸ hj)
  have hal := hinv.aligned
  -- faces of fracture `j` and their copies are not faces of fracture `i`
  have hnot_old : ∀ f l, f < s0.nF → s0.fc j f = some l → f ∉ s.ids i := by
    intro f l hf hfl hm
    have := (ids_iff hv hinv hi hnd f).mp hm
    rw [hv.disjoint j i f hjn hi hji hf (by rw [hfl]; rfl)] at this
    cases this.2.1
  have hnot_new : ∀ d, s0.nF ≤ d → d < s.nF → d ∉ s.ids i := by
    intro d h1 h2 hm
    have := (ids_iff hv hinv hi hnd d).mp hm
    omega
  have hfc : ∀ g l, g < (s.split i).nF → ((s.split i).fc j g = some l ↔ g < s.nF ∧ s.fc j g = some l) := by
    intro g l hg
    have hg' : g < s.nF + (s.ids i).length := hg
    by_cases hlt : g < s.nF
    · rw [split_fc_old s i j g (by omega)]; simp [hlt]
    · rw [split_fc_new_other s i j g (by omega) (by omega) hji]
      constructor
      · intro h; cases h
      · intro h; omega
  intro f l hf hfl
  obtain ⟨h1, h2⟩ := hd f l hf hfl
  have hfs : f < s.nF := by have := hinv.nF; omega
  constructor
  · intro hr g hg
    rw [hfc g l hg]
    constructor
    · rintro ⟨hlt, h⟩; exact (h1 hr g hlt).mp h
    · intro h; subst h; exact ⟨hfs, (h1 hr g hfs).mpr rfl⟩
  · intro hr
    obtain ⟨d, hd1, hd2, hiff, a, b, hab, ha, hb, hsg, hif, hid, hnf, hndd, hp⟩ := h2 hr
    refine ⟨d, hd1, by show d < s.nF + _; omega, ?_, a, b, hab, ha, hb, hsg, ?_, ?_, ?_, ?_, ?_⟩
    · intro g hg
      rw [hfc g l hg]
      constructor
      · rintro ⟨hlt, h⟩; exact (hiff g hlt).mp h
      · rintro (h | h)
        · subst h; exact ⟨hfs, (hiff g hfs).mpr (Or.inl rfl)⟩
        · subst h; exact ⟨hd2, (hiff g hd2).mpr (Or.inr rfl)⟩
    · rw [split_inc_old_notin s i f hfs (hnot_old f l hf hfl)]; exact hif
    · rw [split_inc_old_notin s i d hd2 (hnot_new d hd1 hd2)]; exact hid
    · rw [split_normal_old s i f hfs]; exact hnf
    · rw [split_normal_old s i d hd2]; exact hndd
    · exact List.mem_append_left _ hp

/-- what the pass for fracture `i` establishes for its own faces -/
theorem done_split_self (hv : s0.Valid) (hinv : Inv s0 s done) (hi : i < s0.nFr) (hnd : ¬ done i) :
    Done s0 (s.split i) i := by
  have hal := hinv.aligned
  have hnF := hinv.nF
  intro f l hf hfl
  have hfs : f < s.nF := by omega
  have hsome : (s0.fc i f).isSome = true := by rw [hfl]; rfl
  -- the copies: face `s.nF + q` is coupled to `l` iff it is the copy of `f`
  have hnew : ∀ q, q < (s.ids i).length →
      ((s.split i).fc i (s.nF + q) = some l ↔ (s.ids i).getD q 0 = f) := by
    intro q hq
    have hm := getD_mem_ids (s := s) (i := i) hq
    have hlt : (s.ids i).getD q 0 < s.nF := by
      have := (ids_iff hv hinv hi hnd _).mp hm; omega
    rw [← hal, split_fc_new_self s i q hq]
    exact fc_old_iff hv hinv hi hnd hf hfl _ hlt
  constructor
  · intro hr g hg
    have hg' : g < s.nF + (s.ids i).length := hg
    have hfn : f ∉ s.ids i := by
      intro hm
      have := (ids_iff hv hinv hi hnd f).mp hm
      rw [hr] at this; cases this.2.2
    by_cases hlt : g < s.nF
    · rw [split_fc_old s i i g (by omega)]
      exact fc_old_iff hv hinv hi hnd hf hfl g hlt
    · obtain ⟨q, rfl⟩ : ∃ q, g = s.nF + q := ⟨g - s.nF, by omega⟩
      have hq : q < (s.ids i).length := by omega
      rw [hnew q hq]
      constructor
      · intro h; exact absurd (h ▸ getD_mem_ids hq) hfn
      · intro h; omega
  · intro hr
    have hm : f ∈ s.ids i := (ids_iff hv hinv hi hnd f).mpr ⟨hf, hsome, hr⟩
    obtain ⟨p, hp, hpf⟩ := exists_index_of_mem hm
    obtain ⟨a, b, hab, ha, hb, hsg⟩ := hv.interior i f hi hf hsome hr
    have hu := untouched_of_face hv hinv hi hnd hf hsome
    refine ⟨s.nF + p, by omega, by show s.nF + p < s.nF + _; omega, ?_, a, b, hab, ha, hb, hsg, ?_, ?_, ?_, ?_, ?_⟩
    · intro g hg
      have hg' : g < s.nF + (s.ids i).length := hg
      by_cases hlt : g < s.nF
      · rw [split_fc_old s i i g (by omega), fc_old_iff hv hinv hi hnd hf hfl g hlt]
        constructor
        · intro h; exact Or.inl h
        · rintro (h | h)
          · exact h
          · omega
      · obtain ⟨q, rfl⟩ : ∃ q, g = s.nF + q := ⟨g - s.nF, by omega⟩
        have hq : q < (s.ids i).length := by omega
        rw [hnew q hq]
        constructor
        · intro h
          right
          have := getD_inj_of_nodup (nodup_ids s i) hq hp (h.trans hpf.symm)
          omega
        · rintro (h | h)
          · omega
          · have : q = p := by omega
            subst this; exact hpf
    · rw [split_inc_old_in s i f hfs hm, hu.1]
      rcases hab with e | e <;> rw [e] <;> simp [ha, hb]
    · rw [split_inc_new s i p hp, hpf, hu.1]
      rcases hab with e | e <;> rw [e] <;> simp [ha, hb]
    · rw [split_normal_old s i f hfs]; exact hu.2.2.2.2
    · rw [split_normal_new s i p hp, hpf]; exact hu.2.2.2.2
    · have := split_pairs_mem s i p hp
      rw [hpf] at this; exact this

theorem inv_split (hv : s0.Valid) (hinv : Inv s0 s done) (hi : i < s0.nFr) (hnd : ¬ done i) :
    Inv s0 (s.split i) (fun j => j = i ∨ done j) where
  nF := by show s0.nF ≤ s.nF + _; have := hinv.nF; omega
  aligned := by show s.fcCols + _ = s.nF + _; rw [hinv.aligned]
  oldFc := by
    intro j g hg
    rw [split_fc_old s i j g (by have := hinv.nF; have := hinv.aligned; omega)]
    exact hinv.oldFc j g hg
  newFc := by
    intro j g hj h1 h2
    have h2' : g < s.nF + (s.ids i).length := h2
    have hal := hinv.aligned
    by_cases hlt : g < s.nF
    · rw [split_fc_old s i j g (by omega)]
      exact hinv.newFc j g (fun h => hj (Or.inr h)) h1 hlt
    · exact split_fc_new_other s i j g (by omega) (by omega) (fun e => hj (Or.inl e))
  newSrc := by
    intro j g l h1 h2 hfc
    have h2' : g < s.nF + (s.ids i).length := h2
    have hal := hinv.aligned
    by_cases hlt : g < s.nF
    · rw [split_fc_old s i j g (by omega)] at hfc
      exact hinv.newSrc j g l h1 hlt hfc
    · by_cases hji : j = i
      · subst hji
        obtain ⟨q, rfl⟩ : ∃ q, g = s.fcCols + q := ⟨g - s.fcCols, by omega⟩
        have hq : q < (s.ids j).length := by omega
        rw [split_fc_new_self s j q hq] at hfc
        have hm := (ids_iff hv hinv hi hnd _).mp (getD_mem_ids (s := s) (i := j) hq)
        exact ⟨_, hm.1, by rw [← hinv.oldFc j _ hm.1]; exact hfc⟩
      · rw [split_fc_new_other s i j g (by omega) (by omega) hji] at hfc
        cases hfc
  untouched := by
    intro g hg hnone
    have hu := hinv.untouched g hg (fun j hj hjn => hnone j (Or.inr hj) hjn)
    have hgs : g < s.nF := by have := hinv.nF; omega
    have hni : g ∉ s.fracFaces i := by
      rw [fracFaces_iff hinv hnd]
      rintro ⟨_, hs⟩
      rw [hnone i (Or.inl rfl) hi] at hs; cases hs
    have hnid : g ∉ s.ids i := fun h => hni (List.mem_filter.mp h).1
    have ht := split_tags_old s i g hgs
    refine ⟨?_, ?_, ?_, ?_, ?_⟩
    · rw [split_inc_old_notin s i g hgs hnid]; exact hu.1
    · rw [ht.1]; unfold Host.frac1; rw [if_neg hni]; exact hu.2.1
    · rw [ht.2.1]; unfold Host.tip1; rw [if_neg hni]; exact hu.2.2.1
    · rw [ht.2.2]; exact hu.2.2.2.1
    · rw [split_normal_old s i g hgs]; exact hu.2.2.2.2
  res := by
    intro j hj hjn
    rcases hj with rfl | hj
    · exact done_split_self hv hinv hjn hnd
    · exact done_split_other hv hinv hi hnd hj hjn (hinv.res j hj hjn)

/-- one pass of the loop on a valid input: no error, and the invariant is kept -/
theorem inv_step (hv : s0.Valid) (hinv : Inv s0 s done) (hi : i < s0.nFr) (hnd : ¬ done i) :
    ∃ s1, splitOne s i = .ok s1 ∧ Inv s0 s1 (fun j => j = i ∨ done j) := by
  by_cases hk : (s.ids i).length = 0
  · exact ⟨s.tagOnly i, by unfold splitOne; rw [if_pos hk], inv_tagOnly hv hinv hi hnd hk⟩
  · refine ⟨s.split i, ?_, inv_split hv hinv hi hnd⟩
    have hc := counts_interior s (s.ids i) (fun g hg => interior_of_ids hv hinv hi hnd hg)
    have h1 : s.nLeft i = (s.ids i).length := hc.1
    have h2 : (s.touched i).length = 2 * (s.ids i).length := hc.2
    unfold splitOne
    rw [if_neg hk, if_neg (by omega), if_neg (by omega), if_neg (by omega)]

end step

theorem Inv.congr {s0 s : Host} {P Q : Nat → Prop} (h : ∀ j, P j ↔ Q j) (hinv : Inv s0 s P) : Inv s0 s Q := by
  have : P = Q := funext fun j => propext (h j)
  rw [← this]; exact hinv

theorem splitFrom_inv {s0 : Host} (hv : s0.Valid) : ∀ (is : List Nat) (s : Host) (done : Nat → Prop),
    is.Nodup → (∀ i ∈ is, i < s0.nFr ∧ ¬ done i) → Inv s0 s done →
    ∃ s', splitFrom s is = .ok s' ∧ Inv s0 s' (fun j => j ∈ is ∨ done j) := by
  intro is
  induction is with
  | nil =>
    intro s done _ _ hinv
    exact ⟨s, rfl, hinv.congr (fun j => by simp)⟩
  | cons i is ih =>
    intro s done hnd hall hinv
    rw [List.nodup_cons] at hnd
    obtain ⟨hi, hdi⟩ := hall i List.mem_cons_self
    obtain ⟨s1, h1, hinv1⟩ := inv_step hv hinv hi hdi
    obtain ⟨s', h2, hinv2⟩ := ih s1 (fun j => j = i ∨ done j) hnd.2
      (fun i' hi' => ⟨(hall i' (List.mem_cons_of_mem _ hi')).1, by
        rintro (e | e)
        · exact hnd.1 (e ▸ hi')
        · exact (hall i' (List.mem_cons_of_mem _ hi')).2 e⟩) hinv1
    refine ⟨s', by simp only [splitFrom, h1]; exact h2, hinv2.congr (fun j => ?_)⟩
    simp only [List.mem_cons]
    constructor
    · rintro (h | h | h)
      · exact Or.inl (Or.inr h)
      · exact Or.inl (Or.inl h)
      · exact Or.inr h
    · rintro ((h | h) | h)
      · exact Or.inr (Or.inl h)
      · exact Or.inl h
      · exact Or.inr (Or.inr h)

/-- `split_faces` on a valid input: no error, and every fracture is left in the state `Done` -/
theorem splitFaces_valid {s0 : Host} (hv : s0.Valid) :
    ∃ s', splitFaces s0 = .ok s' ∧ Inv s0 s' (fun j => j < s0.nFr) := by
  obtain ⟨s', h, hinv⟩ := splitFrom_inv hv (List.range s0.nFr) s0 (fun _ => False) List.nodup_range
    (fun i hi => ⟨List.mem_range.mp hi, fun h => h⟩) (inv_init s0 hv)
  exact ⟨s', h, hinv.congr (fun j => by simp)⟩


/-! ### mortar cells -/

theorem filterMap_entries_filter (fc : Nat → Option Nat) (l : Nat) (L : List Nat) :
    (L.filterMap (fun g => (fc g).map (fun l => (l, g)))).filter (fun e => e.1 = l)
      = (L.filter (fun g => fc g = some l)).map (fun g => (l, g)) := by
  induction L with
  | nil => rfl
  | cons g L ih =>
    cases hfg : fc g with
    | none => simp [hfg, ih]
    | some l' =>
      by_cases hl : l' = l
      · subst hl; simp [hfg, ih]
      · have : ¬ (some l' = some l) := fun e => hl (Option.some.inj e)
        simp [hfg, ih, hl]

theorem entries_filter (fc : Nat → Option Nat) (cols l : Nat) :
    (entries fc cols).filter (fun e => e.1 = l)
      = ((List.range cols).filter (fun g => fc g = some l)).map (fun g => (l, g)) :=
  filterMap_entries_filter fc l _

theorem filter_range_nil (n : Nat) (p : Nat → Bool) (hp : ∀ g, g < n → p g = false) :
    (List.range n).filter p = [] := by
  rw [List.filter_eq_nil_iff]
  intro g hg
  rw [hp g (List.mem_range.mp hg)]; simp

theorem filter_range_one (n a : Nat) (p : Nat → Bool) (ha : a < n)
    (hp : ∀ g, g < n → (p g = true ↔ g = a)) : (List.range n).filter p = [a] := by
  induction n with
  | zero => omega
  | succ n ih =>
    rw [List.range_succ, List.filter_append]
    by_cases han : a = n
    · subst han
      rw [filter_range_nil a p (fun g hg => by
        have := hp g (by omega)
        cases hpg : p g with
        | false => rfl
        | true => have := this.mp hpg; omega)]
      have : p a = true := (hp a (by omega)).mpr rfl
      simp [this]
    · rw [ih (by omega) (fun g hg => hp g (by omega))]
      have : p n = false := by
        cases hpn : p n with
        | false => rfl
        | true => have := (hp n (by omega)).mp hpn; omega
      simp [this]

theorem filter_range_two (n a b : Nat) (p : Nat → Bool) (hab : a < b) (hb : b < n)
    (hp : ∀ g, g < n → (p g = true ↔ g = a ∨ g = b)) : (List.range n).filter p = [a, b] := by
  induction n with
  | zero => omega
  | succ n ih =>
    rw [List.range_succ, List.filter_append]
    by_cases hbn : b = n
    · subst hbn
      rw [filter_range_one b a p hab (fun g hg => by
        rw [hp g (by omega)]
        constructor
        · rintro (h | h)
          · exact h
          · omega
        · intro h; exact Or.inl h)]
      have : p b = true := (hp b (by omega)).mpr (Or.inr rfl)
      simp [this]
    · rw [ih (by omega) (fun g hg => hp g (by omega))]
      have : p n = false := by
        cases hpn : p n with
        | false => rfl
        | true => have := (hp n (by omega)).mp hpn; omega
      simp [this]

theorem foldl_max_ge (es : List (Nat × Nat)) (a : Nat) :
    a ≤ es.foldl (fun a e => max a e.1) a := by
  induction es generalizing a with
  | nil => exact Nat.le_refl _
  | cons e es ih => exact Nat.le_trans (Nat.le_max_left a e.1) (ih (max a e.1))

theorem le_foldl_max_of_mem (es : List (Nat × Nat)) (a : Nat) (e : Nat × Nat) (he : e ∈ es) :
    e.1 ≤ es.foldl (fun a e => max a e.1) a := by
  induction es generalizing a with
  | nil => cases he
  | cons e' es ih =>
    rcases List.mem_cons.mp he with rfl | h
    · exact Nat.le_trans (Nat.le_max_right a e.1) (foldl_max_ge es _)
    · exact ih _ h

theorem foldl_max_le (es : List (Nat × Nat)) (a M : Nat) (ha : a ≤ M) (hall : ∀ e ∈ es, e.1 ≤ M) :
    es.foldl (fun a e => max a e.1) a ≤ M := by
  induction es generalizing a with
  | nil => exact ha
  | cons e es ih =>
    exact ih (max a e.1) (Nat.max_le.mpr ⟨ha, hall e List.mem_cons_self⟩)
      (fun x hx => hall x (List.mem_cons_of_mem _ hx))

theorem maxLow_eq (es : List (Nat × Nat)) (M : Nat) (hall : ∀ e ∈ es, e.1 ≤ M) (hex : ∃ e ∈ es, e.1 = M) :
    maxLow es = M := by
  obtain ⟨e, he, heM⟩ := hex
  apply Nat.le_antisymm
  · exact foldl_max_le es 0 M (Nat.zero_le _) hall
  · rw [← heM]; exact le_foldl_max_of_mem es 0 e he

theorem length_eq_sum_count (es : List (Nat × Nat)) (n : Nat) (hall : ∀ e ∈ es, e.1 < n) :
    es.length = sumTo n (countLow es) := by
  induction es with
  | nil =>
    have : countLow ([] : List (Nat × Nat)) = fun _ => 0 := funext fun l => rfl
    rw [this, sumTo_zero_fun]; rfl
  | cons e es ih =>
    have hpt : ∀ l, countLow (e :: es) l = (if l = e.1 then 1 else 0) + countLow es l := by
      intro l
      unfold countLow
      by_cases h : e.1 = l
      · subst h; simp; omega
      · have : ¬ l = e.1 := fun x => h x.symm
        simp [h, this]
    rw [show countLow (e :: es) = fun l => (if l = e.1 then 1 else 0) + countLow es l from funext hpt,
      sumTo_add_fun, sumTo_ind, if_pos (hall e List.mem_cons_self),
      ← ih (fun x hx => hall x (List.mem_cons_of_mem _ hx)), List.length_cons]
    omega

theorem evens_flatMap_pair {α β : Type} (A B : α → β) (L : List α) :
    evens (L.flatMap (fun l => [A l, B l])) = L.map A ∧ odds (L.flatMap (fun l => [A l, B l])) = L.map B := by
  induction L with
  | nil => exact ⟨rfl, rfl⟩
  | cons a L ih =>
    simp only [List.flatMap_cons, List.cons_append, List.nil_append, evens, odds, List.map_cons, ih.1, ih.2,
      and_self]

theorem mem_entries (fc : Nat → Option Nat) (cols : Nat) (e : Nat × Nat) :
    e ∈ entries fc cols ↔ e.2 < cols ∧ fc e.2 = some e.1 := by
  unfold entries
  rw [List.mem_filterMap]
  constructor
  · rintro ⟨g, hg, h⟩
    cases hfg : fc g with
    | none => rw [hfg] at h; cases h
    | some l =>
      rw [hfg] at h
      simp only [Option.map_some, Option.some.injEq] at h
      subst h
      exact ⟨List.mem_range.mp hg, hfg⟩
  · rintro ⟨h1, h2⟩
    exact ⟨e.2, List.mem_range.mpr h1, by rw [h2]; rfl⟩

theorem flatMap_congr' {α β : Type} (L : List α) (f g : α → List β) (h : ∀ a ∈ L, f a = g a) :
    L.flatMap f = L.flatMap g := by
  induction L with
  | nil => rfl
  | cons a L ih =>
    rw [List.flatMap_cons, List.flatMap_cons, h a List.mem_cons_self,
      ih (fun x hx => h x (List.mem_cons_of_mem _ hx))]

theorem createInterface_unfold (nLow : Nat) (fc : Nat → Option Nat) (cols : Nat) :
    createInterface nLow fc cols =
      if entries fc cols = [] then .error .valueError
      else if (List.range (maxLow (entries fc cols) + 1)).any (fun l => countLow (entries fc cols) l > 2) then .error .valueError
      else if (if (List.range (maxLow (entries fc cols) + 1)).all (fun l => countLow (entries fc cols) l > 1) then 2 else 1) * nLow
          ≠ (entries fc cols).length then .error .valueError
      else .ok ⟨if (List.range (maxLow (entries fc cols) + 1)).all (fun l => countLow (entries fc cols) l > 1) then 2 else 1,
        if (List.range (maxLow (entries fc cols) + 1)).all (fun l => countLow (entries fc cols) l > 1) then
          evens ((List.range (maxLow (entries fc cols) + 1)).flatMap (fun l => (entries fc cols).filter (fun e => e.1 = l)))
          ++ odds ((List.range (maxLow (entries fc cols) + 1)).flatMap (fun l => (entries fc cols).filter (fun e => e.1 = l)))
        else (List.range (maxLow (entries fc cols) + 1)).flatMap (fun l => (entries fc cols).filter (fun e => e.1 = l))⟩ := rfl

/-- the facts shared by the one- and two-sided case: `cnt` faces per cell, listed by `F` -/
theorem createInterface_of_filter (nLow : Nat) (fc : Nat → Option Nat) (cols cnt : Nat) (F : Nat → List (Nat × Nat))
    (hpos : 0 < nLow) (hcnt : cnt = 1 ∨ cnt = 2)
    (hlow : ∀ e ∈ entries fc cols, e.1 < nLow)
    (hF : ∀ l, l < nLow → (entries fc cols).filter (fun e => e.1 = l) = F l)
    (hlen : ∀ l, l < nLow → (F l).length = cnt) :
    createInterface nLow fc cols = .ok ⟨cnt,
      if cnt = 2 then evens ((List.range nLow).flatMap F) ++ odds ((List.range nLow).flatMap F)
      else (List.range nLow).flatMap F⟩ := by
  have hcl : ∀ l, l < nLow → countLow (entries fc cols) l = cnt := by
    intro l hl; unfold countLow; rw [hF l hl, hlen l hl]
  -- the last cell has an entry
  have hlast : ∃ e ∈ entries fc cols, e.1 = nLow - 1 := by
    have h1 := hF (nLow - 1) (by omega)
    have h2 := hlen (nLow - 1) (by omega)
    cases hFl : F (nLow - 1) with
    | nil => rw [hFl] at h2; simp at h2; omega
    | cons e t =>
      have : e ∈ (entries fc cols).filter (fun e => e.1 = nLow - 1) := by rw [h1, hFl]; exact List.mem_cons_self
      rw [List.mem_filter] at this
      exact ⟨e, this.1, by simpa using this.2⟩
  have hmax : maxLow (entries fc cols) + 1 = nLow := by
    rw [maxLow_eq _ (nLow - 1) (fun e he => by have := hlow e he; omega) hlast]; omega
  have hne : entries fc cols ≠ [] := by
    obtain ⟨e, he, _⟩ := hlast
    exact List.ne_nil_of_mem he
  have hany : (List.range nLow).any (fun l => countLow (entries fc cols) l > 2) = false := by
    rw [List.any_eq_false]
    intro l hl
    rw [hcl l (List.mem_range.mp hl)]
    rcases hcnt with h | h <;> simp [h]
  have hall : (List.range nLow).all (fun l => countLow (entries fc cols) l > 1) = decide (cnt = 2) := by
    rcases hcnt with h | h
    · subst h
      have : (List.range nLow).all (fun l => countLow (entries fc cols) l > 1) = false := by
        rw [List.all_eq_false]
        exact ⟨0, List.mem_range.mpr hpos, by rw [hcl 0 hpos]; simp⟩
      rw [this]; rfl
    · subst h
      have : (List.range nLow).all (fun l => countLow (entries fc cols) l > 1) = true := by
        rw [List.all_eq_true]
        intro l hl
        rw [hcl l (List.mem_range.mp hl)]; simp
      rw [this]; rfl
  have hsorted : (List.range nLow).flatMap (fun l => (entries fc cols).filter (fun e => e.1 = l))
      = (List.range nLow).flatMap F := by
    exact flatMap_congr' _ _ _ (fun l hl => hF l (List.mem_range.mp hl))
  have hlength : (entries fc cols).length = nLow * cnt := by
    rw [length_eq_sum_count _ nLow hlow, sumTo_congr (fun l hl => hcl l hl), sumTo_const]
  rw [createInterface_unfold, hmax, if_neg hne, hany, hall, hsorted, hlength]
  rcases hcnt with h | h <;> subst h <;> simp [Nat.mul_comm]

theorem createInterface_two {nLow cols : Nat} {fc : Nat → Option Nat} {g1 g2 : Nat → Nat}
    (h : TwoSided nLow cols fc g1 g2) :
    createInterface nLow fc cols = .ok ⟨2,
      (List.range nLow).map (fun l => (l, g1 l)) ++ (List.range nLow).map (fun l => (l, g2 l))⟩ := by
  have := createInterface_of_filter nLow fc cols 2 (fun l => [(l, g1 l), (l, g2 l)]) h.pos (Or.inr rfl)
    (fun e he => by
      have := (mem_entries fc cols e).mp he
      exact ((h.spec e.2 e.1 this.1).mp this.2).1)
    (fun l hl => by
      rw [entries_filter, filter_range_two cols (g1 l) (g2 l) _ (h.order l hl).1 (h.order l hl).2
        (fun g hg => by rw [decide_eq_true_iff, h.spec g l hg]; simp [hl])]
      rfl)
    (fun l _ => rfl)
  rw [this, if_pos rfl, (evens_flatMap_pair _ _ _).1, (evens_flatMap_pair _ _ _).2]

theorem flatMap_singleton {α β : Type} (A : α → β) (L : List α) : L.flatMap (fun l => [A l]) = L.map A := by
  induction L with
  | nil => rfl
  | cons a L ih => simp [List.flatMap_cons, ih]

theorem createInterface_one {nLow cols : Nat} {fc : Nat → Option Nat} {g1 : Nat → Nat}
    (h : OneSided nLow cols fc g1) :
    createInterface nLow fc cols = .ok ⟨1, (List.range nLow).map (fun l => (l, g1 l))⟩ := by
  have := createInterface_of_filter nLow fc cols 1 (fun l => [(l, g1 l)]) h.pos (Or.inl rfl)
    (fun e he => by
      have := (mem_entries fc cols e).mp he
      exact ((h.spec e.2 e.1 this.1).mp this.2).1)
    (fun l hl => by
      rw [entries_filter, filter_range_one cols (g1 l) _ (h.bound l hl)
        (fun g hg => by rw [decide_eq_true_iff, h.spec g l hg]; simp [hl])]
      rfl)
    (fun l _ => rfl)
  rw [this, if_neg (by decide), flatMap_singleton]


/-! ### structured generators: nodes on a line -/

theorem arange_mul (s step m : Nat) (hstep : 0 < step) :
    arange s (s + m * step + 1) step = (List.range (m + 1)).map (fun t => s + t * step) := by
  unfold arange
  have h1 : s + m * step + 1 - s + (step - 1) = (m + 1) * step := by
    have : s + m * step + 1 - s = m * step + 1 := by omega
    rw [this, Nat.add_mul]; omega
  rw [h1, Nat.mul_div_cancel _ hstep]

theorem idx3_shift (nx ny axis : Nat) (a : T3) (t : Nat) :
    idx3 nx ny (shift axis a t) = idx3 nx ny a + t * stride nx ny axis := by
  unfold shift stride idx3 nodeIdx
  split <;> (simp only []; ring)

theorem stride_pos (nx ny axis : Nat) : 0 < stride nx ny axis := by
  unfold stride
  split
  · exact Nat.one_pos
  · exact Nat.succ_pos _
  · exact Nat.mul_pos (Nat.succ_pos _) (Nat.succ_pos _)

theorem findNodesOnLine_stride (nx ny axis s e : Nat) :
    findNodesOnLine nx ny axis s e = arange (min s e) (max s e + 1) (stride nx ny axis) := by
  rfl

theorem findNodesOnLine_eq (nx ny axis : Nat) (a : T3) (m : Nat) :
    findNodesOnLine nx ny axis (idx3 nx ny a) (idx3 nx ny (shift axis a m))
      = (List.range (m + 1)).map (fun t => idx3 nx ny (shift axis a t)) ∧
    findNodesOnLine nx ny axis (idx3 nx ny (shift axis a m)) (idx3 nx ny a)
      = (List.range (m + 1)).map (fun t => idx3 nx ny (shift axis a t)) := by
  have hle : idx3 nx ny a ≤ idx3 nx ny (shift axis a m) := by rw [idx3_shift]; omega
  have key : arange (idx3 nx ny a) (idx3 nx ny (shift axis a m) + 1) (stride nx ny axis)
      = (List.range (m + 1)).map (fun t => idx3 nx ny (shift axis a t)) := by
    rw [idx3_shift, arange_mul _ _ _ (stride_pos nx ny axis)]
    apply List.map_congr_left
    intro t _
    rw [idx3_shift]
  constructor
  · rw [findNodesOnLine_stride, Nat.min_eq_left hle, Nat.max_eq_right hle]; exact key
  · rw [findNodesOnLine_stride, Nat.min_eq_right hle, Nat.max_eq_left hle]; exact key

theorem nodeIdx_decode (nx ny i j k : Nat) (hi : i ≤ nx) (hj : j ≤ ny) :
    nodeIdx nx ny i j k % (nx + 1) = i ∧ (nodeIdx nx ny i j k / (nx + 1)) % (ny + 1) = j ∧
    nodeIdx nx ny i j k / (nx + 1) / (ny + 1) = k := by
  have h : nodeIdx nx ny i j k = i + (nx + 1) * (j + (ny + 1) * k) := by unfold nodeIdx; ring
  rw [h]
  have hi' : i < nx + 1 := by omega
  have hj' : j < ny + 1 := by omega
  refine ⟨?_, ?_, ?_⟩
  · rw [Nat.add_mul_mod_self_left, Nat.mod_eq_of_lt hi']
  · rw [Nat.add_mul_div_left _ _ (Nat.succ_pos nx), Nat.div_eq_of_lt hi', Nat.zero_add,
      Nat.add_mul_mod_self_left, Nat.mod_eq_of_lt hj']
  · rw [Nat.add_mul_div_left _ _ (Nat.succ_pos nx), Nat.div_eq_of_lt hi', Nat.zero_add,
      Nat.add_mul_div_left _ _ (Nat.succ_pos ny), Nat.div_eq_of_lt hj', Nat.zero_add]

theorem nodeIdx_inj (nx ny : Nat) {i j k i' j' k' : Nat} (hi : i ≤ nx) (hi' : i' ≤ nx) (hj : j ≤ ny) (hj' : j' ≤ ny)
    (h : nodeIdx nx ny i j k = nodeIdx nx ny i' j' k') : i = i' ∧ j = j' ∧ k = k' := by
  have d1 := nodeIdx_decode nx ny i j k hi hj
  have d2 := nodeIdx_decode nx ny i' j' k' hi' hj'
  rw [h] at d1
  exact ⟨d1.1.symm.trans d2.1, d1.2.1.symm.trans d2.2.1, d1.2.2.symm.trans d2.2.2⟩

theorem idx3_inj (nx ny : Nat) {a b : T3} (ha : InGrid nx ny a) (hb : InGrid nx ny b)
    (h : idx3 nx ny a = idx3 nx ny b) : a = b := by
  obtain ⟨a1, a2, a3⟩ := a
  obtain ⟨b1, b2, b3⟩ := b
  obtain ⟨h1, h2, h3⟩ := nodeIdx_inj nx ny ha.1 hb.1 ha.2 hb.2 h
  simp only [] at h1 h2 h3
  subst h1 h2 h3; rfl

theorem inGrid_shift_le (nx ny axis : Nat) (a : T3) {t m : Nat} (ht : t ≤ m)
    (h : InGrid nx ny (shift axis a m)) : InGrid nx ny (shift axis a t) := by
  unfold InGrid shift at *
  split at h <;> simp only [] at h ⊢ <;> omega

/-- the nodes found are exactly the grid nodes on the segment -/
theorem mem_findNodesOnLine (nx ny axis : Nat) (a b : T3) (m : Nat)
    (ha : InGrid nx ny (shift axis a m)) (hb : InGrid nx ny b) :
    idx3 nx ny b ∈ findNodesOnLine nx ny axis (idx3 nx ny a) (idx3 nx ny (shift axis a m)) ↔
      ∃ t, t ≤ m ∧ b = shift axis a t := by
  rw [(findNodesOnLine_eq nx ny axis a m).1, List.mem_map]
  constructor
  · rintro ⟨t, ht, h⟩
    have htm : t ≤ m := by have := List.mem_range.mp ht; omega
    exact ⟨t, htm, (idx3_inj nx ny (inGrid_shift_le nx ny axis a htm ha) hb h).symm⟩
  · rintro ⟨t, ht, rfl⟩
    exact ⟨t, List.mem_range.mpr (by omega), rfl⟩

/-! ### structured generators: faces of a fracture plane -/


theorem mul_pos_le_zero_iff (x w : Rat) (hw : 0 < w) : x * w ≤ 0 ↔ x ≤ 0 := by
  constructor
  · intro h
    by_contra hx
    have : 0 < x * w := mul_pos (lt_of_not_ge hx) hw
    linarith
  · intro h
    exact mul_nonpos_of_nonpos_of_nonneg h hw.le

macro "c25_ccw" : tactic => `(tactic|
  (simp only [isCcw, cyc, List.cons_append, List.nil_append, List.zip_cons_cons, List.zip_nil_right, List.map_cons,
      List.map_nil, List.foldl_cons, List.foldl_nil, decide_eq_true_eq, decide_eq_false_iff_not, not_lt]
   nlinarith))

macro "c25_hull" hc:ident : tactic => `(tactic|
  (simp only [inHull, $hc:ident, if_true, Bool.false_eq_true, if_false, cyc, List.cons_append, List.nil_append,
      List.zip_cons_cons, List.zip_nil_right, List.all_cons, List.all_nil, Bool.and_true, Bool.and_eq_true, decide_eq_true_eq]
   constructor
   · rintro ⟨h1, h2, h3, h4⟩
     refine ⟨⟨?_, ?_⟩, ?_, ?_⟩ <;> (by_contra hcon; rw [not_le] at hcon; nlinarith)
   · rintro ⟨⟨h1, h2⟩, h3, h4⟩
     refine ⟨?_, ?_, ?_, ?_⟩ <;> nlinarith))

theorem inHull_rect {u0 u1 v0 v1 : Rat} (hu : u0 < u1) (hv : v0 < v1) {P : List (Rat × Rat)}
    (hP : IsRectOrder u0 u1 v0 v1 P) (p : Rat × Rat) :
    inHull P p = true ↔ (u0 ≤ p.1 ∧ p.1 ≤ u1) ∧ (v0 ≤ p.2 ∧ p.2 ≤ v1) := by
  have hw : 0 < u1 - u0 := sub_pos.mpr hu
  have hz : 0 < v1 - v0 := sub_pos.mpr hv
  have hwz : 0 < (u1 - u0) * (v1 - v0) := mul_pos hw hz
  rcases hP with rfl | rfl | rfl | rfl | rfl | rfl | rfl | rfl
  · have hc : isCcw [(u0, v0), (u1, v0), (u1, v1), (u0, v1)] = true := by c25_ccw
    c25_hull hc
  · have hc : isCcw [(u1, v0), (u1, v1), (u0, v1), (u0, v0)] = true := by c25_ccw
    c25_hull hc
  · have hc : isCcw [(u1, v1), (u0, v1), (u0, v0), (u1, v0)] = true := by c25_ccw
    c25_hull hc
  · have hc : isCcw [(u0, v1), (u0, v0), (u1, v0), (u1, v1)] = true := by c25_ccw
    c25_hull hc
  · have hc : isCcw [(u0, v1), (u1, v1), (u1, v0), (u0, v0)] = false := by c25_ccw
    c25_hull hc
  · have hc : isCcw [(u1, v1), (u1, v0), (u0, v0), (u0, v1)] = false := by c25_ccw
    c25_hull hc
  · have hc : isCcw [(u1, v0), (u0, v0), (u0, v1), (u1, v1)] = false := by c25_ccw
    c25_hull hc
  · have hc : isCcw [(u0, v0), (u0, v1), (u1, v1), (u1, v0)] = false := by c25_ccw
    c25_hull hc


/-! ### monotone node coordinates -/

section mono
variable {X : Nat → Rat} {N : Nat}

theorem mono_le (hm : ∀ a b, a < b → b ≤ N → X a < X b) {a b : Nat} (hab : a ≤ b) (hb : b ≤ N) : X a ≤ X b := by
  rcases Nat.lt_or_eq_of_le hab with h | h
  · exact (hm a b h hb).le
  · rw [h]

theorem flat_same (hm : ∀ a b, a < b → b ≤ N → X a < X b) {tol : Rat} (htol : 0 < tol)
    (hgap : ∀ i, i < N → tol < (X (i + 1) - X i) / 2) {i k0 : Nat} (hi : i ≤ N) (hk : k0 ≤ N) :
    (X k0 - tol ≤ X i ∧ X i < X k0 + tol) ↔ i = k0 := by
  constructor
  · rintro ⟨h1, h2⟩
    rcases Nat.lt_trichotomy i k0 with h | h | h
    · have g := hgap i (by omega)
      have := mono_le hm (show i + 1 ≤ k0 by omega) hk
      linarith
    · exact h
    · have g := hgap k0 (by omega)
      have := mono_le hm (show k0 + 1 ≤ i by omega) hi
      linarith
  · rintro rfl
    constructor <;> linarith

theorem flat_mid_false (hm : ∀ a b, a < b → b ≤ N → X a < X b) {tol : Rat}
    (hgap : ∀ i, i < N → tol < (X (i + 1) - X i) / 2) {i k0 : Nat} (hi : i < N) (hk : k0 ≤ N) :
    ¬ (X k0 - tol ≤ (X i + X (i + 1)) / 2 ∧ (X i + X (i + 1)) / 2 < X k0 + tol) := by
  rintro ⟨h1, h2⟩
  have g := hgap i hi
  rcases Nat.lt_or_ge i k0 with h | h
  · have := mono_le hm (show i + 1 ≤ k0 by omega) hk
    linarith
  · have := mono_le hm h (show i ≤ N by omega)
    linarith

theorem mid_between (hm : ∀ a b, a < b → b ≤ N → X a < X b) {i l h : Nat} (hi : i < N) (hl : l ≤ N) (hh : h ≤ N) :
    (X l ≤ (X i + X (i + 1)) / 2 ∧ (X i + X (i + 1)) / 2 ≤ X h) ↔ l ≤ i ∧ i + 1 ≤ h := by
  have hstep := hm i (i + 1) (Nat.lt_succ_self i) hi
  constructor
  · rintro ⟨h1, h2⟩
    constructor
    · by_contra hc
      have := mono_le hm (show i + 1 ≤ l by omega) hl
      linarith
    · by_contra hc
      have := mono_le hm (show h ≤ i by omega) (show i ≤ N by omega)
      linarith
  · rintro ⟨h1, h2⟩
    have a1 := mono_le hm h1 (show i ≤ N by omega)
    have a2 := mono_le hm h2 hh
    constructor <;> linarith

end mono

/-! ### faces on a fracture plane -/

theorem activeDims_facts {o : Nat} (ho : o < 3) :
    (activeDims o).1 < 3 ∧ (activeDims o).2 < 3 ∧ (activeDims o).1 ≠ o ∧ (activeDims o).2 ≠ o ∧
    (activeDims o).1 ≠ (activeDims o).2 := by
  have : o = 0 ∨ o = 1 ∨ o = 2 := by omega
  rcases this with rfl | rfl | rfl <;> decide

theorem validFace_get {g : Grid3} {f : Nat × T3} (hf : g.ValidFace f) {c : Nat} (hc : c < 3) :
    f.2.get c < g.bound f.1 c := by
  have : c = 0 ∨ c = 1 ∨ c = 2 := by omega
  rcases this with rfl | rfl | rfl
  · exact hf.2.1
  · exact hf.2.2.1
  · exact hf.2.2.2

theorem face_on_plane_iff {g : Grid3} {o k0 a0 a1 b0 b1 : Nat} {p tol : Rat} {P : List (Rat × Rat)}
    (h : g.PlaneSpec o k0 a0 a1 b0 b1 p tol P) {f : Nat × T3} (hf : g.ValidFace f) :
    g.faceOnPlane o p tol P f = true ↔
      f.1 = o ∧ f.2.get o = k0 ∧ (a0 ≤ f.2.get (activeDims o).1 ∧ f.2.get (activeDims o).1 < a1) ∧
        (b0 ≤ f.2.get (activeDims o).2 ∧ f.2.get (activeDims o).2 < b1) := by
  obtain ⟨ha3, hb3, hao, hbo, _⟩ := activeDims_facts h.ho
  have hmo := fun a b hab hb => h.mono o a b h.ho hab hb
  unfold Grid3.faceOnPlane
  rw [Bool.and_eq_true, Bool.and_eq_true, decide_eq_true_iff, decide_eq_true_iff]
  by_cases hd : f.1 = o
  · -- a face of the right kind
    have hca : g.center f.1 f.2 (activeDims o).1 = (g.x (activeDims o).1 (f.2.get (activeDims o).1)
        + g.x (activeDims o).1 (f.2.get (activeDims o).1 + 1)) / 2 := by
      unfold Grid3.center; rw [if_neg (by rw [hd]; exact hao)]
    have hcb : g.center f.1 f.2 (activeDims o).2 = (g.x (activeDims o).2 (f.2.get (activeDims o).2)
        + g.x (activeDims o).2 (f.2.get (activeDims o).2 + 1)) / 2 := by
      unfold Grid3.center; rw [if_neg (by rw [hd]; exact hbo)]
    have hco : g.center f.1 f.2 o = g.x o (f.2.get o) := by
      unfold Grid3.center; rw [if_pos hd.symm]
    have hta : f.2.get (activeDims o).1 < g.n (activeDims o).1 := by
      have := validFace_get hf ha3
      unfold Grid3.bound at this; rwa [if_neg (by rw [hd]; exact hao)] at this
    have htb : f.2.get (activeDims o).2 < g.n (activeDims o).2 := by
      have := validFace_get hf hb3
      unfold Grid3.bound at this; rwa [if_neg (by rw [hd]; exact hbo)] at this
    have hto : f.2.get o ≤ g.n o := by
      have := validFace_get hf h.ho
      unfold Grid3.bound at this; rw [if_pos hd.symm] at this; omega
    have hua : g.x (activeDims o).1 a0 < g.x (activeDims o).1 a1 := h.mono _ _ _ ha3 h.ha.1 h.ha.2
    have hub : g.x (activeDims o).2 b0 < g.x (activeDims o).2 b1 := h.mono _ _ _ hb3 h.hb.1 h.hb.2
    rw [inHull_rect hua hub h.rect, hco, h.hp]
    simp only []
    rw [hca, hcb,
      mid_between (fun a b hab hb => h.mono _ a b ha3 hab hb) hta (by have := h.ha; omega) h.ha.2,
      mid_between (fun a b hab hb => h.mono _ a b hb3 hab hb) htb (by have := h.hb; omega) h.hb.2,
      flat_same hmo h.htol h.hgap hto h.hk]
    constructor
    · rintro ⟨⟨⟨h1, h2⟩, h3, h4⟩, h5⟩
      exact ⟨hd, h5, ⟨h1, by omega⟩, h3, by omega⟩
    · rintro ⟨_, h5, ⟨h1, h2⟩, h3, h4⟩
      exact ⟨⟨⟨h1, by omega⟩, h3, by omega⟩, h5⟩
  · -- a face of another kind: its centre is half a cell away from every grid plane x_o = const
    have hco : g.center f.1 f.2 o = (g.x o (f.2.get o) + g.x o (f.2.get o + 1)) / 2 := by
      unfold Grid3.center; rw [if_neg (fun e => hd e.symm)]
    have hto : f.2.get o < g.n o := by
      have := validFace_get hf h.ho
      unfold Grid3.bound at this; rwa [if_neg (fun e => hd e.symm)] at this
    constructor
    · rintro ⟨_, hflat⟩
      rw [hco, h.hp] at hflat
      exact absurd hflat (flat_mid_false hmo h.hgap hto h.hk)
    · rintro ⟨e, _⟩; exact absurd e hd

theorem mem_facesOfKind (g : Grid3) (d : Nat) (f : Nat × T3) :
    f ∈ g.facesOfKind d ↔ f.1 = d ∧ f.2.1 < g.bound d 0 ∧ f.2.2.1 < g.bound d 1 ∧ f.2.2.2 < g.bound d 2 := by
  obtain ⟨fd, i, j, k⟩ := f
  unfold Grid3.facesOfKind
  simp only [List.mem_flatMap, List.mem_map, List.mem_range, Prod.mk.injEq]
  constructor
  · rintro ⟨k', hk, j', hj, i', hi, rfl, rfl, rfl, rfl⟩
    exact ⟨rfl, hi, hj, hk⟩
  · rintro ⟨rfl, hi, hj, hk⟩
    exact ⟨k, hk, j, hj, i, hi, rfl, rfl, rfl, rfl⟩

theorem mem_allFaces (g : Grid3) (f : Nat × T3) : f ∈ g.allFaces ↔ g.ValidFace f := by
  obtain ⟨fd, t⟩ := f
  unfold Grid3.allFaces Grid3.ValidFace
  simp only [List.mem_append, mem_facesOfKind]
  constructor
  · rintro ((⟨h, h1⟩ | ⟨h, h1⟩) | ⟨h, h1⟩) <;> (subst h; exact ⟨by omega, h1⟩)
  · rintro ⟨h3, h1⟩
    have : fd = 0 ∨ fd = 1 ∨ fd = 2 := by omega
    rcases this with h | h | h <;> subst h
    · exact Or.inl (Or.inl ⟨rfl, h1⟩)
    · exact Or.inl (Or.inr ⟨rfl, h1⟩)
    · exact Or.inr ⟨rfl, h1⟩

/-- the faces `_create_lower_dim_grids_3d` tags for a fracture are exactly the grid faces lying on it -/
theorem mem_planeFaces {g : Grid3} {o k0 a0 a1 b0 b1 : Nat} {p tol : Rat} {P : List (Rat × Rat)}
    (h : g.PlaneSpec o k0 a0 a1 b0 b1 p tol P) (x : Nat) :
    x ∈ g.planeFaces o p tol P ↔ ∃ f : Nat × T3, g.ValidFace f ∧ f.1 = o ∧ f.2.get o = k0 ∧
      (a0 ≤ f.2.get (activeDims o).1 ∧ f.2.get (activeDims o).1 < a1) ∧
      (b0 ≤ f.2.get (activeDims o).2 ∧ f.2.get (activeDims o).2 < b1) ∧ x = g.faceIndex f := by
  unfold Grid3.planeFaces
  rw [List.mem_map]
  constructor
  · rintro ⟨f, hf, rfl⟩
    rw [List.mem_filter, mem_allFaces] at hf
    obtain ⟨h1, h2, h3, h4⟩ := (face_on_plane_iff h hf.1).mp hf.2
    exact ⟨f, hf.1, h1, h2, h3, h4, rfl⟩
  · rintro ⟨f, hv, h1, h2, h3, h4, rfl⟩
    exact ⟨f, List.mem_filter.mpr ⟨(mem_allFaces g f).mpr hv, (face_on_plane_iff h hv).mpr ⟨h1, h2, h3, h4⟩⟩, rfl⟩

/-! ### nodes of a fracture plane -/

theorem forall_lt3_iff {o : Nat} (ho : o < 3) (Q : Nat → Prop) :
    (∀ c, c < 3 → Q c) ↔ Q o ∧ Q (activeDims o).1 ∧ Q (activeDims o).2 := by
  have : o = 0 ∨ o = 1 ∨ o = 2 := by omega
  constructor
  · intro h
    obtain ⟨h1, h2, _⟩ := activeDims_facts ho
    exact ⟨h o ho, h _ h1, h _ h2⟩
  · rintro ⟨h0, h1, h2⟩ c hc
    have hc' : c = 0 ∨ c = 1 ∨ c = 2 := by omega
    rcases this with rfl | rfl | rfl <;> rcases hc' with rfl | rfl | rfl <;> assumption

theorem exists_T3 {o : Nat} (ho : o < 3) (vo va vb : Nat) :
    ∃ t : T3, t.get o = vo ∧ t.get (activeDims o).1 = va ∧ t.get (activeDims o).2 = vb := by
  have : o = 0 ∨ o = 1 ∨ o = 2 := by omega
  rcases this with rfl | rfl | rfl
  · exact ⟨(vo, va, vb), rfl, rfl, rfl⟩
  · exact ⟨(va, vo, vb), rfl, rfl, rfl⟩
  · exact ⟨(va, vb, vo), rfl, rfl, rfl⟩

theorem validFace_iff (g : Grid3) (f : Nat × T3) :
    g.ValidFace f ↔ f.1 < 3 ∧ ∀ c, c < 3 → f.2.get c < g.bound f.1 c := by
  constructor
  · intro h; exact ⟨h.1, fun c hc => validFace_get h hc⟩
  · rintro ⟨h3, h⟩
    exact ⟨h3, h 0 (by omega), h 1 (by omega), h 2 (by omega)⟩

theorem mem_faceNodes (g : Grid3) (f : Nat × T3) (hf : f.1 < 3) (n : Nat) :
    n ∈ g.faceNodes f ↔ ∃ c : T3, c.get f.1 = f.2.get f.1 ∧
      (c.get (activeDims f.1).1 = f.2.get (activeDims f.1).1 ∨ c.get (activeDims f.1).1 = f.2.get (activeDims f.1).1 + 1) ∧
      (c.get (activeDims f.1).2 = f.2.get (activeDims f.1).2 ∨ c.get (activeDims f.1).2 = f.2.get (activeDims f.1).2 + 1) ∧
      n = idx3 (g.n 0) (g.n 1) c := by
  obtain ⟨d, i, j, k⟩ := f
  have : d = 0 ∨ d = 1 ∨ d = 2 := by have : d < 3 := hf; omega
  rcases this with rfl | rfl | rfl
  all_goals
    simp only [Grid3.faceNodes, activeDims, T3.get, idx3, List.mem_cons, List.not_mem_nil, or_false]
    constructor
    · rintro (rfl | rfl | rfl | rfl)
      · exact ⟨(i, j, k), rfl, Or.inl rfl, Or.inl rfl, rfl⟩
      · first
          | exact ⟨(i, j + 1, k), rfl, Or.inr rfl, Or.inl rfl, rfl⟩
          | exact ⟨(i, j, k + 1), rfl, Or.inl rfl, Or.inr rfl, rfl⟩
          | exact ⟨(i + 1, j, k), rfl, Or.inr rfl, Or.inl rfl, rfl⟩
      · first
          | exact ⟨(i, j + 1, k + 1), rfl, Or.inr rfl, Or.inr rfl, rfl⟩
          | exact ⟨(i + 1, j, k + 1), rfl, Or.inr rfl, Or.inr rfl, rfl⟩
          | exact ⟨(i + 1, j + 1, k), rfl, Or.inr rfl, Or.inr rfl, rfl⟩
      · first
          | exact ⟨(i, j, k + 1), rfl, Or.inl rfl, Or.inr rfl, rfl⟩
          | exact ⟨(i + 1, j, k), rfl, Or.inr rfl, Or.inl rfl, rfl⟩
          | exact ⟨(i, j + 1, k), rfl, Or.inl rfl, Or.inr rfl, rfl⟩
    · rintro ⟨⟨c1, c2, c3⟩, h0, ha, hb, rfl⟩
      simp only [] at h0 ha hb
      subst h0
      rcases ha with rfl | rfl <;> rcases hb with rfl | rfl <;> simp

theorem idx3_lt (nx ny nz : Nat) (c : T3) (h1 : c.1 ≤ nx) (h2 : c.2.1 ≤ ny) (h3 : c.2.2 ≤ nz) :
    idx3 nx ny c < (nx + 1) * (ny + 1) * (nz + 1) := by
  unfold idx3 nodeIdx
  have e1 : c.2.1 * (nx + 1) ≤ ny * (nx + 1) := Nat.mul_le_mul_right _ h2
  have e2 : c.2.2 * ((nx + 1) * (ny + 1)) ≤ nz * ((nx + 1) * (ny + 1)) := Nat.mul_le_mul_right _ h3
  have e3 : (nx + 1) * (ny + 1) * (nz + 1) = nz * ((nx + 1) * (ny + 1)) + (ny * (nx + 1) + (nx + 1)) := by ring
  rw [e3]; omega

/-- the node set of the fracture grid is exactly the set of grid nodes lying on the rectangle -/
theorem mem_planeNodes {g : Grid3} {o k0 a0 a1 b0 b1 : Nat} {p tol : Rat} {P : List (Rat × Rat)}
    (h : g.PlaneSpec o k0 a0 a1 b0 b1 p tol P) (n : Nat) :
    n ∈ g.planeNodes o p tol P ↔ ∃ c : T3, c.get o = k0 ∧
      (a0 ≤ c.get (activeDims o).1 ∧ c.get (activeDims o).1 ≤ a1) ∧
      (b0 ≤ c.get (activeDims o).2 ∧ c.get (activeDims o).2 ≤ b1) ∧ n = idx3 (g.n 0) (g.n 1) c := by
  obtain ⟨ha3, hb3, hao, hbo, _⟩ := activeDims_facts h.ho
  unfold Grid3.planeNodes
  simp only [List.mem_filter, List.mem_range, decide_eq_true_iff, List.mem_flatMap]
  constructor
  · rintro ⟨_, f, ⟨hfa, hfs⟩, hn⟩
    have hv := (mem_allFaces g f).mp hfa
    obtain ⟨hd, h2, ⟨h3, h4⟩, h5, h6⟩ := (face_on_plane_iff h hv).mp hfs
    obtain ⟨c, c0, ca, cb, rfl⟩ := (mem_faceNodes g f hv.1 n).mp hn
    rw [hd] at c0 ca cb
    refine ⟨c, by rw [c0, h2], ⟨?_, ?_⟩, ⟨?_, ?_⟩, rfl⟩ <;> omega
  · rintro ⟨c, c0, ⟨ca0, ca1⟩, ⟨cb0, cb1⟩, rfl⟩
    have hbound : ∀ d, d < 3 → c.get d ≤ g.n d := by
      rw [forall_lt3_iff h.ho]
      exact ⟨by rw [c0]; exact h.hk, by have := h.ha; omega, by have := h.hb; omega⟩
    refine ⟨idx3_lt _ _ _ c (hbound 0 (by omega)) (hbound 1 (by omega)) (hbound 2 (by omega)), ?_⟩
    -- a face of the rectangle that has the node as a corner
    obtain ⟨ta, hta1, hta2, hta3⟩ : ∃ ta, a0 ≤ ta ∧ ta < a1 ∧
        (c.get (activeDims o).1 = ta ∨ c.get (activeDims o).1 = ta + 1) := by
      by_cases hlt : c.get (activeDims o).1 < a1
      · exact ⟨_, ca0, hlt, Or.inl rfl⟩
      · exact ⟨a1 - 1, by have := h.ha; omega, by have := h.ha; omega, Or.inr (by have := h.ha; omega)⟩
    obtain ⟨tb, htb1, htb2, htb3⟩ : ∃ tb, b0 ≤ tb ∧ tb < b1 ∧
        (c.get (activeDims o).2 = tb ∨ c.get (activeDims o).2 = tb + 1) := by
      by_cases hlt : c.get (activeDims o).2 < b1
      · exact ⟨_, cb0, hlt, Or.inl rfl⟩
      · exact ⟨b1 - 1, by have := h.hb; omega, by have := h.hb; omega, Or.inr (by have := h.hb; omega)⟩
    obtain ⟨t, t0, t1, t2⟩ := exists_T3 h.ho k0 ta tb
    have hv : g.ValidFace (o, t) := by
      rw [validFace_iff]
      refine ⟨h.ho, ?_⟩
      show ∀ d, d < 3 → t.get d < g.bound o d
      rw [forall_lt3_iff h.ho]
      unfold Grid3.bound
      rw [if_pos rfl, if_neg hao, if_neg hbo, t0, t1, t2]
      exact ⟨by have := h.hk; omega, by have := h.ha; omega, by have := h.hb; omega⟩
    refine ⟨(o, t), ⟨(mem_allFaces g _).mpr hv, (face_on_plane_iff h hv).mpr ⟨rfl, t0, ?_, ?_⟩⟩, ?_⟩
    · show a0 ≤ t.get _ ∧ t.get _ < a1; rw [t1]; exact ⟨hta1, hta2⟩
    · show b0 ≤ t.get _ ∧ t.get _ < b1; rw [t2]; exact ⟨htb1, htb2⟩
    · rw [mem_faceNodes g (o, t) h.ho]
      refine ⟨c, ?_, ?_, ?_, rfl⟩
      · show c.get o = t.get o; rw [c0, t0]
      · show c.get _ = t.get _ ∨ c.get _ = t.get _ + 1; rw [t1]; exact hta3
      · show c.get _ = t.get _ ∨ c.get _ = t.get _ + 1; rw [t2]; exact htb3


/-! ### node splitting -/

theorem listMin_le_init (m : Nat) (xs : List Nat) : listMin m xs ≤ m := by
  induction xs with
  | nil => exact Nat.le_refl _
  | cons x t ih => exact Nat.le_trans (Nat.min_le_right _ _) ih

theorem listMin_le_mem (m : Nat) (xs : List Nat) {x : Nat} (hx : x ∈ xs) : listMin m xs ≤ x := by
  induction xs with
  | nil => cases hx
  | cons y t ih =>
    rcases List.mem_cons.mp hx with rfl | h
    · exact Nat.min_le_left _ _
    · exact Nat.le_trans (Nat.min_le_right _ _) (ih h)

theorem listMin_mem (m : Nat) (xs : List Nat) : listMin m xs = m ∨ listMin m xs ∈ xs := by
  induction xs with
  | nil => exact Or.inl rfl
  | cons y t ih =>
    show min y (listMin m t) = m ∨ min y (listMin m t) ∈ y :: t
    rcases Nat.le_total y (listMin m t) with h | h
    · rw [Nat.min_eq_left h]; exact Or.inr List.mem_cons_self
    · rw [Nat.min_eq_right h]
      rcases ih with e | e
      · exact Or.inl e
      · exact Or.inr (List.mem_cons_of_mem _ e)

theorem tab_map (L : List Nat) (f : Nat → Nat) (c : Nat) : tab L (L.map f) c = if c ∈ L then f c else c := by
  induction L with
  | nil => simp [tab]
  | cons k ks ih =>
    simp only [List.map_cons, tab]
    by_cases h : c = k
    · subst h; simp
    · rw [if_neg h, ih]; simp [h]

theorem adj_iff (g : NodeGrid) (a b : Nat) : g.adj a b = true ↔ ∃ f, f ∈ g.cellFaces a ∧ f ∈ g.cellFaces b := by
  simp [NodeGrid.adj, List.any_eq_true]

theorem adj_symm (g : NodeGrid) {a b : Nat} (h : g.adj a b = true) : g.adj b a = true := by
  rw [adj_iff] at h ⊢
  obtain ⟨f, h1, h2⟩ := h
  exact ⟨f, h2, h1⟩

theorem Conn.trans {g : NodeGrid} {L : List Nat} {a b c : Nat} (h1 : Conn g L a b) (h2 : Conn g L b c) :
    Conn g L a c := by
  induction h2 with
  | refl => exact h1
  | step _ hb hc hadj ih => exact Conn.step ih hb hc hadj

theorem Conn.single {g : NodeGrid} {L : List Nat} {a b : Nat} (ha : a ∈ L) (hb : b ∈ L) (h : g.adj a b = true) :
    Conn g L a b := Conn.step (Conn.refl a) ha hb h

theorem Conn.symm {g : NodeGrid} {L : List Nat} {a b : Nat} (h : Conn g L a b) : Conn g L b a := by
  induction h with
  | refl => exact Conn.refl _
  | step _ hb hc hadj ih => exact (Conn.single hc hb (adj_symm g hadj)).trans ih

/-- every label is a cell of the cluster connected to the cell that carries it -/
def Good (g : NodeGrid) (L : List Nat) (lab : Nat → Nat) : Prop := ∀ c, c ∈ L → lab c ∈ L ∧ Conn g L c (lab c)

theorem stepLab_cases (g : NodeGrid) (L : List Nat) (lab : Nat → Nat) (c : Nat) :
    g.stepLab L lab c = lab c ∨ ∃ d, d ∈ L ∧ g.adj c d = true ∧ g.stepLab L lab c = lab d := by
  unfold NodeGrid.stepLab
  rcases listMin_mem (lab c) ((L.filter (fun d => g.adj c d)).map lab) with h | h
  · exact Or.inl h
  · obtain ⟨d, hd, e⟩ := List.mem_map.mp h
    rw [List.mem_filter] at hd
    exact Or.inr ⟨d, hd.1, hd.2, e.symm⟩

theorem good_step (g : NodeGrid) (L : List Nat) (lab : Nat → Nat) (h : Good g L lab) :
    Good g L (tab L (L.map (g.stepLab L lab))) := by
  intro c hc
  rw [tab_map, if_pos hc]
  rcases stepLab_cases g L lab c with e | ⟨d, hd, hadj, e⟩
  · rw [e]; exact h c hc
  · rw [e]
    exact ⟨(h d hd).1, (Conn.single hc hd hadj).trans (h d hd).2⟩

theorem tab_self (L : List Nat) (c : Nat) : tab L L c = c := by
  have := tab_map L (fun x => x) c
  rw [List.map_id'] at this
  rw [this]; split <;> rfl

theorem good_iter (g : NodeGrid) (L : List Nat) : ∀ (t : Nat) (v : List Nat), Good g L (tab L v) →
    Good g L (tab L (g.iterVals L t v)) := by
  intro t
  induction t with
  | zero => intro v h; exact h
  | succ t ih => intro v h; exact ih _ (good_step g L (tab L v) h)

theorem good_labels (g : NodeGrid) (L : List Nat) : Good g L (g.labels L) :=
  good_iter g L _ _ (fun c hc => by rw [tab_self]; exact ⟨hc, Conn.refl c⟩)

theorem stable_adj {g : NodeGrid} {L : List Nat} {lab : Nat → Nat} (hs : g.stable L lab = true)
    {a b : Nat} (ha : a ∈ L) (hb : b ∈ L) (hadj : g.adj a b = true) : lab a = lab b := by
  have key : ∀ {a b : Nat}, a ∈ L → b ∈ L → g.adj a b = true → lab a ≤ lab b := by
    intro a b ha hb hadj
    have h1 : g.stepLab L lab a = lab a := by
      have := List.all_eq_true.mp hs a ha
      simpa using this
    rw [← h1]
    unfold NodeGrid.stepLab
    exact listMin_le_mem _ _ (List.mem_map.mpr ⟨b, List.mem_filter.mpr ⟨hb, hadj⟩, rfl⟩)
  exact Nat.le_antisymm (key ha hb hadj) (key hb ha (adj_symm g hadj))

theorem stable_conn {g : NodeGrid} {L : List Nat} {lab : Nat → Nat} (hs : g.stable L lab = true)
    {a b : Nat} (h : Conn g L a b) : lab a = lab b := by
  induction h with
  | refl => rfl
  | step _ hb hc hadj ih => exact ih.trans (stable_adj hs hb hc hadj)

/-- labels characterise the connected components -/
theorem label_eq_iff_conn {g : NodeGrid} {L : List Nat} {lab : Nat → Nat} (hg : Good g L lab)
    (hs : g.stable L lab = true) {a b : Nat} (ha : a ∈ L) (hb : b ∈ L) : lab a = lab b ↔ Conn g L a b := by
  constructor
  · intro e
    have h1 := (hg a ha).2
    have h2 := (hg b hb).2
    rw [← e] at h2
    exact h1.trans h2.symm
  · exact stable_conn hs

theorem label_mem_roots {g : NodeGrid} {L : List Nat} {lab : Nat → Nat} (hg : Good g L lab)
    (hs : g.stable L lab = true) {a : Nat} (ha : a ∈ L) : lab a ∈ roots L lab := by
  unfold roots
  rw [List.mem_filter]
  exact ⟨(hg a ha).1, by simpa using (stable_conn hs (hg a ha).2).symm⟩

theorem nodup_cluster (g : NodeGrid) (n : Nat) : (g.cluster n).Nodup := (List.nodup_range).filter _

theorem nodup_roots {L : List Nat} (lab : Nat → Nat) (h : L.Nodup) : (roots L lab).Nodup := h.filter _

theorem offsetAux_none (hit : Nat → Bool) (rs : List Nat) (t : Nat) (h : ∀ r, r ∈ rs → hit r = false) :
    offsetAux hit rs t = 0 := by
  induction rs generalizing t with
  | nil => rfl
  | cons r rs ih =>
    simp only [offsetAux, h r List.mem_cons_self, Bool.false_eq_true, and_false, if_false, Nat.zero_add]
    exact ih _ (fun x hx => h x (List.mem_cons_of_mem _ hx))

theorem offsetAux_single (hit : Nat → Bool) (rs : List Nat) (t r0 : Nat) (hnd : rs.Nodup) (hr0 : r0 ∈ rs)
    (hh : ∀ r, r ∈ rs → (hit r = true ↔ r = r0)) : offsetAux hit rs t = t + rs.idxOf r0 := by
  induction rs generalizing t with
  | nil => cases hr0
  | cons r rs ih =>
    rw [List.nodup_cons] at hnd
    by_cases hr : r = r0
    · subst hr
      have hhit : hit r = true := (hh r List.mem_cons_self).mpr rfl
      have hrest : offsetAux hit rs (t + 1) = 0 := offsetAux_none hit rs _ (fun x hx => by
        cases hx' : hit x with
        | false => rfl
        | true => exact absurd ((hh x (List.mem_cons_of_mem _ hx)).mp hx' ▸ hx) hnd.1)
      simp only [offsetAux, hhit, and_true, hrest, List.idxOf_cons_self, Nat.add_zero]
      by_cases h1 : 1 ≤ t
      · rw [if_pos h1]
      · rw [if_neg h1]; omega
    · have hhit : hit r = false := by
        cases hx' : hit r with
        | false => rfl
        | true => exact absurd ((hh r List.mem_cons_self).mp hx') hr
      have hr0' : r0 ∈ rs := by
        rcases List.mem_cons.mp hr0 with e | e
        · exact absurd e.symm hr
        · exact e
      simp only [offsetAux, hhit, Bool.false_eq_true, and_false, if_false, Nat.zero_add]
      rw [ih (t + 1) hnd.2 hr0' (fun x hx => hh x (List.mem_cons_of_mem _ hx)),
        List.idxOf_cons]
      have : (r == r0) = false := by simpa using hr
      rw [this, cond_false]
      omega

theorem lookupInfo_map (F : Nat → NodeInfo) (split : List Nat) (n : Nat) :
    lookupInfo (split.map (fun m => (m, F m))) n = if n ∈ split then some (F n) else none := by
  induction split with
  | nil => rfl
  | cons k ks ih =>
    simp only [List.map_cons, lookupInfo]
    by_cases h : n = k
    · subst h; simp
    · rw [if_neg h, ih]; simp [h]

theorem duplicateNodes_some {g : NodeGrid} {split : List Nat} {r : NodeOut} (h : g.duplicateNodes split = some r) :
    (∀ n, n ∈ split → g.stable (g.cluster n) (g.labels (g.cluster n)) = true) ∧
    r.nN = g.nN + ((split.map (fun n => (roots (g.cluster n) (g.labels (g.cluster n))).length - 1)).foldl (· + ·) 0) ∧
    (∀ f, r.faceNodes f = (g.faceNodes f).map (fun n =>
        n + (if n ∈ split then g.offset (g.info n) f else 0) + incBefore (split.map (fun m => (m, g.info m))) n)) := by
  unfold NodeGrid.duplicateNodes at h
  simp only [] at h
  split at h
  · rename_i hall
    injection h with h
    subst h
    refine ⟨?_, ?_, ?_⟩
    · intro n hn
      have := List.all_eq_true.mp hall (n, g.info n) (List.mem_map.mpr ⟨n, hn, rfl⟩)
      exact this
    · simp only [List.map_map]; rfl
    · intro f
      apply List.map_congr_left
      intro n _
      simp only [lookupInfo_map]
      by_cases hn : n ∈ split
      · simp [hn]
      · simp [hn]
  · cases h

/-- in the faces of a cell `c` around a split node, the node is replaced by the copy that belongs to
    the component of `c` (copy number = rank of the component) -/
theorem offset_eq_rank {g : NodeGrid} {n c f : Nat}
    (hs : g.stable (g.cluster n) (g.labels (g.cluster n)) = true)
    (hc : c ∈ g.cluster n) (hf : f ∈ g.cellFaces c) :
    g.offset (g.info n) f = (roots (g.cluster n) (g.labels (g.cluster n))).idxOf (g.labels (g.cluster n) c) := by
  have hg := good_labels g (g.cluster n)
  have := offsetAux_single
    (fun r => (g.cluster n).any (fun c' => g.labels (g.cluster n) c' = r && decide (f ∈ g.cellFaces c')))
    (roots (g.cluster n) (g.labels (g.cluster n))) 0 (g.labels (g.cluster n) c)
    (nodup_roots _ (nodup_cluster g n)) (label_mem_roots hg hs hc)
    (fun r _ => by
      simp only [List.any_eq_true, Bool.and_eq_true, decide_eq_true_eq]
      constructor
      · rintro ⟨c', hc', hl, hf'⟩
        rw [← hl]
        exact stable_adj hs hc' hc ((adj_iff g c' c).mpr ⟨f, hf', hf⟩)
      · intro e
        exact ⟨c, hc, e.symm, hf⟩)
  rw [Nat.zero_add] at this
  exact this

/-! ### decidable input conditions -/

theorem interior_of_interiorB {s : Host} {g : Nat} (h : s.interiorB g = true) : s.Interior g := by
  unfold Host.interiorB at h
  split at h
  · rename_i a b hab
    rw [Bool.and_eq_true] at h
    obtain ⟨h1, h2⟩ := h
    have h2' : b.sign = -a.sign := by simpa using h2
    cases hal : a.left with
    | false =>
      have hbl : b.left = true := by
        cases hb : b.left with
        | true => rfl
        | false => rw [hal, hb] at h1; simp at h1
      exact ⟨a, b, Or.inl hab, hal, hbl, h2'⟩
    | true =>
      have hbl : b.left = false := by
        cases hb : b.left with
        | false => rfl
        | true => rw [hal, hb] at h1; simp at h1
      exact ⟨b, a, Or.inr hab, hbl, hal, by omega⟩
  · cases h

theorem valid_of_validB {s : Host} (h : s.validB = true) : s.Valid := by
  unfold Host.validB at h
  rw [Bool.and_eq_true] at h
  obtain ⟨hal, hall⟩ := h
  have key : ∀ i g, i < s.nFr → g < s.nF → ∀ l, s.fc i g = some l →
      (∀ j, j < s.nFr → j = i ∨ s.fc j g = none) ∧ (∀ g', g' < s.nF → g' = g ∨ s.fc i g' ≠ some l) ∧
      (s.rem g = true ∨ s.interiorB g = true) := by
    intro i g hi hg l hfl
    have := List.all_eq_true.mp (List.all_eq_true.mp hall i (List.mem_range.mpr hi)) g (List.mem_range.mpr hg)
    rw [hfl] at this
    simp only [Bool.and_eq_true, List.all_eq_true, List.mem_range, Bool.or_eq_true, beq_iff_eq,
      Option.isNone_iff_eq_none, bne_iff_ne] at this
    exact ⟨this.1.1, this.1.2, this.2⟩
  refine ⟨by simpa using hal, ?_, ?_, ?_⟩
  · intro i j g hi hj hne hg hs
    obtain ⟨l, hl⟩ := Option.isSome_iff_exists.mp hs
    rcases (key i g hi hg l hl).1 j hj with e | e
    · exact absurd e.symm hne
    · exact e
  · intro i g g' l hi hg hg' h1 h2
    rcases (key i g hi hg l h1).2.1 g' hg' with e | e
    · exact e.symm
    · exact absurd h2 e
  · intro i g hi hg hs hr
    obtain ⟨l, hl⟩ := Option.isSome_iff_exists.mp hs
    rcases (key i g hi hg l hl).2.2 with e | e
    · rw [hr] at e; cases e
    · exact interior_of_interiorB e

theorem noFrac_of_noFracB {s : Host} (h : s.noFracB = true) : ∀ g, g < s.nF → s.frac g = false := by
  intro g hg
  have := List.all_eq_true.mp h g (List.mem_range.mpr hg)
  simpa using this

end PorepyVerif.C25
