/-
C25 — helper lemmas (the property theorems are in Props.lean).
-/
import PorepyVerif.C25.Model

namespace PorepyVerif.C25

/-! ### finite sums -/

theorem sumTo_congr {n : Nat} {F G : Nat → Nat} (h : ∀ g, g < n → F g = G g) :
    sumTo n F = sumTo n G := by
  induction n with
  | zero => rfl
  | succ n ih =>
    simp only [sumTo]
    rw [ih (fun g hg => h g (Nat.lt_succ_of_lt hg)), h n (Nat.lt_succ_self n)]

theorem sumTo_add_fun (n : Nat) (F G : Nat → Nat) :
    sumTo n (fun g => F g + G g) = sumTo n F + sumTo n G := by
  induction n with
  | zero => rfl
  | succ n ih => simp only [sumTo, ih]; omega

theorem sumTo_add (a b : Nat) (F : Nat → Nat) :
    sumTo (a + b) F = sumTo a F + sumTo b (fun p => F (a + p)) := by
  induction b with
  | zero => simp [sumTo]
  | succ b ih =>
    have : a + (b + 1) = (a + b) + 1 := by omega
    rw [this]
    simp only [sumTo, ih]; omega

theorem sumTo_zero_fun (n : Nat) : sumTo n (fun _ => 0) = 0 := by
  induction n with
  | zero => rfl
  | succ n ih => simp [sumTo, ih]

theorem sumTo_const (n c : Nat) : sumTo n (fun _ => c) = n * c := by
  induction n with
  | zero => simp [sumTo]
  | succ n ih => simp only [sumTo, ih, Nat.succ_mul]

theorem sumTo_ind (n a v : Nat) :
    sumTo n (fun g => if g = a then v else 0) = if a < n then v else 0 := by
  induction n with
  | zero => simp [sumTo]
  | succ n ih =>
    simp only [sumTo, ih]
    by_cases h1 : a < n
    · have : ¬ n = a := by omega
      have h2 : a < n + 1 := by omega
      simp [h1, h2, this]
    · by_cases h2 : n = a
      · subst h2; simp
      · have h3 : ¬ a < n + 1 := by omega
        simp [h1, h2, h3]

theorem sumTo_succ_front (n : Nat) (F : Nat → Nat) :
    sumTo (n + 1) F = F 0 + sumTo n (fun p => F (p + 1)) := by
  induction n with
  | zero => simp [sumTo]
  | succ n ih =>
    rw [sumTo, ih]
    simp only [sumTo]; omega

theorem sumTo_getD (ids : List Nat) (h : Nat → Nat) :
    sumTo ids.length (fun p => h (ids.getD p 0)) = (ids.map h).sum := by
  induction ids with
  | nil => rfl
  | cons a t ih =>
    rw [List.length_cons, sumTo_succ_front]
    simp only [List.getD_cons_zero, List.getD_cons_succ, List.map_cons, List.sum_cons, ih]

theorem sumTo_mem (ids : List Nat) (hnd : ids.Nodup) (n : Nat) (h : Nat → Nat)
    (hz : ∀ g ∈ ids, n ≤ g → h g = 0) :
    sumTo n (fun g => if g ∈ ids then h g else 0) = (ids.map h).sum := by
  induction ids with
  | nil => simp [sumTo_zero_fun]
  | cons a t ih =>
    rw [List.nodup_cons] at hnd
    have hpt : ∀ g, (if g ∈ a :: t then h g else 0)
        = (if g = a then h a else 0) + (if g ∈ t then h g else 0) := by
      intro g
      by_cases hga : g = a
      · subst hga; simp [hnd.1]
      · simp [hga]
    rw [show (fun g => if g ∈ a :: t then h g else 0)
        = (fun g => (if g = a then h a else 0) + (if g ∈ t then h g else 0)) from funext hpt]
    rw [sumTo_add_fun, sumTo_ind, ih hnd.2 (fun g hg => hz g (List.mem_cons_of_mem _ hg))]
    simp only [List.map_cons, List.sum_cons]
    by_cases han : a < n
    · simp [han]
    · have := hz a (List.mem_cons_self) (by omega)
      simp [han, this]

/-! ### basic facts about the set of duplicated faces -/

theorem mem_fracFaces (s : Host) (i g : Nat) :
    g ∈ s.fracFaces i ↔ g < s.fcCols ∧ (s.fc i g).isSome = true := by
  simp [Host.fracFaces]

theorem mem_ids (s : Host) (i g : Nat) :
    g ∈ s.ids i ↔ g < s.fcCols ∧ (s.fc i g).isSome = true ∧ s.rem g = false := by
  simp [Host.ids, mem_fracFaces, and_assoc]

theorem nodup_ids (s : Host) (i : Nat) : (s.ids i).Nodup := by
  unfold Host.ids Host.fracFaces
  exact ((List.nodup_range).filter _).filter _

/-! ### the branches of `splitOne` -/

theorem splitOne_cases {s s' : Host} {i : Nat} (h : splitOne s i = .ok s') :
    (s' = s.tagOnly i ∧ (s.ids i).length = 0) ∨ (s' = s.boundary i ∧ (s.ids i).length ≠ 0) ∨
    (s' = s.split i ∧ (s.ids i).length ≠ 0 ∧ s.nLeft i = (s.ids i).length) := by
  unfold splitOne at h
  split at h
  · left; injection h with h; exact ⟨h.symm, by assumption⟩
  · split at h
    · right; left; injection h with h; exact ⟨h.symm, by assumption⟩
    · split at h
      · cases h
      · split at h
        · cases h
        · right; right; injection h with h
          refine ⟨h.symm, by assumption, ?_⟩
          rename_i h4
          exact Decidable.not_not.mp h4

/-- length of a list = left part + right part (w.r.t. any boolean flag) -/
theorem length_filter_split (p q : Inc → Bool) (L : List Inc) :
    (L.filter q).length = ((L.filter p).filter q).length + ((L.filter (fun a => !p a)).filter q).length := by
  induction L with
  | nil => rfl
  | cons a L ih =>
    by_cases hp : p a <;> by_cases hq : q a <;> simp [hp, hq, ih] <;> omega

theorem faceCount_split (s : Host) (i c : Nat) (hwf : s.RowsWF) :
    (s.split i).faceCount c = s.faceCount c := by
  let cnt : Nat → Nat := fun g => ((s.inc g).filter (fun a => a.cell = c)).length
  let cntL : Nat → Nat := fun g => (((s.inc g).filter (·.left)).filter (fun a => a.cell = c)).length
  let cntR : Nat → Nat := fun g => (((s.inc g).filter (fun a => !a.left)).filter (fun a => a.cell = c)).length
  have hsplit : ∀ g, cnt g = cntL g + cntR g := fun g => length_filter_split (·.left) _ _
  have hzero : ∀ g ∈ s.ids i, s.nF ≤ g → cntL g = 0 := by
    intro g _ hg
    simp [cntL, hwf g hg]
  show sumTo (s.nF + (s.ids i).length) _ = sumTo s.nF _
  rw [sumTo_add]
  -- the old faces
  have hold : sumTo s.nF (fun g => (((s.split i).inc g).filter (fun a => a.cell = c)).length)
      + sumTo s.nF (fun g => if g ∈ s.ids i then cntL g else 0) = sumTo s.nF cnt := by
    rw [← sumTo_add_fun]
    apply sumTo_congr
    intro g hg
    simp only [Host.split, if_pos hg]
    by_cases hm : g ∈ s.ids i
    · simp only [if_pos hm]; rw [hsplit g]; exact Nat.add_comm _ _
    · simp only [if_neg hm]; rfl
  -- the new faces
  have hnew : sumTo (s.ids i).length (fun p => (((s.split i).inc (s.nF + p)).filter (fun a => a.cell = c)).length)
      = sumTo s.nF (fun g => if g ∈ s.ids i then cntL g else 0) := by
    rw [sumTo_mem _ (nodup_ids s i) _ _ hzero, ← sumTo_getD]
    apply sumTo_congr
    intro p hp
    have h1 : ¬ s.nF + p < s.nF := by omega
    have h2 : s.nF + p < s.nF + (s.ids i).length := by omega
    simp only [Host.split, if_neg h1, if_pos h2, Host.src, Nat.add_sub_cancel_left, cntL]
  rw [hnew]
  exact hold

theorem rowsWF_split (s : Host) (i : Nat) (hwf : s.RowsWF) : (s.split i).RowsWF := by
  intro g hg
  have hg' : s.nF + (s.ids i).length ≤ g := hg
  have h1 : ¬ g < s.nF := by omega
  have h2 : ¬ g < s.nF + (s.ids i).length := by omega
  simp only [Host.split, if_neg h1, if_neg h2]
  exact hwf g (by omega)

theorem splitOne_faceCount {s s' : Host} {i : Nat} (h : splitOne s i = .ok s') (hwf : s.RowsWF) (c : Nat) :
    s'.faceCount c = s.faceCount c ∧ s'.RowsWF := by
  rcases splitOne_cases h with ⟨rfl, _⟩ | ⟨rfl, _⟩ | ⟨rfl, _⟩
  · exact ⟨rfl, hwf⟩
  · exact ⟨rfl, hwf⟩
  · exact ⟨faceCount_split s i c hwf, rowsWF_split s i hwf⟩

/-! ### the loop -/

theorem splitFrom_cons {s s' : Host} {i : Nat} {is : List Nat} (h : splitFrom s (i :: is) = .ok s') :
    ∃ s1, splitOne s i = .ok s1 ∧ splitFrom s1 is = .ok s' := by
  unfold splitFrom at h
  split at h
  · cases h
  · rename_i s1 h1; exact ⟨s1, h1, h⟩

theorem splitFrom_faceCount : ∀ (is : List Nat) (s s' : Host), splitFrom s is = .ok s' → s.RowsWF →
    ∀ c, s'.faceCount c = s.faceCount c := by
  intro is
  induction is with
  | nil => intro s s' h _ c; injection h with h; subst h; rfl
  | cons i is ih =>
    intro s s' h hwf c
    obtain ⟨s1, h1, h2⟩ := splitFrom_cons h
    have := splitOne_faceCount h1 hwf c
    rw [ih s1 s' h2 this.2 c, this.1]

/-! ### alignment of face indices and face_cells columns -/

theorem splitOne_gap {s s' : Host} {i : Nat} (h : splitOne s i = .ok s') (hle : s.nF ≤ s.fcCols) :
    s'.nF ≤ s'.fcCols ∧ s.fcCols - s.nF ≤ s'.fcCols - s'.nF ∧
    (s'.fcCols = s'.nF → s' = s.tagOnly i ∨ s' = s.split i) := by
  rcases splitOne_cases h with ⟨rfl, _⟩ | ⟨rfl, hk⟩ | ⟨rfl, _⟩
  · exact ⟨hle, Nat.le_refl _, fun _ => Or.inl rfl⟩
  · refine ⟨?_, ?_, ?_⟩
    · show s.nF ≤ s.fcCols + (s.ids i).length; omega
    · show s.fcCols - s.nF ≤ s.fcCols + (s.ids i).length - s.nF; omega
    · intro h'
      have : s.fcCols + (s.ids i).length = s.nF := h'
      omega
  · refine ⟨?_, ?_, fun _ => Or.inr rfl⟩
    · show s.nF + (s.ids i).length ≤ s.fcCols + (s.ids i).length; omega
    · show s.fcCols - s.nF ≤ s.fcCols + (s.ids i).length - (s.nF + (s.ids i).length); omega

theorem splitFrom_gap : ∀ (is : List Nat) (s s' : Host), splitFrom s is = .ok s' → s.nF ≤ s.fcCols →
    s'.nF ≤ s'.fcCols ∧ s.fcCols - s.nF ≤ s'.fcCols - s'.nF := by
  intro is
  induction is with
  | nil => intro s s' h hle; injection h with h; subst h; exact ⟨hle, Nat.le_refl _⟩
  | cons i is ih =>
    intro s s' h hle
    obtain ⟨s1, h1, h2⟩ := splitFrom_cons h
    have g1 := splitOne_gap h1 hle
    have g2 := ih s1 s' h2 g1.1
    exact ⟨g2.1, Nat.le_trans g1.2.1 g2.2⟩

/-! ### tags -/

/-- the fracture tag marks exactly the faces coupled by one of the fractures in `P` -/
def TagInv (s : Host) (P : Nat → Prop) : Prop :=
  ∀ g, g < s.nF → (s.frac g = true ↔ ∃ j, P j ∧ (s.fc j g).isSome = true)

theorem getD_mem_ids {s : Host} {i p : Nat} (hp : p < (s.ids i).length) : (s.ids i).getD p 0 ∈ s.ids i := by
  rw [List.getD_eq_getElem?_getD, List.getElem?_eq_getElem hp]
  exact List.getElem_mem hp

theorem tagInv_old (s : Host) (i : Nat) (P : Nat → Prop) (hal : s.fcCols = s.nF) (hinv : TagInv s P)
    (g : Nat) (hg : g < s.nF) :
    (s.frac1 i g = true ↔ ∃ j, (j = i ∨ P j) ∧ (s.fc j g).isSome = true) := by
  unfold Host.frac1
  by_cases hm : g ∈ s.fracFaces i
  · rw [if_pos hm]
    simp only [true_iff]
    exact ⟨i, Or.inl rfl, ((mem_fracFaces s i g).mp hm).2⟩
  · rw [if_neg hm, hinv g hg]
    constructor
    · rintro ⟨j, hj, hs⟩; exact ⟨j, Or.inr hj, hs⟩
    · rintro ⟨j, hj | hj, hs⟩
      · subst hj
        exact absurd ((mem_fracFaces s j g).mpr ⟨by omega, hs⟩) hm
      · exact ⟨j, hj, hs⟩

theorem tagInv_step {s s' : Host} {i : Nat} {P : Nat → Prop} (h : splitOne s i = .ok s')
    (hal : s.fcCols = s.nF) (hal' : s'.fcCols = s'.nF) (hinv : TagInv s P) :
    TagInv s' (fun j => j = i ∨ P j) := by
  rcases (splitOne_gap h (by omega)).2.2 hal' with rfl | rfl
  · intro g hg
    exact tagInv_old s i P hal hinv g hg
  · intro g hg
    have hg' : g < s.nF + (s.ids i).length := hg
    by_cases hlt : g < s.nF
    · have hc : ¬ (s.nF ≤ g ∧ g < s.nF + (s.ids i).length) := by omega
      have hfc : ∀ j, (s.split i).fc j g = s.fc j g := by
        intro j; simp only [Host.split, Host.fc1, if_pos (show g < s.fcCols by omega)]
      simp only [hfc]
      simp only [Host.split, if_neg hc]
      exact tagInv_old s i P hal hinv g hlt
    · have hc : s.nF ≤ g ∧ g < s.nF + (s.ids i).length := by omega
      simp only [Host.split, if_pos hc, true_iff]
      refine ⟨i, Or.inl rfl, ?_⟩
      have h1 : ¬ g < s.fcCols := by omega
      have h2 : g < s.fcCols + (s.ids i).length := by omega
      simp only [Host.fc1, if_neg h1, if_pos h2, if_true]
      exact ((mem_ids s i _).mp (getD_mem_ids (by omega))).2.1

theorem splitFrom_tags : ∀ (is : List Nat) (s s' : Host) (P : Nat → Prop), splitFrom s is = .ok s' →
    s.fcCols = s.nF → s'.fcCols = s'.nF → TagInv s P → TagInv s' (fun j => j ∈ is ∨ P j) := by
  intro is
  induction is with
  | nil =>
    intro s s' P h _ _ hinv; injection h with h; subst h
    intro g hg; rw [hinv g hg]; simp
  | cons i is ih =>
    intro s s' P h hal hal' hinv
    obtain ⟨s1, h1, h2⟩ := splitFrom_cons h
    have g1 := splitOne_gap h1 (by omega)
    have g2 := splitFrom_gap is s1 s' h2 g1.1
    have hal1 : s1.fcCols = s1.nF := by omega
    have := ih s1 s' _ h2 hal1 hal' (tagInv_step h1 hal hal1 hinv)
    intro g hg
    rw [this g hg]
    constructor
    · rintro ⟨j, hj | hj | hj, hs⟩
      · exact ⟨j, Or.inl (List.mem_cons_of_mem _ hj), hs⟩
      · exact ⟨j, Or.inl (hj ▸ List.mem_cons_self), hs⟩
      · exact ⟨j, Or.inr hj, hs⟩
    · rintro ⟨j, hj | hj, hs⟩
      · rcases List.mem_cons.mp hj with rfl | hj
        · exact ⟨j, Or.inr (Or.inl rfl), hs⟩
        · exact ⟨j, Or.inl hj, hs⟩
      · exact ⟨j, Or.inr (Or.inr hj), hs⟩


/-! ### the main invariant of the loop of `split_faces` -/

/-- what the pass for fracture `j` leaves behind for the lower-dimensional cell `l` on host face `f` -/
def Done (s0 s : Host) (j : Nat) : Prop :=
  ∀ f l, f < s0.nF → s0.fc j f = some l →
    (s0.rem f = true → ∀ g, g < s.nF → (s.fc j g = some l ↔ g = f)) ∧
    (s0.rem f = false → ∃ d, s0.nF ≤ d ∧ d < s.nF ∧
        (∀ g, g < s.nF → (s.fc j g = some l ↔ (g = f ∨ g = d))) ∧
        ∃ a b : Inc, (s0.inc f = [a, b] ∨ s0.inc f = [b, a]) ∧ a.left = false ∧ b.left = true ∧
          b.sign = -a.sign ∧ s.inc f = [a] ∧ s.inc d = [b] ∧
          s.normal f = s0.normal f ∧ s.normal d = s0.normal f ∧ (f, d) ∈ s.pairs)

structure Inv (s0 s : Host) (done : Nat → Prop) : Prop where
  nF : s0.nF ≤ s.nF
  aligned : s.fcCols = s.nF
  oldFc : ∀ j g, g < s0.nF → s.fc j g = s0.fc j g
  newFc : ∀ j g, ¬ done j → s0.nF ≤ g → g < s.nF → s.fc j g = none
  newSrc : ∀ j g l, s0.nF ≤ g → g < s.nF → s.fc j g = some l → ∃ f, f < s0.nF ∧ s0.fc j f = some l
  untouched : ∀ g, g < s0.nF → (∀ j, done j → j < s0.nFr → s0.fc j g = none) →
      s.inc g = s0.inc g ∧ s.frac g = s0.frac g ∧ s.tip g = s0.tip g ∧ s.dom g = s0.dom g ∧
      s.normal g = s0.normal g
  res : ∀ j, done j → j < s0.nFr → Done s0 s j

theorem inv_init (s0 : Host) (hv : s0.Valid) : Inv s0 s0 (fun _ => False) where
  nF := Nat.le_refl _
  aligned := hv.aligned
  oldFc := fun _ _ _ => rfl
  newFc := fun _ g _ h1 h2 => absurd h2 (by omega)
  newSrc := fun _ g _ h1 h2 _ => absurd h2 (by omega)
  untouched := fun _ _ _ => ⟨rfl, rfl, rfl, rfl, rfl⟩
  res := fun _ h _ => h.elim

/-! fields of `s.split i` -/

theorem split_fc_old (s : Host) (i j g : Nat) (hg : g < s.fcCols) : (s.split i).fc j g = s.fc j g := by
  simp only [Host.split, Host.fc1, if_pos hg]

theorem split_fc_new_other (s : Host) (i j g : Nat) (h1 : s.fcCols ≤ g) (h2 : g < s.fcCols + (s.ids i).length)
    (hj : j ≠ i) : (s.split i).fc j g = none := by
  have : ¬ g < s.fcCols := by omega
  simp only [Host.split, Host.fc1, if_neg this, if_pos h2, if_neg hj]

theorem split_fc_new_self (s : Host) (i q : Nat) (hq : q < (s.ids i).length) :
    (s.split i).fc i (s.fcCols + q) = s.fc i ((s.ids i).getD q 0) := by
  have h1 : ¬ s.fcCols + q < s.fcCols := by omega
  have h2 : s.fcCols + q < s.fcCols + (s.ids i).length := by omega
  simp only [Host.split, Host.fc1, if_neg h1, if_pos h2, if_true, Nat.add_sub_cancel_left]

theorem split_inc_old_notin (s : Host) (i g : Nat) (hg : g < s.nF) (hm : g ∉ s.ids i) :
    (s.split i).inc g = s.inc g := by
  simp only [Host.split, if_pos hg, if_neg hm]

theorem split_inc_old_in (s : Host) (i g : Nat) (hg : g < s.nF) (hm : g ∈ s.ids i) :
    (s.split i).inc g = (s.inc g).filter (fun a => !a.left) := by
  simp only [Host.split, if_pos hg, if_pos hm]

theorem split_inc_new (s : Host) (i q : Nat) (hq : q < (s.ids i).length) :
    (s.split i).inc (s.nF + q) = (s.inc ((s.ids i).getD q 0)).filter (·.left) := by
  have h1 : ¬ s.nF + q < s.nF := by omega
  have h2 : s.nF + q < s.nF + (s.ids i).length := by omega
  simp only [Host.split, if_neg h1, if_pos h2, Host.src, Nat.add_sub_cancel_left]

theorem split_normal_old (s : Host) (i g : Nat) (hg : g < s.nF) : (s.split i).normal g = s.normal g := by
  have : ¬ (s.nF ≤ g ∧ g < s.nF + (s.ids i).length) := by omega
  simp only [Host.split, if_neg this]

theorem split_normal_new (s : Host) (i q : Nat) (hq : q < (s.ids i).length) :
    (s.split i).normal (s.nF + q) = s.normal ((s.ids i).getD q 0) := by
  have : s.nF ≤ s.nF + q ∧ s.nF + q < s.nF + (s.ids i).length := by omega
  simp only [Host.split, if_pos this, Host.src, Nat.add_sub_cancel_left]

theorem split_tags_old (s : Host) (i g : Nat) (hg : g < s.nF) :
    (s.split i).frac g = s.frac1 i g ∧ (s.split i).tip g = s.tip1 i g ∧ (s.split i).dom g = s.dom g := by
  have : ¬ (s.nF ≤ g ∧ g < s.nF + (s.ids i).length) := by omega
  simp only [Host.split, if_neg this, and_self]

theorem split_pairs_mem (s : Host) (i q : Nat) (hq : q < (s.ids i).length) :
    ((s.ids i).getD q 0, s.nF + q) ∈ (s.split i).pairs := by
  show _ ∈ s.pairs ++ _
  apply List.mem_append_right
  have hlen : q < ((s.ids i).zip ((List.range (s.ids i).length).map (· + s.nF))).length := by
    simp [List.length_zip]; exact hq
  have := List.getElem_mem hlen
  rw [List.getElem_zip] at this
  simp only [List.getElem_map, List.getElem_range] at this
  rw [List.getD_eq_getElem?_getD, List.getElem?_eq_getElem hq, Option.getD_some, Nat.add_comm]
  exact this

theorem getD_inj_of_nodup {L : List Nat} (hnd : L.Nodup) {p q : Nat} (hp : p < L.length) (hq : q < L.length)
    (h : L.getD p 0 = L.getD q 0) : p = q := by
  exact (List.getD_inj hp hq hnd).mp h

theorem exists_index_of_mem {L : List Nat} {x : Nat} (h : x ∈ L) : ∃ p, p < L.length ∧ L.getD p 0 = x := by
  obtain ⟨p, hp, hx⟩ := List.mem_iff_getElem.mp h
  exact ⟨p, hp, by rw [List.getD_eq_getElem?_getD, List.getElem?_eq_getElem hp]; exact hx⟩

section step
variable {s0 s : Host} {done : Nat → Prop} {i : Nat}

theorem fracFaces_iff (hinv : Inv s0 s done) (hnd : ¬ done i) (g : Nat) :
    g ∈ s.fracFaces i ↔ g < s0.nF ∧ (s0.fc i g).isSome = true := by
  rw [mem_fracFaces, hinv.aligned]
  constructor
  · rintro ⟨hg, hs⟩
    by_cases hlt : g < s0.nF
    · exact ⟨hlt, by rw [← hinv.oldFc i g hlt]; exact hs⟩
    · rw [hinv.newFc i g hnd (by omega) hg] at hs; cases hs
  · rintro ⟨hg, hs⟩
    exact ⟨by have := hinv.nF; omega, by rw [hinv.oldFc i g hg]; exact hs⟩

theorem untouched_of_face (hv : s0.Valid) (hinv : Inv s0 s done) (hi : i < s0.nFr) (hnd : ¬ done i)
    {g : Nat} (hg : g < s0.nF) (hs : (s0.fc i g).isSome = true) :
    s.inc g = s0.inc g ∧ s.frac g = s0.frac g ∧ s.tip g = s0.tip g ∧ s.dom g = s0.dom g ∧
      s.normal g = s0.normal g := by
  apply hinv.untouched g hg
  intro j hj hjn
  have hne : i ≠ j := fun e => hnd (e ▸ hj)
  exact hv.disjoint i j g hi hjn hne hg hs

theorem rem_of_face (hv : s0.Valid) (hinv : Inv s0 s done) (hi : i < s0.nFr) (hnd : ¬ done i)
    {g : Nat} (hg : g < s0.nF) (hs : (s0.fc i g).isSome = true) : s.rem g = s0.rem g := by
  have := untouched_of_face hv hinv hi hnd hg hs
  simp only [Host.rem, this.2.1, this.2.2.1, this.2.2.2.1]

theorem ids_iff (hv : s0.Valid) (hinv : Inv s0 s done) (hi : i < s0.nFr) (hnd : ¬ done i) (g : Nat) :
    g ∈ s.ids i ↔ g < s0.nF ∧ (s0.fc i g).isSome = true ∧ s0.rem g = false := by
  unfold Host.ids
  rw [List.mem_filter, fracFaces_iff hinv hnd]
  constructor
  · rintro ⟨⟨hg, hs⟩, hr⟩
    refine ⟨hg, hs, ?_⟩
    rw [← rem_of_face hv hinv hi hnd hg hs]; simpa using hr
  · rintro ⟨hg, hs, hr⟩
    refine ⟨⟨hg, hs⟩, ?_⟩
    rw [rem_of_face hv hinv hi hnd hg hs, hr]; rfl

theorem interior_of_ids (hv : s0.Valid) (hinv : Inv s0 s done) (hi : i < s0.nFr) (hnd : ¬ done i)
    {g : Nat} (hg : g ∈ s.ids i) : s.Interior g := by
  obtain ⟨h1, h2, h3⟩ := (ids_iff hv hinv hi hnd g).mp hg
  have := hv.interior i g hi h1 h2 h3
  unfold Host.Interior at this ⊢
  rw [(untouched_of_face hv hinv hi hnd h1 h2).1]
  exact this

/-- counts of `left` flags over a list of interior faces -/
theorem counts_interior (s : Host) (L : List Nat) (h : ∀ g ∈ L, s.Interior g) :
    ((L.flatMap s.inc).filter (·.left)).length = L.length ∧ (L.flatMap s.inc).length = 2 * L.length := by
  induction L with
  | nil => exact ⟨rfl, rfl⟩
  | cons g L ih =>
    have ih' := ih (fun x hx => h x (List.mem_cons_of_mem _ hx))
    obtain ⟨a, b, hab, ha, hb, _⟩ := h g List.mem_cons_self
    simp only [List.flatMap_cons, List.filter_append, List.length_append, ih'.1, ih'.2, List.length_cons]
    rcases hab with e | e <;> rw [e] <;> simp [ha, hb] <;> omega

theorem fc_old_iff (hv : s0.Valid) (hinv : Inv s0 s done) (hi : i < s0.nFr) (hnd : ¬ done i)
    {f l : Nat} (hf : f < s0.nF) (hfl : s0.fc i f = some l) (g : Nat) (hg : g < s.nF) :
    s.fc i g = some l ↔ g = f := by
  by_cases hlt : g < s0.nF
  · rw [hinv.oldFc i g hlt]
    exact ⟨fun h => hv.inj i g f l hi hlt hf h hfl, fun h => h ▸ hfl⟩
  · rw [hinv.newFc i g hnd (by omega) hg]
    constructor
    · intro h; cases h
    · intro h; omega

theorem inv_tagOnly (hv : s0.Valid) (hinv : Inv s0 s done) (hi : i < s0.nFr) (hnd : ¬ done i)
    (hk : (s.ids i).length = 0) : Inv s0 (s.tagOnly i) (fun j => j = i ∨ done j) where
  nF := hinv.nF
  aligned := hinv.aligned
  oldFc := hinv.oldFc
  newFc := fun j g hj h1 h2 => hinv.newFc j g (fun h => hj (Or.inr h)) h1 h2
  newSrc := hinv.newSrc
  untouched := by
    intro g hg hnone
    have hu := hinv.untouched g hg (fun j hj hjn => hnone j (Or.inr hj) hjn)
    have hni : g ∉ s.fracFaces i := by
      rw [fracFaces_iff hinv hnd]
      rintro ⟨_, hs⟩
      rw [hnone i (Or.inl rfl) hi] at hs; cases hs
    refine ⟨hu.1, ?_, ?_, hu.2.2.2.1, hu.2.2.2.2⟩
    · show s.frac1 i g = _
      unfold Host.frac1; rw [if_neg hni]; exact hu.2.1
    · show s.tip1 i g = _
      unfold Host.tip1; rw [if_neg hni]; exact hu.2.2.1
  res := by
    intro j hj hjn
    rcases hj with rfl | hj
    · intro f l hf hfl
      refine ⟨fun _ g hg => fc_old_iff hv hinv hjn hnd hf hfl g hg, ?_⟩
      intro hr
      have : f ∈ s.ids j := (ids_iff hv hinv hjn hnd f).mpr ⟨hf, by rw [hfl]; rfl, hr⟩
      rw [List.length_eq_zero_iff.mp hk] at this
      cases this
    · exact hinv.res j hj hjn

/-- the pass for fracture `i` does not disturb what an earlier pass (fracture `j ≠ i`) left behind -/
theorem done_split_other (hv : s0.Valid) (hinv : Inv s0 s done) (hi : i < s0.nFr) (hnd : ¬ done i)
    {j : Nat} (hj : done j) (hjn : j < s0.nFr) (hd : Done s0 s j) : Done s0 (s.split i) j := by
  have hji : j ≠ i := fun e => hnd (e ▸ hj)
  have hal := hinv.aligned
  -- faces of fracture `j` and their copies are not faces of fracture `i`
  have hnot_old : ∀ f l, f < s0.nF → s0.fc j f = some l → f ∉ s.ids i := by
    intro f l hf hfl hm
    have := (ids_iff hv hinv hi hnd f).mp hm
    rw [hv.disjoint j i f hjn hi hji hf (by rw [hfl]; rfl)] at this
    cases this.2.1
  have hnot_new : ∀ d, s0.nF ≤ d → d < s.nF → d ∉ s.ids i := by
    intro d h1 h2 hm
    have := (ids_iff hv hinv hi hnd d).mp hm
    omega
  have hfc : ∀ g l, g < (s.split i).nF → ((s.split i).fc j g = some l ↔ g < s.nF ∧ s.fc j g = some l) := by
    intro g l hg
    have hg' : g < s.nF + (s.ids i).length := hg
    by_cases hlt : g < s.nF
    · rw [split_fc_old s i j g (by omega)]; simp [hlt]
    · rw [split_fc_new_other s i j g (by omega) (by omega) hji]
      constructor
      · intro h; cases h
      · intro h; omega
  intro f l hf hfl
  obtain ⟨h1, h2⟩ := hd f l hf hfl
  have hfs : f < s.nF := by have := hinv.nF; omega
  constructor
  · intro hr g hg
    rw [hfc g l hg]
    constructor
    · rintro ⟨hlt, h⟩; exact (h1 hr g hlt).mp h
    · intro h; subst h; exact ⟨hfs, (h1 hr g hfs).mpr rfl⟩
  · intro hr
    obtain ⟨d, hd1, hd2, hiff, a, b, hab, ha, hb, hsg, hif, hid, hnf, hndd, hp⟩ := h2 hr
    refine ⟨d, hd1, by show d < s.nF + _; omega, ?_, a, b, hab, ha, hb, hsg, ?_, ?_, ?_, ?_, ?_⟩
    · intro g hg
      rw [hfc g l hg]
      constructor
      · rintro ⟨hlt, h⟩; exact (hiff g hlt).mp h
      · rintro (h | h)
        · subst h; exact ⟨hfs, (hiff g hfs).mpr (Or.inl rfl)⟩
        · subst h; exact ⟨hd2, (hiff g hd2).mpr (Or.inr rfl)⟩
    · rw [split_inc_old_notin s i f hfs (hnot_old f l hf hfl)]; exact hif
    · rw [split_inc_old_notin s i d hd2 (hnot_new d hd1 hd2)]; exact hid
    · rw [split_normal_old s i f hfs]; exact hnf
    · rw [split_normal_old s i d hd2]; exact hndd
    · exact List.mem_append_left _ hp

/-- what the pass for fracture `i` establishes for its own faces -/
theorem done_split_self (hv : s0.Valid) (hinv : Inv s0 s done) (hi : i < s0.nFr) (hnd : ¬ done i) :
    Done s0 (s.split i) i := by
  have hal := hinv.aligned
  have hnF := hinv.nF
  intro f l hf hfl
  have hfs : f < s.nF := by omega
  have hsome : (s0.fc i f).isSome = true := by rw [hfl]; rfl
  -- the copies: face `s.nF + q` is coupled to `l` iff it is the copy of `f`
  have hnew : ∀ q, q < (s.ids i).length →
      ((s.split i).fc i (s.nF + q) = some l ↔ (s.ids i).getD q 0 = f) := by
    intro q hq
    have hm := getD_mem_ids (s := s) (i := i) hq
    have hlt : (s.ids i).getD q 0 < s.nF := by
      have := (ids_iff hv hinv hi hnd _).mp hm; omega
    rw [← hal, split_fc_new_self s i q hq]
    exact fc_old_iff hv hinv hi hnd hf hfl _ hlt
  constructor
  · intro hr g hg
    have hg' : g < s.nF + (s.ids i).length := hg
    have hfn : f ∉ s.ids i := by
      intro hm
      have := (ids_iff hv hinv hi hnd f).mp hm
      rw [hr] at this; cases this.2.2
    by_cases hlt : g < s.nF
    · rw [split_fc_old s i i g (by omega)]
      exact fc_old_iff hv hinv hi hnd hf hfl g hlt
    · obtain ⟨q, rfl⟩ : ∃ q, g = s.nF + q := ⟨g - s.nF, by omega⟩
      have hq : q < (s.ids i).length := by omega
      rw [hnew q hq]
      constructor
      · intro h; exact absurd (h ▸ getD_mem_ids hq) hfn
      · intro h; omega
  · intro hr
    have hm : f ∈ s.ids i := (ids_iff hv hinv hi hnd f).mpr ⟨hf, hsome, hr⟩
    obtain ⟨p, hp, hpf⟩ := exists_index_of_mem hm
    obtain ⟨a, b, hab, ha, hb, hsg⟩ := hv.interior i f hi hf hsome hr
    have hu := untouched_of_face hv hinv hi hnd hf hsome
    refine ⟨s.nF + p, by omega, by show s.nF + p < s.nF + _; omega, ?_, a, b, hab, ha, hb, hsg, ?_, ?_, ?_, ?_, ?_⟩
    · intro g hg
      have hg' : g < s.nF + (s.ids i).length := hg
      by_cases hlt : g < s.nF
      · rw [split_fc_old s i i g (by omega), fc_old_iff hv hinv hi hnd hf hfl g hlt]
        constructor
        · intro h; exact Or.inl h
        · rintro (h | h)
          · exact h
          · omega
      · obtain ⟨q, rfl⟩ : ∃ q, g = s.nF + q := ⟨g - s.nF, by omega⟩
        have hq : q < (s.ids i).length := by omega
        rw [hnew q hq]
        constructor
        · intro h
          right
          have := getD_inj_of_nodup (nodup_ids s i) hq hp (h.trans hpf.symm)
          omega
        · rintro (h | h)
          · omega
          · have : q = p := by omega
            subst this; exact hpf
    · rw [split_inc_old_in s i f hfs hm, hu.1]
      rcases hab with e | e <;> rw [e] <;> simp [ha, hb]
    · rw [split_inc_new s i p hp, hpf, hu.1]
      rcases hab with e | e <;> rw [e] <;> simp [ha, hb]
    · rw [split_normal_old s i f hfs]; exact hu.2.2.2.2
    · rw [split_normal_new s i p hp, hpf]; exact hu.2.2.2.2
    · have := split_pairs_mem s i p hp
      rw [hpf] at this; exact this

theorem inv_split (hv : s0.Valid) (hinv : Inv s0 s done) (hi : i < s0.nFr) (hnd : ¬ done i) :
    Inv s0 (s.split i) (fun j => j = i ∨ done j) where
  nF := by show s0.nF ≤ s.nF + _; have := hinv.nF; omega
  aligned := by show s.fcCols + _ = s.nF + _; rw [hinv.aligned]
  oldFc := by
    intro j g hg
    rw [split_fc_old s i j g (by have := hinv.nF; have := hinv.aligned; omega)]
    exact hinv.oldFc j g hg
  newFc := by
    intro j g hj h1 h2
    have h2' : g < s.nF + (s.ids i).length := h2
    have hal := hinv.aligned
    by_cases hlt : g < s.nF
    · rw [split_fc_old s i j g (by omega)]
      exact hinv.newFc j g (fun h => hj (Or.inr h)) h1 hlt
    · exact split_fc_new_other s i j g (by omega) (by omega) (fun e => hj (Or.inl e))
  newSrc := by
    intro j g l h1 h2 hfc
    have h2' : g < s.nF + (s.ids i).length := h2
    have hal := hinv.aligned
    by_cases hlt : g < s.nF
    · rw [split_fc_old s i j g (by omega)] at hfc
      exact hinv.newSrc j g l h1 hlt hfc
    · by_cases hji : j = i
      · subst hji
        obtain ⟨q, rfl⟩ : ∃ q, g = s.fcCols + q := ⟨g - s.fcCols, by omega⟩
        have hq : q < (s.ids j).length := by omega
        rw [split_fc_new_self s j q hq] at hfc
        have hm := (ids_iff hv hinv hi hnd _).mp (getD_mem_ids (s := s) (i := j) hq)
        exact ⟨_, hm.1, by rw [← hinv.oldFc j _ hm.1]; exact hfc⟩
      · rw [split_fc_new_other s i j g (by omega) (by omega) hji] at hfc
        cases hfc
  untouched := by
    intro g hg hnone
    have hu := hinv.untouched g hg (fun j hj hjn => hnone j (Or.inr hj) hjn)
    have hgs : g < s.nF := by have := hinv.nF; omega
    have hni : g ∉ s.fracFaces i := by
      rw [fracFaces_iff hinv hnd]
      rintro ⟨_, hs⟩
      rw [hnone i (Or.inl rfl) hi] at hs; cases hs
    have hnid : g ∉ s.ids i := fun h => hni (List.mem_filter.mp h).1
    have ht := split_tags_old s i g hgs
    refine ⟨?_, ?_, ?_, ?_, ?_⟩
    · rw [split_inc_old_notin s i g hgs hnid]; exact hu.1
    · rw [ht.1]; unfold Host.frac1; rw [if_neg hni]; exact hu.2.1
    · rw [ht.2.1]; unfold Host.tip1; rw [if_neg hni]; exact hu.2.2.1
    · rw [ht.2.2]; exact hu.2.2.2.1
    · rw [split_normal_old s i g hgs]; exact hu.2.2.2.2
  res := by
    intro j hj hjn
    rcases hj with rfl | hj
    · exact done_split_self hv hinv hjn hnd
    · exact done_split_other hv hinv hi hnd hj hjn (hinv.res j hj hjn)

/-- one pass of the loop on a valid input: no error, and the invariant is kept -/
theorem inv_step (hv : s0.Valid) (hinv : Inv s0 s done) (hi : i < s0.nFr) (hnd : ¬ done i) :
    ∃ s1, splitOne s i = .ok s1 ∧ Inv s0 s1 (fun j => j = i ∨ done j) := by
  by_cases hk : (s.ids i).length = 0
  · exact ⟨s.tagOnly i, by unfold splitOne; rw [if_pos hk], inv_tagOnly hv hinv hi hnd hk⟩
  · refine ⟨s.split i, ?_, inv_split hv hinv hi hnd⟩
    have hc := counts_interior s (s.ids i) (fun g hg => interior_of_ids hv hinv hi hnd hg)
    have h1 : s.nLeft i = (s.ids i).length := hc.1
    have h2 : (s.touched i).length = 2 * (s.ids i).length := hc.2
    unfold splitOne
    rw [if_neg hk, if_neg (by omega), if_neg (by omega), if_neg (by omega)]

end step

theorem Inv.congr {s0 s : Host} {P Q : Nat → Prop} (h : ∀ j, P j ↔ Q j) (hinv : Inv s0 s P) : Inv s0 s Q := by
  have : P = Q := funext fun j => propext (h j)
  rw [← this]; exact hinv

theorem splitFrom_inv {s0 : Host} (hv : s0.Valid) : ∀ (is : List Nat) (s : Host) (done : Nat → Prop),
    is.Nodup → (∀ i ∈ is, i < s0.nFr ∧ ¬ done i) → Inv s0 s done →
    ∃ s', splitFrom s is = .ok s' ∧ Inv s0 s' (fun j => j ∈ is ∨ done j) := by
  intro is
  induction is with
  | nil =>
    intro s done _ _ hinv
    exact ⟨s, rfl, hinv.congr (fun j => by simp)⟩
  | cons i is ih =>
    intro s done hnd hall hinv
    rw [List.nodup_cons] at hnd
    obtain ⟨hi, hdi⟩ := hall i List.mem_cons_self
    obtain ⟨s1, h1, hinv1⟩ := inv_step hv hinv hi hdi
    obtain ⟨s', h2, hinv2⟩ := ih s1 (fun j => j = i ∨ done j) hnd.2
      (fun i' hi' => ⟨(hall i' (List.mem_cons_of_mem _ hi')).1, by
        rintro (e | e)
        · exact hnd.1 (e ▸ hi')
        · exact (hall i' (List.mem_cons_of_mem _ hi')).2 e⟩) hinv1
    refine ⟨s', by simp only [splitFrom, h1]; exact h2, hinv2.congr (fun j => ?_)⟩
    simp only [List.mem_cons]
    constructor
    · rintro (h | h | h)
      · exact Or.inl (Or.inr h)
      · exact Or.inl (Or.inl h)
      · exact Or.inr h
    · rintro ((h | h) | h)
      · exact Or.inr (Or.inl h)
      · exact Or.inl h
      · exact Or.inr (Or.inr h)

/-- `split_faces` on a valid input: no error, and every fracture is left in the state `Done` -/
theorem splitFaces_valid {s0 : Host} (hv : s0.Valid) :
    ∃ s', splitFaces s0 = .ok s' ∧ Inv s0 s' (fun j => j < s0.nFr) := by
  obtain ⟨s', h, hinv⟩ := splitFrom_inv hv (List.range s0.nFr) s0 (fun _ => False) List.nodup_range
    (fun i hi => ⟨List.mem_range.mp hi, fun h => h⟩) (inv_init s0 hv)
  exact ⟨s', h, hinv.congr (fun j => by simp)⟩


/-! ### mortar cells -/

theorem filterMap_entries_filter (fc : Nat → Option Nat) (l : Nat) (L : List Nat) :
    (L.filterMap (fun g => (fc g).map (fun l => (l, g)))).filter (fun e => e.1 = l)
      = (L.filter (fun g => fc g = some l)).map (fun g => (l, g)) := by
  induction L with
  | nil => rfl
  | cons g L ih =>
    cases hfg : fc g with
    | none => simp [hfg, ih]
    | some l' =>
      by_cases hl : l' = l
      · subst hl; simp [hfg, ih]
      · have : ¬ (some l' = some l) := fun e => hl (Option.some.inj e)
        simp [hfg, ih, hl]

theorem entries_filter (fc : Nat → Option Nat) (cols l : Nat) :
    (entries fc cols).filter (fun e => e.1 = l)
      = ((List.range cols).filter (fun g => fc g = some l)).map (fun g => (l, g)) :=
  filterMap_entries_filter fc l _

theorem filter_range_nil (n : Nat) (p : Nat → Bool) (hp : ∀ g, g < n → p g = false) :
    (List.range n).filter p = [] := by
  rw [List.filter_eq_nil_iff]
  intro g hg
  rw [hp g (List.mem_range.mp hg)]; simp

theorem filter_range_one (n a : Nat) (p : Nat → Bool) (ha : a < n)
    (hp : ∀ g, g < n → (p g = true ↔ g = a)) : (List.range n).filter p = [a] := by
  induction n with
  | zero => omega
  | succ n ih =>
    rw [List.range_succ, List.filter_append]
    by_cases han : a = n
    · subst han
      rw [filter_range_nil a p (fun g hg => by
        have := hp g (by omega)
        cases hpg : p g with
        | false => rfl
        | true => have := this.mp hpg; omega)]
      have : p a = true := (hp a (by omega)).mpr rfl
      simp [this]
    · rw [ih (by omega) (fun g hg => hp g (by omega))]
      have : p n = false := by
        cases hpn : p n with
        | false => rfl
        | true => have := (hp n (by omega)).mp hpn; omega
      simp [this]

theorem filter_range_two (n a b : Nat) (p : Nat → Bool) (hab : a < b) (hb : b < n)
    (hp : ∀ g, g < n → (p g = true ↔ g = a ∨ g = b)) : (List.range n).filter p = [a, b] := by
  induction n with
  | zero => omega
  | succ n ih =>
    rw [List.range_succ, List.filter_append]
    by_cases hbn : b = n
    · subst hbn
      rw [filter_range_one b a p hab (fun g hg => by
        rw [hp g (by omega)]
        constructor
        · rintro (h | h)
          · exact h
          · omega
        · intro h; exact Or.inl h)]
      have : p b = true := (hp b (by omega)).mpr (Or.inr rfl)
      simp [this]
    · rw [ih (by omega) (fun g hg => hp g (by omega))]
      have : p n = false := by
        cases hpn : p n with
        | false => rfl
        | true => have := (hp n (by omega)).mp hpn; omega
      simp [this]

theorem foldl_max_ge (es : List (Nat × Nat)) (a : Nat) :
    a ≤ es.foldl (fun a e => max a e.1) a := by
  induction es generalizing a with
  | nil => exact Nat.le_refl _
  | cons e es ih => exact Nat.le_trans (Nat.le_max_left a e.1) (ih (max a e.1))

theorem le_foldl_max_of_mem (es : List (Nat × Nat)) (a : Nat) (e : Nat × Nat) (he : e ∈ es) :
    e.1 ≤ es.foldl (fun a e => max a e.1) a := by
  induction es generalizing a with
  | nil => cases he
  | cons e' es ih =>
    rcases List.mem_cons.mp he with rfl | h
    · exact Nat.le_trans (Nat.le_max_right a e.1) (foldl_max_ge es _)
    · exact ih _ h

theorem foldl_max_le (es : List (Nat × Nat)) (a M : Nat) (ha : a ≤ M) (hall : ∀ e ∈ es, e.1 ≤ M) :
    es.foldl (fun a e => max a e.1) a ≤ M := by
  induction es generalizing a with
  | nil => exact ha
  | cons e es ih =>
    exact ih (max a e.1) (Nat.max_le.mpr ⟨ha, hall e List.mem_cons_self⟩)
      (fun x hx => hall x (List.mem_cons_of_mem _ hx))

theorem maxLow_eq (es : List (Nat × Nat)) (M : Nat) (hall : ∀ e ∈ es, e.1 ≤ M) (hex : ∃ e ∈ es, e.1 = M) :
    maxLow es = M := by
  obtain ⟨e, he, heM⟩ := hex
  apply Nat.le_antisymm
  · exact foldl_max_le es 0 M (Nat.zero_le _) hall
  · rw [← heM]; exact le_foldl_max_of_mem es 0 e he

theorem length_eq_sum_count (es : List (Nat × Nat)) (n : Nat) (hall : ∀ e ∈ es, e.1 < n) :
    es.length = sumTo n (countLow es) := by
  induction es with
  | nil =>
    have : countLow ([] : List (Nat × Nat)) = fun _ => 0 := funext fun l => rfl
    rw [this, sumTo_zero_fun]; rfl
  | cons e es ih =>
    have hpt : ∀ l, countLow (e :: es) l = (if l = e.1 then 1 else 0) + countLow es l := by
      intro l
      unfold countLow
      by_cases h : e.1 = l
      · subst h; simp; omega
      · have : ¬ l = e.1 := fun x => h x.symm
        simp [h, this]
    rw [show countLow (e :: es) = fun l => (if l = e.1 then 1 else 0) + countLow es l from funext hpt,
      sumTo_add_fun, sumTo_ind, if_pos (hall e List.mem_cons_self),
      ← ih (fun x hx => hall x (List.mem_cons_of_mem _ hx)), List.length_cons]
    omega

theorem evens_flatMap_pair {α β : Type} (A B : α → β) (L : List α) :
    evens (L.flatMap (fun l => [A l, B l])) = L.map A ∧ odds (L.flatMap (fun l => [A l, B l])) = L.map B := by
  induction L with
  | nil => exact ⟨rfl, rfl⟩
  | cons a L ih =>
    simp only [List.flatMap_cons, List.cons_append, List.nil_append, evens, odds, List.map_cons, ih.1, ih.2,
      and_self]

theorem mem_entries (fc : Nat → Option Nat) (cols : Nat) (e : Nat × Nat) :
    e ∈ entries fc cols ↔ e.2 < cols ∧ fc e.2 = some e.1 := by
  unfold entries
  rw [List.mem_filterMap]
  constructor
  · rintro ⟨g, hg, h⟩
    cases hfg : fc g with
    | none => rw [hfg] at h; cases h
    | some l =>
      rw [hfg] at h
      simp only [Option.map_some, Option.some.injEq] at h
      subst h
      exact ⟨List.mem_range.mp hg, hfg⟩
  · rintro ⟨h1, h2⟩
    exact ⟨e.2, List.mem_range.mpr h1, by rw [h2]; rfl⟩

theorem flatMap_congr' {α β : Type} (L : List α) (f g : α → List β) (h : ∀ a ∈ L, f a = g a) :
    L.flatMap f = L.flatMap g := by
  induction L with
  | nil => rfl
  | cons a L ih =>
    rw [List.flatMap_cons, List.flatMap_cons, h a List.mem_cons_self,
      ih (fun x hx => h x (List.mem_cons_of_mem _ hx))]

theorem createInterface_unfold (nLow : Nat) (fc : Nat → Option Nat) (cols : Nat) :
    createInterface nLow fc cols =
      if entries fc cols = [] then .error .valueError
      else if (List.range (maxLow (entries fc cols) + 1)).any (fun l => countLow (entries fc cols) l > 2) then .error .valueError
      else if (if (List.range (maxLow (entries fc cols) + 1)).all (fun l => countLow (entries fc cols) l > 1) then 2 else 1) * nLow
          ≠ (entries fc cols).length then .error .valueError
      else .ok ⟨if (List.range (maxLow (entries fc cols) + 1)).all (fun l => countLow (entries fc cols) l > 1) then 2 else 1,
        if (List.range (maxLow (entries fc cols) + 1)).all (fun l => countLow (entries fc cols) l > 1) then
          evens ((List.range (maxLow (entries fc cols) + 1)).flatMap (fun l => (entries fc cols).filter (fun e => e.1 = l)))
          ++ odds ((List.range (maxLow (entries fc cols) + 1)).flatMap (fun l => (entries fc cols).filter (fun e => e.1 = l)))
        else (List.range (maxLow (entries fc cols) + 1)).flatMap (fun l => (entries fc cols).filter (fun e => e.1 = l))⟩ := rfl

/-- the facts shared by the one- and two-sided case: `cnt` faces per cell, listed by `F` -/
theorem createInterface_of_filter (nLow : Nat) (fc : Nat → Option Nat) (cols cnt : Nat) (F : Nat → List (Nat × Nat))
    (hpos : 0 < nLow) (hcnt : cnt = 1 ∨ cnt = 2)
    (hlow : ∀ e ∈ entries fc cols, e.1 < nLow)
    (hF : ∀ l, l < nLow → (entries fc cols).filter (fun e => e.1 = l) = F l)
    (hlen : ∀ l, l < nLow → (F l).length = cnt) :
    createInterface nLow fc cols = .ok ⟨cnt,
      if cnt = 2 then evens ((List.range nLow).flatMap F) ++ odds ((List.range nLow).flatMap F)
      else (List.range nLow).flatMap F⟩ := by
  have hcl : ∀ l, l < nLow → countLow (entries fc cols) l = cnt := by
    intro l hl; unfold countLow; rw [hF l hl, hlen l hl]
  -- the last cell has an entry
  have hlast : ∃ e ∈ entries fc cols, e.1 = nLow - 1 := by
    have h1 := hF (nLow - 1) (by omega)
    have h2 := hlen (nLow - 1) (by omega)
    cases hFl : F (nLow - 1) with
    | nil => rw [hFl] at h2; simp at h2; omega
    | cons e t =>
      have : e ∈ (entries fc cols).filter (fun e => e.1 = nLow - 1) := by rw [h1, hFl]; exact List.mem_cons_self
      rw [List.mem_filter] at this
      exact ⟨e, this.1, by simpa using this.2⟩
  have hmax : maxLow (entries fc cols) + 1 = nLow := by
    rw [maxLow_eq _ (nLow - 1) (fun e he => by have := hlow e he; omega) hlast]; omega
  have hne : entries fc cols ≠ [] := by
    obtain ⟨e, he, _⟩ := hlast
    exact List.ne_nil_of_mem he
  have hany : (List.range nLow).any (fun l => countLow (entries fc cols) l > 2) = false := by
    rw [List.any_eq_false]
    intro l hl
    rw [hcl l (List.mem_range.mp hl)]
    rcases hcnt with h | h <;> simp [h]
  have hall : (List.range nLow).all (fun l => countLow (entries fc cols) l > 1) = decide (cnt = 2) := by
    rcases hcnt with h | h
    · subst h
      have : (List.range nLow).all (fun l => countLow (entries fc cols) l > 1) = false := by
        rw [List.all_eq_false]
        exact ⟨0, List.mem_range.mpr hpos, by rw [hcl 0 hpos]; simp⟩
      rw [this]; rfl
    · subst h
      have : (List.range nLow).all (fun l => countLow (entries fc cols) l > 1) = true := by
        rw [List.all_eq_true]
        intro l hl
        rw [hcl l (List.mem_range.mp hl)]; simp
      rw [this]; rfl
  have hsorted : (List.range nLow).flatMap (fun l => (entries fc cols).filter (fun e => e.1 = l))
      = (List.range nLow).flatMap F := by
    exact flatMap_congr' _ _ _ (fun l hl => hF l (List.mem_range.mp hl))
  have hlength : (entries fc cols).length = nLow * cnt := by
    rw [length_eq_sum_count _ nLow hlow, sumTo_congr (fun l hl => hcl l hl), sumTo_const]
  rw [createInterface_unfold, hmax, if_neg hne, hany, hall, hsorted, hlength]
  rcases hcnt with h | h <;> subst h <;> simp [Nat.mul_comm]

theorem createInterface_two {nLow cols : Nat} {fc : Nat → Option Nat} {g1 g2 : Nat → Nat}
    (h : TwoSided nLow cols fc g1 g2) :
    createInterface nLow fc cols = .ok ⟨2,
      (List.range nLow).map (fun l => (l, g1 l)) ++ (List.range nLow).map (fun l => (l, g2 l))⟩ := by
  have := createInterface_of_filter nLow fc cols 2 (fun l => [(l, g1 l), (l, g2 l)]) h.pos (Or.inr rfl)
    (fun e he => by
      have := (mem_entries fc cols e).mp he
      exact ((h.spec e.2 e.1 this.1).mp this.2).1)
    (fun l hl => by
      rw [entries_filter, filter_range_two cols (g1 l) (g2 l) _ (h.order l hl).1 (h.order l hl).2
        (fun g hg => by rw [decide_eq_true_iff, h.spec g l hg]; simp [hl])]
      rfl)
    (fun l _ => rfl)
  rw [this, if_pos rfl, (evens_flatMap_pair _ _ _).1, (evens_flatMap_pair _ _ _).2]

theorem flatMap_singleton {α β : Type} (A : α → β) (L : List α) : L.flatMap (fun l => [A l]) = L.map A := by
  induction L with
  | nil => rfl
  | cons a L ih => simp [List.flatMap_cons, ih]

theorem createInterface_one {nLow cols : Nat} {fc : Nat → Option Nat} {g1 : Nat → Nat}
    (h : OneSided nLow cols fc g1) :
    createInterface nLow fc cols = .ok ⟨1, (List.range nLow).map (fun l => (l, g1 l))⟩ := by
  have := createInterface_of_filter nLow fc cols 1 (fun l => [(l, g1 l)]) h.pos (Or.inl rfl)
    (fun e he => by
      have := (mem_entries fc cols e).mp he
      exact ((h.spec e.2 e.1 this.1).mp this.2).1)
    (fun l hl => by
      rw [entries_filter, filter_range_one cols (g1 l) _ (h.bound l hl)
        (fun g hg => by rw [decide_eq_true_iff, h.spec g l hg]; simp [hl])]
      rfl)
    (fun l _ => rfl)
  rw [this, if_neg (by decide), flatMap_singleton]

end PorepyVerif.C25
