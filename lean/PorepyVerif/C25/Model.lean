/-
C25 — executable model of the face-splitting bookkeeping of `porepy.fracs.split_grid.split_faces`
(`duplicate_faces` / `_duplicate_specific_faces`, `_update_face_cells`, `update_cell_connectivity`,
`remove_faces`, face tags) for a list of fractures of ONE host grid, and of the mortar-cell
bookkeeping of `porepy.fracs.meshing.create_interfaces` + `MortarGrid._init_projections`.
Core Lean only.

Arrays indexed by the host face are modelled as functions `Nat → _` together with their length
(`nF` = `sd.num_faces`, `fcCols` = number of columns of every `face_cells` matrix); values beyond
the length are meaningless.  A row of the incidence matrix `cell_faces` (faces × cells) is the
list of its non-zeros `(cell, ±1)`; every non-zero also carries the SIDE FLAG
`left = ((cell centre − x0) · n ≤ 0)` that `update_cell_connectivity` computes from the geometry
(input data of the model).  A `face_cells` matrix (lower-dimensional cells × host faces, built by
`_assemble_mdg` with exactly one non-zero per row and at most one per column) is the partial
function host face ↦ lower-dimensional cell.
-/
namespace PorepyVerif.C25

/-- one non-zero of a row of `cell_faces` -/
structure Inc where
  cell : Nat
  sign : Int
  left : Bool
deriving DecidableEq, Repr

inductive Err where
  | valueError
  | assertionError
  | notImplementedError
deriving DecidableEq, Repr

/-- the host grid (what `split_faces` reads and writes) and the `face_cells` matrices of its
    lower-dimensional neighbours, in the order of `split_faces`' loop -/
structure Host where
  nF : Nat                      -- sd.num_faces
  inc : Nat → List Inc          -- rows of sd.cell_faces
  frac : Nat → Bool             -- sd.tags["fracture_faces"]
  tip : Nat → Bool              -- sd.tags["tip_faces"]
  dom : Nat → Bool              -- sd.tags["domain_boundary_faces"]
  normal : Nat → List Rat       -- sd.face_normals (columns)
  nFr : Nat                     -- len(face_cells)
  fcCols : Nat                  -- face_cells[i].shape[1]
  fc : Nat → Nat → Option Nat   -- face_cells[i]: host face ↦ lower-dimensional cell
  pairs : List (Nat × Nat)      -- sd.frac_pairs (columns)

/-- `tags.all_face_tags`: the face carries one of the standard face tags -/
def Host.rem (s : Host) (g : Nat) : Bool := s.frac g || s.tip g || s.dom g

/-- `np.unique(face_cells[i].nonzero()[1])` -/
def Host.fracFaces (s : Host) (i : Nat) : List Nat :=
  (List.range s.fcCols).filter (fun g => (s.fc i g).isSome)

/-- the faces that are actually duplicated: previously untagged ones (`frac_id[~rem]`) -/
def Host.ids (s : Host) (i : Nat) : List Nat := (s.fracFaces i).filter (fun g => !s.rem g)

/-- all non-zeros of the rows `ids` of `cell_faces` (`np.argwhere(cell_frac)`) -/
def Host.touched (s : Host) (i : Nat) : List Inc := (s.ids i).flatMap s.inc

/-- tags after `_duplicate_specific_faces` (on the old faces): tagged fracture faces and the
    duplicated faces become fracture faces, no fracture face is a tip -/
def Host.frac1 (s : Host) (i : Nat) (g : Nat) : Bool :=
  if g ∈ s.fracFaces i then true else s.frac g

def Host.tip1 (s : Host) (i : Nat) (g : Nat) : Bool :=
  if g ∈ s.fracFaces i then false else s.tip g

/-- the face of which the new face `g ≥ nF` is the copy (`ids` = the duplicated faces) -/
def Host.src (s : Host) (ids : List Nat) (g : Nat) : Nat := ids.getD (g - s.nF) 0

/-- `_update_face_cells`: matrix `i` gets copies of the columns `ids`, the others empty columns -/
def Host.fc1 (s : Host) (i : Nat) (ids : List Nat) (j g : Nat) : Option Nat :=
  if g < s.fcCols then s.fc j g
  else if g < s.fcCols + ids.length then
    (if j = i then s.fc i (ids.getD (g - s.fcCols) 0) else none)
  else s.fc j g

/-- result when no face is duplicated (`face_id.size == 0`): only tags change -/
def Host.tagOnly (s : Host) (i : Nat) : Host := { s with frac := s.frac1 i, tip := s.tip1 i }

/-- result of the branch `np.all(left_cell) or not np.any(left_cell)` of `update_cell_connectivity`:
    the duplicates are removed again (`remove_faces(..., rem_cell_faces=False)`); the tags of the old
    faces and the enlarged face_cells matrices stay -/
def Host.boundary (s : Host) (i : Nat) : Host :=
  let ids := s.ids i
  { s with frac := s.frac1 i, tip := s.tip1 i, fc := s.fc1 i ids, fcCols := s.fcCols + ids.length }

/-- result of the splitting branch: the faces `ids` are duplicated (new indices `nF ..`), the copies
    inherit normal and tags, the cells flagged `left` move to the copy, the others stay -/
def Host.split (s : Host) (i : Nat) : Host :=
  let ids := s.ids i
  let k := ids.length
  { s with
    nF := s.nF + k
    inc := fun g =>
      if g < s.nF then (if g ∈ ids then (s.inc g).filter (fun a => !a.left) else s.inc g)
      else if g < s.nF + k then (s.inc (s.src ids g)).filter (·.left)
      else s.inc g
    frac := fun g => if s.nF ≤ g ∧ g < s.nF + k then true else s.frac1 i g
    tip := fun g => if s.nF ≤ g ∧ g < s.nF + k then false else s.tip1 i g
    dom := fun g => if s.nF ≤ g ∧ g < s.nF + k then s.dom (s.src ids g) else s.dom g
    normal := fun g => if s.nF ≤ g ∧ g < s.nF + k then s.normal (s.src ids g) else s.normal g
    fc := s.fc1 i ids
    fcCols := s.fcCols + k
    pairs := s.pairs ++ ids.zip ((List.range k).map (· + s.nF)) }

/-- number of `left` non-zeros among the rows `ids` (`sum(left_cell)`) -/
def Host.nLeft (s : Host) (i : Nat) : Nat := ((s.touched i).filter (·.left)).length

/-- one pass of the loop of `split_faces` (fracture `i`) -/
def splitOne (s : Host) (i : Nat) : Except Err Host :=
  if (s.ids i).length = 0 then .ok (s.tagOnly i)
  else if s.nLeft i = (s.touched i).length ∨ s.nLeft i = 0 then .ok (s.boundary i)
  else if s.nLeft i * 2 ≠ (s.touched i).length then .error .valueError   -- "Fractures must either be on boundary or completely inside domain"
  else if s.nLeft i ≠ (s.ids i).length then .error .assertionError      -- assert data.size == face_id.size
  else .ok (s.split i)

/-- the loop of `split_faces` over the fractures `is` -/
def splitFrom (s : Host) : List Nat → Except Err Host
  | [] => .ok s
  | i :: is =>
    match splitOne s i with
    | .error e => .error e
    | .ok s' => splitFrom s' is

/-- `split_faces(sd, face_cells)` -/
def splitFaces (s : Host) : Except Err Host := splitFrom s (List.range s.nFr)

/-! ### quantities the property talks about -/

/-- `Σ_{g < n} F g` -/
def sumTo (n : Nat) (F : Nat → Nat) : Nat :=
  match n with
  | 0 => 0
  | n + 1 => sumTo n F + F n

/-- number of faces of cell `c` (non-zeros of column `c` of `cell_faces`) -/
def Host.faceCount (s : Host) (c : Nat) : Nat :=
  sumTo s.nF (fun g => ((s.inc g).filter (fun a => a.cell = c)).length)

/-- number of host faces coupled to the lower-dimensional cell `l` of fracture `i` -/
def Host.coupledCount (s : Host) (i l : Nat) : Nat :=
  sumTo s.nF (fun g => if s.fc i g = some l then 1 else 0)

/-- outward normal of the face `g` as seen from its incident cell(s): sign · stored normal -/
def Host.outward (s : Host) (g : Nat) : List (List Rat) :=
  (s.inc g).map (fun a => (s.normal g).map (fun x => (a.sign : Rat) * x))

/-! ### hypotheses of the theorems: what a valid input of `split_faces` looks like -/

/-- Rows beyond `nF` are empty (`cell_faces` has `num_faces` rows). -/
def Host.RowsWF (s : Host) : Prop := ∀ g, s.nF ≤ g → s.inc g = []

/-- an interior face with one cell on each side of the fracture plane: exactly two non-zeros, with
    opposite signs, exactly one of them flagged `left` -/
def Host.Interior (s : Host) (g : Nat) : Prop :=
  ∃ a b : Inc, (s.inc g = [a, b] ∨ s.inc g = [b, a]) ∧ a.left = false ∧ b.left = true ∧ b.sign = -a.sign

/-- valid input of `split_faces`:
    * `face_cells` matrices have one column per host face,
    * no host face belongs to two fractures,
    * every lower-dimensional cell has one host face (`_assemble_mdg`: one non-zero per row),
    * a fracture face that carries no tag (not a tip / domain boundary face of the host, i.e. the
      host does not end there) is interior with one cell on each side. -/
structure Host.Valid (s : Host) : Prop where
  aligned : s.fcCols = s.nF
  disjoint : ∀ i j g, i < s.nFr → j < s.nFr → i ≠ j → g < s.nF → (s.fc i g).isSome = true → s.fc j g = none
  inj : ∀ i g g' l, i < s.nFr → g < s.nF → g' < s.nF → s.fc i g = some l → s.fc i g' = some l → g = g'
  interior : ∀ i g, i < s.nFr → g < s.nF → (s.fc i g).isSome = true → s.rem g = false → s.Interior g

/-- decidable form of `Interior` -/
def Host.interiorB (s : Host) (g : Nat) : Bool :=
  match s.inc g with
  | [a, b] => (a.left != b.left) && (b.sign == -a.sign)
  | _ => false

/-- decidable form of `Valid` (checked by the driver on every correspondence case) -/
def Host.validB (s : Host) : Bool :=
  s.fcCols == s.nF &&
  (List.range s.nFr).all (fun i => (List.range s.nF).all (fun g =>
    match s.fc i g with
    | none => true
    | some l =>
      (List.range s.nFr).all (fun j => j == i || (s.fc j g).isNone) &&
      (List.range s.nF).all (fun g' => g' == g || s.fc i g' != some l) &&
      (s.rem g || s.interiorB g)))

/-- no face carries the fracture tag yet (fresh host grid) -/
def Host.noFracB (s : Host) : Bool := (List.range s.nF).all (fun g => !s.frac g)

/-! ### mortar cells (`create_interfaces`, `MortarGrid.__init__`, `_init_projections`) -/

structure Mortar where
  sides : Nat
  /-- mortar cell `m` ↦ (lower-dimensional cell, host face): the single non-zeros of row `m` of
      `secondary_to_mortar_int` and `primary_to_mortar_int` -/
  cells : List (Nat × Nat)
deriving DecidableEq, Repr

/-- non-zeros of a `face_cells` matrix in csc order: (row = lower-dim cell, column = host face) -/
def entries (fc : Nat → Option Nat) (cols : Nat) : List (Nat × Nat) :=
  (List.range cols).filterMap (fun g => (fc g).map (fun l => (l, g)))

def evens : List α → List α
  | [] => []
  | [a] => [a]
  | a :: _ :: t => a :: evens t

def odds : List α → List α
  | [] => []
  | [_] => []
  | _ :: b :: t => b :: odds t

/-- `np.bincount(face_cells.indices)[l]` -/
def countLow (es : List (Nat × Nat)) (l : Nat) : Nat := (es.filter (fun e => e.1 = l)).length

def maxLow (es : List (Nat × Nat)) : Nat := es.foldl (fun a e => max a e.1) 0

/-- `create_interfaces` for one pair (host, lower-dimensional grid with `nLow` cells) -/
def createInterface (nLow : Nat) (fc : Nat → Option Nat) (cols : Nat) : Except Err Mortar :=
  let es := entries fc cols
  if es = [] then .error .valueError            -- np.max of an empty bincount
  else
    let lows := List.range (maxLow es + 1)
    if lows.any (fun l => countLow es l > 2) then .error .valueError
    else
      let two := lows.all (fun l => countLow es l > 1)
      let sides := if two then 2 else 1
      -- stable argsort by the lower-dimensional cell
      let sorted := lows.flatMap (fun l => es.filter (fun e => e.1 = l))
      -- two sides: `np.reshape(ix, (2, -1), order="F").ravel("C")`
      let ordered := if two then evens sorted ++ odds sorted else sorted
      if sides * nLow ≠ es.length then .error .valueError   -- one-to-one check of _init_projections
      else .ok ⟨sides, ordered⟩

/-- every lower-dimensional cell `l < nLow` is coupled to exactly the two host faces `g1 l < g2 l` -/
structure TwoSided (nLow cols : Nat) (fc : Nat → Option Nat) (g1 g2 : Nat → Nat) : Prop where
  pos : 0 < nLow
  order : ∀ l, l < nLow → g1 l < g2 l ∧ g2 l < cols
  spec : ∀ g l, g < cols → (fc g = some l ↔ l < nLow ∧ (g = g1 l ∨ g = g2 l))

/-- every lower-dimensional cell `l < nLow` is coupled to exactly the host face `g1 l` -/
structure OneSided (nLow cols : Nat) (fc : Nat → Option Nat) (g1 : Nat → Nat) : Prop where
  pos : 0 < nLow
  bound : ∀ l, l < nLow → g1 l < cols
  spec : ∀ g l, g < cols → (fc g = some l ↔ l < nLow ∧ g = g1 l)

/-! ## structured generators (`fracs/structured.py`): index arithmetic on tensor grids

`pp.TensorGrid` numbers the node `(i, j, k)` of a grid with `nx × ny × nz` cells as
`i + j (nx+1) + k (nx+1)(ny+1)`; faces are numbered kind by kind (x-normal, y-normal, z-normal faces),
the first index running fastest. -/

def nodeIdx (nx ny i j k : Nat) : Nat := i + j * (nx + 1) + k * ((nx + 1) * (ny + 1))

/-- `np.arange(s, e, step)` for a positive step -/
def arange (s e step : Nat) : List Nat :=
  (List.range ((e - s + (step - 1)) / step)).map (fun t => s + t * step)

/-- `_find_nodes_on_line(g, nx, s_pt, e_pt)`: `s`, `e` are the node indices closest to the two end
    points (geometric search, input of the model), `axis` the direction in which the end points
    differ (0: x-line, 1: y-line, 2: z-line). -/
def stride (nx ny axis : Nat) : Nat :=
  match axis with
  | 0 => 1                      -- x-line: np.arange(s_node, e_node + 1)
  | 1 => nx + 1                 -- y-line: step nx[0] + 1
  | _ => (nx + 1) * (ny + 1)    -- z-line: step (nx[0] + 1) * (nx[1] + 1)

def findNodesOnLine (nx ny axis s e : Nat) : List Nat :=
  arange (min s e) (max s e + 1) (stride nx ny axis)

abbrev T3 := Nat × Nat × Nat

def T3.get (t : T3) : Nat → Nat
  | 0 => t.1
  | 1 => t.2.1
  | _ => t.2.2

/-- node index of a multi-index -/
def idx3 (nx ny : Nat) (a : T3) : Nat := nodeIdx nx ny a.1 a.2.1 a.2.2

/-- `t` steps from `a` in direction `axis` -/
def shift (axis : Nat) (a : T3) (t : Nat) : T3 :=
  match axis with
  | 0 => (a.1 + t, a.2.1, a.2.2)
  | 1 => (a.1, a.2.1 + t, a.2.2)
  | _ => (a.1, a.2.1, a.2.2 + t)

/-- the multi-index is a node of the grid (the third index is not bounded by the numbering) -/
def InGrid (nx ny : Nat) (a : T3) : Prop := a.1 ≤ nx ∧ a.2.1 ≤ ny

/-- a 3-d tensor grid: cells per direction and node coordinates per direction -/
structure Grid3 where
  n : Nat → Nat
  x : Nat → Nat → Rat

/-- number of indices of a face of kind `d` (normal direction) in direction `c` -/
def Grid3.bound (g : Grid3) (d c : Nat) : Nat := if c = d then g.n c + 1 else g.n c

def Grid3.numFaces (g : Grid3) (d : Nat) : Nat := g.bound d 0 * g.bound d 1 * g.bound d 2

/-- all faces of kind `d`, in the order of their indices -/
def Grid3.facesOfKind (g : Grid3) (d : Nat) : List (Nat × T3) :=
  (List.range (g.bound d 2)).flatMap (fun k => (List.range (g.bound d 1)).flatMap (fun j =>
    (List.range (g.bound d 0)).map (fun i => (d, (i, j, k)))))

def Grid3.allFaces (g : Grid3) : List (Nat × T3) := g.facesOfKind 0 ++ g.facesOfKind 1 ++ g.facesOfKind 2

def Grid3.faceOffset (g : Grid3) : Nat → Nat
  | 0 => 0
  | 1 => g.numFaces 0
  | _ => g.numFaces 0 + g.numFaces 1

def Grid3.faceIndex (g : Grid3) (f : Nat × T3) : Nat :=
  g.faceOffset f.1 + f.2.1 + f.2.2.1 * g.bound f.1 0 + f.2.2.2 * (g.bound f.1 0 * g.bound f.1 1)

/-- coordinate `c` of the centre of the face of kind `d` with index `t` -/
def Grid3.center (g : Grid3) (d : Nat) (t : T3) (c : Nat) : Rat :=
  if c = d then g.x c (t.get c) else (g.x c (t.get c) + g.x c (t.get c + 1)) / 2

/-- node indices of a face (as a set; `face_nodes`) -/
def Grid3.faceNodes (g : Grid3) (f : Nat × T3) : List Nat :=
  let nd := fun (i j k : Nat) => nodeIdx (g.n 0) (g.n 1) i j k
  let (i, j, k) := f.2
  match f.1 with
  | 0 => [nd i j k, nd i (j + 1) k, nd i (j + 1) (k + 1), nd i j (k + 1)]
  | 1 => [nd i j k, nd i j (k + 1), nd (i + 1) j (k + 1), nd (i + 1) j k]
  | _ => [nd i j k, nd (i + 1) j k, nd (i + 1) (j + 1) k, nd i (j + 1) k]

/-- the two in-plane directions of a plane with normal direction `o` (`active_dim`) -/
def activeDims : Nat → Nat × Nat
  | 0 => (1, 2)
  | 1 => (0, 2)
  | _ => (0, 1)

/-- consecutive pairs of a closed polygon -/
def cyc (P : List (Rat × Rat)) : List ((Rat × Rat) × (Rat × Rat)) :=
  match P with
  | [] => []
  | p :: t => (p :: t).zip (t ++ [p])

/-- `geometry_property_checks.is_ccw_polygon` -/
def isCcw (P : List (Rat × Rat)) : Bool :=
  ((cyc P).map (fun e => (e.2.2 + e.1.2) * (e.2.1 - e.1.1))).foldl (· + ·) 0 < 0

/-- the in-plane part of `point_inside_half_space_intersection(normal, f_s, face_centers)` with the
    edge normals of `_create_lower_dim_grids_3d`: tangent `(tu, tv)` ↦ `sign · (tv, −tu)` -/
def inHull (P : List (Rat × Rat)) (p : Rat × Rat) : Bool :=
  let sg : Rat := if isCcw P then 1 else -1
  (cyc P).all (fun e => (p.1 - e.1.1) * (sg * (e.2.2 - e.1.2)) + (p.2 - e.1.2) * (sg * -(e.2.1 - e.1.1)) ≤ 0)

/-- `f_tag` of `_create_lower_dim_grids_3d` for one face: inside the hull of the snapped rectangle
    `P` (in-plane coordinates) and within `tol` of the plane `x_o = p` -/
def Grid3.faceOnPlane (g : Grid3) (o : Nat) (p tol : Rat) (P : List (Rat × Rat)) (f : Nat × T3) : Bool :=
  inHull P (g.center f.1 f.2 (activeDims o).1, g.center f.1 f.2 (activeDims o).2) &&
    (p - tol ≤ g.center f.1 f.2 o && g.center f.1 f.2 o < p + tol)

/-- the host faces of a fracture (indices), and the nodes of the fracture grid (`np.unique`) -/
def Grid3.planeFaces (g : Grid3) (o : Nat) (p tol : Rat) (P : List (Rat × Rat)) : List Nat :=
  (g.allFaces.filter (g.faceOnPlane o p tol P)).map g.faceIndex

def Grid3.planeNodes (g : Grid3) (o : Nat) (p tol : Rat) (P : List (Rat × Rat)) : List Nat :=
  let sel := (g.allFaces.filter (g.faceOnPlane o p tol P)).flatMap g.faceNodes
  (List.range ((g.n 0 + 1) * (g.n 1 + 1) * (g.n 2 + 1))).filter (fun n => n ∈ sel)

/-- the eight ways to list the corners of the rectangle `[u0,u1] × [v0,v1]` in cyclic order -/
def IsRectOrder (u0 u1 v0 v1 : Rat) (P : List (Rat × Rat)) : Prop :=
  P = [(u0, v0), (u1, v0), (u1, v1), (u0, v1)] ∨ P = [(u1, v0), (u1, v1), (u0, v1), (u0, v0)] ∨
  P = [(u1, v1), (u0, v1), (u0, v0), (u1, v0)] ∨ P = [(u0, v1), (u0, v0), (u1, v0), (u1, v1)] ∨
  P = [(u0, v1), (u1, v1), (u1, v0), (u0, v0)] ∨ P = [(u1, v1), (u1, v0), (u0, v0), (u0, v1)] ∨
  P = [(u1, v0), (u0, v0), (u0, v1), (u1, v1)] ∨ P = [(u0, v0), (u0, v1), (u1, v1), (u1, v0)]

/-- a valid face index of kind `d` -/
def Grid3.ValidFace (g : Grid3) (f : Nat × T3) : Prop :=
  f.1 < 3 ∧ f.2.1 < g.bound f.1 0 ∧ f.2.2.1 < g.bound f.1 1 ∧ f.2.2.2 < g.bound f.1 2

/-- node coordinates strictly increase in every direction -/
def Grid3.Mono (g : Grid3) : Prop := ∀ c a b, c < 3 → a < b → b ≤ g.n c → g.x c a < g.x c b

/-- an axis-aligned rectangular fracture on the grid plane `x_o = x_o[k0]`, spanning the node
    indices `a0..a1` × `b0..b1` in the two in-plane directions; `P` lists its (snapped) corners in one
    of the eight cyclic orders; the tolerance is smaller than half the smallest cell size in
    direction `o` (as coded: 0.1 of the cell size for `cart_grid`) -/
structure Grid3.PlaneSpec (g : Grid3) (o k0 a0 a1 b0 b1 : Nat) (p tol : Rat) (P : List (Rat × Rat)) : Prop where
  ho : o < 3
  mono : g.Mono
  hk : k0 ≤ g.n o
  hp : p = g.x o k0
  htol : 0 < tol
  hgap : ∀ i, i < g.n o → tol < (g.x o (i + 1) - g.x o i) / 2
  ha : a0 < a1 ∧ a1 ≤ g.n (activeDims o).1
  hb : b0 < b1 ∧ b1 ≤ g.n (activeDims o).2
  rect : IsRectOrder (g.x (activeDims o).1 a0) (g.x (activeDims o).1 a1)
    (g.x (activeDims o).2 b0) (g.x (activeDims o).2 b1) P

/-! ## node splitting (`split_grid.split_nodes` / `duplicate_nodes`, zero offset)

After the faces are split, every node of a lower-dimensional neighbour is duplicated once per
connected component of the cells around it (cells are connected when they still share a face).
`networkx.connected_components` is modelled by label propagation: every cell of the cluster starts
with its own index as label and repeatedly takes the minimum label among the cells it shares a face
with; components are numbered by their smallest cell (the order in which networkx reports them). -/

structure NodeGrid where
  nN : Nat                       -- sd.num_nodes
  nC : Nat                       -- sd.num_cells
  faceNodes : Nat → List Nat     -- columns of sd.face_nodes (stored order)
  cellFaces : Nat → List Nat     -- columns of sd.cell_faces

def NodeGrid.cellHasNode (g : NodeGrid) (c n : Nat) : Bool := (g.cellFaces c).any (fun f => n ∈ g.faceNodes f)

/-- `cell_clusters`: the cells around node `n`, increasing -/
def NodeGrid.cluster (g : NodeGrid) (n : Nat) : List Nat := (List.range g.nC).filter (fun c => g.cellHasNode c n)

/-- non-zero of `c2c = cf_loc.T * cf_loc`: the two cells share a face -/
def NodeGrid.adj (g : NodeGrid) (a b : Nat) : Bool := (g.cellFaces a).any (fun f => f ∈ g.cellFaces b)

def listMin (m : Nat) : List Nat → Nat
  | [] => m
  | x :: t => min x (listMin m t)

/-- one round of label propagation for cell `c` -/
def NodeGrid.stepLab (g : NodeGrid) (L : List Nat) (lab : Nat → Nat) (c : Nat) : Nat :=
  listMin (lab c) ((L.filter (fun d => g.adj c d)).map lab)

/-- the function with values `vs` on the keys `ks` (identity elsewhere) -/
def tab : List Nat → List Nat → Nat → Nat
  | k :: ks, v :: vs, c => if c = k then v else tab ks vs c
  | _, _, c => c

/-- one round for all cells of the cluster; labels are kept as a list parallel to `L` -/
def NodeGrid.stepVals (g : NodeGrid) (L vals : List Nat) : List Nat := L.map (g.stepLab L (tab L vals))

def NodeGrid.iterVals (g : NodeGrid) (L : List Nat) : Nat → List Nat → List Nat
  | 0, v => v
  | t + 1, v => g.iterVals L t (g.stepVals L v)

/-- labels after `|L|` rounds, starting from every cell labelled by itself -/
def NodeGrid.labelVals (g : NodeGrid) (L : List Nat) : List Nat := g.iterVals L L.length L

/-- component labels of the cells around a node: smallest cell index of the component -/
def NodeGrid.labels (g : NodeGrid) (L : List Nat) : Nat → Nat := tab L (g.labelVals L)

/-- the propagation has converged -/
def NodeGrid.stable (g : NodeGrid) (L : List Nat) (lab : Nat → Nat) : Bool :=
  L.all (fun c => g.stepLab L lab c = lab c)

/-- one representative (the smallest cell) per component, increasing: the order of the subclusters -/
def roots (L : List Nat) (lab : Nat → Nat) : List Nat := L.filter (fun c => lab c = c)

/-- what is added to the node index in the faces of component number `t ≥ 1` (`node_occ`):
    `hit r` = the face belongs to a cell of the component with representative `r` -/
def offsetAux (hit : Nat → Bool) : List Nat → Nat → Nat
  | [], _ => 0
  | r :: rs, t => (if 1 ≤ t ∧ hit r then t else 0) + offsetAux hit rs (t + 1)

structure NodeInfo where
  L : List Nat
  vals : List Nat        -- labels of the cells of `L`
  roots : List Nat

def NodeInfo.lab (i : NodeInfo) : Nat → Nat := tab i.L i.vals

def NodeGrid.info (g : NodeGrid) (n : Nat) : NodeInfo :=
  let L := g.cluster n
  let vals := g.labelVals L
  ⟨L, vals, roots L (tab L vals)⟩

def lookupInfo : List (Nat × NodeInfo) → Nat → Option NodeInfo
  | [], _ => none
  | (k, v) :: t, n => if n = k then some v else lookupInfo t n

/-- offset of node `n` in face `f` -/
def NodeGrid.offset (g : NodeGrid) (i : NodeInfo) (f : Nat) : Nat :=
  offsetAux (fun r => i.L.any (fun c => i.lab c = r && f ∈ g.cellFaces c)) i.roots 0

structure NodeOut where
  nN : Nat
  faceNodes : Nat → List Nat
  newToOld : List Nat

/-- `added[m]` summed over the split nodes `m < n` (`increment[n]`) -/
def incBefore (infos : List (Nat × NodeInfo)) (n : Nat) : Nat :=
  ((infos.filter (fun p => p.1 < n)).map (fun p => p.2.roots.length - 1)).foldl (· + ·) 0

/-- `duplicate_nodes(sd, nodes, 0)`; `none` if the label propagation did not converge -/
def NodeGrid.duplicateNodes (g : NodeGrid) (split : List Nat) : Option NodeOut :=
  let infos := split.map (fun n => (n, g.info n))
  if infos.all (fun p => g.stable p.2.L p.2.lab) then
    some {
      nN := g.nN + (infos.map (fun p => p.2.roots.length - 1)).foldl (· + ·) 0
      faceNodes := fun f => (g.faceNodes f).map (fun n =>
        n + (match lookupInfo infos n with
             | some i => g.offset i f
             | none => 0) + incBefore infos n)
      newToOld := (List.range g.nN).flatMap (fun n =>
        List.replicate (match lookupInfo infos n with
                        | some i => i.roots.length
                        | none => 1) n) }
  else none

/-- connectivity of the cells of `L` through shared faces -/
inductive Conn (g : NodeGrid) (L : List Nat) : Nat → Nat → Prop
  | refl (a : Nat) : Conn g L a a
  | step {a b c : Nat} : Conn g L a b → b ∈ L → c ∈ L → g.adj b c = true → Conn g L a c

/-! ## entry points (`meshing.cart_grid`, `meshing.tensor_grid`): argument handling -/

/-- `cart_grid(fracs, nx, physdims=...)`: `ndim = len(nx)`; `physdims` defaults to `nx`, otherwise its
    length must be `ndim` ("Physical dimension must equal grid dimension"); only 2 and 3 dimensions
    are supported. Returns the dimension of the structured generator that is called. -/
def cartGridDispatch (ndim : Nat) (physLen : Option Nat) : Except Err Nat :=
  match physLen with
  | some p =>
    if p ≠ ndim then .error .valueError
    else if ndim = 2 then .ok 2 else if ndim = 3 then .ok 3 else .error .valueError
  | none => if ndim = 2 then .ok 2 else if ndim = 3 then .ok 3 else .error .valueError

/-- `tensor_grid(fracs, x, y=None, z=None)` -/
def tensorGridDispatch (hasY hasZ : Bool) : Except Err Nat :=
  if !hasY then .error .notImplementedError else if !hasZ then .ok 2 else .ok 3

end PorepyVerif.C25
