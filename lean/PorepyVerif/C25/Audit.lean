import PorepyVerif.C25.Props
#print axioms PorepyVerif.C25.cells_preserved
#print axioms PorepyVerif.C25.tags_mark_coupled_of_aligned
#print axioms PorepyVerif.C25.tags_mark_coupled
#print axioms PorepyVerif.C25.split_face_pairs
#print axioms PorepyVerif.C25.split_normals_opposite
#print axioms PorepyVerif.C25.mortar_side_counts
#print axioms PorepyVerif.C25.mortar_after_split
#print axioms PorepyVerif.C25.nodes_on_line_eq
#print axioms PorepyVerif.C25.node_index_injective
#print axioms PorepyVerif.C25.nodes_on_line_exact
#print axioms PorepyVerif.C25.plane_faces_exact
#print axioms PorepyVerif.C25.plane_nodes_exact
#print axioms PorepyVerif.C25.node_components
#print axioms PorepyVerif.C25.split_nodes_count
#print axioms PorepyVerif.C25.node_copy_of_cell
