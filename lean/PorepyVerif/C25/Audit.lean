import PorepyVerif.C25.Props
#print axioms PorepyVerif.C25.cells_preserved
#print axioms PorepyVerif.C25.tags_mark_coupled_of_aligned
#print axioms PorepyVerif.C25.tags_mark_coupled
#print axioms PorepyVerif.C25.split_face_pairs
#print axioms PorepyVerif.C25.split_normals_opposite
#print axioms PorepyVerif.C25.mortar_side_counts
#print axioms PorepyVerif.C25.mortar_after_split
