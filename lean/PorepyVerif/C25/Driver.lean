/- C25 line-protocol driver: `lake env lean --run PorepyVerif/C25/Driver.lean`

ops
  {"op":"split","nF":n,"inc":[[[cell,sign,left01],..] per face],"frac":[0/1..],"tip":[..],"dom":[..],
   "normals":[["n/d",..] per face],"fcs":[[[lowcell,face],..] per fracture]}
      -> the host after `splitFaces` (rows of cell_faces, tags, normals, frac_pairs, face_cells columns) or {"err":..};
         the state is kept for the following "mortar" ops
  {"op":"mortar","i":fracture,"nlow":cells of the lower-dimensional grid}
      -> `createInterface` on face_cells[i] of the kept state
  {"op":"cart_args","ndim":len(nx),"phys":len(physdims)|null} / {"op":"tensor_args","has_y":b,"has_z":b} -> {"dim":d} | {"err":..}
  {"op":"nodes","nN":..,"nC":..,"face_nodes":[[nodes] per unsplit face],"split":[nodes of the lower-dimensional neighbours]}
      -> `duplicateNodes` on the kept state (cell_faces after the face split; duplicated faces copy the nodes of their original)
  {"op":"line","nx":..,"ny":..,"axis":0|1|2,"s":node,"e":node} -> `findNodesOnLine`
  {"op":"plane","n":[nx,ny,nz],"xs":[[x nodes],[y nodes],[z nodes]],"o":normal direction,"p":plane coordinate,"tol":..,
   "P":[[u,v] x 4 snapped corners in the in-plane coordinates]} -> {"faces": planeFaces, "nodes": planeNodes}
-/
import PorepyVerif.Common.Wire
import PorepyVerif.C25.Model
open Lean PV PorepyVerif.C25

abbrev St := Option Host

def errName : Err → String
  | .valueError => "ValueError"
  | .assertionError => "AssertionError"
  | .notImplementedError => "NotImplementedError"

def jInc (j : Json) : R Inc := do
  let l ← jList jInt j
  match l with
  | [c, s, lf] => if c < 0 then throw "negative cell" else pure ⟨c.toNat, s, lf != 0⟩
  | _ => throw "incidence triple expected"

def jPair (j : Json) : R (Nat × Nat) := do
  let l ← jList jNat j
  match l with
  | [a, b] => pure (a, b)
  | _ => throw "pair expected"

def bools (l : List Nat) : Nat → Bool :=
  let a := l.toArray
  fun g => a.getD g 0 != 0

def b01 (b : Bool) : Json := ofNat (if b then 1 else 0)

def dumpHost (s : Host) : Json :=
  let faces := List.range s.nF
  obj [("nF", ofNat s.nF),
       ("inc", ofList (fun g => ofList (fun (a : Inc) => ofInts [a.cell, a.sign]) (s.inc g)) faces),
       ("frac", ofList (fun g => b01 (s.frac g)) faces),
       ("tip", ofList (fun g => b01 (s.tip g)) faces),
       ("dom", ofList (fun g => b01 (s.dom g)) faces),
       ("normals", ofList (fun g => ofRats (s.normal g)) faces),
       ("pairs", ofList (fun (p : Nat × Nat) => ofNats [p.1, p.2]) s.pairs),
       ("fcs", ofList (fun i => ofList (fun g => match s.fc i g with
                                                  | some l => ofInt l
                                                  | none => ofInt (-1)) (List.range s.fcCols)) (List.range s.nFr))]

def step (st : St) (j : Json) : R (St × Json) := do
  let op ← fStr j "op"
  match op with
  | "split" =>
    let nF ← fNat j "nF"
    let inc ← field j "inc" >>= jList (jList jInc)
    let frac ← fNats j "frac"
    let tip ← fNats j "tip"
    let dom ← fNats j "dom"
    let normals ← fRatss j "normals"
    let fcs ← field j "fcs" >>= jList (jList jPair)
    if inc.length != nF || frac.length != nF || tip.length != nF || dom.length != nF || normals.length != nF then
      throw "length mismatch"
    else
    let incA := inc.toArray
    let norA := normals.toArray
    -- face_cells[i] as an array over the host faces
    let fcA : Array (Array (Option Nat)) := (fcs.map (fun (lf : List (Nat × Nat)) =>
      lf.foldl (fun (a : Array (Option Nat)) (p : Nat × Nat) => a.setIfInBounds p.2 (some p.1)) (Array.replicate nF none))).toArray
    let s : Host := { nF := nF, inc := fun g => incA.getD g [], frac := bools frac, tip := bools tip, dom := bools dom,
                      normal := fun g => norA.getD g [], nFr := fcs.length, fcCols := nF,
                      fc := fun i g => (fcA.getD i #[]).getD g none, pairs := [] }
    match splitFaces s with
    | .error e => pure (none, err (errName e))
    | .ok s' => pure (some s', (dumpHost s').setObjVal! "valid" (Json.bool (s.validB && s.noFracB)))
  | "mortar" =>
    let i ← fNat j "i"
    let nlow ← fNat j "nlow"
    match st with
    | none => pure (st, err "no-state")
    | some s =>
      match createInterface nlow (s.fc i) s.fcCols with
      | .error e => pure (st, err (errName e))
      | .ok m => pure (st, obj [("sides", ofNat m.sides), ("mcells", ofList (fun (p : Nat × Nat) => ofNats [p.1, p.2]) m.cells)])
  | "nodes" =>
    let nN ← fNat j "nN"
    let nC ← fNat j "nC"
    let fn ← fNatss j "face_nodes"
    let split ← fNats j "split"
    match st with
    | none => pure (st, err "no-state")
    | some s =>
      let fnIn := fn.toArray
      let fnA := (fn ++ s.pairs.map (fun p => fnIn.getD p.1 [])).toArray
      let cfA := ((List.range nC).map (fun c => (List.range s.nF).filter (fun g => (s.inc g).any (fun a => a.cell == c)))).toArray
      let g : NodeGrid := { nN := nN, nC := nC, faceNodes := fun f => fnA.getD f [], cellFaces := fun c => cfA.getD c [] }
      match g.duplicateNodes split with
      | none => pure (st, err "no-convergence")
      | some r => pure (st, obj [("nN", ofNat r.nN), ("face_nodes", ofList (fun f => ofNats (r.faceNodes f)) (List.range s.nF)),
                                 ("new2old", ofNats r.newToOld)])
  | "cart_args" =>
    let ndim ← fNat j "ndim"
    let phys ← field j "phys" >>= jOpt jNat
    match cartGridDispatch ndim phys with
    | .error e => pure (st, err (errName e))
    | .ok d => pure (st, obj [("dim", ofNat d)])
  | "tensor_args" =>
    let hy ← fBool j "has_y"
    let hz ← fBool j "has_z"
    match tensorGridDispatch hy hz with
    | .error e => pure (st, err (errName e))
    | .ok d => pure (st, obj [("dim", ofNat d)])
  | "line" =>
    let nx ← fNat j "nx"
    let ny ← fNat j "ny"
    let axis ← fNat j "axis"
    let s ← fNat j "s"
    let e ← fNat j "e"
    pure (st, ofNats (findNodesOnLine nx ny axis s e))
  | "plane" =>
    let n ← fNats j "n"
    let xs ← fRatss j "xs"
    let o ← fNat j "o"
    let p ← fRat j "p"
    let tol ← fRat j "tol"
    let P ← fRatss j "P"
    let nA := n.toArray
    let xA := (xs.map List.toArray).toArray
    let g : Grid3 := { n := fun c => nA.getD c 0, x := fun c i => (xA.getD c #[]).getD i 0 }
    let P2 := P.map (fun (r : List Rat) => (r.getD 0 0, r.getD 1 0))
    pure (st, obj [("faces", ofNats (g.planeFaces o p tol P2)), ("nodes", ofNats (g.planeNodes o p tol P2))])
  | _ => throw s!"unknown op {op}"

def main : IO Unit := runDriver (none : St) step
