/-
C25 — property theorems (statements only depend on Model.lean; helper lemmas in Lemmas.lean).

Property (combinatorial core): after `split_faces`, each lower-dimensional cell is coupled to one
split face of the host on each side (one face only where the host carries a tag there, i.e. where
the host — a fracture — ends at another fracture); the two copies keep the stored normal but have
opposite incidence signs, hence opposite outward normals; the `fracture_faces` tag marks exactly
the coupled faces; every cell keeps its number of faces; each mortar side has as many cells as the
lower-dimensional grid, cell `k` of either side being coupled to lower-dimensional cell `k`
(first side: original faces, second side: duplicates).

The geometric parts of the property (centres, measures, volume, containment) are decided by the
oracle of the harness, not here.
-/
import PorepyVerif.C25.Lemmas
import Mathlib.Tactic.Choose

namespace PorepyVerif.C25

/-- `cells_preserved`: whatever `split_faces` does (any input on which it does not raise), every
    cell keeps its number of faces; cells are never created or removed (the model has no operation
    on the cell index set at all). -/
theorem cells_preserved (s s' : Host) (h : splitFaces s = .ok s') (hwf : s.RowsWF) (c : Nat) :
    s'.faceCount c = s.faceCount c :=
  splitFrom_faceCount _ s s' h hwf c

/-- `tags_mark_coupled` in its most general form: on any run that does not raise and ends with
    face indices and face_cells columns aligned (i.e. the "fracture on the boundary" branch of
    `update_cell_connectivity` was never taken), a host without fracture tags ends up with the
    `fracture_faces` tag exactly on the faces that some `face_cells` matrix couples. -/
theorem tags_mark_coupled_of_aligned (s s' : Host) (h : splitFaces s = .ok s')
    (hal : s.fcCols = s.nF) (hal' : s'.fcCols = s'.nF) (h0 : ∀ g, g < s.nF → s.frac g = false) :
    ∀ g, g < s'.nF → (s'.frac g = true ↔ ∃ j, j < s.nFr ∧ (s'.fc j g).isSome = true) := by
  have hinit : TagInv s (fun _ => False) := by
    intro g hg; rw [h0 g hg]; simp
  have := splitFrom_tags _ s s' _ h hal hal' hinit
  intro g hg
  rw [this g hg]
  constructor
  · rintro ⟨j, hj | hj, hs⟩
    · exact ⟨j, List.mem_range.mp hj, hs⟩
    · exact hj.elim
  · rintro ⟨j, hj, hs⟩
    exact ⟨j, Or.inl (List.mem_range.mpr hj), hs⟩

/-- `tags_mark_coupled`: on a valid input `split_faces` does not raise and the `fracture_faces`
    tag marks exactly the coupled faces. -/
theorem tags_mark_coupled (s : Host) (hv : s.Valid) (h0 : ∀ g, g < s.nF → s.frac g = false) :
    ∃ s', splitFaces s = .ok s' ∧
      ∀ g, g < s'.nF → (s'.frac g = true ↔ ∃ j, j < s.nFr ∧ (s'.fc j g).isSome = true) := by
  obtain ⟨s', h, hinv⟩ := splitFaces_valid hv
  exact ⟨s', h, tags_mark_coupled_of_aligned s s' h hv.aligned hinv.aligned h0⟩

theorem coupledCount_one (s : Host) (i l f : Nat) (hf : f < s.nF)
    (h : ∀ g, g < s.nF → (s.fc i g = some l ↔ g = f)) : s.coupledCount i l = 1 := by
  unfold Host.coupledCount
  rw [sumTo_congr (G := fun g => if g = f then 1 else 0) (fun g hg => if_congr (h g hg) rfl rfl),
    sumTo_ind, if_pos hf]

theorem coupledCount_two (s : Host) (i l f d : Nat) (hf : f < s.nF) (hd : d < s.nF) (hne : f ≠ d)
    (h : ∀ g, g < s.nF → (s.fc i g = some l ↔ (g = f ∨ g = d))) : s.coupledCount i l = 2 := by
  unfold Host.coupledCount
  rw [sumTo_congr (G := fun g => (if g = f then 1 else 0) + (if g = d then 1 else 0)) (fun g hg => by
      rw [if_congr (h g hg) rfl rfl]
      by_cases h1 : g = f
      · subst h1; simp [hne]
      · simp [h1]),
    sumTo_add_fun, sumTo_ind, sumTo_ind, if_pos hf, if_pos hd]

/-- `split_face_pairs`: on a valid input `split_faces` does not raise; every lower-dimensional cell
    `l` (of fracture `i`, matched to host face `f`) is afterwards coupled to exactly ONE host face
    — `f` itself — where the host carries a tag at `f` (the host is a fracture that ends there:
    T or L intersection, one side only), and to exactly TWO host faces — `f` and its duplicate `d`,
    recorded in `frac_pairs` — otherwise; each of the two copies has exactly one incident cell. -/
theorem split_face_pairs (s : Host) (hv : s.Valid) :
    ∃ s', splitFaces s = .ok s' ∧ s'.fcCols = s'.nF ∧
      ∀ i f l, i < s.nFr → f < s.nF → s.fc i f = some l →
        (s.rem f = true → s'.coupledCount i l = 1 ∧ ∀ g, g < s'.nF → (s'.fc i g = some l ↔ g = f)) ∧
        (s.rem f = false → s'.coupledCount i l = 2 ∧
          ∃ d, s.nF ≤ d ∧ d < s'.nF ∧ (f, d) ∈ s'.pairs ∧
            (∀ g, g < s'.nF → (s'.fc i g = some l ↔ (g = f ∨ g = d))) ∧
            (s'.inc f).length = 1 ∧ (s'.inc d).length = 1) := by
  obtain ⟨s', h, hinv⟩ := splitFaces_valid hv
  refine ⟨s', h, hinv.aligned, ?_⟩
  intro i f l hi hf hfl
  obtain ⟨h1, h2⟩ := hinv.res i hi hi f l hf hfl
  have hfs : f < s'.nF := by have := hinv.nF; omega
  constructor
  · intro hr
    exact ⟨coupledCount_one s' i l f hfs (h1 hr), h1 hr⟩
  · intro hr
    obtain ⟨d, hd1, hd2, hiff, a, b, _, _, _, _, hif, hid, _, _, hp⟩ := h2 hr
    refine ⟨coupledCount_two s' i l f d hfs hd2 (by omega) hiff, d, hd1, hd2, hp, hiff, ?_, ?_⟩
    · rw [hif]; rfl
    · rw [hid]; rfl

/-- `split_normals_opposite`: the duplicate `d` of a split face `f` keeps the stored normal, the
    single incidence signs of the two copies are opposite (the cell flagged `left` went to the
    duplicate), hence the OUTWARD normals sign · n of the two copies are opposite. -/
theorem split_normals_opposite (s s' : Host) (hv : s.Valid) (h : splitFaces s = .ok s') :
    ∀ i f l, i < s.nFr → f < s.nF → s.fc i f = some l → s.rem f = false →
      ∃ d a b, (f, d) ∈ s'.pairs ∧ s'.fc i d = some l ∧ s'.inc f = [a] ∧ s'.inc d = [b] ∧
        a.left = false ∧ b.left = true ∧ s'.normal d = s'.normal f ∧ b.sign = -a.sign ∧
        s'.outward f = [(s'.normal f).map (fun x => (a.sign : Rat) * x)] ∧
        s'.outward d = [(s'.normal f).map (fun x => -((a.sign : Rat) * x))] := by
  obtain ⟨s'', h', hinv⟩ := splitFaces_valid hv
  rw [h] at h'; injection h' with h'; subst h'
  intro i f l hi hf hfl hr
  obtain ⟨d, _, hd2, hiff, a, b, _, ha, hb, hsg, hif, hid, hnf, hndd, hp⟩ := (hinv.res i hi hi f l hf hfl).2 hr
  refine ⟨d, a, b, hp, (hiff d hd2).mpr (Or.inr rfl), hif, hid, ha, hb, by rw [hndd, hnf], hsg, ?_, ?_⟩
  · unfold Host.outward; rw [hif]; rfl
  · unfold Host.outward; rw [hid, hndd, hnf]
    simp only [List.map_cons, List.map_nil, List.cons.injEq, and_true]
    rw [hsg]
    apply List.map_congr_left
    intro x _
    rw [Rat.intCast_neg, Rat.neg_mul]

/-- `mortar_side_counts`: if every lower-dimensional cell is coupled to exactly two host faces
    `g1 l < g2 l` (resp. exactly one, `g1 l`), `create_interfaces` builds a mortar grid with two
    sides (resp. one side) of `nLow` cells each; mortar cell `k` of the first side is coupled to
    lower-dimensional cell `k` and to the lower-numbered host face `g1 k`, mortar cell `k` of the
    second side to cell `k` and `g2 k`. -/
theorem mortar_side_counts (nLow cols : Nat) (fc : Nat → Option Nat) (g1 g2 : Nat → Nat) :
    (TwoSided nLow cols fc g1 g2 → createInterface nLow fc cols = .ok ⟨2,
        (List.range nLow).map (fun l => (l, g1 l)) ++ (List.range nLow).map (fun l => (l, g2 l))⟩) ∧
    (OneSided nLow cols fc g1 → createInterface nLow fc cols = .ok ⟨1,
        (List.range nLow).map (fun l => (l, g1 l))⟩) :=
  ⟨createInterface_two, createInterface_one⟩

/-- `mortar_after_split`: `split_faces` followed by `create_interfaces` on a valid input.  For a
    fracture `i` whose lower-dimensional grid has `nLow` cells, each matched to a host face:
    if none of these faces carries a tag the mortar grid has two sides of `nLow` cells, side one
    on the original faces `g1`, side two on their duplicates `g2` (the pairs of `frac_pairs`);
    if all of them carry a tag (the host ends at the lower-dimensional grid) it has one side. -/
theorem mortar_after_split (s : Host) (hv : s.Valid) (i nLow : Nat) (hi : i < s.nFr) (hpos : 0 < nLow)
    (htotal : ∀ l, l < nLow → ∃ f, f < s.nF ∧ s.fc i f = some l)
    (hrange : ∀ f l, f < s.nF → s.fc i f = some l → l < nLow) :
    ∃ s', splitFaces s = .ok s' ∧
      ((∀ f, f < s.nF → (s.fc i f).isSome = true → s.rem f = false) →
        ∃ g1 g2 : Nat → Nat,
          (∀ l, l < nLow → g1 l < s.nF ∧ s.fc i (g1 l) = some l ∧ s.nF ≤ g2 l ∧ (g1 l, g2 l) ∈ s'.pairs) ∧
          createInterface nLow (s'.fc i) s'.fcCols = .ok ⟨2,
            (List.range nLow).map (fun l => (l, g1 l)) ++ (List.range nLow).map (fun l => (l, g2 l))⟩) ∧
      ((∀ f, f < s.nF → (s.fc i f).isSome = true → s.rem f = true) →
        ∃ g1 : Nat → Nat, (∀ l, l < nLow → g1 l < s.nF ∧ s.fc i (g1 l) = some l) ∧
          createInterface nLow (s'.fc i) s'.fcCols = .ok ⟨1, (List.range nLow).map (fun l => (l, g1 l))⟩) := by
  obtain ⟨s', h, hinv⟩ := splitFaces_valid hv
  refine ⟨s', h, ?_, ?_⟩
  -- every coupling of the split host comes from a coupling of the unsplit host
  all_goals
    have hsrc : ∀ g l, g < s'.nF → s'.fc i g = some l → l < nLow := by
      intro g l hg hfc
      by_cases hlt : g < s.nF
      · rw [hinv.oldFc i g hlt] at hfc; exact hrange g l hlt hfc
      · obtain ⟨f, hf, hfl⟩ := hinv.newSrc i g l (by omega) hg hfc
        exact hrange f l hf hfl
  · intro hrem
    have key : ∀ l, ∃ f d, l < nLow → (f < s.nF ∧ s.fc i f = some l ∧ s.nF ≤ d ∧ d < s'.nF ∧ (f, d) ∈ s'.pairs ∧
        ∀ g, g < s'.nF → (s'.fc i g = some l ↔ (g = f ∨ g = d))) := by
      intro l
      by_cases hl : l < nLow
      · obtain ⟨f, hf, hfl⟩ := htotal l hl
        obtain ⟨d, hd1, hd2, hiff, _, _, _, _, _, _, _, _, _, _, hp⟩ :=
          (hinv.res i hi hi f l hf hfl).2 (hrem f hf (by rw [hfl]; rfl))
        exact ⟨f, d, fun _ => ⟨hf, hfl, hd1, hd2, hp, hiff⟩⟩
      · exact ⟨0, 0, fun h => absurd h hl⟩
    choose g1 g2 hg using key
    refine ⟨g1, g2, fun l hl => ⟨(hg l hl).1, (hg l hl).2.1, (hg l hl).2.2.1, (hg l hl).2.2.2.2.1⟩, ?_⟩
    apply createInterface_two
    refine ⟨hpos, fun l hl => ?_, fun g l hgc => ?_⟩
    · have := hg l hl; have := hinv.aligned; omega
    · rw [hinv.aligned] at hgc
      constructor
      · intro hfc
        have hl := hsrc g l hgc hfc
        exact ⟨hl, ((hg l hl).2.2.2.2.2 g hgc).mp hfc⟩
      · rintro ⟨hl, hor⟩
        exact ((hg l hl).2.2.2.2.2 g hgc).mpr hor
  · intro hrem
    have key : ∀ l, ∃ f, l < nLow → (f < s.nF ∧ s.fc i f = some l ∧
        ∀ g, g < s'.nF → (s'.fc i g = some l ↔ g = f)) := by
      intro l
      by_cases hl : l < nLow
      · obtain ⟨f, hf, hfl⟩ := htotal l hl
        exact ⟨f, fun _ => ⟨hf, hfl, (hinv.res i hi hi f l hf hfl).1 (hrem f hf (by rw [hfl]; rfl))⟩⟩
      · exact ⟨0, fun h => absurd h hl⟩
    choose g1 hg using key
    refine ⟨g1, fun l hl => ⟨(hg l hl).1, (hg l hl).2.1⟩, ?_⟩
    apply createInterface_one
    refine ⟨hpos, fun l hl => ?_, fun g l hgc => ?_⟩
    · have := hg l hl; have := hinv.aligned; have := hinv.nF; omega
    · rw [hinv.aligned] at hgc
      constructor
      · intro hfc
        have hl := hsrc g l hgc hfc
        exact ⟨hl, ((hg l hl).2.2 g hgc).mp hfc⟩
      · rintro ⟨hl, hor⟩
        exact ((hg l hl).2.2 g hgc).mpr hor

/-! ### the hypotheses as decidable input conditions -/

/-- `valid_of_check`: `Host.Valid` follows from the boolean check `validB`, which the driver evaluates
    on the input of every correspondence case (the harness requires it to be true). -/
theorem valid_of_check (s : Host) (h : s.validB = true) : s.Valid := valid_of_validB h

/-- `split_checked`: every statement about `split_faces` with decidable hypotheses only: for an input
    that passes `validB` and carries no fracture tags, `split_faces` does not raise, every
    lower-dimensional cell matched to an untagged host face ends up with exactly two coupled faces (the
    face and its duplicate, one incident cell each, same stored geometry, opposite incidence signs) and
    with exactly one where the host is tagged, and the fracture tag marks exactly the coupled faces. -/
theorem split_checked (s : Host) (hv : s.validB = true) (h0 : s.noFracB = true) :
    ∃ s', splitFaces s = .ok s' ∧
      (∀ g, g < s'.nF → (s'.frac g = true ↔ ∃ j, j < s.nFr ∧ (s'.fc j g).isSome = true)) ∧
      (∀ i f l, i < s.nFr → f < s.nF → s.fc i f = some l →
        (s.rem f = true → s'.coupledCount i l = 1) ∧
        (s.rem f = false → s'.coupledCount i l = 2 ∧ ∃ d a b, (f, d) ∈ s'.pairs ∧ s'.fc i d = some l ∧
          s'.inc f = [a] ∧ s'.inc d = [b] ∧ s'.normal d = s'.normal f ∧ b.sign = -a.sign)) := by
  have hval := valid_of_validB hv
  obtain ⟨s', h, _, hp⟩ := split_face_pairs s hval
  obtain ⟨s'', h', ht⟩ := tags_mark_coupled s hval (noFrac_of_noFracB h0)
  rw [h] at h'; injection h' with h'; subst h'
  refine ⟨s', h, ht, ?_⟩
  intro i f l hi hf hfl
  refine ⟨fun hr => ((hp i f l hi hf hfl).1 hr).1, fun hr => ⟨((hp i f l hi hf hfl).2 hr).1, ?_⟩⟩
  obtain ⟨d, a, b, h1, h2, h3, h4, _, _, h7, h8, _, _⟩ := split_normals_opposite s s' hval h i f l hi hf hfl hr
  exact ⟨d, a, b, h1, h2, h3, h4, h7, h8⟩

/-! ### entry points -/

/-- `entry_dispatch`: `cart_grid` reaches a structured generator iff the number of cells is given for
    2 or 3 directions and `physdims` (if given) has the same length; otherwise it raises ValueError.
    `tensor_grid` raises NotImplementedError without `y`, else meshes in 2-d or 3-d. -/
theorem entry_dispatch (ndim : Nat) (phys : Option Nat) (hasY hasZ : Bool) :
    (cartGridDispatch ndim phys = .ok ndim ↔ (ndim = 2 ∨ ndim = 3) ∧ (phys = none ∨ phys = some ndim)) ∧
    (cartGridDispatch ndim phys ≠ .ok ndim → cartGridDispatch ndim phys = .error .valueError) ∧
    (tensorGridDispatch hasY hasZ = if hasY then .ok (if hasZ then 3 else 2) else .error .notImplementedError) := by
  refine ⟨?_, ?_, ?_⟩
  · unfold cartGridDispatch
    cases phys with
    | none =>
      by_cases h2 : ndim = 2
      · simp [h2]
      · by_cases h3 : ndim = 3
        · simp [h3]
        · simp [h2, h3]
    | some p =>
      by_cases hp : p = ndim
      · subst hp
        by_cases h2 : p = 2
        · simp [h2]
        · by_cases h3 : p = 3
          · simp [h3]
          · simp [h2, h3]
      · have : ¬ (some p = some ndim) := fun e => hp (Option.some.inj e)
        simp [hp, this]
  · intro h
    unfold cartGridDispatch at h ⊢
    cases phys with
    | none =>
      by_cases h2 : ndim = 2
      · simp [h2] at h
      · by_cases h3 : ndim = 3
        · simp [h3] at h
        · simp [h2, h3]
    | some p =>
      by_cases hp : p = ndim
      · subst hp
        by_cases h2 : p = 2
        · simp [h2] at h
        · by_cases h3 : p = 3
          · simp [h3] at h
          · simp [h2, h3]
      · simp [hp]
  · unfold tensorGridDispatch
    cases hasY <;> cases hasZ <;> rfl

example : cartGridDispatch 3 (some 3) = .ok 3 ∧ cartGridDispatch 2 none = .ok 2 ∧ cartGridDispatch 4 none = .error .valueError ∧
    cartGridDispatch 2 (some 3) = .error .valueError ∧ tensorGridDispatch false true = .error .notImplementedError := by
  decide

/-! ### structured generators (`fracs/structured.py`): index arithmetic -/

/-- `nodes_on_line_eq`: `_find_nodes_on_line` between the nodes `a` and `a + m·e_axis` of a tensor
    grid with `nx × ny (× nz)` cells — for ALL `nx`, `ny`, either order of the end points and each of
    the three directions — returns the nodes `a + t·e_axis`, `t = 0..m`, in this order. -/
theorem nodes_on_line_eq (nx ny axis : Nat) (a : T3) (m : Nat) :
    findNodesOnLine nx ny axis (idx3 nx ny a) (idx3 nx ny (shift axis a m))
      = (List.range (m + 1)).map (fun t => idx3 nx ny (shift axis a t)) ∧
    findNodesOnLine nx ny axis (idx3 nx ny (shift axis a m)) (idx3 nx ny a)
      = (List.range (m + 1)).map (fun t => idx3 nx ny (shift axis a t)) :=
  findNodesOnLine_eq nx ny axis a m

/-- the node numbering `(i, j, k) ↦ i + j (nx+1) + k (nx+1)(ny+1)` is injective on the grid -/
theorem node_index_injective (nx ny : Nat) (a b : T3) (ha : InGrid nx ny a) (hb : InGrid nx ny b)
    (h : idx3 nx ny a = idx3 nx ny b) : a = b :=
  idx3_inj nx ny ha hb h

/-- `nodes_on_line_exact`: a grid node belongs to the result iff it lies on the segment. -/
theorem nodes_on_line_exact (nx ny axis : Nat) (a b : T3) (m : Nat)
    (ha : InGrid nx ny (shift axis a m)) (hb : InGrid nx ny b) :
    idx3 nx ny b ∈ findNodesOnLine nx ny axis (idx3 nx ny a) (idx3 nx ny (shift axis a m)) ↔
      ∃ t, t ≤ m ∧ b = shift axis a t :=
  mem_findNodesOnLine nx ny axis a b m ha hb

/-- `plane_faces_exact`: the faces `_create_lower_dim_grids_3d` tags for an axis-aligned rectangle
    on a grid plane (half-space test with the edge normals as coded, any of the eight vertex orders,
    plus the tolerance test in the normal direction) are exactly the grid faces of the right kind
    lying in the rectangle — for all grid sizes and all strictly increasing node coordinates. -/
theorem plane_faces_exact (g : Grid3) (o k0 a0 a1 b0 b1 : Nat) (p tol : Rat) (P : List (Rat × Rat))
    (h : g.PlaneSpec o k0 a0 a1 b0 b1 p tol P) (x : Nat) :
    x ∈ g.planeFaces o p tol P ↔ ∃ f : Nat × T3, g.ValidFace f ∧ f.1 = o ∧ f.2.get o = k0 ∧
      (a0 ≤ f.2.get (activeDims o).1 ∧ f.2.get (activeDims o).1 < a1) ∧
      (b0 ≤ f.2.get (activeDims o).2 ∧ f.2.get (activeDims o).2 < b1) ∧ x = g.faceIndex f :=
  mem_planeFaces h x

/-- `plane_nodes_exact`: the nodes of the fracture grid (`np.unique` of the nodes of the tagged faces)
    are exactly the grid nodes lying on the rectangle. -/
theorem plane_nodes_exact (g : Grid3) (o k0 a0 a1 b0 b1 : Nat) (p tol : Rat) (P : List (Rat × Rat))
    (h : g.PlaneSpec o k0 a0 a1 b0 b1 p tol P) (n : Nat) :
    n ∈ g.planeNodes o p tol P ↔ ∃ c : T3, c.get o = k0 ∧
      (a0 ≤ c.get (activeDims o).1 ∧ c.get (activeDims o).1 ≤ a1) ∧
      (b0 ≤ c.get (activeDims o).2 ∧ c.get (activeDims o).2 ≤ b1) ∧ n = idx3 (g.n 0) (g.n 1) c :=
  mem_planeNodes h n

/-- a 2 × 3 × 4 grid of unit cells -/
def exGrid : Grid3 := { n := fun c => match c with | 0 => 2 | 1 => 3 | _ => 4, x := fun _ i => (i : Rat) }

/-- the fracture `y = 2`, `x ∈ [0, 2]`, `z ∈ [1, 3]`, corners listed clockwise starting at `(2, 1)` -/
theorem exGrid_plane : exGrid.PlaneSpec 1 2 0 2 1 3 2 (1 / 10) [(2, 1), (0, 1), (0, 3), (2, 3)] where
  ho := by decide
  mono := by
    intro c a b _ hab _
    show ((a : Nat) : Rat) < (b : Nat)
    exact_mod_cast hab
  hk := by decide
  hp := by show (2 : Rat) = ((2 : Nat) : Rat); norm_num
  htol := by norm_num
  hgap := by
    intro i _
    show (1 / 10 : Rat) < ((((i + 1 : Nat) : Rat)) - ((i : Nat) : Rat)) / 2
    push_cast; norm_num
  ha := by decide
  hb := by decide
  rect := by
    unfold IsRectOrder
    right; right; right; right; right; right; left
    show _ = [((((2 : Nat) : Rat)), (((1 : Nat) : Rat))), (((0 : Nat) : Rat), ((1 : Nat) : Rat)),
      (((0 : Nat) : Rat), ((3 : Nat) : Rat)), (((2 : Nat) : Rat), ((3 : Nat) : Rat))]
    norm_num

example : exGrid.planeFaces 1 2 (1 / 10) [(2, 1), (0, 1), (0, 3), (2, 3)] = [48, 49, 56, 57] ∧
    exGrid.planeNodes 1 2 (1 / 10) [(2, 1), (0, 1), (0, 3), (2, 3)] = [18, 19, 20, 30, 31, 32, 42, 43, 44] := by
  decide +kernel

/-- the seeded defect class: a z-line in a grid with ny ≠ nz; stride (nx+1)(ny+1) = 12, not (nx+1)(nz+1) = 15 -/
example : findNodesOnLine 2 3 2 (idx3 2 3 (1, 2, 4)) (idx3 2 3 (1, 2, 1)) = [19, 31, 43, 55] := by decide +kernel

/-! ### node splitting (`split_nodes` / `duplicate_nodes`) -/

/-- `node_components`: when the label propagation has converged (checked by the model; always the
    case in the correspondence runs), two cells around a node carry the same label iff they are
    connected through shared (unsplit) faces; every label is one of the representatives `roots`,
    which are pairwise different cells labelled by themselves: the node gets exactly one copy per
    connected component of its cell neighbourhood. -/
theorem node_components (g : NodeGrid) (n : Nat)
    (hs : g.stable (g.cluster n) (g.labels (g.cluster n)) = true) :
    (∀ a b, a ∈ g.cluster n → b ∈ g.cluster n →
        (g.labels (g.cluster n) a = g.labels (g.cluster n) b ↔ Conn g (g.cluster n) a b)) ∧
    (∀ a, a ∈ g.cluster n → g.labels (g.cluster n) a ∈ roots (g.cluster n) (g.labels (g.cluster n))) ∧
    (roots (g.cluster n) (g.labels (g.cluster n))).Nodup ∧
    (∀ r, r ∈ roots (g.cluster n) (g.labels (g.cluster n)) → r ∈ g.cluster n ∧ g.labels (g.cluster n) r = r) := by
  have hg := good_labels g (g.cluster n)
  refine ⟨fun a b ha hb => label_eq_iff_conn hg hs ha hb, fun a ha => label_mem_roots hg hs ha,
    nodup_roots _ (nodup_cluster g n), ?_⟩
  intro r hr
  unfold roots at hr
  rw [List.mem_filter] at hr
  exact ⟨hr.1, by simpa using hr.2⟩

/-- `split_nodes_count`: `duplicate_nodes` adds (number of components − 1) nodes per split node,
    and every face keeps its number of nodes (only the stored indices are rewritten). -/
theorem split_nodes_count (g : NodeGrid) (split : List Nat) (r : NodeOut) (h : g.duplicateNodes split = some r) :
    r.nN = g.nN + ((split.map (fun n => (roots (g.cluster n) (g.labels (g.cluster n))).length - 1)).foldl (· + ·) 0) ∧
    (∀ f, (r.faceNodes f).length = (g.faceNodes f).length) ∧
    (∀ n, n ∈ split → g.stable (g.cluster n) (g.labels (g.cluster n)) = true) := by
  obtain ⟨h1, h2, h3⟩ := duplicateNodes_some h
  exact ⟨h2, fun f => by rw [h3 f, List.length_map], h1⟩

/-- `node_copy_of_cell`: in every face `f` of a cell `c` around a split node `n`, the node is replaced
    by its copy number `rank(c)` = position of the component of `c` among the components ordered by
    their smallest cell; unsplit nodes are only shifted by the copies inserted before them. -/
theorem node_copy_of_cell (g : NodeGrid) (split : List Nat) (r : NodeOut) (h : g.duplicateNodes split = some r) (f : Nat) :
    ∃ φ : Nat → Nat, r.faceNodes f = (g.faceNodes f).map φ ∧
      (∀ m, m ∉ split → φ m = m + incBefore (split.map (fun m => (m, g.info m))) m) ∧
      (∀ n c, n ∈ split → c ∈ g.cluster n → f ∈ g.cellFaces c →
        φ n = n + (roots (g.cluster n) (g.labels (g.cluster n))).idxOf (g.labels (g.cluster n) c)
              + incBefore (split.map (fun m => (m, g.info m))) n) := by
  obtain ⟨h1, _, h3⟩ := duplicateNodes_some h
  refine ⟨_, h3 f, ?_, ?_⟩
  · intro m hm; simp only [if_neg hm, Nat.add_zero]
  · intro n c hn hc hf
    simp only [if_pos hn]
    rw [offset_eq_rank (h1 n hn) hc hf]

/-- the 2 × 2 grid with the X of `exX` after the face split: the centre node 4 is split into four, the
    fracture end nodes 1, 3, 5, 7 on the boundary into two -/
def exNodes : NodeGrid :=
  { nN := 9, nC := 4,
    faceNodes := fun f => ([[0, 3], [1, 4], [2, 5], [3, 6], [4, 7], [5, 8], [0, 1], [1, 2], [3, 4], [4, 5], [6, 7], [7, 8],
      [3, 4], [4, 5], [1, 4], [4, 7]] : List (List Nat)).getD f [],
    cellFaces := fun c => ([[0, 6, 12, 14], [1, 2, 7, 13], [3, 8, 10, 15], [4, 5, 9, 11]] : List (List Nat)).getD c [] }

example : (exNodes.duplicateNodes [1, 3, 4, 5, 7]).map (fun r => (r.nN, (List.range 16).map r.faceNodes, r.newToOld)) = some
    (16, [[0, 4], [2, 7], [3, 10], [5, 12], [9, 14], [11, 15], [0, 1], [2, 3], [5, 8], [9, 11], [12, 13], [14, 15], [4, 6],
          [7, 10], [1, 6], [8, 13]], [0, 1, 1, 2, 3, 3, 4, 4, 4, 4, 5, 5, 6, 7, 7, 8]) := by
  decide +kernel

example : roots (exNodes.cluster 4) (exNodes.labels (exNodes.cluster 4)) = [0, 1, 2, 3] ∧
    exNodes.stable (exNodes.cluster 4) (exNodes.labels (exNodes.cluster 4)) = true := by
  decide +kernel

/-! ### non-vacuity: concrete inputs satisfying every hypothesis -/

/-- 2 × 2 Cartesian grid (cells 0..3; x-faces 0..5, y-faces 6..11, PorePy numbering and signs) with a
    horizontal fracture on the y-faces 8, 9 and a vertical fracture on the x-faces 1, 4 (an X). -/
def exInc : Nat → List Inc
  | 0 => [⟨0, -1, false⟩]
  | 1 => [⟨0, 1, true⟩, ⟨1, -1, false⟩]
  | 2 => [⟨1, 1, false⟩]
  | 3 => [⟨2, -1, false⟩]
  | 4 => [⟨2, 1, true⟩, ⟨3, -1, false⟩]
  | 5 => [⟨3, 1, false⟩]
  | 6 => [⟨0, -1, false⟩]
  | 7 => [⟨1, -1, false⟩]
  | 8 => [⟨0, 1, true⟩, ⟨2, -1, false⟩]
  | 9 => [⟨1, 1, true⟩, ⟨3, -1, false⟩]
  | 10 => [⟨2, 1, false⟩]
  | 11 => [⟨3, 1, false⟩]
  | _ => []

def exFc : Nat → Nat → Option Nat
  | 0, 8 => some 0
  | 0, 9 => some 1
  | 1, 1 => some 0
  | 1, 4 => some 1
  | _, _ => none

def exX : Host :=
  { nF := 12, inc := exInc, frac := fun _ => false, tip := fun _ => false,
    dom := fun g => decide (g ∈ [0, 2, 3, 5, 6, 7, 10, 11]),
    normal := fun g => if g < 6 then [1, 0, 0] else [0, 1, 0],
    nFr := 2, fcCols := 12, fc := exFc, pairs := [] }

theorem exX_valid : exX.Valid where
  aligned := rfl
  disjoint := by
    intro i j g hi hj hne hg hs
    have hj' : j < 2 := hj
    have hi' : i < 2 := hi
    show exFc j g = none
    have hs' : (exFc i g).isSome = true := hs
    unfold exFc at hs'
    split at hs'
    · have : j = 1 := by omega
      subst this; rfl
    · have : j = 1 := by omega
      subst this; rfl
    · have : j = 0 := by omega
      subst this; rfl
    · have : j = 0 := by omega
      subst this; rfl
    · cases hs'
  inj := by
    intro i g g' l _ _ _ h1 h2
    have h1' : exFc i g = some l := h1
    have h2' : exFc i g' = some l := h2
    unfold exFc at h1' h2'
    split at h1' <;> split at h2' <;> simp_all <;> omega
  interior := by
    intro i g _ _ hs _
    have hs' : (exFc i g).isSome = true := hs
    unfold exFc at hs'
    split at hs'
    · exact ⟨⟨2, -1, false⟩, ⟨0, 1, true⟩, Or.inr rfl, rfl, rfl, rfl⟩
    · exact ⟨⟨3, -1, false⟩, ⟨1, 1, true⟩, Or.inr rfl, rfl, rfl, rfl⟩
    · exact ⟨⟨1, -1, false⟩, ⟨0, 1, true⟩, Or.inr rfl, rfl, rfl, rfl⟩
    · exact ⟨⟨3, -1, false⟩, ⟨2, 1, true⟩, Or.inr rfl, rfl, rfl, rfl⟩
    · cases hs'

/-- observable parts of a host: rows of cell_faces and fracture tags; frac_pairs and face_cells columns -/
def view1 (s : Host) : List (List (Nat × Int)) × List Bool :=
  ((List.range s.nF).map (fun g => (s.inc g).map (fun a => (a.cell, a.sign))), (List.range s.nF).map s.frac)

def view2 (s : Host) : List (Nat × Nat) × List (List (Option Nat)) :=
  (s.pairs, (List.range s.nFr).map (fun i => (List.range s.fcCols).map (s.fc i)))

/-- the X: four faces are duplicated (new faces 12..15), the cells below / left of the fractures
    move to the duplicates, both copies are tagged and coupled to the same lower-dimensional cell -/
example : (splitFaces exX).toOption.map view1 = some
    ([[(0, -1)], [(1, -1)], [(1, 1)], [(2, -1)], [(3, -1)], [(3, 1)], [(0, -1)], [(1, -1)], [(2, -1)], [(3, -1)],
      [(2, 1)], [(3, 1)], [(0, 1)], [(1, 1)], [(0, 1)], [(2, 1)]],
     [false, true, false, false, true, false, false, false, true, true, false, false, true, true, true, true]) := by
  decide +kernel

example : (splitFaces exX).toOption.map view2 = some
    ([(8, 12), (9, 13), (1, 14), (4, 15)],
     [[none, none, none, none, none, none, none, none, some 0, some 1, none, none, some 0, some 1, none, none],
      [none, some 0, none, none, some 1, none, none, none, none, none, none, none, none, none, some 0, some 1]]) := by
  decide +kernel

example : (splitFaces exX).toOption.map (fun s => ((createInterface 2 (s.fc 0) s.fcCols).toOption,
      (createInterface 2 (s.fc 1) s.fcCols).toOption))
    = some (some ⟨2, [(0, 8), (1, 9), (0, 12), (1, 13)]⟩, some ⟨2, [(0, 1), (1, 4), (0, 14), (1, 15)]⟩) := by
  decide +kernel

example : exX.validB = true ∧ exX.noFracB = true := by decide +kernel

example : exX.RowsWF := by
  intro g hg
  have : 12 ≤ g := hg
  show exInc g = []
  unfold exInc
  split <;> first | omega | rfl

/-- all hypotheses of `mortar_after_split` hold for the horizontal fracture of the X -/
example : ∃ s', splitFaces exX = .ok s' ∧ ∃ g1 g2 : Nat → Nat,
    createInterface 2 (s'.fc 0) s'.fcCols = .ok ⟨2,
      (List.range 2).map (fun l => (l, g1 l)) ++ (List.range 2).map (fun l => (l, g2 l))⟩ := by
  obtain ⟨s', h, h2, _⟩ := mortar_after_split exX exX_valid 0 2 (by decide) (by decide)
    (fun l hl => by
      have : l = 0 ∨ l = 1 := by omega
      rcases this with rfl | rfl
      · exact ⟨8, by decide, rfl⟩
      · exact ⟨9, by decide, rfl⟩)
    (fun f l _ hfl => by
      have hfl' : exFc 0 f = some l := hfl
      unfold exFc at hfl'
      split at hfl' <;> simp_all <;> omega)
  refine ⟨s', h, ?_⟩
  obtain ⟨g1, g2, _, hc⟩ := h2 (fun f _ hs => by
    have hs' : (exFc 0 f).isSome = true := hs
    unfold exFc at hs'
    split at hs' <;> first | rfl | cases hs')
  exact ⟨g1, g2, hc⟩

/-- a fracture (1-d host, cells 0 1, faces 0 1 2) that ends at another fracture in its tip face 0
    (T-intersection): the face is tagged, it is not duplicated, the intersection point gets one side -/
def exT : Host :=
  { nF := 3,
    inc := fun g => match g with
      | 0 => [⟨0, -1, false⟩]
      | 1 => [⟨0, 1, false⟩, ⟨1, -1, false⟩]
      | 2 => [⟨1, 1, false⟩]
      | _ => [],
    frac := fun _ => false, tip := fun g => decide (g = 0 ∨ g = 2), dom := fun _ => false,
    normal := fun _ => [1, 0, 0], nFr := 1, fcCols := 3,
    fc := fun i g => if i = 0 ∧ g = 0 then some 0 else none, pairs := [] }

theorem exT_valid : exT.Valid where
  aligned := rfl
  disjoint := by intro i j g hi hj hne; have : i < 1 := hi; have : j < 1 := hj; omega
  inj := by
    intro i g g' l _ _ _ h1 h2
    have h1' : (if i = 0 ∧ g = 0 then some 0 else none) = some l := h1
    have h2' : (if i = 0 ∧ g' = 0 then some 0 else none) = some l := h2
    split at h1' <;> split at h2' <;> simp_all
  interior := by
    intro i g _ _ hs hr
    have hs' : (if i = 0 ∧ g = 0 then some 0 else none : Option Nat).isSome = true := hs
    split at hs'
    · rename_i h; obtain ⟨_, rfl⟩ := h; cases hr
    · cases hs'

example : exT.validB = true ∧ exT.noFracB = true := by decide +kernel

example : (splitFaces exT).toOption.map (fun s => (view1 s, (List.range s.nF).map s.tip))
    = some (([[(0, -1)], [(0, 1), (1, -1)], [(1, 1)]], [true, false, false]), [false, false, true]) := by
  decide +kernel

example : (splitFaces exT).toOption.map (fun s => (view2 s, (createInterface 1 (s.fc 0) s.fcCols).toOption))
    = some (([], [[some 0, none, none]]), some ⟨1, [(0, 0)]⟩) := by
  decide +kernel

end PorepyVerif.C25
