/-
C25 — property theorems (statements only depend on Model.lean; helper lemmas in Lemmas.lean).

Property (combinatorial core): after `split_faces`, each lower-dimensional cell is coupled to one
split face of the host on each side (one face only where the host carries a tag there, i.e. where
the host — a fracture — ends at another fracture); the two copies keep the stored normal but have
opposite incidence signs, hence opposite outward normals; the `fracture_faces` tag marks exactly
the coupled faces; every cell keeps its number of faces; each mortar side has as many cells as the
lower-dimensional grid, cell `k` of either side being coupled to lower-dimensional cell `k`
(first side: original faces, second side: duplicates).

The geometric parts of the property (centres, measures, volume, containment) are decided by the
oracle of the harness, not here.
-/
import PorepyVerif.C25.Lemmas
import Mathlib.Tactic.Choose

namespace PorepyVerif.C25

/-- `cells_preserved`: whatever `split_faces` does (any input on which it does not raise), every
    cell keeps its number of faces; cells are never created or removed (the model has no operation
    on the cell index set at all). -/
theorem cells_preserved (s s' : Host) (h : splitFaces s = .ok s') (hwf : s.RowsWF) (c : Nat) :
    s'.faceCount c = s.faceCount c :=
  splitFrom_faceCount _ s s' h hwf c

/-- `tags_mark_coupled` in its most general form: on any run that does not raise and ends with
    face indices and face_cells columns aligned (i.e. the "fracture on the boundary" branch of
    `update_cell_connectivity` was never taken), a host without fracture tags ends up with the
    `fracture_faces` tag exactly on the faces that some `face_cells` matrix couples. -/
theorem tags_mark_coupled_of_aligned (s s' : Host) (h : splitFaces s = .ok s')
    (hal : s.fcCols = s.nF) (hal' : s'.fcCols = s'.nF) (h0 : ∀ g, g < s.nF → s.frac g = false) :
    ∀ g, g < s'.nF → (s'.frac g = true ↔ ∃ j, j < s.nFr ∧ (s'.fc j g).isSome = true) := by
  have hinit : TagInv s (fun _ => False) := by
    intro g hg; rw [h0 g hg]; simp
  have := splitFrom_tags _ s s' _ h hal hal' hinit
  intro g hg
  rw [this g hg]
  constructor
  · rintro ⟨j, hj | hj, hs⟩
    · exact ⟨j, List.mem_range.mp hj, hs⟩
    · exact hj.elim
  · rintro ⟨j, hj, hs⟩
    exact ⟨j, Or.inl (List.mem_range.mpr hj), hs⟩

/-- `tags_mark_coupled`: on a valid input `split_faces` does not raise and the `fracture_faces`
    tag marks exactly the coupled faces. -/
theorem tags_mark_coupled (s : Host) (hv : s.Valid) (h0 : ∀ g, g < s.nF → s.frac g = false) :
    ∃ s', splitFaces s = .ok s' ∧
      ∀ g, g < s'.nF → (s'.frac g = true ↔ ∃ j, j < s.nFr ∧ (s'.fc j g).isSome = true) := by
  obtain ⟨s', h, hinv⟩ := splitFaces_valid hv
  exact ⟨s', h, tags_mark_coupled_of_aligned s s' h hv.aligned hinv.aligned h0⟩

theorem coupledCount_one (s : Host) (i l f : Nat) (hf : f < s.nF)
    (h : ∀ g, g < s.nF → (s.fc i g = some l ↔ g = f)) : s.coupledCount i l = 1 := by
  unfold Host.coupledCount
  rw [sumTo_congr (G := fun g => if g = f then 1 else 0) (fun g hg => if_congr (h g hg) rfl rfl),
    sumTo_ind, if_pos hf]

theorem coupledCount_two (s : Host) (i l f d : Nat) (hf : f < s.nF) (hd : d < s.nF) (hne : f ≠ d)
    (h : ∀ g, g < s.nF → (s.fc i g = some l ↔ (g = f ∨ g = d))) : s.coupledCount i l = 2 := by
  unfold Host.coupledCount
  rw [sumTo_congr (G := fun g => (if g = f then 1 else 0) + (if g = d then 1 else 0)) (fun g hg => by
      rw [if_congr (h g hg) rfl rfl]
      by_cases h1 : g = f
      · have : ¬ g = d := fun e => hne (h1.symm.trans e)
        simp [h1, this]
      · simp [h1]),
    sumTo_add_fun, sumTo_ind, sumTo_ind, if_pos hf, if_pos hd]

/-- `split_face_pairs`: on a valid input `split_faces` does not raise; every lower-dimensional cell
    `l` (of fracture `i`, matched to host face `f`) is afterwards coupled to exactly ONE host face
    — `f` itself — where the host carries a tag at `f` (the host is a fracture that ends there:
    T-/L-intersection, one side only), and to exactly TWO host faces — `f` and its duplicate `d`,
    recorded in `frac_pairs` — otherwise; each of the two copies has exactly one incident cell. -/
theorem split_face_pairs (s : Host) (hv : s.Valid) :
    ∃ s', splitFaces s = .ok s' ∧ s'.fcCols = s'.nF ∧
      ∀ i f l, i < s.nFr → f < s.nF → s.fc i f = some l →
        (s.rem f = true → s'.coupledCount i l = 1 ∧ ∀ g, g < s'.nF → (s'.fc i g = some l ↔ g = f)) ∧
        (s.rem f = false → s'.coupledCount i l = 2 ∧
          ∃ d, s.nF ≤ d ∧ d < s'.nF ∧ (f, d) ∈ s'.pairs ∧
            (∀ g, g < s'.nF → (s'.fc i g = some l ↔ (g = f ∨ g = d))) ∧
            (s'.inc f).length = 1 ∧ (s'.inc d).length = 1) := by
  obtain ⟨s', h, hinv⟩ := splitFaces_valid hv
  refine ⟨s', h, hinv.aligned, ?_⟩
  intro i f l hi hf hfl
  obtain ⟨h1, h2⟩ := hinv.res i hi hi f l hf hfl
  have hfs : f < s'.nF := by have := hinv.nF; omega
  constructor
  · intro hr
    exact ⟨coupledCount_one s' i l f hfs (h1 hr), h1 hr⟩
  · intro hr
    obtain ⟨d, hd1, hd2, hiff, a, b, _, _, _, _, hif, hid, _, _, hp⟩ := h2 hr
    refine ⟨coupledCount_two s' i l f d hfs hd2 (by omega) hiff, d, hd1, hd2, hp, hiff, ?_, ?_⟩
    · rw [hif]; rfl
    · rw [hid]; rfl

/-- `split_normals_opposite`: the duplicate `d` of a split face `f` keeps the stored normal, the
    single incidence signs of the two copies are opposite (the cell flagged `left` went to the
    duplicate), hence the OUTWARD normals sign · n of the two copies are opposite. -/
theorem split_normals_opposite (s s' : Host) (hv : s.Valid) (h : splitFaces s = .ok s') :
    ∀ i f l, i < s.nFr → f < s.nF → s.fc i f = some l → s.rem f = false →
      ∃ d a b, (f, d) ∈ s'.pairs ∧ s'.fc i d = some l ∧ s'.inc f = [a] ∧ s'.inc d = [b] ∧
        a.left = false ∧ b.left = true ∧ s'.normal d = s'.normal f ∧ b.sign = -a.sign ∧
        s'.outward f = [(s'.normal f).map (fun x => (a.sign : Rat) * x)] ∧
        s'.outward d = [(s'.normal f).map (fun x => -((a.sign : Rat) * x))] := by
  obtain ⟨s'', h', hinv⟩ := splitFaces_valid hv
  rw [h] at h'; injection h' with h'; subst h'
  intro i f l hi hf hfl hr
  obtain ⟨d, _, hd2, hiff, a, b, _, ha, hb, hsg, hif, hid, hnf, hndd, hp⟩ := (hinv.res i hi hi f l hf hfl).2 hr
  refine ⟨d, a, b, hp, (hiff d hd2).mpr (Or.inr rfl), hif, hid, ha, hb, by rw [hndd, hnf], hsg, ?_, ?_⟩
  · unfold Host.outward; rw [hif]; rfl
  · unfold Host.outward; rw [hid, hndd, hnf, hsg]
    simp only [List.map_cons, List.map_nil, List.cons.injEq, and_true]
    apply List.map_congr_left
    intro x _
    rw [Rat.intCast_neg, Rat.neg_mul]

/-- `mortar_side_counts`: if every lower-dimensional cell is coupled to exactly two host faces
    `g1 l < g2 l` (resp. exactly one, `g1 l`), `create_interfaces` builds a mortar grid with two
    sides (resp. one side) of `nLow` cells each; mortar cell `k` of the first side is coupled to
    lower-dimensional cell `k` and to the lower-numbered host face `g1 k`, mortar cell `k` of the
    second side to cell `k` and `g2 k`. -/
theorem mortar_side_counts (nLow cols : Nat) (fc : Nat → Option Nat) (g1 g2 : Nat → Nat) :
    (TwoSided nLow cols fc g1 g2 → createInterface nLow fc cols = .ok ⟨2,
        (List.range nLow).map (fun l => (l, g1 l)) ++ (List.range nLow).map (fun l => (l, g2 l))⟩) ∧
    (OneSided nLow cols fc g1 → createInterface nLow fc cols = .ok ⟨1,
        (List.range nLow).map (fun l => (l, g1 l))⟩) :=
  ⟨createInterface_two, createInterface_one⟩

end PorepyVerif.C25
