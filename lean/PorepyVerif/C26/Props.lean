/-
C26 — property theorems (statements depend on Model.lean only; helper lemmas in Lemmas.lean).

Property: on each mortar side the integrated projections preserve totals (unit column sums on the
covered entities) and the averaged projections map constants to constants (unit row sums), for
matching interfaces and after any sequence of mortar / secondary / primary replacements;
mortar-to-grid integrated maps are the transposes of grid-to-mortar averaged maps and vice versa.
-/
import PorepyVerif.C26.Lemmas

namespace PorepyVerif.C26

/-! ### overlap weights of two tessellations of one segment (`match_1d`) -/

/-- Overlap weights of two tessellations (cells in any order, any orientation) of the same segment:
    non-negative, every row sums to the measure of the NEW cell, every column to the measure of the
    OLD cell. -/
theorem match1d_weights (newC oldC : List Cell) (a : Rat) (xs ys : List Rat)
    (hnew : Tessellates newC a xs) (hold : Tessellates oldC a ys) (hend : lastOr a xs = lastOr a ys) :
    (∀ i j, 0 ≤ ovl (cellAt newC i) (cellAt oldC j)) ∧
    (∀ i, i < newC.length →
      sumTo oldC.length (fun j => ovl (cellAt newC i) (cellAt oldC j)) = len (cellAt newC i)) ∧
    (∀ j, j < oldC.length →
      sumTo newC.length (fun i => ovl (cellAt newC i) (cellAt oldC j)) = len (cellAt oldC j)) := by
  refine ⟨fun i j => ovl_nonneg _ _, ?_, ?_⟩
  · intro i hi
    have hb := chain_mem_bounds xs a hnew.2 _ (hnew.1.mem_iff.mp (cellAt_mem newC i hi))
    exact tess_sum oldC a ys hold _ (le_of_lt hb.2.1) hb.1 (hend ▸ hb.2.2)
  · intro j hj
    have hb := chain_mem_bounds ys a hold.2 _ (hold.1.mem_iff.mp (cellAt_mem oldC j hj))
    rw [sumTo_congr _ _ _ (fun i _ => ovl_comm (cellAt newC i) (cellAt oldC j))]
    exact tess_sum newC a xs hnew _ (le_of_lt hb.2.1) hb.1 (hend.symm ▸ hb.2.2)

/-- `match_1d(new, old, scaling="averaged")`: every row sums to one. -/
theorem match1d_avg_rowsum_one (newC oldC : List Cell) (a : Rat) (xs ys : List Rat)
    (hnew : Tessellates newC a xs) (hold : Tessellates oldC a ys) (hend : lastOr a xs = lastOr a ys)
    (i : Nat) (hi : i < newC.length) : (match1d newC oldC .averaged).rowSum i = 1 := by
  have hb := chain_mem_bounds xs a hnew.2 _ (hnew.1.mem_iff.mp (cellAt_mem newC i hi))
  have hlen : len (cellAt newC i) ≠ 0 := by unfold len; linarith [hb.2.1]
  have hw := (match1d_weights newC oldC a xs ys hnew hold hend).2.1 i hi
  unfold Mat.rowSum match1d
  simp only [table_c]
  rw [sumTo_congr _ _ _ (fun j hj => ent_table _ _ _ i j hi hj)]
  simp only [div_eq_mul_inv]
  rw [sumTo_mul_right, hw]
  exact mul_inv_cancel₀ hlen

/-- `match_1d(new, old, scaling="integrated")`: every column sums to one. -/
theorem match1d_int_colsum_one (newC oldC : List Cell) (a : Rat) (xs ys : List Rat)
    (hnew : Tessellates newC a xs) (hold : Tessellates oldC a ys) (hend : lastOr a xs = lastOr a ys)
    (j : Nat) (hj : j < oldC.length) : (match1d newC oldC .integrated).colSum j = 1 := by
  have hb := chain_mem_bounds ys a hold.2 _ (hold.1.mem_iff.mp (cellAt_mem oldC j hj))
  have hlen : len (cellAt oldC j) ≠ 0 := by unfold len; linarith [hb.2.1]
  have hw := (match1d_weights newC oldC a xs ys hnew hold hend).2.2 j hj
  unfold Mat.colSum match1d
  simp only [table_r]
  rw [sumTo_congr _ _ _ (fun i hi => ent_table _ _ _ i j hi hj)]
  simp only [div_eq_mul_inv]
  rw [sumTo_mul_right, hw]
  exact mul_inv_cancel₀ hlen

/-! ### closure of the stochastic matrices under the products the updates perform -/

/-- Averaged maps (unit row sums) compose: if row `i` of `A` sums to one and every row of `B` that
    row `i` of `A` reaches sums to one, row `i` of `A·B` sums to one — constants are preserved.
    (`update_mortar`: `A` = old-to-new mortar map, `B` = old projection;
     `update_primary`: `A` = old projection, `B` = old-face-to-new-face map, whose rows sum to one on
     the covered faces, the only ones `A` reaches.) -/
theorem avg_rowsum_one_comp (A B : Mat) (i : Nat) (hi : i < A.r) (hA : A.rowSum i = 1)
    (hB : ∀ k, k < A.c → A.ent i k ≠ 0 → B.rowSum k = 1) : (A.mul B).rowSum i = 1 := by
  rw [rowSum_mul A B i hi, ← hA]
  unfold Mat.rowSum
  apply sumTo_congr
  intro k hk
  by_cases h0 : A.ent i k = 0
  · rw [h0]; ring
  · have := hB k hk h0
    unfold Mat.rowSum at this
    rw [this]; ring

/-- Integrated maps (unit column sums) compose: if column `j` of `B` sums to one and every column of
    `A` that column `j` of `B` reaches sums to one, column `j` of `A·B` sums to one — totals are
    preserved on the covered entities. -/
theorem int_colsum_one_comp (A B : Mat) (j : Nat) (hj : j < B.c) (hdim : A.c = B.r)
    (hB : B.colSum j = 1) (hA : ∀ k, k < A.c → B.ent k j ≠ 0 → A.colSum k = 1) :
    (A.mul B).colSum j = 1 := by
  rw [colSum_mul A B j hj, ← hB]
  unfold Mat.colSum
  rw [← hdim]
  apply sumTo_congr
  intro k hk
  by_cases h0 : B.ent k j = 0
  · rw [h0]; ring
  · have := hA k hk h0
    unfold Mat.colSum at this
    rw [this]; ring

/-! ### the transposed pairs -/

/-- what `_set_projections` promises -/
def TransposePairs (st : Proj) : Prop :=
  st.m2pInt = st.p2mAvg.T ∧ st.m2pAvg = st.p2mInt.T ∧ st.m2sInt = st.s2mAvg.T ∧ st.m2sAvg = st.s2mInt.T

/-- an update call with arbitrary matching matrices -/
inductive Update where
  | mortar (mAvg mInt : List Mat)
  | secondary (nSec : Nat) (sAvg sInt : List Mat)
  | primary (sAvg sInt : Mat)

def applyUpdate (st : Proj) : Update → Proj
  | .mortar a i => updateMortar st a i
  | .secondary n a i => updateSecondary st n a i
  | .primary a i => updatePrimary st a i

theorem transposePairs_step (st : Proj) (u : Update) (h : TransposePairs st) :
    TransposePairs (applyUpdate st u) := by
  obtain ⟨h1, h2, h3, h4⟩ := h
  cases u with
  | mortar a i => exact ⟨rfl, rfl, rfl, rfl⟩
  | secondary n a i => exact ⟨h1, h2, rfl, rfl⟩
  | primary a i => exact ⟨rfl, rfl, h3, h4⟩

/-- After construction and after EVERY sequence of `update_mortar` / `update_secondary` /
    `update_primary` calls (with whatever matching matrices), mortar-to-grid integrated maps are
    the transposes of the grid-to-mortar averaged maps and vice versa — although
    `update_secondary` / `update_primary` refresh only one of the two pairs. -/
theorem transpose_pairs (P S : Mat) (us : List Update) :
    TransposePairs (us.foldl applyUpdate (initProj P S)) := by
  suffices ∀ st, TransposePairs st → TransposePairs (us.foldl applyUpdate st) from
    this _ ⟨rfl, rfl, rfl, rfl⟩
  induction us with
  | nil => intro st h; exact h
  | cons u us ih => intro st h; exact ih _ (transposePairs_step st u h)

/-- the same for the geometry-driven state machine of the model -/
theorem transpose_pairs_run (ops : List Op) (st : St) (h : TransposePairs st.proj) :
    TransposePairs (run st ops).proj := by
  induction ops generalizing st with
  | nil => exact h
  | cons op ops ih =>
    apply ih
    cases op with
    | mortar ns => exact transposePairs_step st.proj (.mortar _ _) h
    | secondary cells => exact transposePairs_step st.proj (.secondary _ _ _) h
    | primary n o nw => exact transposePairs_step st.proj (.primary _ _) h

/-- `.T` really is the transpose, entry by entry (and swaps the shape). -/
theorem transpose_entries (A : Mat) : A.T.r = A.c ∧ A.T.c = A.r ∧
    ∀ i j, i < A.c → j < A.r → A.T.ent i j = A.ent j i :=
  ⟨rfl, rfl, fun i j hi hj => ent_T A i j hi hj⟩

/-- consequence used by the property: integrated mortar-to-grid maps have the column sums that the
    averaged grid-to-mortar maps have as row sums, and vice versa -/
theorem transposed_sums (A : Mat) :
    (∀ i, i < A.c → A.T.rowSum i = A.colSum i) ∧ (∀ j, j < A.r → A.T.colSum j = A.rowSum j) :=
  ⟨rowSum_T A, colSum_T A⟩


/-! ### per-side handling: the stored (stacked) matrices are updated side by side -/

/-- `update_mortar`: the block-diagonal old-to-new mortar matrix acts on every side's blocks
    separately — the stored matrices after the call are the stack of the per-side products. -/
theorem stack_update_mortar (nP nS : Nat) (l : List (Side × Mat × Mat))
    (h : ∀ x ∈ l, x.1.Shaped nP nS ∧ x.2.1.c = x.1.pInt.r ∧ x.2.2.c = x.1.pInt.r) :
    updateMortar (stackSides nP nS (l.map (·.1))) (l.map (·.2.1)) (l.map (·.2.2))
      = stackSides nP nS (l.map fun x => x.1.apply (.mortar x.2.1 x.2.2)) := by
  unfold updateMortar stackSides setProjections
  simp only [List.map_map, Function.comp_def, Side.apply, if_true]
  rw [bd_aux nP l (·.2.1) (·.1.pAvg) (fun x hx => by
        obtain ⟨⟨_, h2, _, _, h5, _, _⟩, h8, _⟩ := h x hx; exact ⟨by rw [h8, h5], h2⟩),
      bd_aux nP l (·.2.2) (·.1.pInt) (fun x hx => by
        obtain ⟨⟨h1, _, _, _, _, _, _⟩, _, h9⟩ := h x hx; exact ⟨h9, h1⟩),
      bd_aux nS l (·.2.1) (·.1.sAvg) (fun x hx => by
        obtain ⟨⟨_, _, _, h4, _, _, h7⟩, h8, _⟩ := h x hx; exact ⟨by rw [h8, h7], h4⟩),
      bd_aux nS l (·.2.2) (·.1.sInt) (fun x hx => by
        obtain ⟨⟨_, _, h3, _, _, h6, _⟩, _, h9⟩ := h x hx; exact ⟨by rw [h9, h6], h3⟩)]


/-! ### one side, all histories -/

theorem sideInv_step (c c' : Ctx) (s : Side) (u : SideUpd) (hinv : SideInv c.cov c.nP c.nS s)
    (hv : ValidUpd c s c' u) : SideInv c'.cov c'.nP c'.nS (s.apply u) := by
  cases u with
  | mortar a i =>
    obtain ⟨hcov, hnP, hnS, hac, hic, hr, harow, hicol⟩ := hv
    rw [hcov, hnP, hnS]
    exact {
      pInt_c := hinv.pInt_c
      pAvg_c := hinv.pAvg_c
      sInt_c := hinv.sInt_c
      sAvg_c := hinv.sAvg_c
      pAvg_r := hr
      sInt_r := rfl
      sAvg_r := hr
      pAvg_row := fun k hk => avg_rowsum_one_comp a s.pAvg k (hr ▸ hk) (harow k (hr ▸ hk))
        (fun m hm _ => hinv.pAvg_row m (hac ▸ hm))
      pAvg_supp := fun k j hj => ent_mul_zero a s.pAvg k j (fun m _ => Or.inr (hinv.pAvg_supp m j hj))
      pInt_col := fun j hj hcj => int_colsum_one_comp i s.pInt j (hinv.pInt_c ▸ hj) hic
        (hinv.pInt_col j hj hcj) (fun m hm _ => hicol m (hic ▸ hm))
      pInt_supp := fun k j hj => ent_mul_zero i s.pInt k j (fun m _ => Or.inr (hinv.pInt_supp m j hj))
      sAvg_row := fun k hk => avg_rowsum_one_comp a s.sAvg k (hr ▸ hk) (harow k (hr ▸ hk))
        (fun m hm _ => hinv.sAvg_row m (hac ▸ hm))
      sInt_col := fun j hj => int_colsum_one_comp i s.sInt j (hinv.sInt_c ▸ hj) (by rw [hic, hinv.sInt_r])
        (hinv.sInt_col j hj) (fun m hm _ => hicol m (hic ▸ hm)) }
  | secondary a i =>
    obtain ⟨hcov, hnP, har, hir, hac, hic, harow, hicol⟩ := hv
    rw [hcov, hnP]
    exact {
      pInt_c := hinv.pInt_c
      pAvg_c := hinv.pAvg_c
      sInt_c := hic
      sAvg_c := hac
      pAvg_r := hinv.pAvg_r
      sInt_r := hir
      sAvg_r := har
      pAvg_row := hinv.pAvg_row
      pAvg_supp := hinv.pAvg_supp
      pInt_col := hinv.pInt_col
      pInt_supp := hinv.pInt_supp
      sAvg_row := harow
      sInt_col := hicol }
  | primary a i =>
    obtain ⟨hnS, har, hir, hac, hic, harow, hasupp, hicol, hisupp1, hisupp2⟩ := hv
    rw [hnS]
    exact {
      pInt_c := hic
      pAvg_c := hac
      sInt_c := hinv.sInt_c
      sAvg_c := hinv.sAvg_c
      pAvg_r := hinv.pAvg_r
      sInt_r := hinv.sInt_r
      sAvg_r := hinv.sAvg_r
      pAvg_row := fun k hk => avg_rowsum_one_comp s.pAvg a k (hinv.pAvg_r ▸ hk) (hinv.pAvg_row k hk)
        (fun f hf hne => harow f (hinv.pAvg_c ▸ hf) (Classical.byContradiction fun hc => hne (hinv.pAvg_supp k f hc)))
      pAvg_supp := fun k g hg => ent_mul_zero s.pAvg a k g (fun f _ => by
        by_cases hc : c.cov f
        · exact Or.inr (hasupp f g hc hg)
        · exact Or.inl (hinv.pAvg_supp k f hc))
      pInt_col := fun g hg hcg => int_colsum_one_comp s.pInt i g (hic ▸ hg) (by rw [hinv.pInt_c, hir])
        (hicol g hg hcg)
        (fun f hf hne => hinv.pInt_col f (hinv.pInt_c ▸ hf) (Classical.byContradiction fun hc => hne (hisupp1 f g hc hcg)))
      pInt_supp := fun k g hg => ent_mul_zero s.pInt i k g (fun f _ => by
        by_cases hc : c.cov f
        · exact Or.inr (hisupp2 f g hc hg)
        · exact Or.inl (hinv.pInt_supp k f hc))
      sAvg_row := hinv.sAvg_row
      sInt_col := hinv.sInt_col }

/-- For EVERY history of valid updates of one mortar side, the side's projections keep: unit row
    sums of the averaged maps, unit column sums of the integrated maps on the covered entities. -/
theorem side_history_invariant (c : Ctx) (s : Side) (h : Reachable c s) : SideInv c.cov c.nP c.nS s := by
  induction h with
  | init c s h => exact h
  | step c c' s u _ hv ih => exact sideInv_step c c' s u ih hv


/-! ### the updates the code performs are valid, the initial interface satisfies the invariant -/

/-- replacing a side grid by another tessellation of the same segment is a valid update -/
theorem mortar_update_valid (c : Ctx) (s : Side) (newC oldC : List Cell) (a : Rat) (xs ys : List Rat)
    (hnew : Tessellates newC a xs) (hold : Tessellates oldC a ys) (hend : lastOr a xs = lastOr a ys)
    (hn : oldC.length = s.pInt.r) :
    ValidUpd c s c (.mortar (match1d newC oldC .averaged) (match1d newC oldC .integrated)) :=
  ⟨rfl, rfl, rfl, hn, hn, rfl,
   fun k hk => match1d_avg_rowsum_one newC oldC a xs ys hnew hold hend k hk,
   fun k hk => match1d_int_colsum_one newC oldC a xs ys hnew hold hend k (hn ▸ hk)⟩

/-- a side that is not replaced is updated with the identity -/
theorem identity_update_valid (c : Ctx) (s : Side) :
    ValidUpd c s c (.mortar (Mat.identity s.pInt.r) (Mat.identity s.pInt.r)) :=
  ⟨rfl, rfl, rfl, rfl, rfl, rfl, fun k hk => identity_rowSum _ k hk, fun k hk => identity_colSum _ k hk⟩

/-- replacing the secondary grid by another tessellation of the fracture is a valid update -/
theorem secondary_update_valid (c : Ctx) (s : Side) (sideC cells : List Cell) (a : Rat) (xs ys : List Rat)
    (hside : Tessellates sideC a xs) (hcells : Tessellates cells a ys) (hend : lastOr a xs = lastOr a ys)
    (hn : sideC.length = s.pInt.r) :
    ValidUpd c s ⟨c.cov, c.nP, cells.length⟩
      (.secondary (match1d sideC cells .averaged) (match1d sideC cells .integrated)) :=
  ⟨rfl, rfl, hn, hn, rfl, rfl,
   fun k hk => match1d_avg_rowsum_one sideC cells a xs ys hside hcells hend k (hn ▸ hk),
   fun k hk => match1d_int_colsum_one sideC cells a xs ys hside hcells hend k hk⟩

theorem matching_init_sideInv (n nP nS : Nat) (pf sf : Nat → Nat)
    (hpf : ∀ i, i < n → pf i < nP) (hpinj : ∀ i k, i < n → k < n → pf i = pf k → i = k)
    (hsf : ∀ i, i < n → sf i < nS) (hsinj : ∀ i k, i < n → k < n → sf i = sf k → i = k)
    (hsurj : ∀ j, j < nS → ∃ i, i < n ∧ sf i = j) :
    SideInv (fun j => ∃ i, i < n ∧ pf i = j) nP nS (matchingSide n nP nS pf sf) := by
  have rowP : ∀ i, i < n → (table n nP fun i j => if pf i = j then (1 : Rat) else 0).rowSum i = 1 := by
    intro i hi
    unfold Mat.rowSum
    simp only [table_c]
    rw [sumTo_congr _ _ _ (fun j hj => ent_table _ _ _ i j hi hj),
      sumTo_single nP (pf i) (hpf i hi) _ (fun j _ hne => if_neg (fun h => hne h.symm))]
    simp
  have rowS : ∀ i, i < n → (table n nS fun i j => if sf i = j then (1 : Rat) else 0).rowSum i = 1 := by
    intro i hi
    unfold Mat.rowSum
    simp only [table_c]
    rw [sumTo_congr _ _ _ (fun j hj => ent_table _ _ _ i j hi hj),
      sumTo_single nS (sf i) (hsf i hi) _ (fun j _ hne => if_neg (fun h => hne h.symm))]
    simp
  have suppP : ∀ i j, ¬ (∃ k, k < n ∧ pf k = j) →
      (table n nP fun i j => if pf i = j then (1 : Rat) else 0).ent i j = 0 := by
    intro i j hj
    rw [ent_table']
    split
    · rename_i h
      exact if_neg (fun e => hj ⟨i, h.1, e⟩)
    · rfl
  exact {
    pInt_c := rfl, pAvg_c := rfl, sInt_c := rfl, sAvg_c := rfl, pAvg_r := rfl, sInt_r := rfl, sAvg_r := rfl
    pAvg_row := rowP
    pAvg_supp := suppP
    pInt_col := by
      intro j hj ⟨i0, hi0, e0⟩
      show Mat.colSum (table n nP _) j = 1
      unfold Mat.colSum
      simp only [table_r]
      rw [sumTo_congr _ _ _ (fun i hi => ent_table _ _ _ i j hi hj),
        sumTo_single n i0 hi0 _ (fun i hi hne => if_neg (fun h => hne (hpinj i i0 hi hi0 (h.trans e0.symm))))]
      simp [e0]
    pInt_supp := suppP
    sAvg_row := rowS
    sInt_col := by
      intro j hj
      obtain ⟨i0, hi0, e0⟩ := hsurj j hj
      show Mat.colSum (table n nS _) j = 1
      unfold Mat.colSum
      simp only [table_r]
      rw [sumTo_congr _ _ _ (fun i hi => ent_table _ _ _ i j hi hj),
        sumTo_single n i0 hi0 _ (fun i hi hne => if_neg (fun h => hne (hsinj i i0 hi hi0 (h.trans e0.symm))))]
      simp [e0] }

theorem stack_update_secondary (nP nS nS' : Nat) (l : List (Side × Mat × Mat)) :
    updateSecondary (stackSides nP nS (l.map (·.1))) nS' (l.map (·.2.1)) (l.map (·.2.2))
      = stackSides nP nS' (l.map fun x => x.1.apply (.secondary x.2.1 x.2.2)) := by
  unfold updateSecondary stackSides setProjections
  simp [List.map_map, Function.comp_def, Side.apply]

theorem stack_update_primary (nP nS : Nat) (ss : List Side) (a i : Mat) (hai : i.c = a.c)
    (h : ∀ s ∈ ss, s.pInt.c = nP ∧ s.pAvg.c = nP) :
    updatePrimary (stackSides nP nS ss) a i = stackSides a.c nS (ss.map fun s => s.apply (.primary a i)) := by
  unfold updatePrimary stackSides setProjections
  simp only [List.map_map, Function.comp_def, Side.apply]
  rw [vs_aux nP i ss (·.pInt) (fun s hs => (h s hs).1), vs_aux nP a ss (·.pAvg) (fun s hs => (h s hs).2), hai]
  simp



/-! ### `update_primary`: the face matching of `match_grids_along_1d_mortar` is a valid update -/

/-- one side of the fracture: the old-face × new-face matrices of that side are row- resp.
    column-stochastic on the side's faces -/
theorem sideOrZero_sums (nOld nNew : Nat) (o n : List FaceRec) (a : Rat) (xs ys : List Rat)
    (hto : Tessellates (o.map (·.cell)) a xs) (htn : Tessellates (n.map (·.cell)) a ys)
    (hend : lastOr a xs = lastOr a ys)
    (hoN : (o.map (·.idx)).Nodup) (hnN : (n.map (·.idx)).Nodup)
    (hoR : ∀ x ∈ o.map (·.idx), x < nOld) (hnR : ∀ x ∈ n.map (·.idx), x < nNew) :
    (∀ f, f ∈ o.map (·.idx) → (sideOrZero nOld nNew o n .averaged).rowSum f = 1) ∧
    (∀ g, g ∈ n.map (·.idx) → (sideOrZero nOld nNew o n .integrated).colSum g = 1) := by
  have hemp := tess_empty_iff hto htn hend
  constructor
  · intro f hf
    have hone : o ≠ [] := by intro h; subst h; simp at hf
    have hnne : n ≠ [] := by
      intro h; apply hone
      have := hemp.mpr (by rw [h]; rfl)
      exact List.map_eq_nil_iff.mp this
    unfold sideOrZero
    rw [if_neg (by simp [List.isEmpty_iff, hone, hnne])]
    unfold sideFaceMatch
    obtain ⟨a0, h0, e0⟩ := exists_getD_of_mem _ nOld f hf
    rw [scatter_rowSum _ _ _ _ _ (by rw [match1d_c]; simp) (getD_lt_of_forall _ _ _ hnR) f (hoR f hf),
      sum_ind_select _ (fun a => (o.map (·.idx)).getD a nOld) f a0 _ h0 e0
        (fun a ha e => getD_inj_of_nodup _ _ hoN a a0 ha h0 e)]
    exact match1d_avg_rowsum_one _ _ a xs ys hto htn hend a0 (by simpa using h0)
  · intro g hg
    have hnne : n ≠ [] := by intro h; subst h; simp at hg
    have hone : o ≠ [] := by
      intro h; apply hnne
      have := hemp.mp (by rw [h]; rfl)
      exact List.map_eq_nil_iff.mp this
    unfold sideOrZero
    rw [if_neg (by simp [List.isEmpty_iff, hone, hnne])]
    unfold sideFaceMatch
    obtain ⟨b0, h0, e0⟩ := exists_getD_of_mem _ nNew g hg
    rw [scatter_colSum _ _ _ _ _ (by rw [match1d_c]; simp) (by rw [match1d_r]; simp)
        (getD_lt_of_forall _ _ _ hoR) g (hnR g hg),
      sum_ind_select _ (fun b => (n.map (·.idx)).getD b nNew) g b0 _ h0 e0
        (fun b hb e => getD_inj_of_nodup _ _ hnN b b0 hb h0 e)]
    exact match1d_int_colsum_one _ _ a xs ys hto htn hend b0 (by simpa using h0)



/-- the own side's block plus a block that vanishes on the own faces is a valid primary update
    (in either order of the sum) -/
theorem primary_valid_of_blocks (c c' : Ctx) (s : Side) (A I A' I' : Mat)
    (hnS : c'.nS = c.nS)
    (hAr : A.r = c.nP) (hAc : A.c = c'.nP) (hIr : I.r = c.nP) (hIc : I.c = c'.nP)
    (hA'r : A'.r = c.nP) (hA'c : A'.c = c'.nP) (hI'r : I'.r = c.nP) (hI'c : I'.c = c'.nP)
    (h1 : ∀ f, f < c.nP → c.cov f → A.rowSum f = 1)
    (h2 : ∀ f g, c.cov f → ¬ c'.cov g → A.ent f g = 0)
    (h3 : ∀ g, g < c'.nP → c'.cov g → I.colSum g = 1)
    (h4 : ∀ f g, ¬ c.cov f → c'.cov g → I.ent f g = 0)
    (h5 : ∀ f g, c.cov f → ¬ c'.cov g → I.ent f g = 0)
    (h6 : ∀ f g, c.cov f ∨ c'.cov g → A'.ent f g = 0 ∧ I'.ent f g = 0) :
    ValidUpd c s c' (.primary (A.add A') (I.add I')) ∧ ValidUpd c s c' (.primary (A'.add A) (I'.add I)) := by
  constructor
  · refine ⟨hnS, hAr, hIr, hAc, hIc, ?_, ?_, ?_, ?_, ?_⟩
    · intro f hf hc
      rw [rowSum_add A A' f (hAr ▸ hf) (by rw [hA'c, hAc]), h1 f hf hc,
        rowSum_zero_of_ent A' f (fun g => (h6 f g (Or.inl hc)).1)]
      ring
    · intro f g hc hg
      exact ent_add_zero A A' f g (h2 f g hc hg) (h6 f g (Or.inl hc)).1
    · intro g hg hc
      rw [colSum_add I I' g (hIc ▸ hg) (by rw [hI'r, hIr]), h3 g hg hc,
        colSum_zero_of_ent I' g (fun f => (h6 f g (Or.inr hc)).2)]
      ring
    · intro f g hf hc
      exact ent_add_zero I I' f g (h4 f g hf hc) (h6 f g (Or.inr hc)).2
    · intro f g hc hg
      exact ent_add_zero I I' f g (h5 f g hc hg) (h6 f g (Or.inl hc)).2
  · refine ⟨hnS, hA'r, hI'r, hA'c, hI'c, ?_, ?_, ?_, ?_, ?_⟩
    · intro f hf hc
      rw [rowSum_add A' A f (hA'r ▸ hf) (by rw [hA'c, hAc]), h1 f hf hc,
        rowSum_zero_of_ent A' f (fun g => (h6 f g (Or.inl hc)).1)]
      ring
    · intro f g hc hg
      exact ent_add_zero A' A f g (h6 f g (Or.inl hc)).1 (h2 f g hc hg)
    · intro g hg hc
      rw [colSum_add I' I g (hI'c ▸ hg) (by rw [hI'r, hIr]), h3 g hg hc,
        colSum_zero_of_ent I' g (fun f => (h6 f g (Or.inr hc)).2)]
      ring
    · intro f g hf hc
      exact ent_add_zero I' I f g (h6 f g (Or.inr hc)).2 (h4 f g hf hc)
    · intro f g hc hg
      exact ent_add_zero I' I f g (h6 f g (Or.inl hc)).2 (h5 f g hc hg)

/-- `update_primary`: the matrices `match_grids_along_1d_mortar` builds from the fracture faces of
    the old and the new host are a valid update for the mortar side lying on side `b` of the
    fracture — provided the faces of that side tessellate the same segment in both hosts, face
    indices are distinct and in range, and all listed old faces are covered by the mortar. -/
theorem face_update_valid (P : Mat) (nNew nS : Nat) (s : Side) (old new : List FaceRec) (b : Bool)
    (hcov : ∀ r ∈ old, covered P r.idx = true)
    (hoN : (old.map (·.idx)).Nodup) (hnN : (new.map (·.idx)).Nodup)
    (hoR : ∀ r ∈ old, r.idx < P.c) (hnR : ∀ r ∈ new, r.idx < nNew)
    (a : Rat) (xs ys : List Rat)
    (hto : Tessellates ((old.filter (·.pos == b)).map (·.cell)) a xs)
    (htn : Tessellates ((new.filter (·.pos == b)).map (·.cell)) a ys)
    (hend : lastOr a xs = lastOr a ys) :
    ValidUpd ⟨fun f => ∃ r, r ∈ old ∧ r.pos = b ∧ r.idx = f, P.c, nS⟩ s
      ⟨fun g => ∃ r, r ∈ new ∧ r.pos = b ∧ r.idx = g, nNew, nS⟩
      (.primary (faceMatch P nNew old new .averaged) (faceMatch P nNew old new .integrated)) := by
  have hfil : old.filter (fun f => covered P f.idx) = old := List.filter_eq_self.mpr hcov
  have hoR' : ∀ (c : Bool), ∀ x ∈ (old.filter (·.pos == c)).map (·.idx), x < P.c := by
    intro c x hx
    obtain ⟨r, hr, _, e⟩ := (mem_side_idx old c x).mp hx
    exact e ▸ hoR r hr
  have hnR' : ∀ (c : Bool), ∀ x ∈ (new.filter (·.pos == c)).map (·.idx), x < nNew := by
    intro c x hx
    obtain ⟨r, hr, _, e⟩ := (mem_side_idx new c x).mp hx
    exact e ▸ hnR r hr
  have hs := sideOrZero_sums P.c nNew (old.filter (·.pos == b)) (new.filter (·.pos == b)) a xs ys hto htn hend
    (nodup_side_idx old hoN b) (nodup_side_idx new hnN b) (hoR' b) (hnR' b)
  have key := primary_valid_of_blocks
    ⟨fun f => ∃ r, r ∈ old ∧ r.pos = b ∧ r.idx = f, P.c, nS⟩
    ⟨fun g => ∃ r, r ∈ new ∧ r.pos = b ∧ r.idx = g, nNew, nS⟩ s
    (sideOrZero P.c nNew (old.filter (·.pos == b)) (new.filter (·.pos == b)) .averaged)
    (sideOrZero P.c nNew (old.filter (·.pos == b)) (new.filter (·.pos == b)) .integrated)
    (sideOrZero P.c nNew (old.filter (·.pos == !b)) (new.filter (·.pos == !b)) .averaged)
    (sideOrZero P.c nNew (old.filter (·.pos == !b)) (new.filter (·.pos == !b)) .integrated)
    rfl (sideOrZero_r ..) (sideOrZero_c ..) (sideOrZero_r ..) (sideOrZero_c ..)
    (sideOrZero_r ..) (sideOrZero_c ..) (sideOrZero_r ..) (sideOrZero_c ..)
    (fun f _ hc => hs.1 f ((mem_side_idx old b f).mpr hc))
    (fun f g _ hg => sideOrZero_ent_zero _ _ _ _ _ f g (Or.inr (fun h => hg ((mem_side_idx new b g).mp h))))
    (fun g _ hc => hs.2 g ((mem_side_idx new b g).mpr hc))
    (fun f g hf _ => sideOrZero_ent_zero _ _ _ _ _ f g (Or.inl (fun h => hf ((mem_side_idx old b f).mp h))))
    (fun f g _ hg => sideOrZero_ent_zero _ _ _ _ _ f g (Or.inr (fun h => hg ((mem_side_idx new b g).mp h))))
    (fun f g h => by
      have : f ∉ (old.filter (·.pos == !b)).map (·.idx) ∨ g ∉ (new.filter (·.pos == !b)).map (·.idx) := by
        rcases h with h | h
        · exact Or.inl (not_mem_other_side old hoN b f ((mem_side_idx old b f).mpr h))
        · exact Or.inr (not_mem_other_side new hnN b g ((mem_side_idx new b g).mpr h))
      exact ⟨sideOrZero_ent_zero _ _ _ _ _ f g this, sideOrZero_ent_zero _ _ _ _ _ f g this⟩)
  unfold faceMatch
  simp only [hfil]
  cases b with
  | true => exact key.1
  | false => exact key.2

/-! ### the state machine of the model (what the driver executes) acts side by side -/

/-- The state machine the driver executes, `update_mortar` step: on a state whose stored matrices are
    the stack of per-side blocks, the step is the per-side update with the `match_1d` matrices. -/
theorem step_mortar_stack (nP nS : Nat) (l : List (Side × List Cell × Option (List Cell)))
    (h : ∀ x ∈ l, x.1.Shaped nP nS ∧ x.2.1.length = x.1.pInt.r) :
    (step ⟨stackSides nP nS (l.map (·.1)), l.map (·.2.1), nS⟩ (.mortar (l.map (·.2.2)))).proj =
      stackSides nP nS (l.map fun x =>
        x.1.apply (.mortar (blockOf .averaged x.2.1 x.2.2) (blockOf .integrated x.2.1 x.2.2))) := by
  show updateMortar _ (mortarBlocks .averaged _ _) (mortarBlocks .integrated _ _) = _
  rw [mortarBlocks_map, mortarBlocks_map]
  have := stack_update_mortar nP nS
    (l.map fun x => (x.1, blockOf .averaged x.2.1 x.2.2, blockOf .integrated x.2.1 x.2.2)) (by
      intro y hy
      obtain ⟨x, hx, rfl⟩ := List.mem_map.mp hy
      exact ⟨(h x hx).1, by rw [blockOf_c]; exact (h x hx).2, by rw [blockOf_c]; exact (h x hx).2⟩)
  simpa [List.map_map, Function.comp_def] using this

/-- … `update_secondary` step -/
theorem step_secondary_stack (nP nS : Nat) (l : List (Side × List Cell)) (cells : List Cell) :
    (step ⟨stackSides nP nS (l.map (·.1)), l.map (·.2), nS⟩ (.secondary cells)).proj =
      stackSides nP cells.length (l.map fun x =>
        x.1.apply (.secondary (match1d x.2 cells .averaged) (match1d x.2 cells .integrated))) := by
  show updateSecondary _ _ _ _ = _
  have := stack_update_secondary nP nS cells.length
    (l.map fun x => (x.1, match1d x.2 cells .averaged, match1d x.2 cells .integrated))
  simpa [List.map_map, Function.comp_def] using this

/-- … `update_primary` step (the same two face matrices for every side) -/
theorem step_primary_stack (nP nS : Nat) (ss : List Side) (sides : List (List Cell)) (nNew : Nat)
    (old new : List FaceRec) (h : ∀ s ∈ ss, s.pInt.c = nP ∧ s.pAvg.c = nP) :
    (step ⟨stackSides nP nS ss, sides, nS⟩ (.primary nNew old new)).proj =
      stackSides nNew nS (ss.map fun s => s.apply
        (.primary (faceMatch (stackSides nP nS ss).p2mInt nNew old new .averaged)
          (faceMatch (stackSides nP nS ss).p2mInt nNew old new .integrated))) := by
  show updatePrimary _ _ _ = _
  rw [stack_update_primary nP nS ss _ _ (by rw [faceMatch_c, faceMatch_c]) h, faceMatch_c]

/-! ### the constructor: `_init_projections` yields matching 0/1 sides -/

/-- The constructor on a two-sided interface: what `_init_projections` + `_set_projections` store is
    the stack of two matching 0/1 sides (mortar cell `i` of a side ↔ one primary face, secondary
    cell `i`), each of which satisfies the invariant; the sides cover disjoint primary faces. -/
theorem constructor_two_sides (numCells nPrim nSec : Nat) (entries : List Ent) (dup : Option (List Nat))
    (P S : Mat) (h : initBase 2 numCells nPrim nSec entries dup = some (P, S))
    (wf : WellFormedMap nPrim nSec entries) :
    ∃ pf1 sf1 pf2 sf2,
      initProj P S = stackSides nPrim nSec
        [matchingSide nSec nPrim nSec pf1 sf1, matchingSide nSec nPrim nSec pf2 sf2] ∧
      SideInv (fun j => ∃ i, i < nSec ∧ pf1 i = j) nPrim nSec (matchingSide nSec nPrim nSec pf1 sf1) ∧
      SideInv (fun j => ∃ i, i < nSec ∧ pf2 i = j) nPrim nSec (matchingSide nSec nPrim nSec pf2 sf2) ∧
      (∀ j, ¬ ((∃ i, i < nSec ∧ pf1 i = j) ∧ (∃ i, i < nSec ∧ pf2 i = j))) := by
  obtain ⟨hok, hlen, hP, hS⟩ := initBase_inv 2 numCells nPrim nSec entries dup P S h
  have hord : sideOrder 2 (sortBySec (dupOrder 2 entries dup)) =
      evens (sortBySec (dupOrder 2 entries dup)) ++ odds (sortBySec (dupOrder 2 entries dup)) := by
    unfold sideOrder; exact if_pos rfl
  have hperm := ordered_perm 2 entries dup
  rw [hord] at hperm hlen hP hS
  generalize hsorted : sortBySec (dupOrder 2 entries dup) = sorted at hperm hlen hP hS
  have hmem1 : ∀ t : Ent, t ∈ dupOrder 2 entries dup ↔ t ∈ entries := fun t => (dupOrder_perm 2 entries dup).mem_iff
  have hk : sorted.map (·.1) = dblFrom 0 nSec := by
    rw [← hsorted]
    exact sorted_keys_two nSec _ (fun t ht => wf.sec t ((hmem1 t).mp ht))
      (fun c hc => by obtain ⟨t, ht, e⟩ := wf.all c hc; exact ⟨t, (hmem1 t).mpr ht, e⟩) hok
  obtain ⟨le, lo, hs1, hs2⟩ := side_keys sorted nSec (0, 0, 0) hk
  generalize hordered : evens sorted ++ odds sorted = ordered at hperm hlen hP hS hs1 hs2
  have hlen2 : ordered.length = nSec + nSec := by rw [← hordered, List.length_append, le, lo]
  have hnum : numCells = nSec + nSec := by rw [← hlen, hlen2]
  subst hnum
  have hin : ∀ i, i < nSec + nSec → ordered.getD i (0, 0, 0) ∈ entries := fun i hi =>
    hperm.mem_iff.mp (getD_mem ordered _ i (by omega))
  have hnd : (ordered.map (·.2.1)).Nodup := (hperm.map _).nodup_iff.mpr wf.nodup
  let pf1 : Nat → Nat := fun i => (ordered.getD i (0, 0, 0)).2.1
  let sf1 : Nat → Nat := fun i => (ordered.getD i (0, 0, 0)).1
  let pf2 : Nat → Nat := fun i => (ordered.getD (nSec + i) (0, 0, 0)).2.1
  let sf2 : Nat → Nat := fun i => (ordered.getD (nSec + i) (0, 0, 0)).1
  refine ⟨pf1, sf1, pf2, sf2, ?_, ?_, ?_, ?_⟩
  · have hPv : P = vstack nPrim [(matchingSide nSec nPrim nSec pf1 sf1).pInt,
        (matchingSide nSec nPrim nSec pf2 sf2).pInt] := by
      rw [hP]
      unfold pTable
      rw [two_block_table]
      show Mat.vcat _ (Mat.vcat _ _) = Mat.vcat _ (Mat.vcat _ _)
      congr 1
      · apply table_congr
        intro i j hi _
        simp only [pf1, wf.data _ (hin i (by omega))]
      · congr 1
        apply table_congr
        intro i j hi _
        simp only [pf2, wf.data _ (hin (nSec + i) (by omega))]
    have hSv : S = vstack nSec [(matchingSide nSec nPrim nSec pf1 sf1).sInt,
        (matchingSide nSec nPrim nSec pf2 sf2).sInt] := by
      rw [hS]
      unfold sTable
      rw [two_block_table]
      show Mat.vcat _ (Mat.vcat _ _) = Mat.vcat _ (Mat.vcat _ _)
      congr 1
      · apply table_congr
        intro i j hi _
        simp only [sf1, wf.data _ (hin i (by omega))]
      · congr 1
        apply table_congr
        intro i j hi _
        simp only [sf2, wf.data _ (hin (nSec + i) (by omega))]
    rw [hPv, hSv]
    rfl
  · exact matching_init_sideInv nSec nPrim nSec pf1 sf1
      (fun i hi => wf.prim _ (hin i (by omega)))
      (fun i k hi hk e => getD_inj_of_prim_nodup ordered _ hnd i k (by omega) (by omega) e)
      (fun i hi => by show (ordered.getD i (0, 0, 0)).1 < nSec; rw [hs1 i hi]; exact hi)
      (fun i k hi hk e => by
        have e' : (ordered.getD i (0, 0, 0)).1 = (ordered.getD k (0, 0, 0)).1 := e
        rw [hs1 i hi, hs1 k hk] at e'; exact e')
      (fun j hj => ⟨j, hj, hs1 j hj⟩)
  · exact matching_init_sideInv nSec nPrim nSec pf2 sf2
      (fun i hi => wf.prim _ (hin (nSec + i) (by omega)))
      (fun i k hi hk e => by
        have := getD_inj_of_prim_nodup ordered _ hnd (nSec + i) (nSec + k) (by omega) (by omega) e
        omega)
      (fun i hi => by show (ordered.getD (nSec + i) (0, 0, 0)).1 < nSec; rw [hs2 i hi]; exact hi)
      (fun i k hi hk e => by
        have e' : (ordered.getD (nSec + i) (0, 0, 0)).1 = (ordered.getD (nSec + k) (0, 0, 0)).1 := e
        rw [hs2 i hi, hs2 k hk] at e'; exact e')
      (fun j hj => ⟨j, hj, hs2 j hj⟩)
  · rintro j ⟨⟨i, hi, e1⟩, ⟨k, hk, e2⟩⟩
    have := getD_inj_of_prim_nodup ordered _ hnd i (nSec + k) (by omega) (by omega) (e1.trans e2.symm)
    omega


/-- The constructor on a one-sided interface (every secondary cell coupled to exactly one face). -/
theorem constructor_one_side (numCells nPrim nSec : Nat) (entries : List Ent) (dup : Option (List Nat))
    (P S : Mat) (h : initBase 1 numCells nPrim nSec entries dup = some (P, S))
    (wf : WellFormedMap nPrim nSec entries) (hsnd : (entries.map (·.1)).Nodup) :
    ∃ pf sf,
      initProj P S = stackSides nPrim nSec [matchingSide numCells nPrim nSec pf sf] ∧
      SideInv (fun j => ∃ i, i < numCells ∧ pf i = j) nPrim nSec (matchingSide numCells nPrim nSec pf sf) := by
  obtain ⟨_, hlen, hP, hS⟩ := initBase_inv 1 numCells nPrim nSec entries dup P S h
  have hord : sideOrder 1 (sortBySec (dupOrder 1 entries dup)) = sortBySec (dupOrder 1 entries dup) := by
    unfold sideOrder; exact if_neg (by decide)
  have hperm := ordered_perm 1 entries dup
  rw [hord] at hperm hlen hP hS
  generalize sortBySec (dupOrder 1 entries dup) = ordered at hperm hlen hP hS
  subst hlen
  have hin : ∀ i, i < ordered.length → ordered.getD i (0, 0, 0) ∈ entries := fun i hi =>
    hperm.mem_iff.mp (getD_mem ordered _ i hi)
  have hnd : (ordered.map (·.2.1)).Nodup := (hperm.map _).nodup_iff.mpr wf.nodup
  have hnds : (ordered.map (·.1)).Nodup := (hperm.map _).nodup_iff.mpr hsnd
  let pf : Nat → Nat := fun i => (ordered.getD i (0, 0, 0)).2.1
  let sf : Nat → Nat := fun i => (ordered.getD i (0, 0, 0)).1
  refine ⟨pf, sf, ?_, ?_⟩
  · have hPv : P = vstack nPrim [(matchingSide ordered.length nPrim nSec pf sf).pInt] := by
      rw [hP]
      unfold pTable
      rw [one_block_table]
      show Mat.vcat _ _ = Mat.vcat _ _
      congr 1
      apply table_congr
      intro i j hi _
      simp only [pf, wf.data _ (hin i hi)]
    have hSv : S = vstack nSec [(matchingSide ordered.length nPrim nSec pf sf).sInt] := by
      rw [hS]
      unfold sTable
      rw [one_block_table]
      show Mat.vcat _ _ = Mat.vcat _ _
      congr 1
      apply table_congr
      intro i j hi _
      simp only [sf, wf.data _ (hin i hi)]
    rw [hPv, hSv]
    rfl
  · exact matching_init_sideInv ordered.length nPrim nSec pf sf
      (fun i hi => wf.prim _ (hin i hi))
      (fun i k hi hk e => getD_inj_of_prim_nodup ordered _ hnd i k hi hk e)
      (fun i hi => wf.sec _ (hin i hi))
      (fun i k hi hk e => getD_inj_of_sec_nodup ordered _ hnds i k hi hk e)
      (fun j hj => by
        obtain ⟨t, ht, e⟩ := wf.all j hj
        obtain ⟨a, ha, ea⟩ := exists_getD_of_mem' ordered (0, 0, 0) t (hperm.mem_iff.mpr ht)
        exact ⟨a, ha, by show (ordered.getD a (0, 0, 0)).1 = j; rw [ea, e]⟩)

/-! ### the whole interface, every history, all eight projections -/

theorem SideInv.shaped {cov : Nat → Prop} {nP nS : Nat} {s : Side} (h : SideInv cov nP nS s) : s.Shaped nP nS :=
  ⟨h.pInt_c, h.pAvg_c, h.sInt_c, h.sAvg_c, h.pAvg_r, h.sInt_r, h.sAvg_r⟩

theorem eightOK_of_inv {cov : Nat → Prop} {nP nS : Nat} {s : Side} (h : SideInv cov nP nS s) : EightOK cov nP nS s where
  inv := h
  m2pInt_col := fun i hi => by rw [colSum_T _ i (h.pAvg_r ▸ hi)]; exact h.pAvg_row i hi
  m2pAvg_row := fun j hj hc => by rw [rowSum_T _ j (h.pInt_c ▸ hj)]; exact h.pInt_col j hj hc
  m2sInt_col := fun i hi => by rw [colSum_T _ i (h.sAvg_r ▸ hi)]; exact h.sAvg_row i hi
  m2sAvg_row := fun j hj => by rw [rowSum_T _ j (h.sInt_c ▸ hj)]; exact h.sInt_col j hj

theorem ireach_inv {nP nS : Nat} {L : List CSide} {pr : Proj} (h : IReach nP nS L pr) :
    pr = stackSides nP nS (L.map (·.1)) ∧ ∀ x ∈ L, SideInv x.2 nP nS x.1 := by
  induction h with
  | start nP nS L h => exact ⟨rfl, h⟩
  | mortar nP nS pr M _ hv ih =>
    obtain ⟨hpr, hinv⟩ := ih
    constructor
    · rw [hpr]
      have := stack_update_mortar nP nS (M.map fun x => (x.1.1, x.2.1, x.2.2)) (by
        intro y hy
        obtain ⟨x, hx, rfl⟩ := List.mem_map.mp hy
        have hi := hinv x.1 (List.mem_map.mpr ⟨x, hx, rfl⟩)
        obtain ⟨_, _, _, hac, hic, _⟩ := hv x hx
        exact ⟨hi.shaped, hac, hic⟩)
      simpa [List.map_map, Function.comp_def] using this
    · intro y hy
      obtain ⟨x, hx, rfl⟩ := List.mem_map.mp hy
      exact sideInv_step ⟨x.1.2, nP, nS⟩ ⟨x.1.2, nP, nS⟩ x.1.1 _ (hinv x.1 (List.mem_map.mpr ⟨x, hx, rfl⟩)) (hv x hx)
  | secondary nP nS nS' pr M _ hv ih =>
    obtain ⟨hpr, hinv⟩ := ih
    constructor
    · rw [hpr]
      have := stack_update_secondary nP nS nS' (M.map fun x => (x.1.1, x.2.1, x.2.2))
      simpa [List.map_map, Function.comp_def] using this
    · intro y hy
      obtain ⟨x, hx, rfl⟩ := List.mem_map.mp hy
      exact sideInv_step ⟨x.1.2, nP, nS⟩ ⟨x.1.2, nP, nS'⟩ x.1.1 _ (hinv x.1 (List.mem_map.mpr ⟨x, hx, rfl⟩)) (hv x hx)
  | primary nP nS nP' pr a i M _ ha hi hv ih =>
    obtain ⟨hpr, hinv⟩ := ih
    constructor
    · rw [hpr, stack_update_primary nP nS _ a i (by rw [ha, hi]) (by
        intro s hs
        obtain ⟨y, hy, rfl⟩ := List.mem_map.mp hs
        have := hinv y hy
        exact ⟨this.pInt_c, this.pAvg_c⟩), ha]
      simp [List.map_map, Function.comp_def]
    · intro y hy
      obtain ⟨x, hx, rfl⟩ := List.mem_map.mp hy
      exact sideInv_step ⟨x.1.2, nP, nS⟩ ⟨x.2, nP', nS⟩ x.1.1 _ (hinv x.1 (List.mem_map.mpr ⟨x, hx, rfl⟩)) (hv x hx)

/-- THE PROPERTY, in one statement.  For every interface state reachable from the constructor by any
    sequence of valid `update_mortar` / `update_secondary` / `update_primary` calls:
    (1) the four mortar-to-grid matrices are the transposes of the grid-to-mortar matrices
        (int ↔ avg exchanged);
    (2) the stored matrices are the stack, side by side, of per-side blocks;
    (3) on each mortar side all eight projections behave: averaged maps have unit row sums
        (constants to constants; for mortar_to_primary_avg on the covered faces), integrated maps
        have unit column sums (totals preserved; for primary_to_mortar_int on the covered faces),
        and the maps from / to primary touch covered faces only. -/
theorem mortar_projections_conserve {nP nS : Nat} {L : List CSide} {pr : Proj} (h : IReach nP nS L pr) :
    TransposePairs pr ∧ pr = stackSides nP nS (L.map (·.1)) ∧ ∀ x ∈ L, EightOK x.2 nP nS x.1 := by
  obtain ⟨hpr, hinv⟩ := ireach_inv h
  refine ⟨?_, hpr, fun x hx => eightOK_of_inv (hinv x hx)⟩
  rw [hpr]
  exact ⟨rfl, rfl, rfl, rfl⟩

/-- the state a two-sided constructor call leaves is a start state of `IReach` -/
theorem constructor_reach_two (numCells nPrim nSec : Nat) (entries : List Ent) (dup : Option (List Nat))
    (P S : Mat) (h : initBase 2 numCells nPrim nSec entries dup = some (P, S))
    (wf : WellFormedMap nPrim nSec entries) :
    ∃ L : List CSide, L.length = 2 ∧ IReach nPrim nSec L (initProj P S) := by
  obtain ⟨pf1, sf1, pf2, sf2, hst, h1, h2, _⟩ := constructor_two_sides numCells nPrim nSec entries dup P S h wf
  refine ⟨[(matchingSide nSec nPrim nSec pf1 sf1, fun j => ∃ i, i < nSec ∧ pf1 i = j),
           (matchingSide nSec nPrim nSec pf2 sf2, fun j => ∃ i, i < nSec ∧ pf2 i = j)], rfl, ?_⟩
  rw [hst]
  exact IReach.start nPrim nSec _ (by
    intro x hx
    simp only [List.mem_cons, List.not_mem_nil, or_false] at hx
    rcases hx with rfl | rfl
    · exact h1
    · exact h2)

/-- … and a one-sided constructor call -/
theorem constructor_reach_one (numCells nPrim nSec : Nat) (entries : List Ent) (dup : Option (List Nat))
    (P S : Mat) (h : initBase 1 numCells nPrim nSec entries dup = some (P, S))
    (wf : WellFormedMap nPrim nSec entries) (hsnd : (entries.map (·.1)).Nodup) :
    ∃ L : List CSide, L.length = 1 ∧ IReach nPrim nSec L (initProj P S) := by
  obtain ⟨pf, sf, hst, h1⟩ := constructor_one_side numCells nPrim nSec entries dup P S h wf hsnd
  refine ⟨[(matchingSide numCells nPrim nSec pf sf, fun j => ∃ i, i < numCells ∧ pf i = j)], rfl, ?_⟩
  rw [hst]
  exact IReach.start nPrim nSec _ (by
    intro x hx
    simp only [List.mem_cons, List.not_mem_nil, or_false] at hx
    subst hx
    exact h1)

/-! ### 2-D mortar grids: nested triangle refinements (`match_2d`) -/

/-- The children of a nested refinement partition the parent: their (signed) areas add up to the
    parent's area — for every recipe, every triangle. -/
theorem refine_area : ∀ (r : Ref) (t : Tri), sumL ((refine r t).map area2) = area2 t
  | .leaf, t => by simp [refine, sumL]
  | .edge s l r, t => by
    simp only [refine, List.map_append, sumL_append, refine_area l, refine_area r]
    unfold area2 lerp; simp only; ring
  | .rot r, t => by
    simp only [refine, refine_area r]
    unfold area2; simp only; ring
  | .centre u v r1 r2 r3, t => by
    simp only [refine, List.map_append, sumL_append, refine_area r1, refine_area r2, refine_area r3]
    unfold area2 bary; simp only; ring
  | .red r1 r2 r3 r4, t => by
    simp only [refine, List.map_append, sumL_append, refine_area r1, refine_area r2, refine_area r3,
      refine_area r4]
    unfold area2 lerp; simp only; ring

/-- … and all children keep the orientation of the parent (positive area): new nodes strictly inside
    an edge / the triangle never produce degenerate or flipped cells. -/
theorem refine_pos : ∀ (r : Ref) (t : Tri), r.Valid → 0 < area2 t → ∀ c ∈ refine r t, 0 < area2 c
  | .leaf, t, _, ht, c, hc => by
    simp only [refine, List.mem_singleton] at hc; rw [hc]; exact ht
  | .edge s l r, t, hv, ht, c, hc => by
    obtain ⟨hs0, hs1, hl, hr⟩ := hv
    simp only [refine, List.mem_append] at hc
    rcases hc with hc | hc
    · refine refine_pos l _ hl ?_ c hc
      have : area2 ⟨t.a, t.b, lerp t.b t.c s⟩ = s * area2 t := by unfold area2 lerp; simp only; ring
      rw [this]; exact mul_pos hs0 ht
    · refine refine_pos r _ hr ?_ c hc
      have : area2 ⟨t.a, lerp t.b t.c s, t.c⟩ = (1 - s) * area2 t := by unfold area2 lerp; simp only; ring
      rw [this]; exact mul_pos (by linarith) ht
  | .rot r, t, hv, ht, c, hc => by
    simp only [refine] at hc
    refine refine_pos r _ hv ?_ c hc
    have : area2 ⟨t.b, t.c, t.a⟩ = area2 t := by unfold area2; simp only; ring
    rw [this]; exact ht
  | .centre u v r1 r2 r3, t, hv, ht, c, hc => by
    obtain ⟨hu, hv', huv, h1, h2, h3⟩ := hv
    simp only [refine, List.mem_append] at hc
    rcases hc with hc | hc | hc
    · refine refine_pos r1 _ h1 ?_ c hc
      have : area2 ⟨bary t u v, t.b, t.c⟩ = (1 - u - v) * area2 t := by unfold area2 bary; simp only; ring
      rw [this]; exact mul_pos (by linarith) ht
    · refine refine_pos r2 _ h2 ?_ c hc
      have : area2 ⟨t.a, bary t u v, t.c⟩ = u * area2 t := by unfold area2 bary; simp only; ring
      rw [this]; exact mul_pos hu ht
    · refine refine_pos r3 _ h3 ?_ c hc
      have : area2 ⟨t.a, t.b, bary t u v⟩ = v * area2 t := by unfold area2 bary; simp only; ring
      rw [this]; exact mul_pos hv' ht
  | .red r1 r2 r3 r4, t, hv, ht, c, hc => by
    obtain ⟨h1, h2, h3, h4⟩ := hv
    simp only [refine, List.mem_append] at hc
    have q : (0 : Rat) < 1 / 4 * area2 t := by linarith
    rcases hc with hc | hc | hc | hc
    · refine refine_pos r1 _ h1 ?_ c hc
      have : area2 ⟨t.a, lerp t.a t.b (1 / 2), lerp t.c t.a (1 / 2)⟩ = 1 / 4 * area2 t := by
        unfold area2 lerp; simp only; ring
      rw [this]; exact q
    · refine refine_pos r2 _ h2 ?_ c hc
      have : area2 ⟨lerp t.a t.b (1 / 2), t.b, lerp t.b t.c (1 / 2)⟩ = 1 / 4 * area2 t := by
        unfold area2 lerp; simp only; ring
      rw [this]; exact q
    · refine refine_pos r3 _ h3 ?_ c hc
      have : area2 ⟨lerp t.c t.a (1 / 2), lerp t.b t.c (1 / 2), t.c⟩ = 1 / 4 * area2 t := by
        unfold area2 lerp; simp only; ring
      rw [this]; exact q
    · refine refine_pos r4 _ h4 ?_ c hc
      have : area2 ⟨lerp t.a t.b (1 / 2), lerp t.b t.c (1 / 2), lerp t.c t.a (1 / 2)⟩ = 1 / 4 * area2 t := by
        unfold area2 lerp; simp only; ring
      rw [this]; exact q


theorem kids_bounds : ∀ (ps : List Tri) (rs : List Ref) (k : Nat), ∀ x ∈ kidsFrom k ps rs,
    k ≤ x.1 ∧ x.1 < k + ps.length
  | [], _, _, x, hx => by simp [kidsFrom] at hx
  | _ :: _, [], _, x, hx => by simp [kidsFrom] at hx
  | p :: ps, r :: rs, k, x, hx => by
    simp only [kidsFrom, List.mem_append, List.mem_map] at hx
    rcases hx with ⟨c, _, rfl⟩ | hx
    · simp
    · have := kids_bounds ps rs (k + 1) x hx
      simp only [List.length_cons]; omega

theorem kids_pos : ∀ (ps : List Tri) (rs : List Ref) (k : Nat), (∀ p ∈ ps, 0 < area2 p) → (∀ r ∈ rs, r.Valid) →
    ∀ x ∈ kidsFrom k ps rs, 0 < area2 x.2
  | [], _, _, _, _, x, hx => by simp [kidsFrom] at hx
  | _ :: _, [], _, _, _, x, hx => by simp [kidsFrom] at hx
  | p :: ps, r :: rs, k, hp, hr, x, hx => by
    simp only [kidsFrom, List.mem_append, List.mem_map] at hx
    rcases hx with ⟨c, hc, rfl⟩ | hx
    · exact refine_pos r p (hr r List.mem_cons_self) (hp p List.mem_cons_self) c hc
    · exact kids_pos ps rs (k + 1) (fun q hq => hp q (List.mem_cons_of_mem _ hq))
        (fun q hq => hr q (List.mem_cons_of_mem _ hq)) x hx

/-- the children listed for parent `j` carry exactly the parent's area -/
theorem kids_sum (j : Nat) (c0 : Rat) : ∀ (ps : List Tri) (rs : List Ref) (k : Nat), rs.length = ps.length →
    sumL ((kidsFrom k ps rs).map fun x => if x.1 = j then area2 x.2 * c0 else 0) =
      if k ≤ j ∧ j < k + ps.length then area2 (triAt ps (j - k)) * c0 else 0
  | [], [], k, _ => by simp [kidsFrom, sumL]
  | [], _ :: _, _, h => by simp at h
  | _ :: _, [], _, h => by simp at h
  | p :: ps, r :: rs, k, h => by
    have hl : rs.length = ps.length := by simpa using h
    simp only [kidsFrom, List.map_append, List.map_map, sumL_append, kids_sum j c0 ps rs (k + 1) hl,
      Function.comp_def, List.length_cons]
    by_cases hk : k = j
    · subst hk
      simp only [if_true]
      rw [sumL_map_mul_right, refine_area r p, if_neg (by omega), if_pos (by omega)]
      simp [triAt]
    · simp only [if_neg hk, sumL_map_zero, zero_add]
      by_cases hc : k + 1 ≤ j ∧ j < k + 1 + ps.length
      · rw [if_pos hc, if_pos (by omega)]
        have : j - k = (j - (k + 1)) + 1 := by omega
        simp [triAt, this]
      · rw [if_neg hc, if_neg (by omega)]



/-- `match_2d` on a nested refinement, scaling "averaged": every row sums to one. -/
theorem match2d_nested_avg_rowsum_one (parents : List Tri) (recipes : List Ref)
    (hp : ∀ p ∈ parents, 0 < area2 p) (hr : ∀ r ∈ recipes, r.Valid)
    (i : Nat) (hi : i < (kidsFrom 0 parents recipes).length) :
    (match2dNested parents recipes .averaged).rowSum i = 1 := by
  have hmem : kidAt (kidsFrom 0 parents recipes) i ∈ kidsFrom 0 parents recipes := getD_mem _ _ i hi
  have hb := kids_bounds parents recipes 0 _ hmem
  have hpos := kids_pos parents recipes 0 hp hr _ hmem
  unfold Mat.rowSum match2dNested
  simp only [table_c]
  rw [sumTo_congr _ _ _ (fun j hj => ent_table _ _ _ i j hi hj),
    sumTo_single parents.length (kidAt (kidsFrom 0 parents recipes) i).1 (by omega) _
      (fun j _ hne => if_neg (fun h => hne h.symm))]
  simp only [if_true]
  exact div_self (ne_of_gt hpos)

/-- `match_2d` on a nested refinement, scaling "integrated": every column sums to one — the children
    of an old cell carry exactly its area (`refine_area`). -/
theorem match2d_nested_int_colsum_one (parents : List Tri) (recipes : List Ref)
    (hlen : recipes.length = parents.length) (hp : ∀ p ∈ parents, 0 < area2 p)
    (j : Nat) (hj : j < parents.length) :
    (match2dNested parents recipes .integrated).colSum j = 1 := by
  have hpj : 0 < area2 (triAt parents j) := hp _ (getD_mem parents _ j hj)
  unfold Mat.colSum match2dNested
  simp only [table_r]
  rw [sumTo_congr _ _ _ (fun i hi => ent_table _ _ _ i j hi hj)]
  simp only [div_eq_mul_inv]
  unfold kidAt
  rw [sumTo_getD (kidsFrom 0 parents recipes) _
      (fun x => if x.1 = j then area2 x.2 * (area2 (triAt parents j))⁻¹ else 0),
    kids_sum j _ parents recipes 0 hlen, if_pos (by omega)]
  simp only [Nat.sub_zero]
  exact mul_inv_cancel₀ (ne_of_gt hpj)

/-- the overlap weights themselves: row `i` has the single entry `area(new cell i)` in the column of
    its parent (before scaling), so rows sum to the new cell's area and columns to the old cell's -/
theorem match2d_nested_weights (parents : List Tri) (recipes : List Ref)
    (hlen : recipes.length = parents.length) (j : Nat) (hj : j < parents.length) :
    sumL ((kidsFrom 0 parents recipes).map fun x => if x.1 = j then area2 x.2 else 0) =
      area2 (triAt parents j) := by
  have := kids_sum j 1 parents recipes 0 hlen
  simp only [mul_one] at this
  rw [this, if_pos (by omega)]
  simp

/-! ### non-vacuity: concrete data satisfying the hypotheses -/
section nonvacuity
/-- two tessellations of [0,1]: cells listed right-to-left / left-to-right -/
def exNew : List Cell := [((1:Rat)/2, 1), (0, 1/4), (1/4, 1/2)]
def exOld : List Cell := [((0:Rat), 1/3), (1/3, 1)]

theorem exNew_tess : Tessellates exNew 0 [1/4, 1/2, 1] := by
  refine ⟨?_, ?_⟩
  · decide +kernel
  · simp only [StrictSorted]; norm_num
theorem exOld_tess : Tessellates exOld 0 [1/3, 1] := by
  refine ⟨List.Perm.refl _, ?_⟩
  simp only [StrictSorted]; norm_num

example : (match1d exNew exOld .averaged).rows = [[0, 1], [1, 0], [1/3, 2/3]] := by decide +kernel
example : (match1d exNew exOld .integrated).rows = [[0, 3/4], [3/4, 0], [1/4, 1/4]] := by decide +kernel
example : ∀ i, i < 3 → (match1d exNew exOld .averaged).rowSum i = 1 :=
  fun i hi => match1d_avg_rowsum_one exNew exOld 0 _ _ exNew_tess exOld_tess rfl i hi
example : ∀ j, j < 2 → (match1d exNew exOld .integrated).colSum j = 1 :=
  fun j hj => match1d_int_colsum_one exNew exOld 0 _ _ exNew_tess exOld_tess rfl j hj

/-- hypotheses of the composition theorems are satisfiable with a map that does not cover everything:
    `B` has an uncovered row/column (all zero) that `A` does not reach -/
def exA : Mat := table 2 3 fun i j => if j = 2 then 0 else if i = j then 1 else 0
def exB : Mat := table 3 2 fun i _ => if i = 2 then 0 else (1 : Rat) / 2
example : exA.rowSum 0 = 1 ∧ (∀ k, k < exA.c → exA.ent 0 k ≠ 0 → exB.rowSum k = 1) ∧ exB.rowSum 2 = 0
    ∧ (exA.mul exB).rowSum 0 = 1 := by decide +kernel
example : exA.T.colSum 1 = 1 ∧ (∀ k, k < exB.T.c → exA.T.ent k 1 ≠ 0 → exB.T.colSum k = 1)
    ∧ (exB.T.mul exA.T).colSum 1 = 1 := by decide +kernel

/-- a reachable history: matching side (faces 1,2 of 4; 2 secondary cells), mortar refined to three
    cells, then the secondary replaced by a non-matching two-cell grid -/
def exSide0 : Side := matchingSide 2 4 2 (· + 1) id
def exOld2 : List Cell := [((0:Rat), 1/2), (1/2, 1)]
theorem exOld2_tess : Tessellates exOld2 0 [1/2, 1] := by
  refine ⟨List.Perm.refl _, ?_⟩
  simp only [StrictSorted]; norm_num

def exCtx : Ctx := ⟨fun j => ∃ i, i < 2 ∧ i + 1 = j, 4, 2⟩

theorem exReach : Reachable ⟨exCtx.cov, 4, 2⟩
    ((exSide0.apply (.mortar (match1d exNew exOld2 .averaged) (match1d exNew exOld2 .integrated))).apply
      (.secondary (match1d exNew exOld .averaged) (match1d exNew exOld .integrated))) := by
  refine Reachable.step exCtx _ _ _ (Reachable.step exCtx exCtx _ _ (Reachable.init _ _ ?_) ?_) ?_
  · exact matching_init_sideInv 2 4 2 (· + 1) id (fun i hi => by omega) (fun i k _ _ h => by omega)
      (fun i hi => hi) (fun i k _ _ h => h) (fun j hj => ⟨j, hj, rfl⟩)
  · exact mortar_update_valid exCtx exSide0 exNew exOld2 0 _ _ exNew_tess exOld2_tess rfl rfl
  · exact secondary_update_valid exCtx _ exNew exOld 0 _ _ exNew_tess exOld_tess rfl rfl

/-- … and the stored matrices of a two-sided interface with these blocks on both sides -/
example : updateMortar (stackSides 4 2 [exSide0, exSide0])
    [match1d exNew exOld2 .averaged, Mat.identity 2] [match1d exNew exOld2 .integrated, Mat.identity 2]
    = stackSides 4 2 [exSide0.apply (.mortar (match1d exNew exOld2 .averaged) (match1d exNew exOld2 .integrated)),
                      exSide0.apply (.mortar (Mat.identity 2) (Mat.identity 2))] :=
  stack_update_mortar 4 2 [(exSide0, match1d exNew exOld2 .averaged, match1d exNew exOld2 .integrated),
    (exSide0, Mat.identity 2, Mat.identity 2)] (by
      intro x hx
      simp only [List.mem_cons, List.not_mem_nil, or_false] at hx
      rcases hx with rfl | rfl <;> exact ⟨⟨rfl, rfl, rfl, rfl, rfl, rfl, rfl⟩, rfl, rfl⟩)

example : ((stackSides 4 2 [exSide0, exSide0]).s2mInt.colSum 0 = 2) ∧ exSide0.sInt.colSum 0 = 1 := by decide +kernel
/-- `update_primary` data: faces 1,2 above / 4,5 below the fracture in the old host (6 faces), faces
    1 above / 6,7 below in the new host (8 faces); all hypotheses of `face_update_valid` hold. -/
def exP : Mat := table 4 6 fun i j => if [4, 5, 1, 2].getD i 9 = j then 1 else 0
def exOldF : List FaceRec := [⟨1, true, (0, 1)⟩, ⟨2, true, (1, 2)⟩, ⟨4, false, (0, 1)⟩, ⟨5, false, (1, 2)⟩]
def exNewF : List FaceRec := [⟨1, true, (0, 2)⟩, ⟨6, false, (0, 1/2)⟩, ⟨7, false, (1/2, 2)⟩]

example (s : Side) : ValidUpd ⟨fun f => ∃ r, r ∈ exOldF ∧ r.pos = false ∧ r.idx = f, 6, 2⟩ s
    ⟨fun g => ∃ r, r ∈ exNewF ∧ r.pos = false ∧ r.idx = g, 8, 2⟩
    (.primary (faceMatch exP 8 exOldF exNewF .averaged) (faceMatch exP 8 exOldF exNewF .integrated)) :=
  face_update_valid exP 8 2 s exOldF exNewF false (by decide +kernel) (by decide +kernel) (by decide +kernel)
    (by decide +kernel) (by decide +kernel) 0 [1, 2] [1/2, 2]
    ⟨List.Perm.refl _, by simp only [StrictSorted]; norm_num⟩
    ⟨List.Perm.refl _, by simp only [StrictSorted]; norm_num⟩ rfl

example : (faceMatch exP 8 exOldF exNewF .averaged).rows.getD 4 [] = [0, 0, 0, 0, 0, 0, 1/2, 1/2] ∧
    (faceMatch exP 8 exOldF exNewF .integrated).rows.getD 5 [] = [0, 0, 0, 0, 0, 0, 0, 2/3] := by
  decide +kernel

/-- the model's `update_mortar` step on a two-sided interface: first side refined, second side kept -/
example : (step ⟨stackSides 4 2 [exSide0, exSide0], [exOld2, exOld2], 2⟩ (.mortar [some exNew, none])).proj =
    stackSides 4 2 [exSide0.apply (.mortar (match1d exNew exOld2 .averaged) (match1d exNew exOld2 .integrated)),
                    exSide0.apply (.mortar (Mat.identity 2) (Mat.identity 2))] :=
  step_mortar_stack 4 2 [(exSide0, exOld2, some exNew), (exSide0, exOld2, none)] (by
    intro x hx
    simp only [List.mem_cons, List.not_mem_nil, or_false] at hx
    rcases hx with rfl | rfl <;> exact ⟨⟨rfl, rfl, rfl, rfl, rfl, rfl, rfl⟩, rfl⟩)

/-- constructor data of a two-sided interface: secondary cells 0,1; faces 1,2 (side 1) and 4,5 (side 2) of 6 -/
def exEntries : List Ent := [(0, 1, 1), (1, 2, 1), (0, 4, 1), (1, 5, 1)]
theorem exEntries_wf : WellFormedMap 6 2 exEntries :=
  ⟨by decide +kernel, by decide +kernel, by decide +kernel, by decide +kernel, by decide +kernel⟩
example : (initBase 2 4 6 2 exEntries none).isSome = true := by decide +kernel
example : (initBase 2 4 6 2 exEntries (some [1, 2])).isSome = true := by decide +kernel
/-- a cell listed once only is rejected (`ValueError`) -/
example : initBase 2 3 6 2 [(0, 1, 1), (1, 2, 1), (0, 4, 1)] none = none := by decide +kernel

/-- a reachable two-sided interface: start, first side refined (second kept), secondary replaced -/
def exM : List (CSide × Mat × Mat) :=
  [((exSide0, exCtx.cov), match1d exNew exOld2 .averaged, match1d exNew exOld2 .integrated),
   ((exSide0, exCtx.cov), Mat.identity 2, Mat.identity 2)]

theorem exSide0_inv : SideInv exCtx.cov 4 2 exSide0 :=
  matching_init_sideInv 2 4 2 (· + 1) id (fun i hi => by omega) (fun i k _ _ h => by omega)
    (fun i hi => hi) (fun i k _ _ h => h) (fun j hj => ⟨j, hj, rfl⟩)

example : ∃ L pr, IReach 4 2 L pr ∧ L.length = 2 :=
  ⟨_, _, IReach.mortar 4 2 _ exM (IReach.start 4 2 _ (by
      intro x hx
      simp only [exM, List.map_cons, List.map_nil, List.mem_cons, List.not_mem_nil, or_false] at hx
      rcases hx with rfl | rfl <;> exact exSide0_inv)) (by
      intro x hx
      simp only [exM, List.mem_cons, List.not_mem_nil, or_false] at hx
      rcases hx with rfl | rfl
      · exact mortar_update_valid exCtx exSide0 exNew exOld2 0 _ _ exNew_tess exOld2_tess rfl rfl
      · exact identity_update_valid exCtx exSide0), rfl⟩

/-- nested refinement of the unit square cut into two triangles: a bisection followed by a relabelled
    leaf, and a regular refinement with an interior node in its middle child -/
def exParents : List Tri := [⟨(0, 0), (1, 0), (1, 1)⟩, ⟨(0, 0), (1, 1), (0, 1)⟩]
def exRecipes : List Ref :=
  [.edge (1 / 4) .leaf (.rot .leaf), .red .leaf .leaf .leaf (.centre (1 / 4) (1 / 2) .leaf .leaf .leaf)]

theorem exRecipes_valid : ∀ r ∈ exRecipes, r.Valid := by
  intro r hr
  simp only [exRecipes, List.mem_cons, List.not_mem_nil, or_false] at hr
  rcases hr with rfl | rfl <;> simp only [Ref.Valid] <;> norm_num

theorem exParents_pos : ∀ p ∈ exParents, 0 < area2 p := by
  intro p hp
  simp only [exParents, List.mem_cons, List.not_mem_nil, or_false] at hp
  rcases hp with rfl | rfl <;> simp only [area2] <;> norm_num

example : (kidsFrom 0 exParents exRecipes).length = 8 := by decide +kernel
example : ∀ i, i < 8 → (match2dNested exParents exRecipes .averaged).rowSum i = 1 :=
  fun i hi => match2d_nested_avg_rowsum_one exParents exRecipes exParents_pos exRecipes_valid i hi
example : ∀ j, j < 2 → (match2dNested exParents exRecipes .integrated).colSum j = 1 :=
  fun j hj => match2d_nested_int_colsum_one exParents exRecipes rfl exParents_pos j hj
example : ((match2dNested exParents exRecipes .integrated).rows.map fun r => r.getD 1 0) =
    [0, 0, 1/4, 1/4, 1/4, 1/16, 1/16, 1/8] := by decide +kernel

end nonvacuity


/-! ### hypotheses as decidable input conditions; vector-valued variants -/

/-- a `true` of the driver's check gives the hypotheses of the `match_1d` theorems -/
theorem tessPair_sound (n o : List Cell) (h : tessPair n o = true) :
    ∃ a xs ys, Tessellates n a xs ∧ Tessellates o a ys ∧ lastOr a xs = lastOr a ys := by
  simp only [tessPair, Bool.and_eq_true, Bool.not_eq_true', decide_eq_true_eq, isTess] at h
  obtain ⟨⟨⟨⟨hn, ho⟩, hne⟩, hoe⟩, hseg⟩ := h
  have pn := sortCells_perm n
  have po := sortCells_perm o
  unfold segOf at hseg
  cases hsn : sortCells n with
  | nil => rw [hsn] at pn; have := pn.symm.eq_nil; subst this; simp at hne
  | cons c t =>
    cases hso : sortCells o with
    | nil => rw [hso] at po; have := po.symm.eq_nil; subst this; simp at hoe
    | cons d u =>
      rw [hsn] at hn pn hseg
      rw [hso] at ho po hseg
      simp only [Prod.mk.injEq] at hseg
      obtain ⟨e1, s1⟩ := chainOK_sound t c hn
      obtain ⟨e2, s2⟩ := chainOK_sound u d ho
      refine ⟨c.1, (c :: t).map (·.2), (d :: u).map (·.2), ⟨?_, s1⟩, ⟨?_, ?_⟩, ?_⟩
      · rw [← e1]; exact pn.symm
      · rw [hseg.1, ← e2]; exact po.symm
      · rw [hseg.1]; exact s2
      · rw [lastOr_map_hi, lastOr_map_hi]; exact hseg.2

theorem wellFormedB_sound (nPrim nSec : Nat) (entries : List Ent) (h : wellFormedB nPrim nSec entries = true) :
    WellFormedMap nPrim nSec entries := by
  simp only [wellFormedB, Bool.and_eq_true, List.all_eq_true, decide_eq_true_eq, List.mem_range,
    List.any_eq_true] at h
  obtain ⟨⟨⟨⟨h1, h2⟩, h3⟩, h4⟩, h5⟩ := h
  exact ⟨h1, h2, h3, h4, fun c hc => h5 c hc⟩

/-- `update_mortar` with checked input: the driver's `tessPair` flag is all that is needed -/
theorem mortar_update_valid_checked (c : Ctx) (s : Side) (newC oldC : List Cell)
    (h : tessPair newC oldC = true) (hn : oldC.length = s.pInt.r) :
    ValidUpd c s c (.mortar (match1d newC oldC .averaged) (match1d newC oldC .integrated)) := by
  obtain ⟨a, xs, ys, h1, h2, h3⟩ := tessPair_sound newC oldC h
  exact mortar_update_valid c s newC oldC a xs ys h1 h2 h3 hn

theorem secondary_update_valid_checked (c : Ctx) (s : Side) (sideC cells : List Cell)
    (h : tessPair sideC cells = true) (hn : sideC.length = s.pInt.r) :
    ValidUpd c s ⟨c.cov, c.nP, cells.length⟩
      (.secondary (match1d sideC cells .averaged) (match1d sideC cells .integrated)) := by
  obtain ⟨a, xs, ys, h1, h2, h3⟩ := tessPair_sound sideC cells h
  exact secondary_update_valid c s sideC cells a xs ys h1 h2 h3 hn

example : tessPair exNew exOld = true ∧ tessPair exNew [((0:Rat), 1/2)] = false := by decide +kernel
example : wellFormedB 6 2 exEntries = true ∧ wellFormedB 6 3 exEntries = false := by decide +kernel

theorem face_update_valid_checked (P : Mat) (nNew nS : Nat) (s : Side) (old new : List FaceRec) (b : Bool)
    (h : faceHypsB P nNew old new b = true) :
    ValidUpd ⟨fun f => ∃ r, r ∈ old ∧ r.pos = b ∧ r.idx = f, P.c, nS⟩ s
      ⟨fun g => ∃ r, r ∈ new ∧ r.pos = b ∧ r.idx = g, nNew, nS⟩
      (.primary (faceMatch P nNew old new .averaged) (faceMatch P nNew old new .integrated)) := by
  simp only [faceHypsB, Bool.and_eq_true, List.all_eq_true, decide_eq_true_eq] at h
  obtain ⟨⟨⟨⟨⟨h1, h2⟩, h3⟩, h4⟩, h5⟩, h6⟩ := h
  obtain ⟨a, xs, ys, t1, t2, t3⟩ := tessPair_sound _ _ h6
  exact face_update_valid P nNew nS s old new b h1 h2 h3 h4 h5 a xs ys t1 t2 t3

example : faceHypsB exP 8 exOldF exNewF false = true ∧ faceHypsB exP 8 exOldF exNewF true = true := by decide +kernel

/-- the vector-valued variants (`nd > 1`) have the row sums of the scalar projection … -/
theorem kron_rowSum (A : Mat) (nd i : Nat) (hi : i < A.r * nd) :
    (A.kron nd).rowSum i = A.rowSum (i / nd) := by
  unfold Mat.rowSum
  show sumTo (A.c * nd) _ = _
  rw [sumTo_mul_blocks]
  exact sumTo_congr _ _ _ (fun j hj => kron_block A nd i j hi hj)


theorem kron_T (A : Mat) (nd : Nat) : (A.kron nd).T = A.T.kron nd := by
  show table (A.c * nd) (A.r * nd) _ = table (A.c * nd) (A.r * nd) _
  apply table_congr
  intro i j hi hj
  unfold Mat.kron
  rw [ent_table _ _ _ j i hj hi]
  have h1 : i / nd < A.c := Nat.div_lt_of_lt_mul (by rw [Nat.mul_comm]; exact hi)
  have h2 : j / nd < A.r := Nat.div_lt_of_lt_mul (by rw [Nat.mul_comm]; exact hj)
  rw [ent_T A _ _ h1 h2]
  by_cases h : i % nd = j % nd
  · rw [if_pos h, if_pos h.symm]
  · rw [if_neg h, if_neg (fun e => h e.symm)]

/-- … and its column sums -/
theorem kron_colSum (A : Mat) (nd j : Nat) (hj : j < A.c * nd) :
    (A.kron nd).colSum j = A.colSum (j / nd) := by
  have h1 : j / nd < A.c := Nat.div_lt_of_lt_mul (by rw [Nat.mul_comm]; exact hj)
  rw [← rowSum_T (A.kron nd) j hj, kron_T, kron_rowSum A.T nd j hj, rowSum_T A _ h1]

example : ((exA.kron 2).rowSum 1 = 1) ∧ (exA.kron 2).r = 4 := by decide +kernel

end PorepyVerif.C26
