/-
C26 — helper lemmas (finite sums, entries of tabulated matrices, row / column sums of products,
1-D overlap algebra).  Property theorems are in Props.lean.
-/
import PorepyVerif.C26.Model
import Mathlib.Tactic.Linarith
import Mathlib.Tactic.Ring

namespace PorepyVerif.C26

/-! ### finite sums -/

theorem sumTo_congr (n : Nat) (f g : Nat → Rat) (h : ∀ i, i < n → f i = g i) :
    sumTo n f = sumTo n g := by
  induction n with
  | zero => rfl
  | succ n ih =>
    simp only [sumTo]
    rw [ih (fun i hi => h i (Nat.lt_succ_of_lt hi)), h n (Nat.lt_succ_self n)]

theorem sumTo_zero (n : Nat) : sumTo n (fun _ => 0) = 0 := by
  induction n with
  | zero => rfl
  | succ n ih => simp only [sumTo, ih]; ring

theorem sumTo_eq_zero (n : Nat) (f : Nat → Rat) (h : ∀ i, i < n → f i = 0) : sumTo n f = 0 := by
  rw [sumTo_congr n f (fun _ => 0) h, sumTo_zero]

theorem sumTo_add (n : Nat) (f g : Nat → Rat) :
    sumTo n (fun i => f i + g i) = sumTo n f + sumTo n g := by
  induction n with
  | zero => simp [sumTo]
  | succ n ih => simp only [sumTo, ih]; ring

theorem sumTo_mul_left (n : Nat) (a : Rat) (f : Nat → Rat) :
    sumTo n (fun i => a * f i) = a * sumTo n f := by
  induction n with
  | zero => simp [sumTo]
  | succ n ih => simp only [sumTo, ih]; ring

theorem sumTo_mul_right (n : Nat) (a : Rat) (f : Nat → Rat) :
    sumTo n (fun i => f i * a) = sumTo n f * a := by
  induction n with
  | zero => simp [sumTo]
  | succ n ih => simp only [sumTo, ih]; ring

theorem sumTo_comm (n m : Nat) (f : Nat → Nat → Rat) :
    sumTo n (fun i => sumTo m (fun j => f i j)) = sumTo m (fun j => sumTo n (fun i => f i j)) := by
  induction n with
  | zero => simp [sumTo, sumTo_zero]
  | succ n ih => simp only [sumTo, ih, sumTo_add]

theorem sumTo_nonneg (n : Nat) (f : Nat → Rat) (h : ∀ i, i < n → 0 ≤ f i) : 0 ≤ sumTo n f := by
  induction n with
  | zero => simp [sumTo]
  | succ n ih =>
    simp only [sumTo]
    have := ih (fun i hi => h i (Nat.lt_succ_of_lt hi))
    have := h n (Nat.lt_succ_self n)
    linarith

/-- a sum with a single non-zero term -/
theorem sumTo_single (n k : Nat) (hk : k < n) (f : Nat → Rat) (h : ∀ i, i < n → i ≠ k → f i = 0) :
    sumTo n f = f k := by
  induction n with
  | zero => omega
  | succ n ih =>
    simp only [sumTo]
    by_cases hkn : k = n
    · subst hkn
      rw [sumTo_eq_zero k f (fun i hi => h i (Nat.lt_succ_of_lt hi) (by omega))]; ring
    · rw [ih (by omega) (fun i hi hne => h i (Nat.lt_succ_of_lt hi) hne), h n (Nat.lt_succ_self n) (by omega)]
      ring

theorem sumTo_split (n m : Nat) (f : Nat → Rat) :
    sumTo (n + m) f = sumTo n f + sumTo m (fun i => f (n + i)) := by
  induction m with
  | zero => simp [sumTo]
  | succ m ih =>
    rw [← Nat.add_assoc]
    simp only [sumTo, ih]; ring

/-- first term peeled off -/
theorem sumTo_succ_front (n : Nat) (f : Nat → Rat) :
    sumTo (n + 1) f = f 0 + sumTo n (fun i => f (i + 1)) := by
  induction n with
  | zero => simp [sumTo]
  | succ n ih =>
    rw [sumTo, ih]
    simp only [sumTo]; ring

/-! ### entries of tabulated matrices -/

theorem ent_table (r c : Nat) (f : Nat → Nat → Rat) (i j : Nat) (hi : i < r) (hj : j < c) :
    (table r c f).ent i j = f i j := by
  simp [table, Mat.ent, List.getD_eq_getElem?_getD, hi, hj]

theorem ent_table_row_oob (r c : Nat) (f : Nat → Nat → Rat) (i j : Nat) (hi : r ≤ i) :
    (table r c f).ent i j = 0 := by
  simp [table, Mat.ent, List.getD_eq_getElem?_getD, hi]

theorem ent_table_col_oob (r c : Nat) (f : Nat → Nat → Rat) (i j : Nat) (hj : c ≤ j) :
    (table r c f).ent i j = 0 := by
  by_cases hi : i < r
  · simp [table, Mat.ent, List.getD_eq_getElem?_getD, hi, hj]
  · simp [table, Mat.ent, List.getD_eq_getElem?_getD, Nat.le_of_not_lt hi]

@[simp] theorem table_r (r c : Nat) (f : Nat → Nat → Rat) : (table r c f).r = r := rfl
@[simp] theorem table_c (r c : Nat) (f : Nat → Nat → Rat) : (table r c f).c = c := rfl

theorem table_congr (r c : Nat) (f g : Nat → Nat → Rat) (h : ∀ i j, i < r → j < c → f i j = g i j) :
    table r c f = table r c g := by
  unfold table
  congr 1
  apply List.map_congr_left
  intro i hi
  apply List.map_congr_left
  intro j hj
  exact h i j (List.mem_range.mp hi) (List.mem_range.mp hj)


/-! ### products, transposes -/

@[simp] theorem mul_r (A B : Mat) : (A.mul B).r = A.r := rfl
@[simp] theorem mul_c (A B : Mat) : (A.mul B).c = B.c := rfl
@[simp] theorem T_r (A : Mat) : A.T.r = A.c := rfl
@[simp] theorem T_c (A : Mat) : A.T.c = A.r := rfl

theorem ent_mul (A B : Mat) (i j : Nat) (hi : i < A.r) (hj : j < B.c) :
    (A.mul B).ent i j = sumTo A.c (fun k => A.ent i k * B.ent k j) := ent_table _ _ _ i j hi hj

theorem ent_T (A : Mat) (i j : Nat) (hi : i < A.c) (hj : j < A.r) : A.T.ent i j = A.ent j i :=
  ent_table _ _ _ i j hi hj

/-- row sums of a product: `rowsum(AB)_i = Σ_k A_ik · rowsum(B)_k` -/
theorem rowSum_mul (A B : Mat) (i : Nat) (hi : i < A.r) :
    (A.mul B).rowSum i = sumTo A.c (fun k => A.ent i k * B.rowSum k) := by
  unfold Mat.rowSum
  rw [mul_c, sumTo_congr B.c _ _ (fun j hj => ent_mul A B i j hi hj), sumTo_comm]
  apply sumTo_congr
  intro k _
  rw [sumTo_mul_left]

/-- column sums of a product: `colsum(AB)_j = Σ_k colsum(A)_k · B_kj` -/
theorem colSum_mul (A B : Mat) (j : Nat) (hj : j < B.c) :
    (A.mul B).colSum j = sumTo A.c (fun k => A.colSum k * B.ent k j) := by
  unfold Mat.colSum
  rw [mul_r, sumTo_congr A.r _ _ (fun i hi => ent_mul A B i j hi hj), sumTo_comm]
  apply sumTo_congr
  intro k _
  rw [sumTo_mul_right]

theorem rowSum_T (A : Mat) (i : Nat) (hi : i < A.c) : A.T.rowSum i = A.colSum i := by
  unfold Mat.rowSum Mat.colSum
  rw [T_c]
  exact sumTo_congr _ _ _ (fun j hj => ent_T A i j hi hj)

theorem colSum_T (A : Mat) (j : Nat) (hj : j < A.r) : A.T.colSum j = A.rowSum j := by
  unfold Mat.rowSum Mat.colSum
  rw [T_r]
  exact sumTo_congr _ _ _ (fun i hi => ent_T A i j hi hj)

/-! ### 1-D overlaps -/

theorem rmax_comm (a b : Rat) : rmax a b = rmax b a := by
  unfold rmax; split_ifs <;> linarith

theorem rmin_comm (a b : Rat) : rmin a b = rmin b a := by
  unfold rmin; split_ifs <;> linarith

theorem ovl_comm (p q : Cell) : ovl p q = ovl q p := by
  unfold ovl; rw [rmin_comm p.2 q.2, rmax_comm p.1 q.1]

theorem ovl_nonneg (p q : Cell) : 0 ≤ ovl p q := by
  unfold ovl rmax; split_ifs <;> linarith

/-- the overlap with two adjacent intervals adds up to the overlap with their union -/
theorem ovl_add (p : Cell) (a b c : Rat) (hp : p.1 ≤ p.2) (hab : a ≤ b) (hbc : b ≤ c) :
    ovl p (a, b) + ovl p (b, c) = ovl p (a, c) := by
  unfold ovl rmax rmin
  simp only
  split_ifs <;> linarith

theorem ovl_degenerate (p : Cell) (a : Rat) (hp : p.1 ≤ p.2) : ovl p (a, a) = 0 := by
  unfold ovl rmax rmin
  simp only
  split_ifs <;> linarith

/-- a cell inside `[a, c]` overlaps it with its full length -/
theorem ovl_inside (p : Cell) (a c : Rat) (hp : p.1 ≤ p.2) (ha : a ≤ p.1) (hc : p.2 ≤ c) :
    ovl p (a, c) = len p := by
  unfold ovl rmax rmin len
  simp only
  split_ifs <;> linarith


/-! ### sums over a tessellation -/

def sumL : List Rat → Rat
  | [] => 0
  | a :: l => a + sumL l

theorem sumL_perm {l₁ l₂ : List Rat} (h : l₁.Perm l₂) : sumL l₁ = sumL l₂ := by
  induction h with
  | nil => rfl
  | cons a _ ih => simp only [sumL, ih]
  | swap a b l => simp only [sumL]; ring
  | trans _ _ ih₁ ih₂ => rw [ih₁, ih₂]

theorem sumTo_getD {α : Type} (l : List α) (d : α) (g : α → Rat) :
    sumTo l.length (fun j => g (l.getD j d)) = sumL (l.map g) := by
  induction l with
  | nil => rfl
  | cons a l ih =>
    rw [List.length_cons, sumTo_succ_front]
    simp only [List.getD_cons_zero, List.getD_cons_succ, List.map_cons, sumL, ih]

theorem strictSorted_tail {a : Rat} {xs : List Rat} (h : StrictSorted (a :: xs)) : StrictSorted xs := by
  cases xs with
  | nil => trivial
  | cons b t => exact h.2

theorem le_lastOr : ∀ (xs : List Rat) (a : Rat), StrictSorted (a :: xs) → a ≤ lastOr a xs
  | [], a, _ => by simp [lastOr]
  | b :: t, a, h => by
    have h1 : a < b := h.1
    have h2 := le_lastOr t b h.2
    simp only [lastOr]; linarith

/-- the overlaps of `p` with the cells of a chain add up to the overlap with the whole segment -/
theorem chain_sum (p : Cell) (hp : p.1 ≤ p.2) : ∀ (xs : List Rat) (a : Rat), StrictSorted (a :: xs) →
    sumL ((chainCells (a :: xs)).map (ovl p)) = ovl p (a, lastOr a xs)
  | [], a, _ => by simp [chainCells, sumL, lastOr, ovl_degenerate p a hp]
  | b :: t, a, h => by
    have ih := chain_sum p hp t b h.2
    have h1 : a < b := h.1
    have h2 := le_lastOr t b h.2
    simp only [chainCells, List.map_cons, sumL, lastOr, ih]
    exact ovl_add p a b (lastOr b t) hp (le_of_lt h1) h2

/-- every cell of a chain lies inside the segment and has positive length -/
theorem chain_mem_bounds : ∀ (xs : List Rat) (a : Rat), StrictSorted (a :: xs) →
    ∀ q ∈ chainCells (a :: xs), a ≤ q.1 ∧ q.1 < q.2 ∧ q.2 ≤ lastOr a xs
  | [], a, _, q, hq => by simp [chainCells] at hq
  | b :: t, a, h, q, hq => by
    have h1 : a < b := h.1
    have h2 := le_lastOr t b h.2
    simp only [chainCells, List.mem_cons] at hq
    rcases hq with rfl | hq
    · exact ⟨le_refl _, h1, h2⟩
    · have := chain_mem_bounds t b h.2 q hq
      simp only [lastOr]
      exact ⟨by linarith [this.1], this.2.1, this.2.2⟩

theorem cellAt_mem (l : List Cell) (i : Nat) (hi : i < l.length) : cellAt l i ∈ l := by
  unfold cellAt
  rw [List.getD_eq_getElem?_getD, List.getElem?_eq_getElem hi]
  exact List.getElem_mem hi

/-- Σ_j overlap(p, old_j) = |p| for a cell `p` inside the segment tessellated by `old` -/
theorem tess_sum (oldC : List Cell) (a : Rat) (ys : List Rat) (hold : Tessellates oldC a ys)
    (p : Cell) (hp : p.1 ≤ p.2) (ha : a ≤ p.1) (hb : p.2 ≤ lastOr a ys) :
    sumTo oldC.length (fun j => ovl p (cellAt oldC j)) = len p := by
  unfold cellAt
  rw [sumTo_getD oldC (0, 0) (ovl p), sumL_perm (hold.1.map (ovl p)), chain_sum p hp ys a hold.2,
    ovl_inside p a _ hp ha hb]


/-! ### blocks: the per-side structure -/

theorem ent_table' (r c : Nat) (f : Nat → Nat → Rat) (i j : Nat) :
    (table r c f).ent i j = if i < r ∧ j < c then f i j else 0 := by
  by_cases hi : i < r
  · by_cases hj : j < c
    · rw [ent_table r c f i j hi hj, if_pos ⟨hi, hj⟩]
    · rw [ent_table_col_oob r c f i j (Nat.le_of_not_lt hj), if_neg (fun h => hj h.2)]
  · rw [ent_table_row_oob r c f i j (Nat.le_of_not_lt hi), if_neg (fun h => hi h.1)]

@[simp] theorem vcat_r (A B : Mat) : (A.vcat B).r = A.r + B.r := rfl
@[simp] theorem vcat_c (A B : Mat) : (A.vcat B).c = A.c := rfl
@[simp] theorem diag2_r (A B : Mat) : (A.diag2 B).r = A.r + B.r := rfl
@[simp] theorem diag2_c (A B : Mat) : (A.diag2 B).c = A.c + B.c := rfl

/-- block-diagonal times stacked = stacked products: the sides do not mix (`update_mortar`) -/
theorem diag2_mul_vcat (A B S T : Mat) (h1 : A.c = S.r) (h2 : B.c = T.r) (h3 : S.c = T.c) :
    (A.diag2 B).mul (S.vcat T) = (A.mul S).vcat (B.mul T) := by
  show table (A.r + B.r) S.c _ = table (A.r + B.r) S.c _
  apply table_congr
  intro i j hi hj
  simp only [diag2_c]
  rw [sumTo_split]
  by_cases hiA : i < A.r
  · rw [if_pos (show i < (A.mul S).r from hiA), ent_mul A S i j hiA hj]
    have e2 : sumTo B.c (fun k => (A.diag2 B).ent i (A.c + k) * (S.vcat T).ent (A.c + k) j) = 0 := by
      apply sumTo_eq_zero
      intro k hk
      have : (A.diag2 B).ent i (A.c + k) = 0 := by
        unfold Mat.diag2
        rw [ent_table _ _ _ i (A.c + k) hi (by omega), if_pos hiA, if_neg (by omega)]
      rw [this]; ring
    rw [e2, add_zero]
    apply sumTo_congr
    intro k hk
    have e3 : (A.diag2 B).ent i k = A.ent i k := by
      unfold Mat.diag2
      rw [ent_table _ _ _ i k hi (by omega), if_pos hiA, if_pos hk]
    have e4 : (S.vcat T).ent k j = S.ent k j := by
      unfold Mat.vcat
      rw [ent_table _ _ _ k j (by omega) hj, if_pos (by omega)]
    rw [e3, e4]
  · rw [if_neg (show ¬ i < (A.mul S).r from hiA), show i - (A.mul S).r = i - A.r from rfl, ent_mul B T (i - A.r) j (by omega) (by omega)]
    have e1 : sumTo A.c (fun k => (A.diag2 B).ent i k * (S.vcat T).ent k j) = 0 := by
      apply sumTo_eq_zero
      intro k hk
      have : (A.diag2 B).ent i k = 0 := by
        unfold Mat.diag2
        rw [ent_table _ _ _ i k hi (by omega), if_neg hiA, if_pos hk]
      rw [this]; ring
    rw [e1, zero_add]
    apply sumTo_congr
    intro k hk
    have e3 : (A.diag2 B).ent i (A.c + k) = B.ent (i - A.r) k := by
      unfold Mat.diag2
      rw [ent_table _ _ _ i (A.c + k) hi (by omega), if_neg hiA, if_neg (by omega)]
      congr 1; omega
    have e4 : (S.vcat T).ent (A.c + k) j = T.ent k j := by
      unfold Mat.vcat
      rw [ent_table _ _ _ (A.c + k) j (by omega) hj, if_neg (by omega)]
      congr 1; omega
    rw [e3, e4]

/-- stacked times a matrix = stacked products (`update_primary`) -/
theorem vcat_mul (P Q S : Mat) (hc : P.c = Q.c) : (P.vcat Q).mul S = (P.mul S).vcat (Q.mul S) := by
  show table (P.r + Q.r) S.c _ = table (P.r + Q.r) S.c _
  apply table_congr
  intro i j hi hj
  simp only [vcat_c]
  by_cases hiP : i < P.r
  · rw [if_pos (show i < (P.mul S).r from hiP), ent_mul P S i j hiP hj]
    apply sumTo_congr
    intro k hk
    have : (P.vcat Q).ent i k = P.ent i k := by
      unfold Mat.vcat
      rw [ent_table _ _ _ i k hi hk, if_pos hiP]
    rw [this]
  · rw [if_neg (show ¬ i < (P.mul S).r from hiP), show i - (P.mul S).r = i - P.r from rfl, ent_mul Q S (i - P.r) j (by omega) hj, ← hc]
    apply sumTo_congr
    intro k hk
    have : (P.vcat Q).ent i k = Q.ent (i - P.r) k := by
      unfold Mat.vcat
      rw [ent_table _ _ _ i k hi hk, if_neg hiP]
    rw [this]



theorem vstack_c (c : Nat) : ∀ (Ps : List Mat), (∀ P ∈ Ps, P.c = c) → (vstack c Ps).c = c
  | [], _ => rfl
  | P :: _, h => by simp only [vstack, vcat_c]; exact h P (List.mem_cons_self)

def sumNat : List Nat → Nat
  | [] => 0
  | a :: l => a + sumNat l

theorem vstack_r (c : Nat) : ∀ (Ps : List Mat), (vstack c Ps).r = sumNat (Ps.map (·.r))
  | [] => rfl
  | P :: Ps => by simp only [vstack, vcat_r, List.map_cons, sumNat, vstack_r c Ps]

theorem blockDiag_c : ∀ (Ms : List Mat), (blockDiag Ms).c = sumNat (Ms.map (·.c))
  | [] => rfl
  | M :: Ms => by simp only [blockDiag, diag2_c, List.map_cons, sumNat, blockDiag_c Ms]

/-- `blockDiag` of the per-side matrices times the stack of per-side blocks is the stack of the
    per-side products -/
theorem blockDiag_mul_vstack (c : Nat) : ∀ (l : List (Mat × Mat)),
    (∀ x ∈ l, x.1.c = x.2.r ∧ x.2.c = c) →
    (blockDiag (l.map (·.1))).mul (vstack c (l.map (·.2))) = vstack c (l.map fun x => x.1.mul x.2)
  | [], _ => by
    show table 0 c _ = table 0 c _
    apply table_congr
    intro i j hi _
    omega
  | x :: l, h => by
    have hx := h x (List.mem_cons_self)
    have hl : ∀ y ∈ l, y.1.c = y.2.r ∧ y.2.c = c := fun y hy => h y (List.mem_cons_of_mem _ hy)
    have ih := blockDiag_mul_vstack c l hl
    simp only [List.map_cons, blockDiag, vstack]
    rw [diag2_mul_vcat _ _ _ _ hx.1 ?_ ?_, ih]
    · rw [blockDiag_c, vstack_r]
      have : ∀ (l : List (Mat × Mat)), (∀ y ∈ l, y.1.c = y.2.r ∧ y.2.c = c) →
          sumNat ((l.map (·.1)).map (·.c)) = sumNat ((l.map (·.2)).map (·.r)) := by
        intro l
        induction l with
        | nil => intro _; rfl
        | cons y l ih =>
          intro h
          simp only [List.map_cons, sumNat]
          rw [(h y (List.mem_cons_self)).1, ih (fun z hz => h z (List.mem_cons_of_mem _ hz))]
      exact this l hl
    · rw [hx.2, vstack_c c _ (by
        intro P hP
        rcases List.mem_map.mp hP with ⟨y, hy, rfl⟩
        exact (hl y hy).2)]

theorem vstack_mul (c : Nat) (S : Mat) : ∀ (Ps : List Mat), (∀ P ∈ Ps, P.c = c) →
    (vstack c Ps).mul S = vstack S.c (Ps.map (·.mul S))
  | [], _ => by
    show table 0 S.c _ = table 0 S.c _
    apply table_congr
    intro i j hi _
    omega
  | P :: Ps, h => by
    have hP := h P (List.mem_cons_self)
    have hl : ∀ Q ∈ Ps, Q.c = c := fun Q hQ => h Q (List.mem_cons_of_mem _ hQ)
    simp only [vstack, List.map_cons]
    rw [vcat_mul _ _ _ (by rw [hP, vstack_c c Ps hl]), vstack_mul c S Ps hl]



theorem bd_aux {α : Type} (c : Nat) (l : List α) (f g : α → Mat)
    (h : ∀ x ∈ l, (f x).c = (g x).r ∧ (g x).c = c) :
    (blockDiag (l.map f)).mul (vstack c (l.map g)) = vstack c (l.map fun x => (f x).mul (g x)) := by
  have := blockDiag_mul_vstack c (l.map fun x => (f x, g x)) (by
    intro y hy
    rcases List.mem_map.mp hy with ⟨x, hx, rfl⟩
    exact h x hx)
  simpa [List.map_map, Function.comp_def] using this

theorem vs_aux {α : Type} (c : Nat) (S : Mat) (l : List α) (g : α → Mat) (h : ∀ x ∈ l, (g x).c = c) :
    (vstack c (l.map g)).mul S = vstack S.c (l.map fun x => (g x).mul S) := by
  have := vstack_mul c S (l.map g) (by
    intro P hP
    rcases List.mem_map.mp hP with ⟨x, hx, rfl⟩
    exact h x hx)
  simpa [List.map_map, Function.comp_def] using this


theorem ent_mul' (A B : Mat) (i j : Nat) :
    (A.mul B).ent i j = if i < A.r ∧ j < B.c then sumTo A.c (fun k => A.ent i k * B.ent k j) else 0 :=
  ent_table' _ _ _ i j

theorem ent_mul_zero (A B : Mat) (i j : Nat) (h : ∀ k, k < A.c → A.ent i k = 0 ∨ B.ent k j = 0) :
    (A.mul B).ent i j = 0 := by
  rw [ent_mul']
  split
  · apply sumTo_eq_zero
    intro k hk
    rcases h k hk with h0 | h0 <;> rw [h0] <;> ring
  · rfl


theorem match1d_r (n o : List Cell) (s : Scaling) : (match1d n o s).r = n.length := by cases s <;> rfl
theorem match1d_c (n o : List Cell) (s : Scaling) : (match1d n o s).c = o.length := by cases s <;> rfl

theorem identity_rowSum (n i : Nat) (hi : i < n) : (Mat.identity n).rowSum i = 1 := by
  unfold Mat.rowSum Mat.identity
  simp only [table_c]
  rw [sumTo_congr _ _ _ (fun j hj => ent_table _ _ _ i j hi hj),
    sumTo_single n i hi _ (fun j _ hne => if_neg (fun h => hne h.symm))]
  simp

theorem identity_colSum (n j : Nat) (hj : j < n) : (Mat.identity n).colSum j = 1 := by
  unfold Mat.colSum Mat.identity
  simp only [table_r]
  rw [sumTo_congr _ _ _ (fun i hi => ent_table _ _ _ i j hi hj),
    sumTo_single n j hj _ (fun i _ hne => if_neg hne)]
  simp



/-! ### scattering a face-to-face matrix into the full face numbering (`update_primary`) -/

/-- indicator -/
def ind (p : Prop) [Decidable p] : Rat := if p then 1 else 0

@[simp] theorem selMat_r (idx : List Nat) (n : Nat) : (selMat idx n).r = idx.length := rfl
@[simp] theorem selMat_c (idx : List Nat) (n : Nat) : (selMat idx n).c = n := rfl

theorem selMat_ent (idx : List Nat) (n a g : Nat) (ha : a < idx.length) (hg : g < n) :
    (selMat idx n).ent a g = ind (idx.getD a n = g) := ent_table _ _ _ a g ha hg

/-- entries of `face_map_old.T * M * face_map_new` -/
theorem scatter_ent (oi ni : List Nat) (nOld nNew : Nat) (M : Mat) (hMc : M.c = ni.length)
    (f g : Nat) (hf : f < nOld) (hg : g < nNew) :
    (((selMat oi nOld).T.mul M).mul (selMat ni nNew)).ent f g =
      sumTo ni.length (fun b => sumTo oi.length (fun a => ind (oi.getD a nOld = f) * M.ent a b)
        * ind (ni.getD b nNew = g)) := by
  rw [ent_mul _ _ f g (by simpa using hf) (by simpa using hg)]
  simp only [mul_c, hMc]
  apply sumTo_congr
  intro b hb
  rw [selMat_ent ni nNew b g hb hg, ent_mul _ _ f b (by simpa using hf) (by rw [hMc]; exact hb)]
  congr 1
  simp only [T_c]
  apply sumTo_congr
  intro a ha
  have ha' : a < oi.length := by simpa using ha
  rw [ent_T _ f a (by simpa using hf) (by simpa using ha'), selMat_ent oi nOld a f ha' hf]


theorem sum_ind_eq (n k : Nat) (hk : k < n) : sumTo n (fun g => ind (k = g)) = 1 := by
  rw [sumTo_single n k hk _ (fun g _ hne => by unfold ind; exact if_neg (fun h => hne h.symm))]
  simp [ind]

/-- `Σ_a [idx a = f] · v a = v a₀` when `idx a₀ = f` and `idx` is injective on the range -/
theorem sum_ind_select (n : Nat) (idx : Nat → Nat) (f a0 : Nat) (v : Nat → Rat) (h0 : a0 < n) (e0 : idx a0 = f)
    (hinj : ∀ a, a < n → idx a = idx a0 → a = a0) :
    sumTo n (fun a => ind (idx a = f) * v a) = v a0 := by
  rw [sumTo_single n a0 h0 _ (fun a ha hne => by
    have : ¬ idx a = f := fun h => hne (hinj a ha (h.trans e0.symm))
    simp [ind, this])]
  simp [ind, e0]

theorem sum_ind_none (n : Nat) (idx : Nat → Nat) (f : Nat) (v : Nat → Rat) (h : ∀ a, a < n → idx a ≠ f) :
    sumTo n (fun a => ind (idx a = f) * v a) = 0 := by
  apply sumTo_eq_zero
  intro a ha
  simp [ind, h a ha]

theorem scatter_rowSum (oi ni : List Nat) (nOld nNew : Nat) (M : Mat) (hMc : M.c = ni.length)
    (hni : ∀ b, b < ni.length → ni.getD b nNew < nNew) (f : Nat) (hf : f < nOld) :
    (((selMat oi nOld).T.mul M).mul (selMat ni nNew)).rowSum f =
      sumTo oi.length (fun a => ind (oi.getD a nOld = f) * M.rowSum a) := by
  unfold Mat.rowSum
  simp only [mul_c, selMat_c]
  rw [sumTo_congr nNew _ _ (fun g hg => scatter_ent oi ni nOld nNew M hMc f g hf hg), sumTo_comm]
  rw [sumTo_congr ni.length _ (fun b => sumTo oi.length (fun a => ind (oi.getD a nOld = f) * M.ent a b)) (by
    intro b hb
    rw [sumTo_mul_left, sum_ind_eq nNew _ (hni b hb), mul_one])]
  rw [sumTo_comm, hMc]
  apply sumTo_congr
  intro a _
  rw [sumTo_mul_left]

theorem scatter_colSum (oi ni : List Nat) (nOld nNew : Nat) (M : Mat) (hMc : M.c = ni.length) (hMr : M.r = oi.length)
    (hoi : ∀ a, a < oi.length → oi.getD a nOld < nOld) (g : Nat) (hg : g < nNew) :
    (((selMat oi nOld).T.mul M).mul (selMat ni nNew)).colSum g =
      sumTo ni.length (fun b => ind (ni.getD b nNew = g) * M.colSum b) := by
  unfold Mat.colSum
  simp only [mul_r, T_r, selMat_c]
  rw [sumTo_congr nOld _ _ (fun f hf => scatter_ent oi ni nOld nNew M hMc f g hf hg), sumTo_comm]
  apply sumTo_congr
  intro b _
  rw [sumTo_mul_right, mul_comm]
  congr 1
  rw [sumTo_comm, hMr]
  apply sumTo_congr
  intro a ha
  rw [sumTo_mul_right, sum_ind_eq nOld _ (hoi a ha), one_mul]

theorem scatter_ent_zero_left (oi ni : List Nat) (nOld nNew : Nat) (M : Mat) (hMc : M.c = ni.length)
    (f g : Nat) (h : ∀ a, a < oi.length → oi.getD a nOld ≠ f) :
    (((selMat oi nOld).T.mul M).mul (selMat ni nNew)).ent f g = 0 := by
  by_cases hf : f < nOld
  · by_cases hg : g < nNew
    · rw [scatter_ent oi ni nOld nNew M hMc f g hf hg]
      apply sumTo_eq_zero
      intro b _
      rw [sum_ind_none _ _ _ _ h, zero_mul]
    · exact ent_table_col_oob _ _ _ f g (Nat.le_of_not_lt hg)
  · exact ent_table_row_oob _ _ _ f g (Nat.le_of_not_lt hf)

theorem scatter_ent_zero_right (oi ni : List Nat) (nOld nNew : Nat) (M : Mat) (hMc : M.c = ni.length)
    (f g : Nat) (h : ∀ b, b < ni.length → ni.getD b nNew ≠ g) :
    (((selMat oi nOld).T.mul M).mul (selMat ni nNew)).ent f g = 0 := by
  by_cases hf : f < nOld
  · by_cases hg : g < nNew
    · rw [scatter_ent oi ni nOld nNew M hMc f g hf hg]
      apply sumTo_eq_zero
      intro b hb
      have : ind (ni.getD b nNew = g) = 0 := by unfold ind; exact if_neg (h b hb)
      rw [this, mul_zero]
    · exact ent_table_col_oob _ _ _ f g (Nat.le_of_not_lt hg)
  · exact ent_table_row_oob _ _ _ f g (Nat.le_of_not_lt hf)

@[simp] theorem add_r (A B : Mat) : (A.add B).r = A.r := rfl
@[simp] theorem add_c (A B : Mat) : (A.add B).c = A.c := rfl

theorem ent_add (A B : Mat) (i j : Nat) (hi : i < A.r) (hj : j < A.c) :
    (A.add B).ent i j = A.ent i j + B.ent i j := ent_table _ _ _ i j hi hj

theorem rowSum_add (A B : Mat) (i : Nat) (hi : i < A.r) (hc : B.c = A.c) :
    (A.add B).rowSum i = A.rowSum i + B.rowSum i := by
  unfold Mat.rowSum
  rw [add_c, hc, ← sumTo_add]
  exact sumTo_congr _ _ _ (fun j hj => ent_add A B i j hi hj)

theorem colSum_add (A B : Mat) (j : Nat) (hj : j < A.c) (hr : B.r = A.r) :
    (A.add B).colSum j = A.colSum j + B.colSum j := by
  unfold Mat.colSum
  rw [add_r, hr, ← sumTo_add]
  exact sumTo_congr _ _ _ (fun i hi => ent_add A B i j hi hj)

theorem ent_add_zero (A B : Mat) (i j : Nat) (hA : A.ent i j = 0) (hB : B.ent i j = 0) :
    (A.add B).ent i j = 0 := by
  unfold Mat.add
  rw [ent_table']
  split
  · rw [hA, hB]; ring
  · rfl



theorem chain_length : ∀ (xs : List Rat) (a : Rat), (chainCells (a :: xs)).length = xs.length
  | [], _ => rfl
  | b :: t, a => by simp only [chainCells, List.length_cons, chain_length t b]

theorem tess_length {cells : List Cell} {a : Rat} {xs : List Rat} (h : Tessellates cells a xs) :
    cells.length = xs.length := by rw [h.1.length_eq, chain_length]

theorem lt_lastOr (a y : Rat) (t : List Rat) (h : StrictSorted (a :: y :: t)) : a < lastOr a (y :: t) := by
  have h1 : a < y := h.1
  have h2 := le_lastOr t y h.2
  simp only [lastOr]; linarith

/-- two tessellations of the same segment are empty together -/
theorem tess_empty_iff {o n : List Cell} {a : Rat} {xs ys : List Rat} (ho : Tessellates o a xs)
    (hn : Tessellates n a ys) (hend : lastOr a xs = lastOr a ys) : o = [] ↔ n = [] := by
  have lo := tess_length ho
  have ln := tess_length hn
  constructor
  · intro h
    cases ys with
    | nil => exact List.eq_nil_of_length_eq_zero (by rw [ln]; rfl)
    | cons y t =>
      have hx : xs = [] := List.eq_nil_of_length_eq_zero (by rw [← lo, h]; rfl)
      subst hx
      have := lt_lastOr a y t hn.2
      rw [← hend] at this
      simp [lastOr] at this
  · intro h
    cases xs with
    | nil => exact List.eq_nil_of_length_eq_zero (by rw [lo]; rfl)
    | cons x t =>
      have hy : ys = [] := List.eq_nil_of_length_eq_zero (by rw [← ln, h]; rfl)
      subst hy
      have := lt_lastOr a x t ho.2
      rw [hend] at this
      simp [lastOr] at this

theorem getD_ne_of_not_mem (l : List Nat) (d f : Nat) (h : f ∉ l) : ∀ a, a < l.length → l.getD a d ≠ f := by
  intro a ha e
  apply h
  rw [← e, List.getD_eq_getElem?_getD, List.getElem?_eq_getElem ha]
  exact List.getElem_mem ha

theorem exists_getD_of_mem (l : List Nat) (d f : Nat) (h : f ∈ l) : ∃ a, a < l.length ∧ l.getD a d = f := by
  obtain ⟨a, ha, e⟩ := List.getElem_of_mem h
  exact ⟨a, ha, by rw [List.getD_eq_getElem?_getD, List.getElem?_eq_getElem ha]; exact e⟩

theorem getD_inj_of_nodup (l : List Nat) (d : Nat) (h : l.Nodup) (a a0 : Nat) (ha : a < l.length) (h0 : a0 < l.length)
    (e : l.getD a d = l.getD a0 d) : a = a0 := (List.getD_inj ha h0 h).mp e

theorem getD_lt_of_forall (l : List Nat) (d n : Nat) (h : ∀ x ∈ l, x < n) (a : Nat) (ha : a < l.length) :
    l.getD a d < n := by
  rw [List.getD_eq_getElem?_getD, List.getElem?_eq_getElem ha]
  exact h _ (List.getElem_mem ha)


theorem sideOrZero_r (nOld nNew : Nat) (o n : List FaceRec) (s : Scaling) : (sideOrZero nOld nNew o n s).r = nOld := by
  unfold sideOrZero; split <;> rfl
theorem sideOrZero_c (nOld nNew : Nat) (o n : List FaceRec) (s : Scaling) : (sideOrZero nOld nNew o n s).c = nNew := by
  unfold sideOrZero; split <;> rfl

/-- entries of one side's matrix vanish outside (its old faces) × (its new faces) -/
theorem sideOrZero_ent_zero (nOld nNew : Nat) (o n : List FaceRec) (s : Scaling) (f g : Nat)
    (h : f ∉ o.map (·.idx) ∨ g ∉ n.map (·.idx)) : (sideOrZero nOld nNew o n s).ent f g = 0 := by
  unfold sideOrZero
  split
  · rw [ent_table']; split <;> rfl
  · unfold sideFaceMatch
    have hMc : (match1d (o.map (·.cell)) (n.map (·.cell)) s).c = (n.map (·.idx)).length := by
      rw [match1d_c]; simp
    rcases h with h | h
    · exact scatter_ent_zero_left _ _ _ _ _ hMc f g (getD_ne_of_not_mem _ _ f h)
    · exact scatter_ent_zero_right _ _ _ _ _ hMc f g (getD_ne_of_not_mem _ _ g h)


theorem rowSum_zero_of_ent (A : Mat) (f : Nat) (h : ∀ g, A.ent f g = 0) : A.rowSum f = 0 :=
  sumTo_eq_zero _ _ (fun g _ => h g)

theorem colSum_zero_of_ent (A : Mat) (g : Nat) (h : ∀ f, A.ent f g = 0) : A.colSum g = 0 :=
  sumTo_eq_zero _ _ (fun f _ => h f)

theorem mem_side_idx (l : List FaceRec) (b : Bool) (f : Nat) :
    f ∈ (l.filter (·.pos == b)).map (·.idx) ↔ ∃ r, r ∈ l ∧ r.pos = b ∧ r.idx = f := by
  simp only [List.mem_map, List.mem_filter, beq_iff_eq]
  constructor
  · rintro ⟨r, ⟨hr, hp⟩, e⟩; exact ⟨r, hr, hp, e⟩
  · rintro ⟨r, hr, hp, e⟩; exact ⟨r, ⟨hr, hp⟩, e⟩

theorem inj_of_nodup_idx : ∀ (l : List FaceRec), (l.map (·.idx)).Nodup →
    ∀ r, r ∈ l → ∀ r', r' ∈ l → r.idx = r'.idx → r = r'
  | [], _, r, hr, _, _, _ => by cases hr
  | x :: l, h, r, hr, r', hr', e => by
    simp only [List.map_cons, List.nodup_cons] at h
    rcases List.mem_cons.mp hr with h1 | h1
    · rcases List.mem_cons.mp hr' with h2 | h2
      · rw [h1, h2]
      · exact absurd (show x.idx ∈ l.map (·.idx) from List.mem_map.mpr ⟨r', h2, by rw [← e, h1]⟩) h.1
    · rcases List.mem_cons.mp hr' with h2 | h2
      · exact absurd (show x.idx ∈ l.map (·.idx) from List.mem_map.mpr ⟨r, h1, by rw [e, h2]⟩) h.1
      · exact inj_of_nodup_idx l h.2 r h1 r' h2 e

theorem not_mem_other_side (l : List FaceRec) (hN : (l.map (·.idx)).Nodup) (b : Bool) (f : Nat)
    (h : f ∈ (l.filter (·.pos == b)).map (·.idx)) : f ∉ (l.filter (·.pos == !b)).map (·.idx) := by
  intro h'
  obtain ⟨r, hr, hp, e⟩ := (mem_side_idx l b f).mp h
  obtain ⟨r', hr', hp', e'⟩ := (mem_side_idx l (!b) f).mp h'
  have := inj_of_nodup_idx l hN r hr r' hr' (e.trans e'.symm)
  subst this
  rw [hp] at hp'
  cases b <;> simp at hp'


theorem nodup_side_idx (l : List FaceRec) (hN : (l.map (·.idx)).Nodup) (b : Bool) :
    ((l.filter (·.pos == b)).map (·.idx)).Nodup :=
  List.Nodup.sublist (List.Sublist.map _ List.filter_sublist) hN


theorem mortarBlocks_map (s : Scaling) : ∀ (l : List (Side × List Cell × Option (List Cell))),
    mortarBlocks s (l.map (·.2.1)) (l.map (·.2.2)) = l.map fun x => blockOf s x.2.1 x.2.2
  | [] => rfl
  | (_, _, some _) :: l => by simp only [List.map_cons, mortarBlocks, blockOf, mortarBlocks_map s l]
  | (_, _, none) :: l => by simp only [List.map_cons, mortarBlocks, blockOf, mortarBlocks_map s l]

theorem blockOf_c (s : Scaling) (g : List Cell) (o : Option (List Cell)) : (blockOf s g o).c = g.length := by
  cases o with
  | none => rfl
  | some n => exact match1d_c n g s

theorem faceMatch_c (P : Mat) (nNew : Nat) (old new : List FaceRec) (s : Scaling) :
    (faceMatch P nNew old new s).c = nNew := by
  unfold faceMatch
  simp only [add_c, sideOrZero_c]



/-! ### `_init_projections`: sorting, side order -/


theorem insertBySec_perm (t : Ent) : ∀ l : List Ent, (insertBySec t l).Perm (t :: l)
  | [] => List.Perm.refl _
  | a :: l => by
    unfold insertBySec
    split
    · exact List.Perm.refl _
    · exact ((insertBySec_perm t l).cons a).trans (List.Perm.swap t a l)

theorem sortBySec_perm : ∀ l : List Ent, (sortBySec l).Perm l
  | [] => List.Perm.refl _
  | t :: l => (insertBySec_perm t (sortBySec l)).trans ((sortBySec_perm l).cons t)

theorem evens_odds_perm {α : Type} : ∀ l : List α, (evens l ++ odds l).Perm l
  | [] => List.Perm.refl _
  | [a] => List.Perm.refl _
  | a :: b :: l => by
    simp only [evens, odds, List.cons_append]
    exact (List.perm_middle.cons a).trans (((evens_odds_perm l).cons b).cons a)

theorem filter_split_perm {α : Type} (p : α → Bool) : ∀ l : List α,
    (l.filter (fun t => !p t) ++ l.filter p).Perm l
  | [] => List.Perm.refl _
  | a :: l => by
    cases h : p a
    · simp only [List.filter_cons, h, Bool.not_false, if_true, List.cons_append]
      simpa using (filter_split_perm p l).cons a
    · simp only [List.filter_cons, h, Bool.not_true]
      simpa using List.perm_middle.trans ((filter_split_perm p l).cons a)

/-- sorted by the secondary index -/
def SortedSec : List Ent → Prop
  | a :: b :: t => a.1 ≤ b.1 ∧ SortedSec (b :: t)
  | _ => True

theorem sortedSec_tail {a : Ent} {l : List Ent} (h : SortedSec (a :: l)) : SortedSec l := by
  cases l with
  | nil => trivial
  | cons b t => exact h.2

theorem insertBySec_sorted (t : Ent) : ∀ l : List Ent, SortedSec l → SortedSec (insertBySec t l)
  | [], _ => trivial
  | a :: l, h => by
    unfold insertBySec
    split
    · rename_i hle; exact ⟨hle, h⟩
    · rename_i hle
      have hat : a.1 ≤ t.1 := by omega
      have ih := insertBySec_sorted t l (sortedSec_tail h)
      cases l with
      | nil => exact ⟨hat, trivial⟩
      | cons b l' =>
        unfold insertBySec at ih ⊢
        split
        · exact ⟨hat, by rename_i h2; exact ⟨h2, h.2⟩⟩
        · rename_i h2
          rw [if_neg h2] at ih
          exact ⟨h.1, ih⟩

theorem sortBySec_sorted : ∀ l : List Ent, SortedSec (sortBySec l)
  | [] => trivial
  | t :: l => insertBySec_sorted t _ (sortBySec_sorted l)


/-- `[a, a, a+1, a+1, …]` (`k` pairs) -/
def dblFrom : Nat → Nat → List Nat
  | _, 0 => []
  | a, k + 1 => a :: a :: dblFrom (a + 1) k

def SortedN : List Nat → Prop
  | a :: b :: t => a ≤ b ∧ SortedN (b :: t)
  | _ => True

theorem sortedN_tail {a : Nat} {l : List Nat} (h : SortedN (a :: l)) : SortedN l := by
  cases l with
  | nil => trivial
  | cons b t => exact h.2

theorem sortedN_head_le : ∀ (l : List Nat) (a : Nat), SortedN (a :: l) → ∀ x ∈ l, a ≤ x
  | [], _, _, x, hx => by cases hx
  | b :: t, a, h, x, hx => by
    rcases List.mem_cons.mp hx with rfl | hx
    · exact h.1
    · exact Nat.le_trans h.1 (sortedN_head_le t b h.2 x hx)

theorem dbl_char : ∀ (k a : Nat) (ks : List Nat), SortedN ks → (∀ x ∈ ks, a ≤ x ∧ x < a + k) →
    (∀ c, a ≤ c → c < a + k → ks.count c = 2) → ks = dblFrom a k
  | 0, a, ks, _, hb, _ => by
    cases ks with
    | nil => rfl
    | cons x t => have := hb x (List.mem_cons_self); omega
  | k + 1, a, ks, hs, hb, hc => by
    have hca := hc a (Nat.le_refl a) (by omega)
    cases ks with
    | nil => simp at hca
    | cons x ks' =>
      have hx : x = a := by
        have hxa := (hb x (List.mem_cons_self)).1
        by_cases e : x = a
        · exact e
        · have : a ∈ ks' := by
            have : 0 < (x :: ks').count a := by omega
            rcases List.mem_cons.mp (List.count_pos_iff.mp this) with h | h
            · exact absurd h.symm e
            · exact h
          have := sortedN_head_le ks' x hs a this
          omega
      subst hx
      have hca' : ks'.count x = 1 := by simpa [List.count_cons] using hca
      cases ks' with
      | nil => simp at hca'
      | cons y ks'' =>
        have hy : y = x := by
          have hyx := (hb y (List.mem_cons_of_mem _ List.mem_cons_self)).1
          by_cases e : y = x
          · exact e
          · have : x ∈ ks'' := by
              have : 0 < (y :: ks'').count x := by omega
              rcases List.mem_cons.mp (List.count_pos_iff.mp this) with h | h
              · exact absurd h.symm e
              · exact h
            have := sortedN_head_le ks'' y (sortedN_tail hs) x this
            omega
        subst hy
        have hc0 : ks''.count y = 0 := by simpa [List.count_cons] using hca'
        have hnot : y ∉ ks'' := List.count_eq_zero.mp hc0
        simp only [dblFrom]
        congr 2
        apply dbl_char k (y + 1) ks'' (sortedN_tail (sortedN_tail hs))
        · intro z hz
          have hb' := hb z (List.mem_cons_of_mem _ (List.mem_cons_of_mem _ hz))
          have : z ≠ y := fun e => hnot (e ▸ hz)
          omega
        · intro c h1 h2
          have := hc c (by omega) (by omega)
          have hne : ¬ y = c := by omega
          simpa [List.count_cons, hne] using this

theorem evens_dblFrom : ∀ (k a : Nat), evens (dblFrom a k) = List.range' a k
  | 0, _ => rfl
  | k + 1, a => by simp only [dblFrom, evens, evens_dblFrom k (a + 1), List.range'_succ]

theorem odds_dblFrom : ∀ (k a : Nat), odds (dblFrom a k) = List.range' a k
  | 0, _ => rfl
  | k + 1, a => by simp only [dblFrom, odds, odds_dblFrom k (a + 1), List.range'_succ]

theorem evens_map {α β : Type} (f : α → β) : ∀ l : List α, (evens l).map f = evens (l.map f)
  | [] => rfl
  | [_] => rfl
  | a :: b :: l => by simp only [evens, List.map_cons, evens_map f l]

theorem odds_map {α β : Type} (f : α → β) : ∀ l : List α, (odds l).map f = odds (l.map f)
  | [] => rfl
  | [_] => rfl
  | a :: b :: l => by simp only [odds, List.map_cons, odds_map f l]



theorem sortedSec_keys : ∀ l : List Ent, SortedSec l → SortedN (l.map (·.1))
  | [], _ => trivial
  | [_], _ => trivial
  | _ :: b :: t, h => ⟨h.1, sortedSec_keys (b :: t) h.2⟩

theorem countSec_eq_count (c : Nat) : ∀ l : List Ent, countSec c l = (l.map (·.1)).count c
  | [] => rfl
  | t :: l => by
    have ih := countSec_eq_count c l
    unfold countSec at ih ⊢
    by_cases h : t.1 = c
    · simp [h, ih]
    · simp [h, ih]

theorem countSec_perm (c : Nat) {l l' : List Ent} (h : l.Perm l') : countSec c l = countSec c l' := by
  unfold countSec
  exact (h.filter _).length_eq

theorem foldl_max_facts : ∀ (l : List Ent) (m : Nat),
    m ≤ l.foldl (fun m t => if m < t.1 then t.1 else m) m ∧
    (∀ t ∈ l, t.1 ≤ l.foldl (fun m t => if m < t.1 then t.1 else m) m) ∧
    (l.foldl (fun m t => if m < t.1 then t.1 else m) m = m ∨
      ∃ t ∈ l, t.1 = l.foldl (fun m t => if m < t.1 then t.1 else m) m)
  | [], m => by
    refine ⟨Nat.le_refl m, ?_, Or.inl rfl⟩
    intro t ht; cases ht
  | a :: l, m => by
    simp only [List.foldl_cons]
    by_cases hm : m < a.1
    · simp only [if_pos hm]
      obtain ⟨h1, h2, h3⟩ := foldl_max_facts l a.1
      refine ⟨by omega, ?_, ?_⟩
      · intro t ht
        rcases List.mem_cons.mp ht with rfl | ht
        · exact h1
        · exact h2 t ht
      · rcases h3 with h3 | ⟨t, ht, e⟩
        · right; exact ⟨a, List.mem_cons_self, h3.symm⟩
        · right; exact ⟨t, List.mem_cons_of_mem _ ht, e⟩
    · simp only [if_neg hm]
      obtain ⟨h1, h2, h3⟩ := foldl_max_facts l m
      refine ⟨h1, ?_, ?_⟩
      · intro t ht
        rcases List.mem_cons.mp ht with rfl | ht
        · omega
        · exact h2 t ht
      · rcases h3 with h3 | ⟨t, ht, e⟩
        · left; exact h3
        · right; exact ⟨t, List.mem_cons_of_mem _ ht, e⟩

theorem le_maxSecOf (l : List Ent) : ∀ t ∈ l, t.1 ≤ maxSecOf l := (foldl_max_facts l 0).2.1

theorem maxSecOf_attained (l : List Ent) : maxSecOf l = 0 ∨ ∃ t ∈ l, t.1 = maxSecOf l := (foldl_max_facts l 0).2.2



theorem initBase_inv (nsides numCells nPrim nSec : Nat) (entries : List Ent) (dup : Option (List Nat)) (P S : Mat)
    (h : initBase nsides numCells nPrim nSec entries dup = some (P, S)) :
    countsOk nsides (dupOrder nsides entries dup) = true ∧
    (sideOrder nsides (sortBySec (dupOrder nsides entries dup))).length = numCells ∧
    P = pTable numCells nPrim (sideOrder nsides (sortBySec (dupOrder nsides entries dup))) ∧
    S = sTable numCells nSec (sideOrder nsides (sortBySec (dupOrder nsides entries dup))) := by
  unfold initBase at h
  simp only [] at h
  split at h
  · cases h
  · rename_i h1
    split at h
    · cases h
    · rename_i h2
      simp only [Option.some.injEq, Prod.mk.injEq] at h
      refine ⟨by simpa using h1, by simpa using h2, h.1.symm, h.2.symm⟩

theorem dupOrder_perm (nsides : Nat) (entries : List Ent) (dup : Option (List Nat)) :
    (dupOrder nsides entries dup).Perm entries := by
  unfold dupOrder
  cases dup with
  | none => exact List.Perm.refl _
  | some d =>
    simp only
    split
    · exact filter_split_perm _ entries
    · exact List.Perm.refl _

theorem sideOrder_perm (nsides : Nat) (l : List Ent) : (sideOrder nsides l).Perm l := by
  unfold sideOrder
  split
  · exact evens_odds_perm l
  · exact List.Perm.refl _

theorem ordered_perm (nsides : Nat) (entries : List Ent) (dup : Option (List Nat)) :
    (sideOrder nsides (sortBySec (dupOrder nsides entries dup))).Perm entries :=
  (sideOrder_perm _ _).trans ((sortBySec_perm _).trans (dupOrder_perm _ _ _))

theorem getD_mem {α : Type} (l : List α) (d : α) (i : Nat) (hi : i < l.length) : l.getD i d ∈ l := by
  rw [List.getD_eq_getElem?_getD, List.getElem?_eq_getElem hi]
  exact List.getElem_mem hi

theorem ent_vcat (A B : Mat) (i j : Nat) (hi : i < A.r + B.r) (hj : j < A.c) :
    (A.vcat B).ent i j = if i < A.r then A.ent i j else B.ent (i - A.r) j := ent_table _ _ _ i j hi hj

theorem two_block_table (n c : Nat) (f : Nat → Nat → Rat) :
    table (n + n) c f =
      (table n c f).vcat ((table n c fun i j => f (n + i) j).vcat (table 0 c fun _ _ => 0)) := by
  show table (n + n) c f = table (n + (n + 0)) c _
  apply table_congr
  intro i j hi hj
  by_cases h : i < n
  · rw [if_pos (show i < (table n c f).r from h), ent_table _ _ _ i j h hj]
  · rw [if_neg (show ¬ i < (table n c f).r from h), show i - (table n c f).r = i - n from rfl,
      ent_vcat _ _ (i - n) j (show i - n < n + 0 by omega) hj,
      if_pos (show i - n < (table n c fun i j => f (n + i) j).r by show i - n < n; omega),
      ent_table _ _ _ (i - n) j (by omega) hj]
    congr 1; omega


/-- keys of the sorted two-sided listing are `0,0,1,1,…` -/
theorem sorted_keys_two (nSec : Nat) (e1 : List Ent) (hsec : ∀ t ∈ e1, t.1 < nSec)
    (hall : ∀ c, c < nSec → ∃ t ∈ e1, t.1 = c) (hok : countsOk 2 e1 = true) :
    (sortBySec e1).map (·.1) = dblFrom 0 nSec := by
  have hcnt : ∀ c, c < maxSecOf e1 + 1 → countSec c e1 = 2 := by
    intro c hc
    have := hok
    unfold countsOk at this
    simp only [decide_true, Bool.not_true, Bool.false_or, List.all_eq_true, List.mem_range,
      decide_eq_true_eq] at this
    exact this c hc
  have hne : ∃ t, t ∈ e1 := by
    have h0 := hcnt 0 (by omega)
    unfold countSec at h0
    cases hf : e1.filter (fun t => t.1 = 0) with
    | nil => rw [hf] at h0; simp at h0
    | cons t _ =>
      have : t ∈ e1.filter (fun t => t.1 = 0) := by rw [hf]; exact List.mem_cons_self
      exact ⟨t, (List.mem_filter.mp this).1⟩
  have hm : maxSecOf e1 + 1 = nSec := by
    obtain ⟨t0, ht0⟩ := hne
    have hpos : 0 < nSec := by have := hsec t0 ht0; omega
    have h1 : maxSecOf e1 < nSec := by
      rcases maxSecOf_attained e1 with h | ⟨t, ht, e⟩
      · omega
      · rw [← e]; exact hsec t ht
    obtain ⟨t, ht, e⟩ := hall (nSec - 1) (by omega)
    have := le_maxSecOf e1 t ht
    omega
  apply dbl_char nSec 0 _ (sortedSec_keys _ (sortBySec_sorted e1))
  · intro x hx
    obtain ⟨t, ht, rfl⟩ := List.mem_map.mp hx
    have := hsec t ((sortBySec_perm e1).mem_iff.mp ht)
    omega
  · intro c _ hc
    rw [← countSec_eq_count, countSec_perm c (sortBySec_perm e1)]
    exact hcnt c (by omega)


theorem getD_fst_of_map (l : List Ent) (d : Ent) (ks : List Nat) (h : l.map (·.1) = ks) (i : Nat) (hi : i < l.length) :
    (l.getD i d).1 = ks.getD i 0 := by
  subst h
  simp [List.getD_eq_getElem?_getD, hi]

theorem getD_range' (a n i : Nat) (hi : i < n) : (List.range' a n).getD i 0 = a + i := by
  simp [List.getD_eq_getElem?_getD, hi]

theorem getD_append_left' {α : Type} (l l' : List α) (d : α) (n : Nat) (h : n < l.length) :
    (l ++ l').getD n d = l.getD n d := by
  rw [List.getD_eq_getElem?_getD, List.getD_eq_getElem?_getD, List.getElem?_append_left h]

theorem getD_append_right' {α : Type} (l l' : List α) (d : α) (n : Nat) (h : l.length ≤ n) :
    (l ++ l').getD n d = l'.getD (n - l.length) d := by
  rw [List.getD_eq_getElem?_getD, List.getD_eq_getElem?_getD, List.getElem?_append_right h]

theorem side_keys (sorted : List Ent) (nSec : Nat) (d : Ent) (hk : sorted.map (·.1) = dblFrom 0 nSec) :
    (evens sorted).length = nSec ∧ (odds sorted).length = nSec ∧
    (∀ i, i < nSec → ((evens sorted ++ odds sorted).getD i d).1 = i) ∧
    (∀ i, i < nSec → ((evens sorted ++ odds sorted).getD (nSec + i) d).1 = i) := by
  have he : (evens sorted).map (·.1) = List.range' 0 nSec := by rw [evens_map, hk, evens_dblFrom]
  have ho : (odds sorted).map (·.1) = List.range' 0 nSec := by rw [odds_map, hk, odds_dblFrom]
  have le : (evens sorted).length = nSec := by simpa using congrArg List.length he
  have lo : (odds sorted).length = nSec := by simpa using congrArg List.length ho
  refine ⟨le, lo, ?_, ?_⟩
  · intro i hi
    rw [getD_append_left' _ _ _ _ (by omega), getD_fst_of_map _ d _ he i (by omega), getD_range' 0 nSec i hi]
    omega
  · intro i hi
    rw [getD_append_right' _ _ _ _ (by omega), le, Nat.add_sub_cancel_left,
      getD_fst_of_map _ d _ ho i (by omega), getD_range' 0 nSec i hi]
    omega


theorem getD_inj_of_prim_nodup (l : List Ent) (d : Ent) (h : (l.map (·.2.1)).Nodup) (i k : Nat)
    (hi : i < l.length) (hk : k < l.length) (e : (l.getD i d).2.1 = (l.getD k d).2.1) : i = k := by
  have e' : (l.map (·.2.1)).getD i 0 = (l.map (·.2.1)).getD k 0 := by
    simpa [List.getD_eq_getElem?_getD, hi, hk] using e
  exact (List.getD_inj (by simpa using hi) (by simpa using hk) h).mp e'

theorem getD_inj_of_sec_nodup (l : List Ent) (d : Ent) (h : (l.map (·.1)).Nodup) (i k : Nat)
    (hi : i < l.length) (hk : k < l.length) (e : (l.getD i d).1 = (l.getD k d).1) : i = k := by
  have e' : (l.map (·.1)).getD i 0 = (l.map (·.1)).getD k 0 := by
    simpa [List.getD_eq_getElem?_getD, hi, hk] using e
  exact (List.getD_inj (by simpa using hi) (by simpa using hk) h).mp e'

theorem exists_getD_of_mem' {α : Type} (l : List α) (d x : α) (h : x ∈ l) : ∃ a, a < l.length ∧ l.getD a d = x := by
  obtain ⟨a, ha, e⟩ := List.getElem_of_mem h
  exact ⟨a, ha, by rw [List.getD_eq_getElem?_getD, List.getElem?_eq_getElem ha]; exact e⟩

theorem one_block_table (n c : Nat) (f : Nat → Nat → Rat) :
    table n c f = (table n c f).vcat (table 0 c fun _ _ => 0) := by
  show table n c f = table (n + 0) c _
  apply table_congr
  intro i j hi hj
  rw [if_pos (show i < (table n c f).r from hi), ent_table _ _ _ i j hi hj]


theorem sumL_append (l₁ l₂ : List Rat) : sumL (l₁ ++ l₂) = sumL l₁ + sumL l₂ := by
  induction l₁ with
  | nil => simp [sumL]
  | cons a l ih => simp only [List.cons_append, sumL, ih]; ring

theorem sumL_map_mul_right {α : Type} (l : List α) (f : α → Rat) (c : Rat) :
    sumL (l.map fun x => f x * c) = sumL (l.map f) * c := by
  induction l with
  | nil => simp [sumL]
  | cons a l ih => simp only [List.map_cons, sumL, ih]; ring

theorem sumL_map_zero {α : Type} (l : List α) : sumL (l.map fun _ => (0 : Rat)) = 0 := by
  induction l with
  | nil => rfl
  | cons a l ih => simp only [List.map_cons, sumL, ih]; ring


theorem insertCell_perm (c : Cell) : ∀ l : List Cell, (insertCell c l).Perm (c :: l)
  | [] => List.Perm.refl _
  | a :: l => by
    unfold insertCell
    split
    · exact List.Perm.refl _
    · exact ((insertCell_perm c l).cons a).trans (List.Perm.swap c a l)

theorem sortCells_perm : ∀ l : List Cell, (sortCells l).Perm l
  | [] => List.Perm.refl _
  | c :: l => (insertCell_perm c (sortCells l)).trans ((sortCells_perm l).cons c)

theorem lastOr_map_hi : ∀ (t : List Cell) (c : Cell) (a : Rat), lastOr a ((c :: t).map (·.2)) = lastHi c t
  | [], c, a => rfl
  | b :: t, c, a => by
    simp only [List.map_cons, lastOr, lastHi]
    exact lastOr_map_hi t b c.2

theorem chainOK_sound : ∀ (t : List Cell) (c : Cell), chainOK (c :: t) = true →
    (c :: t) = chainCells (c.1 :: (c :: t).map (·.2)) ∧ StrictSorted (c.1 :: (c :: t).map (·.2))
  | [], c, h => by
    simp only [chainOK, decide_eq_true_eq] at h
    exact ⟨rfl, h, trivial⟩
  | b :: t, c, h => by
    simp only [chainOK, Bool.and_eq_true, decide_eq_true_eq] at h
    obtain ⟨⟨h1, h2⟩, h3⟩ := h
    obtain ⟨e, s⟩ := chainOK_sound t b h3
    constructor
    · have : chainCells (c.1 :: (c :: b :: t).map (·.2)) =
          (c.1, c.2) :: chainCells (c.2 :: (b :: t).map (·.2)) := rfl
      rw [this, h2, ← e, ← h2]
    · refine ⟨h1, ?_⟩
      simp only [List.map_cons] at s ⊢
      rw [h2]; exact s

theorem sumTo_mul_blocks (nd : Nat) (g : Nat → Rat) : ∀ c : Nat,
    sumTo (c * nd) g = sumTo c (fun j => sumTo nd (fun b => g (j * nd + b)))
  | 0 => by simp [sumTo]
  | c + 1 => by
    rw [Nat.succ_mul, sumTo_split, sumTo_mul_blocks nd g c]
    simp only [sumTo]

theorem kron_block (A : Mat) (nd i j : Nat) (hi : i < A.r * nd) (hj : j < A.c) :
    sumTo nd (fun b => (A.kron nd).ent i (j * nd + b)) = A.ent (i / nd) j := by
  have hnd : 0 < nd := by
    rcases Nat.eq_zero_or_pos nd with h | h
    · subst h; simp at hi
    · exact h
  have hlt : ∀ b, b < nd → j * nd + b < A.c * nd := by
    intro b hb
    calc j * nd + b < j * nd + nd := by omega
      _ = (j + 1) * nd := by rw [Nat.succ_mul]
      _ ≤ A.c * nd := Nat.mul_le_mul_right nd hj
  rw [sumTo_congr nd _ (fun b => if i % nd = b then A.ent (i / nd) j else 0) (by
    intro b hb
    unfold Mat.kron
    rw [ent_table _ _ _ i (j * nd + b) hi (hlt b hb)]
    have e1 : (j * nd + b) % nd = b := by rw [Nat.mul_comm, Nat.mul_add_mod]; exact Nat.mod_eq_of_lt hb
    have e2 : (j * nd + b) / nd = j := by
      rw [Nat.mul_comm, Nat.mul_add_div hnd, Nat.div_eq_of_lt hb]; rfl
    rw [e1, e2])]
  rw [sumTo_single nd (i % nd) (Nat.mod_lt i hnd) _ (fun b _ hne => if_neg (fun h => hne h.symm))]
  simp


end PorepyVerif.C26
