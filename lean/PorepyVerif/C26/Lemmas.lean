/-
C26 — helper lemmas (finite sums, entries of tabulated matrices, row / column sums of products,
1-D overlap algebra).  Property theorems are in Props.lean.
-/
import PorepyVerif.C26.Model
import Mathlib.Tactic.Linarith
import Mathlib.Tactic.Ring

namespace PorepyVerif.C26

/-! ### finite sums -/

theorem sumTo_congr (n : Nat) (f g : Nat → Rat) (h : ∀ i, i < n → f i = g i) :
    sumTo n f = sumTo n g := by
  induction n with
  | zero => rfl
  | succ n ih =>
    simp only [sumTo]
    rw [ih (fun i hi => h i (Nat.lt_succ_of_lt hi)), h n (Nat.lt_succ_self n)]

theorem sumTo_zero (n : Nat) : sumTo n (fun _ => 0) = 0 := by
  induction n with
  | zero => rfl
  | succ n ih => simp only [sumTo, ih]; ring

theorem sumTo_eq_zero (n : Nat) (f : Nat → Rat) (h : ∀ i, i < n → f i = 0) : sumTo n f = 0 := by
  rw [sumTo_congr n f (fun _ => 0) h, sumTo_zero]

theorem sumTo_add (n : Nat) (f g : Nat → Rat) :
    sumTo n (fun i => f i + g i) = sumTo n f + sumTo n g := by
  induction n with
  | zero => simp [sumTo]
  | succ n ih => simp only [sumTo, ih]; ring

theorem sumTo_mul_left (n : Nat) (a : Rat) (f : Nat → Rat) :
    sumTo n (fun i => a * f i) = a * sumTo n f := by
  induction n with
  | zero => simp [sumTo]
  | succ n ih => simp only [sumTo, ih]; ring

theorem sumTo_mul_right (n : Nat) (a : Rat) (f : Nat → Rat) :
    sumTo n (fun i => f i * a) = sumTo n f * a := by
  induction n with
  | zero => simp [sumTo]
  | succ n ih => simp only [sumTo, ih]; ring

theorem sumTo_comm (n m : Nat) (f : Nat → Nat → Rat) :
    sumTo n (fun i => sumTo m (fun j => f i j)) = sumTo m (fun j => sumTo n (fun i => f i j)) := by
  induction n with
  | zero => simp [sumTo, sumTo_zero]
  | succ n ih => simp only [sumTo, ih, sumTo_add]

theorem sumTo_nonneg (n : Nat) (f : Nat → Rat) (h : ∀ i, i < n → 0 ≤ f i) : 0 ≤ sumTo n f := by
  induction n with
  | zero => simp [sumTo]
  | succ n ih =>
    simp only [sumTo]
    have := ih (fun i hi => h i (Nat.lt_succ_of_lt hi))
    have := h n (Nat.lt_succ_self n)
    linarith

/-- a sum with a single non-zero term -/
theorem sumTo_single (n k : Nat) (hk : k < n) (f : Nat → Rat) (h : ∀ i, i < n → i ≠ k → f i = 0) :
    sumTo n f = f k := by
  induction n with
  | zero => omega
  | succ n ih =>
    simp only [sumTo]
    by_cases hkn : k = n
    · subst hkn
      rw [sumTo_eq_zero k f (fun i hi => h i (Nat.lt_succ_of_lt hi) (by omega))]; ring
    · rw [ih (by omega) (fun i hi hne => h i (Nat.lt_succ_of_lt hi) hne), h n (Nat.lt_succ_self n) (by omega)]
      ring

theorem sumTo_split (n m : Nat) (f : Nat → Rat) :
    sumTo (n + m) f = sumTo n f + sumTo m (fun i => f (n + i)) := by
  induction m with
  | zero => simp [sumTo]
  | succ m ih =>
    rw [← Nat.add_assoc]
    simp only [sumTo, ih]; ring

/-- first term peeled off -/
theorem sumTo_succ_front (n : Nat) (f : Nat → Rat) :
    sumTo (n + 1) f = f 0 + sumTo n (fun i => f (i + 1)) := by
  induction n with
  | zero => simp [sumTo]
  | succ n ih =>
    rw [sumTo, ih]
    simp only [sumTo]; ring

/-! ### entries of tabulated matrices -/

theorem ent_table (r c : Nat) (f : Nat → Nat → Rat) (i j : Nat) (hi : i < r) (hj : j < c) :
    (table r c f).ent i j = f i j := by
  simp [table, Mat.ent, List.getD_eq_getElem?_getD, hi, hj]

theorem ent_table_row_oob (r c : Nat) (f : Nat → Nat → Rat) (i j : Nat) (hi : r ≤ i) :
    (table r c f).ent i j = 0 := by
  simp [table, Mat.ent, List.getD_eq_getElem?_getD, hi]

theorem ent_table_col_oob (r c : Nat) (f : Nat → Nat → Rat) (i j : Nat) (hj : c ≤ j) :
    (table r c f).ent i j = 0 := by
  by_cases hi : i < r
  · simp [table, Mat.ent, List.getD_eq_getElem?_getD, hi, hj]
  · simp [table, Mat.ent, List.getD_eq_getElem?_getD, Nat.le_of_not_lt hi]

@[simp] theorem table_r (r c : Nat) (f : Nat → Nat → Rat) : (table r c f).r = r := rfl
@[simp] theorem table_c (r c : Nat) (f : Nat → Nat → Rat) : (table r c f).c = c := rfl

theorem table_congr (r c : Nat) (f g : Nat → Nat → Rat) (h : ∀ i j, i < r → j < c → f i j = g i j) :
    table r c f = table r c g := by
  unfold table
  congr 1
  apply List.map_congr_left
  intro i hi
  apply List.map_congr_left
  intro j hj
  exact h i j (List.mem_range.mp hi) (List.mem_range.mp hj)


/-! ### products, transposes -/

@[simp] theorem mul_r (A B : Mat) : (A.mul B).r = A.r := rfl
@[simp] theorem mul_c (A B : Mat) : (A.mul B).c = B.c := rfl
@[simp] theorem T_r (A : Mat) : A.T.r = A.c := rfl
@[simp] theorem T_c (A : Mat) : A.T.c = A.r := rfl

theorem ent_mul (A B : Mat) (i j : Nat) (hi : i < A.r) (hj : j < B.c) :
    (A.mul B).ent i j = sumTo A.c (fun k => A.ent i k * B.ent k j) := ent_table _ _ _ i j hi hj

theorem ent_T (A : Mat) (i j : Nat) (hi : i < A.c) (hj : j < A.r) : A.T.ent i j = A.ent j i :=
  ent_table _ _ _ i j hi hj

/-- row sums of a product: `rowsum(AB)_i = Σ_k A_ik · rowsum(B)_k` -/
theorem rowSum_mul (A B : Mat) (i : Nat) (hi : i < A.r) :
    (A.mul B).rowSum i = sumTo A.c (fun k => A.ent i k * B.rowSum k) := by
  unfold Mat.rowSum
  rw [mul_c, sumTo_congr B.c _ _ (fun j hj => ent_mul A B i j hi hj), sumTo_comm]
  apply sumTo_congr
  intro k _
  rw [sumTo_mul_left]

/-- column sums of a product: `colsum(AB)_j = Σ_k colsum(A)_k · B_kj` -/
theorem colSum_mul (A B : Mat) (j : Nat) (hj : j < B.c) :
    (A.mul B).colSum j = sumTo A.c (fun k => A.colSum k * B.ent k j) := by
  unfold Mat.colSum
  rw [mul_r, sumTo_congr A.r _ _ (fun i hi => ent_mul A B i j hi hj), sumTo_comm]
  apply sumTo_congr
  intro k _
  rw [sumTo_mul_right]

theorem rowSum_T (A : Mat) (i : Nat) (hi : i < A.c) : A.T.rowSum i = A.colSum i := by
  unfold Mat.rowSum Mat.colSum
  rw [T_c]
  exact sumTo_congr _ _ _ (fun j hj => ent_T A i j hi hj)

theorem colSum_T (A : Mat) (j : Nat) (hj : j < A.r) : A.T.colSum j = A.rowSum j := by
  unfold Mat.rowSum Mat.colSum
  rw [T_r]
  exact sumTo_congr _ _ _ (fun i hi => ent_T A i j hi hj)

/-! ### 1-D overlaps -/

theorem rmax_comm (a b : Rat) : rmax a b = rmax b a := by
  unfold rmax; split_ifs <;> linarith

theorem rmin_comm (a b : Rat) : rmin a b = rmin b a := by
  unfold rmin; split_ifs <;> linarith

theorem ovl_comm (p q : Cell) : ovl p q = ovl q p := by
  unfold ovl; rw [rmin_comm p.2 q.2, rmax_comm p.1 q.1]

theorem ovl_nonneg (p q : Cell) : 0 ≤ ovl p q := by
  unfold ovl rmax; split_ifs <;> linarith

/-- the overlap with two adjacent intervals adds up to the overlap with their union -/
theorem ovl_add (p : Cell) (a b c : Rat) (hp : p.1 ≤ p.2) (hab : a ≤ b) (hbc : b ≤ c) :
    ovl p (a, b) + ovl p (b, c) = ovl p (a, c) := by
  unfold ovl rmax rmin
  simp only
  split_ifs <;> linarith

theorem ovl_degenerate (p : Cell) (a : Rat) (hp : p.1 ≤ p.2) : ovl p (a, a) = 0 := by
  unfold ovl rmax rmin
  simp only
  split_ifs <;> linarith

/-- a cell inside `[a, c]` overlaps it with its full length -/
theorem ovl_inside (p : Cell) (a c : Rat) (hp : p.1 ≤ p.2) (ha : a ≤ p.1) (hc : p.2 ≤ c) :
    ovl p (a, c) = len p := by
  unfold ovl rmax rmin len
  simp only
  split_ifs <;> linarith

end PorepyVerif.C26
