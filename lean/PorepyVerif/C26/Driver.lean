/- C26 line-protocol driver: `lake env lean --run PorepyVerif/C26/Driver.lean` -/
import PorepyVerif.Common.Wire
import PorepyVerif.C26.Model
open Lean PV PorepyVerif.C26

def toCell (l : List Rat) : R Cell :=
  match l with
  | [a, b] => pure (a, b)
  | _ => throw "cell needs two numbers"

def toCells (l : List (List Rat)) : R (List Cell) := l.mapM toCell

def toFace (l : List Rat) : R FaceRec :=
  match l with
  | [i, s, a, b] =>
    if i.den != 1 || i.num < 0 then throw "face index" else pure ⟨i.num.toNat, s != 0, (a, b)⟩
  | _ => throw "face record needs four numbers"

def toEntry (l : List Rat) : R (Nat × Nat × Rat) :=
  match l with
  | [s, p, d] =>
    if s.den != 1 || p.den != 1 || s.num < 0 || p.num < 0 then throw "entry index"
    else pure (s.num.toNat, p.num.toNat, d)
  | _ => throw "entry needs three numbers"

/-- flat prefix encoding of a refinement recipe: 0 | 1 s l r | 2 r | 3 u v r1 r2 r3 | 4 r1 r2 r3 r4 -/
def parseRef : Nat → List Rat → Option (Ref × List Rat)
  | 0, _ => none
  | _, [] => none
  | f + 1, tag :: rest =>
    if tag = 0 then some (.leaf, rest)
    else if tag = 1 then
      match rest with
      | s :: rest => do
        let (l, r1) ← parseRef f rest
        let (r, r2) ← parseRef f r1
        pure (.edge s l r, r2)
      | _ => none
    else if tag = 2 then do
      let (r, r1) ← parseRef f rest
      pure (.rot r, r1)
    else if tag = 3 then
      match rest with
      | u :: v :: rest => do
        let (a, r1) ← parseRef f rest
        let (b, r2) ← parseRef f r1
        let (c, r3) ← parseRef f r2
        pure (.centre u v a b c, r3)
      | _ => none
    else if tag = 4 then do
      let (a, r1) ← parseRef f rest
      let (b, r2) ← parseRef f r1
      let (c, r3) ← parseRef f r2
      let (e, r4) ← parseRef f r3
      pure (.red a b c e, r4)
    else none

def toRef (l : List Rat) : R Ref :=
  match parseRef (l.length + 1) l with
  | some (r, []) => pure r
  | _ => throw "bad recipe"

def toTri (l : List Rat) : R Tri :=
  match l with
  | [ax, ay, bx, b_y, cx, cy] => pure ⟨(ax, ay), (bx, b_y), (cx, cy)⟩
  | _ => throw "triangle needs six numbers"

def ofMat (A : Mat) : Json :=
  obj [("shape", ofNats [A.r, A.c]), ("rows", ofList ofRats A.rows)]

def dumpH (st : St) (hyp : Bool) : Json :=
  obj [("hyp", Json.bool hyp),
       ("primary_to_mortar_int", ofMat st.proj.p2mInt), ("primary_to_mortar_avg", ofMat st.proj.p2mAvg),
       ("secondary_to_mortar_int", ofMat st.proj.s2mInt), ("secondary_to_mortar_avg", ofMat st.proj.s2mAvg),
       ("mortar_to_primary_int", ofMat st.proj.m2pInt), ("mortar_to_primary_avg", ofMat st.proj.m2pAvg),
       ("mortar_to_secondary_int", ofMat st.proj.m2sInt), ("mortar_to_secondary_avg", ofMat st.proj.m2sAvg)]

/-- `tessPair` for every replaced side -/
def mortarHyp : List (List Cell) → List (Option (List Cell)) → Bool
  | g :: gs, some n :: ns => tessPair n g && mortarHyp gs ns
  | _ :: gs, none :: ns => mortarHyp gs ns
  | _, _ => true

def dump (st : St) : Json :=
  obj [("primary_to_mortar_int", ofMat st.proj.p2mInt), ("primary_to_mortar_avg", ofMat st.proj.p2mAvg),
       ("secondary_to_mortar_int", ofMat st.proj.s2mInt), ("secondary_to_mortar_avg", ofMat st.proj.s2mAvg),
       ("mortar_to_primary_int", ofMat st.proj.m2pInt), ("mortar_to_primary_avg", ofMat st.proj.m2pAvg),
       ("mortar_to_secondary_int", ofMat st.proj.m2sInt), ("mortar_to_secondary_avg", ofMat st.proj.m2sAvg)]

def stepOne (st : Option St) (j : Json) : R (Option St × Json) := do
  let op ← fStr j "op"
  match op, st with
  | "match2d", _ =>
    let parents ← (← fRatss j "parents").mapM toTri
    let recipes ← (← fRatss j "recipes").mapM toRef
    pure (st, obj [("averaged", ofMat (match2dNested parents recipes .averaged)),
                   ("integrated", ofMat (match2dNested parents recipes .integrated)),
                   ("areas2", ofRats ((kidsFrom 0 parents recipes).map fun x => area2 x.2))])
  | "init", _ =>
    let nsides ← fNat j "nsides"
    let numCells ← fNat j "num_cells"
    let nPrim ← fNat j "n_prim"
    let nSec ← fNat j "n_sec"
    let entries ← (← fRatss j "entries").mapM toEntry
    let dup ← field j "dup" >>= jOpt (jList jNat)
    let sides ← (← field j "sides" >>= jList (jList (jList jRat))).mapM toCells
    match initBase nsides numCells nPrim nSec entries dup with
    | none => pure (none, err "ValueError")
    | some (P, S) =>
      let s : St := ⟨initProj P S, sides, nSec⟩
      pure (some s, dumpH s (wellFormedB nPrim nSec entries))
  | _, none => pure (none, err "no-state")
  | "mortar", some s =>
    let raw ← field j "sides" >>= jList (jOpt (jList (jList jRat)))
    let ns ← raw.mapM (fun o => match o with
      | none => pure none
      | some l => some <$> toCells l)
    let s' := step s (.mortar ns)
    pure (some s', dumpH s' (mortarHyp s.sides ns))
  | "secondary", some s =>
    let cells ← toCells (← fRatss j "cells")
    let s' := step s (.secondary cells)
    pure (some s', dumpH s' (s.sides.all fun g => tessPair g cells))
  | "primary", some s =>
    let nNew ← fNat j "n_new"
    let old ← (← fRatss j "old").mapM toFace
    let new ← (← fRatss j "new").mapM toFace
    let s' := step s (.primary nNew old new)
    let oldC := old.filter fun f => covered s.proj.p2mInt f.idx
    pure (some s', dumpH s' (faceHypsB s.proj.p2mInt nNew oldC new true && faceHypsB s.proj.p2mInt nNew oldC new false))
  | "kron", some s =>
    let nd ← fNat j "nd"
    pure (some s, obj [("primary_to_mortar_avg_nd", ofMat (s.proj.p2mAvg.kron nd)),
                       ("mortar_to_secondary_int_nd", ofMat (s.proj.m2sInt.kron nd)),
                       ("sign", ofMat (signMat (s.sides.map (·.length))))])
  | _, _ => throw s!"unknown op {op}"

/-- one model state per interface (`"intf"`, default 0) -/
def stepJ (sts : List (Nat × St)) (j : Json) : R (List (Nat × St) × Json) := do
  let k ← match j.getObjVal? "intf" with
    | .ok v => jNat v
    | .error _ => pure 0
  let cur := (sts.find? (·.1 == k)).map (·.2)
  let (s', out) ← stepOne cur j
  let rest := sts.filter (·.1 != k)
  match s' with
  | some s => pure ((k, s) :: rest, out)
  | none => pure (rest, out)

def main : IO Unit := runDriver ([] : List (Nat × St)) stepJ
