/-
C26 — executable model of the mortar projection bookkeeping of
`porepy.grids.mortar_grid.MortarGrid` and of the 1-D overlap weights of
`porepy.grids.match_grids.match_1d` / `match_grids_along_1d_mortar` (core Lean only).

Matrices are dense row lists over `Rat` together with their shape.  Every operation builds its
result with `table r c f` (entry `(i,j)` is `f i j`), so the algebra can be read entry-wise:
`ent (table r c f) i j = f i j` for `i < r`, `j < c`.

What the code does                                     model
------------------------------------------------------ ---------------------------------------
`_init_projections` (index bookkeeping, two sides)      `initBase`
`_set_projections(primary, secondary)`                  `setProjections`
`update_mortar` (per-side match, `sps.bmat` diagonal)   `updateMortar` (matrices), `stepMortar` (geometry)
`update_secondary` (per-side match, stacked `bmat`)     `updateSecondary`, `stepSecondary`
`update_primary` / `match_grids_along_1d_mortar`        `updatePrimary`, `faceMatch`, `stepPrimary`
`match_1d(new, old, scaling)`                           `match1d`
-/
namespace PorepyVerif.C26

/-! ### dense matrices -/

abbrev Rows := List (List Rat)

structure Mat where
  r : Nat
  c : Nat
  rows : Rows

/-- entry `(i,j)`; `0` outside the stored rows (sparse matrices: unset entries are zero) -/
def Mat.ent (A : Mat) (i j : Nat) : Rat := (A.rows.getD i []).getD j 0

/-- `sumTo n f = f 0 + … + f (n-1)` -/
def sumTo : Nat → (Nat → Rat) → Rat
  | 0, _ => 0
  | n + 1, f => sumTo n f + f n

def table (r c : Nat) (f : Nat → Nat → Rat) : Mat :=
  ⟨r, c, (List.range r).map fun i => (List.range c).map fun j => f i j⟩

/-- normalise raw rows to shape `r × c` -/
def Mat.ofRows (r c : Nat) (rows : Rows) : Mat := table r c fun i j => (rows.getD i []).getD j 0

def Mat.mul (A B : Mat) : Mat := table A.r B.c fun i j => sumTo A.c fun k => A.ent i k * B.ent k j

/-- transpose (`.T`) -/
def Mat.T (A : Mat) : Mat := table A.c A.r fun i j => A.ent j i

def Mat.rowSum (A : Mat) (i : Nat) : Rat := sumTo A.c fun j => A.ent i j
def Mat.colSum (A : Mat) (j : Nat) : Rat := sumTo A.r fun i => A.ent i j

def Mat.identity (n : Nat) : Mat := table n n fun i j => if i = j then 1 else 0

/-- `sps.bmat([[A],[B]])` -/
def Mat.vcat (A B : Mat) : Mat :=
  table (A.r + B.r) A.c fun i j => if i < A.r then A.ent i j else B.ent (i - A.r) j

/-- `sps.bmat([[A,None],[None,B]])` -/
def Mat.diag2 (A B : Mat) : Mat :=
  table (A.r + B.r) (A.c + B.c) fun i j =>
    if i < A.r then (if j < A.c then A.ent i j else 0)
    else (if j < A.c then 0 else B.ent (i - A.r) (j - A.c))

/-- one block per mortar side, stacked (`update_secondary`) -/
def vstack (c : Nat) : List Mat → Mat
  | [] => table 0 c fun _ _ => 0
  | A :: l => A.vcat (vstack c l)

/-- one block per mortar side, on the diagonal (`update_mortar`) -/
def blockDiag : List Mat → Mat
  | [] => table 0 0 fun _ _ => 0
  | A :: l => A.diag2 (blockDiag l)

def Mat.add (A B : Mat) : Mat := table A.r A.c fun i j => A.ent i j + B.ent i j

/-! ### 1-D overlap weights (`match_1d`) -/

/-- a 1-D cell, as the parameter interval `[lo, hi]` along the common line -/
abbrev Cell := Rat × Rat

def rmax (a b : Rat) : Rat := if a ≤ b then b else a
def rmin (a b : Rat) : Rat := if a ≤ b then a else b

/-- common length of two cells (what `line_tessellation` reports; `0` for touching or disjoint) -/
def ovl (p q : Cell) : Rat := rmax 0 (rmin p.2 q.2 - rmax p.1 q.1)

def len (p : Cell) : Rat := p.2 - p.1

inductive Scaling where
  | averaged
  | integrated
  deriving DecidableEq

def cellAt (l : List Cell) (i : Nat) : Cell := l.getD i (0, 0)

/-- `match_1d(new_g, old_g, tol, scaling)`: shape `(new cells) × (old cells)`; overlap divided by the
    NEW cell's length (averaged, rows sum to one) or by the OLD cell's length (integrated, columns
    sum to one). -/
def match1d (newC oldC : List Cell) : Scaling → Mat
  | .averaged => table newC.length oldC.length fun i j =>
      ovl (cellAt newC i) (cellAt oldC j) / len (cellAt newC i)
  | .integrated => table newC.length oldC.length fun i j =>
      ovl (cellAt newC i) (cellAt oldC j) / len (cellAt oldC j)

/-- cells of the partition given by a node list `x₀, x₁, …, xₙ` -/
def chainCells : List Rat → List Cell
  | a :: b :: t => (a, b) :: chainCells (b :: t)
  | _ => []

/-- last node of the list `a :: xs` -/
def lastOr (a : Rat) : List Rat → Rat
  | [] => a
  | b :: t => lastOr b t

/-- strictly increasing node list -/
def StrictSorted : List Rat → Prop
  | a :: b :: t => a < b ∧ StrictSorted (b :: t)
  | _ => True

/-- `cells` is a tessellation of the segment with nodes `a :: xs`: its cells, in ANY order -/
def Tessellates (cells : List Cell) (a : Rat) (xs : List Rat) : Prop :=
  cells.Perm (chainCells (a :: xs)) ∧ StrictSorted (a :: xs)

/-! ### projections held by a mortar grid -/

structure Proj where
  p2mInt : Mat
  p2mAvg : Mat
  s2mInt : Mat
  s2mAvg : Mat
  m2pInt : Mat
  m2pAvg : Mat
  m2sInt : Mat
  m2sAvg : Mat

/-- `_set_projections(primary, secondary)` -/
def setProjections (st : Proj) (primary secondary : Bool) : Proj :=
  { st with
    m2pInt := if primary then st.p2mAvg.T else st.m2pInt
    m2pAvg := if primary then st.p2mInt.T else st.m2pAvg
    m2sInt := if secondary then st.s2mAvg.T else st.m2sInt
    m2sAvg := if secondary then st.s2mInt.T else st.m2sAvg }

/-- end of `__init__`: both base pairs are the matching 0/1 maps, then `_set_projections()` -/
def initProj (P S : Mat) : Proj :=
  setProjections ⟨P, P, S, S, P.T, P.T, S.T, S.T⟩ true true

/-- `update_mortar`: `mAvg`, `mInt` are the per-side matrices (identity for a side not replaced). -/
def updateMortar (st : Proj) (mAvg mInt : List Mat) : Proj :=
  let A := blockDiag mAvg
  let I := blockDiag mInt
  setProjections
    { st with
      p2mAvg := A.mul st.p2mAvg
      p2mInt := I.mul st.p2mInt
      s2mAvg := A.mul st.s2mAvg
      s2mInt := I.mul st.s2mInt } true true

/-- `update_secondary`: the maps from secondary are REPLACED by the stacked per-side matrices. -/
def updateSecondary (st : Proj) (nSec : Nat) (sAvg sInt : List Mat) : Proj :=
  setProjections { st with s2mAvg := vstack nSec sAvg, s2mInt := vstack nSec sInt } false true

/-- `update_primary`: right multiplication by the old-face × new-face matrices. -/
def updatePrimary (st : Proj) (sAvg sInt : Mat) : Proj :=
  setProjections { st with p2mInt := st.p2mInt.mul sInt, p2mAvg := st.p2mAvg.mul sAvg } true false

/-! ### `_init_projections` -/

/-- stable insertion sort of `(secondary, primary, data)` triplets by the secondary index
    (`np.argsort(secondary_f, kind="stable")`) -/
def insertBySec (t : Nat × Nat × Rat) : List (Nat × Nat × Rat) → List (Nat × Nat × Rat)
  | [] => [t]
  | a :: l => if t.1 ≤ a.1 then t :: a :: l else a :: insertBySec t l

def sortBySec : List (Nat × Nat × Rat) → List (Nat × Nat × Rat)
  | [] => []
  | t :: l => insertBySec t (sortBySec l)

/-- elements at even positions / at odd positions (`reshape((2,-1), order="F").ravel("C")`) -/
def evens : List α → List α
  | [] => []
  | [a] => [a]
  | a :: _ :: l => a :: evens l

def odds : List α → List α
  | [] => []
  | [_] => []
  | _ :: b :: l => b :: odds l

def countSec (c : Nat) (l : List (Nat × Nat × Rat)) : Nat := (l.filter fun t => t.1 = c).length

abbrev Ent := Nat × Nat × Rat

/-- `np.bincount(secondary_f)` has `max + 1` bins -/
def maxSecOf (l : List Ent) : Nat := l.foldl (fun m t => if m < t.1 then t.1 else m) 0

/-- the optional `face_duplicate_ind` reordering: faces listed as duplicates go last (two sides only) -/
def dupOrder (nsides : Nat) (entries : List Ent) : Option (List Nat) → List Ent
  | some d => if nsides = 2 then
      entries.filter (fun t => !(d.contains t.2.1)) ++ entries.filter (fun t => d.contains t.2.1)
    else entries
  | none => entries

/-- two sides: every lower-dimensional cell must be listed exactly twice -/
def countsOk (nsides : Nat) (e1 : List Ent) : Bool :=
  !(nsides = 2) || (List.range (maxSecOf e1 + 1)).all fun c => countSec c e1 = 2

/-- mortar cell order: all cells of side 1, then all cells of side 2 -/
def sideOrder (nsides : Nat) (sorted : List Ent) : List Ent :=
  if nsides = 2 then evens sorted ++ odds sorted else sorted

def pTable (numCells nPrim : Nat) (ordered : List Ent) : Mat :=
  table numCells nPrim fun i j => let t := ordered.getD i (0, 0, 0); if t.2.1 = j then t.2.2 else 0

def sTable (numCells nSec : Nat) (ordered : List Ent) : Mat :=
  table numCells nSec fun i j => let t := ordered.getD i (0, 0, 0); if t.1 = j then t.2.2 else 0

/-- `_init_projections`: `entries` is the coo listing `(secondary_f, primary_f, data)` of
    `primary_secondary` (shape `nSec × nPrim`); `dup` is `face_duplicate_ind`.
    `none` models the `ValueError`s. Result: `(primary_to_mortar, secondary_to_mortar)`. -/
def initBase (nsides numCells nPrim nSec : Nat) (entries : List Ent)
    (dup : Option (List Nat)) : Option (Mat × Mat) :=
  let e1 := dupOrder nsides entries dup
  if !countsOk nsides e1 then none else
  let ordered := sideOrder nsides (sortBySec e1)
  if ordered.length ≠ numCells then none else
  some (pTable numCells nPrim ordered, sTable numCells nSec ordered)

/-- well-formed `primary_secondary` map: unit data, every primary face at most once and in range,
    secondary indices in range and every secondary cell coupled -/
structure WellFormedMap (nPrim nSec : Nat) (entries : List Ent) : Prop where
  data : ∀ t ∈ entries, t.2.2 = 1
  prim : ∀ t ∈ entries, t.2.1 < nPrim
  nodup : (entries.map (·.2.1)).Nodup
  sec : ∀ t ∈ entries, t.1 < nSec
  all : ∀ c, c < nSec → ∃ t ∈ entries, t.1 = c

/-! ### `match_grids_along_1d_mortar` -/

/-- a face of the 2-D host lying on the fracture line: index, side of the line, parameter interval -/
structure FaceRec where
  idx : Nat
  pos : Bool
  cell : Cell

/-- selection matrix `face_map`: `k × n`, row `a` has a one in column `idx[a]` -/
def selMat (idx : List Nat) (n : Nat) : Mat :=
  table idx.length n fun a g => if idx.getD a n = g then 1 else 0

/-- one side's contribution `face_map_old.T * match_1d(old, new) * face_map_new` -/
def sideFaceMatch (nOld nNew : Nat) (old new : List FaceRec) (s : Scaling) : Mat :=
  ((selMat (old.map (·.idx)) nOld).T.mul (match1d (old.map (·.cell)) (new.map (·.cell)) s)).mul
    (selMat (new.map (·.idx)) nNew)

/-- a column of the (repaired) code's `faces_on_boundary_old`: faces with a stored nonzero in
    `_primary_to_mortar_int` -/
def covered (P : Mat) (j : Nat) : Bool := (List.range P.r).any fun i => P.ent i j != 0

/-- one side of the fracture; a side without faces in one of the two grids is skipped (`continue`) -/
def sideOrZero (nOld nNew : Nat) (o n : List FaceRec) (s : Scaling) : Mat :=
  if o.isEmpty || n.isEmpty then table nOld nNew fun _ _ => 0 else sideFaceMatch nOld nNew o n s

/-- `match_grids_along_1d_mortar(mg, g_new, g_old, tol, scaling)`: old faces × new faces, sum over the
    positive and the negative side of the fracture. -/
def faceMatch (P : Mat) (nNew : Nat) (old new : List FaceRec) (s : Scaling) : Mat :=
  let oldC := old.filter fun f => covered P f.idx
  (sideOrZero P.c nNew (oldC.filter (·.pos == true)) (new.filter (·.pos == true)) s).add
    (sideOrZero P.c nNew (oldC.filter (·.pos == false)) (new.filter (·.pos == false)) s)

/-! ### the state machine driven by geometry -/

structure St where
  proj : Proj
  /-- cells of the side grids, one list per mortar side, in `side_grids` order -/
  sides : List (List Cell)
  nSec : Nat

inductive Op where
  /-- `update_mortar`: per side position, the new side grid's cells (`none`: side not replaced) -/
  | mortar (newSides : List (Option (List Cell)))
  /-- `update_secondary` with the new secondary grid's cells -/
  | secondary (cells : List Cell)
  /-- `update_primary`: number of faces of the new host, fracture faces of the old and new host -/
  | primary (nNew : Nat) (old new : List FaceRec)

def mortarBlocks (s : Scaling) : List (List Cell) → List (Option (List Cell)) → List Mat
  | g :: gs, some n :: ns => match1d n g s :: mortarBlocks s gs ns
  | g :: gs, none :: ns => Mat.identity g.length :: mortarBlocks s gs ns
  | g :: gs, [] => Mat.identity g.length :: mortarBlocks s gs []
  | [], _ => []

def newSides : List (List Cell) → List (Option (List Cell)) → List (List Cell)
  | _ :: gs, some n :: ns => n :: newSides gs ns
  | g :: gs, none :: ns => g :: newSides gs ns
  | g :: gs, [] => g :: newSides gs []
  | [], _ => []

/-- the per-side matrix `update_mortar` uses: the match of the new against the old side grid, or the
    identity for a side that is not replaced -/
def blockOf (s : Scaling) (g : List Cell) : Option (List Cell) → Mat
  | some n => match1d n g s
  | none => Mat.identity g.length

def step (st : St) : Op → St
  | .mortar ns =>
    { st with
      proj := updateMortar st.proj (mortarBlocks .averaged st.sides ns) (mortarBlocks .integrated st.sides ns)
      sides := newSides st.sides ns }
  | .secondary cells =>
    { st with
      proj := updateSecondary st.proj cells.length
        (st.sides.map fun g => match1d g cells .averaged) (st.sides.map fun g => match1d g cells .integrated)
      nSec := cells.length }
  | .primary nNew old new =>
    { st with
      proj := updatePrimary st.proj (faceMatch st.proj.p2mInt nNew old new .averaged)
        (faceMatch st.proj.p2mInt nNew old new .integrated) }

def run (st : St) : List Op → St
  | [] => st
  | op :: ops => run (step st op) ops

/-! ### specification: the per-side view

Mortar cells are numbered side by side, so every grid-to-mortar matrix is the vertical stack of one
block per side.  `Side` holds the four blocks of one side. -/

structure Side where
  pInt : Mat
  pAvg : Mat
  sInt : Mat
  sAvg : Mat

/-- the matrices the mortar grid stores, from the per-side blocks -/
def stackSides (nP nS : Nat) (ss : List Side) : Proj :=
  let pI := vstack nP (ss.map (·.pInt))
  let pA := vstack nP (ss.map (·.pAvg))
  let sI := vstack nS (ss.map (·.sInt))
  let sA := vstack nS (ss.map (·.sAvg))
  ⟨pI, pA, sI, sA, pA.T, pI.T, sA.T, sI.T⟩

/-- shapes of one side's blocks -/
def Side.Shaped (nP nS : Nat) (s : Side) : Prop :=
  s.pInt.c = nP ∧ s.pAvg.c = nP ∧ s.sInt.c = nS ∧ s.sAvg.c = nS ∧
  s.pAvg.r = s.pInt.r ∧ s.sInt.r = s.pInt.r ∧ s.sAvg.r = s.pInt.r

/-- the matching interface `__init__` builds: mortar cell `i` of the side is face `pf i` of the
    primary and cell `sf i` of the secondary -/
def matchingSide (n nP nS : Nat) (pf sf : Nat → Nat) : Side :=
  let P := table n nP fun i j => if pf i = j then 1 else 0
  let S := table n nS fun i j => if sf i = j then 1 else 0
  ⟨P, P, S, S⟩

inductive SideUpd where
  /-- the side grid is replaced: left multiplication by the old-to-new mortar maps -/
  | mortar (mAvg mInt : Mat)
  /-- the secondary grid is replaced: the maps from secondary are overwritten -/
  | secondary (sAvg sInt : Mat)
  /-- the primary grid is replaced: right multiplication by the old-face-to-new-face maps -/
  | primary (fAvg fInt : Mat)

def Side.apply (s : Side) : SideUpd → Side
  | .mortar a i => ⟨i.mul s.pInt, a.mul s.pAvg, i.mul s.sInt, a.mul s.sAvg⟩
  | .secondary a i => { s with sInt := i, sAvg := a }
  | .primary a i => { s with pInt := s.pInt.mul i, pAvg := s.pAvg.mul a }

/-- what the property claims of one mortar side: `cov` marks the primary faces this side covers,
    `nP` / `nS` are the numbers of primary faces / secondary cells -/
structure SideInv (cov : Nat → Prop) (nP nS : Nat) (s : Side) : Prop where
  pInt_c : s.pInt.c = nP
  pAvg_c : s.pAvg.c = nP
  sInt_c : s.sInt.c = nS
  sAvg_c : s.sAvg.c = nS
  pAvg_r : s.pAvg.r = s.pInt.r
  sInt_r : s.sInt.r = s.pInt.r
  sAvg_r : s.sAvg.r = s.pInt.r
  /-- averaged map from primary: constants to constants -/
  pAvg_row : ∀ i, i < s.pInt.r → s.pAvg.rowSum i = 1
  /-- … and it only reads covered faces -/
  pAvg_supp : ∀ i j, ¬ cov j → s.pAvg.ent i j = 0
  /-- integrated map from primary: totals preserved on covered faces -/
  pInt_col : ∀ j, j < nP → cov j → s.pInt.colSum j = 1
  pInt_supp : ∀ i j, ¬ cov j → s.pInt.ent i j = 0
  /-- averaged map from secondary: constants to constants -/
  sAvg_row : ∀ i, i < s.pInt.r → s.sAvg.rowSum i = 1
  /-- integrated map from secondary: totals preserved -/
  sInt_col : ∀ j, j < nS → s.sInt.colSum j = 1

/-- ghost context of one side: covered primary faces and the grid sizes -/
structure Ctx where
  cov : Nat → Prop
  nP : Nat
  nS : Nat

/-- the hypotheses under which an update is meaningful: the matching matrices have the fitting
    shapes and the stochasticity `match_1d` delivers (theorems `match1d_avg_rowsum_one`,
    `match1d_int_colsum_one`).  `c'` is the context after the update. -/
def ValidUpd (c : Ctx) (s : Side) (c' : Ctx) : SideUpd → Prop
  | .mortar a i =>
    c'.cov = c.cov ∧ c'.nP = c.nP ∧ c'.nS = c.nS ∧ a.c = s.pInt.r ∧ i.c = s.pInt.r ∧ a.r = i.r ∧
    (∀ k, k < a.r → a.rowSum k = 1) ∧ (∀ k, k < s.pInt.r → i.colSum k = 1)
  | .secondary a i =>
    c'.cov = c.cov ∧ c'.nP = c.nP ∧ a.r = s.pInt.r ∧ i.r = s.pInt.r ∧ a.c = c'.nS ∧ i.c = c'.nS ∧
    (∀ k, k < s.pInt.r → a.rowSum k = 1) ∧ (∀ k, k < c'.nS → i.colSum k = 1)
  | .primary a i =>
    c'.nS = c.nS ∧ a.r = c.nP ∧ i.r = c.nP ∧ a.c = c'.nP ∧ i.c = c'.nP ∧
    (∀ f, f < c.nP → c.cov f → a.rowSum f = 1) ∧
    (∀ f g, c.cov f → ¬ c'.cov g → a.ent f g = 0) ∧
    (∀ g, g < c'.nP → c'.cov g → i.colSum g = 1) ∧
    (∀ f g, ¬ c.cov f → c'.cov g → i.ent f g = 0) ∧
    (∀ f g, c.cov f → ¬ c'.cov g → i.ent f g = 0)

/-- states of one side reachable from a state satisfying the invariant by valid updates -/
inductive Reachable : Ctx → Side → Prop where
  | init (c : Ctx) (s : Side) : SideInv c.cov c.nP c.nS s → Reachable c s
  | step (c c' : Ctx) (s : Side) (u : SideUpd) : Reachable c s → ValidUpd c s c' u →
      Reachable c' (s.apply u)

/-! ### specification: the whole interface, all eight projections -/

/-- what the property claims of ONE mortar side, for all eight projections: the side's blocks of the
    four grid-to-mortar matrices (`SideInv`) and, for the four mortar-to-grid matrices, the side's
    column blocks, which are the transposes of the former -/
structure EightOK (cov : Nat → Prop) (nP nS : Nat) (s : Side) : Prop where
  /-- primary_to_mortar_int / _avg, secondary_to_mortar_int / _avg -/
  inv : SideInv cov nP nS s
  /-- mortar_to_primary_int (= primary_to_mortar_avgᵀ): totals of every mortar cell are preserved -/
  m2pInt_col : ∀ i, i < s.pInt.r → s.pAvg.T.colSum i = 1
  /-- mortar_to_primary_avg (= primary_to_mortar_intᵀ): constants to constants on the covered faces -/
  m2pAvg_row : ∀ j, j < nP → cov j → s.pInt.T.rowSum j = 1
  /-- mortar_to_secondary_int (= secondary_to_mortar_avgᵀ) -/
  m2sInt_col : ∀ i, i < s.pInt.r → s.sAvg.T.colSum i = 1
  /-- mortar_to_secondary_avg (= secondary_to_mortar_intᵀ) -/
  m2sAvg_row : ∀ j, j < nS → s.sInt.T.rowSum j = 1

/-- a side together with the (ghost) set of primary faces it covers -/
abbrev CSide := Side × (Nat → Prop)

/-- Interface states (`nP` primary faces, `nS` secondary cells, per-side blocks `L`, stored matrices
    `pr`) reachable from a stack of sides satisfying the invariant — in particular from what the
    constructor builds (`constructor_reach_two`, `constructor_reach_one`) — by `update_mortar`,
    `update_secondary`, `update_primary` calls whose per-side matrices are valid (`ValidUpd`; the
    matrices of `match_1d` / `match_grids_along_1d_mortar` are: `mortar_update_valid`,
    `identity_update_valid`, `secondary_update_valid`, `face_update_valid`).  The stored matrices are
    updated by the CODE's operations (`updateMortar` with block-diagonal products, …). -/
inductive IReach : Nat → Nat → List CSide → Proj → Prop where
  | start (nP nS : Nat) (L : List CSide) :
      (∀ x ∈ L, SideInv x.2 nP nS x.1) → IReach nP nS L (stackSides nP nS (L.map (·.1)))
  | mortar (nP nS : Nat) (pr : Proj) (M : List (CSide × Mat × Mat)) :
      IReach nP nS (M.map (·.1)) pr →
      (∀ x ∈ M, ValidUpd ⟨x.1.2, nP, nS⟩ x.1.1 ⟨x.1.2, nP, nS⟩ (.mortar x.2.1 x.2.2)) →
      IReach nP nS (M.map fun x => (x.1.1.apply (.mortar x.2.1 x.2.2), x.1.2))
        (updateMortar pr (M.map (·.2.1)) (M.map (·.2.2)))
  | secondary (nP nS nS' : Nat) (pr : Proj) (M : List (CSide × Mat × Mat)) :
      IReach nP nS (M.map (·.1)) pr →
      (∀ x ∈ M, ValidUpd ⟨x.1.2, nP, nS⟩ x.1.1 ⟨x.1.2, nP, nS'⟩ (.secondary x.2.1 x.2.2)) →
      IReach nP nS' (M.map fun x => (x.1.1.apply (.secondary x.2.1 x.2.2), x.1.2))
        (updateSecondary pr nS' (M.map (·.2.1)) (M.map (·.2.2)))
  | primary (nP nS nP' : Nat) (pr : Proj) (a i : Mat) (M : List (CSide × (Nat → Prop))) :
      IReach nP nS (M.map (·.1)) pr → a.c = nP' → i.c = nP' →
      (∀ x ∈ M, ValidUpd ⟨x.1.2, nP, nS⟩ x.1.1 ⟨x.2, nP', nS⟩ (.primary a i)) →
      IReach nP' nS (M.map fun x => (x.1.1.apply (.primary a i), x.2)) (updatePrimary pr a i)

/-! ### 2-D mortar grids: nested (conforming) triangle refinements, `match_2d`

For a refinement in which every new triangle lies in one old triangle, the overlap of a new cell with
its parent is the new cell's area and with every other old cell zero — what `match_2d` gets from the
polygon intersections of `pp.intersections.triangulations`. -/

abbrev Pt := Rat × Rat

structure Tri where
  a : Pt
  b : Pt
  c : Pt

/-- twice the signed area -/
def area2 (t : Tri) : Rat :=
  (t.b.1 - t.a.1) * (t.c.2 - t.a.2) - (t.c.1 - t.a.1) * (t.b.2 - t.a.2)

def lerp (p q : Pt) (s : Rat) : Pt := (p.1 + s * (q.1 - p.1), p.2 + s * (q.2 - p.2))

def bary (t : Tri) (u v : Rat) : Pt :=
  (t.a.1 + u * (t.b.1 - t.a.1) + v * (t.c.1 - t.a.1), t.a.2 + u * (t.b.2 - t.a.2) + v * (t.c.2 - t.a.2))

/-- recipe of a nested refinement of one triangle `(a, b, c)` -/
inductive Ref where
  /-- keep the triangle -/
  | leaf
  /-- bisect: new node on the edge `b c` at parameter `s`, children `(a, b, m)` and `(a, m, c)` -/
  | edge (s : Rat) (l r : Ref)
  /-- relabel `(a, b, c)` as `(b, c, a)` (to reach the other edges) -/
  | rot (r : Ref)
  /-- new interior node `p = a + u (b - a) + v (c - a)`, children `(p, b, c)`, `(a, p, c)`, `(a, b, p)` -/
  | centre (u v : Rat) (r1 r2 r3 : Ref)
  /-- regular refinement by the three edge midpoints (four children) -/
  | red (r1 r2 r3 r4 : Ref)

def refine : Ref → Tri → List Tri
  | .leaf, t => [t]
  | .edge s l r, t =>
    let m := lerp t.b t.c s
    refine l ⟨t.a, t.b, m⟩ ++ refine r ⟨t.a, m, t.c⟩
  | .rot r, t => refine r ⟨t.b, t.c, t.a⟩
  | .centre u v r1 r2 r3, t =>
    let p := bary t u v
    refine r1 ⟨p, t.b, t.c⟩ ++ (refine r2 ⟨t.a, p, t.c⟩ ++ refine r3 ⟨t.a, t.b, p⟩)
  | .red r1 r2 r3 r4, t =>
    let mab := lerp t.a t.b (1 / 2)
    let mbc := lerp t.b t.c (1 / 2)
    let mca := lerp t.c t.a (1 / 2)
    refine r1 ⟨t.a, mab, mca⟩ ++ (refine r2 ⟨mab, t.b, mbc⟩ ++
      (refine r3 ⟨mca, mbc, t.c⟩ ++ refine r4 ⟨mab, mbc, mca⟩))

/-- new nodes strictly inside the edge / the triangle -/
def Ref.Valid : Ref → Prop
  | .leaf => True
  | .edge s l r => 0 < s ∧ s < 1 ∧ l.Valid ∧ r.Valid
  | .rot r => r.Valid
  | .centre u v r1 r2 r3 => 0 < u ∧ 0 < v ∧ u + v < 1 ∧ r1.Valid ∧ r2.Valid ∧ r3.Valid
  | .red r1 r2 r3 r4 => r1.Valid ∧ r2.Valid ∧ r3.Valid ∧ r4.Valid

/-- the cells of the refined grid with the index of their parent, parents numbered from `k` -/
def kidsFrom (k : Nat) : List Tri → List Ref → List (Nat × Tri)
  | p :: ps, r :: rs => (refine r p).map (fun c => (k, c)) ++ kidsFrom (k + 1) ps rs
  | _, _ => []

def triAt (l : List Tri) (j : Nat) : Tri := l.getD j ⟨(0, 0), (0, 0), (0, 0)⟩
def kidAt (l : List (Nat × Tri)) (i : Nat) : Nat × Tri := l.getD i (0, ⟨(0, 0), (0, 0), (0, 0)⟩)

/-- `match_2d(new_g, old_g, tol, scaling)` for a nested refinement: `new cells × old cells` -/
def match2dNested (parents : List Tri) (recipes : List Ref) : Scaling → Mat
  | .averaged => table (kidsFrom 0 parents recipes).length parents.length fun i j =>
      let kc := kidAt (kidsFrom 0 parents recipes) i
      if kc.1 = j then area2 kc.2 / area2 kc.2 else 0
  | .integrated => table (kidsFrom 0 parents recipes).length parents.length fun i j =>
      let kc := kidAt (kidsFrom 0 parents recipes) i
      if kc.1 = j then area2 kc.2 / area2 (triAt parents j) else 0

/-! ### decidable input conditions (evaluated by the driver on every case)

The theorems about `match_1d` assume that the cell lists tessellate one common segment, the
constructor theorems that the `primary_secondary` map is well formed.  These are conditions on the
INPUT; the functions below decide them, the driver reports them with every answer, and
`tessPair_sound` / `wellFormedB_sound` turn a `true` into the hypotheses of the theorems. -/

def insertCell (c : Cell) : List Cell → List Cell
  | [] => [c]
  | a :: l => if c.1 ≤ a.1 then c :: a :: l else a :: insertCell c l

def sortCells : List Cell → List Cell
  | [] => []
  | c :: l => insertCell c (sortCells l)

/-- consecutive cells share a node, every cell has positive length -/
def chainOK : List Cell → Bool
  | a :: b :: t => decide (a.1 < a.2) && decide (a.2 = b.1) && chainOK (b :: t)
  | [a] => decide (a.1 < a.2)
  | [] => true

def lastHi : Cell → List Cell → Rat
  | c, [] => c.2
  | _, b :: t => lastHi b t

/-- `(start, end)` of the segment covered by a non-empty sorted chain -/
def segOf (cells : List Cell) : Rat × Rat :=
  match sortCells cells with
  | [] => (0, 0)
  | c :: t => (c.1, lastHi c t)

def isTess (cells : List Cell) : Bool := chainOK (sortCells cells)

/-- both lists are non-empty tessellations of the same segment -/
def tessPair (n o : List Cell) : Bool :=
  isTess n && isTess o && !n.isEmpty && !o.isEmpty && decide (segOf n = segOf o)

/-- decidable form of `WellFormedMap` -/
def wellFormedB (nPrim nSec : Nat) (entries : List Ent) : Bool :=
  entries.all (fun t => decide (t.2.2 = 1)) && entries.all (fun t => decide (t.2.1 < nPrim)) &&
  decide ((entries.map (·.2.1)).Nodup) && entries.all (fun t => decide (t.1 < nSec)) &&
  (List.range nSec).all (fun c => entries.any fun t => decide (t.1 = c))

/-- decidable form of the hypotheses of `face_update_valid` for the mortar side on side `b` -/
def faceHypsB (P : Mat) (nNew : Nat) (old new : List FaceRec) (b : Bool) : Bool :=
  old.all (fun r => covered P r.idx) && decide ((old.map (·.idx)).Nodup) && decide ((new.map (·.idx)).Nodup) &&
  old.all (fun r => decide (r.idx < P.c)) && new.all (fun r => decide (r.idx < nNew)) &&
  tessPair ((old.filter (·.pos == b)).map (·.cell)) ((new.filter (·.pos == b)).map (·.cell))

/-! ### vector-valued variants (`nd`), sign convention -/

/-- `sparse_kronecker_product(A, nd)`: `A ⊗ I_nd` -/
def Mat.kron (A : Mat) (nd : Nat) : Mat :=
  table (A.r * nd) (A.c * nd) fun i j => if i % nd = j % nd then A.ent (i / nd) (j / nd) else 0

/-- `sign_of_mortar_sides`: diagonal, `-1` on the cells of the first of two sides, `+1` elsewhere -/
def signMat (sizes : List Nat) : Mat :=
  let n := sizes.foldl (· + ·) 0
  table n n fun i j => if i = j then (if sizes.length = 2 ∧ i < sizes.headD 0 then -1 else 1) else 0

end PorepyVerif.C26
